// Canonical printing shared with /verif/harness (langid.rs / locale.rs): keep in sync.
use unic_langid::LanguageIdentifier;
use unic_locale::extensions::ExtensionsMap;
use unic_locale::Locale;

pub fn esc(s: &str) -> String {
    let mut o = String::new();
    for &c in s.as_bytes() {
        if c < 0x20 || c > 0x7e || c == b'%' || c == b'"' || c == b'\\' { o.push_str(&format!("%{:02x}", c)); } else { o.push(c as char); }
    }
    o
}
pub fn hex(b: &[u8]) -> String { b.iter().map(|x| format!("{:02x}", x)).collect() }

pub fn fmt_li(li: &LanguageIdentifier) -> String {
    let dbg = format!("{:?}", li);
    let vs: Vec<&str> = li.variants().map(|v| v.as_str()).collect();
    let v = if dbg.contains("variants: None") { if !vs.is_empty() { "INCONSISTENT-variants".to_string() } else { "none".to_string() } } else { format!("[{}]", vs.join(",")) };
    format!("{}{} {} {} {} {}", li.language.as_str(), if li.language.is_empty() { "!" } else { "" },
        li.script.map(|s| s.as_str().to_string()).unwrap_or_else(|| "-".into()),
        li.region.map(|s| s.as_str().to_string()).unwrap_or_else(|| "-".into()), v, li)
}
fn kmap_u(e: &ExtensionsMap) -> String {
    let keys: Vec<String> = e.unicode.keyword_keys().map(|s| s.to_string()).collect();
    keys.iter().map(|k| match e.unicode.keyword(k.as_bytes()) { Ok(it) => format!("{}={}", k, it.collect::<Vec<_>>().join(",")), Err(_) => format!("{}=GETTER-ERR", k) }).collect::<Vec<_>>().join(";")
}
fn kmap_t(e: &ExtensionsMap) -> String {
    let keys: Vec<String> = e.transform.tfield_keys().map(|s| s.to_string()).collect();
    keys.iter().map(|k| match e.transform.tfield(k.as_bytes()) { Ok(it) => format!("{}={}", k, it.collect::<Vec<_>>().join(",")), Err(_) => format!("{}=GETTER-ERR", k) }).collect::<Vec<_>>().join(";")
}
pub fn fmt_ext(e: &ExtensionsMap) -> String {
    let attrs: Vec<&str> = e.unicode.attributes().collect();
    let tags: Vec<&str> = e.private.tags().collect();
    let tl = e.transform.tlang().map(fmt_li).unwrap_or_else(|| "-".into());
    let b = |x: bool| if x { "1" } else { "0" };
    format!("U[{}|{}] T[{}|{}] X[{}] E{}{}{}{}", attrs.join(","), kmap_u(e), tl, kmap_t(e), tags.join(","),
        b(e.unicode.is_empty()), b(e.transform.is_empty()), b(e.private.is_empty()), b(e.is_empty()))
}
pub fn fmt_loc(l: &Locale) -> String { format!("{} {} {}", fmt_li(&l.id), fmt_ext(&l.extensions), l) }
