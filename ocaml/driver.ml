(* driver.ml — hand-written glue around the extracted oracle (trusted, kept small).
   stdin : one case per line:  op TAB hexarg TAB hexarg ... TAB = TAB impl-result
           (impl-result is %XX-escaped text produced by the Rust harness)
   stdout: a JSON summary: per-op counts, model/impl disagreements, spec violations, samples. *)

let rec pos_of_int i =
  if i = 1 then Oracle.XH else if i land 1 = 0 then Oracle.XO (pos_of_int (i lsr 1)) else Oracle.XI (pos_of_int (i lsr 1))
let n_of_int i = if i = 0 then Oracle.N0 else Oracle.Npos (pos_of_int i)
let rec int_of_pos = function Oracle.XH -> 1 | Oracle.XO p -> 2 * int_of_pos p | Oracle.XI p -> 2 * int_of_pos p + 1
let int_of_n = function Oracle.N0 -> 0 | Oracle.Npos p -> int_of_pos p
let ntab = Array.init 256 n_of_int

let bytes_of_raw (s : string) : Oracle.n list =
  let r = ref [] in
  for i = String.length s - 1 downto 0 do r := ntab.(Char.code s.[i]) :: !r done; !r
let raw_of_bytes (l : Oracle.n list) : string =
  let b = Buffer.create 64 in
  List.iter (fun x -> Buffer.add_char b (Char.chr ((int_of_n x) land 255))) l; Buffer.contents b

let hexval c = match c with
  | '0'..'9' -> Char.code c - 48 | 'a'..'f' -> Char.code c - 87 | 'A'..'F' -> Char.code c - 55
  | _ -> failwith "bad hex"
let unhex (s : string) : string =
  let n = String.length s / 2 in
  String.init n (fun i -> Char.chr (hexval s.[2*i] * 16 + hexval s.[2*i+1]))
let unescape (s : string) : string =
  let b = Buffer.create (String.length s) in
  let i = ref 0 in
  let n = String.length s in
  while !i < n do
    if s.[!i] = '%' && !i + 2 < n + 0 then begin
      Buffer.add_char b (Char.chr (hexval s.[!i+1] * 16 + hexval s.[!i+2])); i := !i + 3 end
    else begin Buffer.add_char b s.[!i]; incr i end
  done; Buffer.contents b
let escape (s : string) : string =
  let b = Buffer.create (String.length s) in
  String.iter (fun c -> let k = Char.code c in
    if k < 0x20 || k > 0x7e || c = '%' || c = '"' || c = '\\' then Buffer.add_string b (Printf.sprintf "%%%02x" k)
    else Buffer.add_char b c) s; Buffer.contents b

type opstat = { mutable n : int; mutable ok : int; mutable mm : int; mutable sc : int; mutable sf : int }
let stats : (string, opstat) Hashtbl.t = Hashtbl.create 64
let stat op = match Hashtbl.find_opt stats op with Some s -> s | None ->
  let s = { n = 0; ok = 0; mm = 0; sc = 0; sf = 0 } in Hashtbl.add stats op s; s
let distinct : (int, unit) Hashtbl.t = Hashtbl.create 100000
let mismatches = ref [] and nmm = ref 0
let specfails = ref [] and nsf = ref 0
let samples = ref [] and total = ref 0
let keep = 40
(* input distribution, printed into the evidence: total argument bytes per case, number of arguments,
   and the leading word of the model's answer (OK / ERR / SAME / ...) *)
let size_hist = Array.make 6 0       (* 0-8, 9-32, 33-128, 129-1024, 1025-65536, larger *)
let argc_hist = Array.make 5 0       (* 1, 2, 3-8, 9-64, more *)
let kinds : (string, int ref) Hashtbl.t = Hashtbl.create 64
let bucket_size n = if n <= 8 then 0 else if n <= 32 then 1 else if n <= 128 then 2 else if n <= 1024 then 3 else if n <= 65536 then 4 else 5
let bucket_argc n = if n <= 1 then 0 else if n = 2 then 1 else if n <= 8 then 2 else if n <= 64 then 3 else 4
let lead_word (s : string) : string =
  let n = String.length s in
  let i = ref 0 in
  while !i < n && !i < 12 && (let c = s.[!i] in (c >= 'A' && c <= 'Z') || (c >= 'a' && c <= 'z') || c = '-') do incr i done;
  if !i = 0 then "(other)" else String.sub s 0 !i
let note_kind k =
  match Hashtbl.find_opt kinds k with
  | Some r -> incr r
  | None -> if Hashtbl.length kinds < 48 then Hashtbl.add kinds k (ref 1)

let split_tab s = String.split_on_char '\t' s

let json_str s = "\"" ^ escape s ^ "\""

let () =
  let only_eval = Array.length Sys.argv > 1 && Sys.argv.(1) = "eval" in
  (* "prop=Cxx": the property on whose behalf the specification is evaluated *)
  let prop = ref "" in
  Array.iter (fun a -> if String.length a > 5 && String.sub a 0 5 = "prop=" then prop := String.sub a 5 (String.length a - 5)) Sys.argv;
  let propb = bytes_of_raw !prop in
  (try
    while true do
      let line = input_line stdin in
      if String.length line > 0 && line.[0] <> '#' then begin
        match split_tab line with
        | [] -> ()
        | op :: rest ->
          let rec cut acc = function
            | "=" :: r -> (List.rev acc, String.concat "\t" r)
            | x :: r -> cut (x :: acc) r
            | [] -> (List.rev acc, "") in
          let (hargs, impl_esc) = cut [] rest in
          let args = List.map (fun h -> bytes_of_raw (unhex h)) hargs in
          let impl = unescape impl_esc in
          (* "par_<op>": the answer <op> gave while other threads were calling the library (harness: par_sweep); it
             is judged exactly like <op> *)
          let base = if String.length op > 4 && String.sub op 0 4 = "par_" then String.sub op 4 (String.length op - 4) else op in
          (* "seq_<op>": <op> was called on the first half of the arguments, then on the second half; the answer is the
             second call's and is judged like <op> on the second half (a pure function cannot remember the first call) *)
          let is_seq = String.length base > 4 && String.sub base 0 4 = "seq_" in
          let base = if is_seq then String.sub base 4 (String.length base - 4) else base in
          let rec drop n l = if n <= 0 then l else (match l with [] -> [] | _ :: r -> drop (n - 1) r) in
          let args = if is_seq then drop (List.length args / 2) args else args in
          let opb = bytes_of_raw base in
          let model = raw_of_bytes (Oracle.oracle_model opb args) in
          if only_eval then
            Printf.printf "%s\t%s\t=\t%s\n" op (String.concat "\t" hargs) (escape model)
          else begin
            let st = stat op in
            incr total;
            st.n <- st.n + 1;
            let bytes_total = List.fold_left (fun a h -> a + String.length h / 2) 0 hargs in
            size_hist.(bucket_size bytes_total) <- size_hist.(bucket_size bytes_total) + 1;
            argc_hist.(bucket_argc (List.length hargs)) <- argc_hist.(bucket_argc (List.length hargs)) + 1;
            note_kind (lead_word model);
            (* non-trivial = the model's answer is not an error / unusable-argument marker *)
            let lw = lead_word model in
            let nontrivial = not (List.mem lw ["ERR"; "Err"; "BADARG"; "LI-ERR"; "LOC-ERR"; "BOTH-ERR"; "PANIC"; "BADSTART"; "COMPILE-ERROR"; "UNKNOWN-OP"; "FUEL"; "(other)"; ""]) in
            if nontrivial then begin
              st.ok <- st.ok + 1;
              Hashtbl.replace distinct (Hashtbl.hash (op, hargs)) ()
            end;
            let t = !total in
            if t <= 3 || (t land (t - 1)) = 0 then
              samples := (op, hargs, impl_esc) :: !samples;
            let verdict = Oracle.oracle_spec propb opb args (bytes_of_raw impl) in
            let vtxt = (match verdict with None -> "none" | Some true -> "ok" | Some false -> "fail") in
            if model <> impl then begin
              st.mm <- st.mm + 1; incr nmm;
              if !nmm <= keep then mismatches := (op, hargs, impl_esc, escape model, vtxt) :: !mismatches
            end;
            (match verdict with
             | None -> ()
             | Some true -> st.sc <- st.sc + 1
             | Some false ->
               st.sc <- st.sc + 1; st.sf <- st.sf + 1; incr nsf;
               if !nsf <= keep then specfails := (op, hargs, impl_esc, escape model, vtxt) :: !specfails)
          end
      end
    done
  with End_of_file -> ());
  if not only_eval then begin
    let b = Buffer.create 4096 in
    let case (op, hargs, impl, model, v) =
      Printf.sprintf "{\"op\":%s,\"args_hex\":[%s],\"args\":[%s],\"impl\":%s,\"model\":%s,\"spec\":\"%s\"}"
        (json_str op) (String.concat "," (List.map json_str hargs))
        (String.concat "," (List.map (fun h -> json_str (unhex h)) hargs))
        (json_str impl) (json_str model) v in
    Buffer.add_string b "{";
    Buffer.add_string b (Printf.sprintf "\"total\":%d,\"distinct_nontrivial\":%d,\"model_mismatches\":%d,\"spec_failures\":%d,"
      !total (Hashtbl.length distinct) !nmm !nsf);
    Buffer.add_string b "\"ops\":{";
    let first = ref true in
    Hashtbl.iter (fun op s ->
      if not !first then Buffer.add_string b ","; first := false;
      Buffer.add_string b (Printf.sprintf "%s:{\"n\":%d,\"ok\":%d,\"model_mismatch\":%d,\"spec_checked\":%d,\"spec_fail\":%d}"
        (json_str op) s.n s.ok s.mm s.sc s.sf)) stats;
    Buffer.add_string b "},\"size_hist\":[";
    Buffer.add_string b (String.concat "," (Array.to_list (Array.map string_of_int size_hist)));
    Buffer.add_string b "],\"argc_hist\":[";
    Buffer.add_string b (String.concat "," (Array.to_list (Array.map string_of_int argc_hist)));
    Buffer.add_string b "],\"result_kinds\":{";
    let firstk = ref true in
    Hashtbl.iter (fun k r ->
      if not !firstk then Buffer.add_string b ","; firstk := false;
      Buffer.add_string b (Printf.sprintf "%s:%d" (json_str k) !r)) kinds;
    Buffer.add_string b "},\"mismatch_cases\":[";
    Buffer.add_string b (String.concat "," (List.rev_map case !mismatches));
    Buffer.add_string b "],\"spec_fail_cases\":[";
    Buffer.add_string b (String.concat "," (List.rev_map case !specfails));
    Buffer.add_string b "],\"samples\":[";
    Buffer.add_string b (String.concat "," (List.rev_map (fun (op, h, i) -> case (op, h, i, "", "")) !samples));
    Buffer.add_string b "]}\n";
    print_string (Buffer.contents b)
  end
