//! Suite `c20`: one seeded corpus of inputs and histories, identical in every feature configuration
//! (nothing here depends on a cargo feature except the op NAME of the direction query).
use crate::common::*;
use crate::gen;
use crate::{langid, likely, locale};

pub fn facade(v: &[u8]) -> String {
    // through the facade crates
    let a = unic_locale::Locale::from_bytes(v).map(|l| l.to_string()).map_err(|_| ());
    let b = unic_langid::LanguageIdentifier::from_bytes(v).map(|l| l.to_string()).map_err(|_| ());
    let c = unic_locale::canonicalize(v).map_err(|_| ());
    let d = unic_langid::canonicalize(v).map_err(|_| ());
    format!("{:?} {:?} {:?} {:?}", a, b, c, d)
}

pub fn run(out: &mut Out, tier: &str, rng: &mut Rng) {
    let thorough = tier == "thorough";
    let red = gen::tokens_reduced();
    let firsts = gen::first_tokens();
    for s in crate::corpus::REGRESS.iter() { let b = s.as_bytes(); out.case("locale", &[b], || locale::locale(b)); out.case("langid", &[b], || langid::langid(b)); }
    for s in crate::corpus::REALWORLD.iter() {
        let b = s.as_bytes();
        out.case("locale", &[b], || locale::locale(b)); out.case("langid", &[b], || langid::langid(b));
        out.case("li_canonicalize", &[b], || langid::li_canonicalize(b)); out.case("loc_canonicalize", &[b], || locale::loc_canonicalize(b));
        out.case("li_roundtrip", &[b], || langid::li_roundtrip(b)); out.case("facade", &[b], || facade(b));
    }
    for f in firsts.iter().take(6) { for a in red.iter() { for b in red.iter() {
        let s = gen::join(&[f, a, b], rng.next());
        out.case("locale", &[&s], || locale::locale(&s));
        out.case("langid", &[&s], || langid::langid(&s));
    } } }
    let n = if thorough { 100_000 } else { 8_000 };
    let mut pool: Vec<Vec<u8>> = vec![];
    for i in 0..n {
        let toks = gen::wf_locale_tokens(rng);
        let s = gen::render(rng, &toks);
        out.case("locale", &[&s], || locale::locale(&s));
        out.case("loc_canonicalize", &[&s], || locale::loc_canonicalize(&s));
        out.case("li_canonicalize", &[&s], || langid::li_canonicalize(&s));
        out.case("loc_roundtrip", &[&s], || locale::loc_roundtrip(&s));
        out.case("facade", &[&s], || facade(&s));
        let m = gen::mutate(rng, &s);
        out.case("locale", &[&m], || locale::locale(&m));
        out.case("langid", &[&m], || langid::langid(&m));
        out.case("facade", &[&m], || facade(&m));
        if i % 4 == 0 && pool.len() < 2000 { pool.push(s); }
    }
    for _ in 0..(if thorough { 50_000 } else { 5_000 }) {
        let a = rng.pick(&pool).clone();
        let b = rng.pick(&pool).clone();
        let f = rng.below(4) as u8;
        let (ra, rb) = (f & 1 == 1, f & 2 == 2);
        let fa: &[u8] = if ra { b"1" } else { b"0" }; let fb: &[u8] = if rb { b"1" } else { b"0" };
        out.case("loc_matches", &[&a, &b, fa, fb], || locale::loc_matches(&a, &b, ra, rb));
        out.case("loc_cmp", &[&a, &b], || locale::loc_cmp(&a, &b));
        // direction: the one documented difference (its op name carries the configuration)
        let cut: Vec<u8> = { let parts: Vec<&[u8]> = a.split(|c| *c == b'-' || *c == b'_').collect(); let p = parts.iter().position(|t| t.len() == 1).unwrap_or(parts.len()); gen::join(&parts[..p], 0) };
        out.case(likely::DIR_OP, &[&cut], || likely::direction(&cut));
    }
    // matches() on the identifiers whose likely script depends on the region: a likelysubtags build must answer the same
    {
        let mut dom: Vec<String> = vec![];
        for l in ["pa", "az", "uz", "ar", "ku"] { for s in ["", "Latn", "Cyrl", "Arab"] { for r in ["", "PK", "AF", "IR", "IN"] {
            let mut t = l.to_string();
            for p in [s, r] { if !p.is_empty() { t.push('-'); t.push_str(p); } }
            dom.push(t);
        } } }
        for a in dom.iter() { for b in dom.iter() { for f in 0..4u8 {
            let (ra, rb) = (f & 1 == 1, f & 2 == 2);
            let fa: &[u8] = if ra { b"1" } else { b"0" }; let fb: &[u8] = if rb { b"1" } else { b"0" };
            out.case("li_matches", &[a.as_bytes(), b.as_bytes(), fa, fb], || langid::li_matches(a.as_bytes(), b.as_bytes(), ra, rb));
        } } }
    }
    // histories without maximize / minimize (those are extra APIs)
    for i in 0..(if thorough { 30_000 } else { 3_000 }) {
        let start: Vec<u8> = if i % 3 == 0 { vec![] } else { rng.pick(&pool).clone() };
        let mut args: Vec<Vec<u8>> = vec![start];
        let len = 1 + rng.below(10);
        let mut k = 0;
        while k < len {
            let before = args.len();
            locale::rand_op_pub(rng, &mut args);
            if args[before] == b"M" || args[before] == b"N" { args.truncate(before); continue; }
            k += 1;
        }
        let refs: Vec<&[u8]> = args.iter().map(|v| v.as_slice()).collect();
        out.case("loc_hist", &refs, || locale::loc_hist(&refs));
    }
}
