//! Suite `locale`: C01, C03, C04, C05, C09, C10, C12, C13, C17 at Locale level.
use crate::common::*;
use crate::gen;
use crate::langid::{fmt_li, hash_of};
use std::str::FromStr;
use unic_langid_impl::subtags::{Language, Region, Script, Variant};
use unic_langid_impl::LanguageIdentifier;
use unic_locale_impl::extensions::{ExtensionType, ExtensionsMap};
use unic_locale_impl::Locale;

fn kmap_u(e: &ExtensionsMap) -> String {
    let (keys0, lf) = exact(e.unicode.keyword_keys());
    let keys: Vec<String> = keys0.iter().map(|s| format!("{}{}", s, lf)).collect();
    keys.iter()
        .map(|k| match e.unicode.keyword(k.as_bytes()) {
            Ok(it) => { let (vals, lf2) = exact(it); format!("{}={}{}", k, vals.join(","), lf2) }
            Err(_) => format!("{}=GETTER-ERR", k),
        })
        .collect::<Vec<_>>()
        .join(";")
}
fn kmap_t(e: &ExtensionsMap) -> String {
    let (keys0, lf) = exact(e.transform.tfield_keys());
    let keys: Vec<String> = keys0.iter().map(|s| format!("{}{}", s, lf)).collect();
    keys.iter()
        .map(|k| match e.transform.tfield(k.as_bytes()) {
            Ok(it) => { let (vals, lf2) = exact(it); format!("{}={}{}", k, vals.join(","), lf2) }
            Err(_) => format!("{}=GETTER-ERR", k),
        })
        .collect::<Vec<_>>()
        .join(";")
}
pub fn fmt_ext(e: &ExtensionsMap) -> String {
    let (attrs, lfa) = exact(e.unicode.attributes());
    let (tags, lft) = exact(e.private.tags());
    let tl = e.transform.tlang().map(fmt_li).unwrap_or_else(|| "-".into());
    let b = |x: bool| if x { "1" } else { "0" };
    format!(
        "U[{}{}|{}] T[{}|{}] X[{}{}] E{}{}{}{}",
        attrs.join(","), lfa, kmap_u(e), tl, kmap_t(e), tags.join(","), lft,
        b(e.unicode.is_empty()), b(e.transform.is_empty()), b(e.private.is_empty()), b(e.is_empty())
    )
}
pub fn fmt_loc(l: &Locale) -> String {
    format!("{} {} {}", fmt_li(&l.id), fmt_ext(&l.extensions), l)
}
pub fn locale(v: &[u8]) -> String {
    let r = Locale::from_bytes(v);
    if let Ok(s) = std::str::from_utf8(v) {
        let r2 = Locale::from_str(s);
        if r2.is_ok() != r.is_ok() || (r.is_ok() && r2.as_ref().ok() != r.as_ref().ok()) {
            return format!("INCONSISTENT from_str {:?} vs from_bytes {:?}", r2, r);
        }
    }
    if unic_locale::Locale::from_bytes(v).ok() != r.as_ref().ok().cloned() { return "INCONSISTENT unic_locale::Locale (facade) vs unic_locale_impl::Locale".into(); }
    match unic_locale_impl::parser::parse_locale(v) {
        Ok(l2) => if r.as_ref().ok() != Some(&l2) { return "INCONSISTENT parse_locale vs from_bytes".into(); },
        Err(_) => if r.is_ok() { return "INCONSISTENT parse_locale vs from_bytes".into(); },
    }
    if let Ok(l) = &r {
        if let Some(e) = fmt_flags(l) { return e; }
        if let Some(e) = fmt_flags(&l.extensions) { return e; }
    }
    match r { Ok(l) => format!("OK {}", fmt_loc(&l)), Err(_) => "ERR".into() }
}
pub fn loc_canonicalize(v: &[u8]) -> String {
    // the facade crate re-exports the same function
    if unic_locale::canonicalize(v).ok() != unic_locale_impl::canonicalize(v).ok() { return "INCONSISTENT unic_locale::canonicalize vs unic_locale_impl::canonicalize".into(); }
    match unic_locale_impl::canonicalize(v) {
        Ok(s) => match unic_locale_impl::canonicalize(&s) {
            Ok(s2) if s2 == s => format!("OK {}", s),
            other => format!("LAWFAIL canonicalize not idempotent: {} -> {:?}", s, other),
        },
        Err(_) => "ERR".into(),
    }
}
fn reparse(l: &Locale) -> &'static str {
    match Locale::from_bytes(l.to_string().as_bytes()) {
        Ok(l2) => if &l2 == l { "same" } else { "DIFF" },
        Err(_) => "REPARSE-ERR",
    }
}
pub fn loc_roundtrip(v: &[u8]) -> String {
    match Locale::from_bytes(v) {
        Ok(l) => if let Some(e) = fmt_flags(&l).or_else(|| fmt_flags(&l.id)) { e } else { format!("OK {}", reparse(&l)) },
        Err(_) => "ERR".into(),
    }
}
pub fn extmap(v: &[u8]) -> String {
    let r = ExtensionsMap::from_bytes(v);
    if let Ok(s) = std::str::from_utf8(v) {
        let r2 = ExtensionsMap::from_str(s);
        if r2 != r { return "INCONSISTENT from_str vs from_bytes".into(); }
    }
    match r {
        Ok(e) => {
            let s = e.to_string();
            let rt = match ExtensionsMap::from_bytes(s.as_bytes()) { Ok(e2) => if e2 == e { "same" } else { "DIFF" }, Err(_) => "REPARSE-ERR" };
            format!("OK {} {} {}", fmt_ext(&e), s, rt)
        }
        Err(_) => "ERR".into(),
    }
}
pub fn ext_type(v: &[u8]) -> String {
    if v.len() != 1 { return "BADARG".into(); }
    match ExtensionType::from_byte(v[0]) {
        Ok(ExtensionType::Unicode) => "OK u".into(),
        Ok(ExtensionType::Transform) => "OK t".into(),
        Ok(ExtensionType::Private) => "OK x".into(),
        Ok(ExtensionType::Other(c)) => format!("OK o{}", c),
        Err(_) => "ERR".into(),
    }
}
pub fn both(v: &[u8]) -> String {
    match LanguageIdentifier::from_bytes(v) {
        Ok(li) => match Locale::from_bytes(v) {
            Ok(l) => if l.id == li && l.extensions.is_empty() && l.to_string() == li.to_string() { "LI-OK LOC-SAME".into() } else { "LI-OK LOC-DIFF".into() },
            Err(_) => "LI-OK LOC-ERR".into(),
        },
        Err(_) => "LI-ERR".into(),
    }
}
/// C13, second sentence: the id of an accepted locale versus what LanguageIdentifier reads from the part of
/// the text before the first singleton (one-character) subtag
pub fn loc_prefix(v: &[u8]) -> String {
    match Locale::from_bytes(v) {
        Ok(l) => {
            let joined: Vec<u8> = before_first_singleton(v);
            match LanguageIdentifier::from_bytes(&joined) {
                Ok(li) => if li == l.id && li.to_string() == l.id.to_string() { "PRE-SAME".into() } else { "PRE-DIFF".into() },
                Err(_) => "PRE-ERR".into(),
            }
        }
        Err(_) => "LOC-ERR".into(),
    }
}
pub fn loc_conv(v: &[u8]) -> String {
    match Locale::from_bytes(v) {
        Ok(l) => {
            let li: LanguageIdentifier = l.clone().into();
            let back: Locale = li.clone().into();
            let li2: LanguageIdentifier = back.clone().into();
            if li2 != li { return "LAWFAIL LanguageIdentifier -> Locale -> LanguageIdentifier is not the identity".into(); }
            let r: &LanguageIdentifier = l.as_ref();
            if r != &li { return "LAWFAIL AsRef<LanguageIdentifier>".into(); }
            // the conversion carries the identifier it is given, whatever its internal representation:
            // rebuild it from its parts with the (safe) from_raw_parts_unchecked, variants always boxed
            let (lg, sc, rg, vs) = li.clone().into_parts();
            let raw = LanguageIdentifier::from_raw_parts_unchecked(lg, sc, rg, Some(vs.into_boxed_slice()));
            let via: Locale = raw.clone().into();
            if via.id != raw { return "LAWFAIL Locale::from(id).id differs from id (identifier rebuilt from raw parts)".into(); }
            let back2: LanguageIdentifier = via.into();
            if back2 != raw { return "LAWFAIL LanguageIdentifier -> Locale -> LanguageIdentifier is not the identity (raw parts)".into(); }
            if raw.to_string() != li.to_string() { return "LAWFAIL raw-parts rebuild prints differently".into(); }
            // whatever == says about the two representations, equal values hash equally and compare Equal
            if raw == li && (hash_of(&raw) != hash_of(&li) || raw.cmp(&li) != std::cmp::Ordering::Equal) {
                return "LAWFAIL equal identifiers hash or order differently (raw-parts rebuild)".into();
            }
            // Clone::clone_from must leave an equal value whatever the target held before
            let mut c: Locale = "ca-ES-valencia-u-foo-ca-buddhist-t-de-h0-hybrid-x-bar".parse().unwrap();
            c.clone_from(&l);
            if c != l || c.to_string() != l.to_string() { return "LAWFAIL clone_from(&x) != x (Locale)".into(); }
            let mut ci: LanguageIdentifier = "ca-Latn-ES-valencia-fonipa".parse().unwrap();
            ci.clone_from(&li);
            if ci != li || hash_of(&ci) != hash_of(&li) || ci.cmp(&li) != std::cmp::Ordering::Equal { return "LAWFAIL clone_from(&x) != x (LanguageIdentifier)".into(); }
            format!("{} {}", fmt_li(&li), fmt_loc(&back))
        }
        Err(_) => "BADARG".into(),
    }
}
pub fn loc_into_parts(v: &[u8]) -> String {
    match Locale::from_bytes(v) {
        Ok(l) => {
            let (lg, sc, rg, vs, ext) = l.clone().into_parts();
            match ext.parse::<ExtensionsMap>() {
                Ok(e) => if Locale::from_parts(lg, sc, rg, &vs, Some(e)) == l { "OK same".into() } else { "DIFF".into() },
                Err(_) => "EXT-REPARSE-ERR".into(),
            }
        }
        Err(_) => "BADARG".into(),
    }
}
fn before_first_singleton(v: &[u8]) -> Vec<u8> {
    let mut pre: Vec<&[u8]> = Vec::new();
    for t in v.split(|c| *c == b'-' || *c == b'_') {
        if t.len() == 1 { break; }
        pre.push(t);
    }
    pre.join(&b'-')
}
/// a Locale BUILT through the API rather than parsed: the identifier read from the text before the first
/// singleton becomes both the id and (through set_tlang) the tlang; then C17 (into_parts / from_parts) and
/// C05 (to_string / parse) on that value.  Reaches tlang shapes that a defective parser would never produce.
pub fn loc_built(v: &[u8]) -> String {
    let li = match LanguageIdentifier::from_bytes(&before_first_singleton(v)) { Ok(x) => x, Err(_) => return "BADARG".into() };
    let mut loc = Locale::from(li.clone());
    if loc.extensions.transform.set_tlang(li.clone()).is_err() { return "LAWFAIL set_tlang rejected a parsed identifier".into(); }
    if loc.extensions.transform.tlang() != Some(&li) { return "LAWFAIL tlang() differs from what set_tlang stored".into(); }
    let text = loc.to_string();
    match text.parse::<Locale>() {
        Ok(back) => if back != loc { return format!("LAWFAIL parse(to_string) differs: {}", text); },
        Err(_) => return format!("LAWFAIL to_string does not parse: {}", text),
    }
    let (lg, sc, rg, vs, ext) = loc.clone().into_parts();
    match ext.parse::<ExtensionsMap>() {
        Ok(e) => if Locale::from_parts(lg, sc, rg, &vs, Some(e)) != loc { return format!("LAWFAIL from_parts(into_parts) differs: {}", text); },
        Err(_) => return format!("LAWFAIL the extension string of into_parts does not parse: {}", ext),
    }
    // from_parts takes the variants in any order, with duplicates (C17) - with and without an extensions map
    let mut shuffled = vs.clone(); shuffled.reverse(); if let Some(d) = shuffled.first().copied() { shuffled.push(d); }
    for with_ext in [true, false] {
        let e = if with_ext { ext.parse::<ExtensionsMap>().ok() } else { None };
        let built = Locale::from_parts(lg, sc, rg, &shuffled, e);
        let mut want = loc.clone();
        if !with_ext { want.extensions = ExtensionsMap::default(); }
        if built != want || built.to_string() != want.to_string() {
            return format!("LAWFAIL from_parts with reversed + repeated variants ({}) differs: {} vs {}", if with_ext { "Some(extensions)" } else { "None" }, built, want);
        }
    }
    format!("OK {}", text)
}
pub fn loc_matches(a: &[u8], b: &[u8], ra: bool, rb: bool) -> String {
    match (Locale::from_bytes(a), Locale::from_bytes(b)) {
        (Ok(x), Ok(y)) => {
            let m = x.matches(&y, ra, rb);
            if y.matches(&x, rb, ra) != m { return "LAWFAIL not symmetric".into(); }
            // the answer is a function of the VALUES: the same object and an equal copy must agree
            if x.matches(&x, ra, rb) != x.matches(&x.clone(), ra, rb) || y.matches(&y, ra, rb) != y.matches(&y.clone(), ra, rb) {
                return "LAWFAIL matches() depends on object identity".into();
            }
            // extensions other than -x- never matter - not -u- / -t- content, and not an entry in the public `other` map
            let mut xo = x.clone();
            xo.extensions.other.insert('a', vec!["foo".parse::<tinystr::TinyStr8>().unwrap()]);
            if xo.matches(&y, ra, rb) != m || y.matches(&xo, rb, ra) != m { return "LAWFAIL matches() depends on an entry of ExtensionsMap::other".into(); }
            // a LanguageIdentifier can be matched against a Locale's id directly
            let m2 = x.id.matches(&y, ra, rb);
            format!("{} {}", m, m2)
        }
        _ => "BADARG".into(),
    }
}
pub fn loc_cmp(a: &[u8], b: &[u8]) -> String {
    match (Locale::from_bytes(a), Locale::from_bytes(b)) {
        (Ok(x), Ok(y)) => {
            let c = x.cmp(&y);
            if x.partial_cmp(&y) != Some(c) { return "LAWFAIL partial_cmp".into(); }
            if y.cmp(&x) != c.reverse() { return "LAWFAIL cmp not antisymmetric".into(); }
            let eq = x == y;
            if eq && hash_of(&x) != hash_of(&y) { return "LAWFAIL equal values hash differently".into(); }
            if eq != (c == std::cmp::Ordering::Equal) { return "LAWFAIL cmp/eq disagree".into(); }
            format!("{:?} {} {}", c, eq, x.to_string() == y.to_string())
        }
        _ => "BADARG".into(),
    }
}

// ---------------------------------------------------------------- histories (C10)
fn blist(it: impl Iterator<Item = String>) -> String { format!("[{}]", it.collect::<Vec<_>>().join(",")) }
fn res_unit<E>(r: Result<(), E>) -> String { match r { Ok(()) => "ok".into(), Err(_) => "ERR".into() } }
fn res_bool<E>(r: Result<bool, E>) -> String { match r { Ok(b) => format!("{}", b), Err(_) => "ERR".into() } }

fn apply(l: &mut Locale, code: u8, pl: &[&[u8]]) -> String {
    let p0: &[u8] = pl.get(0).copied().unwrap_or(&[]);
    match code {
        b'L' => { if p0.is_empty() { l.id.language = Language::default(); "ok".into() } else { match Language::from_bytes(p0) { Ok(x) => { l.id.language = x; "ok".into() } Err(_) => "ERR".into() } } }
        b'S' => { if p0.is_empty() { l.id.script = None; "ok".into() } else { match Script::from_bytes(p0) { Ok(x) => { l.id.script = Some(x); "ok".into() } Err(_) => "ERR".into() } } }
        b'R' => { if p0.is_empty() { l.id.region = None; "ok".into() } else { match Region::from_bytes(p0) { Ok(x) => { l.id.region = Some(x); "ok".into() } Err(_) => "ERR".into() } } }
        b'V' => { let mut vs = vec![]; for a in pl { match Variant::from_bytes(a) { Ok(x) => vs.push(x), Err(_) => return "ERR".into() } } l.id.set_variants(&vs); "ok".into() }
        b'v' => { l.id.clear_variants(); "ok".into() }
        b'h' => match Variant::from_bytes(p0) { Ok(x) => format!("{}", l.id.has_variant(x)), Err(_) => "ERR".into() },
        b'k' => match l.extensions.unicode.keyword(p0) { Ok(it) => blist(it.map(|s| s.to_string())), Err(_) => "ERR".into() },
        b'K' => res_unit(l.extensions.unicode.set_keyword(p0, &pl[1.min(pl.len())..])),
        b'r' => res_bool(l.extensions.unicode.remove_keyword(p0)),
        b'c' => { l.extensions.unicode.clear_keywords(); "ok".into() }
        b'a' => res_bool(l.extensions.unicode.has_attribute(p0)),
        b'A' => res_unit(l.extensions.unicode.set_attribute(p0)),
        b'd' => res_bool(l.extensions.unicode.remove_attribute(p0)),
        b'e' => { l.extensions.unicode.clear_attributes(); "ok".into() }
        b'G' => match LanguageIdentifier::from_bytes(p0) { Ok(x) => res_unit(l.extensions.transform.set_tlang(x)), Err(_) => "ERR".into() },
        b'g' => { l.extensions.transform.clear_tlang(); "ok".into() }
        b'f' => match l.extensions.transform.tfield(p0) { Ok(it) => blist(it.map(|s| s.to_string())), Err(_) => "ERR".into() },
        b'F' => res_unit(l.extensions.transform.set_tfield(p0, &pl[1.min(pl.len())..])),
        b'm' => res_bool(l.extensions.transform.remove_tfield(p0)),
        b'n' => { l.extensions.transform.clear_tfields(); "ok".into() }
        b'p' => res_bool(l.extensions.private.has_tag(p0)),
        b'P' => res_unit(l.extensions.private.add_tag(p0)),
        b'q' => res_bool(l.extensions.private.remove_tag(p0)),
        b'Q' => { l.extensions.private.clear_tags(); "ok".into() }
        #[cfg(feature = "likely")]
        b'M' => format!("{}", l.id.maximize()),
        #[cfg(feature = "likely")]
        b'N' => format!("{}", l.id.minimize()),
        _ => "NOOP".into(),
    }
}

/// args: start, then (code, count, payload...)*
pub fn loc_hist(args: &[&[u8]]) -> String {
    if args.is_empty() { return "BADARG".into(); }
    let mut l = if args[0].is_empty() { Locale::default() } else { match Locale::from_bytes(args[0]) { Ok(l) => l, Err(_) => return "BADSTART".into() } };
    let mut i = 1;
    let mut out: Vec<String> = vec![];
    while i + 1 < args.len() + 0 && i < args.len() {
        let code = args[i].first().copied().unwrap_or(0);
        let n: usize = std::str::from_utf8(args[i + 1]).ok().and_then(|s| s.parse().ok()).unwrap_or(0);
        let end = (i + 2 + n).min(args.len());
        let pl = &args[i + 2..end];
        let before = l.clone();
        let r = apply(&mut l, code, pl);
        if r == "ERR" && l != before { out.push("LAWFAIL value changed by a call that returned an error".into()); }
        // C17 on every reachable value: taking the value apart and putting it together again gives the value back
        {
            let (lg, sc, rg, vs, ext) = l.clone().into_parts();
            match ext.parse::<ExtensionsMap>() {
                Ok(e) => if Locale::from_parts(lg, sc, rg, &vs, Some(e)) != l { out.push(format!("LAWFAIL from_parts(into_parts(value)) differs for {}", l)); },
                Err(_) => out.push(format!("LAWFAIL from_parts: the extension string of into_parts does not parse: {}", ext)),
            }
        }
        out.push(format!("{} {} {}", r, fmt_loc(&l), reparse(&l)));
        i = end;
    }
    out.join(" ## ")
}

// ---------------------------------------------------------------- big inputs (C01: time, stack)
pub fn big_input(kind: &[u8], n: usize) -> Vec<u8> {
    let unit: &[u8] = match kind {
        b"variants" => b"-valencia",
        b"attrs" => b"-foobar",
        b"keywords" => b"-ca-buddhist",
        b"tfields" => b"-h0-hybrid",
        b"priv" => b"-abc",
        b"dashes" | b"gap" => b"-",
        b"junk" => b"-*",
        b"long" => b"a",
        _ => b"-x",
    };
    let mut v: Vec<u8> = match kind { b"attrs" | b"keywords" => b"en-u".to_vec(), b"tfields" => b"en-t".to_vec(), b"priv" => b"en-x".to_vec(), _ => b"en".to_vec() };
    for _ in 0..n { v.extend_from_slice(unit); }
    if kind == b"gap" { v.extend_from_slice(b"u-ca-buddhist-t-de-h0-hybrid-x-a"); }
    v
}
pub fn big(kind: &[u8], n: &[u8]) -> String {
    let n: usize = std::str::from_utf8(n).ok().and_then(|s| s.parse().ok()).unwrap_or(0);
    let v = big_input(kind, n);
    let t0 = std::time::Instant::now();
    let _ = Locale::from_bytes(&v).map(|l| l.to_string().len());
    let _ = LanguageIdentifier::from_bytes(&v).map(|l| l.to_string().len());
    let _ = ExtensionsMap::from_bytes(&v[2.min(v.len())..]).map(|l| l.to_string().len());
    let _ = unic_locale_impl::canonicalize(&v);
    let dt = t0.elapsed().as_secs_f64();
    if dt > 20.0 { format!("SLOW {:.1}s", dt) } else { "DONE".into() }
}

// ---------------------------------------------------------------- metamorphic pairs (C09)
pub fn loc_meta(a: &[u8], b: &[u8]) -> String {
    match (Locale::from_bytes(a), Locale::from_bytes(b)) {
        (Err(_), Err(_)) => "BOTH-ERR".into(),
        (Ok(x), Ok(y)) => if x == y && x.to_string() == y.to_string() { "SAME".into() } else { format!("DIFF {} vs {}", x, y) },
        (Ok(x), Err(_)) => format!("DIFF {} vs ERR", x),
        (Err(_), Ok(y)) => format!("DIFF ERR vs {}", y),
    }
}
pub fn ext_meta(a: &[u8], b: &[u8]) -> String {
    match (ExtensionsMap::from_bytes(a), ExtensionsMap::from_bytes(b)) {
        (Err(_), Err(_)) => "BOTH-ERR".into(),
        (Ok(x), Ok(y)) => if x == y && x.to_string() == y.to_string() { "SAME".into() } else { format!("DIFF {} vs {}", x, y) },
        (Ok(x), Err(_)) => format!("DIFF {} vs ERR", x),
        (Err(_), Ok(y)) => format!("DIFF ERR vs {}", y),
    }
}
pub fn li_meta(a: &[u8], b: &[u8]) -> String {
    match (LanguageIdentifier::from_bytes(a), LanguageIdentifier::from_bytes(b)) {
        (Err(_), Err(_)) => "BOTH-ERR".into(),
        (Ok(x), Ok(y)) => if x == y && x.to_string() == y.to_string() { "SAME".into() } else { format!("DIFF {} vs {}", x, y) },
        (Ok(x), Err(_)) => format!("DIFF {} vs ERR", x),
        (Err(_), Ok(y)) => format!("DIFF ERR vs {}", y),
    }
}
fn recase(rng: &mut Rng, s: &[u8]) -> Vec<u8> {
    let mut o = Vec::with_capacity(s.len());
    for &c in s {
        let c = match rng.below(3) { 0 => c.to_ascii_uppercase(), 1 => c.to_ascii_lowercase(), _ => c };
        let c = if c == b'-' || c == b'_' { if rng.chance(1, 2) { b'-' } else { b'_' } } else { c };
        o.push(c);
    }
    o
}
fn shuffle<T>(rng: &mut Rng, v: &mut Vec<T>) { for k in (1..v.len()).rev() { let j = rng.below(k + 1); v.swap(k, j); } }
/// a structured well-formed locale and an equivalent rewriting of it
fn meta_pair(rng: &mut Rng) -> (Vec<u8>, Vec<u8>) {
    let lang = gen::rand_lang(rng);
    let sc = if rng.chance(1, 2) { Some(gen::rand_script(rng)) } else { None };
    let rg = if rng.chance(1, 2) { Some(gen::rand_region(rng)) } else { None };
    let vars: Vec<String> = (0..rng.below(4)).map(|_| gen::rand_variant(rng)).collect();
    let attrs: Vec<String> = (0..rng.below(4)).map(|_| gen::rand_attr(rng)).collect();
    let mut kws: Vec<(String, Vec<String>)> = vec![];
    for _ in 0..rng.below(4) { let k = gen::rand_ukey(rng).to_lowercase(); if kws.iter().any(|(x, _)| *x == k) { continue; } let vs = (0..rng.below(3)).map(|_| gen::rand_utype(rng)).collect(); kws.push((k, vs)); }
    let mut tfs: Vec<(String, Vec<String>)> = vec![];
    for _ in 0..rng.below(3) { let k = gen::rand_tkey(rng); if tfs.iter().any(|(x, _)| *x == k) { continue; } let vs = (0..1 + rng.below(2)).map(|_| gen::rand_tvalue(rng)).collect(); tfs.push((k, vs)); }
    let tlang: Option<Vec<String>> = if rng.chance(1, 3) { let mut t = gen::wf_langid_tokens(rng); if t[0] == "und" && t.len() == 1 { t[0] = "de".into(); } Some(t) } else { None };
    let privs: Vec<String> = if rng.chance(1, 4) { (0..1 + rng.below(3)).map(|_| gen::rand_priv(rng)).collect() } else { vec![] };
    let build = |vars: &[String], attrs: &[String], kws: &[(String, Vec<String>)], tfs: &[(String, Vec<String>)], u_first: bool| -> Vec<String> {
        let mut t = vec![lang.clone()];
        if let Some(s) = &sc { t.push(s.clone()); }
        if let Some(s) = &rg { t.push(s.clone()); }
        t.extend(vars.iter().cloned());
        let mut u = vec![];
        if !attrs.is_empty() || !kws.is_empty() { u.push("u".to_string()); u.extend(attrs.iter().cloned()); for (k, vs) in kws { u.push(k.clone()); u.extend(vs.iter().cloned()); } }
        let mut tr = vec![];
        if tlang.is_some() || !tfs.is_empty() { tr.push("t".to_string()); if let Some(tl) = &tlang { tr.extend(tl.iter().cloned()); } for (k, vs) in tfs { tr.push(k.clone()); tr.extend(vs.iter().cloned()); } }
        if u_first { t.extend(u); t.extend(tr); } else { t.extend(tr); t.extend(u); }
        if !privs.is_empty() { t.push("x".into()); t.extend(privs.iter().cloned()); }
        t
    };
    let a = build(&vars, &attrs, &kws, &tfs, true);
    let (mut v2, mut a2, mut k2, mut t2) = (vars.clone(), attrs.clone(), kws.clone(), tfs.clone());
    shuffle(rng, &mut v2); shuffle(rng, &mut a2); shuffle(rng, &mut k2); shuffle(rng, &mut t2);
    if !v2.is_empty() && rng.chance(1, 3) { let d = v2[rng.below(v2.len())].clone(); v2.push(d); }
    if !a2.is_empty() && rng.chance(1, 3) { let d = a2[rng.below(a2.len())].clone(); a2.insert(0, d); }
    let b = build(&v2, &a2, &k2, &t2, rng.chance(1, 2));
    let ra = gen::render(rng, &a);
    let rb0 = gen::render(rng, &b);
    let rb = recase(rng, &rb0);
    (ra, rb)
}

// ---------------------------------------------------------------- generators
fn parse_ops(out: &mut Out, s: &[u8]) {
    out.case("locale", &[s], || locale(s));
    out.case("loc_canonicalize", &[s], || loc_canonicalize(s));
    out.case("both", &[s], || both(s));
    out.case("loc_prefix", &[s], || loc_prefix(s));
}
fn value_ops(out: &mut Out, s: &[u8]) {
    out.case("loc_roundtrip", &[s], || loc_roundtrip(s));
    out.case("loc_into_parts", &[s], || loc_into_parts(s));
    out.case("loc_conv", &[s], || loc_conv(s));
    out.case("loc_built", &[s], || loc_built(s));
}

const HIST_ARGS: [&str; 36] = [
    "foo", "bar", "Foo", "abcdefgh", "abcdefghi", "ab", "", "true", "ca", "CA", "nu", "h0", "H0", "k1", "1a", "a1",
    "buddhist", "hybrid", "a", "b", "b*", "x", "latn", "12345", "zz9", "TRUE",
    // legacy CLDR boolean values and the boolean collation keys, special words, a digit-digit key
    "yes", "no", "YES", "kn", "kk", "va", "posix", "root", "und", "11",
];
const HIST_CODES: &[u8] = b"LSRVvhkKrcaAdeGgfFmnpPqQMN";

/// one step of a growth history: mostly adds of fresh entries to ONE collection, plus re-adds (other case),
/// removals and queries of entries known to be present
fn grow_op(rng: &mut Rng, ops: &mut Vec<Vec<u8>>, focus: usize, have: &mut Vec<Vec<u8>>) {
    let r = rng.below(20);
    if r >= 18 { rand_op(rng, ops); return; }
    let fresh = |rng: &mut Rng| -> Vec<u8> {
        match focus { 0 => gen::rand_variant(rng), 1 => gen::rand_attr(rng), 2 => gen::rand_ukey(rng), 3 => gen::rand_tkey(rng), _ => gen::rand_priv_num(rng) }.into_bytes()
    };
    let (add, rem, has): (u8, u8, u8) = match focus { 0 => (b'V', b'V', b'h'), 1 => (b'A', b'd', b'a'), 2 => (b'K', b'r', b'k'), 3 => (b'F', b'm', b'f'), _ => (b'P', b'q', b'p') };
    let recase = |rng: &mut Rng, v: &[u8]| -> Vec<u8> { v.iter().map(|c| if rng.chance(1, 3) { c.to_ascii_uppercase() } else { *c }).collect() };
    let mut pl: Vec<Vec<u8>> = vec![];
    let code;
    if r < 13 || have.is_empty() {
        let x = fresh(rng);
        if focus != 4 { have.retain(|y| !y.eq_ignore_ascii_case(&x)); }
        have.push(x.clone());
        code = add;
        if focus == 0 { pl = have.clone(); shuffle(rng, &mut pl); if rng.chance(1, 4) { let d = pl[0].clone(); pl.push(d); } }
        else { pl.push(x); }
        if focus == 2 { for _ in 0..rng.below(4) { pl.push(gen::rand_utype(rng).into_bytes()); } }
        if focus == 3 { for _ in 0..(1 + rng.below(2)) { pl.push(gen::rand_tvalue(rng).into_bytes()); } }
    } else if r < 15 {
        let y = rng.pick(have).clone();
        let x = recase(rng, &y);
        code = add;
        if focus == 0 { pl = have.clone(); pl.push(x); shuffle(rng, &mut pl); }
        else { if focus == 4 { have.push(x.to_ascii_lowercase()); } pl.push(x); }
        if focus == 2 { for _ in 0..rng.below(3) { pl.push(gen::rand_utype(rng).into_bytes()); } }
        if focus == 3 { pl.push(gen::rand_tvalue(rng).into_bytes()); }
    } else if r < 17 {
        let k = rng.below(have.len());
        let x = have.remove(k);
        code = rem;
        if focus == 0 { pl = have.clone(); shuffle(rng, &mut pl); } else { pl.push(recase(rng, &x)); }
    } else if focus == 0 && have.len() >= 2 && rng.chance(1, 2) {
        // set_variants with as many arguments as are stored, all of them stored, one repeated
        code = add;
        let drop = rng.below(have.len());
        have.remove(drop);
        pl = have.clone();
        let d = rng.pick(&pl).clone();
        pl.push(recase(rng, &d));
        shuffle(rng, &mut pl);
    } else {
        code = has;
        pl.push(if rng.chance(2, 3) { let y = rng.pick(have).clone(); recase(rng, &y) } else { fresh(rng) });
    }
    ops.push(vec![code]);
    ops.push(pl.len().to_string().into_bytes());
    ops.extend(pl);
}

pub fn rand_op_pub(rng: &mut Rng, ops: &mut Vec<Vec<u8>>) { rand_op(rng, ops) }
fn rand_op(rng: &mut Rng, ops: &mut Vec<Vec<u8>>) {
    let code = *rng.pick(HIST_CODES);
    let mut pl: Vec<Vec<u8>> = vec![];
    let word = |rng: &mut Rng| -> Vec<u8> {
        if rng.chance(1, 10) { let mut v = rng.pick(&HIST_ARGS).as_bytes().to_vec(); if !v.is_empty() { let i = rng.below(v.len()); v[i] = *rng.pick(b"*\x00\x80 -"); } v }
        else { rng.pick(&HIST_ARGS).as_bytes().to_vec() }
    };
    match code {
        b'L' => pl.push(rng.pick(&["en", "fr", "und", "", "ar", "EN", "e1", "abcd", "az"]).as_bytes().to_vec()),
        b'S' => pl.push(rng.pick(&["Latn", "", "cyrl", "Arab", "Lat", "1234"]).as_bytes().to_vec()),
        b'R' => pl.push(rng.pick(&["US", "", "rs", "419", "U", "4199", "IR"]).as_bytes().to_vec()),
        b'V' => { for _ in 0..rng.below(4) { pl.push(rng.pick(&["valencia", "macos", "1996", "MACOS", "abcd", "posix", "nedis"]).as_bytes().to_vec()); } }
        b'h' => pl.push(rng.pick(&["valencia", "macos", "1996", "abcd", "POSIX"]).as_bytes().to_vec()),
        b'G' => pl.push(rng.pick(&["en-US", "de", "und-Latn", "sr_cyrl-rs-VALENCIA", "e1", "en-u-ca"]).as_bytes().to_vec()),
        b'K' | b'F' => { pl.push(word(rng)); for _ in 0..rng.below(3) { pl.push(word(rng)); } }
        b'v' | b'c' | b'e' | b'g' | b'n' | b'Q' | b'M' | b'N' => {}
        _ => pl.push(word(rng)),
    }
    ops.push(vec![code]);
    ops.push(pl.len().to_string().into_bytes());
    ops.extend(pl);
}

pub fn run(out: &mut Out, tier: &str, rng: &mut Rng) {
    let thorough = tier == "thorough";
    let full = gen::tokens_full();
    let red = gen::tokens_reduced();
    let firsts = gen::first_tokens();
    out.comment("state carried from one call to the next: ordered pairs of the corpus (one case = two calls)");
    {
        let c: Vec<Vec<u8>> = crate::langid::par_inputs().into_iter().step_by(if thorough { 1 } else { 3 }).collect();
        for x in c.iter() { for y in c.iter() { if x != y { out.case("seq_locale", &[x, y], || { let _ = locale(x); locale(y) }); } } }
    }
    out.comment("non-ASCII look-alikes: one character replaced by one that a Unicode-aware mapping would fold to ASCII");
    for b in gen::LOOKALIKE_BASES.iter() { for s in gen::lookalikes(b) { parse_ops(out, s.as_bytes()); out.case("extmap", &[s.as_bytes()], || extmap(s.as_bytes())); } }
    out.comment("regression corpus (minimised earlier failures), always first");
    par_stage(out, "par_locale", crate::langid::par_inputs(), locale, if thorough { 300 } else { 30 });
    for s in crate::corpus::REGRESS.iter() { parse_ops(out, s.as_bytes()); value_ops(out, s.as_bytes()); }
    // whatever of these the implementation accepts (lenient zone, repeated keys, `other` extensions it may choose to
    // support) must still satisfy C12 against its own canonical string: == iff equal strings, Equal iff ==
    for s in crate::corpus::REGRESS.iter().chain(["en-a-foo", "en-a-foo-b-bar", "de-1-abc", "en-u-ca-buddhist-a-foo", "en-a-foo-x-p", "en-u-ca-a-ca-b",
                                                 "en-t-h0-a-h0-b", "en--u-foo", "en-u", "en-t-h0"].iter()) {
        if let Some(Ok(c)) = gen_call(|| Locale::from_bytes(s.as_bytes()).map(|l| l.to_string())) {
            out.case("loc_cmp", &[s.as_bytes(), c.as_bytes()], || loc_cmp(s.as_bytes(), c.as_bytes()));
            out.case("loc_cmp", &[c.as_bytes(), s.as_bytes()], || loc_cmp(c.as_bytes(), s.as_bytes()));
        }
    }
    out.comment("real-world tags");
    for s in crate::corpus::REALWORLD.iter() { parse_ops(out, s.as_bytes()); value_ops(out, s.as_bytes()); }
    for a in crate::corpus::REALWORLD.iter().take(40) { for b in crate::corpus::REALWORLD.iter().take(40) {
        let (a, b) = (a.as_bytes(), b.as_bytes());
        out.case("loc_cmp", &[a, b], || loc_cmp(a, b));
        out.case("loc_matches", &[a, b, b"1", b"0"], || loc_matches(a, b, true, false));
    } }
    for b in 0..=255u8 { out.case("ext_type", &[&[b]], || ext_type(&[b])); }
    out.comment("G2: token sequences");
    for f in firsts.iter() {
        parse_ops(out, f);
        for a in full.iter() {
            parse_ops(out, &gen::join(&[f, a], rng.next()));
            for b in full.iter() {
                let s = gen::join(&[f, a, b], rng.next());
                parse_ops(out, &s);
                if thorough { for c in red.iter() { parse_ops(out, &gen::join(&[f, a, b, c], rng.next())); } }
            }
        }
    }
    for f in firsts.iter().take(2) {
        for a in red.iter() { for b in red.iter() { for c in red.iter() {
            parse_ops(out, &gen::join(&[f, a, b, c], rng.next()));
            if thorough { for d in red.iter() { parse_ops(out, &gen::join(&[f, a, b, c, d], rng.next())); } }
        } } }
    }
    // extension-focused: en-<singleton>-<3 tokens over the reduced alphabet>
    for sing in ["u", "t", "x", "U", "T"] {
        for a in red.iter() { for b in red.iter() { for c in red.iter() {
            let s = gen::join(&[b"en", sing.as_bytes(), a, b, c], 0);
            parse_ops(out, &s);
            out.case("extmap", &[&s[3..]], || extmap(&s[3..]));
        } } }
    }
    out.comment("G3/G4/G5: random well-formed locales, mutations");
    let n = if thorough { 400_000 } else { 40_000 };
    let mut pool: Vec<Vec<u8>> = vec![];
    for i in 0..n {
        let toks = gen::wf_locale_tokens(rng);
        let s = gen::render(rng, &toks);
        parse_ops(out, &s);
        value_ops(out, &s);
        let m = gen::mutate(rng, &s);
        parse_ops(out, &m);
        value_ops(out, &m);
        if i % 4 == 0 && pool.len() < 4000 { pool.push(s); }
    }
    out.comment("G3L: long well-formed locales (about 60-250 subtags), tail edits and mutations");
    let n = if thorough { 20_000 } else { 1_500 };
    let tails: [&[u8]; 12] = [b"-*", b"-u-ca", b"-abcdefghi", b"-t-en", b"-a-foo", b"--", b"-x-", b"-1", b"-x-abcdefghi", b"-t-h0", b"-u-u", b"-x-a-b"];
    for _ in 0..n {
        let toks = gen::wf_long_locale_tokens(rng);
        let s = gen::render(rng, &toks);
        parse_ops(out, &s);
        value_ops(out, &s);
        let mut m = s.clone(); m.extend_from_slice(*rng.pick(&tails));
        parse_ops(out, &m);
        let m = gen::mutate(rng, &s);
        parse_ops(out, &m);
        if let Some(p) = toks.iter().position(|t| t.len() == 1) {
            let parts: Vec<&[u8]> = toks[p..].iter().map(|t| t.as_bytes()).collect();
            let e = gen::join(&parts, rng.next());
            out.case("extmap", &[&e], || extmap(&e));
        }
    }
    out.comment("ExtensionsMap::from_bytes on extension strings");
    let n = if thorough { 100_000 } else { 10_000 };
    for _ in 0..n {
        let toks = gen::wf_locale_tokens(rng);
        let s = gen::render(rng, &toks);
        // cut after the language identifier: from the first singleton
        let parts: Vec<&[u8]> = s.split(|c| *c == b'-' || *c == b'_').collect();
        if let Some(p) = parts.iter().position(|t| t.len() == 1) {
            let e = gen::join(&parts[p..], rng.next());
            out.case("extmap", &[&e], || extmap(&e));
            let mut e2 = vec![b'-']; e2.extend_from_slice(&e);
            out.case("extmap", &[&e2], || extmap(&e2));
            let m = gen::mutate(rng, &e);
            out.case("extmap", &[&m], || extmap(&m));
        }
    }
    out.comment("C11/C12: pairs");
    let n = if thorough { 200_000 } else { 20_000 };
    for _ in 0..n {
        let a = rng.pick(&pool).clone();
        let b = if rng.chance(1, 4) { gen_call(|| Locale::from_bytes(&a).map(|x| x.to_string()).unwrap_or_default()).unwrap_or_default().into_bytes() } else { rng.pick(&pool).clone() };
        let f = rng.below(4) as u8;
        let (ra, rb) = (f & 1 == 1, f & 2 == 2);
        let fa: &[u8] = if ra { b"1" } else { b"0" }; let fb: &[u8] = if rb { b"1" } else { b"0" };
        out.case("loc_matches", &[&a, &b, fa, fb], || loc_matches(&a, &b, ra, rb));
        out.case("loc_cmp", &[&a, &b], || loc_cmp(&a, &b));
    }
    out.comment("C12: same id, every component of the extensions varied independently (components that order in opposite directions)");
    {
        let us = ["", "-u-aaa", "-u-bbb", "-u-aaa-bbb", "-u-ca-gregory", "-u-nu-latn", "-u-aaa-nu-latn", "-u-bbb-ca-gregory", "-u-aaa-ca-gregory-nu-latn", "-u-bbb-ca-buddhist", "-u-ca", "-u-aaa-ca"];
        let ts = ["", "-t-de", "-t-es", "-t-de-h0-hybrid", "-t-es-d0-fwidth", "-t-h0-hybrid", "-t-m0-names", "-t-de-latn-m0-names", "-t-es-419-h0-hybrid-m0-names"];
        let xs = ["", "-x-a", "-x-b", "-x-a-b"];
        let ids = ["en-US", "de", "und-Latn"];
        let mut grid: Vec<String> = vec![];
        for u in us.iter() { for t_ in ts.iter() { for x in xs.iter() { grid.push(format!("{}{}{}", t_, u, x)); } } }
        let n = if thorough { 120_000 } else { 12_000 };
        for i in 0..n {
            let id = ids[i % ids.len()];
            let a = format!("{}{}", id, rng.pick(&grid));
            let b = format!("{}{}", id, rng.pick(&grid));
            out.case("loc_cmp", &[a.as_bytes(), b.as_bytes()], || loc_cmp(a.as_bytes(), b.as_bytes()));
        }
    }
    out.comment("C11/C12: near pairs (one character apart)");
    let n = if thorough { 60_000 } else { 6_000 };
    for _ in 0..n {
        let ta = gen::wf_locale_tokens(rng);
        let tb = gen::tweak(rng, &ta);
        let (a, b) = (gen::render(rng, &ta), gen::render(rng, &tb));
        out.case("loc_cmp", &[&a, &b], || loc_cmp(&a, &b));
        out.case("loc_cmp", &[&b, &a], || loc_cmp(&b, &a));
        out.case("loc_matches", &[&a, &b, b"0", b"0"], || loc_matches(&a, &b, false, false));
    }
    out.comment("C09: -u- before -t- or after, over a grid of bodies INCLUDING EMPTY ones (an empty-bodied extension last in one order, not in the other)");
    for pre in ["en", "en-US", "de-1996", "und-Latn"] { for ub in ["", "-foo", "-ca-buddhist", "-foo-ca-buddhist", "-ca", "-foo-bar-nu-latn-arab"] {
        for tb in ["", "-de", "-h0-hybrid", "-de-h0-hybrid", "-de-latn-at", "-h0"] { for suf in ["", "-x-a", "-x"] { for (su, st) in [("u", "t"), ("U", "T")] {
            let a = format!("{}-{}{}-{}{}{}", pre, su, ub, st, tb, suf);
            let b = format!("{}-{}{}-{}{}{}", pre, st, tb, su, ub, suf);
            out.case("loc_meta", &[a.as_bytes(), b.as_bytes()], || loc_meta(a.as_bytes(), b.as_bytes()));
            let (ea, eb) = (&a[pre.len()..], &b[pre.len()..]);
            out.case("ext_meta", &[ea.as_bytes(), eb.as_bytes()], || ext_meta(ea.as_bytes(), eb.as_bytes()));
            out.case("ext_meta", &[ea[1..].as_bytes(), eb[1..].as_bytes()], || ext_meta(ea[1..].as_bytes(), eb[1..].as_bytes()));
        } } }
    } }
    out.comment("C09: metamorphic pairs");
    let n = if thorough { 300_000 } else { 30_000 };
    for _ in 0..n {
        let (a, b) = meta_pair(rng);
        out.case("loc_meta", &[&a, &b], || loc_meta(&a, &b));
        // the langid parts alone
        let cut = |s: &[u8]| -> Vec<u8> { let parts: Vec<&[u8]> = s.split(|c| *c == b'-' || *c == b'_').collect(); let p = parts.iter().position(|t| t.len() == 1).unwrap_or(parts.len()); gen::join(&parts[..p], 0) };
        let (la, lb) = (cut(&a), cut(&b));
        out.case("li_meta", &[&la, &lb], || li_meta(&la, &lb));
        // the extension parts alone, through ExtensionsMap::from_bytes (with and without the leading separator)
        let tail = |s: &[u8]| -> Vec<u8> { let parts: Vec<&[u8]> = s.split(|c| *c == b'-' || *c == b'_').collect(); match parts.iter().position(|t| t.len() == 1) {
            Some(p) => { let keep: usize = parts[..p].iter().map(|t| t.len() + 1).sum(); s[keep.saturating_sub(1).min(s.len())..].to_vec() } None => vec![] } };
        let (ea, eb) = (tail(&a), tail(&b));
        if !ea.is_empty() && !eb.is_empty() {
            out.case("ext_meta", &[&ea, &eb], || ext_meta(&ea, &eb));
            out.case("ext_meta", &[&ea[1..], &eb[1..]], || ext_meta(&ea[1..], &eb[1..]));
        }
        // arbitrary (mostly ill-formed) strings: only case / separator changes
        let m = gen::mutate(rng, &a);
        let m2 = recase(rng, &m);
        out.case("loc_meta", &[&m, &m2], || loc_meta(&m, &m2));
        out.case("li_meta", &[&m, &m2], || li_meta(&m, &m2));
    }
    out.comment("C01: very long inputs (implementation only: time and stack)");
    for kind in ["variants", "attrs", "keywords", "tfields", "priv", "dashes", "gap", "junk", "long", "x"] {
        for n in [if thorough { 300_000usize } else { 100_000 }, 1000] {
            let ns = n.to_string();
            out.case("big", &[kind.as_bytes(), ns.as_bytes()], || big(kind.as_bytes(), ns.as_bytes()));
        }
    }
    // runs of millions of empty / junk subtags cost only linear time: deep enough for one stack frame per subtag
    for kind in ["dashes", "gap", "junk"] {
        let ns = "3000000";
        out.case("big", &[kind.as_bytes(), ns.as_bytes()], || big(kind.as_bytes(), ns.as_bytes()));
    }
    out.comment("G6: operation histories");
    let n = if thorough { 150_000 } else { 12_000 };
    for i in 0..n {
        let start: Vec<u8> = if i % 3 == 0 { vec![] } else { rng.pick(&pool).clone() };
        let len = if i % 5 == 0 { 20 + rng.below(60) } else { 1 + rng.below(8) };
        let mut args: Vec<Vec<u8>> = vec![start];
        for _ in 0..len { rand_op(rng, &mut args); }
        let refs: Vec<&[u8]> = args.iter().map(|v| v.as_slice()).collect();
        out.case("loc_hist", &refs, || loc_hist(&refs));
    }
    out.comment("G6b: growth histories (one collection grown past 8 / 21 / 32 entries, re-adds, removals, queries)");
    let n = if thorough { 30_000 } else { 1_500 };
    for i in 0..n {
        let focus = i % 5;
        let start: Vec<u8> = if i % 4 == 0 { rng.pick(&pool).clone() } else { vec![] };
        let len = 10 + rng.below(40);
        let mut args: Vec<Vec<u8>> = vec![start];
        let mut have: Vec<Vec<u8>> = vec![];
        for _ in 0..len { grow_op(rng, &mut args, focus, &mut have); }
        let refs: Vec<&[u8]> = args.iter().map(|v| v.as_slice()).collect();
        out.case("loc_hist", &refs, || loc_hist(&refs));
    }
    // exhaustive short histories over a small op alphabet
    let small: Vec<Vec<Vec<u8>>> = {
        let mk = |c: u8, pl: &[&str]| { let mut v = vec![vec![c], pl.len().to_string().into_bytes()]; for p in pl { v.push(p.as_bytes().to_vec()); } v };
        vec![mk(b'A', &["foo"]), mk(b'A', &["bar"]), mk(b'A', &["FOO"]), mk(b'd', &["foo"]), mk(b'a', &["bar"]), mk(b'e', &[]),
             mk(b'P', &["b"]), mk(b'P', &["a"]), mk(b'P', &["b"]), mk(b'q', &["b"]), mk(b'p', &["a"]), mk(b'Q', &[]),
             mk(b'K', &["ca", "buddhist"]), mk(b'K', &["ca", "true"]), mk(b'K', &["nu", "latn", "arab"]), mk(b'r', &["ca"]), mk(b'k', &["CA"]), mk(b'c', &[]),
             mk(b'F', &["h0", "hybrid"]), mk(b'F', &["k1", "true"]), mk(b'm', &["h0"]), mk(b'f', &["h0"]), mk(b'n', &[]), mk(b'G', &["en-US"]), mk(b'g', &[]),
             mk(b'V', &["valencia", "macos"]), mk(b'V', &[]), mk(b'v', &[]), mk(b'h', &["macos"]), mk(b'L', &["fr"]), mk(b'S', &["Latn"]), mk(b'R', &[""]),
             mk(b'A', &["ab"]), mk(b'K', &["c", "x"]), mk(b'P', &[""]), mk(b'F', &["h0", "a*"])]
    };
    // G6c: every argument-taking operation with EVERY argument of 0-2 bytes over the boundary classes and the
    // boundary-class strings of 3, 8 and 9 bytes (one setter + the matching getter, from a start that has entries)
    out.comment("G6c: argument sweep (all 0-2 byte arguments over the boundary classes) for every key / value / attribute / tag operation");
    {
        let classes: &[u8] = b"AZaz09@[`{/:-_ \x00\x7f\x80\xff*";
        let mut argsweep: Vec<Vec<u8>> = vec![vec![]];
        for a in classes { argsweep.push(vec![*a]); }
        for a in classes { for b in classes { argsweep.push(vec![*a, *b]); } }
        for n in [3usize, 8, 9] { for a in [b'a', b'Z', b'0', b'-', 0x80u8] { for last in [b'a', b'9', b'*'] { let mut v = vec![a; n]; v[n - 1] = last; argsweep.push(v); } } }
        let st: &[u8] = b"en-u-attr-ca-buddhist-t-de-h0-hybrid-x-tag";
        for arg in argsweep.iter() {
            // (setter code, payload prefix before the swept argument, payload suffix after it, getter code)
            for (set, pre, post, get) in [(b'A', 0usize, 0usize, b'a'), (b'K', 0, 1, b'k'), (b'K', 1, 0, b'k'), (b'F', 0, 1, b'f'), (b'F', 1, 0, b'f'),
                                          (b'P', 0, 0, b'p'), (b'd', 0, 0, b'a'), (b'r', 0, 0, b'k'), (b'm', 0, 0, b'f'), (b'q', 0, 0, b'p'), (b'V', 0, 0, b'h')] {
                let mut pl: Vec<Vec<u8>> = vec![];
                if pre == 1 { pl.push(if set == b'K' { b"ca".to_vec() } else { b"h0".to_vec() }); }
                pl.push(arg.clone());
                if post == 1 { pl.push(b"value".to_vec()); }
                let mut args: Vec<Vec<u8>> = vec![st.to_vec(), vec![set], pl.len().to_string().into_bytes()];
                args.extend(pl.iter().cloned());
                args.push(vec![get]); args.push(b"1".to_vec()); args.push(if pre == 1 { pl[0].clone() } else { arg.clone() });
                let refs: Vec<&[u8]> = args.iter().map(|v| v.as_slice()).collect();
                out.case("loc_hist", &refs, || loc_hist(&refs));
            }
        }
    }
    let depth = if thorough { 3 } else { 2 };
    let starts: [&[u8]; 3] = [b"", b"en-US-u-foo-ca-buddhist-x-b-a", b"sr-t-en-h0-hybrid"];
    for st in starts.iter() {
        let mut idx = vec![0usize; depth];
        loop {
            let mut args: Vec<Vec<u8>> = vec![st.to_vec()];
            for k in idx.iter() { args.extend(small[*k].iter().cloned()); }
            let refs: Vec<&[u8]> = args.iter().map(|v| v.as_slice()).collect();
            out.case("loc_hist", &refs, || loc_hist(&refs));
            let mut k = depth;
            let mut done = false;
            loop { if k == 0 { done = true; break; } k -= 1; idx[k] += 1; if idx[k] < small.len() { break; } idx[k] = 0; }
            if done { break; }
        }
    }
}
