#![allow(dead_code, unused_imports, unused_variables)]
//! verif-harness: drives the real unic-langid / unic-locale code in /repo and prints one
//! protocol line per case (see common.rs); the extracted Coq oracle reads them.
mod common;
mod subtags;
mod likely;
mod gen;
mod langid;
mod locale;
mod corpus;
mod serde_suite;
mod c20;

use common::*;

fn main() {
    let args: Vec<String> = std::env::args().collect();
    if args.len() < 2 {
        eprintln!("usage: verif-harness gen <suite> <tier> <seed> [--announce] [--only N] | replay");
        std::process::exit(2);
    }
    install_panic_hook();
    let announce = args.iter().any(|a| a == "--announce");
    let only = args.iter().position(|a| a == "--only").and_then(|i| args.get(i + 1)).and_then(|s| s.parse().ok());
    match args[1].as_str() {
        "gen" => {
            let suite = args.get(2).map(|s| s.as_str()).unwrap_or("");
            let tier = args.get(3).map(|s| s.as_str()).unwrap_or("quick");
            let seed: u64 = args.get(4).and_then(|s| s.parse().ok()).unwrap_or(1);
            start_watchdog(30);
            let mut out = Out::new(announce, only);
            if let Some(i) = args.iter().position(|a| a == "--shard") {
                let k: u64 = args.get(i + 1).and_then(|s| s.parse().ok()).unwrap_or(0);
                let n: u64 = args.get(i + 2).and_then(|s| s.parse().ok()).unwrap_or(1);
                out.shard = (k, n.max(1));
            }
            if let Some(i) = args.iter().position(|a| a == "--ops") {
                out.ops = args.get(i + 1).map(|s| s.split(',').map(|x| x.to_string()).collect());
            }
            let mut rng = Rng(seed ^ 0x5eed_0000_0000_0000);
            match suite {
                "subtags" => subtags::run(&mut out, tier, &mut rng),
                "likely" => likely::run(&mut out, tier, &mut rng),
                "langid" => langid::run(&mut out, tier, &mut rng),
                "locale" => locale::run(&mut out, tier, &mut rng),
                "serde" => serde_suite::run(&mut out, tier, &mut rng),
                "c20" => c20::run(&mut out, tier, &mut rng),
                _ => {
                    eprintln!("unknown suite {}", suite);
                    std::process::exit(2);
                }
            }
            out.flush();
        }
        "replay" => {
            // stdin: lines "op TAB hexargs..." (anything from "=" on is ignored); re-executes them
            let mut out = Out::new(announce, None);
            let stdin = std::io::stdin();
            let mut line = String::new();
            loop {
                line.clear();
                if stdin.read_line(&mut line).unwrap_or(0) == 0 {
                    break;
                }
                let l = line.trim_end_matches(&['\n', '\r'][..]);
                if l.is_empty() || l.starts_with('#') {
                    continue;
                }
                let mut f = l.split('\t');
                let op = f.next().unwrap().to_string();
                let mut a: Vec<Vec<u8>> = vec![];
                for x in f {
                    if x == "=" {
                        break;
                    }
                    a.push(unhex(x));
                }
                replay_one(&mut out, &op, &a);
            }
            out.flush();
        }
        _ => std::process::exit(2),
    }
}

fn unhex(s: &str) -> Vec<u8> {
    (0..s.len() / 2).map(|i| u8::from_str_radix(&s[2 * i..2 * i + 2], 16).unwrap_or(0)).collect()
}

fn replay_one(out: &mut Out, op: &str, a: &[Vec<u8>]) {
    let refs: Vec<&[u8]> = a.iter().map(|v| v.as_slice()).collect();
    let a0: &[u8] = refs.get(0).copied().unwrap_or(&[]);
    let a1: &[u8] = refs.get(1).copied().unwrap_or(&[]);
    let a2: &[u8] = refs.get(2).copied().unwrap_or(&[]);
    match op {
        "lang" => out.case(op, &refs, || subtags::lang(a0)),
        "script" => out.case(op, &refs, || subtags::script(a0)),
        "region" => out.case(op, &refs, || subtags::region(a0)),
        "variant" => out.case(op, &refs, || subtags::variant(a0)),
        "lang_raw" => out.case(op, &refs, || subtags::lang_raw(a0)),
        "script_raw" => out.case(op, &refs, || subtags::script_raw(a0)),
        "region_raw" => out.case(op, &refs, || subtags::region_raw(a0)),
        "variant_raw" => out.case(op, &refs, || subtags::variant_raw(a0)),
        "langid" => out.case(op, &refs, || langid::langid(a0)),
        "par_langid" => out.case(op, &refs, || common::par_one_of(a0, langid::par_inputs(), langid::langid)),
        "par_locale" => out.case(op, &refs, || common::par_one_of(a0, langid::par_inputs(), locale::locale)),
        "li_canonicalize" => out.case(op, &refs, || langid::li_canonicalize(a0)),
        "li_roundtrip" => out.case(op, &refs, || langid::li_roundtrip(a0)),
        "li_iter" => out.case(op, &refs, || langid::li_iter(a0, a1 == b"1")),
        "li_from_parts" => out.case(op, &refs, || langid::li_from_parts(&refs)),
        "li_into_parts" => out.case(op, &refs, || langid::li_into_parts(a0)),
        "li_matches" => out.case(op, &refs, || langid::li_matches(a0, a1, a2 == b"1", refs.get(3).copied().unwrap_or(&[]) == b"1")),
        "lang_matches" => out.case(op, &refs, || langid::lang_matches(a0, a1, a2 == b"1", refs.get(3).copied().unwrap_or(&[]) == b"1")),
        "li_cmp" => out.case(op, &refs, || langid::li_cmp(a0, a1)),
        "li_eq_str" => out.case(op, &refs, || langid::li_eq_str(a0, a1)),
        "li_routes" => out.case(op, &refs, || langid::li_routes(a0)),
        "locale" => out.case(op, &refs, || locale::locale(a0)),
        "loc_canonicalize" => out.case(op, &refs, || locale::loc_canonicalize(a0)),
        "loc_roundtrip" => out.case(op, &refs, || locale::loc_roundtrip(a0)),
        "extmap" => out.case(op, &refs, || locale::extmap(a0)),
        "ext_type" => out.case(op, &refs, || locale::ext_type(a0)),
        "both" => out.case(op, &refs, || locale::both(a0)),
        "loc_conv" => out.case(op, &refs, || locale::loc_conv(a0)),
        "loc_prefix" => out.case(op, &refs, || locale::loc_prefix(a0)),
        "loc_built" => out.case(op, &refs, || locale::loc_built(a0)),
        "loc_into_parts" => out.case(op, &refs, || locale::loc_into_parts(a0)),
        "loc_matches" => out.case(op, &refs, || locale::loc_matches(a0, a1, a2 == b"1", refs.get(3).copied().unwrap_or(&[]) == b"1")),
        "loc_cmp" => out.case(op, &refs, || locale::loc_cmp(a0, a1)),
        "loc_hist" => out.case(op, &refs, || locale::loc_hist(&refs)),
        "big" => out.case(op, &refs, || locale::big(a0, a1)),
        "facade" => out.case(op, &refs, || c20::facade(a0)),
        "serde_ser" => out.case(op, &refs, || serde_suite::serde_ser(a0)),
        "serde_de" => out.case(op, &refs, || serde_suite::serde_de(a0)),
        "serde_roundtrip" => out.case(op, &refs, || serde_suite::serde_roundtrip(a0)),
        "serde_nonstring" => out.case(op, &refs, || serde_suite::serde_nonstring(a0)),
        "loc_meta" => out.case(op, &refs, || locale::loc_meta(a0, a1)),
        "ext_meta" => out.case(op, &refs, || locale::ext_meta(a0, a1)),
        "li_meta" => out.case(op, &refs, || locale::li_meta(a0, a1)),
        // "seq_<op>": <op> on the first half of the arguments, then on the second half; the answer is the second one
        "seq_maximize" | "seq_minimize" => {
            let b = |i: usize| refs.get(i).copied().unwrap_or(&[]);
            let six: [&[u8]; 6] = [b(0), b(1), b(2), b(3), b(4), b(5)];
            let max = op == "seq_maximize";
            out.case(op, &refs, || likely::seq_likely(&six, max))
        }
        "seq_direction_likely" | "seq_direction_plain" => out.case(&format!("seq_{}", likely::DIR_OP), &refs, || likely::seq_direction(a0, a1)),
        "seq_langid" => out.case(op, &refs, || { let _ = langid::langid(a0); langid::langid(a1) }),
        "seq_locale" => out.case(op, &refs, || { let _ = locale::locale(a0); locale::locale(a1) }),
        "maximize" => out.case(op, &refs, || likely::maximize(a0, a1, a2)),
        "minimize" => out.case(op, &refs, || likely::minimize(a0, a1, a2)),
        "par_maximize" => out.case(op, &refs, || likely::par_one(a0, a1, a2, true)),
        "par_minimize" => out.case(op, &refs, || likely::par_one(a0, a1, a2, false)),
        "li_maximize" => out.case(op, &refs, || likely::li_change(a0, true)),
        "li_minimize" => out.case(op, &refs, || likely::li_change(a0, false)),
        "direction_likely" | "direction_plain" => out.case(likely::DIR_OP, &refs, || likely::direction(a0)),
        "table_row" => out.case(op, &refs, || likely::table_row(a0, std::str::from_utf8(a1).ok().and_then(|s| s.parse().ok()).unwrap_or(0))),
        "table_len" => out.case(op, &refs, || likely::table_len(a0)),
        "cldr_version" => out.case(op, &refs, || likely::cldr_version()),
        _ => out.case(op, &refs, || "UNKNOWN-OP".to_string()),
    }
}
