//! Suite `langid`: C02, C04/C05/C12/C17 at LanguageIdentifier level, C11, C13 (with locale.rs).
use crate::common::*;
use crate::gen;
use std::collections::hash_map::DefaultHasher;
use std::hash::{Hash, Hasher};
use std::str::FromStr;
use unic_langid_impl::parser::ParserError;
use unic_langid_impl::subtags::{Language, Region, Script, Variant};
use unic_langid_impl::{LanguageIdentifier, LanguageIdentifierError};

pub fn lierr(e: &LanguageIdentifierError) -> String {
    match e {
        LanguageIdentifierError::ParserError(ParserError::InvalidLanguage) => "ERR L".into(),
        LanguageIdentifierError::ParserError(ParserError::InvalidSubtag) => "ERR S".into(),
        LanguageIdentifierError::Unknown => "ERR U".into(),
    }
}
pub fn fmt_li(li: &LanguageIdentifier) -> String {
    let dbg = format!("{:?}", li);
    let (vs0, lfv) = exact(li.variants());
    let vs: Vec<&str> = vs0.iter().map(|v| v.as_str()).collect();
    let v = if !lfv.is_empty() { "LENFAIL-variants".to_string() } else if dbg.contains("variants: None") {
        if !vs.is_empty() { "INCONSISTENT-variants".to_string() } else { "none".to_string() }
    } else {
        format!("[{}]", vs.join(","))
    };
    format!(
        "{}{} {} {} {} {}",
        li.language.as_str(),
        if li.language.is_empty() { "!" } else { "" },
        li.script.map(|s| s.as_str().to_string()).unwrap_or_else(|| "-".into()),
        li.region.map(|s| s.as_str().to_string()).unwrap_or_else(|| "-".into()),
        v,
        li
    )
}
pub fn hash_of<T: Hash>(t: &T) -> u64 {
    let mut h = DefaultHasher::new();
    t.hash(&mut h);
    h.finish()
}

pub fn langid(v: &[u8]) -> String {
    let r = LanguageIdentifier::from_bytes(v);
    if let Ok(s) = std::str::from_utf8(v) {
        let r2 = LanguageIdentifier::from_str(s);
        if r2 != r { return format!("INCONSISTENT from_str {:?} vs from_bytes {:?}", r2, r); }
    }
    if unic_langid::LanguageIdentifier::from_bytes(v).ok() != r.as_ref().ok().cloned() { return "INCONSISTENT unic_langid::LanguageIdentifier (facade) vs unic_langid_impl".into(); }
    if let Ok(li) = &r { if let Some(e) = fmt_flags(li) { return e; } }
    match r { Ok(li) => format!("OK {}", fmt_li(&li)), Err(e) => lierr(&e) }
}
/// the (doc-hidden, public) iterator entry point that Locale parsing is built on: result plus how many
/// subtags it left unconsumed (the remainder is always a suffix of the subtag list, so its length identifies it)
pub fn li_iter(v: &[u8], allow_extension: bool) -> String {
    let mut it = v.split(|c| *c == b'-' || *c == b'_').peekable();
    match LanguageIdentifier::try_from_iter(&mut it, allow_extension) {
        Ok(li) => format!("OK {} R{:x}", fmt_li(&li), it.count()),
        Err(e) => lierr(&e),
    }
}
pub fn li_canonicalize(v: &[u8]) -> String {
    if unic_langid::canonicalize(v).ok() != unic_langid_impl::canonicalize(v).ok() { return "INCONSISTENT unic_langid::canonicalize vs unic_langid_impl::canonicalize".into(); }
    match unic_langid_impl::canonicalize(v) {
        Ok(s) => {
            // idempotent (C05)
            match unic_langid_impl::canonicalize(&s) {
                Ok(s2) if s2 == s => format!("OK {}", s),
                other => format!("LAWFAIL canonicalize not idempotent: {:?}", other),
            }
        }
        Err(e) => lierr(&e),
    }
}
pub fn li_roundtrip(v: &[u8]) -> String {
    match LanguageIdentifier::from_bytes(v) {
        // what Display writes (under any formatter flags) is the text that parses back
        Ok(li) => if let Some(e) = fmt_flags(&li) { e } else { match LanguageIdentifier::from_bytes(li.to_string().as_bytes()) {
            Ok(li2) => if li2 == li { "OK same".into() } else { format!("DIFF {:?} vs {:?}", li, li2) },
            Err(_) => "REPARSE-ERR".into(),
        } },
        Err(e) => lierr(&e),
    }
}
pub fn li_from_parts(args: &[&[u8]]) -> String {
    if args.len() < 3 { return "BADARG".into(); }
    let lang = if args[0].is_empty() { Language::default() } else { match Language::from_bytes(args[0]) { Ok(x) => x, Err(_) => return "BADARG".into() } };
    let script = if args[1].is_empty() { None } else { match Script::from_bytes(args[1]) { Ok(x) => Some(x), Err(_) => return "BADARG".into() } };
    let region = if args[2].is_empty() { None } else { match Region::from_bytes(args[2]) { Ok(x) => Some(x), Err(_) => return "BADARG".into() } };
    let mut vs = vec![];
    for a in &args[3..] { match Variant::from_bytes(a) { Ok(x) => vs.push(x), Err(_) => return "BADARG".into() } }
    let li = LanguageIdentifier::from_parts(lang, script, region, &vs);
    let mut joined = lang.as_str().to_string();
    if let Some(s) = script { joined.push('-'); joined.push_str(s.as_str()); }
    if let Some(s) = region { joined.push('-'); joined.push_str(s.as_str()); }
    for v in &vs { joined.push('-'); joined.push_str(v.as_str()); }
    let p = match LanguageIdentifier::from_bytes(joined.as_bytes()) { Ok(y) => if y == li { "eqparse" } else { "NEparse" }, Err(_) => "NOparse" };
    format!("{} {}", fmt_li(&li), p)
}
pub fn li_into_parts(v: &[u8]) -> String {
    match LanguageIdentifier::from_bytes(v) {
        Ok(li) => {
            let (l, s, r, vs) = li.clone().into_parts();
            let back = LanguageIdentifier::from_parts(l, s, r, &vs);
            if back == li { "OK same".into() } else { "DIFF".into() }
        }
        Err(_) => "BADARG".into(),
    }
}
pub fn li_matches(a: &[u8], b: &[u8], ra: bool, rb: bool) -> String {
    match (LanguageIdentifier::from_bytes(a), LanguageIdentifier::from_bytes(b)) {
        (Ok(x), Ok(y)) => {
            let m = x.matches(&y, ra, rb);
            // symmetric under swapping operands together with their flags
            if y.matches(&x, rb, ra) != m { return "LAWFAIL not symmetric".into(); }
            // the answer is a function of the VALUES: the same object and an equal copy must agree
            if x.matches(&x, ra, rb) != x.matches(&x.clone(), ra, rb) || y.matches(&y, ra, rb) != y.matches(&y.clone(), ra, rb) {
                return "LAWFAIL matches() depends on object identity".into();
            }
            // (identifiers rebuilt with `from_raw_parts_unchecked` and an empty list stored as Some([]) are NOT compared:
            // on the pinned tree such a value neither == nor matches its parsed twin without range flags; values made by
            // the `_unchecked` constructors are outside what the properties quantify over - DESIGN.md section 10, round 10)
            format!("{}", m)
        }
        _ => "BADARG".into(),
    }
}
pub fn lang_matches(a: &[u8], b: &[u8], ra: bool, rb: bool) -> String {
    let pa: Result<Language, _> = if a.is_empty() { Ok(Language::default()) } else { Language::from_bytes(a) };
    let pb: Result<Language, _> = if b.is_empty() { Ok(Language::default()) } else { Language::from_bytes(b) };
    match (pa, pb) { (Ok(x), Ok(y)) => format!("{}", x.matches(y, ra, rb)), _ => "BADARG".into() }
}
pub fn li_cmp(a: &[u8], b: &[u8]) -> String {
    match (LanguageIdentifier::from_bytes(a), LanguageIdentifier::from_bytes(b)) {
        (Ok(x), Ok(y)) => {
            let c = x.cmp(&y);
            if x.partial_cmp(&y) != Some(c) { return "LAWFAIL partial_cmp".into(); }
            if y.cmp(&x) != c.reverse() { return "LAWFAIL cmp not antisymmetric".into(); }
            let eq = x == y;
            if eq && hash_of(&x) != hash_of(&y) { return "LAWFAIL equal values hash differently".into(); }
            if eq != (c == std::cmp::Ordering::Equal) { return "LAWFAIL cmp/eq disagree".into(); }
            format!("{:?} {} {}", c, eq, x.to_string() == y.to_string())
        }
        _ => "BADARG".into(),
    }
}
pub fn li_eq_str(a: &[u8], t: &[u8]) -> String {
    match (LanguageIdentifier::from_bytes(a), std::str::from_utf8(t)) {
        (Ok(x), Ok(t)) => format!("{}", x == t),
        _ => "BADARG".into(),
    }
}

/// C12: the same logical value reached along different routes must be ==, Equal, hash-equal, print equally
pub fn li_routes(v: &[u8]) -> String {
    let r1 = match LanguageIdentifier::from_bytes(v) { Ok(x) => x, Err(_) => return "BADARG".into() };
    let (l, sc, rg, vs) = r1.clone().into_parts();
    let r2 = LanguageIdentifier::from_parts(l, sc, rg, &vs);
    let mut r3 = LanguageIdentifier::default();
    r3.set_variants(&vs);
    r3.region = rg;
    r3.script = sc;
    r3.language = l;
    let r4 = match LanguageIdentifier::from_bytes(r1.to_string().as_bytes()) { Ok(x) => x, Err(_) => return "REPARSE-ERR".into() };
    // detour: start from another identifier and overwrite every field
    let mut r5: LanguageIdentifier = "ar-Arab-EG-fonipa".parse().unwrap();
    r5.language = l; r5.script = sc; r5.region = rg;
    if vs.is_empty() { r5.clear_variants(); } else { let mut w = vs.clone(); w.reverse(); let d = w[0]; w.push(d); r5.set_variants(&w); }
    let mut r6 = r1.clone();
    r6.language.clear(); r6.language = l;
    let mut r7 = r1.clone();
    r7.set_variants(&[]); r7.set_variants(&vs);
    let mut r8: LanguageIdentifier = "ca-Latn-ES-valencia-fonipa".parse().unwrap();
    r8.clone_from(&r1);
    let mut r9 = LanguageIdentifier::default();
    r9.clone_from(&r1);
    // an identifier rebuilt from raw parts with the variants always boxed: whatever == says about it,
    // equal values hash equally and compare Equal
    let raw = LanguageIdentifier::from_raw_parts_unchecked(l, sc, rg, Some(vs.clone().into_boxed_slice()));
    if raw == r1 && (hash_of(&raw) != hash_of(&r1) || raw.cmp(&r1) != std::cmp::Ordering::Equal || r1.cmp(&raw) != std::cmp::Ordering::Equal) {
        return "DIFF hash/cmp of == values (raw-parts route)".into();
    }
    let routes = [&r1, &r2, &r3, &r4, &r5, &r6, &r7, &r8, &r9];
    for (i, a) in routes.iter().enumerate() {
        for (j, b) in routes.iter().enumerate() {
            if a != b { return format!("DIFF == routes {} {}", i + 1, j + 1); }
            if a.cmp(b) != std::cmp::Ordering::Equal { return format!("DIFF cmp routes {} {}", i + 1, j + 1); }
            if hash_of(*a) != hash_of(*b) { return format!("DIFF hash routes {} {}", i + 1, j + 1); }
            if a.to_string() != b.to_string() { return format!("DIFF to_string routes {} {}", i + 1, j + 1); }
            if format!("{:?}", a) != format!("{:?}", b) { return format!("DIFF debug routes {} {}", i + 1, j + 1); }
        }
    }
    "ALLEQ".into()
}

fn parse_ops(out: &mut Out, s: &[u8]) {
    out.case("langid", &[s], || langid(s));
    out.case("li_canonicalize", &[s], || li_canonicalize(s));
    out.case("li_roundtrip", &[s], || li_roundtrip(s));
    out.case("li_iter", &[s, b"0"], || li_iter(s, false));
    out.case("li_iter", &[s, b"1"], || li_iter(s, true));
}

/// from_parts with the variants in a random order, possibly duplicated
fn from_parts_case(out: &mut Out, rng: &mut Rng, toks: &[String]) {
    let mut args: Vec<Vec<u8>> = vec![toks[0].as_bytes().to_vec(), vec![], vec![]];
    if args[0] == b"und" && rng.chance(1, 2) { args[0] = vec![]; }
    let mut vs: Vec<Vec<u8>> = vec![];
    for t in toks.iter().skip(1) {
        let b = t.as_bytes();
        if Script::from_bytes(b).is_ok() && args[1].is_empty() && vs.is_empty() && args[2].is_empty() { args[1] = b.to_vec(); }
        else if Region::from_bytes(b).is_ok() && args[2].is_empty() && vs.is_empty() { args[2] = b.to_vec(); }
        else { vs.push(b.to_vec()); }
    }
    for k in (1..vs.len()).rev() { let j = rng.below(k + 1); vs.swap(k, j); }
    args.extend(vs);
    let refs: Vec<&[u8]> = args.iter().map(|v| v.as_slice()).collect();
    out.case("li_from_parts", &refs, || li_from_parts(&refs));
}

pub fn par_inputs() -> Vec<Vec<u8>> {
    let mut v: Vec<Vec<u8>> = crate::corpus::REALWORLD.iter().map(|s| s.as_bytes().to_vec()).collect();
    v.extend(crate::corpus::REGRESS.iter().map(|s| s.as_bytes().to_vec()));
    for s in ["en", "EN_latn_us", "de-CH-1996", "und", "sr-Cyrl-RS", "x", "", "en--US", "zh-Hant-TW-nedis-biske", "abcdefghi", "e\u{301}n"] { v.push(s.as_bytes().to_vec()); }
    v
}

pub fn run(out: &mut Out, tier: &str, rng: &mut Rng) {
    let thorough = tier == "thorough";
    let full = gen::tokens_full();
    let red = gen::tokens_reduced();
    let firsts = gen::first_tokens();
    out.comment("schedules: the corpus parsed from several threads at once");
    par_stage(out, "par_langid", par_inputs(), langid, if thorough { 400 } else { 40 });
    out.comment("state carried from one call to the next: ordered pairs of the corpus (one case = two calls)");
    {
        let c: Vec<Vec<u8>> = par_inputs().into_iter().step_by(if thorough { 1 } else { 3 }).collect();
        for x in c.iter() { for y in c.iter() { if x != y { out.case("seq_langid", &[x, y], || { let _ = langid(x); langid(y) }); } } }
    }
    out.comment("non-ASCII look-alikes: one character replaced by one that a Unicode-aware mapping would fold to ASCII");
    for b in gen::LOOKALIKE_BASES.iter() { for s in gen::lookalikes(b) { parse_ops(out, s.as_bytes()); } }
    out.comment("G2: token sequences");
    for f in firsts.iter() {
        parse_ops(out, f);
        for a in full.iter() {
            parse_ops(out, &gen::join(&[f, a], rng.next()));
            for b in full.iter() {
                parse_ops(out, &gen::join(&[f, a, b], rng.next()));
                if thorough {
                    for c in red.iter() { parse_ops(out, &gen::join(&[f, a, b, c], rng.next())); }
                }
            }
        }
    }
    for f in firsts.iter().take(4) {
        for a in red.iter() { for b in red.iter() { for c in red.iter() {
            parse_ops(out, &gen::join(&[f, a, b, c], rng.next()));
            if thorough { for d in red.iter().take(16) { parse_ops(out, &gen::join(&[f, a, b, c, d], rng.next())); } }
        } } }
    }
    out.comment("real-world tags");
    for s in crate::corpus::REALWORLD.iter() {
        let b = s.as_bytes();
        parse_ops(out, b);
        out.case("li_into_parts", &[b], || li_into_parts(b));
        out.case("li_routes", &[b], || li_routes(b));
        out.case("li_eq_str", &[b, b], || li_eq_str(b, b));
    }
    out.comment("G3/G4: random well-formed identifiers and 1-3 edit mutations");
    let n = if thorough { 400_000 } else { 30_000 };
    let mut pool: Vec<Vec<u8>> = vec![];
    for i in 0..n {
        let toks = gen::wf_langid_tokens(rng);
        let s = gen::render(rng, &toks);
        parse_ops(out, &s);
        out.case("li_into_parts", &[&s], || li_into_parts(&s));
        out.case("li_routes", &[&s], || li_routes(&s));
        let m = gen::mutate(rng, &s);
        parse_ops(out, &m);
        from_parts_case(out, rng, &toks);
        if i % 4 == 0 && pool.len() < 4000 { pool.push(s); }
    }
    out.comment("G3L: long identifiers (5-30 variants): parse, from_parts, ==/cmp/eq-str against the canonical text, tail edits");
    let n = if thorough { 20_000 } else { 2_000 };
    for _ in 0..n {
        let mut toks = gen::wf_langid_tokens(rng);
        let v0 = toks.len();
        for _ in 0..(5 + rng.below(26)) { toks.push(gen::rand_variant(rng)); }
        if rng.chance(1, 2) { for _ in 0..(1 + rng.below(3)) { let d = toks[v0 + rng.below(toks.len() - v0)].clone(); toks.push(d); } }
        let s = gen::render(rng, &toks);
        parse_ops(out, &s);
        out.case("li_into_parts", &[&s], || li_into_parts(&s));
        out.case("li_routes", &[&s], || li_routes(&s));
        from_parts_case(out, rng, &toks);
        let canon = gen_call(|| LanguageIdentifier::from_bytes(&s).map(|x| x.to_string()).unwrap_or_default()).unwrap_or_default().into_bytes();
        out.case("li_eq_str", &[&s, &canon], || li_eq_str(&s, &canon));
        // the canonical text with a NUL (or a space) inserted at one position is a different string
        if !canon.is_empty() {
            let pos = rng.below(canon.len() + 1);
            for b in [0u8, b' '] {
                let mut t = canon.clone(); t.insert(pos, b);
                out.case("li_eq_str", &[&s, &t], || li_eq_str(&s, &t));
            }
            // ... in particular at the end of a subtag
            if let Some(p) = canon.iter().position(|c| *c == b'-') { let mut t = canon.clone(); t.insert(p, 0); out.case("li_eq_str", &[&s, &t], || li_eq_str(&s, &t)); }
            let mut t = canon.clone(); t.push(0); out.case("li_eq_str", &[&s, &t], || li_eq_str(&s, &t));
        }
        out.case("li_cmp", &[&s, &canon], || li_cmp(&s, &canon));
        let mut m = s.clone(); m.extend_from_slice(*rng.pick(&[&b"-*"[..], b"-abcdefghi", b"-abcd", b"--", b"-u", b"-1"]));
        parse_ops(out, &m);
    }
    out.comment("C11: product domain for matches");
    // (pa, az, uz, ar: languages of the right-to-left list whose likely script depends on the region - the identifiers on
    // which a likelysubtags build could answer differently)
    let langs = ["en", "fr", "und", "pa", "az", "uz"]; let scripts = ["", "Latn", "Cyrl", "Arab"]; let regions = ["", "US", "419", "PK", "AF"];
    let vars = ["", "valencia"];
    let mut dom: Vec<String> = vec![];
    for l in langs { for s in scripts { for r in regions { for v in vars {
        let mut t = l.to_string();
        for p in [s, r, v] { if !p.is_empty() { t.push('-'); t.push_str(p); } }
        dom.push(t);
    } } } }
    // variant lists of every length up to three over three variants (prefixes, suffixes, subsets of each other)
    for l in ["en", "und-Latn"] { for v in ["1996", "fonipa", "valencia", "1996-fonipa", "1996-valencia", "fonipa-valencia", "1996-fonipa-valencia"] { dom.push(format!("{}-{}", l, v)); } }
    for a in dom.iter() { for b in dom.iter() { for f in 0..4u8 {
        let (ra, rb) = (f & 1 == 1, f & 2 == 2);
        let fa: &[u8] = if ra { b"1" } else { b"0" }; let fb: &[u8] = if rb { b"1" } else { b"0" };
        out.case("li_matches", &[a.as_bytes(), b.as_bytes(), fa, fb], || li_matches(a.as_bytes(), b.as_bytes(), ra, rb));
    } } }
    // the same product domain for the order (fields that order in opposite directions)
    for a in dom.iter() { for b in dom.iter() { out.case("li_cmp", &[a.as_bytes(), b.as_bytes()], || li_cmp(a.as_bytes(), b.as_bytes())); } }
    for a in ["", "en", "fr", "und", "EN"] { for b in ["", "en", "fr", "UND"] { for f in 0..4u8 {
        let (ra, rb) = (f & 1 == 1, f & 2 == 2);
        let fa: &[u8] = if ra { b"1" } else { b"0" }; let fb: &[u8] = if rb { b"1" } else { b"0" };
        out.case("lang_matches", &[a.as_bytes(), b.as_bytes(), fa, fb], || lang_matches(a.as_bytes(), b.as_bytes(), ra, rb));
    } } }
    out.comment("C11/C12: random parsed pairs");
    let n = if thorough { 300_000 } else { 30_000 };
    for _ in 0..n {
        let a = rng.pick(&pool).clone();
        let b = if rng.chance(1, 5) { // same logical value along another route: different case/sep/variant order
            let li = gen_call(|| LanguageIdentifier::from_bytes(&a).map(|x| x.to_string()).unwrap_or_default()).unwrap_or_default();
            li.into_bytes()
        } else { rng.pick(&pool).clone() };
        let f = rng.below(4) as u8;
        let (ra, rb) = (f & 1 == 1, f & 2 == 2);
        let fa: &[u8] = if ra { b"1" } else { b"0" }; let fb: &[u8] = if rb { b"1" } else { b"0" };
        out.case("li_matches", &[&a, &b, fa, fb], || li_matches(&a, &b, ra, rb));
        out.case("li_cmp", &[&a, &b], || li_cmp(&a, &b));
        let t = if rng.chance(1, 2) { gen_call(|| LanguageIdentifier::from_bytes(&a).map(|x| x.to_string()).unwrap_or_default()).unwrap_or_default().into_bytes() } else { b.clone() };
        if std::str::from_utf8(&t).is_ok() { out.case("li_eq_str", &[&a, &t], || li_eq_str(&a, &t)); }
        // the canonical text with a subtag deleted, doubled or moved (never equal to the canonical text itself)
        if rng.chance(1, 3) {
            if let Ok(s) = String::from_utf8(t.clone()) {
                let mut parts: Vec<&str> = s.split('-').collect();
                if parts.len() >= 2 {
                    let i = rng.below(parts.len());
                    match rng.below(3) {
                        0 => { parts.remove(i); }
                        1 => { let d = parts[i]; parts.insert(i, d); }
                        _ => { let d = parts.remove(i); let j = rng.below(parts.len() + 1); parts.insert(j, d); }
                    }
                    let u = parts.join("-");
                    out.case("li_eq_str", &[&a, u.as_bytes()], || li_eq_str(&a, u.as_bytes()));
                }
            }
        }
        // the canonical text with one character replaced by a 2- or 3-byte character (never equal; never a panic)
        if rng.chance(1, 3) {
            if let Ok(s) = String::from_utf8(t.clone()) {
                let mut c: Vec<char> = s.chars().collect();
                if !c.is_empty() {
                    let i = rng.below(c.len());
                    c[i] = if rng.chance(1, 2) { '\u{f1}' } else { '\u{20ac}' };
                    let u: String = c.into_iter().collect();
                    out.case("li_eq_str", &[&a, u.as_bytes()], || li_eq_str(&a, u.as_bytes()));
                }
            }
        }
    }
    out.comment("C11/C12: near pairs (one or two characters apart; 8-letter languages with a shared stem)");
    let n = if thorough { 200_000 } else { 20_000 };
    for _ in 0..n {
        let (ta, tb) = gen::near_langid_pair(rng);
        let (a, b) = (gen::render(rng, &ta), gen::render(rng, &tb));
        out.case("li_cmp", &[&a, &b], || li_cmp(&a, &b));
        out.case("li_cmp", &[&b, &a], || li_cmp(&b, &a));
        out.case("li_matches", &[&a, &b, b"0", b"0"], || li_matches(&a, &b, false, false));
        out.case("li_eq_str", &[&a, &b], || li_eq_str(&a, &b));
    }
}
