//! Shared infrastructure: PRNG, output protocol, panic capture, watchdog.
use std::cell::RefCell;
use std::io::{BufWriter, Write};
use std::panic::{catch_unwind, AssertUnwindSafe};
use std::sync::atomic::{AtomicU64, Ordering};

pub static CASE_INDEX: AtomicU64 = AtomicU64::new(0);
pub static PROGRESS: AtomicU64 = AtomicU64::new(0);
/// milliseconds (since process start, +1) at which the library call now in progress began; 0 = not inside a call
pub static CALL_START: AtomicU64 = AtomicU64::new(0);

thread_local! {
    static LAST_PANIC: RefCell<String> = RefCell::new(String::new());
}

pub fn install_panic_hook() {
    std::panic::set_hook(Box::new(|info| {
        let loc = info
            .location()
            .map(|l| {
                let f = l.file();
                // keep the path relative to the repository so results do not depend on the checkout
                let f = f.strip_prefix("/repo/").unwrap_or(f);
                format!("{}:{}", f, l.line())
            })
            .unwrap_or_else(|| "?".into());
        LAST_PANIC.with(|p| *p.borrow_mut() = loc);
    }));
}

/// the panic hook is process-wide; worker threads need nothing more (kept as an explicit marker at thread start)
pub fn install_panic_hook_thread() {}

pub fn start_watchdog(limit_s: u64) {
    let t0 = std::time::Instant::now();
    T0.with(|t| *t.borrow_mut() = Some(t0));
    std::thread::spawn(move || loop {
        std::thread::sleep(std::time::Duration::from_millis(500));
        let st = CALL_START.load(Ordering::Relaxed);
        if st != 0 {
            let now = t0.elapsed().as_millis() as u64 + 1;
            if now > st && now - st > limit_s * 1000 {
                // the main thread has been inside ONE library call for too long
                let idx = CASE_INDEX.load(Ordering::Relaxed);
                let so = std::io::stdout();
                let _ = writeln!(so.lock(), "\n#HANG\t{}", idx.saturating_sub(1));
                std::process::exit(3);
            }
        }
    });
}

thread_local! {
    static T0: RefCell<Option<std::time::Instant>> = RefCell::new(None);
}
fn now_ms() -> u64 {
    T0.with(|t| t.borrow().map(|t0| t0.elapsed().as_millis() as u64 + 1).unwrap_or(1))
}

/// SplitMix64: every random choice in a run derives from this one stream.
#[derive(Clone)]
pub struct Rng(pub u64);
impl Rng {
    pub fn next(&mut self) -> u64 {
        self.0 = self.0.wrapping_add(0x9E3779B97F4A7C15);
        let mut z = self.0;
        z = (z ^ (z >> 30)).wrapping_mul(0xBF58476D1CE4E5B9);
        z = (z ^ (z >> 27)).wrapping_mul(0x94D049BB133111EB);
        z ^ (z >> 31)
    }
    pub fn below(&mut self, n: usize) -> usize {
        if n == 0 { 0 } else { (self.next() % (n as u64)) as usize }
    }
    pub fn chance(&mut self, num: usize, den: usize) -> bool {
        self.below(den) < num
    }
    pub fn pick<'a, T>(&mut self, v: &'a [T]) -> &'a T {
        &v[self.below(v.len())]
    }
}

pub fn hex(b: &[u8]) -> String {
    let mut s = String::with_capacity(b.len() * 2);
    for x in b {
        s.push_str(&format!("{:02x}", x));
    }
    s
}

pub fn esc(s: &str) -> String {
    esc_bytes(s.as_bytes())
}
pub fn esc_bytes(b: &[u8]) -> String {
    let mut o = String::with_capacity(b.len());
    for &c in b {
        if c < 0x20 || c > 0x7e || c == b'%' || c == b'"' || c == b'\\' {
            o.push_str(&format!("%{:02x}", c));
        } else {
            o.push(c as char);
        }
    }
    o
}

pub struct Out {
    w: BufWriter<std::io::Stdout>,
    pub announce: bool,
    pub only: Option<u64>,
    pub count: u64,
    pub shard: (u64, u64),
    pub ops: Option<Vec<String>>,
}

impl Out {
    pub fn new(announce: bool, only: Option<u64>) -> Self {
        Out { w: BufWriter::with_capacity(1 << 20, std::io::stdout()), announce, only, count: 0, shard: (0, 1), ops: None }
    }
    /// Run one case under catch_unwind and write its protocol line.
    pub fn case<F: FnOnce() -> String>(&mut self, op: &str, args: &[&[u8]], f: F) {
        if let Some(ops) = &self.ops {
            if !ops.iter().any(|o| o == op) {
                return;
            }
        }
        let idx = CASE_INDEX.fetch_add(1, Ordering::Relaxed);
        if idx % self.shard.1 != self.shard.0 {
            return;
        }
        if let Some(o) = self.only {
            if o != idx {
                return;
            }
        }
        let mut line = String::with_capacity(64);
        line.push_str(op);
        for a in args {
            line.push('\t');
            line.push_str(&hex(a));
        }
        if self.announce {
            let _ = writeln!(self.w, "#BEGIN\t{}", line);
            let _ = self.w.flush();
        }
        CALL_START.store(now_ms(), Ordering::Relaxed);
        let r = catch_unwind(AssertUnwindSafe(f));
        CALL_START.store(0, Ordering::Relaxed);
        PROGRESS.fetch_add(1, Ordering::Relaxed);
        let res = match r {
            Ok(s) => s,
            Err(_) => format!("PANIC {}", LAST_PANIC.with(|p| p.borrow().clone())),
        };
        line.push_str("\t=\t");
        line.push_str(&esc(&res));
        let _ = writeln!(self.w, "{}", line);
        self.count += 1;
    }
    /// Write a protocol line for an answer obtained outside `case` (a multi-threaded stage): every shard runs such a
    /// stage itself, so the line is not subject to the shard filter; the operation filter applies.
    pub fn emit(&mut self, op: &str, args: &[&[u8]], res: String) {
        if let Some(ops) = &self.ops {
            if !ops.iter().any(|o| o == op) {
                return;
            }
        }
        if self.only.is_some() {
            return;
        }
        let mut line = String::with_capacity(64);
        line.push_str(op);
        for a in args {
            line.push('\t');
            line.push_str(&hex(a));
        }
        line.push_str("\t=\t");
        line.push_str(&esc(&res));
        let _ = writeln!(self.w, "{}", line);
        self.count += 1;
    }
    pub fn comment(&mut self, s: &str) {
        let _ = writeln!(self.w, "#{}", s);
    }
    pub fn flush(&mut self) {
        let _ = self.w.flush();
    }
}

/// collect an ExactSizeIterator; `len()` / `size_hint()` must agree with what it yields at every point - before
/// the first `next()`, after each one, and after exhaustion (a fused, empty iterator then) - otherwise the text
/// carries a LENFAIL marker that no model answer contains (a panic in any of these calls is caught by the case runner)
pub fn exact<I: ExactSizeIterator>(mut it: I) -> (Vec<I::Item>, &'static str) {
    let announced = it.len();
    let mut v = Vec::new();
    let mut ok = it.size_hint() == (announced, Some(announced));
    while let Some(x) = it.next() {
        v.push(x);
        if it.len() + v.len() != announced { ok = false; }
    }
    if v.len() != announced || it.len() != 0 || it.size_hint() != (0, Some(0)) || it.next().is_some() || it.len() != 0 { ok = false; }
    (v, if ok { "" } else { " LENFAIL" })
}

/// Display must write exactly the canonical text whatever formatter flags the caller passes (width, fill,
/// alignment, precision, zero padding): `Some(description)` when one of them changes the output
pub fn fmt_flags<T: std::fmt::Display>(v: &T) -> Option<String> {
    let plain = v.to_string();
    let outs = [format!("{:>12}", v), format!("{:<12}", v), format!("{:*^12}", v), format!("{:.2}", v), format!("{:012}", v), format!("{:>3.1}", v)];
    for (i, o) in outs.iter().enumerate() {
        if *o != plain { return Some(format!("INCONSISTENT Display with formatter flags #{}: {:?} vs {:?}", i, o, plain)); }
    }
    None
}

/// A library call made by a GENERATOR (to derive an input from the library's own answer, e.g. the canonical string of
/// an accepted identifier): guarded like a case - the watchdog sees a hang inside it, a panic is caught - so that a
/// defective library cannot stall or kill the harness outside a reported case.  `None` = the call panicked.
pub fn gen_call<T, F: FnOnce() -> T>(f: F) -> Option<T> {
    CALL_START.store(now_ms(), Ordering::Relaxed);
    let r = catch_unwind(AssertUnwindSafe(f));
    CALL_START.store(0, Ordering::Relaxed);
    r.ok()
}

/// Schedules: `f` applied to every input from `threads` threads at once, `rounds` times, must answer what it answers
/// alone (`exp`, computed beforehand on this thread).  Returns (index, deviating answer).  Each round is one guarded
/// call (the watchdog sees a deadlock).
pub fn par_consistent(inputs: &std::sync::Arc<Vec<Vec<u8>>>, exp: &std::sync::Arc<Vec<String>>, f: fn(&[u8]) -> String, threads: usize, rounds: usize)
    -> Vec<(usize, String)> {
    let mut all = vec![];
    for r in 0..rounds {
        let got = gen_call(|| {
            let mut hs = vec![];
            for t in 0..threads {
                let (inputs, exp) = (inputs.clone(), exp.clone());
                hs.push(std::thread::spawn(move || {
                    let n = inputs.len();
                    let mut bad = vec![];
                    if n == 0 { return bad; }
                    let start = (t * n / threads + r * 7919) % n;
                    for k in 0..n {
                        let i = if t % 2 == 0 { (start + k) % n } else { (start + n - k) % n };
                        let v = inputs[i].clone();
                        let got = catch_unwind(move || f(&v)).unwrap_or_else(|_| "PANIC (concurrent)".into());
                        if got != exp[i] && bad.len() < 4 { bad.push((i, got)); }
                    }
                    bad
                }));
            }
            let mut v = vec![];
            for h in hs { if let Ok(mut b) = h.join() { v.append(&mut b); } }
            v
        }).unwrap_or_default();
        all.extend(got);
        if all.len() > 16 { break; }
    }
    all
}
/// the replay form of a `par_*` parsing case: the one input, repeated while other threads parse `others`
pub fn par_one_of(v: &[u8], others: Vec<Vec<u8>>, f: fn(&[u8]) -> String) -> String {
    use std::sync::atomic::AtomicBool;
    use std::sync::Arc;
    let others = Arc::new(others);
    let stop = Arc::new(AtomicBool::new(false));
    let mut hs = vec![];
    for t in 0..7usize {
        let (others, stop) = (others.clone(), stop.clone());
        hs.push(std::thread::spawn(move || {
            let n = others.len().max(1);
            let mut i = t * n / 7;
            while !stop.load(Ordering::Relaxed) {
                if let Some(o) = others.get(i % n) { let o = o.clone(); let _ = catch_unwind(move || f(&o)); }
                i += 1;
            }
        }));
    }
    let first = f(v);
    let mut res = first.clone();
    for _ in 0..200_000 {
        let g = f(v);
        if g != first { res = g; break; }
    }
    stop.store(true, Ordering::Relaxed);
    for h in hs { let _ = h.join(); }
    res
}
/// run a `par_consistent` stage over `inputs` and write its lines (deviations, plus a few samples that show it ran)
pub fn par_stage(out: &mut Out, op: &str, inputs: Vec<Vec<u8>>, f: fn(&[u8]) -> String, rounds: usize) {
    let inputs = std::sync::Arc::new(inputs);
    let exp: Vec<String> = inputs.iter().map(|v| gen_call(|| f(v)).unwrap_or_else(|| "PANIC".into())).collect();
    let exp = std::sync::Arc::new(exp);
    let bad = par_consistent(&inputs, &exp, f, 8, rounds);
    let mut seen = std::collections::BTreeSet::new();
    for (i, got) in bad.into_iter() {
        if seen.insert(i) { out.emit(op, &[&inputs[i]], got); }
    }
    for i in (0..inputs.len()).step_by((inputs.len() / 8).max(1)) {
        out.emit(op, &[&inputs[i]], exp[i].clone());
    }
}
