//! Suite `subtags`: C15 (and the raw-integer half of C17) — the four subtag parsers.
use crate::common::*;
use std::str::FromStr;
use unic_langid_impl::parser::ParserError;
use unic_langid_impl::subtags::{Language, Region, Script, Variant};

fn perr(e: ParserError) -> String {
    match e {
        ParserError::InvalidLanguage => "ERR L".into(),
        ParserError::InvalidSubtag => "ERR S".into(),
    }
}

/// All public ways of exposing the text must agree; otherwise the case is reported as such.
fn text3(as_str: &str, display: String, eq_self: bool) -> Result<String, String> {
    if as_str != display || !eq_self {
        Err(format!("INCONSISTENT as_str={} display={} eq_str={}", as_str, display, eq_self))
    } else {
        Ok(as_str.to_string())
    }
}

/// `== &str` must be FALSE for every string other than the canonical text (C12): near misses of the text
fn eq_only_self(t: &str, eq: &dyn Fn(&str) -> bool) -> Option<String> {
    let mut others: Vec<String> = vec![format!("{}x", t), format!("x{}", t), String::new(), format!("{}-", t), format!(" {}", t),
                                       format!("{}-US", t), format!("{}_x", t), format!("{}{}", t, t), format!("{}-{}", t, t), format!("{}1", t), format!("{}\0", t)];
    if !t.is_empty() { others.push(t[..t.len() - 1].to_string()); others.push(t[1..].to_string()); }
    for o in [t.to_uppercase(), t.to_lowercase()] { others.push(o); }
    let mut flipped: Vec<u8> = t.as_bytes().to_vec();
    if let Some(c) = flipped.last_mut() { *c = if *c == b'a' { b'b' } else if c.is_ascii_digit() { if *c == b'0' { b'1' } else { b'0' } } else { b'a' }; }
    if let Ok(f) = String::from_utf8(flipped) { others.push(f); }
    // non-ASCII look-alikes: a 2-byte and a 3-byte character in place of each character, and appended
    let chars: Vec<char> = t.chars().collect();
    for i in 0..chars.len() {
        for r in ['\u{f1}', '\u{20ac}'] {
            let mut c = chars.clone(); c[i] = r; others.push(c.into_iter().collect());
        }
    }
    others.push(format!("{}\u{e9}", t)); others.push(format!("\u{e9}{}", t));
    for o in others.iter() {
        if o != t && eq(o) { return Some(format!("INCONSISTENT == {:?} is true for the subtag {:?}", o, t)); }
    }
    None
}

pub fn lang(v: &[u8]) -> String {
    let r = Language::from_bytes(v);
    // FromStr must agree with from_bytes whenever the input is UTF-8
    if let Ok(s) = std::str::from_utf8(v) {
        let r2 = Language::from_str(s);
        if r2 != r {
            return format!("INCONSISTENT from_str {:?} vs from_bytes {:?}", r2, r);
        }
        let r3: Result<Language, _> = std::convert::TryFrom::try_from(Some(s));
        if r3 != r {
            return format!("INCONSISTENT try_from {:?} vs from_bytes {:?}", r3, r);
        }
    }
    match r {
        Ok(l) => {
            let t = l.as_str().to_string();
            if let Some(e) = eq_only_self(&t, &|o| l == o) { return e; }
            if let Some(e) = fmt_flags(&l) { return e; }
            match text3(&t, l.to_string(), l == t.as_str()) {
                Ok(t) => format!("OK {} {}", t, if l.is_empty() { "empty" } else { "full" }),
                Err(e) => e,
            }
        }
        Err(e) => perr(e),
    }
}
pub fn script(v: &[u8]) -> String {
    let r = Script::from_bytes(v);
    if let Ok(s) = std::str::from_utf8(v) {
        let r2 = Script::from_str(s);
        if r2 != r {
            return format!("INCONSISTENT from_str {:?} vs from_bytes {:?}", r2, r);
        }
    }
    match r {
        Ok(l) => {
            let t = l.as_str().to_string();
            let into: &str = (&l).into();
            if into != t { return "INCONSISTENT into_str".into(); }
            if let Some(e) = eq_only_self(&t, &|o| l == o) { return e; }
            if let Some(e) = fmt_flags(&l) { return e; }
            text3(&t, l.to_string(), l == t.as_str()).map(|t| format!("OK {}", t)).unwrap_or_else(|e| e)
        }
        Err(e) => perr(e),
    }
}
pub fn region(v: &[u8]) -> String {
    let r = Region::from_bytes(v);
    if let Ok(s) = std::str::from_utf8(v) {
        let r2 = Region::from_str(s);
        if r2 != r {
            return format!("INCONSISTENT from_str {:?} vs from_bytes {:?}", r2, r);
        }
    }
    match r {
        Ok(l) => {
            let t = l.as_str().to_string();
            let into: &str = (&l).into();
            if into != t { return "INCONSISTENT into_str".into(); }
            if let Some(e) = eq_only_self(&t, &|o| l == o) { return e; }
            if let Some(e) = fmt_flags(&l) { return e; }
            text3(&t, l.to_string(), l == t.as_str()).map(|t| format!("OK {}", t)).unwrap_or_else(|e| e)
        }
        Err(e) => perr(e),
    }
}
pub fn variant(v: &[u8]) -> String {
    let r = Variant::from_bytes(v);
    if let Ok(s) = std::str::from_utf8(v) {
        let r2 = Variant::from_str(s);
        if r2 != r {
            return format!("INCONSISTENT from_str {:?} vs from_bytes {:?}", r2, r);
        }
    }
    match r {
        Ok(l) => {
            let t = l.as_str().to_string();
            if let Some(e) = eq_only_self(&t, &|o| l == o) { return e; }
            if let Some(e) = fmt_flags(&l) { return e; }
            if let Some(e) = eq_only_self(&t, &|o| l == *o) { return e; }
            text3(&t, l.to_string(), l == t.as_str() && l == *t.as_str()).map(|t| format!("OK {}", t)).unwrap_or_else(|e| e)
        }
        Err(e) => perr(e),
    }
}

// raw integer forms and the unchecked constructors (C17)
pub fn lang_raw(v: &[u8]) -> String {
    match Language::from_bytes(v) {
        Ok(l) => {
            let raw: Option<u64> = l.into();
            let raw2: Option<u64> = (&l).into();
            if raw != raw2 { return "INCONSISTENT raw by ref".into(); }
            match raw {
                None => "OK none".into(),
                Some(x) => {
                    let back = unsafe { Language::from_raw_unchecked(x) };
                    if back != l { return format!("INCONSISTENT roundtrip {:?} {:?}", back, l); }
                    format!("OK {:x} {}", x, back.as_str())
                }
            }
        }
        Err(e) => perr(e),
    }
}
pub fn script_raw(v: &[u8]) -> String {
    match Script::from_bytes(v) {
        Ok(l) => {
            let x: u32 = l.into();
            let back = unsafe { Script::from_raw_unchecked(x) };
            if back != l { return format!("INCONSISTENT roundtrip {:?} {:?}", back, l); }
            format!("OK {:x} {}", x, back.as_str())
        }
        Err(e) => perr(e),
    }
}
pub fn region_raw(v: &[u8]) -> String {
    match Region::from_bytes(v) {
        Ok(l) => {
            let x: u32 = l.into();
            let back = unsafe { Region::from_raw_unchecked(x) };
            if back != l { return format!("INCONSISTENT roundtrip {:?} {:?}", back, l); }
            format!("OK {:x} {}", x, back.as_str())
        }
        Err(e) => perr(e),
    }
}
pub fn variant_raw(v: &[u8]) -> String {
    match Variant::from_bytes(v) {
        Ok(l) => {
            let x: u64 = l.into();
            let x2: u64 = (&l).into();
            if x != x2 { return "INCONSISTENT raw by ref".into(); }
            let back = unsafe { Variant::from_raw_unchecked(x) };
            if back != l { return format!("INCONSISTENT roundtrip {:?} {:?}", back, l); }
            format!("OK {:x} {}", x, back.as_str())
        }
        Err(e) => perr(e),
    }
}

pub const CLASS19: [u8; 19] = [
    b'A', b'Z', b'a', b'z', b'0', b'9', b'@', b'[', b'`', b'{', b'/', b':', b'-', b'_', b' ', 0, 0x7f, 0x80, 0xff,
];

fn all4(out: &mut Out, v: &[u8], raw: bool) {
    out.case("lang", &[v], || lang(v));
    out.case("script", &[v], || script(v));
    out.case("region", &[v], || region(v));
    out.case("variant", &[v], || variant(v));
    if raw {
        out.case("lang_raw", &[v], || lang_raw(v));
        out.case("script_raw", &[v], || script_raw(v));
        out.case("region_raw", &[v], || region_raw(v));
        out.case("variant_raw", &[v], || variant_raw(v));
    }
}

fn product(out: &mut Out, alphabet: &[u8], len: usize, raw: bool) {
    let mut idx = vec![0usize; len];
    let mut buf = vec![0u8; len];
    loop {
        for i in 0..len {
            buf[i] = alphabet[idx[i]];
        }
        all4(out, &buf, raw);
        let mut k = len;
        loop {
            if k == 0 {
                return;
            }
            k -= 1;
            idx[k] += 1;
            if idx[k] < alphabet.len() {
                break;
            }
            idx[k] = 0;
        }
        if len == 0 {
            return;
        }
    }
}

pub const VALID_SEEDS: [&str; 14] = [
    "en", "EN", "und", "eng", "Latn", "lATN", "abcde", "abcdef", "abcdefg", "abcdefgh", "123", "1abc", "12345678", "a1b2c3",
];

pub fn run(out: &mut Out, tier: &str, rng: &mut Rng) {
    let all: Vec<u8> = (0..=255u8).collect();
    let thorough = tier == "thorough";
    // G1: every byte string of length 0..=2 (quick) / 0..=3 (thorough)
    out.comment("G1 exhaustive short strings");
    product(out, &all, 0, true);
    product(out, &all, 1, true);
    product(out, &all, 2, false);
    if thorough {
        product(out, &all, 3, false);
    } else {
        // length 3 over the boundary classes plus a few letters/digits
        let mut a: Vec<u8> = CLASS19.to_vec();
        a.extend_from_slice(b"unduND159");
        product(out, &a, 3, true);
    }
    out.comment("non-ASCII look-alikes of well-formed subtags");
    for b in ["ko", "sk", "is", "kok", "ksh", "Kits", "Sinh", "Kana", "SK", "IS", "KZ", "419", "001", "1996", "biske", "kiswa123", "pinyin", "1ksi"] {
        for s in crate::gen::lookalikes(b) { all4(out, s.as_bytes(), false); }
    }
    out.comment("G1 boundary-class strings of length 4..9");
    product(out, &CLASS19, 4, true);
    let a8 = [b'A', b'z', b'0', b'9', b'@', b'-', 0u8, 0x80];
    product(out, &a8, 5, true);
    let a6 = [b'Z', b'a', b'5', b'{', 0x7f, 0xffu8];
    product(out, &a6, 6, true);
    let a4 = [b'a', b'Q', b'7', b'_'];
    product(out, &a4, 7, true);
    product(out, &a4, 8, true);
    let a3 = [b'b', b'3', b':'];
    product(out, &a3, 9, true);
    if thorough {
        product(out, &CLASS19, 5, false);
        let a10 = [b'A', b'Z', b'a', b'z', b'0', b'9', b'@', b'{', 0u8, 0x80];
        product(out, &a10, 6, false);
        product(out, &a6, 7, false);
        product(out, &a6, 8, false);
        product(out, &a4, 9, false);
    }
    out.comment("single-byte substitutions of valid subtags");
    for s in VALID_SEEDS.iter() {
        let b = s.as_bytes();
        for pos in 0..b.len() {
            for x in 0..=255u8 {
                let mut m = b.to_vec();
                m[pos] = x;
                all4(out, &m, true);
            }
        }
        // one byte appended / removed
        for x in 0..=255u8 {
            let mut m = b.to_vec();
            m.push(x);
            all4(out, &m, true);
        }
    }
    out.comment("real-world subtags and look-alikes of the special values (und, true, root, ZZ, Zzzz)");
    for s in crate::corpus::REALWORLD.iter() { for t in s.split(|c| c == '-' || c == '_') { all4(out, t.as_bytes(), true); } }
    for t in crate::gen::REGISTERED_VARIANTS.iter() { all4(out, t.as_bytes(), true); all4(out, t.to_uppercase().as_bytes(), true); }
    for stem in ["und", "UND", "Und", "unD", "root", "true", "zz", "zzzz", "ZZ", "Zzzz"] {
        for tail in ["", "e", "ef", "ine", "ergo", "ulate", "x", "1", "efghi", "_", "-"] {
            let w = format!("{}{}", stem, tail);
            all4(out, w.as_bytes(), true);
            let w = format!("{}{}", tail, stem);
            all4(out, w.as_bytes(), true);
        }
    }
    out.comment("random strings");
    let n = if thorough { 2_000_000 } else { 100_000 };
    let alnum = b"abcdefghijklmnopqrstuvwxyzABCDEFGHIJKLMNOPQRSTUVWXYZ0123456789";
    for _ in 0..n {
        let len = rng.below(11);
        let mut m = Vec::with_capacity(len);
        let mode = rng.below(4);
        for _ in 0..len {
            let c = match mode {
                0 => *rng.pick(alnum),
                1 => *rng.pick(&alnum[..52]),
                2 => if rng.chance(1, 8) { rng.next() as u8 } else { *rng.pick(alnum) },
                _ => *rng.pick(&alnum[52..]),
            };
            m.push(c);
        }
        all4(out, &m, true);
    }
}
