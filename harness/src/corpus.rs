//! Regression corpus: minimised inputs of earlier failures; every run replays them first.
pub const REGRESS: [&str; 24] = [
    // D1: unsupported / malformed singleton used to hit unimplemented!()
    "en-a-foo", "en-US-!", "en-t-1a", "en-u-abcdefghi", "foo",
    // D2: multi-character "singleton" dispatched on its first byte
    "en-US-ux-foo", "en-xyz",
    // D3: repeated singleton
    "en-u-foo-u-bar", "en-t-h0-hybrid-t-k1-names",
    // D4: tfield loop swallowed the next singleton
    "en-t-h0-hybrid-u-ca-buddhist", "en-t-h0-hybrid-x-foo", "en-t-en-h0-hybrid-u-foo",
    // D5: second tlang
    "en-t-en-US-fr",
    // D6: 4-character variants
    "en-abcd", "en-Latn-Cyrl", "en-US-1...", "en-1abc",
    // either-zone shapes
    "en-", "en--u-foo", "en-u", "en-x", "en-t", "en-t-u-foo", "en-x-",
];
