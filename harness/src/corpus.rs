//! Regression corpus: minimised inputs of earlier failures; every run replays them first.
pub const REGRESS: [&str; 24] = [
    // D1: unsupported / malformed singleton used to hit unimplemented!()
    "en-a-foo", "en-US-!", "en-t-1a", "en-u-abcdefghi", "foo",
    // D2: multi-character "singleton" dispatched on its first byte
    "en-US-ux-foo", "en-xyz",
    // D3: repeated singleton
    "en-u-foo-u-bar", "en-t-h0-hybrid-t-k1-names",
    // D4: tfield loop swallowed the next singleton
    "en-t-h0-hybrid-u-ca-buddhist", "en-t-h0-hybrid-x-foo", "en-t-en-h0-hybrid-u-foo",
    // D5: second tlang
    "en-t-en-US-fr",
    // D6: 4-character variants
    "en-abcd", "en-Latn-Cyrl", "en-US-1...", "en-1abc",
    // either-zone shapes
    "en-", "en--u-foo", "en-u", "en-x", "en-t", "en-t-u-foo", "en-x-",
];

/// Real-world tags: IANA-registered variants and (formerly) grandfathered / redundant tags, CLDR alias sources,
/// private-use and special region / script codes, romanisation variants, long language subtags.  Well-formed or not,
/// every suite replays them: code that special-cases "known" subtags is only exercised by known subtags.
pub const REALWORLD: [&str; 94] = [
    "art-lojban", "cel-gaulish", "zh-guoyu", "zh-hakka", "zh-xiang", "no-bokmal", "no-nynorsk", "aa-saaho", "hy-arevmda",
    "zh-min-nan", "i-klingon", "i-default", "sgn-BE-FR", "en-GB-oed", "zh-min", "zh-gan", "zh-wuu", "zh-yue",
    "de-CH-1901", "de-1996", "sl-rozaj-biske-1994", "sl-IT-nedis", "de-DE-u-co-phonebk", "hy-Latn-IT-arevela",
    "zh-Hant-TW-xiang", "no-NO-bokmal", "nn-NO-nynorsk", "art-Latn-lojban", "ART-LOJBAN", "zh_hakka",
    "sr-Cyrl-ME", "sr-ME", "sr-Latn-ME", "zh-Hans-TW", "zh-Hans-HK", "pa-Guru-PK", "az-Latn-IR", "kk-Cyrl-CN", "mn-Cyrl-CN", "uz-Latn-AF",
    "und-XK", "und-Latn-XK", "und-Cyrl-XK", "sq-XK", "sr-XK", "en-ZZ", "en-Zzzz", "en-Latn-ZZ", "und-Zzzz-PL", "und-ZZ", "und-Zzzz", "en-AA", "en-QO", "und-XA", "und-QM",
    "he-alalc97", "ar-EG-alalc97", "ja-Latn-hepburn", "ja-hepburn-heploc", "zh-Latn-pinyin", "yue-jyutping", "zh-Latn-wadegile", "fa-alalc97", "ur-PK-alalc97",
    "he-fonipa", "ar-fonipa", "en-fonipa", "ar-Latn-fonipa", "he-IL-valencia", "uz-AF-hepburn",
    "undef", "undine", "Undulate", "UNDERGO", "unda", "undef-Latn-CH", "abund", "fundus",
    "abcdefgh-Latn-US-variant1-variant2", "english-Latn-US-valencia-fonxsamp", "en-t-abcdefgh-h0-hybrid", "en-t-abcdefgh", "en-t-abcdefg", "en-t-abcde-Latn",
    "en-u-true-ca-gregory", "fr-u-True-x-priv", "en-u-kf-upper-true", "en-t-h0-true-k0-dvorak", "en-t-k0-dvorak-h0-true", "en-u-kn-truex", "en-u-attr-true",
    "en-US-posix", "ca-ES-valencia", "en-US-u-va-posix",
];
