//! Suite `serde`: C19 (needs the `serde` feature).
use crate::common::*;
use crate::gen;
use crate::langid::fmt_li;
use unic_langid_impl::LanguageIdentifier;

#[cfg(feature = "serde")]
mod imp {
    use super::*;
    /// a writer that accepts `left` bytes and then fails: serialisation errors mid-way
    struct FailWriter { left: usize }
    impl std::io::Write for FailWriter {
        fn write(&mut self, buf: &[u8]) -> std::io::Result<usize> {
            if buf.len() > self.left { self.left = 0; return Err(std::io::Error::new(std::io::ErrorKind::Other, "full")); }
            self.left -= buf.len();
            Ok(buf.len())
        }
        fn flush(&mut self) -> std::io::Result<()> { Ok(()) }
    }
    // ---- a data format that is not JSON and not human-readable: which primitive does the value serialise to? ----
    pub struct Probe { pub human: bool }
    #[derive(Debug)]
    pub struct ProbeErr(String);
    impl std::fmt::Display for ProbeErr { fn fmt(&self, f: &mut std::fmt::Formatter<'_>) -> std::fmt::Result { f.write_str(&self.0) } }
    impl std::error::Error for ProbeErr {}
    impl serde::ser::Error for ProbeErr { fn custom<T: std::fmt::Display>(m: T) -> Self { ProbeErr(m.to_string()) } }
    type Imp = serde::ser::Impossible<String, ProbeErr>;
    macro_rules! other { ($($n:ident($t:ty)),*) => { $( fn $n(self, _: $t) -> Result<String, ProbeErr> { Ok(concat!("other:", stringify!($n)).into()) } )* } }
    impl serde::Serializer for Probe {
        type Ok = String; type Error = ProbeErr;
        type SerializeSeq = Imp; type SerializeTuple = Imp; type SerializeTupleStruct = Imp; type SerializeTupleVariant = Imp;
        type SerializeMap = Imp; type SerializeStruct = Imp; type SerializeStructVariant = Imp;
        fn is_human_readable(&self) -> bool { self.human }
        fn serialize_str(self, v: &str) -> Result<String, ProbeErr> { Ok(format!("str:{}", v)) }
        fn serialize_bytes(self, v: &[u8]) -> Result<String, ProbeErr> { Ok(format!("bytes:{}", String::from_utf8_lossy(v))) }
        other!(serialize_bool(bool), serialize_i8(i8), serialize_i16(i16), serialize_i32(i32), serialize_i64(i64), serialize_u8(u8), serialize_u16(u16),
               serialize_u32(u32), serialize_u64(u64), serialize_f32(f32), serialize_f64(f64), serialize_char(char), serialize_unit_struct(&'static str));
        fn serialize_none(self) -> Result<String, ProbeErr> { Ok("other:none".into()) }
        fn serialize_some<T: ?Sized + serde::Serialize>(self, v: &T) -> Result<String, ProbeErr> { v.serialize(self) }
        fn serialize_unit(self) -> Result<String, ProbeErr> { Ok("other:unit".into()) }
        fn serialize_unit_variant(self, _: &'static str, _: u32, _: &'static str) -> Result<String, ProbeErr> { Ok("other:unit_variant".into()) }
        fn serialize_newtype_struct<T: ?Sized + serde::Serialize>(self, _: &'static str, v: &T) -> Result<String, ProbeErr> { v.serialize(self) }
        fn serialize_newtype_variant<T: ?Sized + serde::Serialize>(self, _: &'static str, _: u32, _: &'static str, _: &T) -> Result<String, ProbeErr> { Ok("other:newtype_variant".into()) }
        fn serialize_seq(self, _: Option<usize>) -> Result<Imp, ProbeErr> { Err(ProbeErr("other:seq".into())) }
        fn serialize_tuple(self, _: usize) -> Result<Imp, ProbeErr> { Err(ProbeErr("other:tuple".into())) }
        fn serialize_tuple_struct(self, _: &'static str, _: usize) -> Result<Imp, ProbeErr> { Err(ProbeErr("other:tuple_struct".into())) }
        fn serialize_tuple_variant(self, _: &'static str, _: u32, _: &'static str, _: usize) -> Result<Imp, ProbeErr> { Err(ProbeErr("other:tuple_variant".into())) }
        fn serialize_map(self, _: Option<usize>) -> Result<Imp, ProbeErr> { Err(ProbeErr("other:map".into())) }
        fn serialize_struct(self, _: &'static str, _: usize) -> Result<Imp, ProbeErr> { Err(ProbeErr("other:struct".into())) }
        fn serialize_struct_variant(self, _: &'static str, _: u32, _: &'static str, _: usize) -> Result<Imp, ProbeErr> { Err(ProbeErr("other:struct_variant".into())) }
    }
    /// the serde form does not depend on the data format: a string, for a human-readable and for a binary format alike;
    /// serde's own value deserializers: strings (borrowed, transient, owned) parse like from_bytes, everything else is an error
    pub fn format_independent(li: &LanguageIdentifier) -> Option<String> {
        use serde::Serialize;
        let want = format!("str:{}", li);
        for human in [true, false] {
            let got = li.serialize(Probe { human }).unwrap_or_else(|e| format!("err:{}", e));
            if got != want { return Some(format!("INCONSISTENT a {} serializer receives {} instead of {}", if human { "human-readable" } else { "binary (not human-readable)" }, got, want)); }
        }
        None
    }
    pub fn value_deserializers(s: &str) -> Option<String> {
        use serde::de::value::{BorrowedStrDeserializer, BytesDeserializer, BorrowedBytesDeserializer, StrDeserializer, StringDeserializer, U32Deserializer, UnitDeserializer, Error as VErr};
        use serde::Deserialize;
        let want = LanguageIdentifier::from_bytes(s.as_bytes()).ok();
        let a = LanguageIdentifier::deserialize(StrDeserializer::<VErr>::new(s)).ok();
        let b = LanguageIdentifier::deserialize(StringDeserializer::<VErr>::new(s.to_string())).ok();
        let c = LanguageIdentifier::deserialize(BorrowedStrDeserializer::<VErr>::new(s)).ok();
        if a != want || b != want || c != want { return Some(format!("INCONSISTENT value deserializers: str={:?} string={:?} borrowed={:?} from_bytes={:?}", a.is_some(), b.is_some(), c.is_some(), want.is_some())); }
        let d = LanguageIdentifier::deserialize(BytesDeserializer::<VErr>::new(s.as_bytes())).is_ok();
        let e = LanguageIdentifier::deserialize(BorrowedBytesDeserializer::<VErr>::new(s.as_bytes())).is_ok();
        let f = LanguageIdentifier::deserialize(U32Deserializer::<VErr>::new(7)).is_ok();
        let g = LanguageIdentifier::deserialize(UnitDeserializer::<VErr>::new()).is_ok();
        if d || e || f || g { return Some(format!("INCONSISTENT a non-string input is accepted: bytes={} borrowed-bytes={} u32={} unit={}", d, e, f, g)); }
        // bytes that are not UTF-8 (a binary format may deliver them): an error, not a crash
        for raw in [&[0xffu8][..], &[0x80, b'e', b'n'], &[b'e', b'n', 0xc3], &[]] {
            if LanguageIdentifier::deserialize(BytesDeserializer::<VErr>::new(raw)).is_ok() { return Some("INCONSISTENT non-UTF-8 bytes are accepted".into()); }
            if LanguageIdentifier::deserialize(serde::de::value::SeqDeserializer::<_, VErr>::new(raw.iter().copied())).is_ok() { return Some("INCONSISTENT a sequence of bytes is accepted".into()); }
        }
        None
    }
    pub fn serde_ser(v: &[u8]) -> String {
        match LanguageIdentifier::from_bytes(v) {
            Ok(li) => {
                // a FAILED serialisation (of this value and of an unrelated one, in containers too) must leave no
                // trace: what is serialised afterwards on the same thread is still exactly the canonical string
                let other: LanguageIdentifier = "zh-Hant-TW-fonipa".parse().unwrap();
                for left in [0usize, 1, 3] {
                    let _ = serde_json::to_writer(FailWriter { left }, &li);
                    let _ = serde_json::to_writer(FailWriter { left }, &other);
                    let _ = serde_json::to_writer(FailWriter { left: left + 2 }, &vec![other.clone(), li.clone()]);
                }
                if let Some(e) = format_independent(&li) { return e; }
                let a = serde_json::to_string(&li);
                let b = serde_json::to_value(&li);
                match (a, b) {
                    (Ok(s), Ok(serde_json::Value::String(t))) => {
                        if s != format!("\"{}\"", t) { return format!("INCONSISTENT to_string {} vs to_value {}", s, t); }
                        // containers and map keys carry the same string
                        let in_vec = serde_json::to_string(&vec![li.clone(), li.clone()]).unwrap_or_default();
                        if in_vec != format!("[{},{}]", s, s) { return format!("INCONSISTENT inside a Vec: {}", in_vec); }
                        let in_opt = serde_json::to_string(&Some(li.clone())).unwrap_or_default();
                        if in_opt != s { return format!("INCONSISTENT inside an Option: {}", in_opt); }
                        let mut w: Vec<u8> = Vec::new();
                        if serde_json::to_writer(&mut w, &li).is_err() || w != s.as_bytes() { return "INCONSISTENT to_writer vs to_string".into(); }
                        format!("OK {}", s)
                    }
                    (a, b) => format!("SER-ERR {:?} {:?}", a.is_ok(), b.is_ok()),
                }
            }
            Err(_) => "BADARG".into(),
        }
    }
    fn fmt_r(r: Result<LanguageIdentifier, serde_json::Error>) -> String {
        match r { Ok(li) => format!("OK {}", fmt_li(&li)), Err(_) => "ERR".into() }
    }
    /// the argument is the string VALUE; it is encoded as JSON three ways
    pub fn serde_de(v: &[u8]) -> String {
        let s = match std::str::from_utf8(v) { Ok(s) => s, Err(_) => return "BADARG".into() };
        if let Some(e) = value_deserializers(s) { return e; }
        let plain = serde_json::to_string(s).unwrap();
        let mut esc = String::from("\"");
        for c in s.chars() {
            let mut buf = [0u16; 2];
            for u in c.encode_utf16(&mut buf) { esc.push_str(&format!("\\u{:04x}", u)); }
        }
        esc.push('"');
        let r1 = fmt_r(serde_json::from_str::<LanguageIdentifier>(&plain));
        let r2 = fmt_r(serde_json::from_str::<LanguageIdentifier>(&esc));
        let r3 = fmt_r(serde_json::from_value::<LanguageIdentifier>(serde_json::Value::String(s.to_string())));
        let r4 = fmt_r(serde_json::from_slice::<LanguageIdentifier>(plain.as_bytes()));
        let r5 = fmt_r(serde_json::from_reader::<_, LanguageIdentifier>(std::io::Cursor::new(plain.as_bytes().to_vec())));
        if r1 != r2 || r1 != r3 || r1 != r4 || r1 != r5 { return format!("INCONSISTENT plain={} escaped={} value={} slice={} reader={}", r1, r2, r3, r4, r5); }
        // inside containers: a Vec element, an Option, a struct-like map value, a map key
        let r6 = fmt_r(serde_json::from_str::<Vec<LanguageIdentifier>>(&format!("[{}]", esc)).map(|mut v| v.pop().unwrap()));
        let r7 = match serde_json::from_str::<Option<LanguageIdentifier>>(&plain) { Ok(Some(x)) => fmt_r(Ok(x)), Ok(None) => "NONE".into(), Err(_) => "ERR".into() };
        let r8 = fmt_r(serde_json::from_str::<std::collections::BTreeMap<String, LanguageIdentifier>>(&format!("{{\"k\":{}}}", plain)).map(|mut m| m.remove("k").unwrap()));
        let r9 = fmt_r(serde_json::from_str::<std::collections::BTreeMap<LanguageIdentifier, u8>>(&format!("{{{}:1}}", plain)).map(|m| m.into_iter().next().unwrap().0));
        if r1 != r6 || r1 != r7 || r1 != r8 || r1 != r9 { return format!("INCONSISTENT plain={} vec={} option={} map-value={} map-key={}", r1, r6, r7, r8, r9); }
        // deserialising INTO an existing value (the doc-hidden but public `deserialize_in_place`, which Vec<T> and
        // serde_derive's in-place mode use) must give what deserialising a fresh value gives - nothing of the old value stays
        {
            use serde::Deserialize;
            for old_text in ["ca-Latn-ES-valencia-1996", "und", "zh-Hant-TW"] {
                let mut existing: LanguageIdentifier = old_text.parse().unwrap();
                let mut de = serde_json::Deserializer::from_str(&plain);
                let ok = LanguageIdentifier::deserialize_in_place(&mut de, &mut existing).is_ok();
                let got = if ok { fmt_r(Ok(existing.clone())) } else { "ERR".to_string() };
                if got != r1 { return format!("INCONSISTENT deserialize_in_place into {} gives {} but deserialize gives {}", old_text, got, r1); }
                let mut v: Vec<LanguageIdentifier> = vec![old_text.parse().unwrap()];
                let listed = format!("[{}]", plain);
                let mut de = serde_json::Deserializer::from_str(&listed);
                let okv = <Vec<LanguageIdentifier>>::deserialize_in_place(&mut de, &mut v).is_ok();
                let gotv = if okv && v.len() == 1 { fmt_r(Ok(v[0].clone())) } else { "ERR".to_string() };
                if gotv != r1 { return format!("INCONSISTENT Vec::deserialize_in_place over [{}] gives {} but deserialize gives {}", old_text, gotv, r1); }
            }
        }
        r1
    }
    pub fn serde_roundtrip(v: &[u8]) -> String {
        match LanguageIdentifier::from_bytes(v) {
            Ok(li) => {
                let s = match serde_json::to_string(&li) { Ok(s) => s, Err(_) => return "SER-ERR".into() };
                match serde_json::from_str::<LanguageIdentifier>(&s) { Ok(y) => if y == li { "OK same".into() } else { "DIFF".into() }, Err(_) => "DE-ERR".into() }
            }
            Err(_) => "BADARG".into(),
        }
    }
    /// the argument is JSON TEXT of a non-string value
    pub fn serde_nonstring(v: &[u8]) -> String {
        let s = match std::str::from_utf8(v) { Ok(s) => s, Err(_) => return "BADARG".into() };
        let r1 = serde_json::from_str::<LanguageIdentifier>(s).is_ok();
        let r2 = match serde_json::from_str::<serde_json::Value>(s) { Ok(val) => serde_json::from_value::<LanguageIdentifier>(val).is_ok(), Err(_) => false };
        if r1 || r2 { "OK".into() } else { "ERR".into() }
    }
}
#[cfg(not(feature = "serde"))]
mod imp {
    pub fn serde_ser(_: &[u8]) -> String { "NOFEATURE".into() }
    pub fn serde_de(_: &[u8]) -> String { "NOFEATURE".into() }
    pub fn serde_roundtrip(_: &[u8]) -> String { "NOFEATURE".into() }
    pub fn serde_nonstring(_: &[u8]) -> String { "NOFEATURE".into() }
}
pub use imp::*;

pub fn run(out: &mut Out, tier: &str, rng: &mut Rng) {
    let thorough = tier == "thorough";
    let full = gen::tokens_full();
    let firsts = gen::first_tokens();
    let ops = |out: &mut Out, s: &[u8]| {
        if std::str::from_utf8(s).is_ok() { out.case("serde_de", &[s], || serde_de(s)); }
        out.case("serde_ser", &[s], || serde_ser(s));
        out.case("serde_roundtrip", &[s], || serde_roundtrip(s));
    };
    for f in firsts.iter() {
        ops(out, f);
        for a in full.iter() {
            ops(out, &gen::join(&[f, a], rng.next()));
            for b in full.iter() { ops(out, &gen::join(&[f, a, b], rng.next())); }
        }
    }
    for s in crate::corpus::REALWORLD.iter() { ops(out, s.as_bytes()); }
    // long identifiers: canonical text around and beyond 32 / 64 bytes with few and with many variants
    for _ in 0..(if thorough { 30_000 } else { 3_000 }) {
        let mut toks = vec![if rng.chance(1, 2) { gen::rand_lang8(rng) } else { gen::rand_lang(rng) }];
        if rng.chance(2, 3) { toks.push(gen::rand_script(rng)); }
        if rng.chance(2, 3) { toks.push(gen::rand_region(rng)); }
        for _ in 0..rng.below(9) { toks.push(gen::rand_variant(rng)); }
        let s = gen::render(rng, &toks);
        ops(out, &s);
    }
    let n = if thorough { 300_000 } else { 30_000 };
    for _ in 0..n {
        let toks = gen::wf_langid_tokens(rng);
        let s = gen::render(rng, &toks);
        ops(out, &s);
        let m = gen::mutate(rng, &s);
        ops(out, &m);
    }
    // strings that need JSON escapes
    for s in ["en\"", "en\\", "e\u{0}n", "en\n", "en\tUS", "\u{e9}n", "en-\u{1F600}", "\u{FEFF}en", "en\u{7f}", "\"en\""] { ops(out, s.as_bytes()); }
    for s in ["null", "true", "false", "0", "1", "-1", "1.5", "1e3", "[]", "[\"en\"]", "{}", "{\"a\":\"en\"}", "[[]]", "{\"language\":\"en\"}", "", " ", "en", "nul", "[", "\"en", "12345678901234567890", "[1,2,3]", "{\"en\":null}"] {
        out.case("serde_nonstring", &[s.as_bytes()], || serde_nonstring(s.as_bytes()));
    }
    for _ in 0..(if thorough { 20000 } else { 2000 }) {
        // random non-string JSON values
        let v = match rng.below(6) { 0 => format!("{}", rng.next() % 100000), 1 => format!("[{}]", rng.next() % 7), 2 => format!("{{\"k{}\":\"en\"}}", rng.next() % 9), 3 => format!("-{}.{}", rng.next() % 99, rng.next() % 99), 4 => format!("[\"{}\"]", gen::rand_lang(rng)), _ => format!("{{\"{}\":[]}}", gen::rand_lang(rng)) };
        out.case("serde_nonstring", &[v.as_bytes()], || serde_nonstring(v.as_bytes()));
    }
}
