//! Suite `serde`: C19 (needs the `serde` feature).
use crate::common::*;
use crate::gen;
use crate::langid::fmt_li;
use unic_langid_impl::LanguageIdentifier;

#[cfg(feature = "serde")]
mod imp {
    use super::*;
    /// a writer that accepts `left` bytes and then fails: serialisation errors mid-way
    struct FailWriter { left: usize }
    impl std::io::Write for FailWriter {
        fn write(&mut self, buf: &[u8]) -> std::io::Result<usize> {
            if buf.len() > self.left { self.left = 0; return Err(std::io::Error::new(std::io::ErrorKind::Other, "full")); }
            self.left -= buf.len();
            Ok(buf.len())
        }
        fn flush(&mut self) -> std::io::Result<()> { Ok(()) }
    }
    pub fn serde_ser(v: &[u8]) -> String {
        match LanguageIdentifier::from_bytes(v) {
            Ok(li) => {
                // a FAILED serialisation (of this value and of an unrelated one, in containers too) must leave no
                // trace: what is serialised afterwards on the same thread is still exactly the canonical string
                let other: LanguageIdentifier = "zh-Hant-TW-fonipa".parse().unwrap();
                for left in [0usize, 1, 3] {
                    let _ = serde_json::to_writer(FailWriter { left }, &li);
                    let _ = serde_json::to_writer(FailWriter { left }, &other);
                    let _ = serde_json::to_writer(FailWriter { left: left + 2 }, &vec![other.clone(), li.clone()]);
                }
                let a = serde_json::to_string(&li);
                let b = serde_json::to_value(&li);
                match (a, b) {
                    (Ok(s), Ok(serde_json::Value::String(t))) => {
                        if s != format!("\"{}\"", t) { return format!("INCONSISTENT to_string {} vs to_value {}", s, t); }
                        // containers and map keys carry the same string
                        let in_vec = serde_json::to_string(&vec![li.clone(), li.clone()]).unwrap_or_default();
                        if in_vec != format!("[{},{}]", s, s) { return format!("INCONSISTENT inside a Vec: {}", in_vec); }
                        let in_opt = serde_json::to_string(&Some(li.clone())).unwrap_or_default();
                        if in_opt != s { return format!("INCONSISTENT inside an Option: {}", in_opt); }
                        let mut w: Vec<u8> = Vec::new();
                        if serde_json::to_writer(&mut w, &li).is_err() || w != s.as_bytes() { return "INCONSISTENT to_writer vs to_string".into(); }
                        format!("OK {}", s)
                    }
                    (a, b) => format!("SER-ERR {:?} {:?}", a.is_ok(), b.is_ok()),
                }
            }
            Err(_) => "BADARG".into(),
        }
    }
    fn fmt_r(r: Result<LanguageIdentifier, serde_json::Error>) -> String {
        match r { Ok(li) => format!("OK {}", fmt_li(&li)), Err(_) => "ERR".into() }
    }
    /// the argument is the string VALUE; it is encoded as JSON three ways
    pub fn serde_de(v: &[u8]) -> String {
        let s = match std::str::from_utf8(v) { Ok(s) => s, Err(_) => return "BADARG".into() };
        let plain = serde_json::to_string(s).unwrap();
        let mut esc = String::from("\"");
        for c in s.chars() {
            let mut buf = [0u16; 2];
            for u in c.encode_utf16(&mut buf) { esc.push_str(&format!("\\u{:04x}", u)); }
        }
        esc.push('"');
        let r1 = fmt_r(serde_json::from_str::<LanguageIdentifier>(&plain));
        let r2 = fmt_r(serde_json::from_str::<LanguageIdentifier>(&esc));
        let r3 = fmt_r(serde_json::from_value::<LanguageIdentifier>(serde_json::Value::String(s.to_string())));
        let r4 = fmt_r(serde_json::from_slice::<LanguageIdentifier>(plain.as_bytes()));
        let r5 = fmt_r(serde_json::from_reader::<_, LanguageIdentifier>(std::io::Cursor::new(plain.as_bytes().to_vec())));
        if r1 != r2 || r1 != r3 || r1 != r4 || r1 != r5 { return format!("INCONSISTENT plain={} escaped={} value={} slice={} reader={}", r1, r2, r3, r4, r5); }
        // inside containers: a Vec element, an Option, a struct-like map value, a map key
        let r6 = fmt_r(serde_json::from_str::<Vec<LanguageIdentifier>>(&format!("[{}]", esc)).map(|mut v| v.pop().unwrap()));
        let r7 = match serde_json::from_str::<Option<LanguageIdentifier>>(&plain) { Ok(Some(x)) => fmt_r(Ok(x)), Ok(None) => "NONE".into(), Err(_) => "ERR".into() };
        let r8 = fmt_r(serde_json::from_str::<std::collections::BTreeMap<String, LanguageIdentifier>>(&format!("{{\"k\":{}}}", plain)).map(|mut m| m.remove("k").unwrap()));
        let r9 = fmt_r(serde_json::from_str::<std::collections::BTreeMap<LanguageIdentifier, u8>>(&format!("{{{}:1}}", plain)).map(|m| m.into_iter().next().unwrap().0));
        if r1 != r6 || r1 != r7 || r1 != r8 || r1 != r9 { return format!("INCONSISTENT plain={} vec={} option={} map-value={} map-key={}", r1, r6, r7, r8, r9); }
        r1
    }
    pub fn serde_roundtrip(v: &[u8]) -> String {
        match LanguageIdentifier::from_bytes(v) {
            Ok(li) => {
                let s = match serde_json::to_string(&li) { Ok(s) => s, Err(_) => return "SER-ERR".into() };
                match serde_json::from_str::<LanguageIdentifier>(&s) { Ok(y) => if y == li { "OK same".into() } else { "DIFF".into() }, Err(_) => "DE-ERR".into() }
            }
            Err(_) => "BADARG".into(),
        }
    }
    /// the argument is JSON TEXT of a non-string value
    pub fn serde_nonstring(v: &[u8]) -> String {
        let s = match std::str::from_utf8(v) { Ok(s) => s, Err(_) => return "BADARG".into() };
        let r1 = serde_json::from_str::<LanguageIdentifier>(s).is_ok();
        let r2 = match serde_json::from_str::<serde_json::Value>(s) { Ok(val) => serde_json::from_value::<LanguageIdentifier>(val).is_ok(), Err(_) => false };
        if r1 || r2 { "OK".into() } else { "ERR".into() }
    }
}
#[cfg(not(feature = "serde"))]
mod imp {
    pub fn serde_ser(_: &[u8]) -> String { "NOFEATURE".into() }
    pub fn serde_de(_: &[u8]) -> String { "NOFEATURE".into() }
    pub fn serde_roundtrip(_: &[u8]) -> String { "NOFEATURE".into() }
    pub fn serde_nonstring(_: &[u8]) -> String { "NOFEATURE".into() }
}
pub use imp::*;

pub fn run(out: &mut Out, tier: &str, rng: &mut Rng) {
    let thorough = tier == "thorough";
    let full = gen::tokens_full();
    let firsts = gen::first_tokens();
    let ops = |out: &mut Out, s: &[u8]| {
        if std::str::from_utf8(s).is_ok() { out.case("serde_de", &[s], || serde_de(s)); }
        out.case("serde_ser", &[s], || serde_ser(s));
        out.case("serde_roundtrip", &[s], || serde_roundtrip(s));
    };
    for f in firsts.iter() {
        ops(out, f);
        for a in full.iter() {
            ops(out, &gen::join(&[f, a], rng.next()));
            for b in full.iter() { ops(out, &gen::join(&[f, a, b], rng.next())); }
        }
    }
    for s in crate::corpus::REALWORLD.iter() { ops(out, s.as_bytes()); }
    // long identifiers: canonical text around and beyond 32 / 64 bytes with few and with many variants
    for _ in 0..(if thorough { 30_000 } else { 3_000 }) {
        let mut toks = vec![if rng.chance(1, 2) { gen::rand_lang8(rng) } else { gen::rand_lang(rng) }];
        if rng.chance(2, 3) { toks.push(gen::rand_script(rng)); }
        if rng.chance(2, 3) { toks.push(gen::rand_region(rng)); }
        for _ in 0..rng.below(9) { toks.push(gen::rand_variant(rng)); }
        let s = gen::render(rng, &toks);
        ops(out, &s);
    }
    let n = if thorough { 300_000 } else { 30_000 };
    for _ in 0..n {
        let toks = gen::wf_langid_tokens(rng);
        let s = gen::render(rng, &toks);
        ops(out, &s);
        let m = gen::mutate(rng, &s);
        ops(out, &m);
    }
    // strings that need JSON escapes
    for s in ["en\"", "en\\", "e\u{0}n", "en\n", "en\tUS", "\u{e9}n", "en-\u{1F600}", "\u{FEFF}en", "en\u{7f}", "\"en\""] { ops(out, s.as_bytes()); }
    for s in ["null", "true", "false", "0", "1", "-1", "1.5", "1e3", "[]", "[\"en\"]", "{}", "{\"a\":\"en\"}", "[[]]", "{\"language\":\"en\"}", "", " ", "en", "nul", "[", "\"en", "12345678901234567890", "[1,2,3]", "{\"en\":null}"] {
        out.case("serde_nonstring", &[s.as_bytes()], || serde_nonstring(s.as_bytes()));
    }
    for _ in 0..(if thorough { 20000 } else { 2000 }) {
        // random non-string JSON values
        let v = match rng.below(6) { 0 => format!("{}", rng.next() % 100000), 1 => format!("[{}]", rng.next() % 7), 2 => format!("{{\"k{}\":\"en\"}}", rng.next() % 9), 3 => format!("-{}.{}", rng.next() % 99, rng.next() % 99), 4 => format!("[\"{}\"]", gen::rand_lang(rng)), _ => format!("{{\"{}\":[]}}", gen::rand_lang(rng)) };
        out.case("serde_nonstring", &[v.as_bytes()], || serde_nonstring(v.as_bytes()));
    }
}
