//! Suite `likely`: C06/C07/C08 (maximize/minimize), C14 (character_direction), C18 (compiled tables).
use crate::common::*;
use unic_langid_impl::subtags::{Language, Region, Script};
use unic_langid_impl::{CharacterDirection, LanguageIdentifier};

fn opt<'a>(v: &'a [u8]) -> Option<&'a [u8]> {
    if v.is_empty() { None } else { Some(v) }
}
fn parse3(l: &[u8], s: &[u8], r: &[u8]) -> Option<(Language, Option<Script>, Option<Region>)> {
    let lang = match opt(l) { Some(b) => Language::from_bytes(b).ok()?, None => Language::default() };
    let script = match opt(s) { Some(b) => Some(Script::from_bytes(b).ok()?), None => None };
    let region = match opt(r) { Some(b) => Some(Region::from_bytes(b).ok()?), None => None };
    Some((lang, script, region))
}
fn fmt3(t: &(Language, Option<Script>, Option<Region>)) -> String {
    format!(
        "{} {} {}",
        t.0.as_str(),
        t.1.map(|s| s.as_str().to_string()).unwrap_or_else(|| "-".into()),
        t.2.map(|s| s.as_str().to_string()).unwrap_or_else(|| "-".into())
    )
}

#[cfg(feature = "likely")]
pub fn maximize(l: &[u8], s: &[u8], r: &[u8]) -> String {
    use unic_langid_impl::likelysubtags;
    let (la, sc, rg) = match parse3(l, s, r) { Some(t) => t, None => return "BADARG".into() };
    let res = likelysubtags::maximize(la, sc, rg);
    // the method form must agree with the free function (C06 observe_at)
    let mut li = LanguageIdentifier::from_parts(la, sc, rg, &[]);
    let changed = li.maximize();
    match res {
        None => {
            if changed || li != LanguageIdentifier::from_parts(la, sc, rg, &[]) { return "INCONSISTENT method changed but function returned None".into(); }
            "NONE".into()
        }
        Some(t) => {
            if !changed || (li.language, li.script, li.region) != t { return "INCONSISTENT method vs function".into(); }
            // C07 laws, on the library alone
            if !la.is_empty() && t.0 != la { return format!("LAWFAIL language not kept: {}", fmt3(&t)); }
            if sc.is_some() && t.1 != sc { return format!("LAWFAIL script not kept: {}", fmt3(&t)); }
            if rg.is_some() && t.2 != rg { return format!("LAWFAIL region not kept: {}", fmt3(&t)); }
            if t.0.is_empty() || t.1.is_none() || t.2.is_none() { return format!("LAWFAIL not all three present: {}", fmt3(&t)); }
            if likelysubtags::maximize(t.0, t.1, t.2).is_some() { return format!("LAWFAIL not idempotent: {}", fmt3(&t)); }
            format!("SOME {}", fmt3(&t))
        }
    }
}
#[cfg(feature = "likely")]
pub fn minimize(l: &[u8], s: &[u8], r: &[u8]) -> String {
    use unic_langid_impl::likelysubtags;
    let (la, sc, rg) = match parse3(l, s, r) { Some(t) => t, None => return "BADARG".into() };
    let res = likelysubtags::minimize(la, sc, rg);
    let mut li = LanguageIdentifier::from_parts(la, sc, rg, &[]);
    let changed = li.minimize();
    let maxed = |a: Language, b: Option<Script>, c: Option<Region>| likelysubtags::maximize(a, b, c).unwrap_or((a, b, c));
    match res {
        None => {
            if changed || li != LanguageIdentifier::from_parts(la, sc, rg, &[]) { return "INCONSISTENT method changed but function returned None".into(); }
            // minimize(maximize(x)) == minimize(x) also when nothing changes
            let mo = maxed(la, sc, rg);
            if let Some(t2) = likelysubtags::minimize(mo.0, mo.1, mo.2) { return format!("LAWFAIL minimize(maximize(x)) = {} but minimize(x) leaves x unchanged", fmt3(&t2)); }
            "NONE".into()
        }
        Some(t) => {
            if !changed || (li.language, li.script, li.region) != t { return "INCONSISTENT method vs function".into(); }
            // C08 laws, on the library alone
            let mo = maxed(la, sc, rg);
            if maxed(t.0, t.1, t.2) != mo { return format!("LAWFAIL meaning changed: {}", fmt3(&t)); }
            if t.0 != mo.0 || (t.1.is_some() && t.1 != mo.1) || (t.2.is_some() && t.2 != mo.2) { return format!("LAWFAIL uses a subtag the maximized original lacks: {}", fmt3(&t)); }
            let cnt = |b: &Option<Script>, c: &Option<Region>| b.is_some() as u32 + c.is_some() as u32;
            if cnt(&t.1, &t.2) > cnt(&sc, &rg) { return format!("LAWFAIL more script/region subtags than the original: {}", fmt3(&t)); }
            match likelysubtags::minimize(t.0, t.1, t.2) {
                Some(t2) if t2 != t => return format!("LAWFAIL not idempotent: {}", fmt3(&t)),
                _ => {}
            }
            let mm = likelysubtags::minimize(mo.0, mo.1, mo.2);
            if mm != Some(t) { return format!("LAWFAIL minimize(maximize(x)) differs: {}", fmt3(&t)); }
            // the result is the FIRST of {language, language-region, language-script} that maximizes back to the maximized original
            let trials = [(mo.0, None, None), (mo.0, None, mo.2), (mo.0, mo.1, None)];
            match trials.iter().find(|f| likelysubtags::maximize(f.0, f.1, f.2) == Some(mo)) {
                Some(f) if *f != t => return format!("LAWFAIL not the first trial form that maximizes back: {} (first: {})", fmt3(&t), fmt3(f)),
                None => return format!("LAWFAIL the result does not maximize back through any trial form: {}", fmt3(&t)),
                _ => {}
            }
            format!("SOME {}", fmt3(&t))
        }
    }
}
#[cfg(feature = "likely")]
pub fn li_change(v: &[u8], max: bool) -> String {
    let mut li = match LanguageIdentifier::from_bytes(v) { Ok(x) => x, Err(_) => return "BADARG".into() };
    let before: Vec<String> = li.variants().map(|v| v.to_string()).collect();
    let ch = if max { li.maximize() } else { li.minimize() };
    let after: Vec<String> = li.variants().map(|v| v.to_string()).collect();
    if before != after { return "LAWFAIL variants touched".into(); }
    // the algebraic laws of C07 / C08 on the METHOD form (the function form has them in `maximize` / `minimize` above)
    let orig = match LanguageIdentifier::from_bytes(v) { Ok(x) => x, Err(_) => return "BADARG".into() };
    if !ch && li != orig { return format!("LAWFAIL returned false but changed the identifier: {}", li); }
    // (a true result with an unchanged identifier is not excluded by C07 / C08: minimize answers true for an
    // unknown language with a region, for instance; idempotence is about the VALUE)
    let mut again = li.clone();
    let _ = if max { again.maximize() } else { again.minimize() };
    if again != li { return format!("LAWFAIL not idempotent: {} then {}", li, again); }
    if max {
        if ch {
            if !orig.language.is_empty() && li.language != orig.language { return format!("LAWFAIL language not kept: {}", li); }
            if orig.script.is_some() && li.script != orig.script { return format!("LAWFAIL script not kept: {}", li); }
            if orig.region.is_some() && li.region != orig.region { return format!("LAWFAIL region not kept: {}", li); }
            if li.language.is_empty() || li.script.is_none() || li.region.is_none() { return format!("LAWFAIL not all three present: {}", li); }
        }
    } else {
        let (mut mo, mut ma) = (orig.clone(), li.clone());
        mo.maximize(); ma.maximize();
        if mo != ma { return format!("LAWFAIL meaning changed: {} maximizes to {}, the original to {}", li, ma, mo); }
        if li.language != mo.language || (li.script.is_some() && li.script != mo.script) || (li.region.is_some() && li.region != mo.region) {
            return format!("LAWFAIL uses a subtag the maximized original lacks: {}", li);
        }
        let cnt = |x: &LanguageIdentifier| x.script.is_some() as u32 + x.region.is_some() as u32;
        if cnt(&li) > cnt(&orig) { return format!("LAWFAIL more script/region subtags than the original: {}", li); }
        let mut mm = mo.clone(); mm.minimize();
        if mm != li { return format!("LAWFAIL minimize(maximize(x)) = {} differs from minimize(x) = {}", mm, li); }
    }
    format!("{} {}", ch, li)
}
pub fn direction(v: &[u8]) -> String {
    let li = match LanguageIdentifier::from_bytes(v) { Ok(x) => x, Err(_) => return "BADARG".into() };
    let d = li.character_direction();
    // variants never matter
    let mut li2 = li.clone();
    li2.clear_variants();
    if li2.character_direction() != d { return "LAWFAIL variants matter".into(); }
    match d { CharacterDirection::LTR => "LTR", CharacterDirection::RTL => "RTL", CharacterDirection::TTB => "TTB" }.into()
}
pub const DIR_OP: &str = if cfg!(feature = "likely") { "direction_likely" } else { "direction_plain" };

fn oh<T: std::fmt::LowerHex>(o: &Option<T>) -> String { match o { Some(x) => format!("{:x}", x), None => "-".into() } }

#[cfg(all(feature = "likely", unic_locale_verif))]
pub fn table_row(name: &[u8], idx: usize) -> String {
    use unic_langid_impl::likelysubtags::verif_tables as t;
    use unic_langid_impl::verif_layout as ly;
    let r1 = |tab: &[(u64, (Option<u64>, Option<u32>, Option<u32>))]| tab.get(idx).map(|(k, v)| format!("{:x} {} {} {}", k, oh(&v.0), oh(&v.1), oh(&v.2))).unwrap_or("NOROW".into());
    let r1s = |tab: &[(u32, (Option<u64>, Option<u32>, Option<u32>))]| tab.get(idx).map(|(k, v)| format!("{:x} {} {} {}", k, oh(&v.0), oh(&v.1), oh(&v.2))).unwrap_or("NOROW".into());
    let r2 = |tab: &[(u64, u32, (Option<u64>, Option<u32>, Option<u32>))]| tab.get(idx).map(|(a, b, v)| format!("{:x} {:x} {} {} {}", a, b, oh(&v.0), oh(&v.1), oh(&v.2))).unwrap_or("NOROW".into());
    let r2s = |tab: &[(u32, u32, (Option<u64>, Option<u32>, Option<u32>))]| tab.get(idx).map(|(a, b, v)| format!("{:x} {:x} {} {} {}", a, b, oh(&v.0), oh(&v.1), oh(&v.2))).unwrap_or("NOROW".into());
    match name {
        b"LANG_ONLY" => r1(&t::LANG_ONLY[..]),
        b"LANG_REGION" => r2(&t::LANG_REGION[..]),
        b"LANG_SCRIPT" => r2(&t::LANG_SCRIPT[..]),
        b"SCRIPT_REGION" => r2s(&t::SCRIPT_REGION[..]),
        b"SCRIPT_ONLY" => r1s(&t::SCRIPT_ONLY[..]),
        b"REGION_ONLY" => r1s(&t::REGION_ONLY[..]),
        b"SCRIPTS_LTR" => ly::SCRIPTS_CHARACTER_DIRECTION_LTR.get(idx).map(|x| format!("{:x}", x)).unwrap_or("NOROW".into()),
        b"SCRIPTS_RTL" => ly::SCRIPTS_CHARACTER_DIRECTION_RTL.get(idx).map(|x| format!("{:x}", x)).unwrap_or("NOROW".into()),
        b"SCRIPTS_TTB" => ly::SCRIPTS_CHARACTER_DIRECTION_TTB.get(idx).map(|x| format!("{:x}", x)).unwrap_or("NOROW".into()),
        b"LANGS_RTL" => ly::LANGS_CHARACTER_DIRECTION_RTL.get(idx).map(|x| format!("{:x}", x)).unwrap_or("NOROW".into()),
        _ => "NOTABLE".into(),
    }
}
#[cfg(all(feature = "likely", unic_locale_verif))]
pub fn table_len(name: &[u8]) -> String {
    use unic_langid_impl::likelysubtags::verif_tables as t;
    use unic_langid_impl::verif_layout as ly;
    let n = match name {
        b"LANG_ONLY" => t::LANG_ONLY.len(),
        b"LANG_REGION" => t::LANG_REGION.len(),
        b"LANG_SCRIPT" => t::LANG_SCRIPT.len(),
        b"SCRIPT_REGION" => t::SCRIPT_REGION.len(),
        b"SCRIPT_ONLY" => t::SCRIPT_ONLY.len(),
        b"REGION_ONLY" => t::REGION_ONLY.len(),
        b"SCRIPTS_LTR" => ly::SCRIPTS_CHARACTER_DIRECTION_LTR.len(),
        b"SCRIPTS_RTL" => ly::SCRIPTS_CHARACTER_DIRECTION_RTL.len(),
        b"SCRIPTS_TTB" => ly::SCRIPTS_CHARACTER_DIRECTION_TTB.len(),
        b"LANGS_RTL" => ly::LANGS_CHARACTER_DIRECTION_RTL.len(),
        _ => return "NOTABLE".into(),
    };
    format!("{:x}", n)
}
#[cfg(not(all(feature = "likely", unic_locale_verif)))]
pub fn table_row(_: &[u8], _: usize) -> String { "NOHOOK".into() }
#[cfg(not(all(feature = "likely", unic_locale_verif)))]
pub fn table_len(_: &[u8]) -> String { "NOHOOK".into() }
#[cfg(not(feature = "likely"))]
pub fn maximize(_: &[u8], _: &[u8], _: &[u8]) -> String { "NOFEATURE".into() }
#[cfg(not(feature = "likely"))]
pub fn minimize(_: &[u8], _: &[u8], _: &[u8]) -> String { "NOFEATURE".into() }
#[cfg(not(feature = "likely"))]
pub fn li_change(_: &[u8], _: bool) -> String { "NOFEATURE".into() }

pub const EXTRA_LANGS: [&str; 30] = ["mis", "mul", "zxx", "art", "cel", "sgn", "qtz", "iw", "in", "ji", "jw", "mo", "sh", "tl", "no", "nb", "nn", "bh", "ajp",
    "cmn", "yue", "nan", "hak", "swc", "tlh", "jbo", "eo", "ia", "vo", "grc"];
pub const EXTRA_SCRIPTS: [&str; 40] = ["Aran", "Cyrs", "Latf", "Latg", "Syre", "Syrj", "Syrn", "Hanb", "Jpan", "Kore", "Hrkt", "Zsym", "Zsye", "Zmth", "Zxxx",
    "Zinh", "Zyyy", "Brai", "Egyd", "Egyh", "Egyp", "Geok", "Hanj", "Visp", "Qabx", "Qaai", "Blis", "Cirt", "Inds", "Loma", "Maya", "Moon", "Nkgb", "Roro", "Sara",
    "Shui", "Teng", "Wole", "Afak", "Kpel"];
pub const EXTRA_REGIONS: [&str; 44] = ["AA", "QM", "QZ", "XA", "XB", "XZ", "EU", "UN", "UK", "AC", "CP", "DG", "EA", "IC", "TA", "FX", "SU", "YU", "CS", "AN", "BU",
    "DD", "NT", "TP", "ZR", "000", "002", "003", "005", "009", "011", "013", "015", "019", "021", "029", "030", "034", "142", "143", "150", "202", "830", "900"];

pub const TABLE_NAMES: [&str; 10] = [
    "LANG_ONLY", "LANG_REGION", "LANG_SCRIPT", "SCRIPT_REGION", "SCRIPT_ONLY", "REGION_ONLY",
    "SCRIPTS_LTR", "SCRIPTS_RTL", "SCRIPTS_TTB", "LANGS_RTL",
];

/// The CLDR subtag universe, read from the compiled tables (keys and values), plus unknown representatives.
#[cfg(all(feature = "likely", unic_locale_verif))]
pub fn universe() -> (Vec<String>, Vec<String>, Vec<String>, Vec<(String, String, String)>) {
    use unic_langid_impl::likelysubtags::verif_tables as t;
    use std::collections::BTreeSet;
    let l8 = |x: u64| unsafe { Language::from_raw_unchecked(x) }.as_str().to_string();
    let s4 = |x: u32| unsafe { Script::from_raw_unchecked(x) }.as_str().to_string();
    let r4 = |x: u32| unsafe { Region::from_raw_unchecked(x) }.as_str().to_string();
    let (mut ls, mut ss, mut rs) = (BTreeSet::new(), BTreeSet::new(), BTreeSet::new());
    let mut keys = vec![];
    let mut val = |v: &(Option<u64>, Option<u32>, Option<u32>), ls: &mut BTreeSet<String>, ss: &mut BTreeSet<String>, rs: &mut BTreeSet<String>| {
        if let Some(x) = v.0 { ls.insert(l8(x)); }
        if let Some(x) = v.1 { ss.insert(s4(x)); }
        if let Some(x) = v.2 { rs.insert(r4(x)); }
    };
    for (k, v) in t::LANG_ONLY.iter() { let l = l8(*k); if l != "und" { ls.insert(l.clone()); keys.push((l, String::new(), String::new())); } val(v, &mut ls, &mut ss, &mut rs); }
    for (a, b, v) in t::LANG_REGION.iter() { ls.insert(l8(*a)); rs.insert(r4(*b)); keys.push((l8(*a), String::new(), r4(*b))); val(v, &mut ls, &mut ss, &mut rs); }
    for (a, b, v) in t::LANG_SCRIPT.iter() { ls.insert(l8(*a)); ss.insert(s4(*b)); keys.push((l8(*a), s4(*b), String::new())); val(v, &mut ls, &mut ss, &mut rs); }
    for (a, b, v) in t::SCRIPT_REGION.iter() { ss.insert(s4(*a)); rs.insert(r4(*b)); keys.push((String::new(), s4(*a), r4(*b))); val(v, &mut ls, &mut ss, &mut rs); }
    for (k, v) in t::SCRIPT_ONLY.iter() { ss.insert(s4(*k)); keys.push((String::new(), s4(*k), String::new())); val(v, &mut ls, &mut ss, &mut rs); }
    for (k, v) in t::REGION_ONLY.iter() { rs.insert(r4(*k)); keys.push((String::new(), String::new(), r4(*k))); val(v, &mut ls, &mut ss, &mut rs); }
    for u in ["xx", "xxx", "qaa", "abcdefgh", "zzzzz"] { ls.insert(u.into()); }
    for u in ["Zzzz", "Xxxx", "Qaaa"] { ss.insert(u.into()); }
    for u in ["ZZ", "XX", "999", "001", "QO"] { rs.insert(u.into()); }
    // registered codes that the CLDR likely-subtags data may not mention: ISO 639 special / collective / deprecated
    // languages, ISO 15924 variant and special scripts, ISO 3166 exceptional / private-use / withdrawn and UN M.49 regions
    for u in EXTRA_LANGS.iter() { ls.insert((*u).into()); }
    for u in EXTRA_SCRIPTS.iter() { ss.insert((*u).into()); }
    for u in EXTRA_REGIONS.iter() { rs.insert((*u).into()); }
    (ls.into_iter().collect(), ss.into_iter().collect(), rs.into_iter().collect(), keys)
}
#[cfg(not(all(feature = "likely", unic_locale_verif)))]
pub fn universe() -> (Vec<String>, Vec<String>, Vec<String>, Vec<(String, String, String)>) {
    let v = |a: &[&str]| a.iter().map(|s| s.to_string()).collect::<Vec<_>>();
    (v(&["en", "ar", "az", "he", "fa", "ku", "uz", "pa", "ur", "sd", "ks", "mn", "zh", "ff", "ha", "xx", "qaa"]),
     v(&["Latn", "Arab", "Cyrl", "Hebr", "Mong", "Adlm", "Hans", "Zzzz", "Xxxx", "Thaa", "Nkoo"]),
     v(&["US", "IR", "AZ", "PK", "IN", "CN", "MN", "ZZ", "001", "999"]), vec![])
}

/// For every language: every script and every region that any table row relates to it (as part of a key or of a value),
/// combined with each other - the full triples on which a language-script, a language-region and the language-only
/// entry compete (zh-Hans-TW, sr-Cyrl-ME, pa-Guru-PK: default script of the language, region with an entry of its own).
#[cfg(all(feature = "likely", unic_locale_verif))]
pub fn lang_products() -> Vec<(String, String, String)> {
    use unic_langid_impl::likelysubtags::verif_tables as t;
    use std::collections::{BTreeMap, BTreeSet};
    let l8 = |x: u64| unsafe { Language::from_raw_unchecked(x) }.as_str().to_string();
    let s4 = |x: u32| unsafe { Script::from_raw_unchecked(x) }.as_str().to_string();
    let r4 = |x: u32| unsafe { Region::from_raw_unchecked(x) }.as_str().to_string();
    let mut m: BTreeMap<String, (BTreeSet<String>, BTreeSet<String>)> = BTreeMap::new();
    let mut add = |l: Option<String>, s: Option<String>, r: Option<String>, v: &(Option<u64>, Option<u32>, Option<u32>)| {
        let vl = v.0.map(l8);
        for lang in [l.clone(), vl].iter().flatten() {
            let e = m.entry(lang.clone()).or_default();
            for sc in [s.clone(), v.1.map(s4)].iter().flatten() { e.0.insert(sc.clone()); }
            for rg in [r.clone(), v.2.map(r4)].iter().flatten() { e.1.insert(rg.clone()); }
        }
    };
    for (k, v) in t::LANG_ONLY.iter() { add(Some(l8(*k)), None, None, v); }
    for (a, b, v) in t::LANG_REGION.iter() { add(Some(l8(*a)), None, Some(r4(*b)), v); }
    for (a, b, v) in t::LANG_SCRIPT.iter() { add(Some(l8(*a)), Some(s4(*b)), None, v); }
    for (a, b, v) in t::SCRIPT_REGION.iter() { add(None, Some(s4(*a)), Some(r4(*b)), v); }
    for (k, v) in t::SCRIPT_ONLY.iter() { add(None, Some(s4(*k)), None, v); }
    for (k, v) in t::REGION_ONLY.iter() { add(None, None, Some(r4(*k)), v); }
    let mut res = vec![];
    for (l, (ss, rs)) in m.iter() {
        if ss.len() * rs.len() <= 1 { continue; }   // the single combination is the language-only answer itself
        for s in ss.iter() { for r in rs.iter() {
            res.push((l.clone(), s.clone(), r.clone()));
            if l != "und" { res.push((String::new(), s.clone(), r.clone())); }
        } }
        // the two-subtag forms as well: a language with a related script but no row of its own for the pair (tk-Arab)
        for s in ss.iter() { res.push((l.clone(), s.clone(), String::new())); }
        for r in rs.iter() { res.push((l.clone(), String::new(), r.clone())); }
    }
    res.sort(); res.dedup();
    res
}
#[cfg(not(all(feature = "likely", unic_locale_verif)))]
pub fn lang_products() -> Vec<(String, String, String)> { vec![] }

/// An untrusted re-reading of the six likely-subtags tables (through the verification hook), used ONLY to select which of
/// the millions of pair products are worth sending to the oracle: a pair on which the library's `maximize` deviates from
/// this plain lookup order (language-region, language-script, language; script-region, script; region).
#[cfg(all(feature = "likely", unic_locale_verif))]
pub struct Screen {
    lr: std::collections::HashMap<(u64, u32), (Option<u64>, Option<u32>, Option<u32>)>,
    ls: std::collections::HashMap<(u64, u32), (Option<u64>, Option<u32>, Option<u32>)>,
    lo: std::collections::HashMap<u64, (Option<u64>, Option<u32>, Option<u32>)>,
    sr: std::collections::HashMap<(u32, u32), (Option<u64>, Option<u32>, Option<u32>)>,
    so: std::collections::HashMap<u32, (Option<u64>, Option<u32>, Option<u32>)>,
    ro: std::collections::HashMap<u32, (Option<u64>, Option<u32>, Option<u32>)>,
}
#[cfg(all(feature = "likely", unic_locale_verif))]
impl Screen {
    pub fn new() -> Self {
        use unic_langid_impl::likelysubtags::verif_tables as t;
        Screen {
            lr: t::LANG_REGION.iter().map(|(a, b, v)| ((*a, *b), *v)).collect(),
            ls: t::LANG_SCRIPT.iter().map(|(a, b, v)| ((*a, *b), *v)).collect(),
            lo: t::LANG_ONLY.iter().map(|(a, v)| (*a, *v)).collect(),
            sr: t::SCRIPT_REGION.iter().map(|(a, b, v)| ((*a, *b), *v)).collect(),
            so: t::SCRIPT_ONLY.iter().map(|(a, v)| (*a, *v)).collect(),
            ro: t::REGION_ONLY.iter().map(|(a, v)| (*a, *v)).collect(),
        }
    }
    /// does the library's maximize answer something else than the plain table reading?
    pub fn deviates(&self, l: &[u8], s: &[u8], r: &[u8]) -> bool {
        let (la, sc, rg) = match parse3(l, s, r) { Some(t) => t, None => return false };
        let got = unic_langid_impl::likelysubtags::maximize(la, sc, rg);
        let lraw: Option<u64> = la.into();
        let sraw: Option<u32> = sc.map(|x| x.into());
        let rraw: Option<u32> = rg.map(|x| x.into());
        let fill = |v: &(Option<u64>, Option<u32>, Option<u32>), keep_s: bool, keep_r: bool| -> (Option<u64>, Option<u32>, Option<u32>) {
            (lraw.or(v.0), if keep_s { sraw.or(v.1) } else { v.1 }, if keep_r { rraw.or(v.2) } else { v.2 })
        };
        let want: Option<(Option<u64>, Option<u32>, Option<u32>)> =
            if lraw.is_some() && sraw.is_some() && rraw.is_some() { None }
            else if let Some(lk) = lraw {
                if let Some(v) = rraw.and_then(|rk| self.lr.get(&(lk, rk))) { Some(fill(v, false, false)) }
                else if let Some(v) = sraw.and_then(|sk| self.ls.get(&(lk, sk))) { Some(fill(v, false, false)) }
                else { self.lo.get(&lk).map(|v| fill(v, true, true)) }
            } else if let Some(sk) = sraw {
                if let Some(v) = rraw.and_then(|rk| self.sr.get(&(sk, rk))) { Some(fill(v, false, false)) }
                else { self.so.get(&sk).map(|v| fill(v, false, true)) }
            } else if let Some(rk) = rraw { self.ro.get(&rk).map(|v| fill(v, false, false)) } else { None };
        let got_raw = got.map(|(a, b, c)| { let a: Option<u64> = a.into(); (a, b.map(|x| { let y: u32 = x.into(); y }), c.map(|x| { let y: u32 = x.into(); y })) });
        got_raw != want
    }
}
#[cfg(not(all(feature = "likely", unic_locale_verif)))]
pub struct Screen;
#[cfg(not(all(feature = "likely", unic_locale_verif)))]
impl Screen { pub fn new() -> Self { Screen } pub fn deviates(&self, _: &[u8], _: &[u8], _: &[u8]) -> bool { false } }

/// `seq_*` cases: a call on an unrelated language first (whatever a previous case left behind - a memo keyed by the
/// language, say - is displaced), then the first input, then the second; the answer is the second one's.
pub fn seq_direction(x: &[u8], y: &[u8]) -> String {
    let flush: &[u8] = if x.starts_with(b"ar") { b"he-IL" } else { b"ar-EG" };
    let _ = direction(flush);
    let _ = direction(x);
    direction(y)
}
pub fn seq_likely(a: &[&[u8]; 6], max: bool) -> String {
    let f: &[u8] = if a[0] == b"ar" { b"he" } else { b"ar" };
    if max { let _ = maximize(f, b"", b""); let _ = maximize(a[0], a[1], a[2]); maximize(a[3], a[4], a[5]) }
    else { let _ = minimize(f, b"", b"EG"); let _ = minimize(a[0], a[1], a[2]); minimize(a[3], a[4], a[5]) }
}
fn locale_dirs() -> Vec<String> {
    let mut v = vec![];
    if let Ok(rd) = std::fs::read_dir("/repo/unic-langid-impl/data/cldr-misc-full/main") {
        for e in rd.flatten() {
            if let Some(n) = e.file_name().to_str() { v.push(n.to_string()); }
        }
    }
    v.sort();
    v
}


/// C06 / C07 / C08 quantify over every input AND every schedule: the same call made from several threads at once
/// must give the answer it gives alone (the library has no shared mutable state on the unchanged tree; a cache, a
/// memo or a lazily initialised table added later must not change an answer).  `threads` workers walk `inputs` from
/// different starting points (round `r`: each round is one guarded call, so the watchdog sees a deadlock); returns (index, is_maximize, answer) for answers that differ from the
/// single-threaded ones in `exp`.
#[cfg(feature = "likely")]
fn par_sweep(inputs: &std::sync::Arc<Vec<(String, String, String)>>, exp: &std::sync::Arc<Vec<(String, String)>>, threads: usize, r: usize)
    -> Vec<(usize, bool, String)> {
    let mut hs = vec![];
    for t in 0..threads {
        let (inputs, exp) = (inputs.clone(), exp.clone());
        hs.push(std::thread::spawn(move || {
            install_panic_hook_thread();
            let n = inputs.len();
            let mut bad: Vec<(usize, bool, String)> = vec![];
            let start = (t * n / threads + r * 7919) % n.max(1);
            for k in 0..n {
                let i = if t % 2 == 0 { (start + k) % n } else { (start + n - k) % n };
                let (a, b, c) = &inputs[i];
                let (a, b, c) = (a.as_bytes(), b.as_bytes(), c.as_bytes());
                let got = std::panic::catch_unwind(|| maximize(a, b, c)).unwrap_or_else(|_| "PANIC (concurrent)".into());
                if got != exp[i].0 && bad.len() < 4 { bad.push((i, true, got)); }
                let got = std::panic::catch_unwind(|| minimize(a, b, c)).unwrap_or_else(|_| "PANIC (concurrent)".into());
                if got != exp[i].1 && bad.len() < 4 { bad.push((i, false, got)); }
            }
            bad
        }));
    }
    let mut all = vec![];
    for h in hs { if let Ok(mut b) = h.join() { all.append(&mut b); } }
    all
}

/// one input under contention (the replay form of a `par_*` case): background threads keep the library busy with the
/// whole key universe while this thread repeats the one call; the first answer that differs from the first one is
/// returned (or the common answer)
#[cfg(feature = "likely")]
pub fn par_one(l: &[u8], s: &[u8], r: &[u8], max: bool) -> String {
    use std::sync::atomic::{AtomicBool, Ordering};
    use std::sync::Arc;
    let (_, _, _, keys) = universe();
    let keys = Arc::new(keys);
    let stop = Arc::new(AtomicBool::new(false));
    let mut hs = vec![];
    for t in 0..7usize {
        let (keys, stop) = (keys.clone(), stop.clone());
        hs.push(std::thread::spawn(move || {
            let n = keys.len().max(1);
            let mut i = t * n / 7;
            while !stop.load(Ordering::Relaxed) {
                if let Some((a, b, c)) = keys.get(i % n) {
                    let _ = std::panic::catch_unwind(|| { let _ = maximize(a.as_bytes(), b.as_bytes(), c.as_bytes()); let _ = minimize(a.as_bytes(), b.as_bytes(), c.as_bytes()); });
                }
                i += 1;
            }
        }));
    }
    let call = || if max { maximize(l, s, r) } else { minimize(l, s, r) };
    let first = call();
    let mut res = first.clone();
    for _ in 0..300_000 {
        let g = call();
        if g != first { res = g; break; }
    }
    stop.store(true, Ordering::Relaxed);
    for h in hs { let _ = h.join(); }
    res
}
#[cfg(not(feature = "likely"))]
pub fn par_one(_: &[u8], _: &[u8], _: &[u8], _: bool) -> String { "NOFEATURE".into() }

pub fn run(out: &mut Out, tier: &str, rng: &mut Rng) {
    let thorough = tier == "thorough";
    let (ls, ss, rs, keys) = universe();
    let e: &[u8] = b"";
    if cfg!(feature = "likely") {
        out.comment("C18: compiled statics, row by row");
        out.case("cldr_version", &[], || cldr_version());
        for name in TABLE_NAMES.iter() {
            let nb = name.as_bytes();
            out.case("table_len", &[nb], || table_len(nb));
            // all rows, plus one index past the end
            let n = usize::from_str_radix(&table_len(nb), 16).unwrap_or(0);
            for i in 0..=n {
                let is = i.to_string();
                out.case("table_row", &[nb, is.as_bytes()], || table_row(nb, i));
            }
        }
        out.comment("C06/C07/C08: every table key and its perturbations");
        let unk_l = ["xx", "qaa"]; let unk_s = ["Zzzz", "Xxxx"]; let unk_r = ["ZZ", "999"];
        for (l, s, r) in keys.iter() {
            let mut variants: Vec<(String, String, String)> = vec![(l.clone(), s.clone(), r.clone())];
            variants.push((String::new(), s.clone(), r.clone()));
            variants.push((l.clone(), String::new(), r.clone()));
            variants.push((l.clone(), s.clone(), String::new()));
            variants.push((unk_l[rng.below(2)].into(), s.clone(), r.clone()));
            variants.push((l.clone(), unk_s[rng.below(2)].into(), r.clone()));
            variants.push((l.clone(), s.clone(), unk_r[rng.below(2)].into()));
            variants.push((l.clone(), rng.pick(&ss).clone(), r.clone()));
            variants.push((l.clone(), s.clone(), rng.pick(&rs).clone()));
            for (a, b, c) in variants {
                let (a, b, c) = (a.as_bytes(), b.as_bytes(), c.as_bytes());
                out.case("maximize", &[a, b, c], || maximize(a, b, c));
                out.case("minimize", &[a, b, c], || minimize(a, b, c));
            }
        }
        #[cfg(feature = "likely")]
        {
            out.comment("every table key from several threads at once: the answers of the single-threaded run (schedules)");
            let inputs = std::sync::Arc::new(keys.clone());
            let exp: Vec<(String, String)> = inputs.iter().map(|(a, b, c)| {
                let (a, b, c) = (a.as_bytes(), b.as_bytes(), c.as_bytes());
                (gen_call(|| maximize(a, b, c)).unwrap_or_else(|| "PANIC".into()), gen_call(|| minimize(a, b, c)).unwrap_or_else(|| "PANIC".into()))
            }).collect();
            let exp = std::sync::Arc::new(exp);
            let mut bad = vec![];
            for r in 0..(if thorough { 300 } else { 30 }) {
                bad.extend(gen_call(|| par_sweep(&inputs, &exp, 8, r)).unwrap_or_default());
                if bad.len() > 16 { break; }
            }
            let mut seen = std::collections::BTreeSet::new();
            for (i, is_max, got) in bad.into_iter() {
                if !seen.insert((i, is_max)) { continue; }
                let (a, b, c) = &inputs[i];
                out.emit(if is_max { "par_maximize" } else { "par_minimize" }, &[a.as_bytes(), b.as_bytes(), c.as_bytes()], got);
            }
            // a few cases are always written, so that the evidence shows the stage ran
            for i in (0..inputs.len()).step_by((inputs.len() / 8).max(1)) {
                let (a, b, c) = &inputs[i];
                out.emit("par_maximize", &[a.as_bytes(), b.as_bytes(), c.as_bytes()], exp[i].0.clone());
                out.emit("par_minimize", &[a.as_bytes(), b.as_bytes(), c.as_bytes()], exp[i].1.clone());
            }
        }
        out.comment("per language: every related script x every related region (competing table entries)");
        for (a, b, c) in lang_products() {
            let (a, b, c) = (a.as_bytes(), b.as_bytes(), c.as_bytes());
            out.case("maximize", &[a, b, c], || maximize(a, b, c));
            out.case("minimize", &[a, b, c], || minimize(a, b, c));
        }
        out.comment("state carried from one call to the next: ordered pairs of triples that share their language (ONE case = two calls, so both run in the same process)");
        {
            let mut groups: std::collections::BTreeMap<String, Vec<(String, String, String)>> = std::collections::BTreeMap::new();
            for (a, b, c) in lang_products() { if !a.is_empty() { groups.entry(a.clone()).or_default().push((a, b, c)); } }
            for (l, _, _) in keys.iter() { if !l.is_empty() { let g = groups.entry(l.clone()).or_default(); if g.is_empty() { g.push((l.clone(), String::new(), String::new())); } } }
            for (l, g) in groups.iter_mut() {
                // the shorter forms of the same language as well
                let mut extra: Vec<(String, String, String)> = vec![(l.clone(), String::new(), String::new())];
                for (_, s, r) in g.iter() { extra.push((l.clone(), s.clone(), String::new())); extra.push((l.clone(), String::new(), r.clone())); }
                g.extend(extra); g.sort(); g.dedup();
                let cap = if thorough { 40 } else { 14 };
                if g.len() > cap { let step = g.len() / cap + 1; *g = g.iter().step_by(step).cloned().collect(); }
            }
            for (_, g) in groups.iter() {
                if g.len() < 2 { continue; }
                for x in g.iter() { for y in g.iter() {
                    if x == y { continue; }
                    let args: [&[u8]; 6] = [x.0.as_bytes(), x.1.as_bytes(), x.2.as_bytes(), y.0.as_bytes(), y.1.as_bytes(), y.2.as_bytes()];
                    out.case("seq_maximize", &args, || seq_likely(&args, true));
                    out.case("seq_minimize", &args, || seq_likely(&args, false));
                } }
            }
        }
        out.comment("registered codes outside the CLDR likely-subtags data, each combined with known and unknown neighbours");
        for sc in EXTRA_SCRIPTS.iter() { for l in ["", "ur", "ar", "en", "zh", "sr", "xx"] { for r in ["", "PK", "US", "XX"] {
            let (a, b, c) = (l.as_bytes(), sc.as_bytes(), r.as_bytes());
            out.case("maximize", &[a, b, c], || maximize(a, b, c));
            out.case("minimize", &[a, b, c], || minimize(a, b, c));
        } } }
        for rg in EXTRA_REGIONS.iter() { for l in ["", "en", "es", "zh", "xx"] { for sc in ["", "Latn", "Hant", "Xxxx"] {
            let (a, b, c) = (l.as_bytes(), sc.as_bytes(), rg.as_bytes());
            out.case("maximize", &[a, b, c], || maximize(a, b, c));
            out.case("minimize", &[a, b, c], || minimize(a, b, c));
        } } }
        for l in EXTRA_LANGS.iter() { for sc in ["", "Latn", "Cyrl", "Xxxx"] { for r in ["", "US", "RS", "XX"] {
            let (a, b, c) = (l.as_bytes(), sc.as_bytes(), r.as_bytes());
            out.case("maximize", &[a, b, c], || maximize(a, b, c));
            out.case("minimize", &[a, b, c], || minimize(a, b, c));
        } } }
        out.comment("EVERY pair over the subtag universe (language x script, language x region, script x region), SCREENED: the answers are first compared with a plain re-reading of the six tables inside the harness (untrusted, selects cases only); every deviation and every 97th pair goes to the oracle");
        {
            let scr = Screen::new();
            let mut k = 0usize;
            let mut shown = 0usize;
            let mut visit = |out: &mut Out, a: &str, b: &str, c: &str| {
                k += 1;
                let (ab, bb, cb) = (a.as_bytes(), b.as_bytes(), c.as_bytes());
                let dev = match gen_call(|| scr.deviates(ab, bb, cb)) { Some(d) => d, None => true };
                if (dev && shown < 400) || k % 97 == 0 {
                    if dev { shown += 1; }
                    out.case("maximize", &[ab, bb, cb], || maximize(ab, bb, cb));
                    out.case("minimize", &[ab, bb, cb], || minimize(ab, bb, cb));
                }
            };
            for a in ls.iter() { for b in ss.iter() { visit(out, a, b, ""); } }
            for a in ls.iter() { for c in rs.iter() { visit(out, a, "", c); } }
            for b in ss.iter() { for c in rs.iter() { visit(out, "", b, c); } }
        }
        out.comment("random triples over the CLDR universe + unknowns");
        let n = if thorough { 500_000 } else { 30_000 };
        for _ in 0..n {
            let a = if rng.chance(1, 5) { String::new() } else { rng.pick(&ls).clone() };
            let b = if rng.chance(1, 2) { String::new() } else { rng.pick(&ss).clone() };
            let c = if rng.chance(1, 2) { String::new() } else { rng.pick(&rs).clone() };
            let (a, b, c) = (a.as_bytes(), b.as_bytes(), c.as_bytes());
            out.case("maximize", &[a, b, c], || maximize(a, b, c));
            out.case("minimize", &[a, b, c], || minimize(a, b, c));
        }
        out.comment("method forms with variants attached (frame)");
        let n = if thorough { 100_000 } else { 10_000 };
        for _ in 0..n {
            let mut s = rng.pick(&ls).clone();
            if rng.chance(1, 2) { s.push('-'); s.push_str(rng.pick(&ss[..]).as_str()); }
            if rng.chance(1, 2) { s.push('_'); s.push_str(rng.pick(&rs[..]).as_str()); }
            for _ in 0..rng.below(3) { s.push('-'); s.push_str(&crate::gen::rand_variant(rng)); }
            let b = s.as_bytes();
            out.case("li_maximize", &[b], || li_change(b, true));
            out.case("li_minimize", &[b], || li_change(b, false));
        }
    }
    out.comment("C14: every locale of the layout data, then triples");
    for d in locale_dirs() {
        let b = d.as_bytes();
        out.case(DIR_OP, &[b], || direction(b));
    }
    let _ = e;
    let n = if thorough { 400_000 } else { 40_000 };
    for _ in 0..n {
        let mut s = if rng.chance(1, 12) { "und".to_string() } else { rng.pick(&ls).clone() };
        if rng.chance(1, 2) { s.push('-'); s.push_str(rng.pick(&ss[..]).as_str()); }
        if rng.chance(1, 2) { s.push('-'); s.push_str(rng.pick(&rs[..]).as_str()); }
        if rng.chance(1, 4) { for _ in 0..(1 + rng.below(2)) { s.push('-'); s.push_str(&crate::gen::rand_variant(rng)); } }
        let b = s.as_bytes();
        out.case(DIR_OP, &[b], || direction(b));
    }
    out.comment("real-world tags; every registered variant on an RTL and an LTR language (variants never matter)");
    for s in crate::corpus::REALWORLD.iter() {
        let b = s.as_bytes();
        out.case(DIR_OP, &[b], || direction(b));
        if cfg!(feature = "likely") { out.case("li_maximize", &[b], || li_change(b, true)); out.case("li_minimize", &[b], || li_change(b, false)); }
    }
    for v in crate::gen::REGISTERED_VARIANTS.iter() {
        for l in ["he", "ar-EG", "uz", "pa-PK", "en", "und", "az-Arab", "fa-Latn"] {
            let s = format!("{}-{}", l, v);
            out.case(DIR_OP, &[s.as_bytes()], || direction(s.as_bytes()));
        }
    }
    out.comment("state carried from one call to the next (direction): ordered pairs of identifiers that share their language");
    {
        let seq_op = format!("seq_{}", DIR_OP);
        let prods = lang_products();
        for l in ["ar", "az", "he", "fa", "ff", "ha", "ks", "ku", "pa", "sd", "ug", "ur", "uz", "yi", "ckb", "mn", "ms", "kk", "ky", "tg", "tk", "en", "zh", "sr"] {
            // inducers: every identifier of the language that the tables relate to a script or region; victims: the
            // layout locales of the language (their direction is fixed by CLDR, so a stale answer is a failing input)
            let mut ids: Vec<String> = vec![l.to_string()];
            for (_, b, c) in prods.iter().filter(|t| t.0 == l) {
                let mut s = l.to_string();
                if !b.is_empty() { s.push('-'); s.push_str(b); }
                if !c.is_empty() { s.push('-'); s.push_str(c); }
                ids.push(s);
            }
            let victims: Vec<String> = locale_dirs().iter().filter(|d| d.split(|c| c == '-' || c == '_').next() == Some(l)).map(|d| d.replace('_', "-")).collect();
            ids.extend(victims.iter().cloned());
            ids.sort(); ids.dedup();
            // script-less identifiers are all kept (the refinement path is taken only without a script); the others are sampled
            let (mut keep, rest): (Vec<String>, Vec<String>) = ids.iter().cloned().partition(|s| s.split('-').skip(1).all(|p| p.len() != 4));
            let cap = if thorough { 120 } else { 30 };
            let step = rest.len() / cap + 1;
            keep.extend(rest.into_iter().step_by(step));
            let ids = keep;
            for x in ids.iter() { for y in victims.iter() {
                if x == y { continue; }
                out.case(&seq_op, &[x.as_bytes(), y.as_bytes()], || seq_direction(x.as_bytes(), y.as_bytes()));
            } }
            // and a sample of arbitrary ordered pairs of the language
            let few: Vec<&String> = ids.iter().step_by((ids.len() / 12).max(1)).collect();
            for x in few.iter() { for y in few.iter() {
                if x == y { continue; }
                out.case(&seq_op, &[x.as_bytes(), y.as_bytes()], || seq_direction(x.as_bytes(), y.as_bytes()));
            } }
        }
    }
    // RTL languages x every script / region (the refinement path)
    for l in ["ar", "az", "he", "fa", "ff", "ha", "ks", "ku", "pa", "sd", "ug", "ur", "uz", "yi", "ckb", "mn", "und", "en"] {
        for sc in ss.iter().take(if thorough { 400 } else { 60 }) {
            let s = format!("{}-{}", l, sc);
            out.case(DIR_OP, &[s.as_bytes()], || direction(s.as_bytes()));
        }
        for rg in rs.iter().take(400) {
            let s = format!("{}-{}", l, rg);
            out.case(DIR_OP, &[s.as_bytes()], || direction(s.as_bytes()));
        }
    }
}

#[cfg(feature = "likely")]
pub fn cldr_version() -> String { unic_langid_impl::likelysubtags::CLDR_VERSION.to_string() }
#[cfg(not(feature = "likely"))]
pub fn cldr_version() -> String { "NOFEATURE".into() }
