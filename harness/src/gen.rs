//! Input generators shared by the langid / locale suites (G2-G4 of DESIGN.md §2.6).
use crate::common::Rng;

/// boundary-class token alphabet
pub fn tokens_full() -> Vec<Vec<u8>> {
    let mut v: Vec<Vec<u8>> = vec![];
    let strs: [&str; 80] = [
        "undef", "UNDINE", "unda", "alalc97", "lojban", "ZZ",
        "", "a", "b", "t", "u", "x", "T", "U", "X", "1", "9", "z",
        "en", "EN", "e1", "1e", "12", "h0", "H0", "ca", "CA", "k1", "t0", "u1", "x1", "nu", "a-",
        "und", "UND", "eng", "e2g", "123", "12a", "a12", "foo", "1a2",
        "Latn", "lATN", "1abc", "abcd", "ab1d", "1234", "true", "TRUE", "root", "1ab.",
        "abcde", "ABCDE", "abc1e", "12345", "latne", "1abcd",
        "abcdef", "macos", "hybrid", "abcdefg", "1234567",
        "abcdefgh", "ABCDEFGH", "12345678", "valencia", "buddhist",
        "abcdefghi", "123456789",
        "a*", "a b", "ab*de", "a.c", "en*", "u*", "@", "{}", "US", "us",
    ];
    for s in strs.iter() {
        v.push(s.as_bytes().to_vec());
    }
    v.push(vec![b'a', 0]);
    v.push(vec![0]);
    v.push(vec![b'e', b'n', 0x80]);
    v.push(vec![0xff]);
    v.push(vec![b'u', 0xc3, 0xa9]);
    v.push(vec![0x7f, b'a', b'b']);
    v.retain(|t| !t.contains(&b'-'));
    v
}

pub fn tokens_reduced() -> Vec<Vec<u8>> {
    let strs: [&str; 30] = [
        "", "a", "t", "u", "x", "U", "1", "en", "h0", "ca", "k1", "1e", "und", "foo", "123", "Latn", "1abc", "abcd",
        "true", "abcde", "hybrid", "abcdefgh", "abcdefghi", "a*", "US", "x1", "T", "fr", "12a", "X",
    ];
    let mut v: Vec<Vec<u8>> = strs.iter().map(|s| s.as_bytes().to_vec()).collect();
    v.push(vec![b'a', 0x80]);
    v
}

pub fn first_tokens() -> Vec<Vec<u8>> {
    ["en", "und", "EnG", "abcde", "", "e1", "Latn", "root", "u", "x", "abcdefghi", "t"].iter().map(|s| s.as_bytes().to_vec()).collect()
}

pub fn join(toks: &[&[u8]], seps: u64) -> Vec<u8> {
    let mut o = vec![];
    for (i, t) in toks.iter().enumerate() {
        if i > 0 {
            o.push(if (seps >> (i % 60)) & 1 == 1 { b'_' } else { b'-' });
        }
        o.extend_from_slice(t);
    }
    o
}

const ALPHA: &[u8] = b"abcdefghijklmnopqrstuvwxyz";
const DIGIT: &[u8] = b"0123456789";
const ALNUM: &[u8] = b"abcdefghijklmnopqrstuvwxyz0123456789";

fn word(rng: &mut Rng, set: &[u8], lo: usize, hi: usize) -> String {
    let n = lo + rng.below(hi - lo + 1);
    (0..n).map(|_| *rng.pick(set) as char).collect()
}
/// IANA-registered variant subtags (a representative half of the registry)
pub const REGISTERED_VARIANTS: [&str; 84] = [
    "alalc97", "hepburn", "heploc", "jyutping", "pinyin", "wadegile", "arevela", "arevmda", "baku1926", "fonxsamp", "fonipa", "fonupa",
    "fonnapa", "fonkirsh", "lojban", "gaulish", "guoyu", "hakka", "xiang", "bokmal", "nynorsk", "saaho", "rozaj", "biske", "njiva",
    "osojs", "solba", "tarask", "scouse", "scotland", "valencia", "monoton", "polyton", "1606nict", "1694acad", "1901", "1996",
    "1959acad", "1994", "aluku", "ao1990", "bauddha", "boont", "bornholm", "cisaup", "colb1945", "cornu", "creiss", "dajnko",
    "ekavsk", "emodeng", "hognorsk", "hsistemo", "ijekavsk", "itihasa", "ivanchov", "jauer", "kkcor", "kociewie", "kscor",
    "laukika", "lemosin", "lengadoc", "lipaw", "luna1918", "metelko", "ndyuka", "nedis", "newfound", "nicard", "nulik",
    "oxendict", "pahawh2", "pamaka", "peano", "petr1708", "provenc", "puter", "rigik", "simple", "tongyong", "ulster", "unifon", "posix",
];
pub fn rand_lang(rng: &mut Rng) -> String {
    if rng.chance(1, 40) { return rng.pick(&["undef", "undine", "undulate", "undergo", "art", "cel", "no", "aa", "hy", "sgn", "yue", "jbo"]).to_string(); }
    match rng.below(10) {
        0 => "und".into(),
        1 => word(rng, ALPHA, 5, 8),
        2..=4 => rng.pick(&["en", "fr", "de", "zh", "ar", "sr", "az", "he", "ca", "und", "uz", "pa"]).to_string(),
        _ => word(rng, ALPHA, 2, 3),
    }
}
pub fn rand_script(rng: &mut Rng) -> String {
    if rng.chance(1, 30) { return rng.pick(&["Zzzz", "Zyyy", "Zinh", "Qaaa"]).to_string(); }
    if rng.chance(1, 2) { rng.pick(&["Latn", "Cyrl", "Arab", "Hant", "Hans", "Hebr", "Mong"]).to_string() } else { word(rng, ALPHA, 4, 4) }
}
pub fn rand_region(rng: &mut Rng) -> String {
    if rng.chance(1, 30) { return rng.pick(&["ZZ", "XK", "QO", "AA", "XA", "QM", "EU", "UN"]).to_string(); }
    match rng.below(4) {
        0 => word(rng, DIGIT, 3, 3),
        1 => rng.pick(&["US", "GB", "RS", "CN", "TW", "IR", "419", "001"]).to_string(),
        _ => word(rng, ALPHA, 2, 2),
    }
}
pub fn rand_variant(rng: &mut Rng) -> String {
    if rng.chance(1, 5) { return rng.pick(&REGISTERED_VARIANTS).to_string(); }
    match rng.below(5) {
        0 => format!("{}{}", word(rng, DIGIT, 1, 1), word(rng, ALNUM, 3, 3)),
        1 => rng.pick(&["valencia", "macos", "posix", "fonipa", "1996", "1901", "nedis", "rozaj"]).to_string(),
        _ => word(rng, ALNUM, 5, 8),
    }
}
pub fn rand_attr(rng: &mut Rng) -> String { word(rng, ALNUM, 3, 8) }
pub fn rand_ukey(rng: &mut Rng) -> String {
    if rng.chance(1, 2) { rng.pick(&["ca", "nu", "hc", "co", "kn", "fw", "1a", "kb", "kc", "kh", "kk", "va", "ka", "ks"]).to_string() } else { format!("{}{}", word(rng, ALNUM, 1, 1), word(rng, ALPHA, 1, 1)) }
}
pub fn rand_utype(rng: &mut Rng) -> String {
    if rng.chance(1, 15) { return rng.pick(&["yes", "non", "false", "YES", "standard", "traditional", "posix", "root", "und"]).to_string(); }   // ("no" has the shape of a KEY: two keywords `no` in one body are not an order-insensitive pair)
    if rng.chance(1, 12) { "true".into() } else if rng.chance(1, 25) { rng.pick(&["truex", "TrueType", "truely", "tru", "true1", "xtrue"]).to_string() } else if rng.chance(1, 3) { rng.pick(&["buddhist", "h12", "h23", "latn", "arab", "phonebk", "islamic", "civil"]).to_string() } else { word(rng, ALNUM, 3, 8) }
}
pub fn rand_tkey(rng: &mut Rng) -> String { format!("{}{}", word(rng, ALPHA, 1, 1), word(rng, DIGIT, 1, 1)) }
pub fn rand_tvalue(rng: &mut Rng) -> String {
    if rng.chance(1, 15) { return rng.pick(&["yes", "non", "false", "YES", "standard", "posix", "root", "und"]).to_string(); }
    if rng.chance(1, 12) { "true".into() } else if rng.chance(1, 25) { rng.pick(&["truex", "TrueType", "truely", "tru", "true1", "xtrue"]).to_string() } else if rng.chance(1, 3) { rng.pick(&["hybrid", "ungegn", "names", "prprname", "2007", "bgn"]).to_string() } else { word(rng, ALNUM, 3, 8) }
}
pub fn rand_priv(rng: &mut Rng) -> String { word(rng, ALNUM, 1, 8) }
/// private-use tags with numeric and digit-led shapes ("9", "10", "1a"): orderings other than bytewise show up here
pub fn rand_priv_num(rng: &mut Rng) -> String {
    match rng.below(4) {
        0 => word(rng, DIGIT, 1, 3),
        1 => format!("{}{}", word(rng, DIGIT, 1, 2), word(rng, ALPHA, 1, 2)),
        _ => rand_priv(rng),
    }
}
/// 8-letter languages sharing a 7-letter stem (the widest packed representation)
pub fn rand_lang8(rng: &mut Rng) -> String {
    format!("{}{}", rng.pick(&["abcdefg", "zzzzzzz", "english", "aaaaaaa"]), word(rng, ALPHA, 1, 1))
}
/// a copy of `toks` with one character of one token replaced by another of the same class
pub fn tweak(rng: &mut Rng, toks: &[String]) -> Vec<String> {
    let mut t: Vec<String> = toks.to_vec();
    if t.is_empty() { return t; }
    let i = rng.below(t.len());
    let mut b = t[i].clone().into_bytes();
    if b.is_empty() { return t; }
    let j = if rng.chance(1, 2) { b.len() - 1 } else { rng.below(b.len()) };
    b[j] = if b[j].is_ascii_digit() { *rng.pick(DIGIT) } else if b[j].is_ascii_uppercase() { rng.pick(ALPHA).to_ascii_uppercase() } else { *rng.pick(ALPHA) };
    t[i] = String::from_utf8(b).unwrap_or_default();
    t
}
/// language identifiers that differ in one character (or not at all)
pub fn near_langid_pair(rng: &mut Rng) -> (Vec<String>, Vec<String>) {
    let mut a = vec![if rng.chance(1, 2) { rand_lang8(rng) } else { rand_lang(rng) }];
    if rng.chance(1, 2) { a.push(rand_script(rng)); }
    if rng.chance(1, 2) { a.push(rand_region(rng)); }
    for _ in 0..rng.below(3) { a.push(rand_variant(rng)); }
    let mut b = tweak(rng, &a);
    if rng.chance(1, 3) { b = tweak(rng, &b); }
    if rng.chance(1, 4) && b.len() > 1 { let k = 1 + rng.below(b.len() - 1); b.remove(k); }
    (a, b)
}

/// random well-formed language identifier as a token list
pub fn wf_langid_tokens(rng: &mut Rng) -> Vec<String> {
    let mut t = vec![rand_lang(rng)];
    if rng.chance(2, 5) { t.push(rand_script(rng)); }
    if rng.chance(3, 5) { t.push(rand_region(rng)); }
    let nv = [0, 0, 0, 1, 1, 2, 3, 4][rng.below(8)];
    let mut vs: Vec<String> = (0..nv).map(|_| rand_variant(rng)).collect();
    if nv >= 2 && rng.chance(1, 4) { let d = vs[0].clone(); vs.push(d); }
    t.extend(vs);
    t
}

/// random well-formed locale as a token list: langid, at most one -u-, at most one -t-, trailing -x-
pub fn wf_locale_tokens(rng: &mut Rng) -> Vec<String> {
    let mut t = wf_langid_tokens(rng);
    let mut u: Vec<String> = vec![];
    if rng.chance(3, 5) {
        u.push("u".into());
        for _ in 0..rng.below(3) { u.push(rand_attr(rng)); }
        let mut keys: Vec<String> = vec![];
        for _ in 0..rng.below(4) {
            let k = rand_ukey(rng);
            if keys.contains(&k.to_lowercase()) { continue; }
            keys.push(k.to_lowercase());
            u.push(k);
            for _ in 0..rng.below(3) { u.push(rand_utype(rng)); }
        }
        if u.len() == 1 { u.push(rand_attr(rng)); }
    }
    let mut tr: Vec<String> = vec![];
    if rng.chance(2, 5) {
        tr.push("t".into());
        if rng.chance(1, 2) {
            let mut tl = wf_langid_tokens(rng);
            if tl[0] == "und" && tl.len() == 1 { tl[0] = "en".into(); }
            tr.extend(tl);
        }
        let mut keys: Vec<String> = vec![];
        for _ in 0..rng.below(3) {
            let k = rand_tkey(rng);
            if keys.contains(&k) { continue; }
            keys.push(k.clone());
            tr.push(k);
            for _ in 0..(1 + rng.below(2)) { tr.push(rand_tvalue(rng)); }
        }
        if tr.len() == 1 { tr.push(rand_tkey(rng)); tr.push(rand_tvalue(rng)); }
    }
    if rng.chance(1, 2) { t.extend(u); t.extend(tr); } else { t.extend(tr); t.extend(u); }
    if rng.chance(1, 4) {
        t.push("x".into());
        for _ in 0..(1 + rng.below(3)) { t.push(rand_priv(rng)); }
    }
    t
}

/// long well-formed locale (about 60-250 subtags): many variants, attributes, keywords, fields, private tags
pub fn wf_long_locale_tokens(rng: &mut Rng) -> Vec<String> {
    let mut t = vec![rand_lang(rng)];
    if rng.chance(1, 2) { t.push(rand_script(rng)); }
    if rng.chance(1, 2) { t.push(rand_region(rng)); }
    let v0 = t.len();
    for _ in 0..(4 + rng.below(30)) { t.push(rand_variant(rng)); }
    // repeats of earlier entries at later positions (also beyond the 16th / 32nd entry)
    if rng.chance(1, 2) { for _ in 0..(1 + rng.below(3)) { let d = t[v0 + rng.below(t.len() - v0)].clone(); t.push(d); } }
    let mut u: Vec<String> = vec!["u".into()];
    for _ in 0..(3 + rng.below(25)) { u.push(rand_attr(rng)); }
    if rng.chance(1, 2) { for _ in 0..(1 + rng.below(3)) { let d = u[1 + rng.below(u.len() - 1)].clone(); u.push(d); } }
    let mut keys: Vec<String> = vec![];
    for _ in 0..(3 + rng.below(20)) {
        let k = rand_ukey(rng);
        if keys.contains(&k.to_lowercase()) { continue; }
        keys.push(k.to_lowercase());
        u.push(k);
        for _ in 0..rng.below(5) { u.push(rand_utype(rng)); }
    }
    let mut tr: Vec<String> = vec!["t".into()];
    if rng.chance(2, 3) {
        let mut tl = wf_langid_tokens(rng);
        if tl[0] == "und" && tl.len() == 1 { tl[0] = "en".into(); }
        for _ in 0..rng.below(12) { tl.push(rand_variant(rng)); }
        tr.extend(tl);
    }
    let mut keys: Vec<String> = vec![];
    for _ in 0..(2 + rng.below(14)) {
        let k = rand_tkey(rng);
        if keys.contains(&k) { continue; }
        keys.push(k.clone());
        tr.push(k);
        for _ in 0..(1 + rng.below(4)) { tr.push(rand_tvalue(rng)); }
    }
    match rng.below(4) { 0 => { t.extend(u); t.extend(tr); } 1 => { t.extend(tr); t.extend(u); } 2 => { t.extend(u); } _ => { t.extend(tr); } }
    if rng.chance(2, 3) {
        t.push("x".into());
        for _ in 0..(2 + rng.below(40)) { t.push(rand_priv_num(rng)); }
    }
    t
}

/// random case and separator masks
pub fn render(rng: &mut Rng, toks: &[String]) -> Vec<u8> {
    let mode = rng.below(4);
    let mut o = vec![];
    for (i, t) in toks.iter().enumerate() {
        if i > 0 { o.push(if rng.chance(1, 4) { b'_' } else { b'-' }); }
        for c in t.bytes() {
            let c = match mode {
                0 => c,
                1 => c.to_ascii_uppercase(),
                2 => if rng.chance(1, 2) { c.to_ascii_uppercase() } else { c.to_ascii_lowercase() },
                _ => c.to_ascii_lowercase(),
            };
            o.push(c);
        }
    }
    o
}

/// one to three byte/token-level edits
/// a well-formed text with something a lenient reader might strip in front of or behind it: a UTF-8 byte order
/// mark, white space, a NUL, a zero-width space, quotes, a stray separator
pub const AFFIXES: [&[u8]; 12] = [b"\xef\xbb\xbf", b" ", b"\t", b"\n", b"\r\n", b"\x00", b"\xe2\x80\x8b", b"\xc2\xa0", b"\"", b"'", b"-", b"_"];
pub fn affixed(rng: &mut Rng, s: &[u8]) -> Vec<u8> {
    let a: &[u8] = *rng.pick(&AFFIXES);
    let mut v = Vec::with_capacity(s.len() + 2 * a.len());
    let w = rng.below(3);
    if w != 1 { v.extend_from_slice(a); }
    v.extend_from_slice(s);
    if w != 0 { v.extend_from_slice(a); }
    v
}
pub fn mutate(rng: &mut Rng, s: &[u8]) -> Vec<u8> {
    if rng.chance(1, 12) { return affixed(rng, s); }
    let mut v = s.to_vec();
    let n = 1 + rng.below(3);
    for _ in 0..n {
        let pos = rng.below(v.len() + 1);
        match rng.below(8) {
            0 => { if !v.is_empty() { let p = pos % v.len(); v.remove(p); } }
            1 => { v.insert(pos, *rng.pick(b"abcxyzAZ019-_ *\x00\x7f\x80\xff")); }
            2 => { if !v.is_empty() { let p = pos % v.len(); v[p] = *rng.pick(b"abtuxz019-_*@\x00\x80"); } }
            3 => { v.insert(pos, b'-'); }
            4 => { let ins: &[u8] = *rng.pick(&[&b"-u-"[..], b"-t-", b"-x-", b"-a-", b"-true", b"-und", b"-h0-hybrid", b"-ca-buddhist", b"-abcd", b"-1abc", b"-ux"]); for (i, b) in ins.iter().enumerate() { v.insert((pos + i).min(v.len()), *b); } }
            5 => { if v.len() > 2 { let a = rng.below(v.len()); let b = rng.below(v.len()); v.swap(a, b); } }
            6 => { if !v.is_empty() { let p = pos % v.len(); let c = v[p]; v.insert(p, c); } }
            _ => { v.truncate(pos); }
        }
    }
    v
}

/// Non-ASCII look-alikes of a well-formed text: ONE character replaced by a Unicode character that a Unicode-aware
/// case mapping, digit test, normalisation or dash class would turn into the ASCII one (KELVIN SIGN lower-cases to
/// `k`, LONG S upper-cases to `S`, DOTLESS I upper-cases to `I`, full-width letters / digits, Arabic-Indic digits,
/// HYPHEN / NON-BREAKING HYPHEN / MINUS SIGN / FULLWIDTH HYPHEN-MINUS / SOFT HYPHEN for the separator).  None of them
/// is an ASCII letter, digit, '-' or '_', so every entry point must reject the result, and all entry points must agree.
pub fn lookalikes(s: &str) -> Vec<String> {
    let cs: Vec<char> = s.chars().collect();
    let mut out = vec![];
    for (i, c) in cs.iter().enumerate() {
        let mut reps: Vec<char> = vec![];
        match c.to_ascii_lowercase() {
            'k' => reps.push('\u{212a}'),
            's' => reps.push('\u{17f}'),
            'i' => { reps.push('\u{131}'); reps.push('\u{130}'); }
            'a' => reps.push('\u{212b}'),
            _ => {}
        }
        if c.is_ascii_uppercase() { reps.push(char::from_u32(0xff21 + (*c as u32 - 'A' as u32)).unwrap()); }
        if c.is_ascii_lowercase() { reps.push(char::from_u32(0xff41 + (*c as u32 - 'a' as u32)).unwrap()); }
        if c.is_ascii_digit() {
            let d = *c as u32 - '0' as u32;
            reps.push(char::from_u32(0xff10 + d).unwrap());
            reps.push(char::from_u32(0x660 + d).unwrap());
            reps.push(char::from_u32(0x2080 + d).unwrap());
        }
        if *c == '-' || *c == '_' { for d in ['\u{2010}', '\u{2011}', '\u{2212}', '\u{ff0d}', '\u{ad}', '\u{fe63}', '\u{ff3f}'] { reps.push(d); } }
        for r in reps {
            let mut v = cs.clone();
            v[i] = r;
            out.push(v.into_iter().collect());
        }
    }
    out
}
pub const LOOKALIKE_BASES: [&str; 24] = ["ko", "KO", "sk", "is", "si", "ks-Arab-IN", "sr-Cyrl-RS", "kk-Cyrl-KZ", "en-US", "es-419", "de-CH-1996", "sl-rozaj-biske-1994",
    "ja-Kana-JP", "uk", "ki", "ska", "en_Latn_US", "zh-Hans-SG-pinyin", "en-US-u-ks-level1-nu-arab", "tr-TR-u-kk-true", "en-t-ks-Arab-k0-isiri-s0-ascii", "de-x-kiswahili",
    "ru-Cyrl-KZ-u-ca-islamic-t-kk-i0-skt", "und-Kits-SK"];
