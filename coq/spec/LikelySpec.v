(* LikelySpec.v — dictionary-based reference for maximize/minimize, built directly from the strings
   of data/likelySubtags.json (gen/CldrLikely.v).  No integers, no tables, no binary search. *)
From UL Require Export Bytes.
From UL Require Import Subtags LangId.
From Coq Require Import String.
Open Scope N_scope.

Definition dict := list (bytes * bytes).
Definition mk_dict (l : list (string * string)) : dict := map (fun kv => (bs (fst kv), bs (snd kv))) l.

Fixpoint dlookup (k : bytes) (d : dict) : option bytes :=
  match d with
  | [] => None
  | (k', v) :: r => if beqb k' k then Some v else dlookup k r
  end.

Definition striple := (option bytes * option bytes * option bytes)%type.
Definition s_und : bytes := [117; 110; 100].
Definition key_text (l s r : option bytes) : bytes :=
  join ((match l with Some x => x | None => s_und end)
        :: (match s with Some x => [x] | None => [] end)
        ++ (match r with Some x => [x] | None => [] end)).

(* a CLDR value is "lang-Script-REGION" *)
Definition parse_value (v : bytes) : option striple :=
  match split v with
  | [l; s; r] => Some (Some l, Some s, Some r)
  | _ => None
  end.

Definition s_is_some {A} (o : option A) : bool := match o with Some _ => true | None => false end.
Definition s_or {A} (a b : option A) : option A := match a with Some _ => a | None => b end.

(* the candidate keys, most specific first (C06) *)
Definition candidates (l s r : option bytes) : list bytes :=
  match l with
  | Some _ =>
    (if s_is_some r then [key_text l None r] else [])
    ++ (if s_is_some s then [key_text l s None] else [])
    ++ [key_text l None None]
  | None =>
    match s with
    | Some _ => (if s_is_some r then [key_text None s r] else []) ++ [key_text None s None]
    | None => if s_is_some r then [key_text None None r] else []
    end
  end.

Fixpoint first_hit (ks : list bytes) (d : dict) : option bytes :=
  match ks with
  | [] => None
  | k :: r => match dlookup k d with Some v => Some v | None => first_hit r d end
  end.

(* None = "unchanged" *)
Definition spec_maximize (d : dict) (l s r : option bytes) : option striple :=
  if s_is_some l && s_is_some s && s_is_some r then None
  else match first_hit (candidates l s r) d with
       | None => None
       | Some v =>
         match parse_value v with
         | Some (vl, vs, vr) => Some (s_or l vl, s_or s vs, s_or r vr)
         | None => None
         end
       end.

Definition striple_eqb (a b : striple) : bool :=
  match a, b with (l1, s1, r1), (l2, s2, r2) => obeqb l1 l2 && obeqb s1 s2 && obeqb r1 r2 end.

(* minimize reference: the first of {l, l-r, l-s} that maximizes to the maximized original *)
Definition spec_minimize (d : dict) (l s r : option bytes) : option striple :=
  let mx := if s_is_some l && s_is_some s && s_is_some r then Some (l, s, r) else spec_maximize d l s r in
  match mx with
  | None => None
  | Some (ml, ms, mr) =>
    let ok (t : striple) := match t with (a, b, c) =>
        match spec_maximize d a b c with Some m => striple_eqb m (ml, ms, mr) | None => false end end in
    if ok (ml, None, None) then Some (ml, None, None)
    else if s_is_some mr && ok (ml, None, mr) then Some (ml, None, mr)
    else if s_is_some ms && ok (ml, ms, None) then Some (ml, ms, None)
    else None
  end.

(* the UTS #35 fallbacks that C06 also accepts where the library finds no entry *)
Definition spec_fallbacks (d : dict) (l s r : option bytes) : list (option striple) :=
  let over v := match parse_value v with
                | Some (vl, vs, vr) => Some (s_or l vl, s_or s vs, s_or r vr)
                | None => None end in
  let try k := match dlookup k d with Some v => [over v] | None => [] end in
  (if s_is_some s && s_is_some r then try (key_text None s r) else [])
  ++ (if s_is_some s then try (key_text None s None) else [])
  ++ (if s_is_some r then try (key_text None None r) else [])
  ++ try (key_text None None None).
