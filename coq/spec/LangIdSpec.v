(* LangIdSpec.v — the language-identifier grammar of C02 as an executable recogniser on token
   lists, written from the EBNF (language (sep script)? (sep region)? (sep variant)* ), plus the
   invariant of values reachable through the safe API. *)
From UL Require Export Bytes Grammar.
From UL Require Import Subtags LangId.
Open Scope N_scope.

Definition norm_region (t : bytes) : bytes := if (length t =? 2)%nat then upper t else t.

Fixpoint take_while (p : bytes -> bool) (l : list bytes) : list bytes :=
  match l with [] => [] | x :: r => if p x then x :: take_while p r else [] end.
Fixpoint drop_while (p : bytes -> bool) (l : list bytes) : list bytes :=
  match l with [] => [] | x :: r => if p x then drop_while p r else l end.

Definition take_script (toks : list bytes) : option bytes * list bytes :=
  match toks with t :: r => if script_tok t then (Some (title t), r) else (None, toks) | [] => (None, []) end.
Definition take_region (toks : list bytes) : option bytes * list bytes :=
  match toks with t :: r => if region_tok t then (Some (norm_region t), r) else (None, toks) | [] => (None, []) end.

(* sorted, de-duplicated, None when empty *)
Definition spec_variants (vs : list bytes) : option (list bytes) :=
  match vs with [] => None | _ => Some (dedup (sort (map lower vs))) end.

(* longest-prefix reading; returns the value and the tokens after the identifier *)
Definition spec_langid_prefix (toks : list bytes) : option (langid * list bytes) :=
  match toks with
  | [] => Some (langid_default, [])
  | l :: rest =>
    if lang_tok l then
      let (sc, r1) := take_script rest in
      let (rg, r2) := take_region r1 in
      Some (mkLangId (spec_language_value l) sc rg (spec_variants (take_while variant_tok r2)),
            drop_while variant_tok r2)
    else None
  end.

(* the whole string is an identifier iff nothing is left over *)
Definition spec_langid (toks : list bytes) : option langid :=
  match toks with
  | [] => None
  | _ :: _ =>
    match spec_langid_prefix toks with
    | Some (v, []) => Some v
    | _ => None
    end
  end.
Definition spec_langid_err (toks : list bytes) : perr :=
  match toks with
  | t :: _ => if lang_tok t then InvalidSubtag else InvalidLanguage
  | [] => InvalidSubtag
  end.

(* ---- invariant of safe-API values ---- *)
Definition canon_lang (l : option bytes) : bool :=
  match l with None => true | Some b => lang_tok b && beqb (lower b) b && negb (beqb b und_b) end.
Definition canon_script (s : bytes) : bool := script_tok s && beqb (title s) s.
Definition canon_region (r : bytes) : bool := region_tok r && beqb (norm_region r) r.
Definition canon_variant (v : bytes) : bool := variant_tok v && beqb (lower v) v.
Definition opt_all (p : bytes -> bool) (o : option bytes) : bool := match o with Some x => p x | None => true end.
Definition variants_inv (o : option (list bytes)) : bool :=
  match o with
  | None => true
  | Some vs => negb (match vs with [] => true | _ => false end) && forallb canon_variant vs && ssortedb vs
  end.
Definition li_inv (x : langid) : bool :=
  canon_lang (li_lang x) && opt_all canon_script (li_script x) && opt_all canon_region (li_region x)
  && variants_inv (li_variants x).
