(* LocaleGrammar.v — the well-formed Unicode locale identifiers of C03 as an INDUCTIVE RELATION on token
   lists, written from the UTS #35 EBNF and the statement, with the normalised value each one denotes:

     locale   = langid  ( u-ext t-ext? | t-ext u-ext? )?  x-ext?
     u-ext    = [uU] ( attribute+ keyword* | keyword+ )       keyword = key type*
     t-ext    = [tT] ( tlang tfield* | tfield+ )               tfield  = tkey tvalue+
     x-ext    = [xX] alphanum{1,8}+

   (keys of one extension pairwise distinct - repeated keys are outside the property.)  It says nothing
   about how to recognise such a list: no segments, no spans, no flags.  LocaleGrammarProofs.v shows that
   every member is in the MustAccept zone of the executable three-zone specification, hence (C03_complete)
   accepted by the parser with exactly the value stated here. *)
From UL Require Export Bytes Grammar.
From UL Require Import Subtags LangId LangIdSpec Ext AbstractLocale LocaleSpec.
Open Scope N_scope.

(* language (script)? (region)? (variant)*  with its normalised value (same relation as C02) *)
Inductive WFLangIdT : list bytes -> langid -> Prop :=
| WFT_intro l sc rg vs :
    lang_tok l = true ->
    match sc with Some t => script_tok t = true | None => True end ->
    match rg with Some t => region_tok t = true | None => True end ->
    forallb variant_tok vs = true ->
    WFLangIdT (l :: opt_tok sc ++ opt_tok rg ++ vs)
              (mkLangId (spec_language_value l) (option_map title sc) (option_map norm_region rg) (spec_variants vs)).

(* a key with its values, in text order *)
Definition group := (bytes * list bytes)%type.
Definition group_tokens (g : group) : list bytes := fst g :: snd g.
(* normalised: lower case; values named `true` dropped *)
Definition norm_group (g : group) : bytes * list bytes := (lower (fst g), drop_true (map lower (snd g))).
Definition group_keys (gs : list group) : list bytes := map (fun g => lower (fst g)) gs.

Definition ukeyword_ok (g : group) : bool := ukey_tok (fst g) && forallb utype_tok (snd g).
Definition tfield_ok (g : group) : bool :=
  tkey_tok (fst g) && forallb tvalue_tok (snd g) && negb (match snd g with [] => true | _ => false end).

Inductive WFU : list bytes -> uext -> Prop :=
| WFU_intro attrs kws :
    forallb attr_tok attrs = true -> forallb ukeyword_ok kws = true ->
    (attrs <> [] \/ kws <> []) -> NoDup (group_keys kws) ->
    WFU (attrs ++ flat_map group_tokens kws)
        (mkU (kv_sort (map norm_group kws)) (dedup (sort (map lower attrs)))).

Inductive WFT : list bytes -> text -> Prop :=
| WFT_lang tl v fields :
    WFLangIdT tl v -> forallb tfield_ok fields = true -> NoDup (group_keys fields) ->
    WFT (tl ++ flat_map group_tokens fields) (mkT (Some v) (kv_sort (map norm_group fields)))
| WFT_fields fields :
    fields <> [] -> forallb tfield_ok fields = true -> NoDup (group_keys fields) ->
    WFT (flat_map group_tokens fields) (mkT None (kv_sort (map norm_group fields))).

(* the -u- / -t- part: none, one of them, or both in either order *)
Inductive WFUT : list bytes -> uext -> text -> Prop :=
| UT_none : WFUT [] uext_default text_default
| UT_u su ub u : single_is 117 su = true -> WFU ub u -> WFUT (su :: ub) u text_default
| UT_t st tb t : single_is 116 st = true -> WFT tb t -> WFUT (st :: tb) uext_default t
| UT_ut su ub u st tb t : single_is 117 su = true -> WFU ub u -> single_is 116 st = true -> WFT tb t ->
    WFUT (su :: ub ++ st :: tb) u t
| UT_tu su ub u st tb t : single_is 117 su = true -> WFU ub u -> single_is 116 st = true -> WFT tb t ->
    WFUT (st :: tb ++ su :: ub) u t.

(* the trailing private-use sequence *)
Inductive WFX : list bytes -> list bytes -> Prop :=
| X_none : WFX [] []
| X_some sx tags : single_is 120 sx = true -> tags <> [] -> forallb priv_tok tags = true ->
    WFX (sx :: tags) (sort (map lower tags)).

Inductive WFLocale : list bytes -> locale -> Prop :=
| WFLocale_intro idt id ut u t px x :
    WFLangIdT idt id -> WFUT ut u t -> WFX px x ->
    WFLocale (idt ++ ut ++ px) (mkLoc id (mkE u t x)).
