(* LayoutSpec.v — reference for character_direction derived from the CLDR layout files
   (gen/CldrLayout.v): script -> direction, the set of right-to-left languages, and the languages
   that CLDR lists with more than one direction.  Works on subtag TEXT. *)
From UL Require Export Bytes.
From UL Require Import Subtags LangId Likely.
From Coq Require Import String.
Open Scope N_scope.

Definition dir_of_text (s : string) : option dir :=
  if String.eqb s "left-to-right" then Some LTR
  else if String.eqb s "right-to-left" then Some RTL
  else if String.eqb s "top-to-bottom" then Some TTB
  else None.
Definition dir_eqb (a b : dir) : bool :=
  match a, b with LTR, LTR | RTL, RTL | TTB, TTB => true | _, _ => false end.

(* (locale key parsed by the model's parser, direction); None if a key does not parse or the
   direction text is unknown *)
Definition lay_entry (e : string * string * string) : option (langid * dir) :=
  match e with (_, key, order) =>
    match langid_from_bytes (bs key), dir_of_text order with
    | Ok x, Some d => Some (x, d)
    | _, _ => None
    end
  end.
Fixpoint lay_entries (l : list (string * string * string)) : option (list (langid * dir)) :=
  match l with
  | [] => Some []
  | e :: r => match lay_entry e, lay_entries r with
              | Some x, Some xs => Some (x :: xs)
              | _, _ => None
              end
  end.

Definition scripts_with (d : dir) (es : list (langid * dir)) : list bytes :=
  flat_map (fun e => match e with (x, d') =>
     if dir_eqb d d' then match li_script x with Some s => [s] | None => [] end else [] end) es.
Definition langs_with (d : dir) (es : list (langid * dir)) : list bytes :=
  flat_map (fun e => match e with (x, d') =>
     if dir_eqb d d' then match li_lang x with Some l => [l] | None => [] end else [] end) es.

Definition spec_script_dir (es : list (langid * dir)) (sc : bytes) : option dir :=
  if memb sc (scripts_with LTR es) then Some LTR
  else if memb sc (scripts_with RTL es) then Some RTL
  else if memb sc (scripts_with TTB es) then Some TTB
  else None.
Definition spec_lang_rtl (es : list (langid * dir)) (l : bytes) : bool := memb l (langs_with RTL es).
(* languages CLDR lists with more than one direction *)
Definition spec_lang_multi (es : list (langid * dir)) (l : bytes) : bool :=
  (memb l (langs_with LTR es) && memb l (langs_with RTL es))
  || (memb l (langs_with LTR es) && memb l (langs_with TTB es))
  || (memb l (langs_with RTL es) && memb l (langs_with TTB es)).
