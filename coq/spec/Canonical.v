(* Canonical.v — strict recognisers of canonical output text (C04), independent of the printers:
   alphabet, per-position case, sortedness/uniqueness. *)
From UL Require Export Bytes Grammar.
From UL Require Import Subtags LangId LangIdSpec.
Open Scope N_scope.

(* only ASCII letters, digits and '-' *)
Definition canon_alphabet (s : bytes) : bool := forallb (fun b => is_alnum b || (b =? 45)) s.

Definition is_lower_tok (t : bytes) : bool := beqb (lower t) t.

(* tokens after the language: script? region? variant* with canonical case, variants strictly sorted *)
Definition canon_langid_toks (toks : list bytes) : bool :=
  match toks with
  | [] => false
  | l :: rest =>
    lang_tok l && is_lower_tok l &&
    let r1 := match rest with t :: r => if canon_script t then r else rest | [] => [] end in
    let r2 := match r1 with t :: r => if canon_region t then r else r1 | [] => [] end in
    forallb canon_variant r2 && ssortedb r2
  end.
Definition canon_langid_text (s : bytes) : bool :=
  canon_alphabet s && canon_langid_toks (split s).
