(* LocaleInv.v — the invariant of Locale / ExtensionsMap values reachable through the safe API
   (parsing, from_parts, public-field assignment of parsed subtags, the mutators, maximize/minimize):
   canonical subtag texts, attributes strictly sorted, maps strictly key-sorted, tags sorted,
   no value named `true`. *)
From UL Require Export Bytes Grammar LangIdSpec.
From UL Require Import Subtags LangId Ext.
Open Scope N_scope.

Definition canon_attr (a : bytes) : bool := attr_tok a && beqb (lower a) a.
Definition canon_ukey (k : bytes) : bool := ukey_tok k && beqb (lower k) k.
Definition canon_utype (v : bytes) : bool := utype_tok v && beqb (lower v) v && negb (beqb v true_bytes).
Definition canon_tkey (k : bytes) : bool := tkey_tok k && beqb (lower k) k.
Definition canon_tvalue (v : bytes) : bool := tvalue_tok v && beqb (lower v) v && negb (beqb v true_bytes).
Definition canon_priv (p : bytes) : bool := priv_tok p && beqb (lower p) p.

Fixpoint ksorted (m : kmap) : bool :=
  match m with
  | [] => true
  | (k, _) :: r => match r with [] => true | (k', _) :: _ => bltb k k' && ksorted r end
  end.
Definition kmap_inv (ck cv : bytes -> bool) (m : kmap) : bool :=
  ksorted m && forallb (fun kv => ck (fst kv) && forallb cv (snd kv)) m.

Definition u_inv (u : uext) : bool :=
  kmap_inv canon_ukey canon_utype (u_keywords u) && forallb canon_attr (u_attrs u) && ssortedb (u_attrs u).
Definition t_inv (t : text) : bool :=
  (match t_lang t with Some l => li_inv l | None => true end) && kmap_inv canon_tkey canon_tvalue (t_fields t).
Definition x_inv (x : list bytes) : bool := forallb canon_priv x && sortedb x.
Definition ext_inv (e : extmap) : bool := u_inv (e_unicode e) && t_inv (e_transform e) && x_inv (e_private e).
Definition loc_inv (l : locale) : bool := li_inv (loc_id l) && ext_inv (loc_ext l).
