(* Prefix.v — "the part before the first singleton subtag" of a token list (C13). *)
From UL Require Export Bytes Grammar.
From UL Require Import LocaleSpec.

Fixpoint before_single (toks : list bytes) : list bytes :=
  match toks with
  | [] => []
  | t :: r => if is_single t then [] else t :: before_single r
  end.
