(* LocaleSpec.v — the three-zone oracle of C03 on token lists, written from the UTS #35 grammar
     locale = langid (sep ext)*  ,  ext = 'u' u-body | 't' t-body | 'x' x-body
   NOT from the parser's control flow: the tokens after the language identifier are first cut into
   segments at the one-character tokens (up to the first 'x', which owns everything after it), then
   every segment is recognised as a whole.  Leniency (the "either" zone): empty tokens before a
   singleton / at the end of a body, empty bodies, a tkey without value. *)
From UL Require Export Bytes Grammar.
From UL Require Import Subtags LangId LangIdSpec Ext AbstractLocale.
Open Scope N_scope.

Inductive zone := MustAccept (v : locale) | Either (v : locale) | MustReject | Outside.

Definition is_empty_tok (t : bytes) : bool := match t with [] => true | _ => false end.
Definition is_single (t : bytes) : bool := (length t =? 1)%nat.
Definition single_is (c : N) (t : bytes) : bool := match t with [b] => to_lower b =? c | _ => false end.

(* cut at one-character tokens; stop cutting at the first x/X (private use owns the rest) *)
Fixpoint segments (cur_s : bytes) (cur_body : list bytes) (toks : list bytes) : list (bytes * list bytes) :=
  match toks with
  | [] => [(cur_s, rev cur_body)]
  | t :: r =>
    if is_single t then
      if single_is 120 t then [(cur_s, rev cur_body); (t, r)]
      else (cur_s, rev cur_body) :: segments t [] r
    else segments cur_s (t :: cur_body) r
  end.

Definition drop_true (l : list bytes) : list bytes := filter (fun v => negb (beqb v [116; 114; 117; 101])) l.

(* (key type* )* ; None = a malformed / misplaced token *)
Fixpoint kw_spec (key_tok val_tok : bytes -> bool) (toks : list bytes) (cur : option (bytes * list bytes))
  : option (list (bytes * list bytes) * list bytes) :=
  let fl := match cur with Some (k, vs) => [(k, drop_true (rev vs))] | None => [] end in
  match toks with
  | [] => Some (fl, [])
  | t :: r =>
    if key_tok t then
      match kw_spec key_tok val_tok r (Some (lower t, [])) with
      | Some (m, rest) => Some (fl ++ m, rest)
      | None => None
      end
    else match cur with
         | Some (k, vs) =>
           if val_tok t then kw_spec key_tok val_tok r (Some (k, lower t :: vs))
           else Some (fl, toks)
         | None => Some ([], toks)
         end
  end.

Fixpoint keys_nodup (m : list (bytes * list bytes)) : bool :=
  match m with [] => true | (k, _) :: r => negb (existsb (fun kv => beqb k (fst kv)) r) && keys_nodup r end.
Definition all_have_values (toks : list bytes) (key_tok : bytes -> bool) : bool :=
  (* strict: in the raw text every key is followed by at least one value token *)
  (fix go (l : list bytes) : bool :=
     match l with
     | [] => true
     | t :: r => if key_tok t then match r with v :: _ => negb (key_tok v) && go r | [] => false end else go r
     end) toks.

Definition nil_b {A} (l : list A) : bool := match l with [] => true | _ => false end.

(* result of one segment: strict = no leniency was used; nodup = no repeated key *)
Record seg_result := mkSeg { sr_strict : bool; sr_nodup : bool }.

(* u body: attribute* (key type* )* E*  *)
Definition u_body_spec (body : list bytes) : option (uext * seg_result) :=
  let attrs := take_while attr_tok body in
  let r1 := drop_while attr_tok body in
  match kw_spec ukey_tok utype_tok r1 None with
  | Some (kws, rest) =>
    if forallb is_empty_tok rest then
      Some (mkU (kv_sort kws) (dedup (sort (map lower attrs))),
            mkSeg (negb (nil_b body) && nil_b rest) (keys_nodup kws))
    else None
  | None => None
  end.

(* t body: tlang? (tkey tvalue+ )* E*  *)
Definition t_body_spec (body : list bytes) : option (text * seg_result) :=
  let tl_r1 :=
    match body with
    | h :: _ =>
      if lang_tok h then
        match spec_langid_prefix body with
        | Some (v, rest) => (Some v, rest)
        | None => (None, body)
        end
      else (None, body)
    | [] => (None, [])
    end in
  match kw_spec tkey_tok tvalue_tok (snd tl_r1) None with
  | Some (fields, rest) =>
    if forallb is_empty_tok rest then
      Some (mkT (fst tl_r1) (kv_sort fields),
            mkSeg (negb (nil_b body) && nil_b rest && all_have_values (snd tl_r1) tkey_tok) (keys_nodup fields))
    else None
  | None => None
  end.

(* x body: alphanum{1,8}+ *)
Definition x_body_spec (body : list bytes) : option (list bytes * seg_result) :=
  if forallb priv_tok body then Some (sort (map lower body), mkSeg (negb (nil_b body)) true) else None.

Record acc := mkAcc { ac_u : option uext; ac_t : option text; ac_x : option (list bytes);
                      ac_strict : bool; ac_nodup : bool }.

Fixpoint process (segs : list (bytes * list bytes)) (a : acc) : option acc :=
  match segs with
  | [] => Some a
  | (s, body) :: r =>
    if single_is 117 s then
      match ac_u a, u_body_spec body with
      | None, Some (u, sr) =>
        process r (mkAcc (Some u) (ac_t a) (ac_x a) (ac_strict a && sr_strict sr) (ac_nodup a && sr_nodup sr))
      | _, _ => None
      end
    else if single_is 116 s then
      match ac_t a, t_body_spec body with
      | None, Some (t, sr) =>
        process r (mkAcc (ac_u a) (Some t) (ac_x a) (ac_strict a && sr_strict sr) (ac_nodup a && sr_nodup sr))
      | _, _ => None
      end
    else if single_is 120 s then
      match ac_x a, x_body_spec body with
      | None, Some (x, sr) =>
        process r (mkAcc (ac_u a) (ac_t a) (Some x) (ac_strict a && sr_strict sr) (ac_nodup a && sr_nodup sr))
      | _, _ => None
      end
    else None
  end.

Definition or_default {A} (o : option A) (d : A) : A := match o with Some x => x | None => d end.

Definition spec_locale_zone (toks : list bytes) : zone :=
  match toks with
  | [] => MustReject
  | _ :: _ =>
    match spec_langid_prefix toks with
    | None => MustReject
    | Some (id, rem) =>
      match segments [] [] rem with
      | (_, lead) :: segs =>
        if forallb is_empty_tok lead then
          match process segs (mkAcc None None None (nil_b lead) true) with
          | Some a =>
            let v := mkLoc id (mkE (or_default (ac_u a) uext_default) (or_default (ac_t a) text_default)
                                   (or_default (ac_x a) [])) in
            if negb (ac_nodup a) then Outside
            else if ac_strict a then MustAccept v else Either v
          | None => MustReject
          end
        else MustReject
      | [] => MustReject
      end
    end
  end.

(* ExtensionsMap::from_bytes: same grammar without the language identifier *)
Definition spec_extmap_zone (toks : list bytes) : option (extmap * bool) :=
  match segments [] [] toks with
  | (_, lead) :: segs =>
    if forallb is_empty_tok lead then
      match process segs (mkAcc None None None true true) with
      | Some a => Some (mkE (or_default (ac_u a) uext_default) (or_default (ac_t a) text_default) (or_default (ac_x a) []),
                        ac_nodup a)
      | None => None
      end
    else None
  | [] => None
  end.
