(* CanonLocale.v — strict recogniser of canonical Locale text, written from the statement of C04 and
   independent of the printers: language-identifier part as in Canonical.v; then the extensions in the
   order t, u, x, each at most once and none of them empty; -t-: an optional canonical language identifier,
   then fields with strictly increasing lower-case keys and lower-case values none of which is `true`;
   -u-: strictly increasing lower-case attributes, then keywords with strictly increasing lower-case keys
   and lower-case types none of which is `true`; -x-: one or more lower-case subtags in sorted order. *)
From UL Require Export Bytes Grammar Canonical LocaleInv.
From UL Require Import Subtags LangId LangIdSpec.
Open Scope N_scope.

Definition is_single1 (t : bytes) : bool := (length t =? 1)%nat.
(* the tokens before the first one-character token, and the rest *)
Fixpoint break_single (toks : list bytes) : list bytes * list bytes :=
  match toks with
  | [] => ([], [])
  | t :: r => if is_single1 t then ([], toks) else let (a, b) := break_single r in (t :: a, b)
  end.

(* key value* key value* ... : keys strictly increasing; a value only after a key *)
Fixpoint canon_groups (ck cv : bytes -> bool) (prev : option bytes) (toks : list bytes) : bool :=
  match toks with
  | [] => true
  | t :: r =>
    if ck t then (match prev with Some k => bltb k t | None => true end) && canon_groups ck cv (Some t) r
    else match prev with Some _ => cv t && canon_groups ck cv prev r | None => false end
  end.

Definition is_len2 (t : bytes) : bool := (length t =? 2)%nat.
Definition canon_u_body (body : list bytes) : bool :=
  let attrs := take_while (fun t => negb (is_len2 t)) body in
  let rest := drop_while (fun t => negb (is_len2 t)) body in
  negb (match body with [] => true | _ => false end)
  && forallb canon_attr attrs && ssortedb attrs && canon_groups canon_ukey canon_utype None rest.

Definition canon_t_body (body : list bytes) : bool :=
  let tl := take_while (fun t => negb (tkey_tok t)) body in
  let rest := drop_while (fun t => negb (tkey_tok t)) body in
  negb (match body with [] => true | _ => false end)
  && (match tl with [] => true | _ => canon_langid_toks tl end)
  && canon_groups canon_tkey canon_tvalue None rest.

Definition canon_x_body (body : list bytes) : bool :=
  negb (match body with [] => true | _ => false end) && forallb canon_priv body && sortedb body.

(* an optional segment introduced by the singleton c; its body runs to the next one-character token *)
Definition take_seg (c : N) (toks : list bytes) : option (list bytes) * list bytes :=
  match toks with
  | [b] :: r => if b =? c then let (body, r') := break_single r in (Some body, r') else (None, toks)
  | _ => (None, toks)
  end.

Definition canon_locale_toks (toks : list bytes) : bool :=
  let (lid, r0) := break_single toks in
  canon_langid_toks lid &&
  let (tb, r1) := take_seg 116 r0 in
  (match tb with Some b => canon_t_body b | None => true end) &&
  let (ub, r2) := take_seg 117 r1 in
  (match ub with Some b => canon_u_body b | None => true end) &&
  match r2 with
  | [] => true
  | [b] :: body => (b =? 120) && canon_x_body body
  | _ => false
  end.

Definition canon_locale_strict (s : bytes) : bool := canon_alphabet s && canon_locale_toks (split s).
