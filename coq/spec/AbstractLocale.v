(* AbstractLocale.v — the C10 reference: a Locale as plain UNORDERED collections with naive
   set / multiset / map operations; observed only through `normalize` (sort the sets, sort the maps
   by key).  No sortedness invariant, no binary search, no insertion positions. *)
From UL Require Export Bytes.
From UL Require Import Subtags LangId Ext Likely Ops.
Open Scope N_scope.

Record alocale := mkA {
  a_lang : option bytes; a_script : option bytes; a_region : option bytes;
  a_variants : list bytes;                 (* a set: no duplicates, any order *)
  a_attrs : list bytes;                    (* a set *)
  a_keywords : list (bytes * list bytes);  (* a map: at most one pair per key, any order *)
  a_tlang : option langid;
  a_tfields : list (bytes * list bytes);   (* a map *)
  a_tags : list bytes                      (* a multiset *)
}.

Definition set_add (x : bytes) (l : list bytes) : list bytes := if memb x l then l else x :: l.
Definition set_remove (x : bytes) (l : list bytes) : list bytes := filter (fun y => negb (beqb x y)) l.
Fixpoint set_of (l : list bytes) : list bytes := match l with [] => [] | x :: r => set_add x (set_of r) end.
Definition map_put (k : bytes) (v : list bytes) (m : list (bytes * list bytes)) :=
  (k, v) :: filter (fun kv => negb (beqb k (fst kv))) m.
Definition map_del (k : bytes) (m : list (bytes * list bytes)) := filter (fun kv => negb (beqb k (fst kv))) m.
Fixpoint map_get (k : bytes) (m : list (bytes * list bytes)) : option (list bytes) :=
  match m with [] => None | (k', v) :: r => if beqb k k' then Some v else map_get k r end.
Fixpoint bag_remove (x : bytes) (l : list bytes) : list bytes :=
  match l with [] => [] | y :: r => if beqb x y then r else y :: bag_remove x r end.

(* sort a map by key (keys are unique) *)
Fixpoint kv_insert (kv : bytes * list bytes) (m : list (bytes * list bytes)) :=
  match m with
  | [] => [kv]
  | kv' :: r => if bleb (fst kv) (fst kv') then kv :: m else kv' :: kv_insert kv r
  end.
Fixpoint kv_sort (m : list (bytes * list bytes)) :=
  match m with [] => [] | kv :: r => kv_insert kv (kv_sort r) end.

(* the observation: what the concrete value must look like *)
Definition normalize (a : alocale) : locale :=
  mkLoc (mkLangId (a_lang a) (a_script a) (a_region a)
                  (match a_variants a with [] => None | l => Some (sort l) end))
        (mkE (mkU (kv_sort (a_keywords a)) (sort (a_attrs a)))
             (mkT (a_tlang a) (kv_sort (a_tfields a)))
             (sort (a_tags a))).

Definition a_of_res {A} (s : alocale) (r : res A) (k : A -> alocale * out) : alocale * out :=
  match r with Ok a => k a | Err _ => (s, OutErr) | _ => (s, OutPanic) end.

Definition upd_id (s : alocale) (l sc rg : option bytes) (vs : list bytes) : alocale :=
  mkA l sc rg vs (a_attrs s) (a_keywords s) (a_tlang s) (a_tfields s) (a_tags s).

(* the reference for maximize / minimize is the likely-subtags reference itself (C06/C08); here the
   abstract machine only needs "three fields replaced, nothing else touched" *)
Definition astep (T : tables) (s : alocale) (o : op) : alocale * out :=
  match o with
  | OSetLang a =>
    a_of_res s (match a with [] => Ok None | _ => language_from_bytes a end)
      (fun l => (upd_id s l (a_script s) (a_region s) (a_variants s), OutUnit))
  | OSetScript a =>
    a_of_res s (match a with [] => Ok None | _ => bind (script_from_bytes a) (fun v => Ok (Some v)) end)
      (fun v => (upd_id s (a_lang s) v (a_region s) (a_variants s), OutUnit))
  | OSetRegion a =>
    a_of_res s (match a with [] => Ok None | _ => bind (region_from_bytes a) (fun v => Ok (Some v)) end)
      (fun v => (upd_id s (a_lang s) (a_script s) v (a_variants s), OutUnit))
  | OSetVariants vs =>
    a_of_res s (collect_all variant_from_bytes vs)
      (fun l => (upd_id s (a_lang s) (a_script s) (a_region s) (set_of l), OutUnit))
  | OClearVariants => (upd_id s (a_lang s) (a_script s) (a_region s) [], OutUnit)
  | OHasVariant a => a_of_res s (variant_from_bytes a) (fun v => (s, OutBool (memb v (a_variants s))))
  | OKeyword k =>
    a_of_res s (parse_key k) (fun k' => (s, OutList (match map_get k' (a_keywords s) with Some l => l | None => [] end)))
  | OSetKeyword k vs =>
    a_of_res s (parse_key k) (fun k' => a_of_res s (collect_vals parse_type vs)
      (fun l => (mkA (a_lang s) (a_script s) (a_region s) (a_variants s) (a_attrs s)
                     (map_put k' l (a_keywords s)) (a_tlang s) (a_tfields s) (a_tags s), OutUnit)))
  | ORemoveKeyword k =>
    a_of_res s (parse_key k) (fun k' =>
      (mkA (a_lang s) (a_script s) (a_region s) (a_variants s) (a_attrs s)
           (map_del k' (a_keywords s)) (a_tlang s) (a_tfields s) (a_tags s),
       OutBool (match map_get k' (a_keywords s) with Some _ => true | None => false end)))
  | OClearKeywords =>
    (mkA (a_lang s) (a_script s) (a_region s) (a_variants s) (a_attrs s) [] (a_tlang s) (a_tfields s) (a_tags s), OutUnit)
  | OHasAttribute a => a_of_res s (parse_attribute a) (fun v => (s, OutBool (memb v (a_attrs s))))
  | OSetAttribute a =>
    a_of_res s (parse_attribute a) (fun v =>
      (mkA (a_lang s) (a_script s) (a_region s) (a_variants s) (set_add v (a_attrs s))
           (a_keywords s) (a_tlang s) (a_tfields s) (a_tags s), OutUnit))
  | ORemoveAttribute a =>
    a_of_res s (parse_attribute a) (fun v =>
      (mkA (a_lang s) (a_script s) (a_region s) (a_variants s) (set_remove v (a_attrs s))
           (a_keywords s) (a_tlang s) (a_tfields s) (a_tags s), OutBool (memb v (a_attrs s))))
  | OClearAttributes =>
    (mkA (a_lang s) (a_script s) (a_region s) (a_variants s) [] (a_keywords s) (a_tlang s) (a_tfields s) (a_tags s), OutUnit)
  | OSetTlang a =>
    a_of_res s (langid_from_bytes a) (fun l =>
      (mkA (a_lang s) (a_script s) (a_region s) (a_variants s) (a_attrs s) (a_keywords s) (Some l) (a_tfields s) (a_tags s), OutUnit))
  | OClearTlang =>
    (mkA (a_lang s) (a_script s) (a_region s) (a_variants s) (a_attrs s) (a_keywords s) None (a_tfields s) (a_tags s), OutUnit)
  | OTfield k =>
    a_of_res s (parse_tkey k) (fun k' => (s, OutList (match map_get k' (a_tfields s) with Some l => l | None => [] end)))
  | OSetTfield k vs =>
    a_of_res s (parse_tkey k) (fun k' => a_of_res s (collect_vals parse_tvalue vs)
      (fun l => (mkA (a_lang s) (a_script s) (a_region s) (a_variants s) (a_attrs s) (a_keywords s)
                     (a_tlang s) (map_put k' l (a_tfields s)) (a_tags s), OutUnit)))
  | ORemoveTfield k =>
    a_of_res s (parse_tkey k) (fun k' =>
      (mkA (a_lang s) (a_script s) (a_region s) (a_variants s) (a_attrs s) (a_keywords s)
           (a_tlang s) (map_del k' (a_tfields s)) (a_tags s),
       OutBool (match map_get k' (a_tfields s) with Some _ => true | None => false end)))
  | OClearTfields =>
    (mkA (a_lang s) (a_script s) (a_region s) (a_variants s) (a_attrs s) (a_keywords s) (a_tlang s) [] (a_tags s), OutUnit)
  | OHasTag a => a_of_res s (parse_value a) (fun v => (s, OutBool (memb v (a_tags s))))
  | OAddTag a =>
    a_of_res s (parse_value a) (fun v =>
      (mkA (a_lang s) (a_script s) (a_region s) (a_variants s) (a_attrs s) (a_keywords s)
           (a_tlang s) (a_tfields s) (v :: a_tags s), OutUnit))
  | ORemoveTag a =>
    a_of_res s (parse_value a) (fun v =>
      (mkA (a_lang s) (a_script s) (a_region s) (a_variants s) (a_attrs s) (a_keywords s)
           (a_tlang s) (a_tfields s) (bag_remove v (a_tags s)), OutBool (memb v (a_tags s))))
  | OClearTags =>
    (mkA (a_lang s) (a_script s) (a_region s) (a_variants s) (a_attrs s) (a_keywords s) (a_tlang s) (a_tfields s) [], OutUnit)
  | OMaximize =>
    a_of_res s (maximize T (a_lang s) (a_script s) (a_region s)) (fun r =>
      match r with
      | Some (l, sc, rg) => (upd_id s l sc rg (a_variants s), OutBool true)
      | None => (s, OutBool false)
      end)
  | OMinimize =>
    a_of_res s (minimize T (a_lang s) (a_script s) (a_region s)) (fun r =>
      match r with
      | Some (l, sc, rg) => (upd_id s l sc rg (a_variants s), OutBool true)
      | None => (s, OutBool false)
      end)
  end.

Fixpoint arun (T : tables) (s : alocale) (ops : list op) : list (alocale * out) :=
  match ops with
  | [] => []
  | o :: r => let (s', w) := astep T s o in (s', w) :: arun T s' r
  end.

(* abstraction of a concrete value (used to start a history from a parsed locale) *)
Definition abstract (l : locale) : alocale :=
  mkA (li_lang (loc_id l)) (li_script (loc_id l)) (li_region (loc_id l)) (li_variants_list (loc_id l))
      (u_attrs (e_unicode (loc_ext l))) (u_keywords (e_unicode (loc_ext l)))
      (t_lang (e_transform (loc_ext l))) (t_fields (e_transform (loc_ext l)))
      (e_private (loc_ext l)).
