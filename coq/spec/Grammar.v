(* Grammar.v — token productions of UTS #35 as the properties state them (C02, C03, C15).
   Independent of the model's control flow: only lengths and character classes. *)
From UL Require Export Bytes.
Open Scope N_scope.

Definition len_in (lo hi : nat) (s : bytes) : bool :=
  (lo <=? length s)%nat && (length s <=? hi)%nat.

(* unicode_language_subtag = alpha{2,3} | alpha{5,8} *)
Definition lang_tok (s : bytes) : bool :=
  forallb is_alpha s && (len_in 2 3 s || len_in 5 8 s).
(* unicode_script_subtag = alpha{4} *)
Definition script_tok (s : bytes) : bool :=
  forallb is_alpha s && (length s =? 4)%nat.
(* unicode_region_subtag = alpha{2} | digit{3} *)
Definition region_tok (s : bytes) : bool :=
  (forallb is_alpha s && (length s =? 2)%nat) || (forallb is_digit s && (length s =? 3)%nat).
(* unicode_variant_subtag = alphanum{5,8} | digit alphanum{3} *)
Definition variant_tok (s : bytes) : bool :=
  (forallb is_alnum s && len_in 5 8 s)
  || match s with
     | c :: r => is_digit c && forallb is_alnum r && (length r =? 3)%nat
     | [] => false
     end.

(* -u- : attribute = alphanum{3,8}; key = alphanum alpha; type = alphanum{3,8} *)
Definition attr_tok (s : bytes) : bool := forallb is_alnum s && len_in 3 8 s.
Definition ukey_tok (s : bytes) : bool :=
  match s with [a; b] => is_alnum a && is_alpha b | _ => false end.
Definition utype_tok (s : bytes) : bool := forallb is_alnum s && len_in 3 8 s.
(* -t- : tkey = alpha digit; tvalue = alphanum{3,8} *)
Definition tkey_tok (s : bytes) : bool :=
  match s with [a; b] => is_alpha a && is_digit b | _ => false end.
Definition tvalue_tok (s : bytes) : bool := forallb is_alnum s && len_in 3 8 s.
(* -x- : alphanum{1,8} *)
Definition priv_tok (s : bytes) : bool := forallb is_alnum s && len_in 1 8 s.

(* expected normalised text of each subtag type *)
Definition und_b : bytes := [117; 110; 100].
Definition spec_language_value (s : bytes) : option bytes :=
  if beqb (lower s) und_b then None else Some (lower s).
