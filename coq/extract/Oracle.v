(* Oracle.v — entry points of the executable model and specification, as functions from
   (operation name, byte-string arguments) to a canonical result text.  Extracted to OCaml
   (ExtrOcamlBasic only) and driven by ocaml/driver.ml in the correspondence check. *)
From UL Require Import Bytes Subtags Grammar.
From Coq Require Import String.
Open Scope N_scope.

Definition sp : bytes := [32].
Definition fmt_err (e : perr) : bytes :=
  match e with InvalidLanguage => bs "ERR L" | InvalidSubtag => bs "ERR S" | InvalidExtension => bs "ERR E" end.
Definition fmt_res {A} (f : A -> bytes) (r : res A) : bytes :=
  match r with
  | Ok a => bs "OK " ++ f a
  | Err e => fmt_err e
  | Panic _ => bs "PANIC"
  | OutOfFuel => bs "FUEL"
  end.

Fixpoint starts_with (p s : bytes) : bool :=
  match p, s with
  | [], _ => true
  | x :: p', y :: s' => (x =? y) && starts_with p' s'
  | _ :: _, [] => false
  end.
(* split a text at every occurrence of `sep` (non-empty) *)
Fixpoint split_on_aux (fuel : nat) (sep cur s : bytes) : list bytes :=
  match fuel with
  | O => [rev cur ++ s]
  | S f =>
    match s with
    | [] => [rev cur]
    | c :: r => if starts_with sep s then rev cur :: split_on_aux f sep [] (skipn (List.length sep) s)
                else split_on_aux f sep (c :: cur) r
    end
  end.
Definition split_on (sep s : bytes) : list bytes := split_on_aux (S (List.length s)) sep [] s.
Definition words (s : bytes) : list bytes := split_on sp s.

(* N -> lower-case hex text (for integer forms) *)
Definition hexdigit (d : N) : N := if d <? 10 then 48 + d else 87 + d.
Fixpoint hex_aux (fuel : nat) (x : N) (acc : bytes) : bytes :=
  match fuel with
  | O => acc
  | S k => let acc' := hexdigit (x mod 16) :: acc in
           if x / 16 =? 0 then acc' else hex_aux k (x / 16) acc'
  end.
Definition hex (x : N) : bytes := hex_aux 20 x [].

Definition fmt_lang (l : option bytes) : bytes :=
  language_text l ++ sp ++ (match l with None => bs "empty" | Some _ => bs "full" end).
Definition fmt_lang_raw (l : option bytes) : bytes :=
  match l with
  | None => bs "none"
  | Some s => hex (le_pack s) ++ sp ++ from_raw 8 (le_pack s)
  end.
Definition fmt_raw (n : nat) (s : bytes) : bytes := hex (le_pack s) ++ sp ++ from_raw n (le_pack s).

Definition arg1 (args : list bytes) : bytes := match args with a :: _ => a | [] => [] end.

(* ------------------------------------------------------------------ model *)
Definition oracle_model_subtags (op : bytes) (args : list bytes) : option bytes :=
  let a := arg1 args in
  if beqb op (bs "lang") then Some (fmt_res fmt_lang (language_from_bytes a))
  else if beqb op (bs "script") then Some (fmt_res (fun x => x) (script_from_bytes a))
  else if beqb op (bs "region") then Some (fmt_res (fun x => x) (region_from_bytes a))
  else if beqb op (bs "variant") then Some (fmt_res (fun x => x) (variant_from_bytes a))
  else if beqb op (bs "lang_raw") then Some (fmt_res fmt_lang_raw (language_from_bytes a))
  else if beqb op (bs "script_raw") then Some (fmt_res (fmt_raw 4) (script_from_bytes a))
  else if beqb op (bs "region_raw") then Some (fmt_res (fmt_raw 4) (region_from_bytes a))
  else if beqb op (bs "variant_raw") then Some (fmt_res (fmt_raw 8) (variant_from_bytes a))
  else None.

(* ------------------------------------------------------------------ spec
   The specification is evaluated against the IMPLEMENTATION's answer `impl`
   (search phase): true = the answer is one the property allows. *)
Definition spec_tok_result (tok : bytes -> bool) (value : bytes -> bytes) (err : bytes)
           (a impl : bytes) : bool :=
  if tok a then beqb impl (bs "OK " ++ value a) else beqb impl err.

Definition oracle_spec_subtags (op : bytes) (args : list bytes) (impl : bytes) : option bool :=
  let a := arg1 args in
  if beqb op (bs "lang") then
    Some (spec_tok_result lang_tok (fun s => fmt_lang (spec_language_value s)) (bs "ERR L") a impl)
  else if beqb op (bs "script") then
    Some (spec_tok_result script_tok title (bs "ERR S") a impl)
  else if beqb op (bs "region") then
    Some (spec_tok_result region_tok (fun s => if (List.length s =? 2)%nat then upper s else s) (bs "ERR S") a impl)
  else if beqb op (bs "variant") then
    Some (spec_tok_result variant_tok lower (bs "ERR S") a impl)
  else None.

(* ================================================================== likely subtags / direction *)
From UL Require Import LangId LangIdSpec Likely Inst LikelySpec LayoutSpec TablesData LayoutData.
From UL Require Tables Layout CldrLikely.

Definition dash : bytes := [45].
Definition opt_arg (a : bytes) : option bytes := match a with [] => None | _ => Some a end.
Definition fmt_opt (o : option bytes) : bytes := match o with Some s => s | None => dash end.
Definition fmt_triple (t : option bytes * option bytes * option bytes) : bytes :=
  match t with (l, s0, r) => language_text l ++ sp ++ fmt_opt s0 ++ sp ++ fmt_opt r end.
Definition fmt_otriple (o : option (option bytes * option bytes * option bytes)) : bytes :=
  match o with None => bs "NONE" | Some t => bs "SOME " ++ fmt_triple t end.
Definition fmt_res_plain {A} (f : A -> bytes) (r : res A) : bytes :=
  match r with Ok a => f a | Err e => fmt_err e | Panic _ => bs "PANIC" | OutOfFuel => bs "FUEL" end.
Definition arg_n (k : nat) (args : list bytes) : bytes := nth k args [].
Definition fmt_dir (d : dir) : bytes := match d with LTR => bs "LTR" | RTL => bs "RTL" | TTB => bs "TTB" end.
Definition fmt_bool (b : bool) : bytes := if b then bs "true" else bs "false".

(* decimal text -> nat index *)
Fixpoint dec_nat (s : bytes) (acc : nat) : nat :=
  match s with [] => acc | c :: r => dec_nat r (10 * acc + N.to_nat (c - 48)) end.

Definition fmt_oN (o : option N) : bytes := match o with Some x => hex x | None => dash end.
Definition fmt_tval (v : tval) : bytes :=
  match v with (a, b, c) => fmt_oN a ++ sp ++ fmt_oN b ++ sp ++ fmt_oN c end.
Definition fmt_row1 (r : option (N * tval)) : bytes :=
  match r with Some (k, v) => hex k ++ sp ++ fmt_tval v | None => bs "NOROW" end.
Definition fmt_row2 (r : option (N * N * tval)) : bytes :=
  match r with Some (k1, k2, v) => hex k1 ++ sp ++ hex k2 ++ sp ++ fmt_tval v | None => bs "NOROW" end.
Definition fmt_rowN (r : option N) : bytes := match r with Some k => hex k | None => bs "NOROW" end.
Definition nat_hex (n : nat) : bytes := hex (N.of_nat n).

Definition model_table_row (name : bytes) (i : nat) : bytes :=
  if beqb name (bs "LANG_ONLY") then fmt_row1 (nth_error (t_lang_only the_tables) i)
  else if beqb name (bs "LANG_REGION") then fmt_row2 (nth_error (t_lang_region the_tables) i)
  else if beqb name (bs "LANG_SCRIPT") then fmt_row2 (nth_error (t_lang_script the_tables) i)
  else if beqb name (bs "SCRIPT_REGION") then fmt_row2 (nth_error (t_script_region the_tables) i)
  else if beqb name (bs "SCRIPT_ONLY") then fmt_row1 (nth_error (t_script_only the_tables) i)
  else if beqb name (bs "REGION_ONLY") then fmt_row1 (nth_error (t_region_only the_tables) i)
  else if beqb name (bs "SCRIPTS_LTR") then fmt_rowN (nth_error (ly_ltr the_layout) i)
  else if beqb name (bs "SCRIPTS_RTL") then fmt_rowN (nth_error (ly_rtl the_layout) i)
  else if beqb name (bs "SCRIPTS_TTB") then fmt_rowN (nth_error (ly_ttb the_layout) i)
  else if beqb name (bs "LANGS_RTL") then fmt_rowN (nth_error (ly_lang_rtl the_layout) i)
  else bs "NOTABLE".
Definition model_table_len (name : bytes) : bytes :=
  if beqb name (bs "LANG_ONLY") then nat_hex (List.length (t_lang_only the_tables))
  else if beqb name (bs "LANG_REGION") then nat_hex (List.length (t_lang_region the_tables))
  else if beqb name (bs "LANG_SCRIPT") then nat_hex (List.length (t_lang_script the_tables))
  else if beqb name (bs "SCRIPT_REGION") then nat_hex (List.length (t_script_region the_tables))
  else if beqb name (bs "SCRIPT_ONLY") then nat_hex (List.length (t_script_only the_tables))
  else if beqb name (bs "REGION_ONLY") then nat_hex (List.length (t_region_only the_tables))
  else if beqb name (bs "SCRIPTS_LTR") then nat_hex (List.length (ly_ltr the_layout))
  else if beqb name (bs "SCRIPTS_RTL") then nat_hex (List.length (ly_rtl the_layout))
  else if beqb name (bs "SCRIPTS_TTB") then nat_hex (List.length (ly_ttb the_layout))
  else if beqb name (bs "LANGS_RTL") then nat_hex (List.length (ly_lang_rtl the_layout))
  else bs "NOTABLE".

Definition model_direction (likely : bool) (a : bytes) : bytes :=
  match langid_from_bytes a with
  | Ok x => fmt_res_plain fmt_dir (direction likely the_layout the_tables x)
  | _ => bs "BADARG"
  end.

Definition fmt_li_change (r : res (bool * langid)) : bytes :=
  fmt_res_plain (fun p => fmt_bool (fst p) ++ sp ++ li_to_string (snd p)) r.

Definition oracle_model_likely (op : bytes) (args : list bytes) : option bytes :=
  let l := opt_arg (arg_n 0 args) in
  let s0 := opt_arg (arg_n 1 args) in
  let r := opt_arg (arg_n 2 args) in
  if beqb op (bs "maximize") then Some (fmt_res_plain fmt_otriple (maximize the_tables l s0 r))
  else if beqb op (bs "minimize") then Some (fmt_res_plain fmt_otriple (minimize the_tables l s0 r))
  else if beqb op (bs "li_maximize") then
    Some (match langid_from_bytes (arg1 args) with Ok x => fmt_li_change (li_maximize the_tables x) | _ => bs "BADARG" end)
  else if beqb op (bs "li_minimize") then
    Some (match langid_from_bytes (arg1 args) with Ok x => fmt_li_change (li_minimize the_tables x) | _ => bs "BADARG" end)
  else if beqb op (bs "direction_likely") then Some (model_direction true (arg1 args))
  else if beqb op (bs "direction_plain") then Some (model_direction false (arg1 args))
  else if beqb op (bs "table_row") then Some (model_table_row (arg_n 0 args) (dec_nat (arg_n 1 args) 0))
  else if beqb op (bs "table_len") then Some (model_table_len (arg1 args))
  else if beqb op (bs "cldr_version") then Some (bs Tables.cldr_version)
  else None.

(* ---- spec side (independent of tables.rs: dictionary from likelySubtags.json, layout files) ---- *)
Definition spec_max_ok (l s0 r : option bytes) (impl : bytes) : bool :=
  beqb impl (fmt_otriple (spec_maximize the_dict l s0 r))
  || (match spec_maximize the_dict l s0 r with
      | None => negb (s_is_some l && s_is_some s0 && s_is_some r)
                && existsb (fun f => beqb impl (fmt_otriple f)) (spec_fallbacks the_dict l s0 r)
      | Some _ => false end).
(* a maximize call whose strict answer is "no entry" while a UTS #35 fallback exists *)
Definition ambiguous (l s0 r : option bytes) : bool :=
  negb (s_is_some l && s_is_some s0 && s_is_some r)
  && match spec_maximize the_dict l s0 r with None => negb (match spec_fallbacks the_dict l s0 r with [] => true | _ => false end) | Some _ => false end.
Definition spec_min_ok (l s0 r : option bytes) (impl : bytes) : bool :=
  let mx := if s_is_some l && s_is_some s0 && s_is_some r then Some (l, s0, r) else spec_maximize the_dict l s0 r in
  ambiguous l s0 r
  || match mx with
     | Some (ml, ms, mr) => ambiguous ml None None || ambiguous ml None mr || ambiguous ml ms None
     | None => false end
  || beqb impl (fmt_otriple (spec_minimize the_dict l s0 r)).

(* the METHOD forms LanguageIdentifier::maximize / minimize: the answer for the identifier's own (language, script,
   region), variants carried over; "false" and the identifier itself when nothing changes *)
Definition fmt_li_changed (x : langid) (o : option (option bytes * option bytes * option bytes)) : bytes :=
  match o with
  | Some (l, s0, r) => fmt_bool true ++ sp ++ li_to_string (mkLangId l s0 r (li_variants x))
  | None => fmt_bool false ++ sp ++ li_to_string x
  end.
Definition spec_li_max_ok (a impl : bytes) : bool :=
  match spec_langid (split a) with
  | Some x =>
    let l := li_lang x in let s0 := li_script x in let r := li_region x in
    beqb impl (fmt_li_changed x (spec_maximize the_dict l s0 r))
    || (match spec_maximize the_dict l s0 r with
        | None => negb (s_is_some l && s_is_some s0 && s_is_some r)
                  && existsb (fun f => beqb impl (fmt_li_changed x f)) (spec_fallbacks the_dict l s0 r)
        | Some _ => false end)
  | None => beqb impl (bs "BADARG")
  end.
Definition spec_li_min_ok (a impl : bytes) : bool :=
  match spec_langid (split a) with
  | Some x =>
    let l := li_lang x in let s0 := li_script x in let r := li_region x in
    let mx := if s_is_some l && s_is_some s0 && s_is_some r then Some (l, s0, r) else spec_maximize the_dict l s0 r in
    ambiguous l s0 r
    || match mx with
       | Some (ml, ms, mr) => ambiguous ml None None || ambiguous ml None mr || ambiguous ml ms None
       | None => false end
    || beqb impl (fmt_li_changed x (spec_minimize the_dict l s0 r))
  | None => beqb impl (bs "BADARG")
  end.

(* CLDR's direction for an identifier that (ignoring variants) is one of the layout locales *)
Fixpoint cldr_dir_of (x : langid) (es : list (langid * dir)) : option dir :=
  match es with
  | [] => None
  | (y, d) :: r =>
    if obeqb (li_lang x) (li_lang y) && obeqb (li_script x) (li_script y) && obeqb (li_region x) (li_region y)
    then Some d else cldr_dir_of x r
  end.
Definition spec_dir_ok (likely : bool) (a impl : bytes) : bool :=
  match langid_from_bytes a with
  | Ok x =>
    let by_script := match li_script x with Some sc => spec_script_dir the_lay sc | None => None end in
    match by_script with
    | Some d => beqb impl (fmt_dir d)                      (* a listed script decides on its own *)
    | None =>
      let never_rtl := match li_lang x with None => true | Some l => negb (spec_lang_rtl the_lay l) end in
      if never_rtl then beqb impl (bs "LTR")
      else
        match cldr_dir_of x the_lay with
        | Some d =>
          if likely then beqb impl (fmt_dir d)
          else beqb impl (fmt_dir d)
               || (is_none (li_script x) && match li_lang x with Some l => spec_lang_multi the_lay l | None => false end)
        | None => true                                     (* the property does not fix this answer *)
        end
    end
  | _ => true
  end.

(* ---- C18: the compiled statics against the CLDR data, row by row (independent of tables.rs) ---- *)
Fixpoint unhex_aux (s : bytes) (acc : N) : option N :=
  match s with
  | [] => Some acc
  | c :: r =>
    if is_digit c then unhex_aux r (16 * acc + (c - 48))
    else if in_range 97 102 c then unhex_aux r (16 * acc + (c - 87))
    else None
  end.
Definition unhex (s : bytes) : option N := match s with [] => None | _ => unhex_aux s 0 end.
(* the CLDR entries that belong to each table, as the generator classifies them *)
Definition dict_class (kv : bytes * bytes) : bytes :=
  match langid_from_bytes (fst kv) with
  | Ok x =>
    match li_lang x, li_script x, li_region x with
    | _, None, None => bs "LANG_ONLY"
    | Some _, None, Some _ => bs "LANG_REGION"
    | Some _, Some _, None => bs "LANG_SCRIPT"
    | None, Some _, Some _ => bs "SCRIPT_REGION"
    | None, Some _, None => bs "SCRIPT_ONLY"
    | None, None, Some _ => bs "REGION_ONLY"
    | _, _, _ => bs "?"
    end
  | _ => bs "?"
  end.
Definition count_class (name : bytes) : nat := List.length (filter (fun kv => beqb (dict_class kv) name) the_dict).
Fixpoint nodup_count (l : list bytes) : nat :=
  match l with [] => O | x :: r => if memb x r then nodup_count r else S (nodup_count r) end.
Definition spec_table_len (name : bytes) : bytes :=
  if beqb name (bs "SCRIPTS_LTR") then nat_hex (nodup_count (scripts_with LTR the_lay))
  else if beqb name (bs "SCRIPTS_RTL") then nat_hex (nodup_count (scripts_with RTL the_lay))
  else if beqb name (bs "SCRIPTS_TTB") then nat_hex (nodup_count (scripts_with TTB the_lay))
  else if beqb name (bs "LANGS_RTL") then nat_hex (nodup_count (langs_with RTL the_lay))
  else nat_hex (count_class name).
Definition row_fields (impl : bytes) : list (option N) :=
  map (fun w => if beqb w dash then None else unhex w) (words impl).
Definition spec_table_row_ok (name impl : bytes) : bool :=
  if beqb impl (bs "NOROW") then true
  else
    let txt8 (o : option N) := match o with Some x => from_raw 8 x | None => [] end in
    let txt4 (o : option N) := match o with Some x => from_raw 4 x | None => [] end in
    let val3 (a b c : option N) := join [txt8 a; txt4 b; txt4 c] in
    let look (k : bytes) (v : bytes) := match dlookup k the_dict with Some v' => beqb v v' | None => false end in
    match row_fields impl with
    | [k; a; b; c] =>
      if beqb name (bs "LANG_ONLY") then look (txt8 k) (val3 a b c)
      else if beqb name (bs "SCRIPT_ONLY") || beqb name (bs "REGION_ONLY") then look (join [und; txt4 k]) (val3 a b c)
      else false
    | [k1; k2; a; b; c] =>
      if beqb name (bs "LANG_REGION") || beqb name (bs "LANG_SCRIPT") then look (join [txt8 k1; txt4 k2]) (val3 a b c)
      else if beqb name (bs "SCRIPT_REGION") then look (join [und; txt4 k1; txt4 k2]) (val3 a b c)
      else false
    | [k] =>
      if beqb name (bs "SCRIPTS_LTR") then memb (txt4 k) (scripts_with LTR the_lay)
      else if beqb name (bs "SCRIPTS_RTL") then memb (txt4 k) (scripts_with RTL the_lay)
      else if beqb name (bs "SCRIPTS_TTB") then memb (txt4 k) (scripts_with TTB the_lay)
      else if beqb name (bs "LANGS_RTL") then memb (txt8 k) (langs_with RTL the_lay)
      else false
    | _ => false
    end.

Definition oracle_spec_likely (op : bytes) (args : list bytes) (impl : bytes) : option bool :=
  let l := opt_arg (arg_n 0 args) in
  let s0 := opt_arg (arg_n 1 args) in
  let r := opt_arg (arg_n 2 args) in
  if beqb op (bs "maximize") then Some (spec_max_ok l s0 r impl)
  else if beqb op (bs "minimize") then Some (spec_min_ok l s0 r impl)
  else if beqb op (bs "li_maximize") then Some (spec_li_max_ok (arg1 args) impl)
  else if beqb op (bs "li_minimize") then Some (spec_li_min_ok (arg1 args) impl)
  else if beqb op (bs "direction_likely") then Some (spec_dir_ok true (arg1 args) impl)
  else if beqb op (bs "direction_plain") then Some (spec_dir_ok false (arg1 args) impl)
  else if beqb op (bs "cldr_version") then Some (beqb impl (bs CldrLikely.cldr_json_version))
  else if beqb op (bs "table_len") then Some (beqb impl (spec_table_len (arg_n 0 args)))
  else if beqb op (bs "table_row") then Some (spec_table_row_ok (arg_n 0 args) impl)
  else None.

(* ================================================================== language identifiers *)
From UL Require Import LangIdSpec Canonical.

Definition comma : bytes := [44].
Fixpoint join_with (sep : bytes) (l : list bytes) : bytes :=
  match l with [] => [] | [x] => x | x :: r => x ++ sep ++ join_with sep r end.
Definition fmt_variants (o : option (list bytes)) : bytes :=
  match o with None => bs "none" | Some l => bs "[" ++ join_with comma l ++ bs "]" end.
Definition fmt_langid (x : langid) : bytes :=
  language_text (li_lang x) ++ (match li_lang x with None => bs "!" | Some _ => [] end) ++ sp ++ fmt_opt (li_script x) ++ sp ++ fmt_opt (li_region x) ++ sp
  ++ fmt_variants (li_variants x) ++ sp ++ li_to_string x.
Definition fmt_cmp (c : comparison) : bytes := match c with Lt => bs "Less" | Eq => bs "Equal" | Gt => bs "Greater" end.
Definition flag (a : bytes) : bool := beqb a (bs "1").

(* args: lang script region v1 .. vn, each already a valid subtag text in any case ("" = absent) *)
Definition parts_of_args (args : list bytes) : option (option bytes * option bytes * option bytes * list bytes) :=
  match args with
  | l :: s0 :: r :: vs =>
    let lo := match l with [] => Some None | _ => match language_from_bytes l with Ok x => Some x | _ => None end end in
    let so := match s0 with [] => Some None | _ => match script_from_bytes s0 with Ok x => Some (Some x) | _ => None end end in
    let ro := match r with [] => Some None | _ => match region_from_bytes r with Ok x => Some (Some x) | _ => None end end in
    let vo := fold_right (fun v acc => match acc, variant_from_bytes v with Some a, Ok x => Some (x :: a) | _, _ => None end) (Some []) vs in
    match lo, so, ro, vo with
    | Some a, Some b, Some c, Some d => Some (a, b, c, d)
    | _, _, _, _ => None
    end
  | _ => None
  end.

Definition model_li_roundtrip (a : bytes) : bytes :=
  match langid_from_bytes a with
  | Ok x => match langid_from_bytes (li_to_string x) with
            | Ok y => if li_eqb x y then bs "OK same" else bs "DIFF"
            | _ => bs "REPARSE-ERR"
            end
  | Err e => fmt_err e
  | _ => bs "PANIC"
  end.

Definition oracle_model_langid (op : bytes) (args : list bytes) : option bytes :=
  let a := arg1 args in
  if beqb op (bs "langid") then Some (fmt_res fmt_langid (langid_from_bytes a))
  else if beqb op (bs "li_canonicalize") then Some (fmt_res (fun x => x) (li_canonicalize a))
  else if beqb op (bs "li_roundtrip") then Some (model_li_roundtrip a)
  else if beqb op (bs "li_iter") then
    Some (match langid_from_iter (split a) (flag (arg_n 1 args)) with
          | Ok (v, rem) => bs "OK " ++ fmt_langid v ++ bs " R" ++ hex (N.of_nat (List.length rem))
          | Err e => fmt_err e
          | _ => bs "PANIC" end)
  else if beqb op (bs "li_from_parts") then
    Some (match parts_of_args args with
          | Some (l, s0, r, vs) =>
            let x := li_from_parts l s0 r vs in
            (* from_parts equals parsing the joined string *)
            let y := langid_from_bytes (join (language_text l :: opt_tok s0 ++ opt_tok r ++ vs)) in
            fmt_langid x ++ sp ++ (match y with Ok y' => if li_eqb x y' then bs "eqparse" else bs "NEparse" | _ => bs "NOparse" end)
          | None => bs "BADARG" end)
  else if beqb op (bs "li_into_parts") then
    Some (match langid_from_bytes a with
          | Ok x => match li_into_parts x with (l, s0, r, vs) =>
                      if li_eqb (li_from_parts l s0 r vs) x then bs "OK same" else bs "DIFF" end
          | _ => bs "BADARG" end)
  else if beqb op (bs "li_matches") then
    Some (match langid_from_bytes (arg_n 0 args), langid_from_bytes (arg_n 1 args) with
          | Ok x, Ok y => fmt_bool (li_matches x y (flag (arg_n 2 args)) (flag (arg_n 3 args)))
          | _, _ => bs "BADARG" end)
  else if beqb op (bs "lang_matches") then
    Some (match language_try_from (opt_arg (arg_n 0 args)), language_try_from (opt_arg (arg_n 1 args)) with
          | Ok x, Ok y => fmt_bool (lang_matches x y (flag (arg_n 2 args)) (flag (arg_n 3 args)))
          | _, _ => bs "BADARG" end)
  else if beqb op (bs "li_cmp") then
    Some (match langid_from_bytes (arg_n 0 args), langid_from_bytes (arg_n 1 args) with
          | Ok x, Ok y => fmt_cmp (li_cmp x y) ++ sp ++ fmt_bool (li_eqb x y) ++ sp ++ fmt_bool (beqb (li_to_string x) (li_to_string y))
          | _, _ => bs "BADARG" end)
  else if beqb op (bs "li_eq_str") then
    Some (match langid_from_bytes (arg_n 0 args) with
          | Ok x => fmt_bool (beqb (li_to_string x) (arg_n 1 args))
          | _ => bs "BADARG" end)
  else if beqb op (bs "li_routes") then
    Some (match langid_from_bytes a with
          | Ok x =>
            match li_into_parts x with (l, s0, r, vs) =>
              let r2 := li_from_parts l s0 r vs in
              let r3 := li_set_variants (mkLangId l s0 r None) vs in
              let r5 := li_set_variants (mkLangId l s0 r None) (rev vs ++ firstn 1 (rev vs)) in
              if li_eqb x r2 && li_eqb x r3 && li_eqb x r5 then bs "ALLEQ" else bs "DIFF"
            end
          | _ => bs "BADARG" end)
  else None.

(* --- spec side --- *)
Definition spec_li_matches (x y : langid) (ra rb : bool) : bool :=
  let fld (a b : option bytes) := obeqb a b || (ra && is_none a) || (rb && is_none b) in
  let vempty (o : option (list bytes)) := match o with None => true | Some [] => true | _ => false end in
  fld (li_lang x) (li_lang y) && fld (li_script x) (li_script y) && fld (li_region x) (li_region y)
  && (olbeqb (li_variants x) (li_variants y) || (ra && vempty (li_variants x)) || (rb && vempty (li_variants y))).

Definition oracle_spec_langid (op : bytes) (args : list bytes) (impl : bytes) : option bool :=
  let a := arg1 args in
  if beqb op (bs "langid") then
    Some (match spec_langid (split a) with
          | Some v => beqb impl (bs "OK " ++ fmt_langid v)
          | None => beqb impl (fmt_err (spec_langid_err (split a))) end)
  else if beqb op (bs "li_iter") then
    (* C02_iter: the longest well-formed prefix; leftovers returned (allow_extension) or rejected *)
    Some (match spec_langid_prefix (split a) with
          | Some (v, rem) =>
            if negb (flag (arg_n 1 args)) && negb (match rem with [] => true | _ => false end)
            then beqb impl (fmt_err InvalidSubtag)
            else beqb impl (bs "OK " ++ fmt_langid v ++ bs " R" ++ hex (N.of_nat (List.length rem)))
          | None => beqb impl (fmt_err InvalidLanguage) end)
  else if beqb op (bs "li_canonicalize") then
    Some (match spec_langid (split a) with
          | Some v => beqb impl (bs "OK " ++ li_to_string v)
                      && canon_langid_text (li_to_string v) && (List.length (li_to_string v) <=? List.length a)%nat
          | None => beqb impl (fmt_err (spec_langid_err (split a))) end)
  else if beqb op (bs "li_roundtrip") then
    Some (match spec_langid (split a) with
          | Some _ => beqb impl (bs "OK same")
          | None => beqb impl (fmt_err (spec_langid_err (split a))) end)
  else if beqb op (bs "li_into_parts") then
    Some (match spec_langid (split a) with Some _ => beqb impl (bs "OK same") | None => true end)
  else if beqb op (bs "li_from_parts") then
    (* from_parts (any order, duplicates) = parsing the joined string *)
    Some (match parts_of_args args with
          | Some (l, s0, r, vs) =>
            match spec_langid (language_text l :: opt_tok s0 ++ opt_tok r ++ vs) with
            | Some v => beqb impl (fmt_langid v ++ sp ++ bs "eqparse")
            | None => true
            end
          | None => true end)
  else if beqb op (bs "li_matches") then
    Some (match spec_langid (split (arg_n 0 args)), spec_langid (split (arg_n 1 args)) with
          | Some x, Some y => beqb impl (fmt_bool (spec_li_matches x y (flag (arg_n 2 args)) (flag (arg_n 3 args))))
          | _, _ => true end)
  else if beqb op (bs "li_cmp") then
    Some (match spec_langid (split (arg_n 0 args)), spec_langid (split (arg_n 1 args)) with
          | Some x, Some y =>
            let same := beqb (li_to_string x) (li_to_string y) in
            (* == iff equal canonical strings; Equal iff ==; the order is the field-wise one *)
            beqb impl (fmt_cmp (li_cmp x y) ++ sp ++ fmt_bool same ++ sp ++ fmt_bool same)
            && Bool.eqb same (match li_cmp x y with Eq => true | _ => false end)
          | _, _ => true end)
  else if beqb op (bs "li_eq_str") then
    Some (match spec_langid (split (arg_n 0 args)) with
          | Some x => beqb impl (fmt_bool (beqb (li_to_string x) (arg_n 1 args)))
          | None => true end)
  else if beqb op (bs "li_routes") then
    Some (match spec_langid (split a) with Some _ => beqb impl (bs "ALLEQ") | None => beqb impl (bs "BADARG") end)
  else None.

(* ================================================================== locales / extensions *)
From UL Require Import Ext LocaleOrd Ops AbstractLocale LocaleSpec CanonLocale Prefix.

Definition semi : bytes := [59].
Definition fmt_kmap (m : kmap) : bytes :=
  join_with semi (map (fun kv => fst kv ++ bs "=" ++ join_with comma (snd kv)) m).
Definition fmt_u (u : uext) : bytes :=
  bs "U[" ++ join_with comma (u_attrs u) ++ bs "|" ++ fmt_kmap (u_keywords u) ++ bs "]".
Definition fmt_t (t : text) : bytes :=
  bs "T[" ++ (match t_lang t with Some l => fmt_langid l | None => dash end) ++ bs "|" ++ fmt_kmap (t_fields t) ++ bs "]".
Definition fmt_x (x : list bytes) : bytes := bs "X[" ++ join_with comma x ++ bs "]".
Definition fmt_ext (e : extmap) : bytes :=
  fmt_u (e_unicode e) ++ sp ++ fmt_t (e_transform e) ++ sp ++ fmt_x (e_private e) ++ sp
  ++ bs "E" ++ (if u_is_empty (e_unicode e) then bs "1" else bs "0")
  ++ (if t_is_empty (e_transform e) then bs "1" else bs "0")
  ++ (if nil_b (e_private e) then bs "1" else bs "0")
  ++ (if e_is_empty e then bs "1" else bs "0").
Definition fmt_locale (l : locale) : bytes :=
  fmt_langid (loc_id l) ++ sp ++ fmt_ext (loc_ext l) ++ sp ++ loc_to_string l.
(* Locale / extension errors: only "an error", no kind (no property fixes the kind) *)
Definition fmt_res_e {A} (f : A -> bytes) (r : res A) : bytes :=
  match r with Ok a => bs "OK " ++ f a | Err _ => bs "ERR" | Panic _ => bs "PANIC" | OutOfFuel => bs "FUEL" end.

(* derived PartialEq / Ord of Locale: model/LocaleOrd.v (theorems: proofs/LocaleAlgebra.v) *)

Definition model_reparse (l : locale) : bytes :=
  match locale_from_bytes (loc_to_string l) with
  | Ok y => if loc_eqb l y then bs "same" else bs "DIFF"
  | _ => bs "REPARSE-ERR"
  end.

(* ---- histories ---- *)
Definition fmt_out (o : out) : bytes :=
  match o with
  | OutUnit => bs "ok" | OutBool b => fmt_bool b
  | OutList l => bs "[" ++ join_with comma l ++ bs "]"
  | OutErr => bs "ERR" | OutPanic => bs "PANIC"
  end.
Definition first_byte (a : bytes) : N := match a with b :: _ => b | [] => 0 end.
Definition mk_op (code : N) (pl : list bytes) : option op :=
  let p0 := nth 0 pl [] in
  if code =? 76 then Some (OSetLang p0)            (* L *)
  else if code =? 83 then Some (OSetScript p0)     (* S *)
  else if code =? 82 then Some (OSetRegion p0)     (* R *)
  else if code =? 86 then Some (OSetVariants pl)   (* V *)
  else if code =? 118 then Some OClearVariants     (* v *)
  else if code =? 104 then Some (OHasVariant p0)   (* h *)
  else if code =? 107 then Some (OKeyword p0)      (* k *)
  else if code =? 75 then Some (OSetKeyword p0 (tl pl))   (* K *)
  else if code =? 114 then Some (ORemoveKeyword p0)       (* r *)
  else if code =? 99 then Some OClearKeywords             (* c *)
  else if code =? 97 then Some (OHasAttribute p0)         (* a *)
  else if code =? 65 then Some (OSetAttribute p0)         (* A *)
  else if code =? 100 then Some (ORemoveAttribute p0)     (* d *)
  else if code =? 101 then Some OClearAttributes          (* e *)
  else if code =? 71 then Some (OSetTlang p0)             (* G *)
  else if code =? 103 then Some OClearTlang               (* g *)
  else if code =? 102 then Some (OTfield p0)              (* f *)
  else if code =? 70 then Some (OSetTfield p0 (tl pl))    (* F *)
  else if code =? 109 then Some (ORemoveTfield p0)        (* m *)
  else if code =? 110 then Some OClearTfields             (* n *)
  else if code =? 112 then Some (OHasTag p0)              (* p *)
  else if code =? 80 then Some (OAddTag p0)               (* P *)
  else if code =? 113 then Some (ORemoveTag p0)           (* q *)
  else if code =? 81 then Some OClearTags                 (* Q *)
  else if code =? 77 then Some OMaximize                  (* M *)
  else if code =? 78 then Some OMinimize                  (* N *)
  else None.
(* args: code, count, payload... ; fuel = number of args *)
Fixpoint decode_ops (fuel : nat) (args : list bytes) : list op :=
  match fuel with
  | O => []
  | S f =>
    match args with
    | code :: cnt :: rest =>
      let n := dec_nat cnt 0 in
      match mk_op (first_byte code) (firstn n rest) with
      | Some o => o :: decode_ops f (skipn n rest)
      | None => []
      end
    | _ => []
    end
  end.
Definition sep_hist : bytes := bs " ## ".
Definition fmt_step (l : locale) (o : out) : bytes :=
  fmt_out o ++ sp ++ fmt_locale l ++ sp ++ model_reparse l.
Definition start_of (a : bytes) : option locale :=
  match a with
  | [] => Some locale_default
  | _ => match locale_from_bytes a with Ok l => Some l | _ => None end
  end.
Definition model_hist (args : list bytes) : bytes :=
  match args with
  | st :: rest =>
    match start_of st with
    | Some l0 =>
      match run the_tables l0 (decode_ops (List.length rest) rest) with
      | Some steps => join_with sep_hist (map (fun p => fmt_step (fst p) (snd p)) steps)
      | None => bs "UNSPEC"
      end
    | None => bs "BADSTART"
    end
  | [] => bs "BADARG"
  end.
Definition spec_hist (args : list bytes) : bytes :=
  match args with
  | st :: rest =>
    match start_of st with
    | Some l0 =>
      join_with sep_hist
        (map (fun p => let l := normalize (fst p) in fmt_out (snd p) ++ sp ++ fmt_locale l ++ sp ++ bs "same")
             (arun the_tables (abstract l0) (decode_ops (List.length rest) rest)))
    | None => bs "BADSTART"
    end
  | [] => bs "BADARG"
  end.

Definition fmt_ext_type (t : ext_type) : bytes :=
  match t with EUnicode => bs "u" | ETransform => bs "t" | EPrivate => bs "x" | EOther c => bs "o" ++ [c] end.

Definition oracle_model_locale (op : bytes) (args : list bytes) : option bytes :=
  let a := arg1 args in
  if beqb op (bs "locale") then Some (fmt_res_e fmt_locale (locale_from_bytes a))
  else if beqb op (bs "loc_canonicalize") then Some (fmt_res_e (fun x => x) (loc_canonicalize a))
  else if beqb op (bs "loc_roundtrip") then
    Some (match locale_from_bytes a with Ok l => bs "OK " ++ model_reparse l | Err _ => bs "ERR" | _ => bs "PANIC" end)
  else if beqb op (bs "extmap") then
    Some (match extmap_from_bytes a with
          | Ok e => bs "OK " ++ fmt_ext e ++ sp ++ ext_to_string e ++ sp
                    ++ (match extmap_from_bytes (ext_to_string e) with
                        | Ok e' => if ext_eqb e e' then bs "same" else bs "DIFF" | _ => bs "REPARSE-ERR" end)
          | Err _ => bs "ERR" | _ => bs "PANIC" end)
  else if beqb op (bs "ext_type") then
    Some (match a with [b] => fmt_res_e fmt_ext_type (ext_type_from_byte b) | _ => bs "BADARG" end)
  else if beqb op (bs "loc_hist") then Some (model_hist args)
  else if beqb op (bs "both") then
    (* C13: LanguageIdentifier and Locale on the same bytes *)
    Some (match langid_from_bytes a with
          | Ok v => (match locale_from_bytes a with
                     | Ok l => if li_eqb (loc_id l) v && e_is_empty (loc_ext l) && beqb (loc_to_string l) (li_to_string v)
                               then bs "LI-OK LOC-SAME" else bs "LI-OK LOC-DIFF"
                     | _ => bs "LI-OK LOC-ERR" end)
          | _ => bs "LI-ERR" end)
  else if beqb op (bs "loc_prefix") then
    (* C13: the id versus LanguageIdentifier on the part before the first singleton subtag *)
    Some (match locale_from_bytes a with
          | Ok l => (match langid_from_bytes (join (before_single (split a))) with
                     | Ok v => if li_eqb v (loc_id l) && beqb (li_to_string v) (li_to_string (loc_id l))
                               then bs "PRE-SAME" else bs "PRE-DIFF"
                     | _ => bs "PRE-ERR" end)
          | _ => bs "LOC-ERR" end)
  else if beqb op (bs "loc_conv") then
    Some (match locale_from_bytes a with
          | Ok l => (* Locale -> LanguageIdentifier drops exactly the extensions; back gives empty extensions *)
            fmt_langid (loc_id l) ++ sp ++ fmt_locale (mkLoc (loc_id l) extmap_default)
          | _ => bs "BADARG" end)
  else if beqb op (bs "loc_into_parts") then
    Some (match locale_from_bytes a with
          | Ok l =>
            match li_into_parts (loc_id l) with (lg, sc, rg, vs) =>
              match extmap_from_bytes (ext_to_string (loc_ext l)) with
              | Ok e => if loc_eqb (loc_from_parts lg sc rg vs (Some e)) l then bs "OK same" else bs "DIFF"
              | _ => bs "EXT-REPARSE-ERR"
              end
            end
          | _ => bs "BADARG" end)
  else if beqb op (bs "loc_built") then
    (* a Locale built through the API: id and tlang both the identifier before the first singleton *)
    Some (match langid_from_bytes (join (before_single (split a))) with
          | Ok v => bs "OK " ++ loc_to_string (mkLoc v (mkE uext_default (mkT (Some v) []) []))
          | _ => bs "BADARG" end)
  else if beqb op (bs "big") then Some (bs "DONE")
  else if beqb op (bs "facade") then
    let dbg (r : res bytes) := match r with Ok t => bs "Ok(" ++ [34] ++ t ++ [34] ++ bs ")" | _ => bs "Err(())" end in
    Some (dbg (bind (locale_from_bytes a) (fun l => Ok (loc_to_string l))) ++ sp
          ++ dbg (bind (langid_from_bytes a) (fun l => Ok (li_to_string l))) ++ sp
          ++ dbg (loc_canonicalize a) ++ sp ++ dbg (li_canonicalize a))
  else if beqb op (bs "loc_meta") then
    Some (match locale_from_bytes (arg_n 0 args), locale_from_bytes (arg_n 1 args) with
          | Ok x, Ok y => if loc_eqb x y && beqb (loc_to_string x) (loc_to_string y) then bs "SAME" else bs "DIFF"
          | Err _, Err _ => bs "BOTH-ERR"
          | _, _ => bs "DIFF" end)
  else if beqb op (bs "ext_meta") then
    Some (match extmap_from_bytes (arg_n 0 args), extmap_from_bytes (arg_n 1 args) with
          | Ok x, Ok y => if ext_eqb x y && beqb (ext_to_string x) (ext_to_string y) then bs "SAME" else bs "DIFF"
          | Err _, Err _ => bs "BOTH-ERR"
          | _, _ => bs "DIFF" end)
  else if beqb op (bs "li_meta") then
    Some (match langid_from_bytes (arg_n 0 args), langid_from_bytes (arg_n 1 args) with
          | Ok x, Ok y => if li_eqb x y && beqb (li_to_string x) (li_to_string y) then bs "SAME" else bs "DIFF"
          | Err _, Err _ => bs "BOTH-ERR"
          | _, _ => bs "DIFF" end)
  else if beqb op (bs "loc_matches") then
    Some (match locale_from_bytes (arg_n 0 args), locale_from_bytes (arg_n 1 args) with
          | Ok x, Ok y => fmt_bool (loc_matches x y (flag (arg_n 2 args)) (flag (arg_n 3 args)))
                          ++ sp ++ fmt_bool (li_matches (loc_id x) (loc_id y) (flag (arg_n 2 args)) (flag (arg_n 3 args)))
          | _, _ => bs "BADARG" end)
  else if beqb op (bs "loc_cmp") then
    Some (match locale_from_bytes (arg_n 0 args), locale_from_bytes (arg_n 1 args) with
          | Ok x, Ok y => fmt_cmp (loc_cmp x y) ++ sp ++ fmt_bool (loc_eqb x y) ++ sp ++ fmt_bool (beqb (loc_to_string x) (loc_to_string y))
          | _, _ => bs "BADARG" end)
  else None.

(* --- spec side --- *)
(* canonical text: the grammar reading accepts it and the canonical printing of the value read is the
   text itself; only letters, digits and '-' *)
(* (a tkey whose only value was `true` prints without a value - "no 'true' values" - which the
   grammar reading puts in the lenient zone; an empty body or an empty token never survives the
   reprint test) *)
Definition canon_locale_text (s : bytes) : bool :=
  canon_alphabet s && canon_locale_strict s &&
  match spec_locale_zone (split s) with
  | MustAccept v => beqb (loc_to_string v) s
  | Either v => beqb (loc_to_string v) s
  | _ => false
  end.

(* "<Less|Equal|Greater> <==> <equal strings>": the three answers of a comparison are consistent *)
Definition cmp_consistent (impl : bytes) : bool :=
  match words impl with
  | [c; e; s0] => beqb e s0 && Bool.eqb (beqb c (bs "Equal")) (beqb e (bs "true"))
  | _ => true
  end.

Definition spec_locale_ok (a impl : bytes) : bool :=
  match spec_locale_zone (split a) with
  | MustAccept v => beqb impl (bs "OK " ++ fmt_locale v)
  | Either v => beqb impl (bs "ERR") || beqb impl (bs "OK " ++ fmt_locale v)
  | MustReject => beqb impl (bs "ERR")
  | Outside => negb (beqb impl (bs "PANIC"))
  end.

Definition oracle_spec_locale (op : bytes) (args : list bytes) (impl : bytes) : option bool :=
  let a := arg1 args in
  if beqb op (bs "locale") then Some (spec_locale_ok a impl)
  else if beqb op (bs "loc_canonicalize") then
    Some (match spec_locale_zone (split a) with
          | MustAccept v => beqb impl (bs "OK " ++ loc_to_string v) && canon_locale_text (loc_to_string v)
                            && (List.length (loc_to_string v) <=? List.length a)%nat
          | Either v => beqb impl (bs "ERR")
                        || (beqb impl (bs "OK " ++ loc_to_string v) && canon_locale_text (loc_to_string v)
                            && (List.length (loc_to_string v) <=? List.length a)%nat)
          | MustReject => beqb impl (bs "ERR")
          | Outside => (* still canonical if it is accepted (C04), never longer than the input *)
            beqb impl (bs "ERR") ||
            (match impl with
             | 79 :: 75 :: 32 :: t => canon_locale_text t && (List.length t <=? List.length a)%nat
             | _ => false end)
          end)
  else if beqb op (bs "loc_roundtrip") then
    Some (beqb impl (bs "ERR") || beqb impl (bs "OK same"))
  else if beqb op (bs "loc_hist") then Some (beqb impl (spec_hist args) || beqb (spec_hist args) (bs "BADSTART"))
  else if beqb op (bs "big") then Some (beqb impl (bs "DONE"))
  else if beqb op (bs "loc_meta") then Some (beqb impl (bs "SAME") || beqb impl (bs "BOTH-ERR"))
  else if beqb op (bs "li_meta") then Some (beqb impl (bs "SAME") || beqb impl (bs "BOTH-ERR"))
  else if beqb op (bs "ext_meta") then Some (beqb impl (bs "SAME") || beqb impl (bs "BOTH-ERR"))
  else if beqb op (bs "both") then
    Some (match spec_langid (split a) with
          | Some _ => beqb impl (bs "LI-OK LOC-SAME")
          | None => beqb impl (bs "LI-ERR") end)
  else if beqb op (bs "loc_prefix") then
    (* every well-formed locale string (MustAccept = the EBNF, C03_must_accept_is_the_grammar): the id is what
       LanguageIdentifier parses from the part before the first singleton (C13_before_first_singleton) *)
    Some (match spec_locale_zone (split a) with
          | MustAccept _ => beqb impl (bs "PRE-SAME")
          | _ => true end)
  else if beqb op (bs "loc_into_parts") then Some (beqb impl (bs "OK same") || beqb impl (bs "BADARG"))
  else if beqb op (bs "loc_built") then
    (* C17_parts_locale / C05_locale on a built value: the laws hold, and the text is the canonical one *)
    Some (match spec_langid (before_single (split a)) with
          | Some v => beqb impl (bs "OK " ++ loc_to_string (mkLoc v (mkE uext_default (mkT (Some v) []) [])))
          | None => beqb impl (bs "BADARG") end)
  else if beqb op (bs "loc_matches") then
    Some (match spec_locale_zone (split (arg_n 0 args)), spec_locale_zone (split (arg_n 1 args)) with
          | MustAccept x, MustAccept y =>
            let m := spec_li_matches (loc_id x) (loc_id y) (flag (arg_n 2 args)) (flag (arg_n 3 args)) in
            let priv := negb (nil_b (e_private (loc_ext x))) || negb (nil_b (e_private (loc_ext y))) in
            beqb impl (fmt_bool (if priv then false else m) ++ sp ++ fmt_bool m)
          | _, _ => true end)
  else if beqb op (bs "loc_cmp") then
    Some (match spec_locale_zone (split (arg_n 0 args)), spec_locale_zone (split (arg_n 1 args)) with
          | MustAccept x, MustAccept y =>
            let same := beqb (loc_to_string x) (loc_to_string y) in
            beqb impl (fmt_cmp (loc_cmp x y) ++ sp ++ fmt_bool same ++ sp ++ fmt_bool same)
            && Bool.eqb same (match loc_cmp x y with Eq => true | _ => false end)
          | _, _ =>
            (* whatever the implementation accepts (lenient zone, repeated keys, an `other` extension it chooses to
               support): == iff equal canonical strings, and Equal iff == *)
            cmp_consistent impl end)
  else None.

(* ================================================================== serde *)
From UL Require Import Serde.
Definition quote_b : bytes := [34].
Definition oracle_model_serde (op : bytes) (args : list bytes) : option bytes :=
  let a := arg1 args in
  if beqb op (bs "serde_ser") then
    Some (match langid_from_bytes a with
          | Ok x => match ser x with JStr t => bs "OK " ++ quote_b ++ t ++ quote_b | _ => bs "NOT-A-STRING" end
          | _ => bs "BADARG" end)
  else if beqb op (bs "serde_de") then Some (fmt_res_e fmt_langid (de (JStr a)))
  else if beqb op (bs "serde_roundtrip") then
    Some (match langid_from_bytes a with
          | Ok x => match de (ser x) with Ok y => if li_eqb x y then bs "OK same" else bs "DIFF" | _ => bs "DE-ERR" end
          | _ => bs "BADARG" end)
  else if beqb op (bs "serde_nonstring") then Some (bs "ERR")
  else None.
Definition oracle_spec_serde (op : bytes) (args : list bytes) (impl : bytes) : option bool :=
  let a := arg1 args in
  if beqb op (bs "serde_ser") then
    Some (match spec_langid (split a) with
          | Some v => beqb impl (bs "OK " ++ quote_b ++ li_to_string v ++ quote_b) && canon_langid_text (li_to_string v)
          | None => true end)
  else if beqb op (bs "serde_de") then
    Some (match spec_langid (split a) with
          | Some v => beqb impl (bs "OK " ++ fmt_langid v)
          | None => beqb impl (bs "ERR") end)
  else if beqb op (bs "serde_roundtrip") then Some (beqb impl (bs "OK same") || beqb impl (bs "BADARG"))
  else if beqb op (bs "serde_nonstring") then Some (beqb impl (bs "ERR"))
  else None.

(* ================================================================== macros *)
From UL Require Import Macros.
Definition fmt_mval {A} (f : A -> bytes) (m : mval A) : bytes :=
  match m with MValue a => bs "OK " ++ f a | MCompileError => bs "COMPILE-ERROR" | MRuntimePanic => bs "RUNTIME-PANIC" end.
Definition oracle_model_macros (op : bytes) (args : list bytes) : option bytes :=
  let a := arg1 args in
  if beqb op (bs "macro_lang") then Some (fmt_mval fmt_lang (macro_lang a))
  else if beqb op (bs "macro_script") then Some (fmt_mval (fun x => x) (macro_script a))
  else if beqb op (bs "macro_region") then Some (fmt_mval (fun x => x) (macro_region a))
  else if beqb op (bs "macro_variant") then Some (fmt_mval (fun x => x) (macro_variant a))
  else if beqb op (bs "macro_langid") then Some (fmt_mval fmt_langid (macro_langid a))
  else if beqb op (bs "macro_locale") then Some (fmt_mval fmt_locale (macro_locale a))
  else None.
(* spec: a well-formed literal must compile and equal the value the grammar assigns; an ill-formed one
   must be a compile-time error; the lenient zone of C03 may go either way *)
Definition oracle_spec_macros (op : bytes) (args : list bytes) (impl : bytes) : option bool :=
  let a := arg1 args in
  let tokres (tok : bytes -> bool) (value : bytes -> bytes) :=
      if tok a then beqb impl (bs "OK " ++ value a) else beqb impl (bs "COMPILE-ERROR") in
  if beqb op (bs "macro_lang") then Some (tokres lang_tok (fun s => fmt_lang (spec_language_value s)))
  else if beqb op (bs "macro_script") then Some (tokres script_tok title)
  else if beqb op (bs "macro_region") then Some (tokres region_tok norm_region)
  else if beqb op (bs "macro_variant") then Some (tokres variant_tok lower)
  else if beqb op (bs "macro_langid") then
    Some (match spec_langid (split a) with
          | Some v => beqb impl (bs "OK " ++ fmt_langid v)
          | None => beqb impl (bs "COMPILE-ERROR") end)
  else if beqb op (bs "macro_locale") then
    Some (match spec_locale_zone (split a) with
          | MustAccept v => beqb impl (bs "OK " ++ fmt_locale v)
          | Either v => beqb impl (bs "COMPILE-ERROR") || beqb impl (bs "OK " ++ fmt_locale v)
          | MustReject => beqb impl (bs "COMPILE-ERROR")
          | Outside => negb (beqb impl (bs "RUNTIME-PANIC")) end)
  else None.

(* ------------------------------------------------------------------ top level *)
Definition oracle_model (op : bytes) (args : list bytes) : bytes :=
  match oracle_model_subtags op args with Some r => r | None =>
  match oracle_model_likely op args with Some r => r | None =>
  match oracle_model_langid op args with Some r => r | None =>
  match oracle_model_locale op args with Some r => r | None =>
  match oracle_model_serde op args with Some r => r | None =>
  match oracle_model_macros op args with Some r => r | None =>
  bs "UNKNOWN-OP" end end end end end end.

(* ---- per-property view of the specification -------------------------------------------------
   The same operation can serve several properties; each property judges only what IT states. *)
(* a step of a history transcript: "<out> <fmt_locale ... to_string> <same|DIFF|REPARSE-ERR>" *)
Definition step_tostring (st : bytes) : bytes := match rev (words st) with _ :: t :: _ => t | _ => [] end.
Definition step_reparse (st : bytes) : bytes := match rev (words st) with t :: _ => t | _ => [] end.
(* (the "error left the value unchanged" law is C10's: its LAWFAIL entries are not steps) *)
Definition hist_steps (impl : bytes) : list bytes :=
  match impl with [] => [] | _ => filter (fun st => negb (starts_with (bs "LAWFAIL") st)) (split_on sep_hist impl) end.
Definition last_word (s : bytes) : bytes := match rev (words s) with t :: _ => t | _ => [] end.

(* Some r = this property's own verdict on the operation; None = use the default specification *)
Definition spec_for_property (prop op : bytes) (args : list bytes) (impl : bytes) : option (option bool) :=
  let is p := beqb prop (bs p) in
  let o p := beqb op (bs p) in
  if (is "C07"%string || is "C08"%string) && (o "maximize"%string || o "minimize"%string || o "li_maximize"%string || o "li_minimize"%string) then
    (* purely algebraic laws, evaluated on the library alone inside the harness (LAWFAIL answers) *)
    Some None
  else if is "C04"%string && o "loc_hist"%string then
    Some (if starts_with (bs "BAD") impl then None
          else Some (forallb (fun st => canon_locale_text (step_tostring st)) (hist_steps impl)))
  else if is "C05"%string && o "loc_hist"%string then
    Some (if starts_with (bs "BAD") impl then None
          else Some (forallb (fun st => beqb (step_reparse st) (bs "same")) (hist_steps impl)))
  else if is "C04"%string && (o "langid"%string || o "li_from_parts"%string) then
    Some (if starts_with (bs "OK ") impl || o "li_from_parts"%string then
            (if starts_with (bs "BADARG") impl then None
             else Some (canon_langid_text (if o "li_from_parts"%string then step_tostring impl else last_word impl)))
          else None)
  else if is "C05"%string && (o "loc_canonicalize"%string || o "li_canonicalize"%string) then Some None
  else None.

(* None = no specification attached to this operation (only the model is compared) *)
Definition oracle_spec (prop op : bytes) (args : list bytes) (impl : bytes) : option bool :=
  match spec_for_property prop op args impl with Some r => r | None =>
  match oracle_spec_subtags op args impl with Some r => Some r | None =>
  match oracle_spec_likely op args impl with Some r => Some r | None =>
  match oracle_spec_langid op args impl with Some r => Some r | None =>
  match oracle_spec_locale op args impl with Some r => Some r | None =>
  match oracle_spec_serde op args impl with Some r => Some r | None =>
  match oracle_spec_macros op args impl with Some r => Some r | None =>
  None end end end end end end end.
