(* Oracle.v — entry points of the executable model and specification, as functions from
   (operation name, byte-string arguments) to a canonical result text.  Extracted to OCaml
   (ExtrOcamlBasic only) and driven by ocaml/driver.ml in the correspondence check. *)
From UL Require Import Bytes Subtags Grammar.
From Coq Require Import String.
Open Scope N_scope.

Definition sp : bytes := [32].
Definition fmt_err (e : perr) : bytes :=
  match e with InvalidLanguage => bs "ERR L" | InvalidSubtag => bs "ERR S" | InvalidExtension => bs "ERR E" end.
Definition fmt_res {A} (f : A -> bytes) (r : res A) : bytes :=
  match r with
  | Ok a => bs "OK " ++ f a
  | Err e => fmt_err e
  | Panic _ => bs "PANIC"
  | OutOfFuel => bs "FUEL"
  end.

(* N -> lower-case hex text (for integer forms) *)
Definition hexdigit (d : N) : N := if d <? 10 then 48 + d else 87 + d.
Fixpoint hex_aux (fuel : nat) (x : N) (acc : bytes) : bytes :=
  match fuel with
  | O => acc
  | S k => let acc' := hexdigit (x mod 16) :: acc in
           if x / 16 =? 0 then acc' else hex_aux k (x / 16) acc'
  end.
Definition hex (x : N) : bytes := hex_aux 20 x [].

Definition fmt_lang (l : option bytes) : bytes :=
  language_text l ++ sp ++ (match l with None => bs "empty" | Some _ => bs "full" end).
Definition fmt_lang_raw (l : option bytes) : bytes :=
  match l with
  | None => bs "none"
  | Some s => hex (le_pack s) ++ sp ++ from_raw 8 (le_pack s)
  end.
Definition fmt_raw (n : nat) (s : bytes) : bytes := hex (le_pack s) ++ sp ++ from_raw n (le_pack s).

Definition arg1 (args : list bytes) : bytes := match args with a :: _ => a | [] => [] end.

(* ------------------------------------------------------------------ model *)
Definition oracle_model_subtags (op : bytes) (args : list bytes) : option bytes :=
  let a := arg1 args in
  if beqb op (bs "lang") then Some (fmt_res fmt_lang (language_from_bytes a))
  else if beqb op (bs "script") then Some (fmt_res (fun x => x) (script_from_bytes a))
  else if beqb op (bs "region") then Some (fmt_res (fun x => x) (region_from_bytes a))
  else if beqb op (bs "variant") then Some (fmt_res (fun x => x) (variant_from_bytes a))
  else if beqb op (bs "lang_raw") then Some (fmt_res fmt_lang_raw (language_from_bytes a))
  else if beqb op (bs "script_raw") then Some (fmt_res (fmt_raw 4) (script_from_bytes a))
  else if beqb op (bs "region_raw") then Some (fmt_res (fmt_raw 4) (region_from_bytes a))
  else if beqb op (bs "variant_raw") then Some (fmt_res (fmt_raw 8) (variant_from_bytes a))
  else None.

(* ------------------------------------------------------------------ spec
   The specification is evaluated against the IMPLEMENTATION's answer `impl`
   (search phase): true = the answer is one the property allows. *)
Definition spec_tok_result (tok : bytes -> bool) (value : bytes -> bytes) (err : bytes)
           (a impl : bytes) : bool :=
  if tok a then beqb impl (bs "OK " ++ value a) else beqb impl err.

Definition oracle_spec_subtags (op : bytes) (args : list bytes) (impl : bytes) : option bool :=
  let a := arg1 args in
  if beqb op (bs "lang") then
    Some (spec_tok_result lang_tok (fun s => fmt_lang (spec_language_value s)) (bs "ERR L") a impl)
  else if beqb op (bs "script") then
    Some (spec_tok_result script_tok title (bs "ERR S") a impl)
  else if beqb op (bs "region") then
    Some (spec_tok_result region_tok (fun s => if (List.length s =? 2)%nat then upper s else s) (bs "ERR S") a impl)
  else if beqb op (bs "variant") then
    Some (spec_tok_result variant_tok lower (bs "ERR S") a impl)
  else None.

(* ------------------------------------------------------------------ top level *)
Definition oracle_model (op : bytes) (args : list bytes) : bytes :=
  match oracle_model_subtags op args with Some r => r | None =>
  bs "UNKNOWN-OP" end.

(* None = no specification attached to this operation (only the model is compared) *)
Definition oracle_spec (op : bytes) (args : list bytes) (impl : bytes) : option bool :=
  match oracle_spec_subtags op args impl with Some r => Some r | None =>
  None end.
