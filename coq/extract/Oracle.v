(* Oracle.v — entry points of the executable model and specification, as functions from
   (operation name, byte-string arguments) to a canonical result text.  Extracted to OCaml
   (ExtrOcamlBasic only) and driven by ocaml/driver.ml in the correspondence check. *)
From UL Require Import Bytes Subtags Grammar.
From Coq Require Import String.
Open Scope N_scope.

Definition sp : bytes := [32].
Definition fmt_err (e : perr) : bytes :=
  match e with InvalidLanguage => bs "ERR L" | InvalidSubtag => bs "ERR S" | InvalidExtension => bs "ERR E" end.
Definition fmt_res {A} (f : A -> bytes) (r : res A) : bytes :=
  match r with
  | Ok a => bs "OK " ++ f a
  | Err e => fmt_err e
  | Panic _ => bs "PANIC"
  | OutOfFuel => bs "FUEL"
  end.

(* N -> lower-case hex text (for integer forms) *)
Definition hexdigit (d : N) : N := if d <? 10 then 48 + d else 87 + d.
Fixpoint hex_aux (fuel : nat) (x : N) (acc : bytes) : bytes :=
  match fuel with
  | O => acc
  | S k => let acc' := hexdigit (x mod 16) :: acc in
           if x / 16 =? 0 then acc' else hex_aux k (x / 16) acc'
  end.
Definition hex (x : N) : bytes := hex_aux 20 x [].

Definition fmt_lang (l : option bytes) : bytes :=
  language_text l ++ sp ++ (match l with None => bs "empty" | Some _ => bs "full" end).
Definition fmt_lang_raw (l : option bytes) : bytes :=
  match l with
  | None => bs "none"
  | Some s => hex (le_pack s) ++ sp ++ from_raw 8 (le_pack s)
  end.
Definition fmt_raw (n : nat) (s : bytes) : bytes := hex (le_pack s) ++ sp ++ from_raw n (le_pack s).

Definition arg1 (args : list bytes) : bytes := match args with a :: _ => a | [] => [] end.

(* ------------------------------------------------------------------ model *)
Definition oracle_model_subtags (op : bytes) (args : list bytes) : option bytes :=
  let a := arg1 args in
  if beqb op (bs "lang") then Some (fmt_res fmt_lang (language_from_bytes a))
  else if beqb op (bs "script") then Some (fmt_res (fun x => x) (script_from_bytes a))
  else if beqb op (bs "region") then Some (fmt_res (fun x => x) (region_from_bytes a))
  else if beqb op (bs "variant") then Some (fmt_res (fun x => x) (variant_from_bytes a))
  else if beqb op (bs "lang_raw") then Some (fmt_res fmt_lang_raw (language_from_bytes a))
  else if beqb op (bs "script_raw") then Some (fmt_res (fmt_raw 4) (script_from_bytes a))
  else if beqb op (bs "region_raw") then Some (fmt_res (fmt_raw 4) (region_from_bytes a))
  else if beqb op (bs "variant_raw") then Some (fmt_res (fmt_raw 8) (variant_from_bytes a))
  else None.

(* ------------------------------------------------------------------ spec
   The specification is evaluated against the IMPLEMENTATION's answer `impl`
   (search phase): true = the answer is one the property allows. *)
Definition spec_tok_result (tok : bytes -> bool) (value : bytes -> bytes) (err : bytes)
           (a impl : bytes) : bool :=
  if tok a then beqb impl (bs "OK " ++ value a) else beqb impl err.

Definition oracle_spec_subtags (op : bytes) (args : list bytes) (impl : bytes) : option bool :=
  let a := arg1 args in
  if beqb op (bs "lang") then
    Some (spec_tok_result lang_tok (fun s => fmt_lang (spec_language_value s)) (bs "ERR L") a impl)
  else if beqb op (bs "script") then
    Some (spec_tok_result script_tok title (bs "ERR S") a impl)
  else if beqb op (bs "region") then
    Some (spec_tok_result region_tok (fun s => if (List.length s =? 2)%nat then upper s else s) (bs "ERR S") a impl)
  else if beqb op (bs "variant") then
    Some (spec_tok_result variant_tok lower (bs "ERR S") a impl)
  else None.

(* ================================================================== likely subtags / direction *)
From UL Require Import LangId Likely Inst LikelySpec LayoutSpec TablesData LayoutData.
From UL Require Tables Layout CldrLikely.

Definition dash : bytes := [45].
Definition opt_arg (a : bytes) : option bytes := match a with [] => None | _ => Some a end.
Definition fmt_opt (o : option bytes) : bytes := match o with Some s => s | None => dash end.
Definition fmt_triple (t : option bytes * option bytes * option bytes) : bytes :=
  match t with (l, s0, r) => language_text l ++ sp ++ fmt_opt s0 ++ sp ++ fmt_opt r end.
Definition fmt_otriple (o : option (option bytes * option bytes * option bytes)) : bytes :=
  match o with None => bs "NONE" | Some t => bs "SOME " ++ fmt_triple t end.
Definition fmt_res_plain {A} (f : A -> bytes) (r : res A) : bytes :=
  match r with Ok a => f a | Err e => fmt_err e | Panic _ => bs "PANIC" | OutOfFuel => bs "FUEL" end.
Definition arg_n (k : nat) (args : list bytes) : bytes := nth k args [].
Definition fmt_dir (d : dir) : bytes := match d with LTR => bs "LTR" | RTL => bs "RTL" | TTB => bs "TTB" end.
Definition fmt_bool (b : bool) : bytes := if b then bs "true" else bs "false".

(* decimal text -> nat index *)
Fixpoint dec_nat (s : bytes) (acc : nat) : nat :=
  match s with [] => acc | c :: r => dec_nat r (10 * acc + N.to_nat (c - 48)) end.

Definition fmt_oN (o : option N) : bytes := match o with Some x => hex x | None => dash end.
Definition fmt_tval (v : tval) : bytes :=
  match v with (a, b, c) => fmt_oN a ++ sp ++ fmt_oN b ++ sp ++ fmt_oN c end.
Definition fmt_row1 (r : option (N * tval)) : bytes :=
  match r with Some (k, v) => hex k ++ sp ++ fmt_tval v | None => bs "NOROW" end.
Definition fmt_row2 (r : option (N * N * tval)) : bytes :=
  match r with Some (k1, k2, v) => hex k1 ++ sp ++ hex k2 ++ sp ++ fmt_tval v | None => bs "NOROW" end.
Definition fmt_rowN (r : option N) : bytes := match r with Some k => hex k | None => bs "NOROW" end.
Definition nat_hex (n : nat) : bytes := hex (N.of_nat n).

Definition model_table_row (name : bytes) (i : nat) : bytes :=
  if beqb name (bs "LANG_ONLY") then fmt_row1 (nth_error (t_lang_only the_tables) i)
  else if beqb name (bs "LANG_REGION") then fmt_row2 (nth_error (t_lang_region the_tables) i)
  else if beqb name (bs "LANG_SCRIPT") then fmt_row2 (nth_error (t_lang_script the_tables) i)
  else if beqb name (bs "SCRIPT_REGION") then fmt_row2 (nth_error (t_script_region the_tables) i)
  else if beqb name (bs "SCRIPT_ONLY") then fmt_row1 (nth_error (t_script_only the_tables) i)
  else if beqb name (bs "REGION_ONLY") then fmt_row1 (nth_error (t_region_only the_tables) i)
  else if beqb name (bs "SCRIPTS_LTR") then fmt_rowN (nth_error (ly_ltr the_layout) i)
  else if beqb name (bs "SCRIPTS_RTL") then fmt_rowN (nth_error (ly_rtl the_layout) i)
  else if beqb name (bs "SCRIPTS_TTB") then fmt_rowN (nth_error (ly_ttb the_layout) i)
  else if beqb name (bs "LANGS_RTL") then fmt_rowN (nth_error (ly_lang_rtl the_layout) i)
  else bs "NOTABLE".
Definition model_table_len (name : bytes) : bytes :=
  if beqb name (bs "LANG_ONLY") then nat_hex (List.length (t_lang_only the_tables))
  else if beqb name (bs "LANG_REGION") then nat_hex (List.length (t_lang_region the_tables))
  else if beqb name (bs "LANG_SCRIPT") then nat_hex (List.length (t_lang_script the_tables))
  else if beqb name (bs "SCRIPT_REGION") then nat_hex (List.length (t_script_region the_tables))
  else if beqb name (bs "SCRIPT_ONLY") then nat_hex (List.length (t_script_only the_tables))
  else if beqb name (bs "REGION_ONLY") then nat_hex (List.length (t_region_only the_tables))
  else if beqb name (bs "SCRIPTS_LTR") then nat_hex (List.length (ly_ltr the_layout))
  else if beqb name (bs "SCRIPTS_RTL") then nat_hex (List.length (ly_rtl the_layout))
  else if beqb name (bs "SCRIPTS_TTB") then nat_hex (List.length (ly_ttb the_layout))
  else if beqb name (bs "LANGS_RTL") then nat_hex (List.length (ly_lang_rtl the_layout))
  else bs "NOTABLE".

Definition model_direction (likely : bool) (a : bytes) : bytes :=
  match langid_from_bytes a with
  | Ok x => fmt_res_plain fmt_dir (direction likely the_layout the_tables x)
  | _ => bs "BADARG"
  end.

Definition fmt_li_change (r : res (bool * langid)) : bytes :=
  fmt_res_plain (fun p => fmt_bool (fst p) ++ sp ++ li_to_string (snd p)) r.

Definition oracle_model_likely (op : bytes) (args : list bytes) : option bytes :=
  let l := opt_arg (arg_n 0 args) in
  let s0 := opt_arg (arg_n 1 args) in
  let r := opt_arg (arg_n 2 args) in
  if beqb op (bs "maximize") then Some (fmt_res_plain fmt_otriple (maximize the_tables l s0 r))
  else if beqb op (bs "minimize") then Some (fmt_res_plain fmt_otriple (minimize the_tables l s0 r))
  else if beqb op (bs "li_maximize") then
    Some (match langid_from_bytes (arg1 args) with Ok x => fmt_li_change (li_maximize the_tables x) | _ => bs "BADARG" end)
  else if beqb op (bs "li_minimize") then
    Some (match langid_from_bytes (arg1 args) with Ok x => fmt_li_change (li_minimize the_tables x) | _ => bs "BADARG" end)
  else if beqb op (bs "direction_likely") then Some (model_direction true (arg1 args))
  else if beqb op (bs "direction_plain") then Some (model_direction false (arg1 args))
  else if beqb op (bs "table_row") then Some (model_table_row (arg_n 0 args) (dec_nat (arg_n 1 args) 0))
  else if beqb op (bs "table_len") then Some (model_table_len (arg1 args))
  else if beqb op (bs "cldr_version") then Some (bs Tables.cldr_version)
  else None.

(* ---- spec side (independent of tables.rs: dictionary from likelySubtags.json, layout files) ---- *)
Definition spec_max_ok (l s0 r : option bytes) (impl : bytes) : bool :=
  beqb impl (fmt_otriple (spec_maximize the_dict l s0 r))
  || (match spec_maximize the_dict l s0 r with
      | None => negb (s_is_some l && s_is_some s0 && s_is_some r)
                && existsb (fun f => beqb impl (fmt_otriple f)) (spec_fallbacks the_dict l s0 r)
      | Some _ => false end).
(* a maximize call whose strict answer is "no entry" while a UTS #35 fallback exists *)
Definition ambiguous (l s0 r : option bytes) : bool :=
  negb (s_is_some l && s_is_some s0 && s_is_some r)
  && match spec_maximize the_dict l s0 r with None => negb (match spec_fallbacks the_dict l s0 r with [] => true | _ => false end) | Some _ => false end.
Definition spec_min_ok (l s0 r : option bytes) (impl : bytes) : bool :=
  let mx := if s_is_some l && s_is_some s0 && s_is_some r then Some (l, s0, r) else spec_maximize the_dict l s0 r in
  ambiguous l s0 r
  || match mx with
     | Some (ml, ms, mr) => ambiguous ml None None || ambiguous ml None mr || ambiguous ml ms None
     | None => false end
  || beqb impl (fmt_otriple (spec_minimize the_dict l s0 r)).

(* CLDR's direction for an identifier that (ignoring variants) is one of the layout locales *)
Fixpoint cldr_dir_of (x : langid) (es : list (langid * dir)) : option dir :=
  match es with
  | [] => None
  | (y, d) :: r =>
    if obeqb (li_lang x) (li_lang y) && obeqb (li_script x) (li_script y) && obeqb (li_region x) (li_region y)
    then Some d else cldr_dir_of x r
  end.
Definition spec_dir_ok (likely : bool) (a impl : bytes) : bool :=
  match langid_from_bytes a with
  | Ok x =>
    let by_script := match li_script x with Some sc => spec_script_dir the_lay sc | None => None end in
    match by_script with
    | Some d => beqb impl (fmt_dir d)                      (* a listed script decides on its own *)
    | None =>
      let never_rtl := match li_lang x with None => true | Some l => negb (spec_lang_rtl the_lay l) end in
      if never_rtl then beqb impl (bs "LTR")
      else
        match cldr_dir_of x the_lay with
        | Some d =>
          if likely then beqb impl (fmt_dir d)
          else beqb impl (fmt_dir d)
               || (is_none (li_script x) && match li_lang x with Some l => spec_lang_multi the_lay l | None => false end)
        | None => true                                     (* the property does not fix this answer *)
        end
    end
  | _ => true
  end.

Definition oracle_spec_likely (op : bytes) (args : list bytes) (impl : bytes) : option bool :=
  let l := opt_arg (arg_n 0 args) in
  let s0 := opt_arg (arg_n 1 args) in
  let r := opt_arg (arg_n 2 args) in
  if beqb op (bs "maximize") then Some (spec_max_ok l s0 r impl)
  else if beqb op (bs "minimize") then Some (spec_min_ok l s0 r impl)
  else if beqb op (bs "direction_likely") then Some (spec_dir_ok true (arg1 args) impl)
  else if beqb op (bs "direction_plain") then Some (spec_dir_ok false (arg1 args) impl)
  else if beqb op (bs "cldr_version") then Some (beqb impl (bs CldrLikely.cldr_json_version))
  else None.

(* ================================================================== language identifiers *)
From UL Require Import LangIdSpec Canonical.

Definition comma : bytes := [44].
Fixpoint join_with (sep : bytes) (l : list bytes) : bytes :=
  match l with [] => [] | [x] => x | x :: r => x ++ sep ++ join_with sep r end.
Definition fmt_variants (o : option (list bytes)) : bytes :=
  match o with None => bs "none" | Some l => bs "[" ++ join_with comma l ++ bs "]" end.
Definition fmt_langid (x : langid) : bytes :=
  language_text (li_lang x) ++ sp ++ fmt_opt (li_script x) ++ sp ++ fmt_opt (li_region x) ++ sp
  ++ fmt_variants (li_variants x) ++ sp ++ li_to_string x.
Definition fmt_cmp (c : comparison) : bytes := match c with Lt => bs "Less" | Eq => bs "Equal" | Gt => bs "Greater" end.
Definition flag (a : bytes) : bool := beqb a (bs "1").

(* args: lang script region v1 .. vn, each already a valid subtag text in any case ("" = absent) *)
Definition parts_of_args (args : list bytes) : option (option bytes * option bytes * option bytes * list bytes) :=
  match args with
  | l :: s0 :: r :: vs =>
    let lo := match l with [] => Some None | _ => match language_from_bytes l with Ok x => Some x | _ => None end end in
    let so := match s0 with [] => Some None | _ => match script_from_bytes s0 with Ok x => Some (Some x) | _ => None end end in
    let ro := match r with [] => Some None | _ => match region_from_bytes r with Ok x => Some (Some x) | _ => None end end in
    let vo := fold_right (fun v acc => match acc, variant_from_bytes v with Some a, Ok x => Some (x :: a) | _, _ => None end) (Some []) vs in
    match lo, so, ro, vo with
    | Some a, Some b, Some c, Some d => Some (a, b, c, d)
    | _, _, _, _ => None
    end
  | _ => None
  end.

Definition model_li_roundtrip (a : bytes) : bytes :=
  match langid_from_bytes a with
  | Ok x => match langid_from_bytes (li_to_string x) with
            | Ok y => if li_eqb x y then bs "OK same" else bs "DIFF"
            | _ => bs "REPARSE-ERR"
            end
  | Err e => fmt_err e
  | _ => bs "PANIC"
  end.

Definition oracle_model_langid (op : bytes) (args : list bytes) : option bytes :=
  let a := arg1 args in
  if beqb op (bs "langid") then Some (fmt_res fmt_langid (langid_from_bytes a))
  else if beqb op (bs "li_canonicalize") then Some (fmt_res (fun x => x) (li_canonicalize a))
  else if beqb op (bs "li_roundtrip") then Some (model_li_roundtrip a)
  else if beqb op (bs "li_from_parts") then
    Some (match parts_of_args args with
          | Some (l, s0, r, vs) =>
            let x := li_from_parts l s0 r vs in
            (* from_parts equals parsing the joined string *)
            let y := langid_from_bytes (join (language_text l :: opt_tok s0 ++ opt_tok r ++ vs)) in
            fmt_langid x ++ sp ++ (match y with Ok y' => if li_eqb x y' then bs "eqparse" else bs "NEparse" | _ => bs "NOparse" end)
          | None => bs "BADARG" end)
  else if beqb op (bs "li_into_parts") then
    Some (match langid_from_bytes a with
          | Ok x => match li_into_parts x with (l, s0, r, vs) =>
                      if li_eqb (li_from_parts l s0 r vs) x then bs "OK same" else bs "DIFF" end
          | _ => bs "BADARG" end)
  else if beqb op (bs "li_matches") then
    Some (match langid_from_bytes (arg_n 0 args), langid_from_bytes (arg_n 1 args) with
          | Ok x, Ok y => fmt_bool (li_matches x y (flag (arg_n 2 args)) (flag (arg_n 3 args)))
          | _, _ => bs "BADARG" end)
  else if beqb op (bs "lang_matches") then
    Some (match language_try_from (opt_arg (arg_n 0 args)), language_try_from (opt_arg (arg_n 1 args)) with
          | Ok x, Ok y => fmt_bool (lang_matches x y (flag (arg_n 2 args)) (flag (arg_n 3 args)))
          | _, _ => bs "BADARG" end)
  else if beqb op (bs "li_cmp") then
    Some (match langid_from_bytes (arg_n 0 args), langid_from_bytes (arg_n 1 args) with
          | Ok x, Ok y => fmt_cmp (li_cmp x y) ++ sp ++ fmt_bool (li_eqb x y) ++ sp ++ fmt_bool (beqb (li_to_string x) (li_to_string y))
          | _, _ => bs "BADARG" end)
  else if beqb op (bs "li_eq_str") then
    Some (match langid_from_bytes (arg_n 0 args) with
          | Ok x => fmt_bool (beqb (li_to_string x) (arg_n 1 args))
          | _ => bs "BADARG" end)
  else None.

(* --- spec side --- *)
Definition spec_li_matches (x y : langid) (ra rb : bool) : bool :=
  let fld (a b : option bytes) := obeqb a b || (ra && is_none a) || (rb && is_none b) in
  let vempty (o : option (list bytes)) := match o with None => true | Some [] => true | _ => false end in
  fld (li_lang x) (li_lang y) && fld (li_script x) (li_script y) && fld (li_region x) (li_region y)
  && (olbeqb (li_variants x) (li_variants y) || (ra && vempty (li_variants x)) || (rb && vempty (li_variants y))).

Definition oracle_spec_langid (op : bytes) (args : list bytes) (impl : bytes) : option bool :=
  let a := arg1 args in
  if beqb op (bs "langid") then
    Some (match spec_langid (split a) with
          | Some v => beqb impl (bs "OK " ++ fmt_langid v)
          | None => beqb impl (fmt_err (spec_langid_err (split a))) end)
  else if beqb op (bs "li_canonicalize") then
    Some (match spec_langid (split a) with
          | Some v => beqb impl (bs "OK " ++ li_to_string v)
                      && canon_langid_text (li_to_string v) && (List.length (li_to_string v) <=? List.length a)%nat
          | None => beqb impl (fmt_err (spec_langid_err (split a))) end)
  else if beqb op (bs "li_roundtrip") then
    Some (match spec_langid (split a) with
          | Some _ => beqb impl (bs "OK same")
          | None => beqb impl (fmt_err (spec_langid_err (split a))) end)
  else if beqb op (bs "li_into_parts") then
    Some (match spec_langid (split a) with Some _ => beqb impl (bs "OK same") | None => true end)
  else if beqb op (bs "li_matches") then
    Some (match spec_langid (split (arg_n 0 args)), spec_langid (split (arg_n 1 args)) with
          | Some x, Some y => beqb impl (fmt_bool (spec_li_matches x y (flag (arg_n 2 args)) (flag (arg_n 3 args))))
          | _, _ => true end)
  else if beqb op (bs "li_cmp") then
    Some (match spec_langid (split (arg_n 0 args)), spec_langid (split (arg_n 1 args)) with
          | Some x, Some y =>
            let same := beqb (li_to_string x) (li_to_string y) in
            (* == iff equal canonical strings; Equal iff ==; the order is the field-wise one *)
            beqb impl (fmt_cmp (li_cmp x y) ++ sp ++ fmt_bool same ++ sp ++ fmt_bool same)
            && Bool.eqb same (match li_cmp x y with Eq => true | _ => false end)
          | _, _ => true end)
  else if beqb op (bs "li_eq_str") then
    Some (match spec_langid (split (arg_n 0 args)) with
          | Some x => beqb impl (fmt_bool (beqb (li_to_string x) (arg_n 1 args)))
          | None => true end)
  else None.

(* ------------------------------------------------------------------ top level *)
Definition oracle_model (op : bytes) (args : list bytes) : bytes :=
  match oracle_model_subtags op args with Some r => r | None =>
  match oracle_model_likely op args with Some r => r | None =>
  match oracle_model_langid op args with Some r => r | None =>
  bs "UNKNOWN-OP" end end end.

(* None = no specification attached to this operation (only the model is compared) *)
Definition oracle_spec (op : bytes) (args : list bytes) (impl : bytes) : option bool :=
  match oracle_spec_subtags op args impl with Some r => Some r | None =>
  match oracle_spec_likely op args impl with Some r => Some r | None =>
  match oracle_spec_langid op args impl with Some r => Some r | None =>
  None end end end.
