(* Extract.v — extraction of the oracle.  Directives: ExtrOcamlBasic only
   (bool, option, unit, list, prod, sumbool, sumor -> OCaml natives).  N / positive / nat /
   comparison / string / ascii remain extracted inductives; no Extract Constant.
   Compiled by ./check inside _build/oracle (8.16 writes the .ml/.mli to the cwd). *)
From UL Require Import Oracle.
Require Import ExtrOcamlBasic.
Extraction Language OCaml.
Extraction "oracle.ml" oracle_model oracle_spec.
