(* C14 — character_direction agrees with the CLDR layout data. *)
From UL Require Import Bytes Subtags LangId Likely Inst LayoutSpec PackProofs TablesData LayoutData LikelyProofs DirectionProofs.
From Coq Require Import String.

(* with likely-subtags support: equal to CLDR's characterOrder on every locale of the layout data
   (all 710, evaluated in the kernel) *)
Theorem C14_all_locales_likely : all_locales_likely = true.
Proof. exact lay_all_likely. Qed.
(* without: differences only for script-less identifiers of languages CLDR lists with > 1 direction *)
Theorem C14_all_locales_unlikely : all_locales_unlikely = true.
Proof. exact lay_all_unlikely. Qed.
Theorem C14_scripts_single_direction : scripts_single_dir = true.
Proof. exact lay_single_dir. Qed.

(* every identifier, both configurations: a script CLDR lists decides on its own *)
Theorem C14_script_decides : forall likely x sc d,
  li_script x = Some sc -> small sc = true -> spec_script_dir the_lay sc = Some d ->
  direction likely the_layout the_tables x = Ok d.
Proof. exact script_decides. Qed.
(* script absent/unlisted and language never right-to-left in CLDR: left-to-right *)
Theorem C14_default_ltr : forall likely x,
  match li_script x with Some sc => small sc = true /\ spec_script_dir the_lay sc = None | None => True end ->
  match li_lang x with Some l => small l = true /\ spec_lang_rtl the_lay l = false | None => True end ->
  direction likely the_layout the_tables x = Ok LTR.
Proof. exact default_ltr. Qed.
Theorem C14_variants_irrelevant : forall likely l s r v1 v2,
  direction likely the_layout the_tables (mkLangId l s r v1) = direction likely the_layout the_tables (mkLangId l s r v2).
Proof. exact variants_irrelevant. Qed.
(* total: never a panic (the likely-subtags lookup inside is total on well-formed input) *)
Theorem C14_total : forall likely x,
  wf_triple (li_lang x) None (li_region x) = true -> exists d, direction likely the_layout the_tables x = Ok d.
Proof. exact direction_total. Qed.

(* what else can and cannot matter (any layout, any tables): without likely-subtags the region never does;
   with it the region can matter only for a language the layout data lists as right-to-left (the one place
   where the likely script is consulted) *)
Theorem C14_region_irrelevant_without_likely : forall L T l s r r' v v',
  direction false L T (mkLangId l s r v) = direction false L T (mkLangId l s r' v').
Proof. reflexivity. Qed.
Theorem C14_region_matters_only_for_rtl_languages : forall L T l s r r' v,
  direction true L T (mkLangId l s r v) = direction true L T (mkLangId l s r' v)
  \/ exists lb, l = Some lb /\ nmem (le_pack lb) (ly_lang_rtl L) = true.
Proof.
  intros L T l s r r' v.
  assert (B : direction_by_lang true L T (mkLangId l s r v) = direction_by_lang true L T (mkLangId l s r' v)
              \/ exists lb, l = Some lb /\ nmem (le_pack lb) (ly_lang_rtl L) = true).
  { unfold direction_by_lang. cbn [li_lang li_region]. destruct l as [lb|]; [|left; reflexivity].
    destruct (nmem (le_pack lb) (ly_lang_rtl L)) eqn:E; [right; exists lb; split; [reflexivity|exact E]|left; reflexivity]. }
  destruct B as [B|B]; [left|right; exact B].
  unfold direction. cbn [li_script]. destruct s as [sc|]; [cbn zeta; rewrite B; reflexivity|exact B].
Qed.
Print Assumptions C14_region_irrelevant_without_likely.
Print Assumptions C14_region_matters_only_for_rtl_languages.

Example C14_ex : spec_script_dir the_lay (bs "Arab"%string) = Some RTL /\ spec_lang_rtl the_lay (bs "en"%string) = false
  /\ spec_lang_multi the_lay (bs "az"%string) = true.
Proof. repeat split; vm_compute; reflexivity. Qed.

Print Assumptions C14_all_locales_likely.
Print Assumptions C14_all_locales_unlikely.
Print Assumptions C14_scripts_single_direction.
Print Assumptions C14_script_decides.
Print Assumptions C14_default_ltr.
Print Assumptions C14_variants_irrelevant.
Print Assumptions C14_total.

(* character_direction answers from its argument and the generated tables alone (no memo, no cache: gen/StateSites.v) *)
From UL Require StateSitesProofs.
Theorem C14_library_stateless : StateSitesProofs.library_stateless = true.
Proof. exact StateSitesProofs.stateless. Qed.
Print Assumptions C14_library_stateless.
