(* C15 — each subtag type accepts exactly its UTS #35 production and normalises case.
   ONLY pinned statements; proofs are `exact <lemma>`. *)
From UL Require Import Bytes Subtags Grammar BytesProofs SubtagProofs.
From Coq Require Import String.

(* exact characterisation: Ok with the normalised text iff the production matches, else the
   documented error; in particular never Panic / OutOfFuel (C01 for these entry points). *)
Theorem C15_language_exact : forall s : bytes,
  language_from_bytes s = if lang_tok s then Ok (spec_language_value s) else Err InvalidLanguage.
Proof. exact language_spec. Qed.
Theorem C15_script_exact : forall s : bytes,
  script_from_bytes s = if script_tok s then Ok (title s) else Err InvalidSubtag.
Proof. exact script_spec. Qed.
Theorem C15_region_exact : forall s : bytes,
  region_from_bytes s = if region_tok s then Ok (spec_region_value s) else Err InvalidSubtag.
Proof. exact region_spec. Qed.
Theorem C15_variant_exact : forall s : bytes,
  variant_from_bytes s = if variant_tok s then Ok (lower s) else Err InvalidSubtag.
Proof. exact variant_spec. Qed.

(* stored text has the documented case *)
Theorem C15_language_lowercase : forall s, forallb is_alpha s = true -> forallb is_lower (lower s) = true.
Proof. exact lower_alpha_shape. Qed.
Theorem C15_script_titlecase : forall s, s <> [] -> forallb is_alpha s = true -> title_shape (title s) = true.
Proof. exact title_alpha_shape. Qed.
Theorem C15_region_uppercase : forall s, forallb is_alpha s = true -> forallb is_upper (upper s) = true.
Proof. exact upper_alpha_shape. Qed.
Theorem C15_variant_lowercase : forall s, forallb is_alnum s = true -> forallb is_lower_or_digit (lower s) = true.
Proof. exact lower_alnum_shape. Qed.

(* `und` is the empty language; as_str/Display expose exactly the lower-cased input *)
Theorem C15_language_text : forall s, lang_tok s = true -> language_text (spec_language_value s) = lower s.
Proof. exact language_text_spec. Qed.
Theorem C15_und_is_empty : language_from_bytes und = Ok None /\ language_try_from None = Ok None
                           /\ language_text None = und.
Proof. repeat split. Qed.

(* non-vacuity *)
Example C15_ex_lang : lang_tok (bs "eN"%string) = true /\ language_from_bytes (bs "eN"%string) = Ok (Some (bs "en"%string)).
Proof. split; reflexivity. Qed.
Example C15_ex_variant4 : variant_from_bytes (bs "1aB9"%string) = Ok (bs "1ab9"%string) /\ variant_from_bytes (bs "abcd"%string) = Err InvalidSubtag.
Proof. split; reflexivity. Qed.

(* the executable specification that judges the implementation in the correspondence run is a corollary of the
   theorems above: for every operation of the subtag suite and every argument the MODEL's answer passes it *)
From UL Require Oracle OracleSound.
Theorem C15_oracle_spec_sound : forall op args r,
  Oracle.oracle_model_subtags op args = Some r -> OracleSound.passes (Oracle.oracle_spec_subtags op args r).
Proof. exact OracleSound.subtags_sound. Qed.

Print Assumptions C15_language_exact.
Print Assumptions C15_script_exact.
Print Assumptions C15_region_exact.
Print Assumptions C15_variant_exact.
Print Assumptions C15_language_lowercase.
Print Assumptions C15_script_titlecase.
Print Assumptions C15_region_uppercase.
Print Assumptions C15_variant_lowercase.
Print Assumptions C15_language_text.
Print Assumptions C15_und_is_empty.
Print Assumptions C15_oracle_spec_sound.
