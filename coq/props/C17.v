(* C17 — decomposition and raw-representation round trips. *)
From UL Require Import Bytes Subtags LangId Ext Grammar LangIdSpec LocaleInv PackProofs LangIdProofs LangIdAlgebra RoundTrip StringLevel.
From Coq Require Import String.

Theorem C17_parts_langid : forall x, li_inv x = true ->
  match li_into_parts x with (l, s, r, vs) => li_from_parts l s r vs end = x.
Proof. exact from_parts_into_parts. Qed.
(* from_parts depends only on the SET of variants: any order, duplicates allowed *)
Theorem C17_from_parts_any_order : forall l s r vs vs',
  (forall y, In y vs <-> In y vs') -> li_from_parts l s r vs = li_from_parts l s r vs'.
Proof. exact from_parts_any_order. Qed.
(* integer form and back through the unchecked constructor: the text is intact *)
Theorem C17_raw_roundtrip : forall n s, small s = true -> (List.length s <= n)%nat -> from_raw n (le_pack s) = s.
Proof. exact from_raw_pack. Qed.
(* distinct subtags have distinct integer forms *)
Theorem C17_raw_injective : forall a b, small a = true -> small b = true -> le_pack a = le_pack b -> a = b.
Proof. exact le_pack_inj. Qed.
(* the integer fits its width: no u32 / u64 overflow *)
Theorem C17_raw_bound : forall s, small s = true -> (le_pack s < 256 ^ N.of_nat (List.length s))%N.
Proof. exact le_pack_bound. Qed.
(* every string a TinyAsciiStr can hold satisfies the hypotheses *)
Theorem C17_tiny_small : forall n s, tiny_ok n s = true -> small s = true /\ (List.length s <= n)%nat.
Proof. exact tiny_small. Qed.

Example C17_ex : le_pack (bs "Latn"%string) = 1853120844%N /\ from_raw 4 1853120844 = bs "Latn"%string.
Proof. split; vm_compute; reflexivity. Qed.

(* Locale: into_parts hands out the extension STRING; re-parsed as an ExtensionsMap and passed to
   from_parts it rebuilds the locale *)
Theorem C17_parts_locale : forall x, loc_inv x = true ->
  match loc_into_parts x with
  | ((l, s, r, vs), ext) =>
    match extmap_from_bytes ext with
    | Ok e => loc_from_parts l s r vs (Some e) = x
    | _ => False
    end
  end.
Proof.
  intros x H. unfold loc_inv in H. apply andb_true_iff in H as [Hi He].
  unfold loc_into_parts. pose proof (from_parts_into_parts (loc_id x) Hi) as P.
  destruct (li_into_parts (loc_id x)) as [[[l s] r] vs]. rewrite (extmap_roundtrip _ He).
  unfold loc_from_parts. rewrite P. destruct x; reflexivity.
Qed.

(* from_parts equals PARSING THE JOINED STRING: for canonical subtags (what the subtag parsers produce,
   C05_*_reach) given in any order and with duplicates, with '-' or any mixture of '-' and '_' *)
Theorem C17_from_parts_is_parse : forall l sc rg vs,
  canon_lang l = true -> opt_all canon_script sc = true -> opt_all canon_region rg = true -> forallb canon_variant vs = true ->
  langid_from_bytes (join (language_text l :: opt_tok sc ++ opt_tok rg ++ vs)) = Ok (li_from_parts l sc rg vs).
Proof. exact from_parts_is_parse. Qed.
Theorem C17_from_parts_is_parse_any_sep : forall l sc rg vs seps,
  canon_lang l = true -> opt_all canon_script sc = true -> opt_all canon_region rg = true -> forallb canon_variant vs = true ->
  forallb is_sep seps = true ->
  langid_from_bytes (weave (language_text l :: opt_tok sc ++ opt_tok rg ++ vs) seps) = Ok (li_from_parts l sc rg vs).
Proof. exact from_parts_is_parse_any_sep. Qed.
Example C17_from_parts_ex :
  li_from_parts (Some (bs "ca")) None (Some (bs "ES")) [bs "valencia"; bs "1996"; bs "valencia"]%string
  = mkLangId (Some (bs "ca")) None (Some (bs "ES")) (Some [bs "1996"; bs "valencia"])%string
  /\ forallb canon_variant [bs "valencia"; bs "1996"; bs "valencia"]%string = true.
Proof. split; vm_compute; reflexivity. Qed.
Print Assumptions C17_from_parts_is_parse.
Print Assumptions C17_from_parts_is_parse_any_sep.

Print Assumptions C17_parts_locale.
Print Assumptions C17_parts_langid.
Print Assumptions C17_from_parts_any_order.
Print Assumptions C17_raw_roundtrip.
Print Assumptions C17_raw_injective.
Print Assumptions C17_raw_bound.
Print Assumptions C17_tiny_small.
