(* C12 — equality, ordering and hashing agree with the canonical string (LanguageIdentifier level;
   derived PartialEq/Ord/Hash are modelled structurally: a derived hash is a function of the
   structural value, so equal values hash equally by construction). *)
From UL Require Import Bytes Subtags LangId Ext LocaleOrd Grammar LangIdSpec LocaleInv LangIdProofs LangIdAlgebra RoundTrip LocaleAlgebra.

Theorem C12_eqb_is_eq : forall x y, li_eqb x y = true <-> x = y.
Proof. exact li_eqb_iff. Qed.
Theorem C12_eq_iff_string : forall x y, li_inv x = true -> li_inv y = true ->
  (li_eqb x y = true <-> li_to_string x = li_to_string y).
Proof. exact li_eq_iff_string. Qed.
Theorem C12_cmp_eq : forall x y, li_cmp x y = Eq <-> x = y.
Proof. exact li_cmp_eq. Qed.
Theorem C12_cmp_antisym : forall x y, li_cmp y x = CompOpp (li_cmp x y).
Proof. exact li_cmp_antisym. Qed.
Theorem C12_cmp_trans : forall x y z, li_cmp x y = Lt -> li_cmp y z = Lt -> li_cmp x z = Lt.
Proof. exact li_cmp_lt_trans. Qed.
(* field by field, an absent subtag first *)
Theorem C12_cmp_fields : forall x y,
  li_cmp x y = then_cmp (ocmp bcmp (li_lang x) (li_lang y))
              (then_cmp (ocmp bcmp (li_script x) (li_script y))
              (then_cmp (ocmp bcmp (li_region x) (li_region y))
                        (ocmp lcmp (li_variants x) (li_variants y))))
  /\ (forall a : bytes, ocmp bcmp None (Some a) = Lt).
Proof. intros x y. split; reflexivity. Qed.
(* one representation per logical value: a parsed / built value never holds Some [] *)
Theorem C12_single_repr : forall x, li_inv x = true -> li_variants x <> Some [].
Proof. intros [l s r [[|v vs]|]] H; try discriminate. unfold li_inv in H. cbn in H. rewrite !andb_false_r in H. discriminate. Qed.

(* Locale: the printer is injective on the invariant, so equal canonical strings mean equal values
   (derived == is structural equality) *)
Theorem C12_locale_string_inj : forall x y, loc_inv x = true -> loc_inv y = true ->
  loc_to_string x = loc_to_string y -> x = y.
Proof.
  intros x y Hx Hy E. pose proof (locale_roundtrip x Hx) as Rx. pose proof (locale_roundtrip y Hy) as Ry.
  rewrite E in Rx. congruence.
Qed.

(* ---- the same at Locale level (derived impls on Locale / ExtensionsMap / the three extension lists,
   model/LocaleOrd.v: fields in declaration order, a BTreeMap as the sequence of its pairs) ---- *)
Theorem C12_locale_eqb_is_eq : forall x y, loc_eqb x y = true <-> x = y.
Proof. exact loc_eqb_iff. Qed.
Theorem C12_locale_eq_iff_string : forall x y, loc_inv x = true -> loc_inv y = true ->
  (loc_eqb x y = true <-> loc_to_string x = loc_to_string y).
Proof. exact loc_eq_iff_string. Qed.
Theorem C12_locale_cmp_eq : forall x y, loc_cmp x y = Eq <-> x = y.
Proof. exact loc_cmp_eq. Qed.
Theorem C12_locale_cmp_antisym : forall x y, loc_cmp y x = CompOpp (loc_cmp x y).
Proof. exact loc_cmp_antisym. Qed.
Theorem C12_locale_cmp_trans : forall x y z, loc_cmp x y = Lt -> loc_cmp y z = Lt -> loc_cmp x z = Lt.
Proof. exact loc_cmp_lt_trans. Qed.
(* the language identifier is compared first, field by field as in C12_cmp_fields *)
Theorem C12_locale_cmp_id_first : forall x y, li_cmp (loc_id x) (loc_id y) <> Eq -> loc_cmp x y = li_cmp (loc_id x) (loc_id y).
Proof. exact loc_cmp_id_first. Qed.
(* comparing with a &str: true iff the string is the canonical text - by definition of the model
   (`beqb (li_to_string x) t`), and the canonical text determines the value (C12_eq_iff_string) *)
Theorem C12_eq_str : forall x y, li_inv x = true -> li_inv y = true ->
  (beqb (li_to_string x) (li_to_string y) = true <-> x = y).
Proof.
  intros x y Hx Hy. rewrite BytesProofs.beqb_eq. split; [apply li_to_string_inj; assumption|intros ->; reflexivity].
Qed.

Print Assumptions C12_locale_eqb_is_eq.
Print Assumptions C12_locale_eq_iff_string.
(* ExtensionsMap, the third value type with derived Eq / Ord: structural equality is Leibniz equality, the
   derived ordering is a strict total order whose Equal class is equality, and - from the proved round trip -
   two extension maps obtained through the safe API are equal iff their strings are *)
Theorem C12_extmap_eqb_is_eq : forall a b, ext_eqb a b = true <-> a = b.
Proof. exact ext_eqb_iff. Qed.
Theorem C12_extmap_cmp_eq : forall a b, ext_cmp a b = Eq <-> a = b.
Proof. exact ext_cmp_eq. Qed.
Theorem C12_extmap_cmp_antisym : forall a b, ext_cmp b a = CompOpp (ext_cmp a b).
Proof. exact ext_cmp_antisym. Qed.
Theorem C12_extmap_cmp_trans : forall a b c, ext_cmp a b = Lt -> ext_cmp b c = Lt -> ext_cmp a c = Lt.
Proof. exact ext_cmp_lt_trans. Qed.
Theorem C12_extmap_eq_iff_string : forall a b, ext_inv a = true -> ext_inv b = true ->
  (a = b <-> ext_to_string a = ext_to_string b).
Proof.
  intros a b Ha Hb. split; [intros ->; reflexivity|]. intros E.
  pose proof (extmap_roundtrip a Ha) as Ra. pose proof (extmap_roundtrip b Hb) as Rb.
  rewrite E in Ra. congruence.
Qed.
Print Assumptions C12_extmap_eqb_is_eq.
Print Assumptions C12_extmap_cmp_eq.
Print Assumptions C12_extmap_cmp_antisym.
Print Assumptions C12_extmap_cmp_trans.
Print Assumptions C12_extmap_eq_iff_string.

Print Assumptions C12_locale_cmp_eq.
Print Assumptions C12_locale_cmp_antisym.
Print Assumptions C12_locale_cmp_trans.
Print Assumptions C12_locale_cmp_id_first.
Print Assumptions C12_eq_str.
Print Assumptions C12_locale_string_inj.
Print Assumptions C12_eqb_is_eq.
Print Assumptions C12_eq_iff_string.
Print Assumptions C12_cmp_eq.
Print Assumptions C12_cmp_antisym.
Print Assumptions C12_cmp_trans.
Print Assumptions C12_cmp_fields.
Print Assumptions C12_single_repr.
