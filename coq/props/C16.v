(* C16 — compile-time macros equal run-time parsing (the logic of the expansion; rustc,
   proc-macro-hack and error spans are observed by the correspondence check, not modelled). *)
From UL Require Import Bytes Subtags LangId Ext Macros LocaleInv MacroProofs InvProofs RoundTrip.
From Coq Require Import String.

Theorem C16_lang : forall lit v, language_from_bytes lit = Ok v -> macro_lang lit = MValue v.
Proof. exact macro_lang_ok. Qed.
Theorem C16_script : forall lit v, script_from_bytes lit = Ok v -> macro_script lit = MValue v.
Proof. exact macro_script_ok. Qed.
Theorem C16_region : forall lit v, region_from_bytes lit = Ok v -> macro_region lit = MValue v.
Proof. exact macro_region_ok. Qed.
Theorem C16_variant : forall lit v, variant_from_bytes lit = Ok v -> macro_variant lit = MValue v.
Proof. exact macro_variant_ok. Qed.
Theorem C16_langid : forall lit v, langid_from_bytes lit = Ok v -> macro_langid lit = MValue v.
Proof. exact macro_langid_ok. Qed.
Theorem C16_ill_formed : forall lit, (forall v, langid_from_bytes lit <> Ok v) -> macro_langid lit = MCompileError.
Proof. exact macro_ill_formed. Qed.
(* locale!: the id part travels as integers; the extension STRING is re-parsed at run time with
   `.expect("must parse")` - it always parses, to the same extensions (C05 for ExtensionsMap) *)
Theorem C16_locale : forall lit l, locale_from_bytes lit = Ok l -> macro_locale lit = MValue l.
Proof.
  intros lit l H. unfold macro_locale. rewrite H.
  pose proof (locale_parse_inv _ _ H) as Hinv. unfold loc_inv in Hinv. apply andb_true_iff in Hinv as [Hi He].
  rewrite (extmap_roundtrip _ He), (raw_langid_id _ Hi). destruct l; reflexivity.
Qed.
Theorem C16_locale_ill_formed : forall lit, (forall l, locale_from_bytes lit <> Ok l) -> macro_locale lit = MCompileError.
Proof. intros lit H. unfold macro_locale. destruct (locale_from_bytes lit) eqn:E; try reflexivity. exfalso. exact (H _ eq_refl). Qed.

Example C16_ex : macro_lang (bs "und"%string) = MValue None
  /\ macro_locale (bs "en-u-ca-buddhist-t-h0-hybrid"%string)
     = MValue (mkLoc (mkLangId (Some (bs "en"%string)) None None None)
                     (mkE (mkU [(bs "ca"%string, [bs "buddhist"%string])] []) (mkT None [(bs "h0"%string, [bs "hybrid"%string])]) [])).
Proof. split; vm_compute; reflexivity. Qed.

(* the executable macro specifications (a well-formed literal must compile to the value the grammar assigns, an
   ill-formed one must be a compile-time error, the lenient zone may go either way, never a run-time panic) that
   judge the generated crates are corollaries of the theorems above: the MODEL's answer passes them on every literal *)
From UL Require Oracle OracleSound OracleSoundRest.
Theorem C16_oracle_spec_sound : forall op args r,
  Oracle.oracle_model_macros op args = Some r -> OracleSound.passes (Oracle.oracle_spec_macros op args r).
Proof. exact OracleSoundRest.macros_sound. Qed.

Print Assumptions C16_lang.
Print Assumptions C16_script.
Print Assumptions C16_region.
Print Assumptions C16_variant.
Print Assumptions C16_langid.
Print Assumptions C16_ill_formed.
Print Assumptions C16_locale.
Print Assumptions C16_locale_ill_formed.
Print Assumptions C16_oracle_spec_sound.
