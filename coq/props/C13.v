(* C13 — Locale is a drop-in superset of LanguageIdentifier. *)
From UL Require Import Bytes Subtags LangId Ext Grammar LangIdSpec LangIdProofs ExtProofs.
From Coq Require Import String.

(* every input LanguageIdentifier accepts: same id, no extensions *)
Theorem C13_embed : forall s v, langid_from_bytes s = Ok v -> locale_from_bytes s = Ok (mkLoc v extmap_default).
Proof. exact locale_embeds_langid. Qed.
(* ... hence the same to_string *)
Theorem C13_same_string : forall s v, langid_from_bytes s = Ok v ->
  exists l, locale_from_bytes s = Ok l /\ loc_to_string l = li_to_string v.
Proof.
  intros s v H. exists (mkLoc v extmap_default). split; [apply locale_embeds_langid; exact H|].
  unfold loc_to_string, loc_tokens, li_to_string. cbn. rewrite app_nil_r. reflexivity.
Qed.
(* for every accepted locale string the id is what LanguageIdentifier reads from the longest
   well-formed prefix (the part before the first singleton) *)
Theorem C13_prefix : forall s l, locale_from_bytes s = Ok l -> exists rem, spec_langid_prefix (split s) = Some (loc_id l, rem).
Proof. exact locale_id_is_prefix. Qed.
(* conversions: LanguageIdentifier -> Locale -> LanguageIdentifier is the identity; Locale ->
   LanguageIdentifier drops exactly the extensions *)
Theorem C13_conv_id : forall v : langid, loc_id (mkLoc v extmap_default) = v.
Proof. reflexivity. Qed.
Theorem C13_conv_drop : forall l : locale, mkLoc (loc_id l) extmap_default = mkLoc (loc_id l) extmap_default
  /\ loc_id (mkLoc (loc_id l) (loc_ext l)) = loc_id l.
Proof. intros l. split; reflexivity. Qed.

Example C13_ex : locale_from_bytes (bs "sr_cyrl-RS"%string)
  = Ok (mkLoc (mkLangId (Some (bs "sr"%string)) (Some (bs "Cyrl"%string)) (Some (bs "RS"%string)) None) extmap_default).
Proof. vm_compute. reflexivity. Qed.

Print Assumptions C13_embed.
Print Assumptions C13_same_string.
Print Assumptions C13_prefix.
Print Assumptions C13_conv_id.
Print Assumptions C13_conv_drop.
