(* C13 — Locale is a drop-in superset of LanguageIdentifier. *)
From UL Require Import Bytes Subtags LangId Ext Grammar LangIdSpec LocaleInv LangIdProofs ExtProofs InvProofs LocaleSpec LocaleSpecProofs RoundTrip Prefix PrefixProofs.
From Coq Require Import String.

(* every input LanguageIdentifier accepts: same id, no extensions *)
Theorem C13_embed : forall s v, langid_from_bytes s = Ok v -> locale_from_bytes s = Ok (mkLoc v extmap_default).
Proof. exact locale_embeds_langid. Qed.
(* ... hence the same to_string *)
Theorem C13_same_string : forall s v, langid_from_bytes s = Ok v ->
  exists l, locale_from_bytes s = Ok l /\ loc_to_string l = li_to_string v.
Proof.
  intros s v H. exists (mkLoc v extmap_default). split; [apply locale_embeds_langid; exact H|].
  unfold loc_to_string, loc_tokens, li_to_string. cbn. rewrite app_nil_r. reflexivity.
Qed.
(* for every accepted locale string the id is what LanguageIdentifier reads from the longest
   well-formed prefix (the part before the first singleton) *)
Theorem C13_prefix : forall s l, locale_from_bytes s = Ok l -> exists rem, spec_langid_prefix (split s) = Some (loc_id l, rem).
Proof. exact locale_id_is_prefix. Qed.
(* conversions: LanguageIdentifier -> Locale -> LanguageIdentifier is the identity; Locale ->
   LanguageIdentifier drops exactly the extensions *)
Theorem C13_conv_id : forall v : langid, loc_id (mkLoc v extmap_default) = v.
Proof. reflexivity. Qed.
Theorem C13_conv_drop : forall l : locale, mkLoc (loc_id l) extmap_default = mkLoc (loc_id l) extmap_default
  /\ loc_id (mkLoc (loc_id l) (loc_ext l)) = loc_id l.
Proof. intros l. split; reflexivity. Qed.

(* "drops exactly the extensions", observed on strings: for every locale value the parser can return, the
   identifier obtained by the conversion prints to a string that LanguageIdentifier reads back as that same
   identifier and that Locale reads back as that identifier with NO extension; and the locale's own printed
   token list is that identifier's token list followed by the extension tokens only *)
Theorem C13_conv_drop_reparse : forall s l, locale_from_bytes s = Ok l ->
  langid_from_bytes (li_to_string (loc_id l)) = Ok (loc_id l)
  /\ locale_from_bytes (li_to_string (loc_id l)) = Ok (mkLoc (loc_id l) extmap_default)
  /\ loc_tokens l = li_tokens (loc_id l) ++ ext_tokens (loc_ext l).
Proof.
  intros s l H. apply locale_parse_inv in H. unfold loc_inv in H. apply andb_prop in H. destruct H as [Hid _].
  pose proof (langid_roundtrip _ Hid) as Hrt.
  split; [exact Hrt|]. split; [apply locale_embeds_langid; exact Hrt|reflexivity].
Qed.
Example C13_conv_drop_ex : exists l, locale_from_bytes (bs "sr_cyrl-RS-u-ca-buddhist"%string) = Ok l
  /\ li_to_string (loc_id l) = bs "sr-Cyrl-RS"%string /\ loc_ext l <> extmap_default.
Proof. eexists. split; [vm_compute; reflexivity|]. split; [vm_compute; reflexivity|vm_compute; discriminate]. Qed.
Print Assumptions C13_conv_drop_reparse.

Example C13_ex : locale_from_bytes (bs "sr_cyrl-RS"%string)
  = Ok (mkLoc (mkLangId (Some (bs "sr"%string)) (Some (bs "Cyrl"%string)) (Some (bs "RS"%string)) None) extmap_default).
Proof. vm_compute. reflexivity. Qed.

(* the second sentence in the words of the statement: for every well-formed locale string (the MustAccept
   zone of C03: strictly well-formed, no duplicate key) the locale is accepted and its id is what
   LanguageIdentifier parses from the part BEFORE THE FIRST SINGLETON subtag (`split_single` cuts the token
   list at its first one-character token) *)
Theorem C13_before_first_singleton : forall s v,
  spec_locale_zone (split s) = MustAccept v ->
  locale_from_bytes s = Ok v /\ langid_from_bytes (join (fst (split_single (split s)))) = Ok (loc_id v).
Proof. exact locale_id_before_singleton. Qed.
(* and whenever the longest language-identifier prefix is followed by nothing or by a one-character subtag,
   that prefix IS the part before the first singleton and reads as the same id *)
Theorem C13_prefix_is_before_singleton : forall toks id rem,
  toks <> [] -> spec_langid_prefix toks = Some (id, rem) -> ext_stop rem ->
  toks = fst (split_single toks) ++ rem /\ langid_from_bytes (join (fst (split_single toks))) = Ok id.
Proof. exact prefix_before_singleton. Qed.
(* the same for EVERY accepted locale string, strict or lenient (not only the MustAccept zone), whose identifier
   part is directly followed by a singleton or by nothing *)
Theorem C13_before_first_singleton_accepted : forall s l rem,
  locale_from_bytes s = Ok l -> spec_langid_prefix (split s) = Some (loc_id l, rem) -> ext_stop rem ->
  langid_from_bytes (join (fst (split_single (split s)))) = Ok (loc_id l).
Proof. exact locale_id_before_singleton_accepted. Qed.
Print Assumptions C13_before_first_singleton_accepted.
(* in the executable form the oracle evaluates on every case (`before_single`, spec/Prefix.v) *)
Theorem C13_before_first_singleton_exec : forall s v,
  spec_locale_zone (split s) = MustAccept v ->
  locale_from_bytes s = Ok v /\ langid_from_bytes (join (before_single (split s))) = Ok (loc_id v).
Proof. exact locale_id_before_single. Qed.
Example C13_before_ex :
  fst (split_single (split (bs "sr_Cyrl-RS-u-ca-buddhist-x-a"%string))) = [bs "sr"; bs "Cyrl"; bs "RS"]%string
  /\ exists v, spec_locale_zone (split (bs "sr_Cyrl-RS-u-ca-buddhist-x-a"%string)) = MustAccept v.
Proof. split; [vm_compute; reflexivity|eexists; vm_compute; reflexivity]. Qed.
Print Assumptions C13_before_first_singleton.
Print Assumptions C13_before_first_singleton_exec.
Print Assumptions C13_prefix_is_before_singleton.

Print Assumptions C13_embed.
Print Assumptions C13_same_string.
Print Assumptions C13_prefix.
Print Assumptions C13_conv_id.
Print Assumptions C13_conv_drop.
