(* C11 — matches() implements missing-subtag-as-wildcard semantics (all pairs, all flags). *)
From UL Require Import Bytes Subtags LangId Ext LangIdAlgebra.

Theorem C11_spec : forall x y ra rb, li_matches x y ra rb = matches_spec x y ra rb.
Proof. exact li_matches_spec. Qed.
Theorem C11_eq_when_strict : forall x y, li_matches x y false false = li_eqb x y.
Proof. exact matches_eq_when_strict. Qed.
Theorem C11_symmetric : forall x y ra rb, li_matches x y ra rb = li_matches y x rb ra.
Proof. exact matches_symmetric. Qed.
Theorem C11_reflexive : forall x ra rb, li_matches x x ra rb = true.
Proof. exact matches_reflexive. Qed.
Theorem C11_monotone : forall x y ra rb ra' rb',
  (ra = true -> ra' = true) -> (rb = true -> rb' = true) ->
  li_matches x y ra rb = true -> li_matches x y ra' rb' = true.
Proof. exact matches_monotone. Qed.
(* Locale: false whenever either side has private-use subtags, otherwise the language-identifier
   result; -u- and -t- content is ignored *)
Theorem C11_locale : forall a b ra rb,
  loc_matches a b ra rb =
  match e_private (loc_ext a), e_private (loc_ext b) with
  | [], [] => li_matches (loc_id a) (loc_id b) ra rb
  | _, _ => false
  end.
Proof. reflexivity. Qed.
Theorem C11_locale_ignores_ut : forall i j u t u' t' v w ra rb,
  loc_matches (mkLoc i (mkE u t [])) (mkLoc j (mkE v w [])) ra rb
  = loc_matches (mkLoc i (mkE u' t' [])) (mkLoc j (mkE v w [])) ra rb.
Proof. reflexivity. Qed.
Theorem C11_language : forall a b ra rb,
  lang_matches a b ra rb = (obeqb a b || (ra && is_none a) || (rb && is_none b)).
Proof. intros a b ra rb. unfold lang_matches, is_none. destruct a, b, ra, rb; cbn; rewrite ?orb_true_r, ?orb_false_r; reflexivity. Qed.

(* the algebraic laws lifted to Locale.  Private use on either side forces false (so reflexivity holds
   exactly for locales without private-use subtags); symmetry and monotonicity hold for all locales *)
Theorem C11_locale_private_false : forall a b ra rb,
  e_private (loc_ext a) <> [] \/ e_private (loc_ext b) <> [] -> loc_matches a b ra rb = false.
Proof.
  intros a b ra rb H. unfold loc_matches.
  destruct (e_private (loc_ext a)) as [|p ps], (e_private (loc_ext b)) as [|q qs]; try reflexivity.
  destruct H as [H|H]; contradiction H; reflexivity.
Qed.
Theorem C11_locale_symmetric : forall a b ra rb, loc_matches a b ra rb = loc_matches b a rb ra.
Proof.
  intros a b ra rb. unfold loc_matches.
  destruct (e_private (loc_ext a)) as [|p ps], (e_private (loc_ext b)) as [|q qs]; try reflexivity.
  apply C11_symmetric.
Qed.
Theorem C11_locale_reflexive_iff : forall a ra rb,
  loc_matches a a ra rb = true <-> e_private (loc_ext a) = [].
Proof.
  intros a ra rb. unfold loc_matches. destruct (e_private (loc_ext a)) as [|p ps].
  - split; [reflexivity|intros _; apply C11_reflexive].
  - split; discriminate.
Qed.
Theorem C11_locale_monotone : forall a b ra rb ra' rb',
  (ra = true -> ra' = true) -> (rb = true -> rb' = true) ->
  loc_matches a b ra rb = true -> loc_matches a b ra' rb' = true.
Proof.
  intros a b ra rb ra' rb' Ha Hb. unfold loc_matches.
  destruct (e_private (loc_ext a)) as [|p ps], (e_private (loc_ext b)) as [|q qs]; try discriminate.
  apply C11_monotone; assumption.
Qed.
(* with both flags off and no private use it is equality of the ids, whatever -u- / -t- hold *)
Theorem C11_locale_strict : forall a b,
  e_private (loc_ext a) = [] -> e_private (loc_ext b) = [] ->
  loc_matches a b false false = li_eqb (loc_id a) (loc_id b).
Proof. intros a b Ha Hb. unfold loc_matches. rewrite Ha, Hb. apply C11_eq_when_strict. Qed.
Print Assumptions C11_locale_private_false.
Print Assumptions C11_locale_symmetric.
Print Assumptions C11_locale_reflexive_iff.
Print Assumptions C11_locale_monotone.
Print Assumptions C11_locale_strict.

Print Assumptions C11_spec.
Print Assumptions C11_eq_when_strict.
Print Assumptions C11_symmetric.
Print Assumptions C11_reflexive.
Print Assumptions C11_monotone.
Print Assumptions C11_locale.
Print Assumptions C11_locale_ignores_ut.
Print Assumptions C11_language.
