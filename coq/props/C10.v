(* C10 — mutator and getter histories behave like a plain set/map model. *)
From UL Require Import Bytes Subtags LangId Ext Likely Ops OpsProofs.

(* a call that returns an error (malformed key, value, attribute or tag) leaves the value unchanged *)
Theorem C10_error_unchanged : forall T s o s', step T s o = Some (s', OutErr) -> s' = s.
Proof. exact step_err_unchanged. Qed.
(* getters are pure *)
Theorem C10_getters_pure : forall T s o s' w,
  match o with
  | OHasVariant _ | OKeyword _ | OHasAttribute _ | OTfield _ | OHasTag _ => True
  | _ => False
  end -> step T s o = Some (s', w) -> s' = s.
Proof. exact getters_pure. Qed.

Print Assumptions C10_error_unchanged.
Print Assumptions C10_getters_pure.
