(* C10 — mutator and getter histories behave like a plain set/map model. *)
From UL Require Import Bytes Subtags LangId Ext Likely Inst Ops LocaleInv AbstractLocale OpsProofs InvProofs TablesData OpsInvProofs RefineProofs RoundTrip CanonLocale CanonLocaleProofs.
From Coq Require Import String.

(* a call that returns an error (malformed key, value, attribute or tag) leaves the value unchanged *)
Theorem C10_error_unchanged : forall T s o s', step T s o = Some (s', OutErr) -> s' = s.
Proof. exact step_err_unchanged. Qed.
(* getters are pure *)
Theorem C10_getters_pure : forall T s o s' w,
  match o with
  | OHasVariant _ | OKeyword _ | OHasAttribute _ | OTfield _ | OHasTag _ => True
  | _ => False
  end -> step T s o = Some (s', w) -> s' = s.
Proof. exact getters_pure. Qed.

(* the invariant the code silently relies on (canonical subtags, attributes strictly sorted, maps
   strictly key-sorted, tags sorted, no value `true`) holds after every step of every history ... *)
Theorem C10_inv : forall s o s' w, loc_inv s = true -> step the_tables s o = Some (s', w) -> loc_inv s' = true.
Proof. exact (step_inv the_tables data_full_extend data_wf_ints). Qed.
Theorem C10_inv_history : forall ops s steps, loc_inv s = true -> run the_tables s ops = Some steps ->
  forallb (fun p => loc_inv (fst p)) steps = true.
Proof. exact (run_inv the_tables data_full_extend data_wf_ints). Qed.
(* ... so no binary_search is ever performed on an unsorted vector: no step, no history, is unspecified *)
Theorem C10_no_unspec : forall s o, loc_inv s = true -> step the_tables s o <> None.
Proof. exact (step_no_unspec the_tables). Qed.
Theorem C10_history_defined : forall ops s, loc_inv s = true -> run the_tables s ops <> None.
Proof. exact (run_defined the_tables data_full_extend data_wf_ints). Qed.
(* histories start from default() or from any parsed value: both satisfy the invariant *)
Theorem C10_start_default : loc_inv locale_default = true.
Proof. reflexivity. Qed.
Theorem C10_start_parsed : forall s l, locale_from_bytes s = Ok l -> loc_inv l = true.
Proof. exact locale_parse_inv. Qed.

Example C10_ex : exists st, run the_tables locale_default
    [OSetAttribute (bs "foo"%string); OSetAttribute (bs "BAR"%string); OSetAttribute (bs "foo"%string); ORemoveAttribute (bs "foo"%string)]
    = Some st /\ map (fun p => u_attrs (e_unicode (loc_ext (fst p)))) st
                 = [[bs "foo"%string]; [bs "bar"%string; bs "foo"%string]; [bs "bar"%string; bs "foo"%string]; [bs "bar"%string]].
Proof. eexists. split; vm_compute; reflexivity. Qed.

(* REFINEMENT: along every history of public operations, with arbitrary (valid, boundary, invalid)
   arguments, from default() or any parsed value, the concrete machine - sorted vectors, key-sorted
   maps, binary search, insertion positions - produces exactly the outputs of the reference machine
   made of plain unordered sets, a multiset and maps (spec/AbstractLocale.v), and its state is always
   the normal form (sets sorted, maps sorted by key) of the reference state: so every getter, is_empty,
   has_*, to_string after every step is that of the reference *)
Theorem C10_refines_step : forall a o, a_ok a ->
  step the_tables (normalize a) o = Some (normalize (fst (astep the_tables a o)), snd (astep the_tables a o))
  /\ a_ok (fst (astep the_tables a o)).
Proof. exact (refine_step the_tables). Qed.
Theorem C10_refines : forall ops l, loc_inv l = true ->
  run the_tables l ops = Some (map (fun p => (normalize (fst p), snd p)) (arun the_tables (abstract l) ops)).
Proof.
  intros ops l H. destruct (normalize_abstract l H) as [E Hok]. rewrite <- E at 1. apply refine_run. exact Hok.
Qed.

(* ... hence after EVERY step of EVERY history the value re-parses from its own string to itself and prints
   canonical text (C05 / C04 on all reachable states) *)
Theorem C10_reparse_history : forall ops s steps, loc_inv s = true -> run the_tables s ops = Some steps ->
  Forall (fun p => locale_from_bytes (loc_to_string (fst p)) = Ok (fst p)
                   /\ canon_locale_strict (loc_to_string (fst p)) = true) steps.
Proof.
  intros ops s steps Hs Hr. pose proof (run_inv the_tables data_full_extend data_wf_ints ops s steps Hs Hr) as H.
  rewrite forallb_forall in H. apply Forall_forall. intros p Hp. specialize (H p Hp). split.
  - apply locale_roundtrip. exact H.
  - apply loc_to_string_canonical. exact H.
Qed.

Print Assumptions C10_refines_step.
Print Assumptions C10_refines.
Print Assumptions C10_inv.
Print Assumptions C10_reparse_history.
Print Assumptions C10_inv_history.
Print Assumptions C10_no_unspec.
Print Assumptions C10_history_defined.
Print Assumptions C10_start_default.
Print Assumptions C10_start_parsed.
Print Assumptions C10_error_unchanged.
Print Assumptions C10_getters_pure.

(* the mutators and getters of the history machine are all there are: no public function or trait impl has been added to, removed from or renamed in the four library crates since the model was written (proofs/ApiSurfaceProofs.v) *)
From UL Require ApiSurface ApiSurfaceProofs.
Theorem C10_mutators_are_the_modelled_ones : ApiSurface.api_surface = ApiSurfaceProofs.modelled_api.
Proof. exact ApiSurfaceProofs.api_surface_is_the_modelled_one. Qed.
Print Assumptions C10_mutators_are_the_modelled_ones.
