(* C05 — string round trip: parsing what was serialised gives back the same value. *)
From UL Require Import Bytes Subtags LangId Ext Grammar LangIdSpec LocaleInv LangIdProofs CanonProofs InvProofs RoundTrip.

Theorem C05_language : forall l, canon_lang l = true -> language_from_bytes (language_text l) = Ok l.
Proof. exact language_roundtrip. Qed.
Theorem C05_script : forall s, canon_script s = true -> script_from_bytes s = Ok s.
Proof. exact script_roundtrip. Qed.
Theorem C05_region : forall r, canon_region r = true -> region_from_bytes r = Ok r.
Proof. exact region_roundtrip. Qed.
Theorem C05_variant : forall v, canon_variant v = true -> variant_from_bytes v = Ok v.
Proof. exact variant_roundtrip. Qed.
(* the hypotheses are exactly what the parsers produce *)
Theorem C05_language_reach : forall s v, language_from_bytes s = Ok v -> canon_lang v = true.
Proof. exact language_value_canon. Qed.
Theorem C05_script_reach : forall s v, script_from_bytes s = Ok v -> canon_script v = true.
Proof. exact script_value_canon. Qed.
Theorem C05_region_reach : forall s v, region_from_bytes s = Ok v -> canon_region v = true.
Proof. exact region_value_canon. Qed.
Theorem C05_variant_reach : forall s v, variant_from_bytes s = Ok v -> canon_variant v = true.
Proof. exact variant_value_canon. Qed.

Theorem C05_langid : forall x, li_inv x = true -> langid_from_bytes (li_to_string x) = Ok x.
Proof. exact langid_roundtrip. Qed.
Theorem C05_langid_reach : forall s v, langid_from_bytes s = Ok v -> li_inv v = true.
Proof. exact langid_parse_inv. Qed.
Theorem C05_idempotent_langid : forall s t, li_canonicalize s = Ok t -> li_canonicalize t = Ok t.
Proof. exact li_canonicalize_idem. Qed.

(* Locale and ExtensionsMap: every value satisfying the safe-API invariant (C04_reach_*, C10_inv)
   re-parses from its own string to itself - in particular a locale with tfields AND a -u- / -x-
   extension (the shape that failed before the repair of the tfield loop) *)
Theorem C05_locale : forall l, loc_inv l = true -> locale_from_bytes (loc_to_string l) = Ok l.
Proof. exact locale_roundtrip. Qed.
Theorem C05_extmap : forall e, ext_inv e = true -> extmap_from_bytes (ext_to_string e) = Ok e.
Proof. exact extmap_roundtrip. Qed.
Theorem C05_locale_reach : forall s l, locale_from_bytes s = Ok l -> loc_inv l = true.
Proof. exact locale_parse_inv. Qed.
Theorem C05_idempotent_locale : forall s t, loc_canonicalize s = Ok t -> loc_canonicalize t = Ok t.
Proof. exact loc_canonicalize_idem. Qed.

Print Assumptions C05_locale.
Print Assumptions C05_extmap.
Print Assumptions C05_locale_reach.
Print Assumptions C05_idempotent_locale.
Print Assumptions C05_language.
Print Assumptions C05_script.
Print Assumptions C05_region.
Print Assumptions C05_variant.
Print Assumptions C05_language_reach.
Print Assumptions C05_script_reach.
Print Assumptions C05_region_reach.
Print Assumptions C05_variant_reach.
Print Assumptions C05_langid.
Print Assumptions C05_langid_reach.
Print Assumptions C05_idempotent_langid.

(* C05's view of a history transcript: every step's re-parse verdict, read back out of the model's transcript, is
   "same" (proofs/OracleSoundViews.v) *)
From UL Require Oracle OracleSoundViews.
From Coq Require Import String.
Theorem C05_history_steps_reparse : forall args,
  Oracle.starts_with (bs "BAD"%string) (Oracle.model_hist args) = false ->
  forallb (fun st => beqb (Oracle.step_reparse st) (bs "same"%string)) (Oracle.hist_steps (Oracle.model_hist args)) = true.
Proof. intros args H. exact (proj2 (OracleSoundViews.hist_views args H)). Qed.
Print Assumptions C05_history_steps_reparse.

(* the routes by which a value can be obtained (parsers, constructors, mutators, conversions) are the ones the reachability theorems speak about: the regenerated API list equals the modelled one (proofs/ApiSurfaceProofs.v) *)
From UL Require ApiSurface ApiSurfaceProofs.
Theorem C05_routes_are_the_modelled_ones : ApiSurface.api_surface = ApiSurfaceProofs.modelled_api.
Proof. exact ApiSurfaceProofs.api_surface_is_the_modelled_one. Qed.
Print Assumptions C05_routes_are_the_modelled_ones.
