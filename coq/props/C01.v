(* C01 — every text-accepting API call is total: Ok or Err, never a panic or a hang.
   In the model every Rust panic site is an explicit `Panic n` result and every loop whose recursion is
   not structural runs on explicit fuel with an `OutOfFuel` result; `total r` says r is Ok or Err. *)
From UL Require Import Bytes Subtags LangId Ext Likely Inst Grammar LangIdSpec SubtagProofs LangIdProofs ExtProofs
                       TablesData LikelyProofs LayoutData DirectionProofs Sites Ops LocaleInv OpsInvProofs OpsTotal.

Theorem C01_language : forall s, total (language_from_bytes s).
Proof. intros s. rewrite language_spec. destruct (lang_tok s); auto with tot. Qed.
Theorem C01_script : forall s, total (script_from_bytes s).
Proof. intros s. rewrite script_spec. destruct (script_tok s); auto with tot. Qed.
Theorem C01_region : forall s, total (region_from_bytes s).
Proof. intros s. rewrite region_spec. destruct (region_tok s); auto with tot. Qed.
Theorem C01_variant : forall s, total (variant_from_bytes s).
Proof. intros s. rewrite variant_spec. destruct (variant_tok s); auto with tot. Qed.
Theorem C01_langid : forall s, total (langid_from_bytes s).
Proof. exact langid_from_bytes_total. Qed.
Theorem C01_locale : forall s, total (locale_from_bytes s).
Proof. exact locale_from_bytes_total. Qed.
Theorem C01_extmap : forall s, total (extmap_from_bytes s).
Proof. exact extmap_from_bytes_total. Qed.
(* the key / value / attribute / tag arguments of the getters and setters *)
Theorem C01_parse_key : forall t, total (parse_key t).
Proof. exact parse_key_total. Qed.
Theorem C01_parse_type : forall t, total (parse_type t).
Proof. exact parse_type_total. Qed.
Theorem C01_parse_attribute : forall t, total (parse_attribute t).
Proof. exact parse_attribute_total. Qed.
Theorem C01_parse_tkey : forall t, total (parse_tkey t).
Proof. exact parse_tkey_total. Qed.
Theorem C01_parse_tvalue : forall t, total (parse_tvalue t).
Proof. exact parse_tvalue_total. Qed.
Theorem C01_parse_value : forall t, total (parse_value t).
Proof. exact parse_value_total. Qed.

(* bounded time in the model: each loop needs at most (number of subtags + 1) iterations -
   with that fuel it never runs out, and it hands back no more tokens than it was given *)
Theorem C01_fuel_t : forall fuel cur vals tf tl toks, (length toks < fuel)%nat ->
  total (t_loop fuel cur vals tf tl toks)
  /\ (forall t rem, t_loop fuel cur vals tf tl toks = Ok (t, rem) -> (length rem <= length toks)%nat).
Proof. exact t_loop_total. Qed.
Theorem C01_fuel_dispatch : forall fuel su st acc toks, (length toks < fuel)%nat -> total (dispatch fuel su st acc toks).
Proof. exact dispatch_total. Qed.

(* the getters and setters as OPERATIONS on a value (and maximize / minimize as methods): from any state that
   satisfies the safe-API invariant - default(), any parsed value, any state reached by public mutations
   (C10_inv) - no call panics, whatever key / value / attribute / tag bytes it is given; along every history *)
Theorem C01_step_no_panic : forall s o s' w, loc_inv s = true -> step the_tables s o = Some (s', w) -> w <> OutPanic.
Proof. exact (step_no_panic the_tables data_full_extend data_wf_ints). Qed.
Theorem C01_history_no_panic : forall ops s steps, loc_inv s = true -> run the_tables s ops = Some steps ->
  forallb (fun p => match snd p with OutPanic => false | _ => true end) steps = true.
Proof. exact (run_no_panic the_tables data_full_extend data_wf_ints). Qed.

(* likely-subtags and direction queries: total for every well-formed (language, script, region) *)
Theorem C01_maximize : forall l s r, wf_triple l s r = true -> exists o, maximize the_tables l s r = Ok o.
Proof. exact (maximize_total the_tables data_full_extend data_wf_ints). Qed.
Theorem C01_minimize : forall l s r, wf_triple l s r = true -> exists o, minimize the_tables l s r = Ok o.
Proof. exact (minimize_total the_tables data_full_extend data_wf_ints). Qed.
Theorem C01_direction : forall likely x, wf_triple (li_lang x) None (li_region x) = true ->
  exists d, direction likely the_layout the_tables x = Ok d.
Proof. exact direction_total. Qed.

(* every panic-capable expression in the CURRENT sources (unwrap, expect, unimplemented!, panic!,
   assert!, index expressions, Vec::insert/remove at an index - inventory regenerated from /repo on
   every run) is one the model represents *)
Theorem C01_sites_covered : panic_sites_covered = true.
Proof. exact sites_covered. Qed.

Print Assumptions C01_sites_covered.
Print Assumptions C01_step_no_panic.
Print Assumptions C01_history_no_panic.
Print Assumptions C01_language.
Print Assumptions C01_script.
Print Assumptions C01_region.
Print Assumptions C01_variant.
Print Assumptions C01_langid.
Print Assumptions C01_locale.
Print Assumptions C01_extmap.
Print Assumptions C01_parse_key.
Print Assumptions C01_parse_type.
Print Assumptions C01_parse_attribute.
Print Assumptions C01_parse_tkey.
Print Assumptions C01_parse_tvalue.
Print Assumptions C01_parse_value.
Print Assumptions C01_fuel_t.
Print Assumptions C01_fuel_dispatch.
Print Assumptions C01_maximize.
Print Assumptions C01_minimize.
Print Assumptions C01_direction.

(* the text-accepting entry points this property quantifies over are the ones the model and the harness know: the regenerated list of every `pub fn`, trait impl and exported macro of the four library crates equals the list the model was written against (proofs/ApiSurfaceProofs.v) *)
From UL Require ApiSurface ApiSurfaceProofs.
Theorem C01_entry_points_are_the_modelled_ones : ApiSurface.api_surface = ApiSurfaceProofs.modelled_api.
Proof. exact ApiSurfaceProofs.api_surface_is_the_modelled_one. Qed.
Print Assumptions C01_entry_points_are_the_modelled_ones.
