(* C20 — optional features are purely additive.
   In the model no entry point other than `direction` takes a configuration at all (parsing,
   serialising, comparing, matching and mutating are the same Gallina functions in every
   configuration, by construction); `direction` takes `likely : bool` and is proved below to differ
   between the two values only in the documented refinement.  That the SOURCES have the same shape is
   the regenerated obligation C20_sites_additive. *)
From UL Require Import Bytes Subtags LangId Likely Inst CfgSitesProofs.

(* every cfg(feature ..) site in the current sources guards a whole item, except the one documented
   statement inside character_direction; cargo features only switch on dependencies / their features *)
Theorem C20_sites_additive : cfg_sites_additive = true.
Proof. exact sites_additive. Qed.

(* the only observable difference: where the build WITHOUT likely-subtags answers RTL because of the
   language table (script absent or not listed), the build WITH it may refine the answer *)
Theorem C20_direction_refinement : forall L T x,
  direction true L T x = direction false L T x \/ direction false L T x = Ok RTL.
Proof.
  intros L T x. unfold direction.
  assert (B : direction_by_lang true L T x = direction_by_lang false L T x \/ direction_by_lang false L T x = Ok RTL).
  { unfold direction_by_lang. destruct (li_lang x) as [lb|]; [|left; reflexivity].
    destruct (nmem (le_pack lb) (ly_lang_rtl L)); [right; reflexivity|left; reflexivity]. }
  destruct (li_script x) as [sc|]; [|exact B]. cbn zeta.
  destruct (nmem (le_pack sc) (ly_ltr L)); [left; reflexivity|].
  destruct (nmem (le_pack sc) (ly_rtl L)); [left; reflexivity|].
  destruct (nmem (le_pack sc) (ly_ttb L)); [left; reflexivity|]. exact B.
Qed.
(* ... and a present, listed script makes the two configurations agree *)
Theorem C20_direction_script : forall L T x sc,
  li_script x = Some sc -> nmem (le_pack sc) (ly_ltr L ++ ly_rtl L ++ ly_ttb L) = true ->
  direction true L T x = direction false L T x.
Proof.
  intros L T x sc Hs Hm. unfold direction. rewrite Hs. cbn zeta.
  assert (forall a b, nmem (le_pack sc) (a ++ b) = nmem (le_pack sc) a || nmem (le_pack sc) b) as Happ.
  { intros a b. induction a as [|y a IH]; cbn [app nmem]; [reflexivity|]. rewrite IH, orb_assoc. reflexivity. }
  rewrite !Happ in Hm.
  destruct (nmem (le_pack sc) (ly_ltr L)); [reflexivity|].
  destruct (nmem (le_pack sc) (ly_rtl L)); [reflexivity|].
  destruct (nmem (le_pack sc) (ly_ttb L)); [reflexivity|discriminate].
Qed.

Print Assumptions C20_sites_additive.
Print Assumptions C20_direction_refinement.
Print Assumptions C20_direction_script.

(* Cargo's feature unification, modelled and decided on the regenerated manifests (proofs/FeatureUnification.v): for
   both facade crates and every subset of their features, `likelysubtags` of the impl crates (the one feature that
   changes an answer) is switched on iff the user asked for `likelysubtags`, and `serde` of unic-langid-impl iff the user
   asked for `serde` - whatever `macros` pulls in *)
From UL Require FeatureUnification.
From Coq Require Import String.
Theorem C20_feature_unification_adds_nothing :
  FeatureUnification.unification_ok "unic-langid"%string = true /\ FeatureUnification.unification_ok "unic-locale"%string = true.
Proof. exact FeatureUnification.feature_unification_adds_nothing. Qed.
Print Assumptions C20_feature_unification_adds_nothing.
