(* C06 — maximize returns the CLDR likely-subtags answer. *)
From UL Require Import Bytes Subtags LangId Likely Inst LikelySpec TablesData LikelyProofs LikelySpecProofs.
From Coq Require Import String.

(* every entry K -> V of likelySubtags.json (other than bare "und"): maximize(K) = V.
   All 8218 entries, evaluated inside the kernel against the tables regenerated from tables.rs. *)
Theorem C06_all_entries : forall k v, In (k, v) the_dict -> entry_maximizes (k, v) = true.
Proof. intros k v H. exact (data_entries_maximize_forall (k, v) H). Qed.

(* "unchanged" when all three are present *)
Theorem C06_unchanged_when_full : forall T l s r, maximize T (Some l) (Some s) (Some r) = Ok None.
Proof. reflexivity. Qed.

(* total on well-formed triples: Ok, never a panic (the unwrap in lang_from_parts is unreachable) *)
Theorem C06_total : forall l s r, wf_triple l s r = true -> exists o, maximize the_tables l s r = Ok o.
Proof. exact (maximize_total the_tables data_full_extend data_wf_ints). Qed.

Example C06_ex : In (bs "und-Arab-IN"%string, bs "ur-Arab-IN"%string) the_dict.
Proof. apply dict_mem_in. vm_compute. reflexivity. Qed.

(* for EVERY well-formed (language, script, region) - known or unknown subtags alike - the table
   cascade on integer keys returns exactly what the dictionary reference built from the strings of
   likelySubtags.json returns: the most specific matching entry ((language, region) or (language,
   script), then language; for `und`: (script, region), then script, or region), every given subtag
   kept; "unchanged" exactly when all three are present or no entry matches *)
Theorem C06_spec : forall l s r, wf_triple l s r = true ->
  maximize the_tables l s r = Ok (spec_maximize the_dict l s r).
Proof. exact maximize_is_spec. Qed.
Theorem C06_unchanged_iff : forall l s r, wf_triple l s r = true ->
  (maximize the_tables l s r = Ok None <->
   (s_is_some l && s_is_some s && s_is_some r = true \/ first_hit (candidates l s r) the_dict = None
    \/ exists v, first_hit (candidates l s r) the_dict = Some v /\ parse_value v = None)).
Proof.
  intros l s r W. rewrite (maximize_is_spec l s r W). unfold spec_maximize.
  destruct (s_is_some l && s_is_some s && s_is_some r); [split; auto|].
  destruct (first_hit (candidates l s r) the_dict) as [v|]; [|split; auto].
  destruct (parse_value v) as [[[a b] c]|] eqn:P.
  - split; [discriminate|]. intros [H|[H|(v' & H & H')]]; try discriminate. injection H as <-. congruence.
  - split; [intros _; right; right; eauto|reflexivity].
Qed.

(* the third alternative above never occurs for the bundled data: every value of likelySubtags.json has the
   three-subtag shape (a finite check over the dictionary regenerated on this run, evaluated by the kernel), and
   whatever first_hit returns is a value of the dictionary.  So "unchanged" is reported EXACTLY when language,
   script and region are all present or no entry matches - the wording of the statement *)
Definition value_parses (e : bytes * bytes) : bool :=
  match parse_value (snd e) with Some _ => true | None => false end.
Theorem C06_every_value_is_a_full_triple : forallb value_parses the_dict = true.
Proof. vm_compute. reflexivity. Qed.
Lemma first_hit_In ks (d : dict) v : first_hit ks d = Some v -> exists k, In (k, v) d.
Proof.
  induction ks as [|k ks IH]; cbn [first_hit]; [discriminate|].
  destruct (dlookup k d) as [w|] eqn:E; [|exact IH].
  intros H. injection H as <-. exists k. apply dlookup_In. exact E.
Qed.
Theorem C06_unchanged_exactly : forall l s r, wf_triple l s r = true ->
  (maximize the_tables l s r = Ok None <->
   (s_is_some l && s_is_some s && s_is_some r = true \/ first_hit (candidates l s r) the_dict = None)).
Proof.
  intros l s r W. rewrite (C06_unchanged_iff l s r W). split.
  - intros [H|[H|(v & Hv & Hp)]]; [left; exact H|right; exact H|exfalso].
    destruct (first_hit_In _ _ _ Hv) as [k Hin].
    pose proof (proj1 (forallb_forall _ _) C06_every_value_is_a_full_triple (k, v) Hin) as Hq.
    unfold value_parses in Hq. cbn [snd] in Hq. rewrite Hp in Hq. discriminate Hq.
  - intros [H|H]; [left; exact H|right; left; exact H].
Qed.
Print Assumptions C06_every_value_is_a_full_triple.
Print Assumptions C06_unchanged_exactly.

(* the executable specifications of the likely-subtags suite that judge the implementation in the correspondence
   run - the dictionary reference for maximize / minimize (C06-C08), the CLDR direction facts (C14), the row-by-row
   and length comparison of the compiled statics with the CLDR data and the advertised version (C18) - are
   corollaries of the proved theorems: the MODEL's answer passes them on every input (well-formed triples; the
   ten table names) *)
From UL Require Oracle OracleSound OracleSoundLikely.
Theorem C06_oracle_spec_sound : forall op args r,
  Oracle.oracle_model_likely op args = Some r ->
  (beqb op (bs "maximize"%string) || beqb op (bs "minimize"%string) = true ->
   wf_triple (Oracle.opt_arg (Oracle.arg_n 0 args)) (Oracle.opt_arg (Oracle.arg_n 1 args)) (Oracle.opt_arg (Oracle.arg_n 2 args)) = true) ->
  (beqb op (bs "table_row"%string) || beqb op (bs "table_len"%string) = true -> In (Oracle.arg_n 0 args) OracleSoundLikely.known_tables) ->
  OracleSound.passes (Oracle.oracle_spec_likely op args r).
Proof. exact OracleSoundLikely.likely_group_sound. Qed.

Print Assumptions C06_spec.
Print Assumptions C06_unchanged_iff.
Print Assumptions C06_all_entries.
Print Assumptions C06_unchanged_when_full.
Print Assumptions C06_total.
Print Assumptions C06_oracle_spec_sound.

(* maximize answers from its arguments and the generated tables alone: the regenerated inventory of places where state could outlive a call (gen/StateSites.v) contains nothing but the seven immutable generated tables *)
From UL Require StateSitesProofs.
Theorem C06_library_stateless : StateSitesProofs.library_stateless = true.
Proof. exact StateSitesProofs.stateless. Qed.
Print Assumptions C06_library_stateless.
