(* C06 — maximize returns the CLDR likely-subtags answer. *)
From UL Require Import Bytes Subtags LangId Likely Inst LikelySpec TablesData LikelyProofs.
From Coq Require Import String.

(* every entry K -> V of likelySubtags.json (other than bare "und"): maximize(K) = V.
   All 8218 entries, evaluated inside the kernel against the tables regenerated from tables.rs. *)
Theorem C06_all_entries : forall k v, In (k, v) the_dict -> entry_maximizes (k, v) = true.
Proof. intros k v H. exact (data_entries_maximize_forall (k, v) H). Qed.

(* "unchanged" when all three are present *)
Theorem C06_unchanged_when_full : forall T l s r, maximize T (Some l) (Some s) (Some r) = Ok None.
Proof. reflexivity. Qed.

(* total on well-formed triples: Ok, never a panic (the unwrap in lang_from_parts is unreachable) *)
Theorem C06_total : forall l s r, wf_triple l s r = true -> exists o, maximize the_tables l s r = Ok o.
Proof. exact (maximize_total the_tables data_full_extend data_wf_ints). Qed.

Example C06_ex : In (bs "und-Arab-IN"%string, bs "ur-Arab-IN"%string) the_dict.
Proof. apply dict_mem_in. vm_compute. reflexivity. Qed.

Print Assumptions C06_all_entries.
Print Assumptions C06_unchanged_when_full.
Print Assumptions C06_total.
