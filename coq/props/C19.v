(* C19 — serde form is the canonical string and round-trips (logic of the glue; serde and serde_json
   are exercised by the correspondence check, not modelled). *)
From UL Require Import Bytes Subtags LangId Serde Grammar LangIdSpec LangIdProofs ExtProofs CanonProofs Canonical.

Theorem C19_ser_is_canonical_string : forall x, li_inv x = true ->
  ser x = JStr (li_to_string x) /\ canon_langid_text (li_to_string x) = true.
Proof. intros x H. split; [reflexivity|apply li_to_string_canonical; exact H]. Qed.
Theorem C19_roundtrip : forall x, li_inv x = true -> de (ser x) = Ok x.
Proof. intros x H. unfold de, ser. rewrite (langid_roundtrip x H). reflexivity. Qed.
(* deserialising a string succeeds iff parsing it succeeds, with an equal result *)
Theorem C19_de_iff_parse : forall s v, de (JStr s) = Ok v <-> langid_from_bytes s = Ok v.
Proof. intros s v. unfold de. destruct (langid_from_bytes s); split; congruence. Qed.
(* non-string inputs are rejected with an error, never a panic *)
Theorem C19_nonstring_err : forall j, (forall s, j <> JStr s) -> exists e, de j = Err e.
Proof. intros [| | |s| |] H; cbn [de]; eauto. exfalso. exact (H s eq_refl). Qed.
Theorem C19_total : forall j, total (de j).
Proof.
  intros [| | |s| |]; cbn [de]; auto with tot.
  destruct (langid_from_bytes_total s) as [[v ->]|[e ->]]; auto with tot.
Qed.

(* consequences used by callers that persist identifiers: whatever deserialises, serialises to a form that
   deserialises to the same value (no drift across the serde boundary), and two different values never share
   a serialised form *)
Theorem C19_de_ser_de : forall j v, de j = Ok v -> de (ser v) = Ok v.
Proof.
  intros [| | |s| |] v H; cbn [de] in H; try discriminate.
  apply C19_roundtrip. apply (langid_parse_inv s).
  destruct (langid_from_bytes s); congruence.
Qed.
Theorem C19_ser_injective : forall x y, li_inv x = true -> li_inv y = true -> ser x = ser y -> x = y.
Proof.
  intros x y Hx Hy E. pose proof (C19_roundtrip x Hx) as Rx. pose proof (C19_roundtrip y Hy) as Ry.
  rewrite E in Rx. congruence.
Qed.
Print Assumptions C19_de_ser_de.
Print Assumptions C19_ser_injective.

(* the executable serde specifications that judge the implementation in the correspondence run are corollaries of
   the theorems above: the MODEL's answer passes them on every input *)
From UL Require Oracle OracleSound OracleSoundRest.
Theorem C19_oracle_spec_sound : forall op args r,
  Oracle.oracle_model_serde op args = Some r -> OracleSound.passes (Oracle.oracle_spec_serde op args r).
Proof. exact OracleSoundRest.serde_sound. Qed.

Print Assumptions C19_ser_is_canonical_string.
Print Assumptions C19_roundtrip.
Print Assumptions C19_de_iff_parse.
Print Assumptions C19_nonstring_err.
Print Assumptions C19_total.
Print Assumptions C19_oracle_spec_sound.
