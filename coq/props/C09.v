(* C09 — parsing ignores case, separator choice and the order of unordered parts. *)
From UL Require Import Bytes Subtags LangId Grammar LangIdSpec SplitProofs LangIdProofs CanonProofs.

(* any two byte strings that agree after case folding and '_' -> '-' give the same result: both fail
   (with the same error) or both succeed with the same value - for ALL strings, accepted or not *)
Theorem C09_fold_langid : forall s s', map fold_byte s = map fold_byte s' -> langid_from_bytes s = langid_from_bytes s'.
Proof. exact langid_fold_invariant. Qed.
(* order and repetition of variants: only the set of case-folded variants matters *)
Theorem C09_variants : forall vs vs',
  (forall y, In y (map lower vs) <-> In y (map lower vs')) -> spec_variants vs = spec_variants vs'.
Proof. exact spec_variants_same_set. Qed.
Theorem C09_variants_whole : forall l sc rg vs vs' v,
  (forall y, In y (map lower vs) <-> In y (map lower vs')) -> forallb variant_tok vs' = true ->
  WFLangIdToks (l :: opt_tok sc ++ opt_tok rg ++ vs) v -> forallb variant_tok vs = true ->
  spec_langid (l :: opt_tok sc ++ opt_tok rg ++ vs) = Some v ->
  lang_tok l = true -> opt_holds script_tok sc -> opt_holds region_tok rg ->
  spec_langid (l :: opt_tok sc ++ opt_tok rg ++ vs') = spec_langid (l :: opt_tok sc ++ opt_tok rg ++ vs).
Proof.
  intros l sc rg vs vs' v Hset Hv' _ Hv _ Hl Hs Hr.
  assert (A : spec_langid (l :: opt_tok sc ++ opt_tok rg ++ vs)
              = Some (mkLangId (spec_language_value l) (option_map title sc) (option_map norm_region rg) (spec_variants vs)))
    by (apply spec_langid_iff; constructor; assumption).
  assert (B : spec_langid (l :: opt_tok sc ++ opt_tok rg ++ vs')
              = Some (mkLangId (spec_language_value l) (option_map title sc) (option_map norm_region rg) (spec_variants vs')))
    by (apply spec_langid_iff; constructor; assumption).
  rewrite A, B, (spec_variants_same_set _ _ Hset). reflexivity.
Qed.

Print Assumptions C09_fold_langid.
Print Assumptions C09_variants.
Print Assumptions C09_variants_whole.
