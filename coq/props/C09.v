(* C09 — parsing ignores case, separator choice and the order of unordered parts. *)
From UL Require Import Bytes Subtags LangId Ext Grammar LangIdSpec LocaleSpec AbstractLocale SortProofs SplitProofs LangIdProofs CanonProofs KvProofs FoldProofs LocaleSpecProofs.
From Coq Require Import Permutation.

(* any two byte strings that agree after case folding and '_' -> '-' give the same result: both fail
   (with the same error) or both succeed with the same value - for ALL strings, accepted or not *)
Theorem C09_fold_langid : forall s s', map fold_byte s = map fold_byte s' -> langid_from_bytes s = langid_from_bytes s'.
Proof. exact langid_fold_invariant. Qed.
(* order and repetition of variants: only the set of case-folded variants matters *)
Theorem C09_variants : forall vs vs',
  (forall y, In y (map lower vs) <-> In y (map lower vs')) -> spec_variants vs = spec_variants vs'.
Proof. exact spec_variants_same_set. Qed.
Theorem C09_variants_whole : forall l sc rg vs vs' v,
  (forall y, In y (map lower vs) <-> In y (map lower vs')) -> forallb variant_tok vs' = true ->
  WFLangIdToks (l :: opt_tok sc ++ opt_tok rg ++ vs) v -> forallb variant_tok vs = true ->
  spec_langid (l :: opt_tok sc ++ opt_tok rg ++ vs) = Some v ->
  lang_tok l = true -> opt_holds script_tok sc -> opt_holds region_tok rg ->
  spec_langid (l :: opt_tok sc ++ opt_tok rg ++ vs') = spec_langid (l :: opt_tok sc ++ opt_tok rg ++ vs).
Proof.
  intros l sc rg vs vs' v Hset Hv' _ Hv _ Hl Hs Hr.
  assert (A : spec_langid (l :: opt_tok sc ++ opt_tok rg ++ vs)
              = Some (mkLangId (spec_language_value l) (option_map title sc) (option_map norm_region rg) (spec_variants vs)))
    by (apply spec_langid_iff; constructor; assumption).
  assert (B : spec_langid (l :: opt_tok sc ++ opt_tok rg ++ vs')
              = Some (mkLangId (spec_language_value l) (option_map title sc) (option_map norm_region rg) (spec_variants vs')))
    by (apply spec_langid_iff; constructor; assumption).
  rewrite A, B, (spec_variants_same_set _ _ Hset). reflexivity.
Qed.

(* the same for Locale and ExtensionsMap: letter case and '_' versus '-' never matter, for ALL strings *)
Theorem C09_fold_locale : forall s s', map fold_byte s = map fold_byte s' -> locale_from_bytes s = locale_from_bytes s'.
Proof. exact locale_fold_invariant. Qed.
Theorem C09_fold_extmap : forall s s', map fold_byte s = map fold_byte s' -> extmap_from_bytes s = extmap_from_bytes s'.
Proof. exact extmap_fold_invariant. Qed.
(* order / repetition of -u- attributes: only the set matters *)
Theorem C09_attributes : forall a1 a2, (forall y, In y (map lower a1) <-> In y (map lower a2)) ->
  dedup (sort (map lower a1)) = dedup (sort (map lower a2)).
Proof. intros a1 a2 H. exact (canon_same_set _ _ H). Qed.
(* order of -u- keywords / -t- fields with distinct keys: only the set of (key, values) pairs matters *)
Theorem C09_keywords : forall m m', kuniq m -> Permutation m m' -> kv_sort m = kv_sort m'.
Proof.
  intros m m' Hu P. assert (Hu' : kuniq m') by (unfold kuniq, keys in *; eapply Permutation_NoDup; [apply Permutation_map; exact P|exact Hu]).
  apply ksorted_unique; [apply kv_sort_ksorted; exact Hu|apply kv_sort_ksorted; exact Hu'|].
  intros x. rewrite !kv_sort_In. split; intros H; [eapply Permutation_in; [exact P|exact H]|eapply Permutation_in; [apply Permutation_sym; exact P|exact H]].
Qed.
(* two strictly well-formed spellings to which the grammar assigns the same value parse to equal values
   (in particular: -u- before -t- or after, permuted keywords / tfields, permuted attributes/variants) *)
Theorem C09_same_reading : forall s s' v,
  spec_locale_zone (split s) = MustAccept v -> spec_locale_zone (split s') = MustAccept v ->
  locale_from_bytes s = locale_from_bytes s'.
Proof. intros s s' v H H'. rewrite (locale_complete s v H), (locale_complete s' v H'). reflexivity. Qed.

Print Assumptions C09_fold_locale.
Print Assumptions C09_fold_extmap.
Print Assumptions C09_attributes.
Print Assumptions C09_keywords.
Print Assumptions C09_same_reading.
Print Assumptions C09_fold_langid.
Print Assumptions C09_variants.
Print Assumptions C09_variants_whole.
