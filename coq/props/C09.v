(* C09 — parsing ignores case, separator choice and the order of unordered parts. *)
From UL Require Import Bytes Subtags LangId Ext Grammar LangIdSpec LocaleSpec AbstractLocale SortProofs SplitProofs LangIdProofs CanonProofs KvProofs FoldProofs RoundTrip LocaleSpecProofs OrderProofs StringLevel LocaleGrammar LocaleGrammarProofs GrammarOrder.
From Coq Require Import Permutation String.

(* any two byte strings that agree after case folding and '_' -> '-' give the same result: both fail
   (with the same error) or both succeed with the same value - for ALL strings, accepted or not *)
Theorem C09_fold_langid : forall s s', map fold_byte s = map fold_byte s' -> langid_from_bytes s = langid_from_bytes s'.
Proof. exact langid_fold_invariant. Qed.
(* order and repetition of variants: only the set of case-folded variants matters *)
Theorem C09_variants : forall vs vs',
  (forall y, In y (map lower vs) <-> In y (map lower vs')) -> spec_variants vs = spec_variants vs'.
Proof. exact spec_variants_same_set. Qed.
Theorem C09_variants_whole : forall l sc rg vs vs' v,
  (forall y, In y (map lower vs) <-> In y (map lower vs')) -> forallb variant_tok vs' = true ->
  WFLangIdToks (l :: opt_tok sc ++ opt_tok rg ++ vs) v -> forallb variant_tok vs = true ->
  spec_langid (l :: opt_tok sc ++ opt_tok rg ++ vs) = Some v ->
  lang_tok l = true -> opt_holds script_tok sc -> opt_holds region_tok rg ->
  spec_langid (l :: opt_tok sc ++ opt_tok rg ++ vs') = spec_langid (l :: opt_tok sc ++ opt_tok rg ++ vs).
Proof.
  intros l sc rg vs vs' v Hset Hv' _ Hv _ Hl Hs Hr.
  assert (A : spec_langid (l :: opt_tok sc ++ opt_tok rg ++ vs)
              = Some (mkLangId (spec_language_value l) (option_map title sc) (option_map norm_region rg) (spec_variants vs)))
    by (apply spec_langid_iff; constructor; assumption).
  assert (B : spec_langid (l :: opt_tok sc ++ opt_tok rg ++ vs')
              = Some (mkLangId (spec_language_value l) (option_map title sc) (option_map norm_region rg) (spec_variants vs')))
    by (apply spec_langid_iff; constructor; assumption).
  rewrite A, B, (spec_variants_same_set _ _ Hset). reflexivity.
Qed.

(* the same for Locale and ExtensionsMap: letter case and '_' versus '-' never matter, for ALL strings *)
Theorem C09_fold_locale : forall s s', map fold_byte s = map fold_byte s' -> locale_from_bytes s = locale_from_bytes s'.
Proof. exact locale_fold_invariant. Qed.
Theorem C09_fold_extmap : forall s s', map fold_byte s = map fold_byte s' -> extmap_from_bytes s = extmap_from_bytes s'.
Proof. exact extmap_fold_invariant. Qed.
(* order / repetition of -u- attributes: only the set matters *)
Theorem C09_attributes : forall a1 a2, (forall y, In y (map lower a1) <-> In y (map lower a2)) ->
  dedup (sort (map lower a1)) = dedup (sort (map lower a2)).
Proof. intros a1 a2 H. exact (canon_same_set _ _ H). Qed.
(* order of -u- keywords / -t- fields with distinct keys: only the set of (key, values) pairs matters *)
Theorem C09_keywords : forall m m', kuniq m -> Permutation m m' -> kv_sort m = kv_sort m'.
Proof.
  intros m m' Hu P. assert (Hu' : kuniq m') by (unfold kuniq, keys in *; eapply Permutation_NoDup; [apply Permutation_map; exact P|exact Hu]).
  apply ksorted_unique; [apply kv_sort_ksorted; exact Hu|apply kv_sort_ksorted; exact Hu'|].
  intros x. rewrite !kv_sort_In. split; intros H; [eapply Permutation_in; [exact P|exact H]|eapply Permutation_in; [apply Permutation_sym; exact P|exact H]].
Qed.
(* two strictly well-formed spellings to which the grammar assigns the same value parse to equal values
   (in particular: -u- before -t- or after, permuted keywords / tfields, permuted attributes/variants) *)
Theorem C09_same_reading : forall s s' v,
  spec_locale_zone (split s) = MustAccept v -> spec_locale_zone (split s') = MustAccept v ->
  locale_from_bytes s = locale_from_bytes s'.
Proof. intros s s' v H H'. rewrite (locale_complete s v H), (locale_complete s' v H'). reflexivity. Qed.

(* ---- the unordered parts, for ALL strings (accepted or not): only the shape of the permuted part is
   assumed; the prefix `pre` (language identifier and any earlier extensions) and the remainder `R`
   (later extensions) are arbitrary.  same_outcome = "both fail, or both succeed with equal values". ---- *)
(* -u- before -t-, or -t- before -u- *)
Theorem C09_ut_order_all : forall s s' pre su U st T R,
  split s = pre ++ su :: U ++ st :: T ++ R -> split s' = pre ++ st :: T ++ su :: U ++ R ->
  pre <> [] -> no_x pre = true ->
  single_is 117 su = true -> single_is 116 st = true -> no_single U = true -> no_single T = true -> ext_stop R ->
  same_outcome (locale_from_bytes s) (locale_from_bytes s').
Proof. exact locale_ut_order. Qed.
Theorem C09_ut_order_extmap : forall s s' pre su U st T R,
  split s = pre ++ su :: U ++ st :: T ++ R -> split s' = pre ++ st :: T ++ su :: U ++ R ->
  no_x pre = true ->
  single_is 117 su = true -> single_is 116 st = true -> no_single U = true -> no_single T = true -> ext_stop R ->
  same_outcome (extmap_from_bytes s) (extmap_from_bytes s').
Proof. exact extmap_ut_order. Qed.
(* two adjacent -u- keywords with distinct keys, anywhere in the body *)
Theorem C09_keywords_order_all : forall s s' pre su P k1 V1 k2 V2 rest R,
  split s = pre ++ su :: (P ++ k1 :: V1 ++ k2 :: V2 ++ rest) ++ R ->
  split s' = pre ++ su :: (P ++ k2 :: V2 ++ k1 :: V1 ++ rest) ++ R ->
  pre <> [] -> no_x pre = true -> single_is 117 su = true -> no_single P = true -> no_single rest = true -> ext_stop R ->
  ukey_tok k1 = true -> ukey_tok k2 = true -> lower k1 <> lower k2 ->
  forallb utype_tok V1 = true -> forallb utype_tok V2 = true -> head_not utype_tok rest ->
  locale_from_bytes s = locale_from_bytes s'.
Proof. exact locale_ukeywords_order. Qed.
(* two adjacent -t- fields with distinct keys *)
Theorem C09_tfields_order_all : forall s s' pre st P k1 V1 k2 V2 rest R,
  split s = pre ++ st :: (P ++ k1 :: V1 ++ k2 :: V2 ++ rest) ++ R ->
  split s' = pre ++ st :: (P ++ k2 :: V2 ++ k1 :: V1 ++ rest) ++ R ->
  pre <> [] -> no_x pre = true -> single_is 116 st = true -> no_single P = true -> no_single rest = true -> ext_stop R ->
  tkey_tok k1 = true -> tkey_tok k2 = true -> lower k1 <> lower k2 ->
  forallb tvalue_tok V1 = true -> forallb tvalue_tok V2 = true -> head_not tvalue_tok rest ->
  locale_from_bytes s = locale_from_bytes s'.
Proof. exact locale_tfields_order. Qed.
(* -u- attributes: any reordering / repetition with the same case-folded set *)
Theorem C09_attributes_all : forall s s' pre su A A' rest R,
  split s = pre ++ su :: (A ++ rest) ++ R -> split s' = pre ++ su :: (A' ++ rest) ++ R ->
  pre <> [] -> no_x pre = true -> single_is 117 su = true -> no_single rest = true -> ext_stop R ->
  forallb attr_tok A = true -> forallb attr_tok A' = true ->
  (forall y, In y (map lower A) <-> In y (map lower A')) ->
  locale_from_bytes s = locale_from_bytes s'.
Proof. exact locale_uattrs_order. Qed.
(* variants: any reordering / repetition with the same case-folded set, Locale and LanguageIdentifier *)
Theorem C09_variants_all_locale : forall s s' l sc rg V V' R,
  split s = (l :: opt_tok sc ++ opt_tok rg ++ V) ++ R -> split s' = (l :: opt_tok sc ++ opt_tok rg ++ V') ++ R ->
  lang_tok l = true -> opt_holds script_tok sc -> opt_holds region_tok rg ->
  forallb variant_tok V = true -> forallb variant_tok V' = true ->
  (forall y, In y (map lower V) <-> In y (map lower V')) -> li_stop R ->
  locale_from_bytes s = locale_from_bytes s'.
Proof. exact locale_variants_order. Qed.
Theorem C09_variants_all_langid : forall s s' l sc rg V V',
  split s = l :: opt_tok sc ++ opt_tok rg ++ V -> split s' = l :: opt_tok sc ++ opt_tok rg ++ V' ->
  lang_tok l = true -> opt_holds script_tok sc -> opt_holds region_tok rg ->
  forallb variant_tok V = true -> forallb variant_tok V' = true ->
  (forall y, In y (map lower V) <-> In y (map lower V')) ->
  langid_from_bytes s = langid_from_bytes s'.
Proof. exact langid_variants_order. Qed.

(* ---- the same on the relational grammar of C03 (spec/LocaleGrammar.v): the VALUE a well-formed identifier
   denotes is insensitive to the order of keywords / tfields with distinct keys, to the order and repetition
   of attributes and variants, and to which of -u- / -t- comes first; and two well-formed spellings of one
   value - in any letter case, with any mixture of '-' and '_' - parse to the same result ---- *)
Theorem C09_grammar_u : forall attrs attrs' kws kws',
  forallb attr_tok attrs = true -> forallb ukeyword_ok kws = true -> NoDup (group_keys kws) ->
  forallb attr_tok attrs' = true -> (forall y, In y (map lower attrs) <-> In y (map lower attrs')) ->
  Permutation kws kws' -> (attrs' <> [] \/ kws' <> []) ->
  WFU (attrs' ++ flat_map group_tokens kws') (mkU (kv_sort (map norm_group kws)) (dedup (sort (map lower attrs)))).
Proof. exact WFU_reorder. Qed.
Theorem C09_grammar_t : forall tl v fields fields',
  WFLangIdT tl v -> forallb tfield_ok fields = true -> NoDup (group_keys fields) -> Permutation fields fields' ->
  WFT (tl ++ flat_map group_tokens fields') (mkT (Some v) (kv_sort (map norm_group fields))).
Proof. exact WFT_reorder_lang. Qed.
Theorem C09_grammar_t_fields : forall fields fields',
  forallb tfield_ok fields = true -> NoDup (group_keys fields) -> Permutation fields fields' -> fields <> [] ->
  WFT (flat_map group_tokens fields') (mkT None (kv_sort (map norm_group fields))).
Proof. exact WFT_reorder_fields. Qed.
Theorem C09_grammar_ut : forall su ub u st tb t,
  single_is 117 su = true -> WFU ub u -> single_is 116 st = true -> WFT tb t ->
  WFUT (su :: ub ++ st :: tb) u t /\ WFUT (st :: tb ++ su :: ub) u t.
Proof. exact WFUT_swap. Qed.
Theorem C09_grammar_variants : forall l sc rg vs vs',
  lang_tok l = true -> match sc with Some t => script_tok t = true | None => True end ->
  match rg with Some t => region_tok t = true | None => True end ->
  forallb variant_tok vs = true -> forallb variant_tok vs' = true ->
  (forall y, In y (map lower vs) <-> In y (map lower vs')) ->
  exists v, WFLangIdT (l :: opt_tok sc ++ opt_tok rg ++ vs) v /\ WFLangIdT (l :: opt_tok sc ++ opt_tok rg ++ vs') v.
Proof. exact WFLangIdT_variants. Qed.
Theorem C09_same_value_same_parse : forall toks toks' seps seps' v,
  WFLocale toks v -> WFLocale toks' v -> forallb is_sep seps = true -> forallb is_sep seps' = true ->
  locale_from_bytes (weave toks seps) = locale_from_bytes (weave toks' seps').
Proof. exact same_value_same_parse. Qed.

(* non-vacuity: the hypotheses are met by ordinary identifiers, and the conclusion is then about Ok values *)
Example C09_order_witness :
  let s  := bs "en-US-u-attr-ca-buddhist-nu-latn-t-de-h0-hybrid-m0-ungegn-x-foo"%string in
  let s' := bs "en-US-t-de-m0-ungegn-h0-hybrid-u-attr-nu-latn-ca-buddhist-x-foo"%string in
  (exists v, locale_from_bytes s = Ok v /\ locale_from_bytes s' = Ok v)
  /\ split s = [bs "en"; bs "US"] ++ bs "u" :: [bs "attr"; bs "ca"; bs "buddhist"; bs "nu"; bs "latn"]
                ++ bs "t" :: [bs "de"; bs "h0"; bs "hybrid"; bs "m0"; bs "ungegn"] ++ [bs "x"; bs "foo"]
  /\ no_x [bs "en"; bs "US"] = true /\ single_is 117 (bs "u") = true /\ single_is 116 (bs "t") = true
  /\ no_single [bs "attr"; bs "ca"; bs "buddhist"; bs "nu"; bs "latn"] = true
  /\ ukey_tok (bs "ca") = true /\ forallb utype_tok [bs "buddhist"] = true /\ tkey_tok (bs "h0") = true.
Proof. vm_compute. repeat split; eauto. Qed.

Print Assumptions C09_grammar_u.
Print Assumptions C09_grammar_t.
Print Assumptions C09_grammar_t_fields.
Print Assumptions C09_grammar_ut.
Print Assumptions C09_grammar_variants.
Print Assumptions C09_same_value_same_parse.
Print Assumptions C09_ut_order_all.
Print Assumptions C09_ut_order_extmap.
Print Assumptions C09_keywords_order_all.
Print Assumptions C09_tfields_order_all.
Print Assumptions C09_attributes_all.
Print Assumptions C09_variants_all_locale.
Print Assumptions C09_variants_all_langid.
Print Assumptions C09_fold_locale.
Print Assumptions C09_fold_extmap.
Print Assumptions C09_attributes.
Print Assumptions C09_keywords.
Print Assumptions C09_same_reading.
Print Assumptions C09_fold_langid.
Print Assumptions C09_variants.
Print Assumptions C09_variants_whole.

(* the verdict of the metamorphic-pair operations (`loc_meta`, `li_meta`, `ext_meta`) is tied to these theorems
   (proofs/OracleSoundMeta.v): the model answers SAME / BOTH-ERR - and passes the specification - exactly when the two
   spellings have the same outcome, which is what every theorem above concludes for its class of pairs *)
From UL Require Oracle OracleSound OracleSoundMeta.
Theorem C09_meta_verdict_locale : forall op args r, beqb op (bs "loc_meta"%string) = true ->
  same_outcome (locale_from_bytes (Oracle.arg_n 0 args)) (locale_from_bytes (Oracle.arg_n 1 args)) ->
  Oracle.oracle_model_locale op args = Some r -> OracleSound.passes (Oracle.oracle_spec_locale op args r).
Proof. exact OracleSoundMeta.loc_meta_sound. Qed.
Theorem C09_meta_verdict_langid : forall op args r, beqb op (bs "li_meta"%string) = true ->
  same_outcome (langid_from_bytes (Oracle.arg_n 0 args)) (langid_from_bytes (Oracle.arg_n 1 args)) ->
  Oracle.oracle_model_locale op args = Some r -> OracleSound.passes (Oracle.oracle_spec_locale op args r).
Proof. exact OracleSoundMeta.li_meta_sound. Qed.
Theorem C09_meta_verdict_extmap : forall op args r, beqb op (bs "ext_meta"%string) = true ->
  same_outcome (extmap_from_bytes (Oracle.arg_n 0 args)) (extmap_from_bytes (Oracle.arg_n 1 args)) ->
  Oracle.oracle_model_locale op args = Some r -> OracleSound.passes (Oracle.oracle_spec_locale op args r).
Proof. exact OracleSoundMeta.ext_meta_sound. Qed.
Theorem C09_meta_verdict_means_same_outcome : forall args,
  (match locale_from_bytes (Oracle.arg_n 0 args), locale_from_bytes (Oracle.arg_n 1 args) with
   | Ok x, Ok y => LocaleOrd.loc_eqb x y && beqb (loc_to_string x) (loc_to_string y)
   | Err _, Err _ => true
   | _, _ => false end) = true ->
  same_outcome (locale_from_bytes (Oracle.arg_n 0 args)) (locale_from_bytes (Oracle.arg_n 1 args)).
Proof. exact OracleSoundMeta.loc_meta_complete. Qed.
Print Assumptions C09_meta_verdict_locale.
Print Assumptions C09_meta_verdict_langid.
Print Assumptions C09_meta_verdict_extmap.
Print Assumptions C09_meta_verdict_means_same_outcome.
