(* C07 — maximize only adds subtags, fills all three, and is idempotent.
   Statements over ALL (language, script, region) triples of well-formed stored subtags
   (wf_triple: non-NUL bytes, length <= 8 / 4, language text <> "und"), for the tables regenerated
   from /repo on this run.  The only facts about the data that the proofs use are the two finite
   checks C07_values_full_extend / C18_wellformed_ints, so the laws hold for any CLDR version. *)
From UL Require Import Bytes Subtags LangId Likely Inst TablesData LikelyProofs.
From Coq Require Import String.

Theorem C07_values_full_extend : tables_full_extend the_tables = true.
Proof. exact data_full_extend. Qed.

(* whenever maximize changes the triple: every given subtag kept, all three present, result well-formed *)
Theorem C07_preserves : forall l s r t,
  wf_triple l s r = true -> maximize the_tables l s r = Ok (Some t) ->
  exists l' s' r', t = (Some l', Some s', Some r')
    /\ keeps l (Some l') /\ keeps s (Some s') /\ keeps r (Some r')
    /\ wf_triple (Some l') (Some s') (Some r') = true.
Proof. exact (maximize_preserves the_tables data_full_extend data_wf_ints). Qed.

(* the complete case split in one statement: either unchanged, or all three present afterwards with every given
   subtag kept AND the identifier was not already full (so "changed" is never reported for a full identifier) *)
Theorem C07_char : forall l s r,
  wf_triple l s r = true ->
  maximize the_tables l s r = Ok None \/
  exists l' s' r', maximize the_tables l s r = Ok (Some (Some l', Some s', Some r'))
     /\ keeps l (Some l') /\ keeps s (Some s') /\ keeps r (Some r')
     /\ (is_some l && is_some s && is_some r = false)
     /\ wf_triple (Some l') (Some s') (Some r') = true.
Proof. exact (maximize_char the_tables data_full_extend data_wf_ints). Qed.
Print Assumptions C07_char.

(* maximizing an already maximized identifier changes nothing *)
Theorem C07_idem : forall l s r l' s' r',
  maximize the_tables l s r = Ok (Some (Some l', Some s', Some r')) ->
  maximize the_tables (Some l') (Some s') (Some r') = Ok None.
Proof. exact (maximize_idem the_tables). Qed.

(* LanguageIdentifier::maximize: false => unchanged; variants never touched; true => the new triple *)
Theorem C07_false_unchanged : forall x y, li_maximize the_tables x = Ok (false, y) -> y = x.
Proof.
  intros x y. unfold li_maximize, li_apply.
  destruct (maximize the_tables (li_lang x) (li_script x) (li_region x)) as [[[[a b] c]|]| | |]; congruence.
Qed.
Theorem C07_frame : forall x b y, li_maximize the_tables x = Ok (b, y) -> li_variants y = li_variants x.
Proof.
  intros x b y. unfold li_maximize, li_apply.
  destruct (maximize the_tables (li_lang x) (li_script x) (li_region x)) as [[[[a b'] c]|]| | |]; try congruence;
    intros H; injection H as <- <-; reflexivity.
Qed.
Theorem C07_true_changed : forall x y, li_maximize the_tables x = Ok (true, y) ->
  maximize the_tables (li_lang x) (li_script x) (li_region x) = Ok (Some (li_lang y, li_script y, li_region y)).
Proof.
  intros x y. unfold li_maximize, li_apply.
  destruct (maximize the_tables (li_lang x) (li_script x) (li_region x)) as [[[[a b] c]|]| | |]; try congruence.
  intros H; injection H as <-. reflexivity.
Qed.

(* idempotence at the level of the identifier, in the words of the statement: after a maximize that
   returned true, a second maximize returns false and leaves the identifier (variants included) as it is *)
Theorem C07_li_idem : forall x y,
  wf_triple (li_lang x) (li_script x) (li_region x) = true ->
  li_maximize the_tables x = Ok (true, y) -> li_maximize the_tables y = Ok (false, y).
Proof.
  intros x y Hwf H. pose proof (C07_true_changed x y H) as Hm.
  destruct (C07_preserves _ _ _ _ Hwf Hm) as (l' & s' & r' & Ht & _).
  injection Ht as Hl Hs Hr.
  unfold li_maximize at 1. rewrite Hl, Hs, Hr.
  rewrite Hl, Hs, Hr in Hm. rewrite (C07_idem _ _ _ _ _ _ Hm). reflexivity.
Qed.
Example C07_li_idem_ex : exists y,
  li_maximize the_tables (mkLangId (Some (bs "en"%string)) None None (Some [bs "macos"%string])) = Ok (true, y)
  /\ li_variants y = Some [bs "macos"%string].
Proof. eexists. split; vm_compute; reflexivity. Qed.
Print Assumptions C07_li_idem.

(* non-vacuity: a well-formed triple that maximize does change *)
Example C07_ex : wf_triple (Some (bs "en"%string)) None None = true
  /\ maximize the_tables (Some (bs "en"%string)) None None
     = Ok (Some (Some (bs "en"%string), Some (bs "Latn"%string), Some (bs "US"%string))).
Proof. split; vm_compute; reflexivity. Qed.

Print Assumptions C07_values_full_extend.
Print Assumptions C07_preserves.
Print Assumptions C07_idem.
Print Assumptions C07_false_unchanged.
Print Assumptions C07_frame.
Print Assumptions C07_true_changed.
