(* C03 — Locale parsing accepts all well-formed locale ids and never silently drops input. *)
From UL Require Import Bytes Subtags LangId Ext Grammar LangIdSpec LocaleSpec LangIdProofs ExtProofs LocaleSpecProofs.
From Coq Require Import String.

(* Ok or Err for every byte string: no panic on unsupported / malformed singletons (D1) *)
Theorem C03_total : forall s, total (locale_from_bytes s).
Proof. exact locale_from_bytes_total. Qed.
(* the language identifier of an accepted locale is the longest well-formed prefix *)
Theorem C03_id_prefix : forall s l, locale_from_bytes s = Ok l -> exists rem, spec_langid_prefix (split s) = Some (loc_id l, rem).
Proof. exact locale_id_is_prefix. Qed.

(* the classes the statement names are rejected: *)
Example C03_rejects_named_classes :
  locale_from_bytes (bs "en-a-foo"%string) = Err InvalidExtension          (* a singleton other than t/u/x *)
  /\ locale_from_bytes (bs "en-US-ux-foo"%string) = Err InvalidExtension   (* multi-character singleton *)
  /\ locale_from_bytes (bs "en-xyz"%string) = Err InvalidExtension         (* misplaced subtag *)
  /\ locale_from_bytes (bs "en-u-foo-u-bar"%string) = Err InvalidExtension (* repeated singleton *)
  /\ locale_from_bytes (bs "en-t-en-US-fr"%string) = Err InvalidExtension  (* second tlang *)
  /\ locale_from_bytes (bs "en-u-abcdefghi"%string) = Err InvalidExtension (* over-long subtag *)
  /\ locale_from_bytes (bs "en-t-h0-hybrid-u-ca-buddhist-x-foo"%string)
     = Ok (mkLoc (mkLangId (Some (bs "en"%string)) None None None)
                 (mkE (mkU [(bs "ca"%string, [bs "buddhist"%string])] [])
                      (mkT None [(bs "h0"%string, [bs "hybrid"%string])])
                      [bs "foo"%string])).
Proof. repeat split; vm_compute; reflexivity. Qed.

(* the three-zone oracle (spec/LocaleSpec.v: grammar reading by segments, independent of the parser's
   shared-iterator control flow), for EVERY byte string:
   SOUND    - whatever the parser accepts is in the lenient language and the value is exactly the one the
              grammar assigns: no part of the text is dropped or reinterpreted (duplicate keys: outside);
   COMPLETE - every strictly well-formed locale (langid; at most one -u- and one -t-, either order;
              trailing -x-; no empty token, no empty body, every tkey with a value; no duplicate key) is
              accepted with the specified value;
   REJECT   - a malformed / over-long / misplaced subtag, a multi-character or repeated singleton, a
              second tlang, any other singleton: an error. *)
Theorem C03_sound : forall s l, locale_from_bytes s = Ok l ->
  match spec_locale_zone (split s) with
  | MustAccept v | Either v => v = l
  | Outside => True
  | MustReject => False
  end.
Proof. exact locale_sound. Qed.
Theorem C03_complete : forall s v, spec_locale_zone (split s) = MustAccept v -> locale_from_bytes s = Ok v.
Proof. exact locale_complete. Qed.
Theorem C03_rejects : forall s, spec_locale_zone (split s) = MustReject -> exists e, locale_from_bytes s = Err e.
Proof. exact locale_rejects. Qed.

(* the zones are inhabited as the statement says *)
Example C03_zones :
  (exists v, spec_locale_zone (split (bs "en-US-u-attr-ca-buddhist-t-de-h0-hybrid-x-foo"%string)) = MustAccept v)
  /\ (exists v, spec_locale_zone (split (bs "en--u-foo-"%string)) = Either v)
  /\ (exists v, spec_locale_zone (split (bs "en-t-h0"%string)) = Either v)
  /\ spec_locale_zone (split (bs "en-a-foo"%string)) = MustReject
  /\ spec_locale_zone (split (bs "en-US-ux-foo"%string)) = MustReject
  /\ spec_locale_zone (split (bs "en-u-foo-u-bar"%string)) = MustReject
  /\ spec_locale_zone (split (bs "en-t-en-US-fr"%string)) = MustReject
  /\ spec_locale_zone (split (bs "en-u-abcdefghi"%string)) = MustReject
  /\ spec_locale_zone (split (bs "en-u-ca-buddhist-ca-islamic"%string)) = Outside.
Proof. repeat split; try (eexists; vm_compute; reflexivity); vm_compute; reflexivity. Qed.

Print Assumptions C03_sound.
Print Assumptions C03_complete.
Print Assumptions C03_rejects.
Print Assumptions C03_total.
Print Assumptions C03_id_prefix.
