(* C03 — Locale parsing accepts all well-formed locale ids and never silently drops input. *)
From UL Require Import Bytes Subtags LangId Ext Grammar LangIdSpec LangIdProofs ExtProofs.
From Coq Require Import String.

(* Ok or Err for every byte string: no panic on unsupported / malformed singletons (D1) *)
Theorem C03_total : forall s, total (locale_from_bytes s).
Proof. exact locale_from_bytes_total. Qed.
(* the language identifier of an accepted locale is the longest well-formed prefix *)
Theorem C03_id_prefix : forall s l, locale_from_bytes s = Ok l -> exists rem, spec_langid_prefix (split s) = Some (loc_id l, rem).
Proof. exact locale_id_is_prefix. Qed.

(* the classes the statement names are rejected: *)
Example C03_rejects_named_classes :
  locale_from_bytes (bs "en-a-foo"%string) = Err InvalidExtension          (* a singleton other than t/u/x *)
  /\ locale_from_bytes (bs "en-US-ux-foo"%string) = Err InvalidExtension   (* multi-character singleton *)
  /\ locale_from_bytes (bs "en-xyz"%string) = Err InvalidExtension         (* misplaced subtag *)
  /\ locale_from_bytes (bs "en-u-foo-u-bar"%string) = Err InvalidExtension (* repeated singleton *)
  /\ locale_from_bytes (bs "en-t-en-US-fr"%string) = Err InvalidExtension  (* second tlang *)
  /\ locale_from_bytes (bs "en-u-abcdefghi"%string) = Err InvalidExtension (* over-long subtag *)
  /\ locale_from_bytes (bs "en-t-h0-hybrid-u-ca-buddhist-x-foo"%string)
     = Ok (mkLoc (mkLangId (Some (bs "en"%string)) None None None)
                 (mkE (mkU [(bs "ca"%string, [bs "buddhist"%string])] [])
                      (mkT None [(bs "h0"%string, [bs "hybrid"%string])])
                      [bs "foo"%string])).
Proof. repeat split; vm_compute; reflexivity. Qed.

Print Assumptions C03_total.
Print Assumptions C03_id_prefix.
