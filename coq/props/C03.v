(* C03 — Locale parsing accepts all well-formed locale ids and never silently drops input. *)
From UL Require Import Bytes Subtags LangId Ext Grammar LangIdSpec LocaleSpec LangIdProofs ExtProofs LocaleSpecProofs SplitProofs StringLevel LocaleGrammar LocaleGrammarProofs LocaleGrammarInv RejectClasses HoldsExactly.
From Coq Require Import String.

(* Ok or Err for every byte string: no panic on unsupported / malformed singletons (D1) *)
Theorem C03_total : forall s, total (locale_from_bytes s).
Proof. exact locale_from_bytes_total. Qed.
(* the language identifier of an accepted locale is the longest well-formed prefix *)
Theorem C03_id_prefix : forall s l, locale_from_bytes s = Ok l -> exists rem, spec_langid_prefix (split s) = Some (loc_id l, rem).
Proof. exact locale_id_is_prefix. Qed.

(* the classes the statement names are rejected: *)
Example C03_rejects_named_classes :
  locale_from_bytes (bs "en-a-foo"%string) = Err InvalidExtension          (* a singleton other than t/u/x *)
  /\ locale_from_bytes (bs "en-US-ux-foo"%string) = Err InvalidExtension   (* multi-character singleton *)
  /\ locale_from_bytes (bs "en-xyz"%string) = Err InvalidExtension         (* misplaced subtag *)
  /\ locale_from_bytes (bs "en-u-foo-u-bar"%string) = Err InvalidExtension (* repeated singleton *)
  /\ locale_from_bytes (bs "en-t-en-US-fr"%string) = Err InvalidExtension  (* second tlang *)
  /\ locale_from_bytes (bs "en-u-abcdefghi"%string) = Err InvalidExtension (* over-long subtag *)
  /\ locale_from_bytes (bs "en-t-h0-hybrid-u-ca-buddhist-x-foo"%string)
     = Ok (mkLoc (mkLangId (Some (bs "en"%string)) None None None)
                 (mkE (mkU [(bs "ca"%string, [bs "buddhist"%string])] [])
                      (mkT None [(bs "h0"%string, [bs "hybrid"%string])])
                      [bs "foo"%string])).
Proof. repeat split; vm_compute; reflexivity. Qed.

(* the three-zone oracle (spec/LocaleSpec.v: grammar reading by segments, independent of the parser's
   shared-iterator control flow), for EVERY byte string:
   SOUND    - whatever the parser accepts is in the lenient language and the value is exactly the one the
              grammar assigns: no part of the text is dropped or reinterpreted (duplicate keys: outside);
   COMPLETE - every strictly well-formed locale (langid; at most one -u- and one -t-, either order;
              trailing -x-; no empty token, no empty body, every tkey with a value; no duplicate key) is
              accepted with the specified value;
   REJECT   - a malformed / over-long / misplaced subtag, a multi-character or repeated singleton, a
              second tlang, any other singleton: an error. *)
Theorem C03_sound : forall s l, locale_from_bytes s = Ok l ->
  match spec_locale_zone (split s) with
  | MustAccept v | Either v => v = l
  | Outside => True
  | MustReject => False
  end.
Proof. exact locale_sound. Qed.
Theorem C03_complete : forall s v, spec_locale_zone (split s) = MustAccept v -> locale_from_bytes s = Ok v.
Proof. exact locale_complete. Qed.
Theorem C03_rejects : forall s, spec_locale_zone (split s) = MustReject -> exists e, locale_from_bytes s = Err e.
Proof. exact locale_rejects. Qed.

(* two of the reject classes as general theorems on byte strings: an OVER-LONG subtag (more than 8 bytes) or a
   MALFORMED subtag (any byte that is not an ASCII letter or digit), anywhere in the input, is an error - the
   parser never skips or drops such a subtag; the only tokens the lenient zone tolerates are empty ones *)
Theorem C03_rejects_overlong : forall s t, In t (split s) -> (8 < List.length t)%nat -> exists e, locale_from_bytes s = Err e.
Proof. exact locale_rejects_overlong. Qed.
Theorem C03_rejects_malformed : forall s t, In t (split s) -> existsb (fun b => negb (is_alnum b)) t = true ->
  exists e, locale_from_bytes s = Err e.
Proof. exact locale_rejects_malformed. Qed.
(* Locale::canonicalize is the same acceptor: it succeeds exactly when from_bytes does (returning the value's
   string) and fails with exactly from_bytes's error *)
Theorem C03_canonicalize_same_acceptor : forall s,
  (forall t, loc_canonicalize s = Ok t <-> exists v, locale_from_bytes s = Ok v /\ t = loc_to_string v)
  /\ (forall e, loc_canonicalize s = Err e <-> locale_from_bytes s = Err e).
Proof.
  intros s. unfold loc_canonicalize. destruct (locale_from_bytes s) as [v|e'| |]; cbn [bind]; split; intros x; split;
    try congruence; try (intros (v' & H & _); congruence).
  - intros H. exists v. split; [reflexivity|congruence].
  - intros (v' & H & ->). congruence.
Qed.
Print Assumptions C03_canonicalize_same_acceptor.
(* the general form of the two theorems above: ANY token outside the usable alphabet / length (tok_ok, the
   executable token test of the specification) anywhere in the string makes the parser return an error *)
Theorem C03_rejects_bad_token : forall s t, In t (split s) -> tok_ok t = false -> exists e, locale_from_bytes s = Err e.
Proof. exact locale_rejects_bad_token. Qed.
Print Assumptions C03_rejects_bad_token.
(* a singleton other than t / u / x (either case) anywhere after the language identifier and before a private-use
   singleton; a REPEATED -u- (c = 117) or -t- (c = 116) singleton; a multi-character token where a singleton is
   expected directly after the language identifier: all MustReject, hence (C03_rejects) an error *)
Theorem C03_rejects_other_singleton : forall toks id A s B,
  spec_langid_prefix toks = Some (id, A ++ s :: B) -> no_x A = true -> is_single s = true -> utx s = false ->
  spec_locale_zone toks = MustReject.
Proof. exact other_singleton_rejected. Qed.
Theorem C03_rejects_repeated_singleton : forall toks id A s1 B s2 C (c : N),
  (c = 117 \/ c = 116)%N ->
  spec_langid_prefix toks = Some (id, A ++ s1 :: B ++ s2 :: C) -> no_x (A ++ s1 :: B) = true ->
  single_is c s1 = true -> single_is c s2 = true ->
  spec_locale_zone toks = MustReject.
Proof. exact repeated_singleton_rejected. Qed.
Theorem C03_rejects_misplaced_after_langid : forall toks id t rest,
  spec_langid_prefix toks = Some (id, t :: rest) -> (2 <= List.length t)%nat -> spec_locale_zone toks = MustReject.
Proof. exact misplaced_after_langid. Qed.
Example C03_reject_class_instances :
  spec_langid_prefix (split (bs "en-US-u-ca-buddhist-a-foo"%string))
    = Some (mkLangId (Some (bs "en"%string)) None (Some (bs "US"%string)) None,
            ([bs "u"%string; bs "ca"%string; bs "buddhist"%string] ++ bs "a"%string :: [bs "foo"%string])%list)
  /\ no_x [bs "u"; bs "ca"; bs "buddhist"]%string = true /\ utx (bs "a"%string) = false
  /\ single_is 117 (bs "U"%string) = true.
Proof. vm_compute. repeat split; reflexivity. Qed.
Theorem C03_zone_tokens_usable : forall toks, spec_locale_zone toks <> MustReject -> forallb tok_ok toks = true.
Proof. exact zone_tokens_ok. Qed.

(* the zones are inhabited as the statement says *)
Example C03_zones :
  (exists v, spec_locale_zone (split (bs "en-US-u-attr-ca-buddhist-t-de-h0-hybrid-x-foo"%string)) = MustAccept v)
  /\ (exists v, spec_locale_zone (split (bs "en--u-foo-"%string)) = Either v)
  /\ (exists v, spec_locale_zone (split (bs "en-t-h0"%string)) = Either v)
  /\ spec_locale_zone (split (bs "en-a-foo"%string)) = MustReject
  /\ spec_locale_zone (split (bs "en-US-ux-foo"%string)) = MustReject
  /\ spec_locale_zone (split (bs "en-u-foo-u-bar"%string)) = MustReject
  /\ spec_locale_zone (split (bs "en-t-en-US-fr"%string)) = MustReject
  /\ spec_locale_zone (split (bs "en-u-abcdefghi"%string)) = MustReject
  /\ spec_locale_zone (split (bs "en-u-ca-buddhist-ca-islamic"%string)) = Outside.
Proof. repeat split; try (eexists; vm_compute; reflexivity); vm_compute; reflexivity. Qed.


(* THE FIRST SENTENCE OF THE STATEMENT, against the EBNF itself.  spec/LocaleGrammar.v defines the well-formed
   Unicode locale identifiers as an inductive relation on token lists (language identifier; at most one -u-
   and at most one -t- extension in either order; a trailing -x- sequence; UTS #35 bodies; keys of one
   extension distinct) together with the normalised value each denotes - no recogniser, no control flow.
   Every member, written in any letter case with any mixture of '-' and '_' between its subtags, is accepted
   with exactly that value; and it lies in the MustAccept zone of the executable specification (adequacy
   of the oracle that judges the implementation in the correspondence run). *)
Theorem C03_accepts_every_wellformed : forall toks seps v,
  WFLocale toks v -> forallb is_sep seps = true -> locale_from_bytes (weave toks seps) = Ok v.
Proof. exact WFLocale_accepted. Qed.
Theorem C03_grammar_in_must_accept : forall toks v, WFLocale toks v -> spec_locale_zone toks = MustAccept v.
Proof. exact WFLocale_must_accept. Qed.
(* ... and the MustAccept zone contains NOTHING ELSE: C03_complete obliges the parser to accept exactly the
   well-formed identifiers of the grammar, no more (the oracle cannot demand acceptance of an ill-formed input) *)
Theorem C03_must_accept_is_the_grammar : forall toks v, spec_locale_zone toks = MustAccept v <-> WFLocale toks v.
Proof. exact must_accept_iff_WFLocale. Qed.
(* "the parsed value holds EXACTLY the input's subtags in normalised form": every subtag of a well-formed input
   reappears, up to letter case, among the subtags the value prints - except keyword / tfield values named `true`,
   which the canonical form omits - and the value prints no subtag that does not come from the input
   (`covers A B`: every token of A occurs in B up to case; `covers_but_true`: ... or is the word `true`) *)
Theorem C03_value_holds_every_subtag : forall toks v, WFLocale toks v -> covers_but_true toks (loc_tokens v).
Proof. exact value_holds_every_subtag. Qed.
Theorem C03_value_holds_nothing_else : forall toks v, WFLocale toks v -> covers (loc_tokens v) toks.
Proof. exact value_holds_nothing_else. Qed.
(* non-vacuity: an identifier with all three extensions is a member of the relation *)
Example C03_grammar_witness : exists v,
  WFLocale [bs "eN"; bs "us"; bs "U"; bs "attr"; bs "ca"; bs "buddhist"; bs "t"; bs "de"; bs "h0"; bs "hybrid"; bs "x"; bs "foo"]%string v
  /\ loc_to_string v = bs "en-US-t-de-h0-hybrid-u-attr-ca-buddhist-x-foo"%string.
Proof.
  eexists. split.
  - eapply (WFLocale_intro [bs "eN"; bs "us"]%string _
             [bs "U"; bs "attr"; bs "ca"; bs "buddhist"; bs "t"; bs "de"; bs "h0"; bs "hybrid"]%string _ _ [bs "x"; bs "foo"]%string _).
    + apply (WFT_intro (bs "eN"%string) None (Some (bs "us"%string)) []); [reflexivity|exact I|reflexivity|reflexivity].
    + eapply (UT_ut (bs "U"%string) [bs "attr"; bs "ca"; bs "buddhist"]%string _ (bs "t"%string) [bs "de"; bs "h0"; bs "hybrid"]%string _);
        [reflexivity| |reflexivity|].
      * apply (WFU_intro [bs "attr"]%string [(bs "ca", [bs "buddhist"])]%string); [reflexivity|reflexivity|left; discriminate|].
        repeat constructor. intros [].
      * eapply (WFT_lang [bs "de"]%string _ [(bs "h0", [bs "hybrid"])]%string); [|reflexivity|repeat constructor; intros []].
        apply (WFT_intro (bs "de"%string) None None []); [reflexivity|exact I|exact I|reflexivity].
    + apply (X_some (bs "x"%string) [bs "foo"]%string); [reflexivity|discriminate|reflexivity].
  - vm_compute. reflexivity.
Qed.
(* the executable specifications of the locale suite that judge the implementation in the correspondence run
   (three-zone verdict on parsing, round trip, histories against the abstract machine, LanguageIdentifier vs Locale,
   the part before the first singleton, into_parts / from_parts, API-built locales, matches, cmp / ==) are
   corollaries of the proved theorems: the MODEL's answer passes them on every input (including the canonicalize
   verdict: canonical text, never longer than the input, in every zone).  Not covered: the metamorphic-pair
   operations `loc_meta` / `li_meta` / `ext_meta`, whose verdict is only meaningful on pairs the generator constructs *)
From UL Require Oracle OracleSound.
Theorem C03_oracle_spec_sound : forall op args r,
  Oracle.oracle_model_locale op args = Some r ->
  beqb op (bs "loc_meta"%string) = false -> beqb op (bs "li_meta"%string) = false -> beqb op (bs "ext_meta"%string) = false ->
  OracleSound.passes (Oracle.oracle_spec_locale op args r).
Proof. exact OracleSound.locale_group_sound. Qed.

Print Assumptions C03_accepts_every_wellformed.
Print Assumptions C03_grammar_in_must_accept.
Print Assumptions C03_value_holds_every_subtag.
Print Assumptions C03_value_holds_nothing_else.
Print Assumptions C03_rejects_overlong.
Print Assumptions C03_rejects_malformed.
Print Assumptions C03_zone_tokens_usable.
Print Assumptions C03_rejects_other_singleton.
Print Assumptions C03_rejects_repeated_singleton.
Print Assumptions C03_rejects_misplaced_after_langid.
Print Assumptions C03_must_accept_is_the_grammar.

Print Assumptions C03_sound.
Print Assumptions C03_complete.
Print Assumptions C03_rejects.
Print Assumptions C03_total.
Print Assumptions C03_id_prefix.
Print Assumptions C03_oracle_spec_sound.

(* all groups assembled (proofs/OracleSoundAll.v): whatever operation the driver is asked about - subtags, likely
   subtags / direction / tables, language identifiers, locales, serde, macros - the MODEL's answer passes the
   specification the oracle applies to it, provided the property has no view of its own for that operation;
   operation names are not shared between groups (15 disjointness lemmas) *)
From UL Require OracleSoundAll.
Theorem C03_oracle_sound_all : forall prop op args,
  OracleSoundAll.side_conditions op args -> Oracle.spec_for_property prop op args (Oracle.oracle_model op args) = None ->
  OracleSound.passes (Oracle.oracle_spec prop op args (Oracle.oracle_model op args)).
Proof. exact OracleSoundAll.oracle_sound. Qed.
Print Assumptions C03_oracle_sound_all.

(* ... and WITH the property-specific views (proofs/OracleSoundViews.v): for every property, operation and argument
   list the model's answer passes the specification the driver applies - no part of `oracle_spec` is left as a trusted
   definition (metamorphic-pair operations and ill-formed likely-subtags arguments aside: `side_conditions`) *)
From UL Require OracleSoundViews.
Theorem C03_oracle_sound_total : forall prop op args,
  OracleSoundAll.side_conditions op args -> OracleSound.passes (Oracle.oracle_spec prop op args (Oracle.oracle_model op args)).
Proof. exact OracleSoundViews.oracle_sound_total. Qed.
Print Assumptions C03_oracle_sound_total.
