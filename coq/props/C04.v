(* C04 — serialisation always emits the canonical well-formed form. *)
From UL Require Import Bytes Subtags LangId Ext Likely Inst Ops Grammar LangIdSpec LocaleInv Canonical LangIdProofs CanonProofs InvProofs TablesData OpsInvProofs LengthProofs LocaleLength RoundTrip CanonLocale CanonLocaleProofs AbstractLocale LocaleSpec StringLevel LocaleGrammar LocaleGrammarProofs PrintGrammar PrintZone.
From Coq Require Import String.

(* every LanguageIdentifier satisfying the safe-API invariant prints as canonical text: only ASCII
   letters, digits and '-'; language lower, script Title, region UPPER, variants lower, strictly sorted *)
Theorem C04_langid_canonical : forall x, li_inv x = true -> canon_langid_text (li_to_string x) = true.
Proof. exact li_to_string_canonical. Qed.
(* reach: parsing any accepted input yields the invariant *)
Theorem C04_reach_parse : forall s v, langid_from_bytes s = Ok v -> li_inv v = true.
Proof. exact langid_parse_inv. Qed.
(* canonicalize(s) is exactly to_string of the parsed value *)
Theorem C04_canonicalize : forall s t, li_canonicalize s = Ok t ->
  exists v, langid_from_bytes s = Ok v /\ t = li_to_string v /\ canon_langid_text t = true.
Proof.
  intros s t. unfold li_canonicalize. destruct (langid_from_bytes s) as [v| | |] eqn:E; try discriminate.
  intros H. injection H as <-. exists v. repeat split. apply li_to_string_canonical. exact (langid_parse_inv _ _ E).
Qed.

(* reach, Locale level: parsing any accepted locale / extension string, and every public mutation
   (including maximize / minimize, the only routes by which table integers become subtags) *)
Theorem C04_reach_parse_locale : forall s l, locale_from_bytes s = Ok l -> loc_inv l = true.
Proof. exact locale_parse_inv. Qed.
Theorem C04_reach_parse_extmap : forall s e, extmap_from_bytes s = Ok e -> ext_inv e = true.
Proof. exact extmap_parse_inv. Qed.
Theorem C04_reach_mutation : forall s o s' w, loc_inv s = true -> step the_tables s o = Some (s', w) -> loc_inv s' = true.
Proof. exact (step_inv the_tables data_full_extend data_wf_ints). Qed.

(* canonicalize(s) is never longer than s: LanguageIdentifier, then Locale *)
Theorem C04_canonicalize_not_longer : forall s t, li_canonicalize s = Ok t -> (List.length t <= List.length s)%nat.
Proof. exact li_canonicalize_length. Qed.
Theorem C04_locale_canonicalize_not_longer : forall s t, loc_canonicalize s = Ok t -> (List.length t <= List.length s)%nat.
Proof. exact loc_canonicalize_length. Qed.
(* Locale canonicalize(s) is exactly to_string of the parsed value, which satisfies the invariant *)
Theorem C04_locale_canonicalize : forall s t, loc_canonicalize s = Ok t ->
  exists l, locale_from_bytes s = Ok l /\ t = loc_to_string l /\ loc_inv l = true.
Proof.
  intros s t. unfold loc_canonicalize. destruct (locale_from_bytes s) as [l| | |] eqn:E; try discriminate.
  intros H. injection H as <-. exists l. repeat split. exact (locale_parse_inv _ _ E).
Qed.
(* the ExtensionsMap printer prepends the separator, so its output is at most one byte longer *)
Theorem C04_extmap_not_longer : forall s e, extmap_from_bytes s = Ok e -> (List.length (ext_to_string e) <= List.length s + 1)%nat.
Proof. exact extmap_parse_length. Qed.
(* explicit form: the printed text of every invariant-satisfying Locale passes the strict recogniser of
   canonical Locale text written from the statement (spec/CanonLocale.v): order t, u, x; attributes strictly
   sorted; keys strictly sorted; no `true` values; no empty extension; private tags sorted; case; alphabet *)
Theorem C04_locale_canonical : forall l, loc_inv l = true -> canon_locale_strict (loc_to_string l) = true.
Proof. exact loc_to_string_canonical. Qed.
(* the recogniser is not vacuous: it accepts ordinary canonical text and rejects each listed defect *)
Example C04_strict_examples :
  let ok s := canon_locale_strict (bs s) in
  ok "en-US-t-de-h0-hybrid-u-attr-ca-buddhist-x-foo"%string = true /\ ok "en-u-bar-foo"%string = true /\ ok "en-x-a-b"%string = true
  /\ ok "und-t-h0"%string = true
  /\ ok "en-u-ca-buddhist-t-de"%string = false      (* u before t *)
  /\ ok "en-u-foo-bar"%string = false               (* attributes not sorted *)
  /\ ok "en-u-foo-foo"%string = false               (* repeated attribute *)
  /\ ok "en-u-nu-latn-ca-buddhist"%string = false   (* keywords not sorted by key *)
  /\ ok "en-t-h0-hybrid-d0-fwidth"%string = false   (* tfields not sorted by key *)
  /\ ok "en-u-ca-true"%string = false               (* a `true` value *)
  /\ ok "en-x-b-a"%string = false                   (* private-use subtags not sorted *)
  /\ ok "en-u"%string = false /\ ok "en-t"%string = false /\ ok "en-x"%string = false   (* empty extensions *)
  /\ ok "EN"%string = false /\ ok "en_US"%string = false /\ ok "en-u-CA"%string = false /\ ok "en-t-DE"%string = false
  /\ ok "en-a-foo"%string = false /\ ok "en-u-ca-t-h0-u-nu"%string = false.
Proof. vm_compute. repeat split; reflexivity. Qed.
(* the printed form of any invariant-satisfying Locale re-reads as that Locale: it is a well-formed
   identifier, and printing is injective on the invariant *)
Theorem C04_locale_wellformed : forall l, loc_inv l = true -> locale_from_bytes (loc_to_string l) = Ok l.
Proof. exact locale_roundtrip. Qed.

(* "to_string() is a well-formed identifier", against the EBNF relation of C03 (spec/LocaleGrammar.v): what an
   invariant-satisfying Locale prints IS a member of the grammar and denotes the value itself - provided every
   tfield has a value (a tfield whose only value was `true` prints as a bare key: the "no 'true' values" rule,
   which strict UTS #35 does not count as well-formed; C04_locale_canonical / C04_locale_wellformed cover it) *)
Theorem C04_printed_is_in_the_grammar : forall l, loc_inv l = true ->
  forallb (fun kv => negb (nil_b (snd kv))) (t_fields (e_transform (loc_ext l))) = true ->
  WFLocale (loc_tokens l) l.
Proof. exact printed_is_wellformed. Qed.
(* without any side condition: what an invariant-satisfying Locale prints is read by the grammar as the value itself -
   strictly (MustAccept), or leniently (Either) exactly when a tfield has no value; never MustReject, never Outside *)
Theorem C04_printed_zone : forall l, loc_inv l = true ->
  exists st : bool, spec_locale_zone (loc_tokens l) = (if st then MustAccept l else Either l).
Proof. exact printed_zone. Qed.
Example C04_printed_ex :
  let l := mkLoc (mkLangId (Some (bs "en")) None (Some (bs "US")) None)
                 (mkE (mkU [(bs "ca", [bs "buddhist"])] [bs "attr"]) (mkT (Some (mkLangId (Some (bs "de")) None None None)) [(bs "h0", [bs "hybrid"])]) [bs "foo"])%string in
  loc_inv l = true /\ forallb (fun kv => negb (nil_b (snd kv))) (t_fields (e_transform (loc_ext l))) = true
  /\ loc_to_string l = bs "en-US-t-de-h0-hybrid-u-attr-ca-buddhist-x-foo"%string.
Proof. vm_compute. repeat split; reflexivity. Qed.

Print Assumptions C04_printed_is_in_the_grammar.
Print Assumptions C04_printed_zone.
Print Assumptions C04_locale_canonical.
Print Assumptions C04_canonicalize_not_longer.
Print Assumptions C04_locale_canonicalize_not_longer.
Print Assumptions C04_locale_canonicalize.
Print Assumptions C04_extmap_not_longer.
Print Assumptions C04_locale_wellformed.
Print Assumptions C04_reach_parse_locale.
Print Assumptions C04_reach_parse_extmap.
Print Assumptions C04_reach_mutation.
Print Assumptions C04_langid_canonical.
Print Assumptions C04_reach_parse.
Print Assumptions C04_canonicalize.

(* the views C04 and C05 have of a transcript (the printed string / re-parse verdict of every step of a history, the
   printed string of a `langid` / `li_from_parts` answer) find exactly the fields the transcript was built from, and
   the model's own answer passes them (proofs/OracleSoundViews.v) *)
From UL Require Oracle OracleSound OracleSoundViews.
Theorem C04_views_sound : forall prop op args r,
  Oracle.spec_for_property prop op args (Oracle.oracle_model op args) = Some r -> OracleSound.passes r.
Proof. exact OracleSoundViews.views_sound. Qed.
Print Assumptions C04_views_sound.
Theorem C04_history_steps_canonical : forall args,
  Oracle.starts_with (bs "BAD"%string) (Oracle.model_hist args) = false ->
  forallb (fun st => Oracle.canon_locale_text (Oracle.step_tostring st)) (Oracle.hist_steps (Oracle.model_hist args)) = true
  /\ forallb (fun st => beqb (Oracle.step_reparse st) (bs "same"%string)) (Oracle.hist_steps (Oracle.model_hist args)) = true.
Proof. exact OracleSoundViews.hist_views. Qed.
Print Assumptions C04_history_steps_canonical.
