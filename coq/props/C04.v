(* C04 — serialisation always emits the canonical well-formed form. *)
From UL Require Import Bytes Subtags LangId Grammar LangIdSpec Canonical LangIdProofs CanonProofs.

(* every LanguageIdentifier satisfying the safe-API invariant prints as canonical text: only ASCII
   letters, digits and '-'; language lower, script Title, region UPPER, variants lower, strictly sorted *)
Theorem C04_langid_canonical : forall x, li_inv x = true -> canon_langid_text (li_to_string x) = true.
Proof. exact li_to_string_canonical. Qed.
(* reach: parsing any accepted input yields the invariant *)
Theorem C04_reach_parse : forall s v, langid_from_bytes s = Ok v -> li_inv v = true.
Proof. exact langid_parse_inv. Qed.
(* canonicalize(s) is exactly to_string of the parsed value *)
Theorem C04_canonicalize : forall s t, li_canonicalize s = Ok t ->
  exists v, langid_from_bytes s = Ok v /\ t = li_to_string v /\ canon_langid_text t = true.
Proof.
  intros s t. unfold li_canonicalize. destruct (langid_from_bytes s) as [v| | |] eqn:E; try discriminate.
  intros H. injection H as <-. exists v. repeat split. apply li_to_string_canonical. exact (langid_parse_inv _ _ E).
Qed.

Print Assumptions C04_langid_canonical.
Print Assumptions C04_reach_parse.
Print Assumptions C04_canonicalize.
