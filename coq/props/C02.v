(* C02 — LanguageIdentifier parsing accepts exactly the well-formed language identifiers. *)
From UL Require Import Bytes Subtags LangId Grammar LangIdSpec LangIdProofs SplitProofs StringLevel.
From Coq Require Import String.

(* for every byte string: Ok with exactly the value of the EBNF reading, else the documented error
   kind (InvalidLanguage exactly when the first subtag is not a language subtag).  Never Panic. *)
Theorem C02_accepts_exactly : forall s : bytes,
  langid_from_bytes s = match spec_langid (split s) with
                        | Some v => Ok v
                        | None => Err (spec_langid_err (split s))
                        end.
Proof. exact langid_from_bytes_spec. Qed.

(* the recogniser is the EBNF: language (script)? (region)? (variant)* with the normalised value *)
Theorem C02_recogniser_is_ebnf : forall toks v, spec_langid toks = Some v <-> WFLangIdToks toks v.
Proof. exact spec_langid_iff. Qed.

(* the iterator form used by Locale: longest well-formed prefix, leftover returned or rejected *)
Theorem C02_iter : forall toks allow,
  langid_from_iter toks allow =
  match spec_langid_prefix toks with
  | Some (v, rem) =>
    if negb allow && negb (match rem with [] => true | _ => false end) then Err InvalidSubtag else Ok (v, rem)
  | None => Err InvalidLanguage
  end.
Proof. exact langid_from_iter_spec. Qed.

(* every accepted value satisfies the safe-API invariant: canonical case, variants sorted/unique/non-empty *)
Theorem C02_value_canonical : forall s v, langid_from_bytes s = Ok v -> li_inv v = true.
Proof. exact langid_parse_inv. Qed.

(* canonicalize is the same acceptor with the same error: it succeeds exactly when from_bytes does (returning the
   value's string) and fails with exactly from_bytes's error *)
Theorem C02_canonicalize_same_acceptor : forall s,
  (forall t, li_canonicalize s = Ok t <-> exists v, langid_from_bytes s = Ok v /\ t = li_to_string v)
  /\ (forall e, li_canonicalize s = Err e <-> langid_from_bytes s = Err e).
Proof.
  intros s. unfold li_canonicalize. destruct (langid_from_bytes s) as [v|e'| |]; split; intros x; split;
    try congruence; try (intros (v' & H & _); congruence).
  - intros H. exists v. split; [reflexivity|congruence].
  - intros (v' & H & ->). congruence.
Qed.
Print Assumptions C02_canonicalize_same_acceptor.

Example C02_ex : langid_from_bytes (bs "eN_latn_Us-Valencia-1996-valencia"%string)
  = Ok (mkLangId (Some (bs "en"%string)) (Some (bs "Latn"%string)) (Some (bs "US"%string))
                 (Some [bs "1996"%string; bs "valencia"%string])).
Proof. vm_compute. reflexivity. Qed.
Example C02_ex_err : langid_from_bytes (bs "e1-US"%string) = Err InvalidLanguage
  /\ langid_from_bytes (bs "en-abcd-Latn"%string) = Err InvalidSubtag.
Proof. split; vm_compute; reflexivity. Qed.

(* the same on BYTE STRINGS, in the words of the statement: accepted with value v iff the string IS
   language (sep script)? (sep region)? (sep variant)*  with every sep '-' or '_' (`weave` interleaves
   tokens and separators) and v the normalised reading; otherwise the error is decided by the first subtag *)
Theorem C02_string_ebnf : forall s v,
  langid_from_bytes s = Ok v <->
  exists toks seps, s = weave toks seps /\ forallb is_sep seps = true /\ S (List.length seps) = List.length toks /\ WFLangIdToks toks v.
Proof. exact langid_string_ebnf. Qed.
Theorem C02_string_reject : forall s, (forall v, langid_from_bytes s <> Ok v) ->
  langid_from_bytes s = Err (if lang_tok (hd [] (split s)) then InvalidSubtag else InvalidLanguage).
Proof. exact langid_string_reject. Qed.
(* every byte string is the weave of its tokens and separators, and split inverts weave: the quantification
   over (toks, seps) above is a re-reading of the quantification over strings, nothing is lost *)
Theorem C02_weave_split : forall s, weave (split s) (seps_of s) = s /\ S (List.length (seps_of s)) = List.length (split s).
Proof. exact weave_split. Qed.
Example C02_string_ex : weave [bs "en"; bs "Latn"; bs "US"; bs "valencia"]%string [95; 45; 95]%N = bs "en_Latn-US_valencia"%string.
Proof. vm_compute. reflexivity. Qed.
(* the executable specifications of the langid suite (parse, canonicalize, round trip, try_from_iter, from_parts,
   into_parts, matches, cmp / == / == &str, the seven construction routes) that judge the implementation in the
   correspondence run are corollaries of the proved theorems: the MODEL's answer passes them on every input *)
From UL Require Oracle OracleSound.
Theorem C02_oracle_spec_sound : forall op args r,
  Oracle.oracle_model_langid op args = Some r -> OracleSound.passes (Oracle.oracle_spec_langid op args r).
Proof. exact OracleSound.langid_sound. Qed.

Print Assumptions C02_string_ebnf.
Print Assumptions C02_string_reject.
Print Assumptions C02_weave_split.

Print Assumptions C02_accepts_exactly.
Print Assumptions C02_recogniser_is_ebnf.
Print Assumptions C02_iter.
Print Assumptions C02_value_canonical.
Print Assumptions C02_oracle_spec_sound.
