(* C02 — LanguageIdentifier parsing accepts exactly the well-formed language identifiers. *)
From UL Require Import Bytes Subtags LangId Grammar LangIdSpec LangIdProofs.
From Coq Require Import String.

(* for every byte string: Ok with exactly the value of the EBNF reading, else the documented error
   kind (InvalidLanguage exactly when the first subtag is not a language subtag).  Never Panic. *)
Theorem C02_accepts_exactly : forall s : bytes,
  langid_from_bytes s = match spec_langid (split s) with
                        | Some v => Ok v
                        | None => Err (spec_langid_err (split s))
                        end.
Proof. exact langid_from_bytes_spec. Qed.

(* the recogniser is the EBNF: language (script)? (region)? (variant)* with the normalised value *)
Theorem C02_recogniser_is_ebnf : forall toks v, spec_langid toks = Some v <-> WFLangIdToks toks v.
Proof. exact spec_langid_iff. Qed.

(* the iterator form used by Locale: longest well-formed prefix, leftover returned or rejected *)
Theorem C02_iter : forall toks allow,
  langid_from_iter toks allow =
  match spec_langid_prefix toks with
  | Some (v, rem) =>
    if negb allow && negb (match rem with [] => true | _ => false end) then Err InvalidSubtag else Ok (v, rem)
  | None => Err InvalidLanguage
  end.
Proof. exact langid_from_iter_spec. Qed.

(* every accepted value satisfies the safe-API invariant: canonical case, variants sorted/unique/non-empty *)
Theorem C02_value_canonical : forall s v, langid_from_bytes s = Ok v -> li_inv v = true.
Proof. exact langid_parse_inv. Qed.

Example C02_ex : langid_from_bytes (bs "eN_latn_Us-Valencia-1996-valencia"%string)
  = Ok (mkLangId (Some (bs "en"%string)) (Some (bs "Latn"%string)) (Some (bs "US"%string))
                 (Some [bs "1996"%string; bs "valencia"%string])).
Proof. vm_compute. reflexivity. Qed.
Example C02_ex_err : langid_from_bytes (bs "e1-US"%string) = Err InvalidLanguage
  /\ langid_from_bytes (bs "en-abcd-Latn"%string) = Err InvalidSubtag.
Proof. split; vm_compute; reflexivity. Qed.

Print Assumptions C02_accepts_exactly.
Print Assumptions C02_recogniser_is_ebnf.
Print Assumptions C02_iter.
Print Assumptions C02_value_canonical.
