(* C18 — the bundled tables are exactly what the CLDR source data determine.
   Every obligation is a finite check over coq/gen/*.v, which the translator regenerates from
   tables.rs, layout_table.rs, likelySubtags.json and the 710 layout.json files on every run;
   each is evaluated inside the kernel (vm_compute) over ALL entries. *)
From UL Require Import Bytes Subtags LangId Likely Inst LikelySpec LayoutSpec TablesData LayoutData.
From UL Require Import Tables CldrLikely.

(* rows = JSON keys = declared array lengths *)
Theorem C18_counts : counts_ok = true.
Proof. exact data_counts. Qed.
(* every CLDR key, parsed by the model's parser and classified as the generator classifies it, is in
   the right table with the CLDR value *)
Theorem C18_each_entry : forall k v, In (k, v) the_dict -> entry_in_tables the_tables (k, v) = true.
Proof. intros k v H. exact (data_entries_forall (k, v) H). Qed.
(* conversely every table row decodes to a CLDR entry with that value *)
Theorem C18_rows_from_cldr : rows_in_dict the_tables the_dict = true.
Proof. exact data_rows. Qed.
(* strictly increasing in exactly the key order binary_search_by_key compares: one row per key *)
Theorem C18_sorted : tables_sorted the_tables = true.
Proof. exact data_sorted. Qed.
(* every stored integer fits its width and decodes to a subtag its parser accepts unchanged:
   the stated precondition of the unsafe from_raw_unchecked calls *)
Theorem C18_wellformed_ints : tables_wf_ints the_tables = true.
Proof. exact data_wf_ints. Qed.
(* direction tables = the scripts / RTL languages derivable from the layout files, no duplicates *)
Theorem C18_layout_parses : layout_parses = true.
Proof. exact lay_parses. Qed.
Theorem C18_layout_tables : layout_tables_ok = true.
Proof. exact lay_tables_ok. Qed.
Theorem C18_layout_nodup : layout_nodup = true.
Proof. exact lay_nodup. Qed.
Theorem C18_version : cldr_version = cldr_json_version.
Proof. exact data_version. Qed.

(* why "strictly increasing" is the right obligation: the model reads a single-key table with assoc1 (first row with
   that key); the code calls binary_search_by_key and indexes the table at the position found.  ANY search meeting
   binary_search's documented contract returns, on a strictly increasing table, exactly the model's answer *)
From UL Require SearchContract.
Theorem C18_sorted_makes_search_deterministic : forall f, SearchContract.search_contract1 f ->
  forall k l, sorted1 l = true ->
  match f k l with Some i => option_map snd (nth_error l i) | None => None end = assoc1 k l.
Proof. exact SearchContract.search_contract_is_assoc1. Qed.
Theorem C18_sorted_makes_search_deterministic_2 : forall f, SearchContract.search_contract2 f ->
  forall a b l, sorted2 l = true ->
  match f a b l with Some i => option_map snd (nth_error l i) | None => None end = assoc2 a b l.
Proof. exact SearchContract.search_contract_is_assoc2. Qed.
Print Assumptions C18_sorted_makes_search_deterministic_2.
(* non-vacuity: a search meeting the contract exists *)
Theorem C18_search_contract_satisfiable : SearchContract.search_contract1 SearchContract.find1.
Proof. exact SearchContract.find1_contract. Qed.
Print Assumptions C18_sorted_makes_search_deterministic.
Print Assumptions C18_search_contract_satisfiable.

Print Assumptions C18_counts.
Print Assumptions C18_each_entry.
Print Assumptions C18_rows_from_cldr.
Print Assumptions C18_sorted.
Print Assumptions C18_wellformed_ints.
Print Assumptions C18_layout_parses.
Print Assumptions C18_layout_tables.
Print Assumptions C18_layout_nodup.
Print Assumptions C18_version.

(* the only static data of the library are the seven generated tables of likelysubtags/tables.rs (no supplement table next to them: gen/StateSites.v) *)
From UL Require StateSitesProofs.
Theorem C18_only_generated_statics : StateSitesProofs.library_stateless = true.
Proof. exact StateSitesProofs.stateless. Qed.
Print Assumptions C18_only_generated_statics.
