(* C08 — minimize preserves meaning, never lengthens, and is idempotent (all well-formed triples). *)
From UL Require Import Bytes Subtags LangId Likely Inst LikelySpec TablesData LikelyProofs LikelySpecProofs.
From Coq Require Import String.

Definition MX := maxed the_tables.

(* the complete characterisation: either unchanged, or the result t is one of
   {lang, lang-region, lang-script} of the maximized original mx, maximizes back to mx (same meaning,
   no subtag mx lacks), and every earlier trial form does NOT maximize to mx (first trial that works). *)
Theorem C08_char : forall l s r,
  wf_triple l s r = true ->
  minimize the_tables l s r = Ok None \/
  exists ml ms mr t,
    let mx := (Some ml, Some ms, Some mr) in
    MX l s r = mx
    /\ minimize the_tables l s r = Ok (Some t)
    /\ (t = (Some ml, None, None) \/ t = (Some ml, None, Some mr) \/ t = (Some ml, Some ms, None))
    /\ (match t with (a, b, c) => maximize the_tables a b c end) = Ok (Some mx)
    /\ (t <> (Some ml, None, None) -> maximize the_tables (Some ml) None None <> Ok (Some mx))
    /\ (t = (Some ml, Some ms, None) -> maximize the_tables (Some ml) None (Some mr) <> Ok (Some mx))
    /\ wf_triple (Some ml) (Some ms) (Some mr) = true.
Proof. exact (minimize_char the_tables data_full_extend data_wf_ints). Qed.

Theorem C08_count_le : forall l s r t,
  wf_triple l s r = true -> minimize the_tables l s r = Ok (Some t) -> (count_sr t <= count_sr (l, s, r))%nat.
Proof. exact (minimize_count the_tables data_full_extend data_wf_ints). Qed.

Theorem C08_idem : forall l s r t,
  wf_triple l s r = true -> minimize the_tables l s r = Ok (Some t) ->
  (match t with (a, b, c) => minimize the_tables a b c end) = Ok (Some t).
Proof. exact (minimize_idem the_tables data_full_extend data_wf_ints). Qed.

Theorem C08_min_max : forall l s r,
  wf_triple l s r = true ->
  (match MX l s r with (a, b, c) => minimize the_tables a b c end) = minimize the_tables l s r.
Proof. exact (minimize_of_maxed the_tables data_full_extend data_wf_ints). Qed.

Theorem C08_false_unchanged : forall x y, li_minimize the_tables x = Ok (false, y) -> y = x.
Proof.
  intros x y. unfold li_minimize, li_apply.
  destruct (minimize the_tables (li_lang x) (li_script x) (li_region x)) as [[[[a b] c]|]| | |]; congruence.
Qed.
Theorem C08_frame : forall x b y, li_minimize the_tables x = Ok (b, y) -> li_variants y = li_variants x.
Proof.
  intros x b y. unfold li_minimize, li_apply.
  destruct (minimize the_tables (li_lang x) (li_script x) (li_region x)) as [[[[a b'] c]|]| | |]; try congruence;
    intros H; injection H as <- <-; reflexivity.
Qed.

(* "minimizing twice equals minimizing once" at the level of the identifier: after a minimize that returned
   true, a second minimize leaves the identifier (variants included) exactly as the first one left it *)
Theorem C08_li_idem : forall x y,
  wf_triple (li_lang x) (li_script x) (li_region x) = true ->
  li_minimize the_tables x = Ok (true, y) -> li_minimize the_tables y = Ok (true, y).
Proof.
  intros x y Hwf H. unfold li_minimize at 1 in H. unfold li_apply in H.
  destruct (minimize the_tables (li_lang x) (li_script x) (li_region x)) as [[[[a b] c]|]| | |] eqn:E; try congruence.
  injection H as <-.
  pose proof (C08_idem _ _ _ _ Hwf E : minimize the_tables a b c = Ok (Some (a, b, c))) as Hi.
  unfold li_minimize. cbn [li_lang li_script li_region li_variants]. rewrite Hi. reflexivity.
Qed.
Example C08_li_idem_ex : exists y,
  li_minimize the_tables (mkLangId (Some (bs "zh"%string)) (Some (bs "Hant"%string)) (Some (bs "TW"%string))
                                   (Some [bs "macos"%string])) = Ok (true, y)
  /\ li_variants y = Some [bs "macos"%string] /\ li_script y = None.
Proof. eexists. split; [vm_compute; reflexivity|split; reflexivity]. Qed.
Print Assumptions C08_li_idem.

Example C08_ex : wf_triple (Some (bs "zh"%string)) (Some (bs "Hant"%string)) (Some (bs "TW"%string)) = true
  /\ minimize the_tables (Some (bs "zh"%string)) (Some (bs "Hant"%string)) (Some (bs "TW"%string))
     = Ok (Some (Some (bs "zh"%string), None, Some (bs "TW"%string))).
Proof. split; vm_compute; reflexivity. Qed.

(* the chosen form equals the independent dictionary-based reference, for every well-formed triple *)
Theorem C08_matches_spec : forall l s r, wf_triple l s r = true ->
  minimize the_tables l s r = Ok (spec_minimize the_dict l s r).
Proof. exact minimize_is_spec. Qed.

Print Assumptions C08_matches_spec.
Print Assumptions C08_char.
Print Assumptions C08_count_le.
Print Assumptions C08_idem.
Print Assumptions C08_min_max.
Print Assumptions C08_false_unchanged.
Print Assumptions C08_frame.
