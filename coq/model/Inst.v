(* Inst.v — the model instantiated with the tables regenerated from /repo (gen/Tables.v, gen/Layout.v) *)
From UL Require Export Likely.
From UL Require Import Tables Layout.
Definition the_tables : tables :=
  mkTables lang_only lang_region lang_script script_region script_only region_only.
Definition the_layout : layout :=
  mkLayout scripts_character_direction_ltr scripts_character_direction_rtl
           scripts_character_direction_ttb langs_character_direction_rtl.
