(* Bytes.v — bytes, character classes, case folding, splitting, joining, ordering.
   Model of: u8::is_ascii_*, to_ascii_lowercase/uppercase, slice::split on '-'/'_',
   derived lexicographic Ord on TinyAsciiStr, sort_unstable, dedup.
   DEFINITIONS ONLY (lemmas live in proofs/). *)
From Coq Require Export List NArith Bool Arith.
Export ListNotations.
Open Scope N_scope.

Definition byte := N.
Definition bytes := list N.

Definition in_range (lo hi b : N) : bool := (lo <=? b) && (b <=? hi).
Definition is_upper (b : N) : bool := in_range 65 90 b.
Definition is_lower (b : N) : bool := in_range 97 122 b.
Definition is_alpha (b : N) : bool := is_upper b || is_lower b.
Definition is_digit (b : N) : bool := in_range 48 57 b.
Definition is_alnum (b : N) : bool := is_alpha b || is_digit b.

Definition to_lower (b : N) : N := if is_upper b then b + 32 else b.
Definition to_upper (b : N) : N := if is_lower b then b - 32 else b.
Definition lower (s : bytes) : bytes := map to_lower s.
Definition upper (s : bytes) : bytes := map to_upper s.
Definition title (s : bytes) : bytes :=
  match s with [] => [] | c :: r => to_upper c :: lower r end.

(* '-' = 45, '_' = 95 *)
Definition is_sep (b : N) : bool := (b =? 45) || (b =? 95).

Fixpoint split_aux (cur : bytes) (s : bytes) : list bytes :=
  match s with
  | [] => [rev cur]
  | b :: r => if is_sep b then rev cur :: split_aux [] r else split_aux (b :: cur) r
  end.
(* t.split(|c| c == b'-' || c == b'_') : never the empty list *)
Definition split (s : bytes) : list bytes := split_aux [] s.

Fixpoint join (toks : list bytes) : bytes :=
  match toks with
  | [] => []
  | [t] => t
  | t :: r => t ++ 45 :: join r
  end.

(* equality / lexicographic order on byte lists
   (derived Ord of TinyAsciiStr<N> = lexicographic on the NUL-padded array; NUL < every
   stored byte, so it coincides with the lexicographic order on the unpadded lists) *)
Fixpoint beqb (a b : bytes) : bool :=
  match a, b with
  | [], [] => true
  | x :: a', y :: b' => (x =? y) && beqb a' b'
  | _, _ => false
  end.

Fixpoint bcmp (a b : bytes) : comparison :=
  match a, b with
  | [], [] => Eq
  | [], _ :: _ => Lt
  | _ :: _, [] => Gt
  | x :: a', y :: b' =>
      match x ?= y with Eq => bcmp a' b' | c => c end
  end.

Definition bltb (a b : bytes) : bool := match bcmp a b with Lt => true | _ => false end.
Definition bleb (a b : bytes) : bool := match bcmp a b with Gt => false | _ => true end.

(* sort_unstable on a Vec of tiny strings: any sorting algorithm gives the same result because
   elements that compare Equal are identical; modelled as insertion sort. *)
Fixpoint insert_sorted (x : bytes) (l : list bytes) : list bytes :=
  match l with
  | [] => [x]
  | y :: r => if bleb x y then x :: l else y :: insert_sorted x r
  end.
Fixpoint sort (l : list bytes) : list bytes :=
  match l with [] => [] | x :: r => insert_sorted x (sort r) end.

(* Vec::dedup : removes consecutive repeated elements *)
Fixpoint dedup (l : list bytes) : list bytes :=
  match l with
  | [] => []
  | x :: r =>
      match r with
      | [] => [x]
      | y :: _ => if beqb x y then dedup r else x :: dedup r
      end
  end.

Fixpoint sortedb (l : list bytes) : bool :=
  match l with
  | [] => true
  | x :: r => match r with [] => true | y :: _ => bleb x y && sortedb r end
  end.
Fixpoint ssortedb (l : list bytes) : bool :=
  match l with
  | [] => true
  | x :: r => match r with [] => true | y :: _ => bltb x y && ssortedb r end
  end.

Fixpoint memb (x : bytes) (l : list bytes) : bool :=
  match l with [] => false | y :: r => beqb x y || memb x r end.

(* strings for literals *)
From Coq Require Import String Ascii.
Fixpoint bs (s : string) : bytes :=
  match s with
  | EmptyString => []
  | String c r => N_of_ascii c :: bs r
  end.

(* results *)
Inductive perr := InvalidLanguage | InvalidSubtag | InvalidExtension.
Inductive res (A : Type) :=
| Ok (a : A)
| Err (e : perr)
| Panic (site : N)      (* an explicit Rust panic site *)
| OutOfFuel.            (* model artefact; excluded by the C01_fuel_* theorems *)
Arguments Ok {A} a.
Arguments Err {A} e.
Arguments Panic {A} site.
Arguments OutOfFuel {A}.

Definition is_ok {A} (r : res A) : bool := match r with Ok _ => true | _ => false end.
Definition is_err {A} (r : res A) : bool := match r with Err _ => true | _ => false end.
