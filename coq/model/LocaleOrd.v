(* LocaleOrd.v — the derived PartialEq / Eq / PartialOrd / Ord of Locale and ExtensionsMap, field by field in
   declaration order: Locale { id, extensions }, ExtensionsMap { unicode, transform, private },
   UnicodeExtensionList { keywords: BTreeMap, attributes: Vec }, TransformExtensionList { tlang, tfields:
   BTreeMap }, PrivateExtensionList(Vec).  A BTreeMap compares as the sequence of its (key, value) pairs.
   DEFINITIONS ONLY. *)
From UL Require Export Bytes Subtags LangId Ext.

Fixpoint kmap_eqb (a b : kmap) : bool :=
  match a, b with
  | [], [] => true
  | (k, v) :: a', (k', v') :: b' => beqb k k' && lbeqb v v' && kmap_eqb a' b'
  | _, _ => false
  end.
Definition oli_eqb (a b : option langid) : bool :=
  match a, b with Some x, Some y => li_eqb x y | None, None => true | _, _ => false end.
Definition ext_eqb (a b : extmap) : bool :=
  kmap_eqb (u_keywords (e_unicode a)) (u_keywords (e_unicode b))
  && lbeqb (u_attrs (e_unicode a)) (u_attrs (e_unicode b))
  && oli_eqb (t_lang (e_transform a)) (t_lang (e_transform b))
  && kmap_eqb (t_fields (e_transform a)) (t_fields (e_transform b))
  && lbeqb (e_private a) (e_private b).
Definition loc_eqb (a b : locale) : bool := li_eqb (loc_id a) (loc_id b) && ext_eqb (loc_ext a) (loc_ext b).

Fixpoint kmap_cmp (a b : kmap) : comparison :=
  match a, b with
  | [], [] => Eq
  | [], _ :: _ => Lt
  | _ :: _, [] => Gt
  | (k, v) :: a', (k', v') :: b' => then_cmp (bcmp k k') (then_cmp (lcmp v v') (kmap_cmp a' b'))
  end.
Definition ext_cmp (ea eb : extmap) : comparison :=
  then_cmp (kmap_cmp (u_keywords (e_unicode ea)) (u_keywords (e_unicode eb)))
  (then_cmp (lcmp (u_attrs (e_unicode ea)) (u_attrs (e_unicode eb)))
  (then_cmp (ocmp li_cmp (t_lang (e_transform ea)) (t_lang (e_transform eb)))
  (then_cmp (kmap_cmp (t_fields (e_transform ea)) (t_fields (e_transform eb)))
            (lcmp (e_private ea) (e_private eb))))).
Definition loc_cmp (a b : locale) : comparison :=
  then_cmp (li_cmp (loc_id a) (loc_id b)) (ext_cmp (loc_ext a) (loc_ext b)).
