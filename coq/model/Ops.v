(* Ops.v — the public mutators / getters of LanguageIdentifier and Locale as a state machine (C10).
   Arguments are RAW byte strings, validated exactly where the Rust API validates them.
   `binary_search` on the small vectors is modelled by its contract with the precondition visible:
   on an unsorted vector the outcome is unspecified (None). DEFINITIONS ONLY. *)
From UL Require Export Bytes Subtags LangId Ext Likely.
Open Scope N_scope.

Inductive op :=
(* LanguageIdentifier: public fields and variant methods *)
| OSetLang (a : bytes)                 (* id.language = a.parse()? ;  "" = Language::default() *)
| OSetScript (a : bytes)               (* id.script = Some(a.parse()?) ; "" = None *)
| OSetRegion (a : bytes)
| OSetVariants (vs : list bytes)       (* every element parsed first; any error = nothing happens *)
| OClearVariants
| OHasVariant (a : bytes)
(* -u- *)
| OKeyword (k : bytes)
| OSetKeyword (k : bytes) (vs : list bytes)
| ORemoveKeyword (k : bytes)
| OClearKeywords
| OHasAttribute (a : bytes)
| OSetAttribute (a : bytes)
| ORemoveAttribute (a : bytes)
| OClearAttributes
(* -t- *)
| OSetTlang (a : bytes)                (* a.parse::<LanguageIdentifier>()? then set_tlang *)
| OClearTlang
| OTfield (k : bytes)
| OSetTfield (k : bytes) (vs : list bytes)
| ORemoveTfield (k : bytes)
| OClearTfields
(* -x- *)
| OHasTag (a : bytes)
| OAddTag (a : bytes)
| ORemoveTag (a : bytes)
| OClearTags
(* likely subtags *)
| OMaximize
| OMinimize.

Inductive out :=
| OutUnit                      (* Ok(()) or a method without result *)
| OutBool (b : bool)
| OutList (l : list bytes)
| OutErr                       (* the call returned Err: the value must be unchanged *)
| OutPanic.

(* Vec::binary_search contract *)
Inductive bs_result := BsFound | BsMissing | BsUnspec.
Definition bsearch (l : list bytes) (x : bytes) : bs_result :=
  if sortedb l then (if memb x l then BsFound else BsMissing) else BsUnspec.

(* remove the first occurrence (Vec::remove at the index binary_search found; equal elements are
   identical, so which of several equal tags is removed cannot be observed) *)
Fixpoint remove_first (x : bytes) (l : list bytes) : list bytes :=
  match l with [] => [] | y :: r => if beqb x y then r else y :: remove_first x r end.

(* value.iter().filter_map(|t| parse_type(t).transpose()).collect::<Result<Vec<_>,_>>()? *)
Fixpoint collect_vals (p : bytes -> res (option bytes)) (vs : list bytes) : res (list bytes) :=
  match vs with
  | [] => Ok []
  | v :: r =>
    bind (p v) (fun o => bind (collect_vals p r) (fun l =>
      Ok (match o with Some x => x :: l | None => l end)))
  end.
Fixpoint collect_all (p : bytes -> res bytes) (vs : list bytes) : res (list bytes) :=
  match vs with
  | [] => Ok []
  | v :: r => bind (p v) (fun x => bind (collect_all p r) (fun l => Ok (x :: l)))
  end.

Definition set_id (s : locale) (i : langid) : locale := mkLoc i (loc_ext s).
Definition set_u (s : locale) (u : uext) : locale :=
  mkLoc (loc_id s) (mkE u (e_transform (loc_ext s)) (e_private (loc_ext s))).
Definition set_t (s : locale) (t : text) : locale :=
  mkLoc (loc_id s) (mkE (e_unicode (loc_ext s)) t (e_private (loc_ext s))).
Definition set_x (s : locale) (x : list bytes) : locale :=
  mkLoc (loc_id s) (mkE (e_unicode (loc_ext s)) (e_transform (loc_ext s)) x).

Definition of_res {A} (s : locale) (r : res A) (k : A -> option (locale * out)) : option (locale * out) :=
  match r with
  | Ok a => k a
  | Err _ => Some (s, OutErr)
  | Panic _ => Some (s, OutPanic)
  | OutOfFuel => Some (s, OutPanic)
  end.

(* None = unspecified behaviour (binary_search on an unsorted vector) *)
Definition step (T : tables) (s : locale) (o : op) : option (locale * out) :=
  let i := loc_id s in
  let u := e_unicode (loc_ext s) in
  let t := e_transform (loc_ext s) in
  let x := e_private (loc_ext s) in
  match o with
  | OSetLang a =>
    of_res s (match a with [] => Ok None | _ => language_from_bytes a end)
           (fun l => Some (set_id s (mkLangId l (li_script i) (li_region i) (li_variants i)), OutUnit))
  | OSetScript a =>
    of_res s (match a with [] => Ok None | _ => bind (script_from_bytes a) (fun v => Ok (Some v)) end)
           (fun v => Some (set_id s (mkLangId (li_lang i) v (li_region i) (li_variants i)), OutUnit))
  | OSetRegion a =>
    of_res s (match a with [] => Ok None | _ => bind (region_from_bytes a) (fun v => Ok (Some v)) end)
           (fun v => Some (set_id s (mkLangId (li_lang i) (li_script i) v (li_variants i)), OutUnit))
  | OSetVariants vs =>
    of_res s (collect_all variant_from_bytes vs) (fun l => Some (set_id s (li_set_variants i l), OutUnit))
  | OClearVariants => Some (set_id s (li_clear_variants i), OutUnit)
  | OHasVariant a => of_res s (variant_from_bytes a) (fun v => Some (s, OutBool (li_has_variant i v)))
  | OKeyword k =>
    of_res s (parse_key k) (fun k' => Some (s, OutList (match kfind k' (u_keywords u) with Some l => l | None => [] end)))
  | OSetKeyword k vs =>
    of_res s (parse_key k) (fun k' => of_res s (collect_vals parse_type vs)
      (fun l => Some (set_u s (mkU (kinsert k' l (u_keywords u)) (u_attrs u)), OutUnit)))
  | ORemoveKeyword k =>
    of_res s (parse_key k) (fun k' => let (m, b) := kremove k' (u_keywords u) in
                                      Some (set_u s (mkU m (u_attrs u)), OutBool b))
  | OClearKeywords => Some (set_u s (mkU [] (u_attrs u)), OutUnit)
  | OHasAttribute a => of_res s (parse_attribute a) (fun v => Some (s, OutBool (memb v (u_attrs u))))
  | OSetAttribute a =>
    of_res s (parse_attribute a) (fun v =>
      match bsearch (u_attrs u) v with
      | BsFound => Some (s, OutUnit)
      | BsMissing => Some (set_u s (mkU (u_keywords u) (insert_sorted v (u_attrs u))), OutUnit)
      | BsUnspec => None
      end)
  | ORemoveAttribute a =>
    of_res s (parse_attribute a) (fun v =>
      match bsearch (u_attrs u) v with
      | BsFound => Some (set_u s (mkU (u_keywords u) (remove_first v (u_attrs u))), OutBool true)
      | BsMissing => Some (s, OutBool false)
      | BsUnspec => None
      end)
  | OClearAttributes => Some (set_u s (mkU (u_keywords u) []), OutUnit)
  | OSetTlang a => of_res s (langid_from_bytes a) (fun l => Some (set_t s (mkT (Some l) (t_fields t)), OutUnit))
  | OClearTlang => Some (set_t s (mkT None (t_fields t)), OutUnit)
  | OTfield k =>
    of_res s (parse_tkey k) (fun k' => Some (s, OutList (match kfind k' (t_fields t) with Some l => l | None => [] end)))
  | OSetTfield k vs =>
    of_res s (parse_tkey k) (fun k' => of_res s (collect_vals parse_tvalue vs)
      (fun l => Some (set_t s (mkT (t_lang t) (kinsert k' l (t_fields t))), OutUnit)))
  | ORemoveTfield k =>
    of_res s (parse_tkey k) (fun k' => let (m, b) := kremove k' (t_fields t) in
                                       Some (set_t s (mkT (t_lang t) m), OutBool b))
  | OClearTfields => Some (set_t s (mkT (t_lang t) []), OutUnit)
  | OHasTag a => of_res s (parse_value a) (fun v => Some (s, OutBool (memb v x)))
  | OAddTag a => of_res s (parse_value a) (fun v => Some (set_x s (sort (x ++ [v])), OutUnit))
  | ORemoveTag a =>
    of_res s (parse_value a) (fun v =>
      match bsearch x v with
      | BsFound => Some (set_x s (remove_first v x), OutBool true)
      | BsMissing => Some (s, OutBool false)
      | BsUnspec => None
      end)
  | OClearTags => Some (set_x s [], OutUnit)
  | OMaximize => of_res s (li_maximize T i) (fun p => Some (set_id s (snd p), OutBool (fst p)))
  | OMinimize => of_res s (li_minimize T i) (fun p => Some (set_id s (snd p), OutBool (fst p)))
  end.

(* a history: the states and outputs after each step; None if some step was unspecified *)
Fixpoint run (T : tables) (s : locale) (ops : list op) : option (list (locale * out)) :=
  match ops with
  | [] => Some []
  | o :: r =>
    match step T s o with
    | None => None
    | Some (s', w) => match run T s' r with Some l => Some ((s', w) :: l) | None => None end
    end
  end.
