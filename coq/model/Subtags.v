(* Subtags.v — model of tinystr construction and of
   unic-langid-impl/src/subtags/{language,script,region,variant}.rs
   DEFINITIONS ONLY. *)
From UL Require Export Bytes.
Open Scope N_scope.

(* TinyAsciiStr<n>::from_bytes : Ok iff len <= n and every byte in 1..=127 (tinystr 0.7.6,
   from_bytes_inner with allow_trailing_null = false).  Modelled by contract. *)
Definition tiny_byte (b : N) : bool := (1 <=? b) && (b <=? 127).
Definition tiny_ok (n : nat) (s : bytes) : bool :=
  (length s <=? n)%nat && forallb tiny_byte s.

(* "und" *)
Definition und : bytes := [117; 110; 100].
(* "true" *)
Definition true_bytes : bytes := [116; 114; 117; 101].

(* Language::from_bytes.  Value: None = `und` (Language(None)). *)
Definition language_from_bytes (v : bytes) : res (option bytes) :=
  let slen := length v in
  if negb (tiny_ok 8 v) then Err InvalidLanguage
  else if negb ((2 <=? slen)%nat && (slen <=? 8)%nat) || (slen =? 4)%nat
          || negb (forallb is_alpha v)
  then Err InvalidLanguage
  else let value := lower v in
       if beqb value und then Ok None else Ok (Some value).

(* Script::from_bytes *)
Definition script_from_bytes (v : bytes) : res bytes :=
  let slen := length v in
  if negb (tiny_ok 4 v) then Err InvalidSubtag
  else if negb (slen =? 4)%nat || negb (forallb is_alpha v) then Err InvalidSubtag
  else Ok (title v).

(* Region::from_bytes *)
Definition region_from_bytes (v : bytes) : res bytes :=
  let slen := length v in
  if (slen =? 2)%nat then
    if negb (tiny_ok 4 v) then Err InvalidSubtag
    else if negb (forallb is_alpha v) then Err InvalidSubtag
    else Ok (upper v)
  else if (slen =? 3)%nat then
    if negb (tiny_ok 4 v) then Err InvalidSubtag
    else if negb (forallb is_digit v) then Err InvalidSubtag
    else Ok v
  else Err InvalidSubtag.

(* Variant::from_bytes.  `v[0]` is an index expression: modelled with an explicit Panic
   branch (site 1), evaluated only where Rust's short-circuit `&&` evaluates it. *)
Definition variant_from_bytes (v : bytes) : res bytes :=
  let slen := length v in
  if negb ((4 <=? slen)%nat && (slen <=? 8)%nat) then Err InvalidSubtag
  else if negb (tiny_ok 8 v) then Err InvalidSubtag
  else if (5 <=? slen)%nat && negb (forallb is_alnum v) then Err InvalidSubtag
  else if (slen =? 4)%nat then
    match nth_error v 0 with
    | None => Panic 1
    | Some c =>
        (* slen == 4 && (!v[0].is_ascii_digit() || !s.is_ascii_alphanumeric()) *)
        if negb (is_digit c) || negb (forallb is_alnum v) then Err InvalidSubtag
        else Ok (lower v)
    end
  else Ok (lower v).

(* integer forms: u32/u64::from_le_bytes of all_bytes — little-endian base 256 of the
   NUL-padded array; padding contributes 0, so the packing of the unpadded list. *)
Fixpoint le_pack (s : bytes) : N :=
  match s with [] => 0 | b :: r => b + 256 * le_pack r end.

(* to_le_bytes + from_bytes_unchecked + as_str (strip trailing NULs): n = 4 or 8 *)
Fixpoint le_unpack (n : nat) (x : N) : bytes :=
  match n with O => [] | S k => (x mod 256) :: le_unpack k (x / 256) end.
Fixpoint strip (s : bytes) : bytes :=
  match s with
  | [] => []
  | b :: r => match strip r with
              | [] => if b =? 0 then [] else [b]
              | r' => b :: r'
              end
  end.
Definition from_raw (n : nat) (x : N) : bytes := strip (le_unpack n x).

(* Display / as_str *)
Definition language_text (l : option bytes) : bytes :=
  match l with None => und | Some s => s end.

(* TryFrom<Option<T>> for Language *)
Definition language_try_from (v : option bytes) : res (option bytes) :=
  match v with Some l => language_from_bytes l | None => Ok None end.

(* Language::matches *)
Definition obeqb (a b : option bytes) : bool :=
  match a, b with
  | None, None => true
  | Some x, Some y => beqb x y
  | _, _ => false
  end.
Definition lang_matches (a b : option bytes) (ra rb : bool) : bool :=
  (ra && match a with None => true | _ => false end)
  || (rb && match b with None => true | _ => false end)
  || obeqb a b.
