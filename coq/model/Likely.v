(* Likely.v — model of unic-langid-impl/src/likelysubtags/mod.rs (maximize, minimize,
   lang_from_parts) and of LanguageIdentifier::{maximize, minimize, character_direction}.
   The six tables are parameters of the functions; gen/Tables.v (regenerated from tables.rs on
   every run) instantiates them.  DEFINITIONS ONLY. *)
From UL Require Export Bytes Subtags LangId.
Open Scope N_scope.

Definition tval := (option N * option N * option N)%type.
Record tables := mkTables {
  t_lang_only : list (N * tval);
  t_lang_region : list (N * N * tval);
  t_lang_script : list (N * N * tval);
  t_script_region : list (N * N * tval);
  t_script_only : list (N * tval);
  t_region_only : list (N * tval)
}.

(* TABLE.binary_search_by_key(&k, key).ok() followed by TABLE[idx].value — modelled by its
   contract: on a table strictly increasing in the key order (theorem C18_sorted) the search
   finds the unique row with that key, or nothing. *)
Fixpoint assoc1 (k : N) (l : list (N * tval)) : option tval :=
  match l with
  | [] => None
  | (k', v) :: r => if k' =? k then Some v else assoc1 k r
  end.
Fixpoint assoc2 (k1 k2 : N) (l : list (N * N * tval)) : option tval :=
  match l with
  | [] => None
  | (a, b, v) :: r => if (a =? k1) && (b =? k2) then Some v else assoc2 k1 k2 r
  end.

Definition triple := (option bytes * option bytes * option bytes)%type.  (* language (None = und), script, region *)

Definition or_else {A} (a b : option A) : option A := match a with Some _ => a | None => b end.

(* lang_from_parts: `lang` is always None at the call sites; `.unwrap()` is panic site 2.
   Language::from_raw_unchecked always builds Language(Some(_)). *)
Definition lang_from_parts (input : tval) (script region : option bytes) : res (option triple) :=
  match input with
  | (il, isc, irg) =>
    match il with
    | None => Panic 2
    | Some x =>
      Ok (Some (Some (from_raw 8 x),
                or_else script (option_map (from_raw 4) isc),
                or_else region (option_map (from_raw 4) irg)))
    end
  end.


Definition maximize (T : tables) (l s r : option bytes) : res (option triple) :=
  if is_some l && is_some s && is_some r then Ok None
  else
    match l with
    | Some lb =>
      let lk := le_pack lb in
      match (match r with Some rb => assoc2 lk (le_pack rb) (t_lang_region T) | None => None end) with
      | Some v => lang_from_parts v None None
      | None =>
        match (match s with Some sb => assoc2 lk (le_pack sb) (t_lang_script T) | None => None end) with
        | Some v => lang_from_parts v None None
        | None =>
          match assoc1 lk (t_lang_only T) with
          | Some v => lang_from_parts v s r
          | None => Ok None
          end
        end
      end
    | None =>
      match s with
      | Some sb =>
        match (match r with Some rb => assoc2 (le_pack sb) (le_pack rb) (t_script_region T) | None => None end) with
        | Some v => lang_from_parts v None None
        | None =>
          match assoc1 (le_pack sb) (t_script_only T) with
          | Some v => lang_from_parts v None r
          | None => Ok None
          end
        end
      | None =>
        match r with
        | Some rb =>
          match assoc1 (le_pack rb) (t_region_only T) with
          | Some v => lang_from_parts v None None
          | None => Ok None
          end
        | None => Ok None
        end
      end
    end.

Definition triple_eqb (a b : triple) : bool :=
  match a, b with
  | (l1, s1, r1), (l2, s2, r2) => obeqb l1 l2 && obeqb s1 s2 && obeqb r1 r2
  end.

(* the three trial forms of minimize, tried in order against the maximized identifier `mx` *)
Definition trial_hit (t : option triple) (mx : triple) : bool :=
  match t with Some t => triple_eqb t mx | None => false end.
Definition minimize_from (T : tables) (mx : triple) : res (option triple) :=
  match mx with
  | (ml, ms, mr) =>
    match maximize T ml None None with
    | Ok t1 =>
      if trial_hit t1 mx then Ok (Some (ml, None, None))
      else
        let step3 :=
          if is_some ms then
            match maximize T ml ms None with
            | Ok t3 => if trial_hit t3 mx then Ok (Some (ml, ms, None)) else Ok None
            | Err e => Err e | Panic n => Panic n | OutOfFuel => OutOfFuel
            end
          else Ok None in
        if is_some mr then
          match maximize T ml None mr with
          | Ok t2 => if trial_hit t2 mx then Ok (Some (ml, None, mr)) else step3
          | Err e => Err e | Panic n => Panic n | OutOfFuel => OutOfFuel
          end
        else step3
    | Err e => Err e | Panic n => Panic n | OutOfFuel => OutOfFuel
    end
  end.

(* minimize; `?` on the first maximize propagates None *)
Definition minimize (T : tables) (l s r : option bytes) : res (option triple) :=
  if is_some l && is_some s && is_some r then minimize_from T (l, s, r)
  else
    match maximize T l s r with
    | Ok (Some mx) => minimize_from T mx
    | Ok None => Ok None
    | Err e => Err e | Panic n => Panic n | OutOfFuel => OutOfFuel
    end.

(* LanguageIdentifier::maximize / minimize : (changed?, new value) *)
Definition li_apply (x : langid) (r : res (option triple)) : res (bool * langid) :=
  match r with
  | Ok (Some (l, s, rg)) => Ok (true, mkLangId l s rg (li_variants x))
  | Ok None => Ok (false, x)
  | Err e => Err e | Panic n => Panic n | OutOfFuel => OutOfFuel
  end.
Definition li_maximize (T : tables) (x : langid) : res (bool * langid) :=
  li_apply x (maximize T (li_lang x) (li_script x) (li_region x)).
Definition li_minimize (T : tables) (x : langid) : res (bool * langid) :=
  li_apply x (minimize T (li_lang x) (li_script x) (li_region x)).

(* ---- character_direction ---- *)
Inductive dir := LTR | RTL | TTB.
Record layout := mkLayout {
  ly_ltr : list N; ly_rtl : list N; ly_ttb : list N; ly_lang_rtl : list N
}.
Fixpoint nmem (x : N) (l : list N) : bool :=
  match l with [] => false | y :: r => (x =? y) || nmem x r end.

(* `likely` = cfg(feature = "likelysubtags") *)
(* the `(Some(lang), _) if LANGS_CHARACTER_DIRECTION_RTL.contains(&lang)` arm and the default arm *)
Definition direction_by_lang (likely : bool) (L : layout) (T : tables) (x : langid) : res dir :=
  match li_lang x with
  | Some lb =>
    if nmem (le_pack lb) (ly_lang_rtl L) then
      if likely then
        match maximize T (li_lang x) None (li_region x) with
        | Ok (Some (_, Some sc, _)) => if nmem (le_pack sc) (ly_ltr L) then Ok LTR else Ok RTL
        | Ok _ => Ok RTL
        | Err e => Err e | Panic n => Panic n | OutOfFuel => OutOfFuel
        end
      else Ok RTL
    else Ok LTR
  | None => Ok LTR
  end.

Definition direction (likely : bool) (L : layout) (T : tables) (x : langid) : res dir :=
  match li_script x with
  | Some sc =>
    let k := le_pack sc in
    if nmem k (ly_ltr L) then Ok LTR
    else if nmem k (ly_rtl L) then Ok RTL
    else if nmem k (ly_ttb L) then Ok TTB
    else direction_by_lang likely L T x
  | None => direction_by_lang likely L T x
  end.
