(* Macros.v — model of what the proc macros of unic-langid-macros-impl / unic-locale-macros-impl
   emit and of evaluating it: every subtag travels as its integer form through
   `from_raw_unchecked`; `lang!` of an empty language is `Language::default()`; `locale!` emits the
   extension STRING and re-parses it at run time with `.expect("must parse")`.
   rustc, proc-macro-hack hygiene and spans are NOT modelled. *)
From UL Require Export Bytes Subtags LangId Ext.
Open Scope N_scope.

Inductive mval (A : Type) :=
| MValue (a : A)          (* compiles and evaluates to a *)
| MCompileError           (* the proc macro panics: `.expect("Malformed ...")` at expansion time *)
| MRuntimePanic.          (* compiles; `.expect("must parse")` fails when the expression is evaluated *)
Arguments MValue {A} a.
Arguments MCompileError {A}.
Arguments MRuntimePanic {A}.

(* the integer literal in the emitted code and `from_raw_unchecked` on it *)
Definition via_raw (n : nat) (s : bytes) : bytes := from_raw n (le_pack s).

Definition macro_lang (lit : bytes) : mval (option bytes) :=
  match language_from_bytes lit with
  | Ok (Some l) => MValue (Some (via_raw 8 l))
  | Ok None => MValue None                      (* $crate::subtags::Language::default() *)
  | _ => MCompileError
  end.
Definition macro_script (lit : bytes) : mval bytes :=
  match script_from_bytes lit with Ok s => MValue (via_raw 4 s) | _ => MCompileError end.
Definition macro_region (lit : bytes) : mval bytes :=
  match region_from_bytes lit with Ok s => MValue (via_raw 4 s) | _ => MCompileError end.
Definition macro_variant (lit : bytes) : mval bytes :=
  match variant_from_bytes lit with Ok s => MValue (via_raw 8 s) | _ => MCompileError end.

Definition raw_langid (x : langid) : langid :=
  match li_into_parts x with
  | (l, s, r, vs) =>
    mkLangId (option_map (via_raw 8) l) (option_map (via_raw 4) s) (option_map (via_raw 4) r)
             (match vs with [] => None | _ => Some (map (via_raw 8) vs) end)
  end.
Definition macro_langid (lit : bytes) : mval langid :=
  match langid_from_bytes lit with Ok x => MValue (raw_langid x) | _ => MCompileError end.

Definition macro_locale (lit : bytes) : mval locale :=
  match locale_from_bytes lit with
  | Ok l =>
    match extmap_from_bytes (ext_to_string (loc_ext l)) with
    | Ok e => MValue (mkLoc (raw_langid (loc_id l)) e)
    | _ => MRuntimePanic
    end
  | _ => MCompileError
  end.
