(* LangId.v — model of unic-langid-impl/src/parser/mod.rs and the LanguageIdentifier part of
   unic-langid-impl/src/lib.rs.  DEFINITIONS ONLY. *)
From UL Require Export Bytes Subtags.
Open Scope N_scope.

(* LanguageIdentifier { language, script, region, variants: Option<Box<[Variant]>> }
   `variants` is NOT flattened: None and Some [] are different Rust values (C12/C17). *)
Record langid := mkLangId {
  li_lang : option bytes;            (* None = und *)
  li_script : option bytes;
  li_region : option bytes;
  li_variants : option (list bytes)
}.

Definition langid_default : langid := mkLangId None None None None.

Inductive pos := P1 | P2 | P3.

(* the `while let Some(subtag) = iter.peek()` loop; returns the fields and the unconsumed tokens.
   `vs` accumulates in push order. *)
Fixpoint li_loop (p : pos) (sc rg : option bytes) (vs : list bytes) (toks : list bytes)
  : option bytes * option bytes * list bytes * list bytes :=
  match toks with
  | [] => (sc, rg, vs, [])
  | t :: rest =>
    match p with
    | P1 =>
      match script_from_bytes t with
      | Ok s => li_loop P2 (Some s) rg vs rest
      | _ =>
        match region_from_bytes t with
        | Ok r => li_loop P3 sc (Some r) vs rest
        | _ =>
          match variant_from_bytes t with
          | Ok v => li_loop P3 sc rg (vs ++ [v]) rest
          | _ => (sc, rg, vs, toks)
          end
        end
      end
    | P2 =>
      match region_from_bytes t with
      | Ok r => li_loop P3 sc (Some r) vs rest
      | _ =>
        match variant_from_bytes t with
        | Ok v => li_loop P3 sc rg (vs ++ [v]) rest
        | _ => (sc, rg, vs, toks)
        end
      end
    | P3 =>
      match variant_from_bytes t with
      | Ok v => li_loop P3 sc rg (vs ++ [v]) rest
      | _ => (sc, rg, vs, toks)
      end
    end
  end.

(* variants.sort_unstable(); variants.dedup(); None when empty *)
Definition norm_variants (vs : list bytes) : option (list bytes) :=
  match vs with [] => None | _ => Some (dedup (sort vs)) end.

(* parse_language_identifier_from_iter(iter, allow_extension): result + unconsumed tokens.
   `toks = []` models an exhausted iterator (iter.next() = None -> Language::default()). *)
Definition langid_from_iter (toks : list bytes) (allow_extension : bool) : res (langid * list bytes) :=
  let lang_rest :=
    match toks with
    | [] => Ok (None, [])
    | t :: rest => match language_from_bytes t with
                   | Ok l => Ok (l, rest)
                   | Err e => Err e
                   | Panic n => Panic n
                   | OutOfFuel => OutOfFuel
                   end
    end in
  match lang_rest with
  | Ok (l, rest) =>
    match li_loop P1 None None [] rest with
    | (sc, rg, vs, rem) =>
      if negb allow_extension && negb (match rem with [] => true | _ => false end)
      then Err InvalidSubtag
      else Ok (mkLangId l sc rg (norm_variants vs), rem)
    end
  | Err e => Err e
  | Panic n => Panic n
  | OutOfFuel => OutOfFuel
  end.

(* parse_language_identifier / LanguageIdentifier::from_bytes / FromStr *)
Definition langid_from_bytes (s : bytes) : res langid :=
  match langid_from_iter (split s) false with
  | Ok (v, _) => Ok v
  | Err e => Err e
  | Panic n => Panic n
  | OutOfFuel => OutOfFuel
  end.

(* from_parts / set_variants / clear_variants / has_variant / variants() / into_parts *)
Definition li_from_parts (l : option bytes) (sc rg : option bytes) (vs : list bytes) : langid :=
  mkLangId l sc rg (match vs with [] => None | _ => Some (dedup (sort vs)) end).
Definition li_set_variants (x : langid) (vs : list bytes) : langid :=
  mkLangId (li_lang x) (li_script x) (li_region x)
           (match vs with [] => None | _ => Some (dedup (sort vs)) end).
Definition li_clear_variants (x : langid) : langid :=
  mkLangId (li_lang x) (li_script x) (li_region x) None.
Definition li_variants_list (x : langid) : list bytes :=
  match li_variants x with Some v => v | None => [] end.
Definition li_has_variant (x : langid) (v : bytes) : bool := memb v (li_variants_list x).
Definition li_into_parts (x : langid) : option bytes * option bytes * option bytes * list bytes :=
  (li_lang x, li_script x, li_region x, li_variants_list x).

(* Display *)
Definition opt_tok (o : option bytes) : list bytes := match o with Some s => [s] | None => [] end.
Definition li_tokens (x : langid) : list bytes :=
  language_text (li_lang x) :: opt_tok (li_script x) ++ opt_tok (li_region x) ++ li_variants_list x.
Definition li_to_string (x : langid) : bytes := join (li_tokens x).

(* canonicalize *)
Definition li_canonicalize (s : bytes) : res bytes :=
  match langid_from_bytes s with
  | Ok v => Ok (li_to_string v)
  | Err e => Err e
  | Panic n => Panic n
  | OutOfFuel => OutOfFuel
  end.

(* matches *)
Definition is_none {A} (o : option A) : bool := match o with None => true | _ => false end.
Definition is_some {A} (o : option A) : bool := match o with Some _ => true | None => false end.
Definition opt_matches (a b : option bytes) (ra rb : bool) : bool :=
  (ra && is_none a) || (rb && is_none b) || obeqb a b.
Fixpoint lbeqb (a b : list bytes) : bool :=
  match a, b with
  | [], [] => true
  | x :: a', y :: b' => beqb x y && lbeqb a' b'
  | _, _ => false
  end.
Definition olbeqb (a b : option (list bytes)) : bool :=
  match a, b with
  | None, None => true
  | Some x, Some y => lbeqb x y
  | _, _ => false
  end.
Definition is_option_empty (a : option (list bytes)) : bool :=
  match a with None => true | Some [] => true | Some _ => false end.
Definition vars_match (a b : option (list bytes)) (ra rb : bool) : bool :=
  (ra && is_option_empty a) || (rb && is_option_empty b) || olbeqb a b.
Definition li_matches (a b : langid) (ra rb : bool) : bool :=
  lang_matches (li_lang a) (li_lang b) ra rb
  && opt_matches (li_script a) (li_script b) ra rb
  && opt_matches (li_region a) (li_region b) ra rb
  && vars_match (li_variants a) (li_variants b) ra rb.

(* derived PartialEq / Ord (field declaration order; None < Some; slices lexicographic) *)
Definition li_eqb (a b : langid) : bool :=
  obeqb (li_lang a) (li_lang b) && obeqb (li_script a) (li_script b)
  && obeqb (li_region a) (li_region b) && olbeqb (li_variants a) (li_variants b).

Definition ocmp {A} (c : A -> A -> comparison) (a b : option A) : comparison :=
  match a, b with
  | None, None => Eq
  | None, Some _ => Lt
  | Some _, None => Gt
  | Some x, Some y => c x y
  end.
Fixpoint lcmp (a b : list bytes) : comparison :=
  match a, b with
  | [], [] => Eq
  | [], _ :: _ => Lt
  | _ :: _, [] => Gt
  | x :: a', y :: b' => match bcmp x y with Eq => lcmp a' b' | c => c end
  end.
Definition then_cmp (c d : comparison) : comparison := match c with Eq => d | _ => c end.
Definition li_cmp (a b : langid) : comparison :=
  then_cmp (ocmp bcmp (li_lang a) (li_lang b))
  (then_cmp (ocmp bcmp (li_script a) (li_script b))
  (then_cmp (ocmp bcmp (li_region a) (li_region b))
            (ocmp lcmp (li_variants a) (li_variants b)))).
