(* Serde.v — model of unic-langid-impl/src/serde.rs: Serialize = serialize_str(to_string),
   Deserialize = deserialize_string + a visitor that implements only visit_str -> FromStr.
   serde / serde_json themselves are NOT modelled: a self-describing format is abstracted as this
   value type, and a visitor without visit_<kind> answers "invalid type" for that kind. *)
From UL Require Export Bytes Subtags LangId.
Open Scope N_scope.

Inductive json :=
| JNull | JBool (b : bool) | JNum (n : N) | JStr (s : bytes)
| JArr (l : list json) | JObj (l : list (bytes * json)).

Definition ser (x : langid) : json := JStr (li_to_string x).
(* any parse error or type mismatch becomes a serde error; the kind is not observable *)
Definition de (j : json) : res langid :=
  match j with
  | JStr s => match langid_from_bytes s with Ok v => Ok v | Err _ => Err InvalidSubtag | Panic n => Panic n | OutOfFuel => OutOfFuel end
  | _ => Err InvalidSubtag
  end.
