(* Ext.v — model of unic-locale-impl/src/extensions/{unicode,transform,private,mod}.rs and of
   unic-locale-impl/src/{parser/mod.rs,lib.rs}.  DEFINITIONS ONLY.
   BTreeMap<TinyStr4, Vec<TinyStr8>> = strictly key-sorted association list (by contract). *)
From UL Require Export Bytes Subtags LangId.
Open Scope N_scope.

Definition kmap := list (bytes * list bytes).

Fixpoint kinsert (k : bytes) (v : list bytes) (m : kmap) : kmap :=
  match m with
  | [] => [(k, v)]
  | (k', v') :: r =>
    match bcmp k k' with
    | Lt => (k, v) :: m
    | Eq => (k, v) :: r
    | Gt => (k', v') :: kinsert k v r
    end
  end.
Fixpoint kremove (k : bytes) (m : kmap) : kmap * bool :=
  match m with
  | [] => ([], false)
  | (k', v') :: r =>
    if beqb k k' then (r, true)
    else let (r', b) := kremove k r in ((k', v') :: r', b)
  end.
Fixpoint kfind (k : bytes) (m : kmap) : option (list bytes) :=
  match m with
  | [] => None
  | (k', v') :: r => if beqb k k' then Some v' else kfind k r
  end.

(* propagate non-Ok results *)
Definition bind {A B} (r : res A) (f : A -> res B) : res B :=
  match r with Ok a => f a | Err e => Err e | Panic n => Panic n | OutOfFuel => OutOfFuel end.

(* ------------------------------------------------------------------ unicode.rs *)
(* parse_key: `key.len() != 2 || !key[0].is_ascii_alphanumeric() || !key[1].is_ascii_alphabetic()`;
   the two index expressions are panic sites 3 and 4, guarded by the length test *)
Definition parse_key (key : bytes) : res bytes :=
  if negb (length key =? 2)%nat then Err InvalidSubtag
  else match nth_error key 0 with
       | None => Panic 3
       | Some a =>
         if negb (is_alnum a) then Err InvalidSubtag
         else match nth_error key 1 with
              | None => Panic 4
              | Some b =>
                if negb (is_alpha b) then Err InvalidSubtag
                else if negb (tiny_ok 4 key) then Err InvalidSubtag
                else Ok (lower key)
              end
       end.

(* parse_type / parse_tvalue: Ok None = the value `true` (dropped) *)
Definition parse_type (t : bytes) : res (option bytes) :=
  if negb (tiny_ok 8 t) then Err InvalidSubtag
  else if negb ((3 <=? length t)%nat && (length t <=? 8)%nat) || negb (forallb is_alnum t) then Err InvalidSubtag
  else let s := lower t in if beqb s true_bytes then Ok None else Ok (Some s).

Definition parse_attribute (t : bytes) : res bytes :=
  if negb (tiny_ok 8 t) then Err InvalidSubtag
  else if negb ((3 <=? length t)%nat && (length t <=? 8)%nat) || negb (forallb is_alnum t) then Err InvalidSubtag
  else Ok (lower t).

Definition is_type (t : bytes) : bool :=
  (3 <=? length t)%nat && (length t <=? 8)%nat && negb (existsb (fun c => negb (is_alnum c)) t).
Definition is_attribute (t : bytes) : bool := is_type t.

Record uext := mkU { u_keywords : kmap; u_attrs : list bytes }.
Definition uext_default : uext := mkU [] [].
Definition u_is_empty (u : uext) : bool :=
  match u_keywords u, u_attrs u with [], [] => true | _, _ => false end.

Definition flush (cur : option bytes) (types : list bytes) (m : kmap) : kmap :=
  match cur with Some k => kinsert k types m | None => m end.

(* UnicodeExtensionList::try_from_iter: the peek loop; returns the list and the unconsumed tokens *)
Fixpoint u_loop (cur : option bytes) (types : list bytes) (kws : kmap) (attrs : list bytes)
         (toks : list bytes) : res (uext * list bytes) :=
  match toks with
  | [] => Ok (mkU (flush cur types kws) (dedup (sort attrs)), [])
  | t :: rest =>
    if (length t =? 2)%nat then
      bind (parse_key t) (fun k => u_loop (Some k) [] (flush cur types kws) attrs rest)
    else if is_some cur && is_type t then
      bind (parse_type t) (fun ty =>
        match ty with
        | Some v => u_loop cur (types ++ [v]) kws attrs rest
        | None => u_loop cur types kws attrs rest
        end)
    else if is_attribute t then
      bind (parse_attribute t) (fun a => u_loop cur types kws (attrs ++ [a]) rest)
    else Ok (mkU (flush cur types kws) (dedup (sort attrs)), toks)
  end.
Definition u_parse (toks : list bytes) : res (uext * list bytes) := u_loop None [] [] [] toks.

(* ------------------------------------------------------------------ transform.rs *)
Definition tkey_shape (t : bytes) : bool :=
  (* slen == 2 && subtag[0].is_ascii_alphabetic() && subtag[1].is_ascii_digit() *)
  match t with [a; b] => is_alpha a && is_digit b | _ => false end.

(* parse_tkey: same shape test with two index expressions (panic sites 5, 6) *)
Definition parse_tkey (key : bytes) : res bytes :=
  if negb (length key =? 2)%nat then Err InvalidSubtag
  else match nth_error key 0 with
       | None => Panic 5
       | Some a =>
         if negb (is_alpha a) then Err InvalidSubtag
         else match nth_error key 1 with
              | None => Panic 6
              | Some b =>
                if negb (is_digit b) then Err InvalidSubtag
                else if negb (tiny_ok 4 key) then Err InvalidSubtag
                else Ok (lower key)
              end
       end.

Definition parse_tvalue (t : bytes) : res (option bytes) :=
  if negb (tiny_ok 8 t) then Err InvalidSubtag
  else if (length t <? 3)%nat || (8 <? length t)%nat || negb (forallb is_alnum t) then Err InvalidSubtag
  else let s := lower t in if beqb s true_bytes then Ok None else Ok (Some s).

Definition is_language_subtag (t : bytes) : bool :=
  (((2 <=? length t)%nat && (length t <=? 8)%nat) || (length t =? 4)%nat)
  && negb (existsb (fun c => negb (is_alpha c)) t).

Record text := mkT { t_lang : option langid; t_fields : kmap }.
Definition text_default : text := mkT None [].
Definition t_is_empty (t : text) : bool :=
  match t_lang t, t_fields t with None, [] => true | _, _ => false end.

(* TransformExtensionList::try_from_iter.  The tlang branch hands the shared iterator to the
   langid parser, so the recursion is not structural: explicit fuel; the theorem C01_fuel_t shows
   S (length toks) always suffices (every iteration consumes a token, breaks or errors). *)
Fixpoint t_loop (fuel : nat) (cur : option bytes) (vals : list bytes) (tf : kmap) (tl : option langid)
         (toks : list bytes) : res (text * list bytes) :=
  match fuel with
  | O => OutOfFuel
  | S f =>
    match toks with
    | [] => Ok (mkT tl (flush cur vals tf), [])
    | t :: rest =>
      if tkey_shape t then
        bind (parse_tkey t) (fun k => t_loop f (Some k) [] (flush cur vals tf) tl rest)
      else if (length t =? 1)%nat then Ok (mkT tl (flush cur vals tf), toks)
      else if is_some cur then
        bind (parse_tvalue t) (fun tv =>
          match tv with
          | Some v => t_loop f cur (vals ++ [v]) tf tl rest
          | None => t_loop f cur vals tf tl rest
          end)
      else if is_none tl && is_language_subtag t then
        match langid_from_iter toks true with
        | Ok (v, rem) => t_loop f cur vals tf (Some v) rem
        | Err _ => Err InvalidLanguage
        | Panic n => Panic n
        | OutOfFuel => OutOfFuel
        end
      else Ok (mkT tl (flush cur vals tf), toks)
    end
  end.
Definition t_parse (toks : list bytes) : res (text * list bytes) :=
  t_loop (S (length toks)) None [] [] None toks.

(* ------------------------------------------------------------------ private.rs *)
Definition parse_value (t : bytes) : res bytes :=
  if negb (tiny_ok 8 t) then Err InvalidSubtag
  else if (match t with [] => true | _ => false end) || (8 <? length t)%nat || negb (forallb is_alnum t)
  then Err InvalidSubtag
  else Ok (lower t).

Fixpoint x_collect (toks : list bytes) : res (list bytes) :=
  match toks with
  | [] => Ok []
  | t :: rest => bind (parse_value t) (fun v => bind (x_collect rest) (fun r => Ok (v :: r)))
  end.
(* PrivateExtensionList::try_from_iter: consumes the iterator to its end, then sort_unstable *)
Definition x_parse (toks : list bytes) : res (list bytes) := bind (x_collect toks) (fun l => Ok (sort l)).

(* ------------------------------------------------------------------ extensions/mod.rs *)
Inductive ext_type := EUnicode | ETransform | EPrivate | EOther (c : N).
Definition ext_type_from_byte (key : N) : res ext_type :=
  let k := to_lower key in
  if k =? 117 then Ok EUnicode
  else if k =? 116 then Ok ETransform
  else if k =? 120 then Ok EPrivate
  else if is_alnum k then Ok (EOther k)
  else Err InvalidExtension.

Record extmap := mkE { e_unicode : uext; e_transform : text; e_private : list bytes }.
Definition extmap_default : extmap := mkE uext_default text_default [].
Definition e_is_empty (e : extmap) : bool :=
  u_is_empty (e_unicode e) && t_is_empty (e_transform e) && (match e_private e with [] => true | _ => false end).

(* ExtensionsMap::try_from_iter: dispatch on the singleton; each extension parser consumes from the
   shared iterator; an empty token is skipped; anything else is an error. *)
Fixpoint dispatch (fuel : nat) (seen_u seen_t : bool) (acc : extmap) (toks : list bytes) : res extmap :=
  match fuel with
  | O => OutOfFuel
  | S f =>
    match toks with
    | [] => Ok acc
    | t :: rest =>
      if (1 <? length t)%nat then Err InvalidExtension
      else
        match t with
        | [] => dispatch f seen_u seen_t acc rest
        | b :: _ =>
          match ext_type_from_byte b with
          | Ok EUnicode =>
            if seen_u then Err InvalidExtension
            else bind (u_parse rest) (fun ur =>
                   dispatch f true seen_t (mkE (fst ur) (e_transform acc) (e_private acc)) (snd ur))
          | Ok ETransform =>
            if seen_t then Err InvalidExtension
            else bind (t_parse rest) (fun tr =>
                   dispatch f seen_u true (mkE (e_unicode acc) (fst tr) (e_private acc)) (snd tr))
          | Ok EPrivate =>
            bind (x_parse rest) (fun x => Ok (mkE (e_unicode acc) (e_transform acc) x))
          | _ => Err InvalidExtension
          end
        end
    end
  end.
Definition ext_from_iter (toks : list bytes) : res extmap :=
  dispatch (S (length toks)) false false extmap_default toks.
(* ExtensionsMap::from_bytes / FromStr *)
Definition extmap_from_bytes (s : bytes) : res extmap := ext_from_iter (split s).

(* ------------------------------------------------------------------ Locale *)
Record locale := mkLoc { loc_id : langid; loc_ext : extmap }.
Definition locale_default : locale := mkLoc langid_default extmap_default.

(* parse_locale: langid with allow_extension = true (any langid error becomes InvalidLanguage),
   then the extensions *)
Definition locale_from_bytes (s : bytes) : res locale :=
  match langid_from_iter (split s) true with
  | Ok (id, rem) => bind (ext_from_iter rem) (fun e => Ok (mkLoc id e))
  | Err _ => Err InvalidLanguage
  | Panic n => Panic n
  | OutOfFuel => OutOfFuel
  end.

(* ------------------------------------------------------------------ Display *)
Definition kmap_tokens (m : kmap) : list bytes := flat_map (fun kv => fst kv :: snd kv) m.
Definition u_tokens (u : uext) : list bytes :=
  if u_is_empty u then [] else [117] :: u_attrs u ++ kmap_tokens (u_keywords u).
Definition t_tokens (t : text) : list bytes :=
  if t_is_empty t then []
  else [116] :: (match t_lang t with Some l => li_tokens l | None => [] end) ++ kmap_tokens (t_fields t).
Definition x_tokens (x : list bytes) : list bytes :=
  match x with [] => [] | _ => [120] :: x end.
(* "-t.." "-u.." "-x.." : alphabetic by singleton *)
Definition ext_tokens (e : extmap) : list bytes :=
  t_tokens (e_transform e) ++ u_tokens (e_unicode e) ++ x_tokens (e_private e).
(* ExtensionsMap::to_string starts with '-' when non-empty *)
Definition ext_to_string (e : extmap) : bytes :=
  match ext_tokens e with [] => [] | l => 45 :: join l end.
Definition loc_tokens (l : locale) : list bytes := li_tokens (loc_id l) ++ ext_tokens (loc_ext l).
Definition loc_to_string (l : locale) : bytes := join (loc_tokens l).

Definition loc_canonicalize (s : bytes) : res bytes := bind (locale_from_bytes s) (fun l => Ok (loc_to_string l)).

(* Locale::matches *)
Definition loc_matches (a b : locale) (ra rb : bool) : bool :=
  match e_private (loc_ext a), e_private (loc_ext b) with
  | [], [] => li_matches (loc_id a) (loc_id b) ra rb
  | _, _ => false
  end.

(* from_parts / into_parts *)
Definition loc_from_parts (l : option bytes) (s r : option bytes) (vs : list bytes) (e : option extmap) : locale :=
  mkLoc (li_from_parts l s r vs) (match e with Some x => x | None => extmap_default end).
Definition loc_into_parts (x : locale) :=
  (li_into_parts (loc_id x), ext_to_string (loc_ext x)).
