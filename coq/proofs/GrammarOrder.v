(* GrammarOrder.v — C09 read on the relational grammar (spec/LocaleGrammar.v): the value a well-formed
   identifier denotes does not depend on the order of -u- keywords / -t- fields with distinct keys, on the
   order or repetition of -u- attributes and of variants, nor on which of -u- / -t- comes first; hence (by
   C03_accepts_every_wellformed) any two such spellings, in any case and with any separators, parse equal. *)
From UL Require Import Bytes Subtags LangId Ext Grammar LangIdSpec LocaleInv AbstractLocale LocaleSpec LocaleGrammar
                       BytesProofs SortProofs SplitProofs LangIdProofs CanonProofs ExtProofs RoundTrip KvProofs LocaleSpecProofs StringLevel
                       LocaleGrammarProofs.
From Coq Require Import Permutation Lia.
Open Scope N_scope.

Lemma kv_sort_groups_perm gs gs' : NoDup (group_keys gs) -> Permutation gs gs' ->
  kv_sort (map norm_group gs) = kv_sort (map norm_group gs') /\ NoDup (group_keys gs').
Proof.
  intros Hn P. assert (Hn' : NoDup (group_keys gs')) by (eapply Permutation_NoDup; [apply Permutation_map; exact P|exact Hn]).
  split; [|exact Hn'].
  assert (Hu : kuniq (map norm_group gs)) by (unfold kuniq, keys; rewrite keys_norm; exact Hn).
  assert (Hu' : kuniq (map norm_group gs')) by (unfold kuniq, keys; rewrite keys_norm; exact Hn').
  apply ksorted_unique; [apply kv_sort_ksorted; exact Hu|apply kv_sort_ksorted; exact Hu'|].
  intros x. rewrite !kv_sort_In. pose proof (Permutation_map norm_group P) as PM.
  split; intros H; [eapply Permutation_in; [exact PM|exact H]|eapply Permutation_in; [apply Permutation_sym; exact PM|exact H]].
Qed.

Lemma forallb_perm {A} (p : A -> bool) l l' : Permutation l l' -> forallb p l = true -> forallb p l' = true.
Proof.
  intros P H. apply forallb_forall. intros x Hx. rewrite forallb_forall in H. apply H.
  eapply Permutation_in; [apply Permutation_sym; exact P|exact Hx].
Qed.

(* -u- keywords with distinct keys in any order; attributes in any order, repeated or not *)
Theorem WFU_reorder attrs attrs' kws kws' :
  forallb attr_tok attrs = true -> forallb ukeyword_ok kws = true -> NoDup (group_keys kws) ->
  forallb attr_tok attrs' = true -> (forall y, In y (map lower attrs) <-> In y (map lower attrs')) ->
  Permutation kws kws' -> (attrs' <> [] \/ kws' <> []) ->
  WFU (attrs' ++ flat_map group_tokens kws') (mkU (kv_sort (map norm_group kws)) (dedup (sort (map lower attrs)))).
Proof.
  intros Ha Hk Hn Ha' Hset P Hne. destruct (kv_sort_groups_perm kws kws' Hn P) as [-> Hn'].
  change (dedup (sort (map lower attrs))) with (canon (map lower attrs)). rewrite (canon_same_set _ _ Hset). unfold canon. constructor; [exact Ha'|exact (forallb_perm _ _ _ P Hk)|exact Hne|exact Hn'].
Qed.

(* -t- fields with distinct keys in any order (behind the same tlang, or none) *)
Theorem WFT_reorder_fields fields fields' :
  forallb tfield_ok fields = true -> NoDup (group_keys fields) -> Permutation fields fields' -> fields <> [] ->
  WFT (flat_map group_tokens fields') (mkT None (kv_sort (map norm_group fields))).
Proof.
  intros Hf Hn P Hne. destruct (kv_sort_groups_perm fields fields' Hn P) as [-> Hn'].
  apply WFT_fields; [|exact (forallb_perm _ _ _ P Hf)|exact Hn'].
  intros ->. apply Permutation_sym, Permutation_nil in P. congruence.
Qed.
Theorem WFT_reorder_lang tl v fields fields' :
  WFLangIdT tl v -> forallb tfield_ok fields = true -> NoDup (group_keys fields) -> Permutation fields fields' ->
  WFT (tl ++ flat_map group_tokens fields') (mkT (Some v) (kv_sort (map norm_group fields))).
Proof.
  intros W Hf Hn P. destruct (kv_sort_groups_perm fields fields' Hn P) as [-> Hn'].
  apply WFT_lang; [exact W|exact (forallb_perm _ _ _ P Hf)|exact Hn'].
Qed.

(* -u- before -t- or -t- before -u-: the same pair of values *)
Theorem WFUT_swap su ub u st tb t :
  single_is 117 su = true -> WFU ub u -> single_is 116 st = true -> WFT tb t ->
  WFUT (su :: ub ++ st :: tb) u t /\ WFUT (st :: tb ++ su :: ub) u t.
Proof. intros. split; [apply UT_ut|apply UT_tu]; assumption. Qed.

(* variants in any order, repeated or not: the same identifier value *)
Theorem WFLangIdT_variants l sc rg vs vs' :
  lang_tok l = true -> match sc with Some t => script_tok t = true | None => True end ->
  match rg with Some t => region_tok t = true | None => True end ->
  forallb variant_tok vs = true -> forallb variant_tok vs' = true ->
  (forall y, In y (map lower vs) <-> In y (map lower vs')) ->
  exists v, WFLangIdT (l :: opt_tok sc ++ opt_tok rg ++ vs) v /\ WFLangIdT (l :: opt_tok sc ++ opt_tok rg ++ vs') v.
Proof.
  intros Hl Hs Hr Hv Hv' Hset. eexists. split; [constructor; assumption|].
  rewrite (spec_variants_same_set _ _ Hset). constructor; assumption.
Qed.

(* consequence: two well-formed spellings that denote the same value parse equal - whatever their letter
   case and separators *)
Theorem same_value_same_parse toks toks' seps seps' v :
  WFLocale toks v -> WFLocale toks' v -> forallb is_sep seps = true -> forallb is_sep seps' = true ->
  locale_from_bytes (weave toks seps) = locale_from_bytes (weave toks' seps').
Proof. intros W W' S S'. rewrite (WFLocale_accepted _ _ _ W S), (WFLocale_accepted _ _ _ W' S'). reflexivity. Qed.
