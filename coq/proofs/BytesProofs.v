(* BytesProofs.v — lemmas about Bytes.v *)
From UL Require Import Bytes.
From Coq Require Import Lia ZifyBool ZifyN.
Open Scope N_scope.
Arguments N.add : simpl never.
Arguments N.sub : simpl never.
Arguments N.mul : simpl never.
Arguments N.leb : simpl never.
Arguments N.ltb : simpl never.
Arguments N.eqb : simpl never.

Lemma forallb_imp {A} (p q : A -> bool) (l : list A) :
  (forall x, p x = true -> q x = true) -> forallb p l = true -> forallb q l = true.
Proof.
  intros H; induction l as [|x l IH]; cbn [forallb]; [reflexivity|].
  intros Hx; apply andb_true_iff in Hx as [H1 H2].
  rewrite (H _ H1), (IH H2); reflexivity.
Qed.

Lemma beqb_refl a : beqb a a = true.
Proof. induction a as [|x a IH]; cbn [beqb]; [reflexivity|]. rewrite N.eqb_refl, IH; reflexivity. Qed.

Lemma beqb_eq a b : beqb a b = true <-> a = b.
Proof.
  split.
  - revert b; induction a as [|x a IH]; intros [|y b]; cbn [beqb]; try discriminate; [reflexivity|].
    intros H; apply andb_true_iff in H as [H1 H2]. apply N.eqb_eq in H1. f_equal; auto.
  - intros ->; apply beqb_refl.
Qed.

Lemma beqb_false a b : beqb a b = false <-> a <> b.
Proof.
  split.
  - intros H E. apply beqb_eq in E. congruence.
  - intros H. destruct (beqb a b) eqn:E; [apply beqb_eq in E; contradiction|reflexivity].
Qed.

Lemma bcmp_eq a b : bcmp a b = Eq <-> a = b.
Proof.
  split.
  - revert b; induction a as [|x a IH]; intros [|y b]; cbn [bcmp]; try discriminate; [reflexivity|].
    destruct (x ?= y) eqn:E; try discriminate. apply N.compare_eq in E. intros H; f_equal; auto.
  - intros ->. induction b as [|y b IH]; cbn [bcmp]; [reflexivity|]. rewrite N.compare_refl; exact IH.
Qed.

Lemma bcmp_antisym a b : bcmp b a = CompOpp (bcmp a b).
Proof.
  revert b; induction a as [|x a IH]; intros [|y b]; cbn [bcmp]; try reflexivity.
  rewrite (N.compare_antisym x y). destruct (x ?= y); cbn [CompOpp]; auto.
Qed.

Lemma bcmp_lt_trans a b c : bcmp a b = Lt -> bcmp b c = Lt -> bcmp a c = Lt.
Proof.
  revert b c; induction a as [|x a IH]; intros [|y b] [|z c]; cbn [bcmp]; try discriminate; auto.
  destruct (x ?= y) eqn:E1; try discriminate; destruct (y ?= z) eqn:E2; try discriminate; intros H1 H2.
  - apply N.compare_eq in E1, E2; subst. rewrite N.compare_refl. eauto.
  - apply N.compare_eq in E1; subst. rewrite E2; reflexivity.
  - apply N.compare_eq in E2; subst. rewrite E1; reflexivity.
  - rewrite N.compare_lt_iff in *. assert (x < z) by lia. rewrite <- N.compare_lt_iff in H. rewrite H. reflexivity.
Qed.

Lemma bltb_trans a b c : bltb a b = true -> bltb b c = true -> bltb a c = true.
Proof.
  unfold bltb. destruct (bcmp a b) eqn:E1; try discriminate. destruct (bcmp b c) eqn:E2; try discriminate.
  intros _ _. rewrite (bcmp_lt_trans _ _ _ E1 E2). reflexivity.
Qed.

Lemma bltb_irrefl a : bltb a a = false.
Proof. unfold bltb. assert (bcmp a a = Eq) as -> by (apply bcmp_eq; reflexivity). reflexivity. Qed.

Lemma bleb_total a b : bleb a b = true \/ bleb b a = true.
Proof. unfold bleb. rewrite (bcmp_antisym a b). destruct (bcmp a b); cbn; auto. Qed.

Lemma bleb_antisym a b : bleb a b = true -> bleb b a = true -> a = b.
Proof.
  unfold bleb. rewrite (bcmp_antisym a b). destruct (bcmp a b) eqn:E; cbn; try discriminate.
  intros _ _. apply bcmp_eq; exact E.
Qed.

Lemma bleb_lt_or_eq a b : bleb a b = true <-> bltb a b = true \/ a = b.
Proof.
  unfold bleb, bltb. destruct (bcmp a b) eqn:E; split; auto; try discriminate.
  - intros _. right. apply bcmp_eq; exact E.
  - intros [H|H]; [discriminate|]. apply bcmp_eq in H. congruence.
Qed.

Lemma bltb_not_bleb a b : bltb a b = negb (bleb b a).
Proof. unfold bltb, bleb. rewrite (bcmp_antisym a b). destruct (bcmp a b); reflexivity. Qed.

(* case folding *)
Lemma to_lower_alpha b : is_alpha b = true -> is_lower (to_lower b) = true.
Proof. unfold is_alpha, to_lower, is_upper, is_lower, in_range. intros H. destruct ((65 <=? b) && (b <=? 90)) eqn:E; lia. Qed.

Lemma to_lower_idem b : to_lower (to_lower b) = to_lower b.
Proof. unfold to_lower, is_upper, in_range. destruct ((65 <=? b) && (b <=? 90)) eqn:E; [|rewrite E; reflexivity].
  destruct ((65 <=? b + 32) && (b + 32 <=? 90)) eqn:E2; [lia|reflexivity]. Qed.

Lemma lower_idem s : lower (lower s) = lower s.
Proof. unfold lower. rewrite map_map. apply map_ext. apply to_lower_idem. Qed.

Lemma lower_length s : length (lower s) = length s.
Proof. apply map_length. Qed.
Lemma upper_length s : length (upper s) = length s.
Proof. apply map_length. Qed.
Lemma title_length s : length (title s) = length s.
Proof. destruct s; cbn [title length]; [reflexivity|]. rewrite lower_length. reflexivity. Qed.

Lemma is_alpha_alnum b : is_alpha b = true -> is_alnum b = true.
Proof. unfold is_alnum. intros ->. reflexivity. Qed.
Lemma is_digit_alnum b : is_digit b = true -> is_alnum b = true.
Proof. unfold is_alnum. intros ->. apply orb_true_r. Qed.
