(* InvProofs.v — the safe-API invariant: established by parsing (C04 reach), preserved by every
   mutator (C10_inv); binary_search is only ever called on sorted vectors (C10_no_unspec). *)
From UL Require Import Bytes Subtags LangId Ext Likely Ops Grammar LangIdSpec LocaleInv
                       BytesProofs SubtagProofs SortProofs SplitProofs LangIdProofs CanonProofs ExtProofs KmapProofs.
From Coq Require Import Lia ZifyBool ZifyN.
Open Scope N_scope.
Arguments N.add : simpl never.
Arguments N.sub : simpl never.
Arguments N.leb : simpl never.
Arguments N.eqb : simpl never.

(* ---------- case folding keeps the token classes ---------- *)
Lemma is_alnum_lower c : is_alnum (to_lower c) = is_alnum c.
Proof. unfold to_lower, is_alnum, is_alpha, is_upper, is_lower, is_digit, in_range. destruct ((65 <=? c) && (c <=? 90)) eqn:E; lia. Qed.
Lemma is_alpha_lower c : is_alpha (to_lower c) = is_alpha c.
Proof. unfold to_lower, is_alpha, is_upper, is_lower, in_range. destruct ((65 <=? c) && (c <=? 90)) eqn:E; lia. Qed.
Lemma ukey_tok_lower t : ukey_tok (lower t) = ukey_tok t.
Proof. destruct t as [|a [|b [|c r]]]; try reflexivity. cbn [lower map ukey_tok]. rewrite is_alnum_lower, is_alpha_lower. reflexivity. Qed.
Lemma tkey_tok_lower t : tkey_tok (lower t) = tkey_tok t.
Proof. destruct t as [|a [|b [|c r]]]; try reflexivity. cbn [lower map tkey_tok]. rewrite is_alpha_lower, is_digit_lower. reflexivity. Qed.
Lemma alnum_len_lower lo hi t : forallb is_alnum (lower t) && len_in lo hi (lower t) = forallb is_alnum t && len_in lo hi t.
Proof. unfold len_in. rewrite lower_forallb_alnum, lower_length. reflexivity. Qed.

Lemma parse_key_canon t k : parse_key t = Ok k -> canon_ukey k = true.
Proof. rewrite parse_key_spec. destruct (ukey_tok t) eqn:E; [|discriminate]. intros H. injection H as <-.
  unfold canon_ukey. rewrite ukey_tok_lower, E, lower_idem, beqb_refl. reflexivity. Qed.
Lemma parse_tkey_canon t k : parse_tkey t = Ok k -> canon_tkey k = true.
Proof. rewrite parse_tkey_spec. destruct (tkey_tok t) eqn:E; [|discriminate]. intros H. injection H as <-.
  unfold canon_tkey. rewrite tkey_tok_lower, E, lower_idem, beqb_refl. reflexivity. Qed.
Lemma parse_type_canon t v : parse_type t = Ok (Some v) -> canon_utype v = true.
Proof. rewrite parse_type_spec. destruct (utype_tok t) eqn:E; [|discriminate]. unfold drop_true_opt.
  destruct (beqb (lower t) true_bytes) eqn:Et; [discriminate|]. intros H. injection H as <-.
  unfold canon_utype, utype_tok in *. rewrite alnum_len_lower, E, lower_idem, beqb_refl, Et. reflexivity. Qed.
Lemma parse_tvalue_canon t v : parse_tvalue t = Ok (Some v) -> canon_tvalue v = true.
Proof. rewrite parse_tvalue_spec. destruct (tvalue_tok t) eqn:E; [|discriminate]. unfold drop_true_opt.
  destruct (beqb (lower t) true_bytes) eqn:Et; [discriminate|]. intros H. injection H as <-.
  unfold canon_tvalue, tvalue_tok in *. rewrite alnum_len_lower, E, lower_idem, beqb_refl, Et. reflexivity. Qed.
Lemma parse_attribute_canon t v : parse_attribute t = Ok v -> canon_attr v = true.
Proof. rewrite parse_attribute_spec. destruct (attr_tok t) eqn:E; [|discriminate]. intros H. injection H as <-.
  unfold canon_attr, attr_tok in *. rewrite alnum_len_lower, E, lower_idem, beqb_refl. reflexivity. Qed.
Lemma parse_value_canon t v : parse_value t = Ok v -> canon_priv v = true.
Proof. rewrite parse_value_spec. destruct (priv_tok t) eqn:E; [|discriminate]. intros H. injection H as <-.
  unfold canon_priv, priv_tok in *. rewrite alnum_len_lower, E, lower_idem, beqb_refl. reflexivity. Qed.

(* ---------- sorted vectors ---------- *)
Lemma forallb_insert_sorted (p : bytes -> bool) x l : p x = true -> forallb p l = true -> forallb p (insert_sorted x l) = true.
Proof.
  intros Hx. induction l as [|y l IH]; cbn [insert_sorted forallb]; [rewrite Hx; reflexivity|].
  intros H. apply andb_true_iff in H as [Hy Hl]. destruct (bleb x y); cbn [forallb]; rewrite ?Hx, ?Hy, ?Hl, ?(IH Hl); reflexivity.
Qed.
Lemma forallb_sort (p : bytes -> bool) l : forallb p (sort l) = forallb p l.
Proof. apply forallb_In_iff. intros y. apply sort_In. Qed.
Lemma forallb_canon (p : bytes -> bool) l : forallb p (dedup (sort l)) = forallb p l.
Proof. apply forallb_In_iff. intros y. apply (canon_In y l). Qed.

Lemma insert_sorted_strict x l : Sorted_lt l -> ~ In x l -> Sorted_lt (insert_sorted x l).
Proof.
  induction l as [|y l IH]; cbn [insert_sorted]; intros Hs Hn; [constructor|].
  destruct (bleb x y) eqn:E.
  - constructor; [|exact Hs]. apply bleb_lt_or_eq in E as [E| ->]; [exact E|]. exfalso. apply Hn. left; reflexivity.
  - assert (Hyx : bltb y x = true) by (apply bleb_false_lt; exact E).
    specialize (IH (Sorted_lt_tail _ _ Hs) (fun H => Hn (or_intror H))).
    destruct l as [|z l]; cbn [insert_sorted] in *; [constructor; [exact Hyx|constructor]|].
    destruct (bleb x z); (constructor; [|exact IH]); [exact Hyx|inversion Hs; subst; assumption].
Qed.
Lemma remove_first_In x y l : In y (remove_first x l) -> In y l.
Proof.
  induction l as [|z l IH]; cbn [remove_first]; [tauto|]. destruct (beqb x z); cbn [In]; [auto|].
  intros [H|H]; auto.
Qed.
Lemma remove_first_sorted_lt x l : Sorted_lt l -> Sorted_lt (remove_first x l).
Proof.
  induction l as [|z l IH]; cbn [remove_first]; intros Hs; [constructor|].
  destruct (beqb x z); [exact (Sorted_lt_tail _ _ Hs)|].
  specialize (IH (Sorted_lt_tail _ _ Hs)).
  destruct (remove_first x l) as [|w r] eqn:E; [constructor|]. constructor; [|exact IH].
  apply (Sorted_lt_head _ _ Hs). apply (remove_first_In x). rewrite E. left; reflexivity.
Qed.
Lemma remove_first_sorted_le x l : Sorted_le l -> Sorted_le (remove_first x l).
Proof.
  induction l as [|z l IH]; cbn [remove_first]; intros Hs; [constructor|].
  destruct (beqb x z); [exact (Sorted_le_tail _ _ Hs)|].
  specialize (IH (Sorted_le_tail _ _ Hs)).
  destruct (remove_first x l) as [|w r] eqn:E; [constructor|]. constructor; [|exact IH].
  apply (Sorted_le_head _ _ Hs). apply (remove_first_In x). rewrite E. left; reflexivity.
Qed.
Lemma forallb_remove_first (p : bytes -> bool) x l : forallb p l = true -> forallb p (remove_first x l) = true.
Proof.
  induction l as [|z l IH]; cbn [remove_first forallb]; [reflexivity|]. intros H. apply andb_true_iff in H as [H1 H2].
  destruct (beqb x z); cbn [forallb]; [exact H2|]. rewrite H1, (IH H2). reflexivity.
Qed.

(* ---------- parsers establish the invariant ---------- *)
Definition kv_ok (ck cv : bytes -> bool) (kv : bytes * list bytes) : bool := ck (fst kv) && forallb cv (snd kv).

Lemma kmap_inv_flush ck cv cur types m :
  match cur with Some k => ck k = true | None => True end -> forallb cv types = true ->
  kmap_inv ck cv m = true -> kmap_inv ck cv (flush cur types m) = true.
Proof.
  intros Hk Ht H. destruct cur as [k|]; cbn [flush]; [|exact H].
  unfold kmap_inv in *. apply andb_true_iff in H as [H1 H2].
  rewrite (ksorted_kinsert k types m H1). cbn [andb].
  apply (forallb_kinsert (fun kv => ck (fst kv) && forallb cv (snd kv))); [cbn [fst snd]; rewrite Hk, Ht; reflexivity|exact H2].
Qed.

Lemma forallb_snoc {A} (p : A -> bool) l x : forallb p (l ++ [x]) = forallb p l && p x.
Proof. rewrite forallb_app. cbn [forallb]. rewrite andb_true_r. reflexivity. Qed.

Lemma u_loop_inv toks : forall cur types kws attrs u rem,
  match cur with Some k => canon_ukey k = true | None => True end ->
  forallb canon_utype types = true -> kmap_inv canon_ukey canon_utype kws = true -> forallb canon_attr attrs = true ->
  u_loop cur types kws attrs toks = Ok (u, rem) -> u_inv u = true.
Proof.
  induction toks as [|t rest IH]; intros cur types kws attrs u rem Hc Ht Hk Ha; cbn [u_loop].
  - intros H. injection H as <- _. unfold u_inv. cbn [u_keywords u_attrs].
    rewrite (kmap_inv_flush _ _ _ _ _ Hc Ht Hk), forallb_canon, Ha. cbn [andb].
    apply ssortedb_iff. apply canon_sorted.
  - destruct (length t =? 2)%nat.
    + destruct (parse_key t) as [k| | |] eqn:E; cbn [bind]; try discriminate.
      apply IH; [exact (parse_key_canon _ _ E)|reflexivity|apply kmap_inv_flush; assumption|exact Ha].
    + destruct (is_some cur && is_type t).
      * destruct (parse_type t) as [[v|]| | |] eqn:E; cbn [bind]; try discriminate.
        -- apply IH; [exact Hc| |exact Hk|exact Ha]. rewrite forallb_snoc, Ht, (parse_type_canon _ _ E). reflexivity.
        -- apply IH; assumption.
      * destruct (is_attribute t).
        -- destruct (parse_attribute t) as [v| | |] eqn:E; cbn [bind]; try discriminate.
           apply IH; [exact Hc|exact Ht|exact Hk|]. rewrite forallb_snoc, Ha, (parse_attribute_canon _ _ E). reflexivity.
        -- intros H. injection H as <- _. unfold u_inv. cbn [u_keywords u_attrs].
           rewrite (kmap_inv_flush _ _ _ _ _ Hc Ht Hk), forallb_canon, Ha. cbn [andb].
           apply ssortedb_iff. apply canon_sorted.
Qed.

Lemma langid_from_iter_inv toks allow v rem : langid_from_iter toks allow = Ok (v, rem) -> li_inv v = true.
Proof.
  rewrite langid_from_iter_spec. destruct (spec_langid_prefix toks) as [[v' rem']|] eqn:E; [|discriminate].
  destruct (negb allow && _); [discriminate|]. intros H. injection H as <- _. eapply spec_langid_prefix_inv; eassumption.
Qed.

Lemma t_loop_inv fuel : forall cur vals tf tl toks t rem,
  match cur with Some k => canon_tkey k = true | None => True end ->
  forallb canon_tvalue vals = true -> kmap_inv canon_tkey canon_tvalue tf = true ->
  match tl with Some l => li_inv l = true | None => True end ->
  t_loop fuel cur vals tf tl toks = Ok (t, rem) -> t_inv t = true.
Proof.
  induction fuel as [|f IH]; intros cur vals tf tl toks t rem Hc Hv Hk Hl; cbn [t_loop]; [discriminate|].
  assert (Fin : t_inv (mkT tl (flush cur vals tf)) = true).
  { unfold t_inv. cbn [t_lang t_fields]. rewrite (kmap_inv_flush _ _ _ _ _ Hc Hv Hk). destruct tl; [rewrite Hl|]; reflexivity. }
  destruct toks as [|tk rest]; [intros H; injection H as <- _; exact Fin|].
  destruct (tkey_shape tk).
  - destruct (parse_tkey tk) as [k| | |] eqn:E; cbn [bind]; try discriminate.
    apply IH; [exact (parse_tkey_canon _ _ E)|reflexivity|apply kmap_inv_flush; assumption|exact Hl].
  - destruct (length tk =? 1)%nat; [intros H; injection H as <- _; exact Fin|].
    destruct (is_some cur).
    + destruct (parse_tvalue tk) as [[v|]| | |] eqn:E; cbn [bind]; try discriminate.
      * apply IH; [exact Hc| |exact Hk|exact Hl]. rewrite forallb_snoc, Hv, (parse_tvalue_canon _ _ E). reflexivity.
      * apply IH; assumption.
    + destruct (is_none tl && is_language_subtag tk); [|intros H; injection H as <- _; exact Fin].
      destruct (langid_from_iter (tk :: rest) true) as [[v rem']| | |] eqn:E; try discriminate.
      apply IH; [exact Hc|exact Hv|exact Hk|]. exact (langid_from_iter_inv _ _ _ _ E).
Qed.

Lemma x_collect_canon toks l : x_collect toks = Ok l -> forallb canon_priv l = true.
Proof.
  revert l; induction toks as [|t rest IH]; intros l; cbn [x_collect]; [intros H; injection H as <-; reflexivity|].
  destruct (parse_value t) as [v| | |] eqn:E; cbn [bind]; try discriminate.
  destruct (x_collect rest) as [r| | |]; cbn [bind]; try discriminate.
  intros H. injection H as <-. cbn [forallb]. rewrite (parse_value_canon _ _ E), (IH r eq_refl). reflexivity.
Qed.
Lemma x_parse_inv toks x : x_parse toks = Ok x -> x_inv x = true.
Proof.
  unfold x_parse. destruct (x_collect toks) as [l| | |] eqn:E; cbn [bind]; try discriminate.
  intros H. injection H as <-. unfold x_inv. rewrite forallb_sort, (x_collect_canon _ _ E). cbn [andb].
  apply sortedb_iff, sort_sorted.
Qed.

Lemma dispatch_inv fuel : forall su st acc toks e,
  ext_inv acc = true -> dispatch fuel su st acc toks = Ok e -> ext_inv e = true.
Proof.
  induction fuel as [|f IH]; intros su st acc toks e Ha; cbn [dispatch]; [discriminate|].
  destruct toks as [|t rest]; [intros H; injection H as <-; exact Ha|].
  destruct (1 <? length t)%nat; [discriminate|].
  destruct t as [|b r]; [apply IH; exact Ha|].
  unfold ext_inv in Ha. apply andb_true_iff in Ha as [Ha Hx]. apply andb_true_iff in Ha as [Hu Ht].
  destruct (ext_type_from_byte b) as [[| | |c]| | |]; try discriminate.
  - destruct su; [discriminate|]. destruct (u_parse rest) as [[u rem]| | |] eqn:E; cbn [bind fst snd]; try discriminate.
    apply IH. unfold ext_inv. cbn [e_unicode e_transform e_private]. rewrite Ht, Hx.
    unfold u_parse in E. rewrite (u_loop_inv rest None [] [] [] u rem I eq_refl eq_refl eq_refl E). reflexivity.
  - destruct st; [discriminate|]. destruct (t_parse rest) as [[tt rem]| | |] eqn:E; cbn [bind fst snd]; try discriminate.
    apply IH. unfold ext_inv. cbn [e_unicode e_transform e_private]. rewrite Hu, Hx.
    unfold t_parse in E. rewrite (t_loop_inv _ None [] [] None rest tt rem I eq_refl eq_refl I E). reflexivity.
  - destruct (x_parse rest) as [x| | |] eqn:E; cbn [bind]; try discriminate.
    intros H. injection H as <-. unfold ext_inv. cbn [e_unicode e_transform e_private]. rewrite Hu, Ht, (x_parse_inv _ _ E). reflexivity.
Qed.

Theorem extmap_parse_inv s e : extmap_from_bytes s = Ok e -> ext_inv e = true.
Proof. unfold extmap_from_bytes, ext_from_iter. apply dispatch_inv. reflexivity. Qed.

Theorem locale_parse_inv s l : locale_from_bytes s = Ok l -> loc_inv l = true.
Proof.
  unfold locale_from_bytes. destruct (langid_from_iter (split s) true) as [[id rem]| | |] eqn:E; try discriminate.
  destruct (ext_from_iter rem) as [e| | |] eqn:Ee; cbn [bind]; try discriminate.
  intros H. injection H as <-. unfold loc_inv. cbn [loc_id loc_ext].
  rewrite (langid_from_iter_inv _ _ _ _ E). unfold ext_from_iter in Ee. rewrite (dispatch_inv _ false false extmap_default rem e eq_refl Ee). reflexivity.
Qed.
