(* PermProofs.v — sorting is a function of the multiset; nodup lists sort strictly; sorted maps are
   determined by their entries.  (Used by the C10 refinement.) *)
From UL Require Import Bytes Subtags LangId Ext Likely Ops LocaleInv AbstractLocale BytesProofs SortProofs KmapProofs.
From Coq Require Import Lia Permutation.
Open Scope N_scope.

Lemma insert_sorted_perm x l : Permutation (insert_sorted x l) (x :: l).
Proof.
  induction l as [|y l IH]; cbn [insert_sorted]; [reflexivity|].
  destruct (bleb x y); [reflexivity|]. rewrite IH. apply perm_swap.
Qed.
Lemma sort_perm l : Permutation (sort l) l.
Proof. induction l as [|x l IH]; cbn [sort]; [reflexivity|]. rewrite insert_sorted_perm, IH. reflexivity. Qed.

(* two sorted lists with the same multiset are equal (elements comparing equal are identical) *)
Lemma Sorted_le_perm_eq a : forall b, Sorted_le a -> Sorted_le b -> Permutation a b -> a = b.
Proof.
  induction a as [|x a IH]; intros b Ha Hb P.
  - apply Permutation_nil in P. subst. reflexivity.
  - destruct b as [|y b]; [apply Permutation_sym, Permutation_nil in P; discriminate|].
    assert (x = y).
    { assert (Hx : In x (y :: b)) by (eapply Permutation_in; [exact P|left; reflexivity]).
      assert (Hy : In y (x :: a)) by (eapply Permutation_in; [apply Permutation_sym; exact P|left; reflexivity]).
      destruct Hx as [->|Hx]; [reflexivity|]. destruct Hy as [->|Hy]; [reflexivity|].
      apply bleb_antisym; [exact (Sorted_le_head _ _ Ha _ Hy)|exact (Sorted_le_head _ _ Hb _ Hx)]. }
    subst y. f_equal. apply IH; [eapply Sorted_le_tail; eassumption|eapply Sorted_le_tail; eassumption|].
    eapply Permutation_cons_inv; exact P.
Qed.
Lemma sort_perm_eq a b : Permutation a b -> sort a = sort b.
Proof.
  intros P. apply Sorted_le_perm_eq; try apply sort_sorted.
  rewrite (sort_perm a), (sort_perm b). exact P.
Qed.
Lemma sort_sort_app l v : sort (sort l ++ [v]) = sort (v :: l).
Proof. apply sort_perm_eq. rewrite (sort_perm l). apply Permutation_sym, Permutation_cons_append. Qed.

(* lists without duplicates *)
Fixpoint nodupb (l : list bytes) : bool :=
  match l with [] => true | x :: r => negb (memb x r) && nodupb r end.
Lemma nodupb_NoDup l : nodupb l = true <-> NoDup l.
Proof.
  induction l as [|x l IH]; cbn [nodupb]; [split; [constructor|reflexivity]|].
  rewrite andb_true_iff, negb_true_iff, IH. split.
  - intros [H1 H2]. constructor; [|exact H2]. intros Hin. apply memb_In in Hin. congruence.
  - intros H. inversion H; subst. split; [|assumption]. destruct (memb x l) eqn:E; [apply memb_In in E; contradiction|reflexivity].
Qed.
Lemma Sorted_le_nodup_lt l : Sorted_le l -> NoDup l -> Sorted_lt l.
Proof.
  induction 1 as [|x|x y l Hxy Hs IH]; intros Hn; [constructor|constructor|].
  inversion Hn; subst. constructor; [|apply IH; assumption].
  apply bleb_lt_or_eq in Hxy as [H| ->]; [exact H|]. exfalso. apply H1. left; reflexivity.
Qed.
Lemma sort_nodup_strict l : NoDup l -> Sorted_lt (sort l).
Proof.
  intros H. apply Sorted_le_nodup_lt; [apply sort_sorted|].
  eapply Permutation_NoDup; [apply Permutation_sym, sort_perm|exact H].
Qed.
Lemma Sorted_lt_NoDup l : Sorted_lt l -> NoDup l.
Proof.
  induction l as [|x l IH]; intros H; [constructor|]. constructor; [|apply IH; eapply Sorted_lt_tail; eassumption].
  intros Hin. pose proof (Sorted_lt_head _ _ H _ Hin) as C. rewrite bltb_irrefl in C. discriminate.
Qed.

(* sets as nodup lists *)
Lemma set_add_In x y l : In y (set_add x l) <-> y = x \/ In y l.
Proof. unfold set_add. destruct (memb x l) eqn:E; cbn [In]; [|intuition].
  apply memb_In in E. split; [auto|]. intros [-> |H]; auto. Qed.
Lemma set_add_NoDup x l : NoDup l -> NoDup (set_add x l).
Proof. unfold set_add. intros H. destruct (memb x l) eqn:E; [exact H|]. constructor; [|exact H].
  intros Hin. apply memb_In in Hin. congruence. Qed.
Lemma set_of_In y l : In y (set_of l) <-> In y l.
Proof. induction l as [|x l IH]; cbn [set_of In]; [tauto|]. rewrite set_add_In, IH. intuition. Qed.
Lemma set_of_NoDup l : NoDup (set_of l).
Proof. induction l as [|x l IH]; cbn [set_of]; [constructor|]. apply set_add_NoDup; exact IH. Qed.
Lemma set_remove_In x y l : In y (set_remove x l) <-> In y l /\ y <> x.
Proof. unfold set_remove. rewrite filter_In, negb_true_iff, beqb_false. intuition. Qed.
Lemma set_remove_NoDup x l : NoDup l -> NoDup (set_remove x l).
Proof. unfold set_remove. apply NoDup_filter. Qed.
Lemma remove_first_In_lt x y l : Sorted_lt l -> (In y (remove_first x l) <-> In y l /\ y <> x).
Proof.
  induction l as [|z l IH]; intros Hs; cbn [remove_first]; [cbn; tauto|].
  destruct (beqb x z) eqn:E.
  - apply beqb_eq in E. subst z. split.
    + intros Hin. split; [right; exact Hin|]. intros ->. pose proof (Sorted_lt_head _ _ Hs _ Hin) as C. rewrite bltb_irrefl in C. discriminate.
    + intros [[->|Hin] Hne]; [contradiction|exact Hin].
  - apply beqb_false in E. cbn [In]. rewrite (IH (Sorted_lt_tail _ _ Hs)). split.
    + intros [->|[Hin Hne]]; [split; [left; reflexivity|congruence]|split; [right; exact Hin|exact Hne]].
    + intros [[->|Hin] Hne]; [left; reflexivity|right; split; assumption].
Qed.

(* the three set refinements *)
Lemma sort_set_of l : sort (set_of l) = dedup (sort l).
Proof.
  apply Sorted_lt_unique; [apply sort_nodup_strict, set_of_NoDup|apply (canon_sorted l)|].
  intros y. rewrite sort_In, set_of_In. symmetry. apply (canon_In y l).
Qed.
Lemma sort_set_add_missing x l : sort (x :: l) = insert_sorted x (sort l).
Proof. reflexivity. Qed.
Lemma sort_set_remove x l : NoDup l -> sort (set_remove x l) = remove_first x (sort l).
Proof.
  intros H. pose proof (sort_nodup_strict l H) as Hs.
  apply Sorted_lt_unique; [apply sort_nodup_strict, set_remove_NoDup; exact H| |].
  - apply (proj1 (ssortedb_iff _)). apply ssortedb_iff. clear -Hs.
    induction (sort l) as [|z r IH]; cbn [remove_first]; [constructor|].
    destruct (beqb x z); [exact (Sorted_lt_tail _ _ Hs)|].
    specialize (IH (Sorted_lt_tail _ _ Hs)).
    destruct (remove_first x r) as [|w r'] eqn:E; [constructor|]. constructor; [|exact IH].
    apply (Sorted_lt_head _ _ Hs). assert (In w (remove_first x r)) by (rewrite E; left; reflexivity).
    clear -H. induction r as [|q r IHr]; cbn [remove_first] in H; [destruct H|]. destruct (beqb x q); [right; exact H|].
    destruct H as [->|H]; [left; reflexivity|right; auto].
  - intros y. rewrite sort_In, set_remove_In, (remove_first_In_lt x y _ Hs), sort_In. tauto.
Qed.

(* multiset of private tags *)
Lemma remove_first_perm x l : In x l -> Permutation l (x :: remove_first x l).
Proof.
  induction l as [|y l IH]; intros Hin; [destruct Hin|]. cbn [remove_first].
  destruct (beqb x y) eqn:E; [apply beqb_eq in E; subst; reflexivity|].
  destruct Hin as [->|Hin]; [rewrite beqb_refl in E; discriminate|].
  rewrite (IH Hin) at 1. apply perm_swap.
Qed.
Lemma bag_remove_is_remove_first x l : bag_remove x l = remove_first x l.
Proof. induction l as [|y l IH]; cbn [bag_remove remove_first]; [reflexivity|]. rewrite IH. reflexivity. Qed.
Lemma remove_first_sorted_le' x l : Sorted_le l -> Sorted_le (remove_first x l).
Proof.
  induction l as [|z l IH]; cbn [remove_first]; intros Hs; [constructor|].
  destruct (beqb x z); [exact (Sorted_le_tail _ _ Hs)|].
  specialize (IH (Sorted_le_tail _ _ Hs)).
  destruct (remove_first x l) as [|w r] eqn:E; [constructor|]. constructor; [|exact IH].
  apply (Sorted_le_head _ _ Hs). assert (In w (remove_first x l)) by (rewrite E; left; reflexivity).
  clear -H. induction l as [|q l IHl]; cbn [remove_first] in H; [destruct H|]. destruct (beqb x q); [right; exact H|].
  destruct H as [->|H]; [left; reflexivity|right; auto].
Qed.
Lemma sort_bag_remove x l : In x l -> sort (bag_remove x l) = remove_first x (sort l).
Proof.
  intros Hin. rewrite bag_remove_is_remove_first.
  apply Sorted_le_perm_eq; [apply sort_sorted|apply remove_first_sorted_le', sort_sorted|].
  rewrite sort_perm. apply (Permutation_cons_inv (a := x)).
  rewrite <- (remove_first_perm x l Hin). rewrite <- (remove_first_perm x (sort l)); [|apply sort_In; exact Hin].
  apply Permutation_sym, sort_perm.
Qed.
Lemma remove_first_notin x l : ~ In x l -> remove_first x l = l.
Proof. induction l as [|y l IH]; cbn [remove_first]; intros H; [reflexivity|].
  destruct (beqb x y) eqn:E; [apply beqb_eq in E; subst; exfalso; apply H; left; reflexivity|].
  f_equal. apply IH. intros Hin. apply H. right; exact Hin. Qed.
