(* RejectClasses.v — C03, the reject clause as GENERAL theorems for two of the classes the statement names:
   an over-long subtag (more than 8 bytes) or a malformed subtag (a byte that is not an ASCII letter or digit)
   ANYWHERE in the input makes the grammar reading MustReject, hence Locale::from_bytes returns an error - it
   never skips or drops such a subtag.  (Empty subtags are the only tokens the lenient zone tolerates.) *)
From UL Require Import Bytes Subtags LangId Ext Grammar LangIdSpec LocaleInv AbstractLocale LocaleSpec LocaleGrammar
                       BytesProofs SplitProofs LangIdProofs CanonProofs ExtProofs RoundTrip KvProofs LocaleSpecProofs StringLevel PrefixProofs
                       LocaleGrammarProofs LocaleGrammarInv.
From Coq Require Import Lia ZifyBool ZifyN.
Open Scope N_scope.
Arguments N.eqb : simpl never.
Arguments N.leb : simpl never.

(* a token the grammar can use at all: empty (tolerated at boundaries) or 1..8 ASCII letters / digits *)
Definition tok_ok (t : bytes) : bool := is_empty_tok t || (forallb is_alnum t && (length t <=? 8)%nat).

Lemma alnum_len_ok t : forallb is_alnum t = true -> (length t <= 8)%nat -> tok_ok t = true.
Proof. intros A L. unfold tok_ok. rewrite A. assert ((length t <=? 8)%nat = true) as -> by lia. apply orb_true_r. Qed.

Lemma li_shape_ok t : li_shape t = true -> tok_ok t = true.
Proof.
  intros H. apply alnum_len_ok; [exact (li_shape_alnum _ H)|].
  unfold li_shape, lang_tok, script_tok, region_tok, variant_tok, len_in in H.
  repeat (apply orb_true_iff in H as [H|H]); try lia.
  destruct t as [|c r]; [discriminate|]. cbn [length]. lia.
Qed.
Lemma len38_ok t : forallb is_alnum t && len_in 3 8 t = true -> tok_ok t = true.
Proof. intros H. apply andb_true_iff in H as [A L]. apply alnum_len_ok; [exact A|unfold len_in in L; lia]. Qed.
Lemma ukey_ok t : ukey_tok t = true -> tok_ok t = true.
Proof. intros H. apply alnum_len_ok; [exact (LocaleGrammarProofs.ukey_alnum _ H)|]. destruct t as [|a [|b [|c r]]]; cbn in H; try discriminate. cbn; lia. Qed.
Lemma tkey_ok t : tkey_tok t = true -> tok_ok t = true.
Proof. intros H. apply alnum_len_ok; [exact (LocaleGrammarProofs.tkey_alnum _ H)|]. destruct t as [|a [|b [|c r]]]; cbn in H; try discriminate. cbn; lia. Qed.
Lemma priv_ok t : priv_tok t = true -> tok_ok t = true.
Proof. unfold priv_tok. intros H. apply andb_true_iff in H as [A L]. apply alnum_len_ok; [exact A|unfold len_in in L; lia]. Qed.
Lemma empty_ok t : is_empty_tok t = true -> tok_ok t = true.
Proof. intros H. unfold tok_ok. rewrite H. reflexivity. Qed.

(* what kw_spec consumes is made of keys and values; what it hands back is a suffix *)
Lemma kw_spec_consumed kt vt toks : forall cur m rest, kw_spec kt vt toks cur = Some (m, rest) ->
  exists used, toks = used ++ rest /\ forallb (fun t => kt t || vt t) used = true.
Proof.
  induction toks as [|t r IH]; intros cur m rest H; cbn [kw_spec] in H.
  - injection H as _ <-. exists []. auto.
  - destruct (kt t) eqn:Ek.
    + destruct (kw_spec kt vt r (Some (lower t, []))) as [[m' rest']|] eqn:E; [|discriminate]. injection H as _ <-.
      destruct (IH _ _ _ E) as (u & -> & Hu). exists (t :: u). cbn [app forallb]. rewrite Ek, Hu. auto.
    + destruct cur as [[k vs]|].
      * destruct (vt t) eqn:Ev.
        -- destruct (IH _ _ _ H) as (u & -> & Hu). exists (t :: u). cbn [app forallb]. rewrite Ev, Hu, orb_true_r. auto.
        -- injection H as _ <-. exists []. auto.
      * injection H as _ <-. exists []. auto.
Qed.

Lemma forallb_ok_imp (p : bytes -> bool) l : (forall t, p t = true -> tok_ok t = true) -> forallb p l = true -> forallb tok_ok l = true.
Proof. intros Hp. apply forallb_imp. exact Hp. Qed.

Lemma u_body_ok body r : u_body_spec body = Some r -> forallb tok_ok body = true.
Proof.
  unfold u_body_spec. destruct (kw_spec ukey_tok utype_tok (drop_while attr_tok body) None) as [[kws rest]|] eqn:K; [|discriminate].
  destruct (forallb is_empty_tok rest) eqn:Er; [|discriminate]. intros _.
  rewrite <- (take_drop_while attr_tok body). destruct (kw_spec_consumed _ _ _ _ _ _ K) as (used & -> & Hu).
  rewrite !forallb_app. apply andb_true_iff; split; [|apply andb_true_iff; split].
  - apply (forallb_ok_imp attr_tok); [intros t; apply len38_ok|apply take_while_forall].
  - revert Hu. apply forallb_imp. intros t H. apply orb_true_iff in H as [H|H]; [apply ukey_ok|apply len38_ok]; exact H.
  - revert Er. apply forallb_imp. apply empty_ok.
Qed.

Lemma t_body_ok body r : t_body_spec body = Some r -> forallb tok_ok body = true.
Proof.
  rewrite t_body_spec_pieces. destruct (kw_spec tkey_tok tvalue_tok (snd (t_pieces body)) None) as [[fields rest]|] eqn:K; [|discriminate].
  destruct (forallb is_empty_tok rest) eqn:Er; [|discriminate]. intros _.
  destruct (kw_spec_consumed _ _ _ _ _ _ K) as (used & E & Hu).
  assert (R1 : forallb tok_ok (snd (t_pieces body)) = true).
  { rewrite E, forallb_app. apply andb_true_iff; split.
    - revert Hu. apply forallb_imp. intros t H. apply orb_true_iff in H as [H|H]; [apply tkey_ok|apply len38_ok]; exact H.
    - revert Er. apply forallb_imp. apply empty_ok. }
  unfold t_pieces in *. destruct body as [|h b]; [reflexivity|].
  destruct (lang_tok h) eqn:Hl; [|exact R1].
  destruct (spec_langid_prefix (h :: b)) as [[v rest']|] eqn:P; [|exact R1]. cbn [snd] in R1.
  destruct (prefix_decomp (h :: b) v rest' ltac:(discriminate) P) as (pre & -> & _ & Sh).
  rewrite forallb_app, R1, andb_true_r. revert Sh. apply forallb_imp. apply li_shape_ok.
Qed.

Lemma x_body_ok body r : x_body_spec body = Some r -> forallb tok_ok body = true.
Proof.
  unfold x_body_spec. destruct (forallb priv_tok body) eqn:P; [|discriminate]. intros _. revert P. apply forallb_imp. apply priv_ok.
Qed.

Definition seg_ok (sb : bytes * list bytes) : bool := tok_ok (fst sb) && forallb tok_ok (snd sb).

Lemma single_ok c s : single_is c s = true -> is_alnum c = true -> tok_ok s = true.
Proof. intros H Hc. apply alnum_len_ok; [exact (single_alnum c s H Hc)|]. apply single_is_single in H. unfold is_single in H. lia. Qed.

Lemma process_all_ok segs : forall a a', process segs a = Some a' -> forallb seg_ok segs = true.
Proof.
  induction segs as [|[s body] segs IH]; intros a a' P; [reflexivity|]. cbn [forallb].
  apply process_step in P as [(E & _ & u & sr & B & P)|[(E & _ & t & sr & B & P)|(E & _ & x & sr & B & P)]];
    rewrite (IH _ _ P), andb_true_r; unfold seg_ok; cbn [fst snd].
  - rewrite (single_ok 117 s E eq_refl), (u_body_ok _ _ B). reflexivity.
  - rewrite (single_ok 116 s E eq_refl), (t_body_ok _ _ B). reflexivity.
  - rewrite (single_ok 120 s E eq_refl), (x_body_ok _ _ B). reflexivity.
Qed.

Definition unsegs (segs : list (bytes * list bytes)) : list bytes := flat_map (fun sb => fst sb :: snd sb) segs.
Lemma segments_flat toks : forall cs cb, unsegs (segments cs cb toks) = cs :: rev cb ++ toks.
Proof.
  induction toks as [|t r IH]; intros cs cb; cbn [segments].
  - cbn [unsegs flat_map fst snd app]. rewrite !app_nil_r. reflexivity.
  - destruct (is_single t).
    + destruct (single_is 120 t); cbn [unsegs flat_map fst snd app].
      * rewrite app_nil_r. reflexivity.
      * fold (unsegs (segments t [] r)). rewrite (IH t []). cbn [rev app]. reflexivity.
    + rewrite (IH cs (t :: cb)). cbn [rev]. rewrite <- app_assoc. reflexivity.
Qed.
Lemma unsegs_ok segs : forallb seg_ok segs = true -> forallb tok_ok (unsegs segs) = true.
Proof.
  induction segs as [|[s b] segs IH]; [reflexivity|]. cbn [forallb unsegs flat_map fst snd]. intros H.
  apply andb_true_iff in H as [H1 H2]. unfold seg_ok in H1. cbn [fst snd] in H1. apply andb_true_iff in H1 as [A B].
  change (forallb tok_ok ((s :: b) ++ unsegs segs) = true). rewrite forallb_app, (IH H2), andb_true_r. cbn [forallb]. rewrite A, B. reflexivity.
Qed.

(* every token of an input that the grammar reading does not reject outright is usable *)
Theorem zone_tokens_ok toks : spec_locale_zone toks <> MustReject -> forallb tok_ok toks = true.
Proof.
  intros Hz. unfold spec_locale_zone in Hz. destruct toks as [|t0 ts]; [congruence|].
  destruct (spec_langid_prefix (t0 :: ts)) as [[id rem]|] eqn:Hp; [|congruence].
  destruct (prefix_decomp (t0 :: ts) id rem ltac:(discriminate) Hp) as (pre & -> & _ & Sh).
  rewrite forallb_app. apply andb_true_iff; split; [revert Sh; apply forallb_imp; apply li_shape_ok|].
  pose proof (segments_flat rem [] []) as F. cbn [rev app] in F.
  destruct (segments [] [] rem) as [|[s0 lead] segs] eqn:S; [congruence|].
  destruct (forallb is_empty_tok lead) eqn:El; [|congruence].
  destruct (process segs _) as [a|] eqn:P; [|congruence].
  pose proof (unsegs_ok _ (process_all_ok _ _ _ P)) as Ok.
  cbn [unsegs flat_map fst snd] in F. fold (unsegs segs) in F. injection F as _ F. rewrite <- F, forallb_app, Ok, andb_true_r.
  revert El. apply forallb_imp. apply empty_ok.
Qed.

(* the reject clause for the two classes, on byte strings *)
Theorem locale_rejects_bad_token s t : In t (split s) -> tok_ok t = false -> exists e, locale_from_bytes s = Err e.
Proof.
  intros Hin Hbad. apply locale_rejects. destruct (spec_locale_zone (split s)) eqn:Z; try reflexivity;
    (assert (N : spec_locale_zone (split s) <> MustReject) by (rewrite Z; discriminate);
     pose proof (zone_tokens_ok _ N) as A; rewrite forallb_forall in A; specialize (A t Hin); congruence).
Qed.
Corollary locale_rejects_overlong s t : In t (split s) -> (8 < length t)%nat -> exists e, locale_from_bytes s = Err e.
Proof.
  intros Hin L. apply (locale_rejects_bad_token s t Hin). unfold tok_ok. destruct t; [cbn in L; lia|]. cbn [is_empty_tok orb].
  assert ((length (n :: t) <=? 8)%nat = false) as -> by lia. apply andb_false_r.
Qed.
Corollary locale_rejects_malformed s t : In t (split s) -> existsb (fun b => negb (is_alnum b)) t = true -> exists e, locale_from_bytes s = Err e.
Proof.
  intros Hin M. apply (locale_rejects_bad_token s t Hin). unfold tok_ok. destruct t as [|b r]; [discriminate|]. cbn [is_empty_tok orb].
  assert (forallb is_alnum (b :: r) = false) as ->; [|reflexivity].
  apply existsb_exists in M as (x & Hx & Nx). destruct (forallb is_alnum (b :: r)) eqn:F; [|reflexivity].
  rewrite forallb_forall in F. rewrite (F x Hx) in Nx. discriminate.
Qed.

(* ---------------------------------------------------------------- singletons: other than t/u/x, repeated *)
Definition no_x (toks : list bytes) : bool := forallb (fun t => negb (single_is 120 t)) toks.

(* up to the first x singleton every one-character token heads a segment *)
Lemma segments_front A : forall cs cb s B, no_x A = true -> is_single s = true ->
  exists front, segments cs cb (A ++ s :: B) = front ++ tailsegs (s :: B).
Proof.
  induction A as [|t A IH]; intros cs cb s B Hx Hs.
  - cbn [app segments tailsegs]. rewrite Hs. exists [(cs, rev cb)]. destruct (single_is 120 s); reflexivity.
  - unfold no_x in Hx. cbn [forallb] in Hx. apply andb_true_iff in Hx as [Ht Hx]. cbn [app segments].
    destruct (is_single t).
    + destruct (single_is 120 t); [discriminate|]. destruct (IH t [] s B Hx Hs) as (f & ->). exists ((cs, rev cb) :: f). reflexivity.
    + exact (IH cs (t :: cb) s B Hx Hs).
Qed.

Lemma process_app S1 : forall S2 a, process (S1 ++ S2) a = match process S1 a with Some a1 => process S2 a1 | None => None end.
Proof.
  induction S1 as [|[s b] S1 IH]; intros S2 a; [reflexivity|]. cbn [app process].
  destruct (single_is 117 s).
  - destruct (ac_u a); [reflexivity|]. destruct (u_body_spec b) as [[u sr]|]; [apply IH|reflexivity].
  - destruct (single_is 116 s).
    + destruct (ac_t a); [reflexivity|]. destruct (t_body_spec b) as [[t sr]|]; [apply IH|reflexivity].
    + destruct (single_is 120 s); [|reflexivity].
      destruct (ac_x a); [reflexivity|]. destruct (x_body_spec b) as [[x sr]|]; [apply IH|reflexivity].
Qed.

Definition utx (s : bytes) : bool := single_is 117 s || single_is 116 s || single_is 120 s.

Lemma process_heads segs : forall a a', process segs a = Some a' -> forallb (fun sb => utx (fst sb)) segs = true.
Proof.
  induction segs as [|[s b] segs IH]; intros a a' P; [reflexivity|]. cbn [forallb fst].
  apply process_step in P as [(E & _ & u & sr & B & P)|[(E & _ & t & sr & B & P)|(E & _ & x & sr & B & P)]];
    rewrite (IH _ _ P), andb_true_r; unfold utx; rewrite E, ?orb_true_r; reflexivity.
Qed.

Lemma process_u_seen segs : forall a a', ac_u a <> None -> process segs a = Some a' ->
  forallb (fun sb => negb (single_is 117 (fst sb))) segs = true.
Proof.
  induction segs as [|[s b] segs IH]; intros a a' Hu P; [reflexivity|]. cbn [forallb fst].
  apply process_step in P as [(E & U & _)|[(E & _ & t & sr & B & P)|(E & _ & x & sr & B & P)]]; [congruence| |].
  - rewrite (single_is_other 116 117 s E ltac:(lia)). cbn [negb andb]. eapply IH; [|exact P]. cbn [ac_u]. exact Hu.
  - rewrite (single_is_other 120 117 s E ltac:(lia)). cbn [negb andb]. eapply IH; [|exact P]. cbn [ac_u]. exact Hu.
Qed.
Lemma process_t_seen segs : forall a a', ac_t a <> None -> process segs a = Some a' ->
  forallb (fun sb => negb (single_is 116 (fst sb))) segs = true.
Proof.
  induction segs as [|[s b] segs IH]; intros a a' Ht P; [reflexivity|]. cbn [forallb fst].
  apply process_step in P as [(E & _ & u & sr & B & P)|[(E & T & _)|(E & _ & x & sr & B & P)]]; [|congruence|].
  - rewrite (single_is_other 117 116 s E ltac:(lia)). cbn [negb andb]. eapply IH; [|exact P]. cbn [ac_t]. exact Ht.
  - rewrite (single_is_other 120 116 s E ltac:(lia)). cbn [negb andb]. eapply IH; [|exact P]. cbn [ac_t]. exact Ht.
Qed.

(* the zone of a token list, through the segment list of what follows the language identifier *)
Lemma zone_not_reject_process toks : spec_locale_zone toks <> MustReject ->
  exists id rem s0 lead segs a, spec_langid_prefix toks = Some (id, rem) /\ segments [] [] rem = (s0, lead) :: segs
    /\ process segs (mkAcc None None None (nil_b lead) true) = Some a.
Proof.
  intros Hz. unfold spec_locale_zone in Hz. destruct toks as [|t0 ts]; [congruence|].
  destruct (spec_langid_prefix (t0 :: ts)) as [[id rem]|] eqn:Hp; [|congruence].
  destruct (segments [] [] rem) as [|[s0 lead] segs] eqn:S; [congruence|].
  destruct (forallb is_empty_tok lead); [|congruence].
  destruct (process segs _) as [a|] eqn:P; [|congruence]. eauto 10.
Qed.

Lemma segments_head toks : forall cs cb, exists b r, segments cs cb toks = (cs, b) :: r.
Proof.
  induction toks as [|t r IH]; intros cs cb; cbn [segments]; [eauto|].
  destruct (is_single t); [destruct (single_is 120 t); eauto|apply IH].
Qed.

Lemma other_singleton_aux toks id A s B :
  spec_langid_prefix toks = Some (id, A ++ s :: B) -> no_x A = true -> is_single s = true -> utx s = false ->
  spec_locale_zone toks <> MustReject -> False.
Proof.
  intros Hp Hx Hs Hn N.
  destruct (zone_not_reject_process toks N) as (id' & rem & s0 & lead & segs & a & Hp' & S & P).
  rewrite Hp in Hp'. injection Hp' as <- <-.
  destruct (segments_front A [] [] s B Hx Hs) as (front & F). rewrite S in F.
  assert (E0 : single_is 120 s = false).
  { unfold utx in Hn. destruct (single_is 120 s); [rewrite !orb_true_r in Hn; discriminate|reflexivity]. }
  assert (T : exists b r, tailsegs (s :: B) = (s, b) :: r) by (cbn [tailsegs]; rewrite E0; apply segments_head).
  destruct T as (b & r & T). rewrite T in F.
  destruct front as [|f0 front].
  - cbn [app] in F. injection F as E1 _ _.
    destruct (segments_head (A ++ s :: B) [] []) as (b0 & r0 & H0). rewrite S in H0. injection H0 as E _ _.
    (* the first segment is headed by the empty initial singleton, not by s *) subst. discriminate.
  - cbn [app] in F. injection F as _ F. rewrite F in P.
    pose proof (process_heads _ _ _ P) as H. rewrite forallb_app in H. apply andb_true_iff in H as [_ H].
    cbn [forallb fst] in H. apply andb_true_iff in H as [H _]. congruence.
Qed.

(* a one-character subtag other than t / u / x (either case), anywhere after the language identifier and before
   a private-use singleton, makes the input MustReject *)
Theorem other_singleton_rejected toks id A s B :
  spec_langid_prefix toks = Some (id, A ++ s :: B) -> no_x A = true -> is_single s = true -> utx s = false ->
  spec_locale_zone toks = MustReject.
Proof.
  intros Hp Hx Hs Hn. destruct (spec_locale_zone toks) eqn:Z; try reflexivity; exfalso;
    apply (other_singleton_aux toks id A s B Hp Hx Hs Hn); rewrite Z; discriminate.
Qed.

(* ---------------------------------------------------------------- a repeated -u- or -t- singleton *)
Lemma segments_front' A : forall cs cb s B, no_x A = true -> is_single s = true ->
  exists b front, segments cs cb (A ++ s :: B) = (cs, b) :: front ++ tailsegs (s :: B).
Proof.
  induction A as [|t A IH]; intros cs cb s B Hx Hs.
  - cbn [app segments tailsegs]. rewrite Hs. exists (rev cb), []. destruct (single_is 120 s); reflexivity.
  - unfold no_x in Hx. cbn [forallb] in Hx. apply andb_true_iff in Hx as [Ht Hx]. cbn [app segments].
    destruct (is_single t).
    + destruct (single_is 120 t); [discriminate|]. destruct (IH t [] s B Hx Hs) as (b & f & ->).
      exists (rev cb), ((t, b) :: f). reflexivity.
    + exact (IH cs (t :: cb) s B Hx Hs).
Qed.

Lemma no_x_app a b : no_x (a ++ b) = no_x a && no_x b.
Proof. apply forallb_app. Qed.

Lemma repeated_aux toks id A s1 B s2 C (c : N) :
  (c = 117 \/ c = 116) ->
  spec_langid_prefix toks = Some (id, A ++ s1 :: B ++ s2 :: C) -> no_x (A ++ s1 :: B) = true ->
  single_is c s1 = true -> single_is c s2 = true ->
  spec_locale_zone toks <> MustReject -> False.
Proof.
  intros Hc Hp Hx H1 H2 N.
  destruct (zone_not_reject_process toks N) as (id' & rem & s0 & lead & segs & a & Hp' & S & P).
  rewrite Hp in Hp'. injection Hp' as <- <-.
  rewrite no_x_app in Hx. apply andb_true_iff in Hx as [HxA HxB]. unfold no_x in HxB. cbn [forallb] in HxB.
  apply andb_true_iff in HxB as [Hx1 HxB]. fold (no_x B) in HxB. apply negb_true_iff in Hx1.
  assert (X2 : single_is 120 s2 = false) by (destruct Hc; subst c; apply (single_is_other _ 120 s2 H2); lia).
  destruct (segments_front' A [] [] s1 (B ++ s2 :: C) HxA (single_is_single _ _ H1)) as (b0 & f1 & F1).
  rewrite S in F1. injection F1 as _ _ F1.
  cbn [tailsegs] in F1. rewrite Hx1 in F1.
  destruct (segments_front' B s1 [] s2 C HxB (single_is_single _ _ H2)) as (b1 & f2 & F2). rewrite F2 in F1.
  cbn [tailsegs] in F1. rewrite X2 in F1. destruct (segments_head C s2 []) as (b2 & r2 & F3). rewrite F3 in F1.
  (* segs = f1 ++ (s1, b1) :: f2 ++ (s2, b2) :: r2 *)
  rewrite F1, process_app in P. destruct (process f1 _) as [a1|] eqn:P1; [|discriminate].
  apply process_step in P as [(E & _ & u & sr & Bu & P)|[(E & _ & t & sr & Bt & P)|(E & _)]].
  - destruct Hc; subst c; [|rewrite (single_is_other 116 117 s1 H1 ltac:(lia)) in E; discriminate].
    assert (Seen0 := fun H => process_u_seen _ _ _ H P). cbn [ac_u] in Seen0. pose proof (Seen0 ltac:(discriminate)) as Seen.
    rewrite forallb_app in Seen. apply andb_true_iff in Seen as [_ Seen]. cbn [forallb fst] in Seen. rewrite H2 in Seen. discriminate.
  - destruct Hc; subst c; [rewrite (single_is_other 117 116 s1 H1 ltac:(lia)) in E; discriminate|].
    assert (Seen0 := fun H => process_t_seen _ _ _ H P). cbn [ac_t] in Seen0. pose proof (Seen0 ltac:(discriminate)) as Seen.
    rewrite forallb_app in Seen. apply andb_true_iff in Seen as [_ Seen]. cbn [forallb fst] in Seen. rewrite H2 in Seen. discriminate.
  - congruence.
Qed.

Theorem repeated_singleton_rejected toks id A s1 B s2 C (c : N) :
  (c = 117 \/ c = 116) ->
  spec_langid_prefix toks = Some (id, A ++ s1 :: B ++ s2 :: C) -> no_x (A ++ s1 :: B) = true ->
  single_is c s1 = true -> single_is c s2 = true ->
  spec_locale_zone toks = MustReject.
Proof.
  intros Hc Hp Hx H1 H2. destruct (spec_locale_zone toks) eqn:Z; try reflexivity; exfalso;
    apply (repeated_aux toks id A s1 B s2 C c Hc Hp Hx H1 H2); rewrite Z; discriminate.
Qed.

(* a misplaced / multi-character token where a singleton is expected, directly after the language identifier *)
Theorem misplaced_after_langid toks id t rest :
  spec_langid_prefix toks = Some (id, t :: rest) -> (2 <= length t)%nat -> spec_locale_zone toks = MustReject.
Proof.
  intros Hp L. assert (Hne : toks <> []) by (intros ->; discriminate).
  rewrite (zone_shape toks id _ Hne Hp). cbn [split_single]. unfold is_single.
  assert ((length t =? 1)%nat = false) as -> by lia. destruct (split_single rest) as [lead o]. cbn [forallb].
  destruct t; [cbn in L; lia|]. reflexivity.
Qed.
