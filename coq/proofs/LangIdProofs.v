(* LangIdProofs.v — the langid parser equals the EBNF recogniser (C02); round trip (C05);
   canonical output (C04); embedding facts used by the locale proofs. *)
From UL Require Import Bytes Subtags LangId Grammar LangIdSpec BytesProofs SubtagProofs SortProofs SplitProofs.
From Coq Require Import Lia ZifyBool ZifyN.
Open Scope N_scope.
Arguments N.add : simpl never.
Arguments N.sub : simpl never.
Arguments N.leb : simpl never.
Arguments N.eqb : simpl never.

(* ---------- the position machine = the greedy EBNF reading ---------- *)
Lemma li_loop_P3 sc rg vs toks :
  li_loop P3 sc rg vs toks = (sc, rg, vs ++ map lower (take_while variant_tok toks), drop_while variant_tok toks).
Proof.
  revert vs; induction toks as [|t toks IH]; intros vs; cbn [li_loop take_while drop_while map].
  - rewrite app_nil_r. reflexivity.
  - rewrite variant_spec. destruct (variant_tok t); cbn [map].
    + rewrite IH, <- app_assoc. reflexivity.
    + rewrite app_nil_r. reflexivity.
Qed.

Lemma li_loop_P2 sc vs toks :
  li_loop P2 sc None vs toks = let (rg, r2) := take_region toks in li_loop P3 sc rg vs r2.
Proof.
  destruct toks as [|t toks]; [reflexivity|]. cbn [li_loop take_region].
  rewrite region_spec. unfold spec_region_value, norm_region. destruct (region_tok t); [reflexivity|].
  cbn [li_loop]. reflexivity.
Qed.

Lemma li_loop_P1 toks :
  li_loop P1 None None [] toks =
  let (sc, r1) := take_script toks in let (rg, r2) := take_region r1 in li_loop P3 sc rg [] r2.
Proof.
  destruct toks as [|t toks]; [reflexivity|]. cbn [li_loop take_script].
  rewrite script_spec. destruct (script_tok t).
  - apply li_loop_P2.
  - cbn [take_region]. rewrite region_spec. unfold spec_region_value, norm_region.
    destruct (region_tok t); [reflexivity|]. cbn [li_loop]. reflexivity.
Qed.

Lemma norm_variants_spec vs : norm_variants (map lower vs) = spec_variants vs.
Proof. destruct vs; reflexivity. Qed.

(* the parser on a token list, with or without tolerated leftover *)
Theorem langid_from_iter_spec toks allow :
  langid_from_iter toks allow =
  match spec_langid_prefix toks with
  | Some (v, rem) =>
    if negb allow && negb (match rem with [] => true | _ => false end) then Err InvalidSubtag else Ok (v, rem)
  | None => Err InvalidLanguage
  end.
Proof.
  unfold langid_from_iter, spec_langid_prefix.
  destruct toks as [|l rest].
  - cbn [li_loop norm_variants]. destruct allow; reflexivity.
  - rewrite language_spec. destruct (lang_tok l); [|reflexivity].
    rewrite li_loop_P1. destruct (take_script rest) as [sc r1]. destruct (take_region r1) as [rg r2].
    rewrite li_loop_P3. cbn [app]. rewrite norm_variants_spec. reflexivity.
Qed.

(* C02 *)
Theorem langid_from_bytes_spec s :
  langid_from_bytes s = match spec_langid (split s) with
                        | Some v => Ok v
                        | None => Err (spec_langid_err (split s))
                        end.
Proof.
  unfold langid_from_bytes, spec_langid, spec_langid_err. rewrite langid_from_iter_spec.
  destruct (split s) as [|t r] eqn:E; [exfalso; exact (split_nonempty _ E)|].
  unfold spec_langid_prefix. destruct (lang_tok t); [|reflexivity].
  destruct (take_script r) as [sc r1]. destruct (take_region r1) as [rg r2].
  destruct (drop_while variant_tok r2); reflexivity.
Qed.

(* ---------- token classes are pairwise disjoint ---------- *)
Lemma script_not_region t : script_tok t = true -> region_tok t = false.
Proof. unfold script_tok, region_tok. intros H. apply andb_true_iff in H as [_ H]. lia. Qed.
Lemma alpha_not_digit b : is_alpha b = true -> is_digit b = false.
Proof. unfold is_alpha, is_upper, is_lower, is_digit, in_range. lia. Qed.
Lemma script_not_variant t : script_tok t = true -> variant_tok t = false.
Proof.
  unfold script_tok, variant_tok, len_in. intros H. apply andb_true_iff in H as [Ha H].
  destruct t as [|c r]; [cbn in H; discriminate|]. cbn [forallb] in Ha. apply andb_true_iff in Ha as [Hc _].
  rewrite (alpha_not_digit _ Hc). cbn [andb]. rewrite orb_false_r. cbn [length] in *. lia.
Qed.
Lemma region_not_variant t : region_tok t = true -> variant_tok t = false.
Proof.
  unfold region_tok, variant_tok, len_in. intros H.
  assert (length t = 2 \/ length t = 3)%nat as Hl by lia.
  destruct t as [|c r]; [cbn in Hl; lia|]. cbn [length] in *.
  assert ((length r =? 3)%nat = false) as -> by lia. rewrite andb_false_r, orb_false_r. lia.
Qed.
Lemma region_not_script t : region_tok t = true -> script_tok t = false.
Proof. intros H. destruct (script_tok t) eqn:E; [|reflexivity]. rewrite (script_not_region _ E) in H. discriminate. Qed.
Lemma variant_not_script t : variant_tok t = true -> script_tok t = false.
Proof. intros H. destruct (script_tok t) eqn:E; [|reflexivity]. rewrite (script_not_variant _ E) in H. discriminate. Qed.
Lemma variant_not_region t : variant_tok t = true -> region_tok t = false.
Proof. intros H. destruct (region_tok t) eqn:E; [|reflexivity]. rewrite (region_not_variant _ E) in H. discriminate. Qed.

(* ---------- canonical subtags are fixed points of their parsers ---------- *)
Lemma take_while_all p l : forallb p l = true -> take_while p l = l /\ drop_while p l = [].
Proof.
  induction l as [|x l IH]; cbn [forallb take_while drop_while]; [auto|].
  intros H. apply andb_true_iff in H as [Hx Hl]. rewrite Hx. destruct (IH Hl) as [-> ->]. auto.
Qed.

Lemma map_lower_canon vs : forallb canon_variant vs = true -> map lower vs = vs /\ forallb variant_tok vs = true.
Proof.
  induction vs as [|v vs IH]; cbn [forallb map]; [auto|]. intros H. apply andb_true_iff in H as [Hv Hr].
  unfold canon_variant in Hv. apply andb_true_iff in Hv as [Hv1 Hv2]. apply beqb_eq in Hv2.
  destruct (IH Hr) as [-> ->]. rewrite Hv1, Hv2. auto.
Qed.

Lemma lang_text_tok l : canon_lang l = true ->
  lang_tok (language_text l) = true /\ spec_language_value (language_text l) = l.
Proof.
  destruct l as [b|]; cbn [canon_lang language_text].
  - intros H. apply andb_true_iff in H as [H Hn]. apply andb_true_iff in H as [Ht Hl]. apply beqb_eq in Hl.
    split; [exact Ht|]. unfold spec_language_value. rewrite Hl.
    destruct (beqb b und_b) eqn:E; [discriminate|reflexivity].
  - intros _. split; reflexivity.
Qed.

(* ---------- C05 for LanguageIdentifier: parse (to_string x) = x ---------- *)
Theorem spec_langid_tokens x : li_inv x = true -> spec_langid (li_tokens x) = Some x.
Proof.
  destruct x as [l sc rg vs]. unfold li_inv. cbn [li_lang li_script li_region li_variants].
  intros H. apply andb_true_iff in H as [H Hv]. apply andb_true_iff in H as [H Hr]. apply andb_true_iff in H as [Hl Hs].
  destruct (lang_text_tok _ Hl) as [Ht Hval].
  unfold spec_langid, spec_langid_prefix, li_tokens. cbn [li_lang li_script li_region li_variants]. rewrite Ht, Hval.
  (* the variants part *)
  assert (HV : forall pre, take_script (pre ++ li_variants_list (mkLangId l sc rg vs)) = take_script (pre ++ li_variants_list (mkLangId l sc rg vs))) by reflexivity.
  clear HV.
  set (V := li_variants_list (mkLangId l sc rg vs)).
  assert (HVt : forallb variant_tok V = true /\ spec_variants V = vs).
  { unfold V, li_variants_list. cbn [li_variants]. destruct vs as [v|]; cbn [variants_inv] in Hv; [|auto].
    apply andb_true_iff in Hv as [Hv Hso]. apply andb_true_iff in Hv as [Hne Hc].
    destruct (map_lower_canon _ Hc) as [Hm Ht']. split; [exact Ht'|].
    destruct v as [|v0 v']; [discriminate|]. unfold spec_variants. rewrite Hm.
    f_equal. apply canon_id. apply ssortedb_iff. exact Hso. }
  destruct HVt as [HVt HVs].
  assert (HVfirst_s : take_script V = (None, V)).
  { destruct V as [|t V']; [reflexivity|]. cbn [take_script forallb] in *. apply andb_true_iff in HVt as [Ht1 _].
    rewrite (variant_not_script _ Ht1). reflexivity. }
  assert (HVfirst_r : take_region V = (None, V)).
  { destruct V as [|t V']; [reflexivity|]. cbn [take_region forallb] in *. apply andb_true_iff in HVt as [Ht1 _].
    rewrite (variant_not_region _ Ht1). reflexivity. }
  destruct (take_while_all _ _ HVt) as [Htw Hdw].
  destruct sc as [s|]; cbn [opt_tok app opt_all] in *.
  - unfold canon_script in Hs. apply andb_true_iff in Hs as [Hs1 Hs2]. apply beqb_eq in Hs2.
    cbn [take_script]. rewrite Hs1, Hs2.
    destruct rg as [r|]; cbn [opt_tok app opt_all] in *.
    + unfold canon_region in Hr. apply andb_true_iff in Hr as [Hr1 Hr2]. apply beqb_eq in Hr2.
      cbn [take_region]. rewrite Hr1, Hr2. fold V. rewrite Htw, Hdw, HVs. reflexivity.
    + fold V. rewrite HVfirst_r, Htw, Hdw, HVs. reflexivity.
  - destruct rg as [r|]; cbn [opt_tok app opt_all] in *.
    + unfold canon_region in Hr. apply andb_true_iff in Hr as [Hr1 Hr2]. apply beqb_eq in Hr2.
      cbn [take_script]. rewrite (region_not_script _ Hr1). cbn [take_region]. rewrite Hr1, Hr2.
      fold V. rewrite Htw, Hdw, HVs. reflexivity.
    + fold V. rewrite HVfirst_s, HVfirst_r, Htw, Hdw, HVs. reflexivity.
Qed.

(* tokens of a well-formed value contain no separator *)
Lemma alpha_nosep t : forallb is_alpha t = true -> nosep t = true.
Proof. intros H. apply alnum_nosep. revert H. apply forallb_imp. apply is_alpha_alnum. Qed.
Lemma digit_nosep t : forallb is_digit t = true -> nosep t = true.
Proof. intros H. apply alnum_nosep. revert H. apply forallb_imp. apply is_digit_alnum. Qed.
Lemma lang_tok_nosep t : lang_tok t = true -> nosep t = true.
Proof. unfold lang_tok. intros H. apply andb_true_iff in H as [H _]. apply alpha_nosep; exact H. Qed.
Lemma script_tok_nosep t : script_tok t = true -> nosep t = true.
Proof. unfold script_tok. intros H. apply andb_true_iff in H as [H _]. apply alpha_nosep; exact H. Qed.
Lemma region_tok_nosep t : region_tok t = true -> nosep t = true.
Proof. unfold region_tok. intros H. apply orb_true_iff in H as [H|H]; apply andb_true_iff in H as [H _];
  [apply alpha_nosep|apply digit_nosep]; exact H. Qed.
Lemma variant_tok_nosep t : variant_tok t = true -> nosep t = true.
Proof.
  unfold variant_tok. intros H. apply orb_true_iff in H as [H|H].
  - apply andb_true_iff in H as [H _]. apply alnum_nosep; exact H.
  - destruct t as [|c r]; [discriminate|]. apply andb_true_iff in H as [H _]. apply andb_true_iff in H as [Hc Hr].
    apply alnum_nosep. cbn [forallb]. rewrite (is_digit_alnum _ Hc), Hr. reflexivity.
Qed.

Lemma li_tokens_nosep x : li_inv x = true -> forallb nosep (li_tokens x) = true.
Proof.
  destruct x as [l sc rg vs]. unfold li_inv, li_tokens. cbn [li_lang li_script li_region li_variants].
  intros H. apply andb_true_iff in H as [H Hv]. apply andb_true_iff in H as [H Hr]. apply andb_true_iff in H as [Hl Hs].
  cbn [forallb]. rewrite (lang_tok_nosep _ (proj1 (lang_text_tok _ Hl))). cbn [andb].
  rewrite !forallb_app. apply andb_true_iff; split; [|apply andb_true_iff; split].
  - destruct sc as [s|]; cbn [opt_tok forallb opt_all] in *; [|reflexivity].
    unfold canon_script in Hs. apply andb_true_iff in Hs as [Hs _]. rewrite (script_tok_nosep _ Hs). reflexivity.
  - destruct rg as [r|]; cbn [opt_tok forallb opt_all] in *; [|reflexivity].
    unfold canon_region in Hr. apply andb_true_iff in Hr as [Hr _]. rewrite (region_tok_nosep _ Hr). reflexivity.
  - unfold li_variants_list. cbn [li_variants]. destruct vs as [v|]; [|reflexivity]. cbn [variants_inv] in Hv.
    apply andb_true_iff in Hv as [Hv _]. apply andb_true_iff in Hv as [_ Hc].
    destruct (map_lower_canon _ Hc) as [_ Ht]. revert Ht. apply forallb_imp. apply variant_tok_nosep.
Qed.

Theorem langid_roundtrip x : li_inv x = true -> langid_from_bytes (li_to_string x) = Ok x.
Proof.
  intros H. rewrite langid_from_bytes_spec. unfold li_to_string.
  rewrite split_join; [|unfold li_tokens; congruence|apply li_tokens_nosep; exact H].
  rewrite (spec_langid_tokens _ H). reflexivity.
Qed.

(* ---------- the EBNF as a relation, and its equivalence with the recogniser ---------- *)
Definition opt_holds (p : bytes -> bool) (o : option bytes) : Prop :=
  match o with Some t => p t = true | None => True end.

Inductive WFLangIdToks : list bytes -> langid -> Prop :=
| WF_intro l sc rg vs :
    lang_tok l = true -> opt_holds script_tok sc -> opt_holds region_tok rg -> forallb variant_tok vs = true ->
    WFLangIdToks (l :: opt_tok sc ++ opt_tok rg ++ vs)
                 (mkLangId (spec_language_value l) (option_map title sc) (option_map norm_region rg) (spec_variants vs)).

Lemma take_drop_while p l : take_while p l ++ drop_while p l = l.
Proof. induction l as [|x l IH]; cbn [take_while drop_while]; [reflexivity|]. destruct (p x); cbn [app]; [f_equal; exact IH|reflexivity]. Qed.
Lemma take_while_forall p l : forallb p (take_while p l) = true.
Proof. induction l as [|x l IH]; cbn [take_while forallb]; [reflexivity|]. destruct (p x) eqn:E; cbn [forallb]; [rewrite E, IH|]; reflexivity. Qed.

Theorem spec_langid_iff toks v : spec_langid toks = Some v <-> WFLangIdToks toks v.
Proof.
  split.
  - unfold spec_langid, spec_langid_prefix. destruct toks as [|l rest]; [discriminate|].
    destruct (lang_tok l) eqn:Hl; [|discriminate].
    destruct (take_script rest) as [sc r1] eqn:Es. destruct (take_region r1) as [rg r2] eqn:Er.
    destruct (drop_while variant_tok r2) eqn:Ed; [|discriminate]. intros H. injection H as <-.
    assert (Hr2 : r2 = take_while variant_tok r2) by (rewrite <- (take_drop_while variant_tok r2) at 1; rewrite Ed, app_nil_r; reflexivity).
    (* recover the raw script / region tokens *)
    assert (exists sc0, opt_holds script_tok sc0 /\ sc = option_map title sc0 /\ rest = opt_tok sc0 ++ r1) as (sc0 & Hs0 & -> & ->).
    { destruct rest as [|t r]; cbn [take_script] in Es.
      - injection Es as <- <-. exists None. cbn. auto.
      - destruct (script_tok t) eqn:Et; injection Es as <- <-; [exists (Some t)|exists None]; cbn; auto. }
    assert (exists rg0, opt_holds region_tok rg0 /\ rg = option_map norm_region rg0 /\ r1 = opt_tok rg0 ++ r2) as (rg0 & Hr0 & -> & ->).
    { destruct r1 as [|t r]; cbn [take_region] in Er.
      - injection Er as <- <-. exists None. cbn. auto.
      - destruct (region_tok t) eqn:Et; injection Er as <- <-; [exists (Some t)|exists None]; cbn; auto. }
    rewrite Hr2 at 1. rewrite <- Hr2. constructor; auto. rewrite Hr2. apply take_while_forall.
  - intros H. destruct H as [l sc rg vs Hl Hs Hr Hv].
    unfold spec_langid, spec_langid_prefix. rewrite Hl.
    destruct (take_while_all _ _ Hv) as [Htw Hdw].
    assert (HVs : take_script vs = (None, vs)).
    { destruct vs as [|t V']; [reflexivity|]. cbn [take_script forallb] in *. apply andb_true_iff in Hv as [Ht1 _].
      rewrite (variant_not_script _ Ht1). reflexivity. }
    assert (HVr : take_region vs = (None, vs)).
    { destruct vs as [|t V']; [reflexivity|]. cbn [take_region forallb] in *. apply andb_true_iff in Hv as [Ht1 _].
      rewrite (variant_not_region _ Ht1). reflexivity. }
    destruct sc as [s|]; cbn [opt_tok app opt_holds option_map] in *.
    + cbn [take_script]. rewrite Hs. destruct rg as [r|]; cbn [opt_tok app opt_holds option_map] in *.
      * cbn [take_region]. rewrite Hr, Htw, Hdw. reflexivity.
      * rewrite HVr, Htw, Hdw. reflexivity.
    + destruct rg as [r|]; cbn [opt_tok app opt_holds option_map] in *.
      * cbn [take_script]. rewrite (region_not_script _ Hr). cbn [take_region]. rewrite Hr, Htw, Hdw. reflexivity.
      * rewrite HVs, HVr, Htw, Hdw. reflexivity.
Qed.

(* ---------- every parsed value satisfies the safe-API invariant (C04 reach: parsing) ---------- *)
Lemma lower_alnum_tok_idem t : beqb (lower (lower t)) (lower t) = true.
Proof. rewrite lower_idem. apply beqb_refl. Qed.

Lemma lower_forallb_alpha t : forallb is_alpha (lower t) = forallb is_alpha t.
Proof.
  induction t as [|b t IH]; cbn [lower map forallb]; [reflexivity|]. fold (lower t). rewrite IH. f_equal.
  unfold to_lower, is_alpha, is_upper, is_lower, in_range. destruct ((65 <=? b) && (b <=? 90)) eqn:E; lia.
Qed.
Lemma lower_forallb_alnum t : forallb is_alnum (lower t) = forallb is_alnum t.
Proof.
  induction t as [|b t IH]; cbn [lower map forallb]; [reflexivity|]. fold (lower t). rewrite IH. f_equal.
  unfold to_lower, is_alnum, is_alpha, is_upper, is_lower, is_digit, in_range. destruct ((65 <=? b) && (b <=? 90)) eqn:E; lia.
Qed.
Lemma upper_forallb_alpha t : forallb is_alpha (upper t) = forallb is_alpha t.
Proof.
  induction t as [|b t IH]; cbn [upper map forallb]; [reflexivity|]. fold (upper t). rewrite IH. f_equal.
  unfold to_upper, is_alpha, is_upper, is_lower, in_range. destruct ((97 <=? b) && (b <=? 122)) eqn:E; lia.
Qed.
Lemma to_upper_idem b : to_upper (to_upper b) = to_upper b.
Proof. unfold to_upper, is_lower, in_range. destruct ((97 <=? b) && (b <=? 122)) eqn:E; [|rewrite E; reflexivity].
  destruct ((97 <=? b - 32) && (b - 32 <=? 122)) eqn:E2; [lia|reflexivity]. Qed.
Lemma upper_idem s : upper (upper s) = upper s.
Proof. unfold upper. rewrite map_map. apply map_ext. apply to_upper_idem. Qed.
Lemma to_lower_upper_lower b : to_lower (to_lower b) = to_lower b.
Proof. apply to_lower_idem. Qed.

Lemma lang_value_canon l : lang_tok l = true -> canon_lang (spec_language_value l) = true.
Proof.
  intros H. unfold spec_language_value. destruct (beqb (lower l) und_b) eqn:E; [reflexivity|].
  cbn [canon_lang]. rewrite lower_idem, beqb_refl, E. cbn [negb andb]. rewrite andb_true_r.
  unfold lang_tok, len_in in *. rewrite lower_forallb_alpha, lower_length, andb_true_r. exact H.
Qed.
Lemma title_canon t : script_tok t = true -> canon_script (title t) = true.
Proof.
  unfold canon_script, script_tok. intros H. apply andb_true_iff in H as [Ha Hl].
  destruct t as [|c r]; [discriminate|]. cbn [title forallb length] in *. apply andb_true_iff in Ha as [Hc Hr].
  rewrite lower_forallb_alpha, Hr, lower_length, Hl, andb_true_r.
  rewrite to_upper_idem, lower_idem, beqb_refl, andb_true_r.
  unfold to_upper, is_alpha, is_upper, is_lower, in_range in *. destruct ((97 <=? c) && (c <=? 122)) eqn:E; lia.
Qed.
Lemma norm_region_canon t : region_tok t = true -> canon_region (norm_region t) = true.
Proof.
  unfold canon_region, region_tok, norm_region. intros H.
  destruct (length t =? 2)%nat eqn:E2.
  - rewrite upper_length, E2, upper_idem, beqb_refl, andb_true_r, upper_forallb_alpha.
    apply orb_true_iff in H as [H|H]; [|lia]. rewrite H. reflexivity.
  - rewrite E2, beqb_refl, andb_true_r. exact H.
Qed.
Lemma lower_variant_canon t : variant_tok t = true -> canon_variant (lower t) = true.
Proof.
  unfold canon_variant. intros H. rewrite lower_idem, beqb_refl, andb_true_r.
  unfold variant_tok, len_in in *. rewrite lower_forallb_alnum, lower_length.
  destruct t as [|c r]; [exact H|]. cbn [lower map]. fold (lower r). rewrite lower_forallb_alnum, lower_length.
  assert (Hd : is_digit c = true -> is_digit (to_lower c) = true).
  { unfold to_lower, is_digit, is_upper, in_range. destruct ((65 <=? c) && (c <=? 90)) eqn:E; lia. }
  apply orb_true_iff in H as [H|H]; [rewrite H; reflexivity|].
  apply orb_true_iff. right. apply andb_true_iff in H as [H H3]. apply andb_true_iff in H as [Hc Hr]. rewrite Hr, H3, (Hd Hc). reflexivity.
Qed.

Lemma forallb_In_iff {A} (p : A -> bool) a b : (forall y, In y a <-> In y b) -> forallb p a = forallb p b.
Proof.
  intros H. destruct (forallb p a) eqn:Ea, (forallb p b) eqn:Eb; try reflexivity.
  - rewrite forallb_forall in Ea. assert (forallb p b = true) by (apply forallb_forall; intros x Hx; apply Ea, H, Hx). congruence.
  - rewrite forallb_forall in Eb. assert (forallb p a = true) by (apply forallb_forall; intros x Hx; apply Eb, H, Hx). congruence.
Qed.

Lemma spec_variants_inv vs : forallb variant_tok vs = true -> variants_inv (spec_variants vs) = true.
Proof.
  intros H. destruct vs as [|v vs']; [reflexivity|]. unfold spec_variants.
  set (L := map lower (v :: vs')). cbn [variants_inv]. fold (canon L).
  assert (HL : forallb canon_variant L = true).
  { unfold L. rewrite forallb_forall in *. intros x Hx. apply in_map_iff in Hx as (y & <- & Hy). apply lower_variant_canon, H, Hy. }
  rewrite (forallb_In_iff canon_variant (canon L) L (fun y => canon_In y L)), HL.
  assert (Hs : ssortedb (canon L) = true) by (apply ssortedb_iff, canon_sorted). rewrite Hs.
  destruct (canon L) eqn:E; [|reflexivity]. apply (proj1 (canon_nil_iff L)) in E. subst L; cbn [map] in E; discriminate.
Qed.

Theorem spec_langid_prefix_inv toks v rem : spec_langid_prefix toks = Some (v, rem) -> li_inv v = true.
Proof.
  unfold spec_langid_prefix. destruct toks as [|l rest]; [intros H; injection H as <- <-; reflexivity|].
  destruct (lang_tok l) eqn:Hl; [|discriminate].
  destruct (take_script rest) as [sc r1] eqn:Es. destruct (take_region r1) as [rg r2] eqn:Er.
  intros H. injection H as <- <-. unfold li_inv. cbn [li_lang li_script li_region li_variants].
  rewrite (lang_value_canon _ Hl). cbn [andb].
  assert (opt_all canon_script sc = true) as ->.
  { destruct rest as [|t r]; cbn [take_script] in Es; [injection Es as <- <-; reflexivity|].
    destruct (script_tok t) eqn:Et; injection Es as <- <-; [apply title_canon; exact Et|reflexivity]. }
  assert (opt_all canon_region rg = true) as ->.
  { destruct r1 as [|t r]; cbn [take_region] in Er; [injection Er as <- <-; reflexivity|].
    destruct (region_tok t) eqn:Et; injection Er as <- <-; [apply norm_region_canon; exact Et|reflexivity]. }
  cbn [andb]. apply spec_variants_inv, take_while_forall.
Qed.

Corollary langid_parse_inv s v : langid_from_bytes s = Ok v -> li_inv v = true.
Proof.
  rewrite langid_from_bytes_spec. unfold spec_langid.
  destruct (split s) as [|t r] eqn:Es; [discriminate|].
  destruct (spec_langid_prefix (t :: r)) as [[v' rem]|] eqn:E; [|discriminate].
  destruct rem; [|discriminate]. intros H. injection H as <-. eapply spec_langid_prefix_inv; eassumption.
Qed.
