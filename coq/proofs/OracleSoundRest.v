(* OracleSoundRest.v — OracleSound for the serde (C19) and macro (C16) operations. *)
From UL Require Import Bytes Subtags LangId Ext Grammar LangIdSpec LocaleInv AbstractLocale LocaleSpec Canonical Serde Macros
                       BytesProofs SubtagProofs SplitProofs LangIdProofs LangIdAlgebra CanonProofs ExtProofs RoundTrip InvProofs
                       LocaleSpecProofs MacroProofs Oracle OracleSound.
From Coq Require Import String Lia.
Open Scope N_scope.

Theorem serde_sound op args r : oracle_model_serde op args = Some r -> passes (oracle_spec_serde op args r).
Proof.
  unfold oracle_model_serde, oracle_spec_serde. intros H. set (a := arg1 args) in *.
  destruct (beqb op (bs "serde_ser")) eqn:E1.
  { apply some_inj in H; subst r. cbn [passes]. destruct (spec_langid (split a)) as [v|] eqn:S; [|reflexivity].
    destruct (parsed_inv _ _ S) as [P I]. rewrite P. unfold ser. rewrite beqb_refl, (li_to_string_canonical _ I). reflexivity. }
  destruct (beqb op (bs "serde_de")) eqn:E2.
  { apply some_inj in H; subst r. cbn [passes]. unfold de. rewrite langid_from_bytes_spec.
    destruct (spec_langid (split a)); cbn [fmt_res_e]; apply beqb_refl. }
  destruct (beqb op (bs "serde_roundtrip")) eqn:E3.
  { apply some_inj in H; subst r. cbn [passes]. rewrite langid_from_bytes_spec.
    destruct (spec_langid (split a)) as [v|] eqn:S; [|reflexivity].
    destruct (parsed_inv _ _ S) as [P I]. unfold de, ser. rewrite (langid_roundtrip _ I), li_eqb_refl. reflexivity. }
  destruct (beqb op (bs "serde_nonstring")) eqn:E4; [|discriminate].
  apply some_inj in H; subst r. reflexivity.
Qed.

Lemma tokres_ok (tok : bytes -> bool) (value : bytes -> bytes) (f : bytes -> bytes) a (m : mval bytes) :
  m = (if tok a then MValue (value a) else MCompileError) ->
  (if tok a then beqb (fmt_mval f m) (bs "OK " ++ f (value a)) else beqb (fmt_mval f m) (bs "COMPILE-ERROR")) = true.
Proof. intros ->. destruct (tok a); cbn [fmt_mval]; apply beqb_refl. Qed.

Theorem macros_sound op args r : oracle_model_macros op args = Some r -> passes (oracle_spec_macros op args r).
Proof.
  unfold oracle_model_macros, oracle_spec_macros. intros H. set (a := arg1 args) in *.
  destruct (beqb op (bs "macro_lang")) eqn:E1.
  { apply some_inj in H; subst r. cbn [passes]. cbv zeta.
    pose proof (language_spec a) as L. destruct (lang_tok a) eqn:T.
    - rewrite (macro_lang_ok a _ L). cbn [fmt_mval]. apply beqb_refl.
    - unfold macro_lang. rewrite L. cbn [fmt_mval]. apply beqb_refl. }
  destruct (beqb op (bs "macro_script")) eqn:E2.
  { apply some_inj in H; subst r. cbn [passes]. cbv zeta.
    pose proof (script_spec a) as L. destruct (script_tok a) eqn:T.
    - rewrite (macro_script_ok a _ L). cbn [fmt_mval]. apply beqb_refl.
    - unfold macro_script. rewrite L. cbn [fmt_mval]. apply beqb_refl. }
  destruct (beqb op (bs "macro_region")) eqn:E3.
  { apply some_inj in H; subst r. cbn [passes]. cbv zeta.
    pose proof (region_spec a) as L. destruct (region_tok a) eqn:T.
    - rewrite (macro_region_ok a _ L). cbn [fmt_mval]. apply beqb_refl.
    - unfold macro_region. rewrite L. cbn [fmt_mval]. apply beqb_refl. }
  destruct (beqb op (bs "macro_variant")) eqn:E4.
  { apply some_inj in H; subst r. cbn [passes]. cbv zeta.
    pose proof (variant_spec a) as L. destruct (variant_tok a) eqn:T.
    - rewrite (macro_variant_ok a _ L). cbn [fmt_mval]. apply beqb_refl.
    - unfold macro_variant. rewrite L. cbn [fmt_mval]. apply beqb_refl. }
  destruct (beqb op (bs "macro_langid")) eqn:E5.
  { apply some_inj in H; subst r. cbn [passes].
    destruct (spec_langid (split a)) as [v|] eqn:S.
    - destruct (parsed_inv _ _ S) as [P I]. rewrite (macro_langid_ok a v P). cbn [fmt_mval]. apply beqb_refl.
    - unfold macro_langid. rewrite langid_from_bytes_spec, S. cbn [fmt_mval]. apply beqb_refl. }
  destruct (beqb op (bs "macro_locale")) eqn:E6; [|discriminate].
  apply some_inj in H; subst r. cbn [passes].
  assert (OKV : forall l, locale_from_bytes a = Ok l -> macro_locale a = MValue l).
  { intros l P. unfold macro_locale. rewrite P.
    pose proof (locale_parse_inv _ _ P) as Hinv. unfold loc_inv in Hinv. apply andb_true_iff in Hinv as [Hi He].
    rewrite (extmap_roundtrip _ He), (raw_langid_id _ Hi). destruct l; reflexivity. }
  destruct (locale_from_bytes_total a) as [[l P]|[e P]].
  - rewrite (OKV l P). cbn [fmt_mval]. pose proof (locale_sound a l P) as S.
    destruct (spec_locale_zone (split a)); try subst v.
    + apply beqb_refl.
    + rewrite beqb_refl. apply orb_true_r.
    + destruct S.
    + reflexivity.
  - unfold macro_locale. rewrite P. cbn [fmt_mval].
    destruct (spec_locale_zone (split a)) eqn:Z; try reflexivity.
    rewrite (locale_complete a v Z) in P. discriminate.
Qed.
