(* OracleSoundLikely.v — OracleSound for the likely-subtags / direction / table operations (C06, C07, C08, C14, C18):
   the model's answer passes the specification the oracle applies (dictionary reference built from
   likelySubtags.json, direction facts derived from the layout files, row-by-row CLDR look-ups). *)
From UL Require Import Bytes Subtags LangId Grammar LangIdSpec Likely Inst LikelySpec LayoutSpec
                       BytesProofs SubtagProofs LangIdProofs LangIdAlgebra CanonProofs RawProofs PackProofs
                       TablesData LayoutData LikelyProofs LikelySpecProofs DirectionProofs OpsInvProofs Oracle OracleSound.
From UL Require Tables Layout CldrLikely.
From Coq Require Import String Lia.
Open Scope N_scope.

Lemma cldr_dir_of_in x es d : cldr_dir_of x es = Some d ->
  exists y, In (y, d) es /\ li_lang x = li_lang y /\ li_script x = li_script y /\ li_region x = li_region y.
Proof.
  induction es as [|[y d'] es IH]; cbn [cldr_dir_of]; [discriminate|].
  destruct (obeqb (li_lang x) (li_lang y) && obeqb (li_script x) (li_script y) && obeqb (li_region x) (li_region y)) eqn:E.
  - intros H. apply some_inj in H. subst d'. apply andb_true_iff in E as [E E3]. apply andb_true_iff in E as [E1 E2].
    exists y. split; [left; reflexivity|]. repeat split; apply obeqb_iff; assumption.
  - intros H. destruct (IH H) as (z & Hz & R). exists z. split; [right; exact Hz|exact R].
Qed.

Lemma direction_fields likely x y : li_lang x = li_lang y -> li_script x = li_script y -> li_region x = li_region y ->
  direction likely the_layout the_tables x = direction likely the_layout the_tables y.
Proof.
  destruct x as [l s r v], y as [l' s' r' v']. cbn [li_lang li_script li_region]. intros -> -> ->. apply variants_irrelevant.
Qed.

Lemma res_dir_is_ok r d : res_dir_is r d = true -> r = Ok d.
Proof. destruct r as [d'| | |]; cbn [res_dir_is]; try discriminate. destruct d, d'; cbn; intros; try discriminate; reflexivity. Qed.

Lemma fmt_dir_self d : beqb (fmt_dir d) (fmt_dir d) = true.
Proof. apply beqb_refl. Qed.

Theorem direction_sound likely a : passes (Some (spec_dir_ok likely a (model_direction likely a))).
Proof.
  cbn [passes]. unfold spec_dir_ok, model_direction.
  destruct (langid_from_bytes a) as [x| | |] eqn:P; try reflexivity.
  pose proof (langid_parse_inv _ _ P) as I. unfold li_inv in I.
  apply andb_true_iff in I as [I Iv]. apply andb_true_iff in I as [I Ir]. apply andb_true_iff in I as [Il Is].
  cbv zeta.
  destruct (match li_script x with Some sc => spec_script_dir the_lay sc | None => None end) as [d|] eqn:BS.
  - destruct (li_script x) as [sc|] eqn:Es; [|discriminate]. cbn [opt_all] in Is.
    rewrite (script_decides likely x sc d Es (proj1 (canon_script_small _ Is)) BS). apply beqb_refl.
  - destruct (match li_lang x with None => true | Some l => negb (spec_lang_rtl the_lay l) end) eqn:NR.
    + assert (D : direction likely the_layout the_tables x = Ok LTR).
      { apply default_ltr.
        - destruct (li_script x) as [sc|]; [|exact I]. cbn [opt_all] in Is. split; [exact (proj1 (canon_script_small _ Is))|exact BS].
        - destruct (li_lang x) as [l|]; [|exact I]. split; [exact (proj1 (canon_lang_small _ Il))|]. apply negb_true_iff. exact NR. }
      rewrite D. reflexivity.
    + destruct (cldr_dir_of x the_lay) as [d|] eqn:CD; [|destruct likely; reflexivity].
      destruct (cldr_dir_of_in _ _ _ CD) as (y & Hy & E1 & E2 & E3).
      rewrite (direction_fields likely x y E1 E2 E3). destruct likely.
      * pose proof lay_all_likely as A. unfold all_locales_likely in A. rewrite forallb_forall in A. specialize (A _ Hy). cbv beta iota in A.
        rewrite (res_dir_is_ok _ _ A). apply beqb_refl.
      * pose proof lay_all_unlikely as A. unfold all_locales_unlikely in A. rewrite forallb_forall in A. specialize (A _ Hy). cbv beta iota in A.
        apply orb_true_iff in A as [A|A].
        -- rewrite (res_dir_is_ok _ _ A), beqb_refl. reflexivity.
        -- rewrite E2, E1, A. apply orb_true_r.
Qed.

Lemma maximize_sound l s r : wf_triple l s r = true ->
  spec_max_ok l s r (fmt_res_plain fmt_otriple (maximize the_tables l s r)) = true.
Proof. intros W. rewrite (maximize_is_spec l s r W). unfold spec_max_ok. cbn [fmt_res_plain]. rewrite beqb_refl. reflexivity. Qed.
Lemma minimize_sound l s r : wf_triple l s r = true ->
  spec_min_ok l s r (fmt_res_plain fmt_otriple (minimize the_tables l s r)) = true.
Proof. intros W. rewrite (minimize_is_spec l s r W). unfold spec_min_ok. cbn [fmt_res_plain]. rewrite beqb_refl. apply orb_true_r. Qed.

(* ---------------------------------------------------------------- C18: the compiled statics, row by row *)
Definition known_tables : list bytes :=
  [bs "LANG_ONLY"; bs "LANG_REGION"; bs "LANG_SCRIPT"; bs "SCRIPT_REGION"; bs "SCRIPT_ONLY"; bs "REGION_ONLY";
   bs "SCRIPTS_LTR"; bs "SCRIPTS_RTL"; bs "SCRIPTS_TTB"; bs "LANGS_RTL"]%string.

Lemma table_len_sound name : In name known_tables -> beqb (model_table_len name) (spec_table_len name) = true.
Proof.
  unfold known_tables. cbn [In]. intros H.
  repeat (destruct H as [<-|H]; [vm_compute; reflexivity|]). destruct H.
Qed.


Lemma rows_lang_only : forallb (fun row => spec_table_row_ok (bs "LANG_ONLY") (fmt_row1 (Some row))) (t_lang_only the_tables) = true. Proof. vm_compute. reflexivity. Qed.
Lemma rows_lang_region : forallb (fun row => spec_table_row_ok (bs "LANG_REGION") (fmt_row2 (Some row))) (t_lang_region the_tables) = true. Proof. vm_compute. reflexivity. Qed.
Lemma rows_lang_script : forallb (fun row => spec_table_row_ok (bs "LANG_SCRIPT") (fmt_row2 (Some row))) (t_lang_script the_tables) = true. Proof. vm_compute. reflexivity. Qed.
Lemma rows_script_region : forallb (fun row => spec_table_row_ok (bs "SCRIPT_REGION") (fmt_row2 (Some row))) (t_script_region the_tables) = true. Proof. vm_compute. reflexivity. Qed.
Lemma rows_script_only : forallb (fun row => spec_table_row_ok (bs "SCRIPT_ONLY") (fmt_row1 (Some row))) (t_script_only the_tables) = true. Proof. vm_compute. reflexivity. Qed.
Lemma rows_region_only : forallb (fun row => spec_table_row_ok (bs "REGION_ONLY") (fmt_row1 (Some row))) (t_region_only the_tables) = true. Proof. vm_compute. reflexivity. Qed.
Lemma rows_ltr : forallb (fun row => spec_table_row_ok (bs "SCRIPTS_LTR") (fmt_rowN (Some row))) (ly_ltr the_layout) = true. Proof. vm_compute. reflexivity. Qed.
Lemma rows_rtl : forallb (fun row => spec_table_row_ok (bs "SCRIPTS_RTL") (fmt_rowN (Some row))) (ly_rtl the_layout) = true. Proof. vm_compute. reflexivity. Qed.
Lemma rows_ttb : forallb (fun row => spec_table_row_ok (bs "SCRIPTS_TTB") (fmt_rowN (Some row))) (ly_ttb the_layout) = true. Proof. vm_compute. reflexivity. Qed.
Lemma rows_langs_rtl : forallb (fun row => spec_table_row_ok (bs "LANGS_RTL") (fmt_rowN (Some row))) (ly_lang_rtl the_layout) = true. Proof. vm_compute. reflexivity. Qed.

Lemma norow name : spec_table_row_ok name (bs "NOROW") = true.
Proof. reflexivity. Qed.

Lemma row_at {A} (f : option A -> bytes) (t : list A) name i :
  f None = bs "NOROW" -> forallb (fun row => spec_table_row_ok name (f (Some row))) t = true ->
  spec_table_row_ok name (f (nth_error t i)) = true.
Proof.
  intros HN H. destruct (nth_error t i) as [row|] eqn:E; [|rewrite HN; apply norow].
  rewrite forallb_forall in H. apply H. exact (nth_error_In _ _ E).
Qed.

Ltac step_false := match goal with |- context [beqb (bs ?a) (bs ?b)] =>
  let E := fresh in assert (E : beqb (bs a) (bs b) = false) by (vm_compute; reflexivity); rewrite E; clear E end.
Ltac pick_table := unfold model_table_row; repeat step_false; rewrite beqb_refl; reflexivity.
Lemma mtr_lang_only i : model_table_row (bs "LANG_ONLY") i = fmt_row1 (nth_error (t_lang_only the_tables) i). Proof. pick_table. Qed.
Lemma mtr_lang_region i : model_table_row (bs "LANG_REGION") i = fmt_row2 (nth_error (t_lang_region the_tables) i). Proof. pick_table. Qed.
Lemma mtr_lang_script i : model_table_row (bs "LANG_SCRIPT") i = fmt_row2 (nth_error (t_lang_script the_tables) i). Proof. pick_table. Qed.
Lemma mtr_script_region i : model_table_row (bs "SCRIPT_REGION") i = fmt_row2 (nth_error (t_script_region the_tables) i). Proof. pick_table. Qed.
Lemma mtr_script_only i : model_table_row (bs "SCRIPT_ONLY") i = fmt_row1 (nth_error (t_script_only the_tables) i). Proof. pick_table. Qed.
Lemma mtr_region_only i : model_table_row (bs "REGION_ONLY") i = fmt_row1 (nth_error (t_region_only the_tables) i). Proof. pick_table. Qed.
Lemma mtr_ltr i : model_table_row (bs "SCRIPTS_LTR") i = fmt_rowN (nth_error (ly_ltr the_layout) i). Proof. pick_table. Qed.
Lemma mtr_rtl i : model_table_row (bs "SCRIPTS_RTL") i = fmt_rowN (nth_error (ly_rtl the_layout) i). Proof. pick_table. Qed.
Lemma mtr_ttb i : model_table_row (bs "SCRIPTS_TTB") i = fmt_rowN (nth_error (ly_ttb the_layout) i). Proof. pick_table. Qed.
Lemma mtr_langs_rtl i : model_table_row (bs "LANGS_RTL") i = fmt_rowN (nth_error (ly_lang_rtl the_layout) i). Proof. pick_table. Qed.

Lemma table_row_sound name i : In name known_tables -> spec_table_row_ok name (model_table_row name i) = true.
Proof.
  unfold known_tables. cbn [In]. intros H.
  destruct H as [<-|H]; [rewrite mtr_lang_only; exact (row_at fmt_row1 _ _ i eq_refl rows_lang_only)|].
  destruct H as [<-|H]; [rewrite mtr_lang_region; exact (row_at fmt_row2 _ _ i eq_refl rows_lang_region)|].
  destruct H as [<-|H]; [rewrite mtr_lang_script; exact (row_at fmt_row2 _ _ i eq_refl rows_lang_script)|].
  destruct H as [<-|H]; [rewrite mtr_script_region; exact (row_at fmt_row2 _ _ i eq_refl rows_script_region)|].
  destruct H as [<-|H]; [rewrite mtr_script_only; exact (row_at fmt_row1 _ _ i eq_refl rows_script_only)|].
  destruct H as [<-|H]; [rewrite mtr_region_only; exact (row_at fmt_row1 _ _ i eq_refl rows_region_only)|].
  destruct H as [<-|H]; [rewrite mtr_ltr; exact (row_at fmt_rowN _ _ i eq_refl rows_ltr)|].
  destruct H as [<-|H]; [rewrite mtr_rtl; exact (row_at fmt_rowN _ _ i eq_refl rows_rtl)|].
  destruct H as [<-|H]; [rewrite mtr_ttb; exact (row_at fmt_rowN _ _ i eq_refl rows_ttb)|].
  destruct H as [<-|H]; [rewrite mtr_langs_rtl; exact (row_at fmt_rowN _ _ i eq_refl rows_langs_rtl)|]. destruct H.
Qed.

(* ---------------------------------------------------------------- the group *)
Theorem likely_group_sound op args r : oracle_model_likely op args = Some r ->
  (beqb op (bs "maximize") || beqb op (bs "minimize") = true ->
   wf_triple (opt_arg (arg_n 0 args)) (opt_arg (arg_n 1 args)) (opt_arg (arg_n 2 args)) = true) ->
  (beqb op (bs "table_row") || beqb op (bs "table_len") = true -> In (arg_n 0 args) known_tables) ->
  passes (oracle_spec_likely op args r).
Proof.
  unfold oracle_model_likely, oracle_spec_likely. intros H WF KT.
  destruct (beqb op (bs "maximize")) eqn:E1.
  { apply some_inj in H; subst r. cbn [passes]. apply maximize_sound. apply WF. reflexivity. }
  destruct (beqb op (bs "minimize")) eqn:E2.
  { apply some_inj in H; subst r. cbn [passes]. apply minimize_sound. apply WF. reflexivity. }
  destruct (beqb op (bs "li_maximize")) eqn:E3.
  { apply some_inj in H; subst r. only_op E3. cbn [passes]. unfold spec_li_max_ok. rewrite langid_from_bytes_spec.
    destruct (spec_langid (split (arg1 args))) as [x|] eqn:S; [|apply beqb_refl].
    destruct (parsed_inv _ _ S) as [_ I]. unfold li_maximize. rewrite (maximize_is_spec _ _ _ (li_inv_wf _ I)).
    unfold li_apply, fmt_li_change, fmt_li_changed. cbn [fmt_res_plain].
    destruct (spec_maximize the_dict (li_lang x) (li_script x) (li_region x)) as [[[l s0] rg]|]; cbn [fst snd]; rewrite beqb_refl; reflexivity. }
  destruct (beqb op (bs "li_minimize")) eqn:E4.
  { apply some_inj in H; subst r. only_op E4. cbn [passes]. unfold spec_li_min_ok. rewrite langid_from_bytes_spec.
    destruct (spec_langid (split (arg1 args))) as [x|] eqn:S; [|apply beqb_refl].
    destruct (parsed_inv _ _ S) as [_ I]. unfold li_minimize. rewrite (minimize_is_spec _ _ _ (li_inv_wf _ I)).
    unfold li_apply, fmt_li_change, fmt_li_changed. cbn [fmt_res_plain].
    destruct (spec_minimize the_dict (li_lang x) (li_script x) (li_region x)) as [[[l s0] rg]|]; cbn [fst snd]; rewrite beqb_refl; apply orb_true_r. }
  destruct (beqb op (bs "direction_likely")) eqn:E5.
  { apply some_inj in H; subst r. apply direction_sound. }
  destruct (beqb op (bs "direction_plain")) eqn:E6.
  { apply some_inj in H; subst r. apply direction_sound. }
  destruct (beqb op (bs "table_row")) eqn:E7.
  { apply some_inj in H; subst r. only_op E7. cbn [passes]. apply table_row_sound. apply KT. reflexivity. }
  destruct (beqb op (bs "table_len")) eqn:E8.
  { apply some_inj in H; subst r. only_op E8. cbn [passes].
    assert (A : arg1 args = arg_n 0 args) by (destruct args; reflexivity). rewrite A. apply table_len_sound. apply KT. reflexivity. }
  destruct (beqb op (bs "cldr_version")) eqn:E9; [|discriminate].
  apply some_inj in H; subst r. cbn [passes]. rewrite data_version. apply beqb_refl.
Qed.
