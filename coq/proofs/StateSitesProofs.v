(* StateSitesProofs.v — the model is a set of PURE functions: `maximize`, `character_direction`, the parsers answer from
   their arguments and the generated tables alone.  The regenerated inventory gen/StateSites.v lists every place in the
   non-test library sources where something could outlive a call (a `static`, `static mut`, `thread_local!`,
   lazily initialised cell, interior-mutability type, hand-written Sync / Send impl).  The obligation: there is none
   apart from the seven immutable generated tables of likelysubtags/tables.rs - so a memo, a cache, a supplement table
   kept next to the generated ones, or a counter breaks THIS theorem even when no test input shows a wrong answer. *)
From Coq Require Import List String Bool.
From UL Require Import StateSites.
Import ListNotations.
Open Scope string_scope.

Definition generated_statics : list string :=
  ["CLDR_VERSION"; "LANG_ONLY"; "LANG_REGION"; "LANG_SCRIPT"; "SCRIPT_REGION"; "SCRIPT_ONLY"; "REGION_ONLY"].

Definition state_site_ok (s : string * string * string) : bool :=
  match s with
  | (file, kind, name) =>
    String.eqb kind "static" && String.eqb file "unic-langid-impl/src/likelysubtags/tables.rs"
    && existsb (String.eqb name) generated_statics
  end.
Definition library_stateless : bool :=
  forallb state_site_ok state_sites
  && forallb (fun n => existsb (fun s => String.eqb (snd s) n) state_sites) generated_statics.

Lemma stateless : library_stateless = true.
Proof. vm_compute. reflexivity. Qed.

(* the rule is not vacuous: what rounds 9 and 10 of the seeded changes introduced is refused *)
Example state_rule :
  state_site_ok ("unic-langid-impl/src/likelysubtags/tables.rs", "static", "LANG_ONLY") = true
  /\ state_site_ok ("unic-langid-impl/src/likelysubtags/mod.rs", "static", "LANG_SCRIPT_SUPPLEMENT") = false
  /\ state_site_ok ("unic-langid-impl/src/likelysubtags/mod.rs", "static", "LAST_LANG") = false
  /\ state_site_ok ("unic-langid-impl/src/likelysubtags/mod.rs", "interior", "AtomicU64") = false
  /\ state_site_ok ("unic-langid-impl/src/likelysubtags/mod.rs", "thread_local", "thread_local") = false
  /\ state_site_ok ("unic-langid-impl/src/likelysubtags/tables.rs", "static-mut", "LANG_ONLY") = false.
Proof. vm_compute. repeat split; reflexivity. Qed.
