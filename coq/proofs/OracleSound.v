(* OracleSound.v — the specification side of the oracle (extract/Oracle.v: `oracle_spec`, the functions that JUDGE
   the implementation's answers in the correspondence run) is a consequence of the proved theorems: for every
   operation and every argument, the MODEL's own answer passes the specification.  So a specification failure
   reported against the implementation always means "the implementation differs from the proved model on this
   input", and the executable specifications are not ad-hoc test oracles but corollaries of coq/props. *)
From UL Require Import Bytes Subtags LangId Ext Grammar LangIdSpec LocaleInv AbstractLocale LocaleSpec Canonical CanonLocale Prefix
                       BytesProofs SubtagProofs SplitProofs LangIdProofs LangIdAlgebra CanonProofs ExtProofs RoundTrip InvProofs
                       LocaleSpecProofs LengthProofs LocaleLength CanonLocaleProofs StringLevel PrefixProofs LocaleOrd LocaleAlgebra Likely Inst Ops
                       TablesData OpsInvProofs RefineProofs PrintZone Oracle.
From Coq Require Import String Lia.
Open Scope N_scope.

Definition passes (o : option bool) : Prop := match o with Some b => b = true | None => True end.
Lemma some_inj {A} (x y : A) : Some x = Some y -> x = y.
Proof. congruence. Qed.

Ltac op_case H := match type of H with context [if beqb ?op (bs ?s) then _ else _] => destruct (beqb op (bs s)) eqn:? end.

(* ---------------------------------------------------------------- subtags (C15) *)
Lemma tok_result_ok (tok : bytes -> bool) (value : bytes -> bytes) (f : bytes -> bytes) e ee a (r : res bytes) :
  r = (if tok a then Ok (value a) else Err e) -> fmt_err e = ee ->
  spec_tok_result tok (fun s => f (value s)) ee a (fmt_res f r) = true.
Proof.
  intros -> <-. unfold spec_tok_result. destruct (tok a); cbn [fmt_res]; apply beqb_refl.
Qed.

Theorem subtags_sound op args r : oracle_model_subtags op args = Some r -> passes (oracle_spec_subtags op args r).
Proof.
  unfold oracle_model_subtags, oracle_spec_subtags. intros H.
  destruct (beqb op (bs "lang")) eqn:E1.
  { apply some_inj in H; subst r. cbn [passes]. rewrite language_spec. unfold spec_tok_result.
    destruct (lang_tok (arg1 args)); cbn [fmt_res fmt_err]; apply beqb_refl. }
  destruct (beqb op (bs "script")) eqn:E2.
  { apply some_inj in H; subst r. cbn [passes]. rewrite script_spec. unfold spec_tok_result.
    destruct (script_tok (arg1 args)); cbn [fmt_res fmt_err]; apply beqb_refl. }
  destruct (beqb op (bs "region")) eqn:E3.
  { apply some_inj in H; subst r. cbn [passes]. rewrite region_spec. unfold spec_tok_result.
    destruct (region_tok (arg1 args)); cbn [fmt_res fmt_err]; apply beqb_refl. }
  destruct (beqb op (bs "variant")) eqn:E4.
  { apply some_inj in H; subst r. cbn [passes]. rewrite variant_spec. unfold spec_tok_result.
    destruct (variant_tok (arg1 args)); cbn [fmt_res fmt_err]; apply beqb_refl. }
  exact I.
Qed.

(* ---------------------------------------------------------------- language identifiers (C02, C04, C05, C11, C12, C17) *)
Lemma parts_of_args_canon args l s0 r vs : parts_of_args args = Some (l, s0, r, vs) ->
  canon_lang l = true /\ opt_all canon_script s0 = true /\ opt_all canon_region r = true /\ forallb canon_variant vs = true.
Proof.
  unfold parts_of_args. destruct args as [|a1 [|a2 [|a3 vargs]]]; try discriminate.
  set (lo := match a1 with [] => Some None | _ => _ end). set (so := match a2 with [] => Some None | _ => _ end).
  set (ro := match a3 with [] => Some None | _ => _ end).
  set (vo := fold_right _ _ vargs).
  destruct lo as [l'|] eqn:EL; [|discriminate]. destruct so as [s'|] eqn:ES; [|discriminate].
  destruct ro as [r'|] eqn:ER; [|discriminate]. destruct vo as [v'|] eqn:EV; [|discriminate].
  intros H. injection H as <- <- <- <-. repeat split.
  - subst lo. destruct a1 as [|c a1']; [injection EL as <-; reflexivity|].
    destruct (language_from_bytes (c :: a1')) as [x| | |] eqn:E; try discriminate. injection EL as <-. exact (language_value_canon _ _ E).
  - subst so. destruct a2 as [|c a2']; [injection ES as <-; reflexivity|].
    destruct (script_from_bytes (c :: a2')) as [x| | |] eqn:E; try discriminate. injection ES as <-. exact (script_value_canon _ _ E).
  - subst ro. destruct a3 as [|c a3']; [injection ER as <-; reflexivity|].
    destruct (region_from_bytes (c :: a3')) as [x| | |] eqn:E; try discriminate. injection ER as <-. exact (region_value_canon _ _ E).
  - subst vo. clear -EV. revert v' EV. induction vargs as [|v vargs IH]; intros v' EV; cbn [fold_right] in EV.
    + injection EV as <-. reflexivity.
    + destruct (fold_right _ _ vargs) as [acc|] eqn:F; [|discriminate].
      destruct (variant_from_bytes v) as [x| | |] eqn:E; try discriminate. injection EV as <-.
      cbn [forallb]. rewrite (variant_value_canon _ _ E), (IH acc eq_refl). reflexivity.
Qed.

Lemma spec_li_matches_is x y ra rb : spec_li_matches x y ra rb = li_matches x y ra rb.
Proof.
  rewrite li_matches_spec. unfold spec_li_matches, matches_spec, fld_ok, vempty, is_none.
  destruct (li_lang x), (li_lang y), (li_script x), (li_script y), (li_region x), (li_region y), ra, rb; reflexivity.
Qed.

Lemma parsed_inv a v : spec_langid (split a) = Some v -> langid_from_bytes a = Ok v /\ li_inv v = true.
Proof.
  intros E. assert (P : langid_from_bytes a = Ok v) by (rewrite langid_from_bytes_spec, E; reflexivity).
  split; [exact P|exact (langid_parse_inv _ _ P)].
Qed.
Lemma li_eqb_refl x : li_eqb x x = true.
Proof. apply li_eqb_iff. reflexivity. Qed.

Theorem langid_sound op args r : oracle_model_langid op args = Some r -> passes (oracle_spec_langid op args r).
Proof.
  unfold oracle_model_langid, oracle_spec_langid. intros H. set (a := arg1 args) in *.
  destruct (beqb op (bs "langid")) eqn:E1.
  { apply some_inj in H; subst r. cbn [passes]. rewrite langid_from_bytes_spec.
    destruct (spec_langid (split a)); cbn [fmt_res]; apply beqb_refl. }
  destruct (beqb op (bs "li_canonicalize")) eqn:E2.
  { assert (N : beqb op (bs "li_iter") = false).
    { destruct (beqb op (bs "li_iter")) eqn:X; [|reflexivity]. apply beqb_eq in E2. apply beqb_eq in X. rewrite E2 in X. vm_compute in X. discriminate. }
    rewrite N. apply some_inj in H; subst r. cbn [passes]. unfold li_canonicalize. rewrite langid_from_bytes_spec.
    destruct (spec_langid (split a)) as [v|] eqn:S; cbn [fmt_res]; [|apply beqb_refl].
    destruct (parsed_inv _ _ S) as [P I]. rewrite beqb_refl, (li_to_string_canonical _ I). cbn [andb].
    assert (C : li_canonicalize a = Ok (li_to_string v)) by (unfold li_canonicalize; rewrite P; reflexivity).
    pose proof (li_canonicalize_length _ _ C). apply Nat.leb_le. assumption. }
  destruct (beqb op (bs "li_roundtrip")) eqn:E3.
  { assert (N : beqb op (bs "li_iter") = false).
    { destruct (beqb op (bs "li_iter")) eqn:X; [|reflexivity]. apply beqb_eq in E3. apply beqb_eq in X. rewrite E3 in X. vm_compute in X. discriminate. }
    rewrite N. apply some_inj in H; subst r. cbn [passes]. unfold model_li_roundtrip. rewrite langid_from_bytes_spec.
    destruct (spec_langid (split a)) as [v|] eqn:S; [|apply beqb_refl].
    destruct (parsed_inv _ _ S) as [P I]. rewrite (langid_roundtrip _ I), li_eqb_refl. reflexivity. }
  destruct (beqb op (bs "li_iter")) eqn:E4.
  { apply some_inj in H; subst r. cbn [passes]. rewrite langid_from_iter_spec.
    destruct (spec_langid_prefix (split a)) as [[v rem]|]; [|apply beqb_refl].
    destruct (negb (flag (arg_n 1 args)) && negb (match rem with [] => true | _ => false end)); apply beqb_refl. }
  destruct (beqb op (bs "li_from_parts")) eqn:E5.
  { assert (N : beqb op (bs "li_into_parts") = false).
    { destruct (beqb op (bs "li_into_parts")) eqn:X; [|reflexivity]. apply beqb_eq in E5. apply beqb_eq in X. rewrite E5 in X. vm_compute in X. discriminate. }
    rewrite N. apply some_inj in H; subst r. cbn [passes].
    destruct (parts_of_args args) as [[[[l s0] rg] vs]|] eqn:PA; [|reflexivity].
    destruct (parts_of_args_canon _ _ _ _ _ PA) as (C1 & C2 & C3 & C4).
    pose proof (from_parts_is_parse l s0 rg vs C1 C2 C3 C4) as FP. cbn beta iota zeta. rewrite FP, li_eqb_refl.
    rewrite langid_from_bytes_spec in FP.
    pose proof (parts_tokens_WF l s0 rg vs C1 C2 C3 C4) as W. apply spec_langid_iff in W. rewrite W. apply beqb_refl. }
  destruct (beqb op (bs "li_into_parts")) eqn:E6.
  { apply some_inj in H; subst r. cbn [passes]. destruct (spec_langid (split a)) as [v|] eqn:S; [|reflexivity].
    destruct (parsed_inv _ _ S) as [P I]. rewrite P. pose proof (from_parts_into_parts v I) as F.
    destruct (li_into_parts v) as [[[l s0] rg] vs]. rewrite F, li_eqb_refl. reflexivity. }
  destruct (beqb op (bs "li_matches")) eqn:E7.
  { apply some_inj in H; subst r. cbn [passes].
    destruct (spec_langid (split (arg_n 0 args))) as [x|] eqn:S0; [|reflexivity].
    destruct (spec_langid (split (arg_n 1 args))) as [y|] eqn:S1; [|reflexivity].
    rewrite (proj1 (parsed_inv _ _ S0)), (proj1 (parsed_inv _ _ S1)), spec_li_matches_is. apply beqb_refl. }
  destruct (beqb op (bs "lang_matches")) eqn:E8.
  { assert (N1 : beqb op (bs "li_cmp") = false).
    { destruct (beqb op (bs "li_cmp")) eqn:X; [|reflexivity]. apply beqb_eq in E8. apply beqb_eq in X. rewrite E8 in X. vm_compute in X. discriminate. }
    assert (N2 : beqb op (bs "li_eq_str") = false).
    { destruct (beqb op (bs "li_eq_str")) eqn:X; [|reflexivity]. apply beqb_eq in E8. apply beqb_eq in X. rewrite E8 in X. vm_compute in X. discriminate. }
    assert (N3 : beqb op (bs "li_routes") = false).
    { destruct (beqb op (bs "li_routes")) eqn:X; [|reflexivity]. apply beqb_eq in E8. apply beqb_eq in X. rewrite E8 in X. vm_compute in X. discriminate. }
    rewrite N1, N2, N3. exact I. }
  destruct (beqb op (bs "li_cmp")) eqn:E9.
  { apply some_inj in H; subst r. cbn [passes].
    destruct (spec_langid (split (arg_n 0 args))) as [x|] eqn:S0; [|reflexivity].
    destruct (spec_langid (split (arg_n 1 args))) as [y|] eqn:S1; [|reflexivity].
    destruct (parsed_inv _ _ S0) as [P0 I0]. destruct (parsed_inv _ _ S1) as [P1 I1]. rewrite P0, P1. cbv zeta.
    assert (EQ : li_eqb x y = beqb (li_to_string x) (li_to_string y)).
    { destruct (li_eqb x y) eqn:A; destruct (beqb (li_to_string x) (li_to_string y)) eqn:B; try reflexivity.
      - apply (li_eq_iff_string x y I0 I1) in A. apply beqb_false in B. congruence.
      - apply beqb_eq in B. apply (li_eq_iff_string x y I0 I1) in B. congruence. }
    rewrite EQ, beqb_refl. cbn [andb]. rewrite <- EQ.
    destruct (li_eqb x y) eqn:A.
    - apply li_eqb_iff in A. subst y. rewrite (proj2 (li_cmp_eq x x) eq_refl). reflexivity.
    - destruct (li_cmp x y) eqn:C; try reflexivity. apply li_cmp_eq in C. subst y. rewrite li_eqb_refl in A. discriminate. }
  destruct (beqb op (bs "li_eq_str")) eqn:E10.
  { apply some_inj in H; subst r. cbn [passes]. destruct (spec_langid (split (arg_n 0 args))) as [x|] eqn:S0; [|reflexivity].
    rewrite (proj1 (parsed_inv _ _ S0)). apply beqb_refl. }
  destruct (beqb op (bs "li_routes")) eqn:E11; [|discriminate].
  apply some_inj in H; subst r. cbn [passes]. rewrite langid_from_bytes_spec.
  destruct (spec_langid (split a)) as [v|] eqn:S; [|apply beqb_refl].
  destruct (parsed_inv _ _ S) as [P I]. pose proof (from_parts_into_parts v I) as F.
  destruct (li_into_parts v) as [[[l s0] rg] vs] eqn:IP. cbv zeta.
  change (li_set_variants (mkLangId l s0 rg None) vs) with (li_from_parts l s0 rg vs).
  change (li_set_variants (mkLangId l s0 rg None) (rev vs ++ firstn 1 (rev vs))) with (li_from_parts l s0 rg (rev vs ++ firstn 1 (rev vs))).
  assert (SET : forall y, In y vs <-> In y (rev vs ++ firstn 1 (rev vs))).
  { intros y. rewrite in_app_iff, <- in_rev. split; [auto|]. intros [Hy|Hy]; [exact Hy|]. apply in_rev. destruct (rev vs) as [|h tl]; [destruct Hy|]. cbn [firstn] in Hy. destruct Hy as [<-|[]]. left; reflexivity. }
  rewrite <- (from_parts_any_order l s0 rg vs _ SET), F, li_eqb_refl. reflexivity.
Qed.


(* ---------------------------------------------------------------- locales (C03, C05, C10, C11, C12, C13, C17) *)
Lemma op_ne op s1 s2 : beqb op (bs s1) = true -> bs s1 <> bs s2 -> beqb op (bs s2) = false.
Proof. intros E N. apply beqb_eq in E. subst op. apply beqb_false. exact N. Qed.
Ltac ne := let H := fresh in intro H; vm_compute in H; discriminate H.
Ltac only_op E :=
  repeat match goal with
         | |- context [beqb ?op (bs ?s)] => first [rewrite E | rewrite (op_ne op _ s E ltac:(ne))]
         end; lazy iota.

Lemma ok_not_panic x : beqb (bs "OK " ++ x) (bs "PANIC") = false.
Proof. reflexivity. Qed.
Lemma loc_eqb_refl l : loc_eqb l l = true.
Proof. apply loc_eqb_iff. reflexivity. Qed.
Lemma model_reparse_same l : loc_inv l = true -> model_reparse l = bs "same".
Proof. intros H. unfold model_reparse. rewrite (locale_roundtrip l H), loc_eqb_refl. reflexivity. Qed.

Lemma accepted a v : spec_locale_zone (split a) = MustAccept v -> locale_from_bytes a = Ok v /\ loc_inv v = true.
Proof. intros Z. pose proof (locale_complete a v Z) as P. split; [exact P|exact (locale_parse_inv _ _ P)]. Qed.

(* histories: the reference transcript of the abstract set / multiset / map machine IS the model's transcript *)
Lemma hist_same l0 ops : loc_inv l0 = true ->
  match run the_tables l0 ops with
  | Some steps => join_with sep_hist (map (fun p => fmt_step (fst p) (snd p)) steps)
  | None => bs "UNSPEC"
  end
  = join_with sep_hist
      (map (fun p => let l := normalize (fst p) in fmt_out (snd p) ++ sp ++ fmt_locale l ++ sp ++ bs "same")
           (arun the_tables (abstract l0) ops)).
Proof.
  intros H. destruct (normalize_abstract l0 H) as [E Hok].
  pose proof (refine_run the_tables ops (abstract l0) Hok) as R. rewrite E in R. rewrite R.
  pose proof (run_inv the_tables data_full_extend data_wf_ints ops l0 _ H R) as Inv.
  f_equal. rewrite map_map. rewrite forallb_forall in Inv.
  apply map_ext_in. intros p Hp. cbn [fst snd]. unfold fmt_step.
  assert (I : loc_inv (normalize (fst p)) = true).
  { apply (Inv (normalize (fst p), snd p)). apply in_map_iff. exists p. split; [reflexivity|exact Hp]. }
  rewrite (model_reparse_same _ I). reflexivity.
Qed.

Lemma canon_text_printed l : loc_inv l = true -> canon_locale_text (loc_to_string l) = true.
Proof.
  intros H. pose proof H as H0. unfold loc_inv in H0. apply andb_true_iff in H0 as [Hi He].
  assert (AL : forallb (forallb is_alnum) (loc_tokens l) = true).
  { unfold loc_tokens. rewrite List.forallb_app. apply andb_true_iff; split; [exact (li_tokens_alnum _ Hi)|exact (ext_tokens_alnum _ He)]. }
  assert (NE : loc_tokens l <> []) by (unfold loc_tokens, li_tokens; discriminate).
  unfold canon_locale_text. rewrite (loc_to_string_canonical l H). unfold loc_to_string at 1. rewrite (join_alphabet _ AL). cbn [andb].
  unfold loc_to_string at 1. rewrite (split_join _ NE (alnum_all_nosep _ AL)).
  destruct (printed_zone l H) as [[|] ->]; apply beqb_refl.
Qed.

Theorem locale_group_sound op args r : oracle_model_locale op args = Some r ->
  beqb op (bs "loc_meta") = false -> beqb op (bs "li_meta") = false -> beqb op (bs "ext_meta") = false ->
  passes (oracle_spec_locale op args r).
Proof.
  unfold oracle_model_locale, oracle_spec_locale. intros H X2 X3 X4. set (a := arg1 args) in *.
  destruct (beqb op (bs "locale")) eqn:E1.
  { apply some_inj in H; subst r. only_op E1. unfold passes, spec_locale_ok.
    destruct (locale_from_bytes_total a) as [[l P]|[e P]]; rewrite P; cbn [fmt_res_e].
    - pose proof (locale_sound a l P) as S. destruct (spec_locale_zone (split a)); try subst v.
      + apply beqb_refl.
      + rewrite beqb_refl. apply orb_true_r.
      + destruct S.
      + rewrite ok_not_panic. reflexivity.
    - destruct (spec_locale_zone (split a)) eqn:Z; try reflexivity.
      rewrite (locale_complete a v Z) in P. discriminate. }
  destruct (beqb op (bs "loc_canonicalize")) eqn:E2.
  { apply some_inj in H; subst r. only_op E2. unfold passes, loc_canonicalize.
    assert (LEN : forall l, locale_from_bytes a = Ok l -> (List.length (loc_to_string l) <=? List.length a)%nat = true).
    { intros l P. apply Nat.leb_le. apply (loc_canonicalize_length a). unfold loc_canonicalize. rewrite P. reflexivity. }
    destruct (locale_from_bytes_total a) as [[l P]|[e P]]; rewrite P; cbn [bind fmt_res_e].
    - pose proof (locale_sound a l P) as S. pose proof (locale_parse_inv _ _ P) as I.
      destruct (spec_locale_zone (split a)); try subst v.
      + rewrite beqb_refl, (canon_text_printed l I), (LEN l P). reflexivity.
      + rewrite beqb_refl, (canon_text_printed l I), (LEN l P). apply orb_true_r.
      + destruct S.
      + change (bs "OK " ++ loc_to_string l) with (79 :: 75 :: 32 :: loc_to_string l). lazy beta iota.
        rewrite (canon_text_printed l I), (LEN l P). apply orb_true_r.
    - destruct (spec_locale_zone (split a)) eqn:Z; try reflexivity.
      rewrite (locale_complete a v Z) in P. discriminate. }
  destruct (beqb op (bs "loc_roundtrip")) eqn:E3.
  { apply some_inj in H; subst r. only_op E3. unfold passes.
    destruct (locale_from_bytes_total a) as [[l P]|[e P]]; rewrite P; [|reflexivity].
    rewrite (model_reparse_same _ (locale_parse_inv _ _ P)). reflexivity. }
  destruct (beqb op (bs "extmap")) eqn:E4. { only_op E4. exact I. }
  destruct (beqb op (bs "ext_type")) eqn:E5. { only_op E5. exact I. }
  destruct (beqb op (bs "loc_hist")) eqn:E6.
  { apply some_inj in H; subst r. only_op E6. unfold passes, model_hist, spec_hist.
    destruct args as [|st rest]; [reflexivity|]. destruct (start_of st) as [l0|] eqn:S; [|reflexivity].
    assert (I0 : loc_inv l0 = true).
    { unfold start_of in S. destruct st as [|c st']; [injection S as <-; reflexivity|].
      destruct (locale_from_bytes (c :: st')) as [l| | |] eqn:P; try discriminate. injection S as <-. exact (locale_parse_inv _ _ P). }
    rewrite (hist_same l0 _ I0), beqb_refl. reflexivity. }
  destruct (beqb op (bs "both")) eqn:E7.
  { apply some_inj in H; subst r. only_op E7. unfold passes. rewrite langid_from_bytes_spec.
    destruct (spec_langid (split a)) as [v|] eqn:S; [|reflexivity].
    destruct (parsed_inv _ _ S) as [P _]. rewrite (locale_embeds_langid a v P). cbn [loc_id loc_ext].
    rewrite li_eqb_refl. cbn [andb].
    assert (T : loc_to_string (mkLoc v extmap_default) = li_to_string v).
    { unfold loc_to_string, loc_tokens, li_to_string. cbn. rewrite app_nil_r. reflexivity. }
    rewrite T, beqb_refl. reflexivity. }
  destruct (beqb op (bs "loc_prefix")) eqn:E8.
  { apply some_inj in H; subst r. only_op E8. unfold passes.
    destruct (spec_locale_zone (split a)) eqn:Z; try reflexivity.
    destruct (locale_id_before_single a v Z) as [P Q]. rewrite P, Q, li_eqb_refl, beqb_refl. reflexivity. }
  destruct (beqb op (bs "loc_conv")) eqn:E9. { only_op E9. exact I. }
  destruct (beqb op (bs "loc_into_parts")) eqn:E10.
  { apply some_inj in H; subst r. only_op E10. unfold passes.
    destruct (locale_from_bytes_total a) as [[l P]|[e P]]; rewrite P; [|reflexivity].
    pose proof (locale_parse_inv _ _ P) as I. pose proof I as I'. unfold loc_inv in I'. apply andb_true_iff in I' as [Hi He].
    pose proof (from_parts_into_parts (loc_id l) Hi) as F.
    destruct (li_into_parts (loc_id l)) as [[[lg sc] rg] vs]. rewrite (extmap_roundtrip _ He).
    unfold loc_from_parts. rewrite F. destruct l as [i e]. cbn [loc_id loc_ext]. rewrite loc_eqb_refl. reflexivity. }
  destruct (beqb op (bs "loc_built")) eqn:E11.
  { apply some_inj in H; subst r. only_op E11. unfold passes. rewrite langid_from_bytes_spec.
    assert (SJ : spec_langid (split (join (before_single (split a)))) = spec_langid (before_single (split a))).
    { destruct (before_single (split a)) as [|t0 ts] eqn:B; [reflexivity|].
      rewrite split_join; [reflexivity|discriminate|].
      assert (SUB : forall toks, forallb nosep toks = true -> forallb nosep (before_single toks) = true).
      { induction toks as [|t toks IH]; [reflexivity|]. cbn [forallb before_single]. intros Hn. apply andb_true_iff in Hn as [A B'].
        destruct (is_single t); [reflexivity|]. cbn [forallb]. rewrite A, (IH B'). reflexivity. }
      rewrite <- B. apply SUB. apply split_nosep_all. }
    rewrite SJ. destruct (spec_langid (before_single (split a))); apply beqb_refl. }
  destruct (beqb op (bs "big")) eqn:E12.
  { apply some_inj in H; subst r. only_op E12. reflexivity. }
  destruct (beqb op (bs "facade")) eqn:E13. { only_op E13. exact I. }
  rewrite X2, X4, X3 in H.
  destruct (beqb op (bs "loc_matches")) eqn:E14.
  { apply some_inj in H; subst r. only_op E14. unfold passes.
    destruct (spec_locale_zone (split (arg_n 0 args))) eqn:Z0; try reflexivity.
    destruct (spec_locale_zone (split (arg_n 1 args))) eqn:Z1; try reflexivity.
    rewrite (proj1 (accepted _ _ Z0)), (proj1 (accepted _ _ Z1)), spec_li_matches_is. cbv zeta.
    unfold loc_matches. destruct (e_private (loc_ext v)), (e_private (loc_ext v0)); cbn [nil_b negb orb]; apply beqb_refl. }
  destruct (beqb op (bs "loc_cmp")) eqn:E15; [|discriminate].
  apply some_inj in H; subst r. only_op E15. unfold passes.
  assert (CORE : forall x y, loc_inv x = true -> loc_inv y = true ->
            loc_eqb x y = beqb (loc_to_string x) (loc_to_string y)
            /\ Bool.eqb (loc_eqb x y) (match loc_cmp x y with Eq => true | _ => false end) = true).
  { intros x y I0 I1.
    assert (EQ : loc_eqb x y = beqb (loc_to_string x) (loc_to_string y)).
    { destruct (loc_eqb x y) eqn:A; destruct (beqb (loc_to_string x) (loc_to_string y)) eqn:B; try reflexivity.
      - apply (loc_eq_iff_string x y I0 I1) in A. apply beqb_false in B. congruence.
      - apply beqb_eq in B. apply (loc_eq_iff_string x y I0 I1) in B. congruence. }
    split; [exact EQ|]. destruct (loc_eqb x y) eqn:A.
    - apply loc_eqb_iff in A. subst y. rewrite (proj2 (loc_cmp_eq x x) eq_refl). reflexivity.
    - destruct (loc_cmp x y) eqn:C; try reflexivity. apply loc_cmp_eq in C. subst y. rewrite loc_eqb_refl in A. discriminate. }
  assert (LENIENT : cmp_consistent (match locale_from_bytes (arg_n 0 args), locale_from_bytes (arg_n 1 args) with
                     | Ok x, Ok y => fmt_cmp (loc_cmp x y) ++ sp ++ fmt_bool (loc_eqb x y) ++ sp ++ fmt_bool (beqb (loc_to_string x) (loc_to_string y))
                     | _, _ => bs "BADARG" end) = true).
  { destruct (locale_from_bytes (arg_n 0 args)) as [x| | |] eqn:P0; try reflexivity.
    destruct (locale_from_bytes (arg_n 1 args)) as [y| | |] eqn:P1; try reflexivity.
    destruct (CORE x y (locale_parse_inv _ _ P0) (locale_parse_inv _ _ P1)) as [EQ CE]. rewrite <- EQ.
    destruct (loc_cmp x y), (loc_eqb x y); try discriminate CE; reflexivity. }
  destruct (spec_locale_zone (split (arg_n 0 args))) as [x| | |] eqn:Z0; try exact LENIENT.
  destruct (spec_locale_zone (split (arg_n 1 args))) as [y| | |] eqn:Z1; try exact LENIENT.
  destruct (accepted _ _ Z0) as [P0 I0]. destruct (accepted _ _ Z1) as [P1 I1]. rewrite P0, P1. cbv zeta.
  destruct (CORE x y I0 I1) as [EQ CE]. rewrite EQ, beqb_refl. cbn [andb]. rewrite <- EQ. exact CE.
Qed.
