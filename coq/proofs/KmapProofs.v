(* KmapProofs.v — the key-sorted association list (model of BTreeMap) *)
From UL Require Import Bytes Subtags LangId Ext LocaleInv BytesProofs SortProofs.
From Coq Require Import Lia.
Open Scope N_scope.

Lemma bcmp_Lt_bltb a b : bcmp a b = Lt <-> bltb a b = true.
Proof. unfold bltb. destruct (bcmp a b); split; congruence. Qed.
Lemma bcmp_Gt_bltb a b : bcmp a b = Gt <-> bltb b a = true.
Proof. unfold bltb. rewrite (bcmp_antisym a b). destruct (bcmp a b); cbn; split; congruence. Qed.

Lemma ksorted_tail kv m : ksorted (kv :: m) = true -> ksorted m = true.
Proof. destruct kv as [k v]. destruct m as [|[k' v'] r]; cbn [ksorted]; [reflexivity|]. intros H. apply andb_true_iff in H as [_ H]. exact H. Qed.

Definition key_lt_all (k : bytes) (m : kmap) : Prop := forall k' v', In (k', v') m -> bltb k k' = true.
Lemma ksorted_head k v m : ksorted ((k, v) :: m) = true -> key_lt_all k m.
Proof.
  revert k v; induction m as [|[k1 v1] r IH]; intros k v H k' v' Hin; [destruct Hin|].
  cbn [ksorted] in H. apply andb_true_iff in H as [H1 H2].
  destruct Hin as [E|Hin]; [injection E as <- <-; exact H1|].
  eapply bltb_trans; [exact H1|]. exact (IH k1 v1 H2 k' v' Hin).
Qed.
Lemma ksorted_cons k v m : key_lt_all k m -> ksorted m = true -> ksorted ((k, v) :: m) = true.
Proof.
  intros H Hs. destruct m as [|[k1 v1] r]; [reflexivity|]. cbn [ksorted]. apply andb_true_iff. split; [|exact Hs].
  apply (H k1 v1). left; reflexivity.
Qed.

Lemma kinsert_In k v m k' v' : In (k', v') (kinsert k v m) -> (k' = k /\ v' = v) \/ In (k', v') m.
Proof.
  induction m as [|[k1 v1] r IH]; cbn [kinsert].
  - intros [E|[]]. injection E as <- <-. auto.
  - destruct (bcmp k k1) eqn:E; cbn [In].
    + intros [H|H]; [injection H as <- <-; auto|auto].
    + intros [H|H]; [injection H as <- <-; auto|auto].
    + intros [H|H]; [auto|]. destruct (IH H); auto.
Qed.

Lemma ksorted_kinsert k v m : ksorted m = true -> ksorted (kinsert k v m) = true.
Proof.
  induction m as [|[k1 v1] r IH]; intros H; cbn [kinsert]; [reflexivity|].
  destruct (bcmp k k1) eqn:E.
  - apply bcmp_eq in E. subst k1. apply ksorted_cons; [exact (ksorted_head _ _ _ H)|exact (ksorted_tail _ _ H)].
  - apply ksorted_cons; [|exact H]. intros k' v' [Hin|Hin].
    + injection Hin as <- <-. apply bcmp_Lt_bltb; exact E.
    + eapply bltb_trans; [apply bcmp_Lt_bltb; exact E|]. eapply ksorted_head; eassumption.
  - apply ksorted_cons; [|apply IH; exact (ksorted_tail _ _ H)].
    intros k' v' Hin. apply kinsert_In in Hin as [[-> ->]|Hin]; [apply bcmp_Gt_bltb; exact E|].
    eapply ksorted_head; eassumption.
Qed.

Lemma forallb_kinsert (P : bytes * list bytes -> bool) k v m :
  P (k, v) = true -> forallb P m = true -> forallb P (kinsert k v m) = true.
Proof.
  intros Hk. induction m as [|[k1 v1] r IH]; cbn [kinsert forallb]; [rewrite Hk; reflexivity|].
  intros H. apply andb_true_iff in H as [H1 H2].
  destruct (bcmp k k1); cbn [forallb]; rewrite ?Hk, ?H1, ?H2, ?(IH H2); reflexivity.
Qed.

Lemma kremove_In k m k' v' : In (k', v') (fst (kremove k m)) -> In (k', v') m.
Proof.
  induction m as [|[k1 v1] r IH]; cbn [kremove fst]; [tauto|].
  destruct (beqb k k1); cbn [fst]; [right; assumption|].
  destruct (kremove k r) as [r' b]. cbn [fst In] in *. intros [H|H]; auto.
Qed.
Lemma ksorted_kremove k m : ksorted m = true -> ksorted (fst (kremove k m)) = true.
Proof.
  induction m as [|[k1 v1] r IH]; intros H; cbn [kremove fst]; [reflexivity|].
  destruct (beqb k k1); cbn [fst]; [exact (ksorted_tail _ _ H)|].
  pose proof (kremove_In k r) as HI. destruct (kremove k r) as [r' b]. cbn [fst] in *.
  apply ksorted_cons; [|apply IH; exact (ksorted_tail _ _ H)].
  intros k' v' Hin. eapply ksorted_head; [exact H|]. apply HI; exact Hin.
Qed.
Lemma forallb_kremove (P : bytes * list bytes -> bool) k m :
  forallb P m = true -> forallb P (fst (kremove k m)) = true.
Proof.
  induction m as [|[k1 v1] r IH]; cbn [kremove fst forallb]; [reflexivity|].
  intros H. apply andb_true_iff in H as [H1 H2].
  destruct (beqb k k1); cbn [fst]; [exact H2|].
  specialize (IH H2). destruct (kremove k r) as [r' b]. cbn [fst forallb] in *. rewrite H1, IH. reflexivity.
Qed.

(* inserting a key larger than every key appends *)
Lemma kinsert_end k v m : (forall k' v', In (k', v') m -> bltb k' k = true) -> kinsert k v m = m ++ [(k, v)].
Proof.
  induction m as [|[k1 v1] r IH]; intros H; cbn [kinsert app]; [reflexivity|].
  assert (bcmp k k1 = Gt) as -> by (apply bcmp_Gt_bltb; apply (H k1 v1); left; reflexivity).
  f_equal. apply IH. intros k' v' Hin. apply (H k' v'). right; exact Hin.
Qed.

(* kfind on a sorted map finds exactly the pair with that key *)
Lemma kfind_In k m v : kfind k m = Some v -> In (k, v) m.
Proof.
  induction m as [|[k1 v1] r IH]; cbn [kfind]; [discriminate|].
  destruct (beqb k k1) eqn:E; [apply beqb_eq in E; subst; intros H; injection H as <-; left; reflexivity|].
  intros H. right. auto.
Qed.
