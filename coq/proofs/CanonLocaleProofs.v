(* CanonLocaleProofs.v — C04 at Locale level, explicit form: the printed text of every Locale satisfying the
   safe-API invariant is accepted by the strict recogniser of canonical Locale text (spec/CanonLocale.v). *)
From UL Require Import Bytes Subtags LangId Ext Grammar LangIdSpec LocaleInv Canonical CanonLocale
                       BytesProofs SubtagProofs SortProofs SplitProofs LangIdProofs CanonProofs ExtProofs KmapProofs InvProofs RoundTrip LocaleSpecProofs OrderProofs.
From Coq Require Import Lia ZifyBool ZifyN.
Open Scope N_scope.
Arguments N.add : simpl never.
Arguments N.sub : simpl never.
Arguments N.leb : simpl never.
Arguments N.eqb : simpl never.

Definition nosingle (toks : list bytes) : bool := forallb (fun t => negb (is_single1 t)) toks.
Definition stop1 (R : list bytes) : Prop := match R with [] => True | t :: _ => is_single1 t = true end.

Lemma break_single_app A R : nosingle A = true -> stop1 R -> break_single (A ++ R) = (A, R).
Proof.
  induction A as [|a A IH]; intros HA HR; cbn [app].
  - destruct R as [|t R']; [reflexivity|]. cbn in HR. cbn [break_single]. rewrite HR. reflexivity.
  - cbn [nosingle forallb] in HA. apply andb_true_iff in HA as [Ha HA]. apply negb_true_iff in Ha.
    cbn [break_single]. rewrite Ha, (IH HA HR). reflexivity.
Qed.
Lemma nosingle_app a b : nosingle (a ++ b) = nosingle a && nosingle b.
Proof. unfold nosingle. apply forallb_app. Qed.

(* ---------- token classes ---------- *)
Definition li_class (t : bytes) : Prop := lang_tok t = true \/ script_tok t = true \/ region_tok t = true \/ variant_tok t = true.
Lemma li_tokens_class x : li_inv x = true -> forall t, In t (li_tokens x) -> li_class t.
Proof.
  intros Hinv t Hin. destruct x as [l sc rg vs]. unfold li_inv in Hinv. cbn [li_lang li_script li_region li_variants] in Hinv.
  apply andb_true_iff in Hinv as [H0 Hv]. apply andb_true_iff in H0 as [H0 Hr]. apply andb_true_iff in H0 as [Hl Hs].
  unfold li_tokens in Hin. cbn [li_lang li_script li_region li_variants] in Hin.
  destruct Hin as [<-|Hin]; [left; exact (proj1 (lang_text_tok _ Hl))|].
  apply in_app_or in Hin as [Hin|Hin].
  { destruct sc as [s|]; [|destruct Hin]. destruct Hin as [<-|[]]. cbn [opt_all] in Hs. unfold canon_script in Hs.
    apply andb_true_iff in Hs as [Hs _]. right; left; exact Hs. }
  apply in_app_or in Hin as [Hin|Hin].
  { destruct rg as [r|]; [|destruct Hin]. destruct Hin as [<-|[]]. cbn [opt_all] in Hr. unfold canon_region in Hr.
    apply andb_true_iff in Hr as [Hr _]. right; right; left; exact Hr. }
  unfold li_variants_list in Hin. cbn [li_variants] in Hin. destruct vs as [v|]; [|destruct Hin]. cbn [variants_inv] in Hv.
  apply andb_true_iff in Hv as [Hv _]. apply andb_true_iff in Hv as [_ Hc].
  pose proof (proj1 (forallb_forall _ _) Hc _ Hin) as Hcv. unfold canon_variant in Hcv. apply andb_true_iff in Hcv as [Hcv _].
  right; right; right; exact Hcv.
Qed.
Lemma li_class_len t : li_class t -> (2 <= length t)%nat.
Proof.
  unfold li_class, lang_tok, script_tok, region_tok, variant_tok, len_in. intros [H|[H|[H|H]]].
  - apply andb_true_iff in H as [_ H]. lia.
  - apply andb_true_iff in H as [_ H]. lia.
  - apply orb_true_iff in H as [H|H]; apply andb_true_iff in H as [_ H]; lia.
  - apply orb_true_iff in H as [H|H]; [apply andb_true_iff in H as [_ H]; lia|].
    destruct t as [|c r]; [discriminate|]. apply andb_true_iff in H as [_ H]. cbn [length]. lia.
Qed.
Lemma li_class_not_tkey t : li_class t -> tkey_tok t = false.
Proof.
  intros H. destruct (tkey_tok t) eqn:E; [|reflexivity]. exfalso.
  pose proof (tkey_li_stop' t [] E) as S. cbn in S. destruct S as (S1 & S2 & S3).
  destruct (LocaleSpecProofs.tkey_not_langshape t E) as [_ S0].
  destruct H as [H|[H|[H|H]]]; congruence.
Qed.

Lemma li_tokens_nosingle x : li_inv x = true -> nosingle (li_tokens x) = true.
Proof.
  intros H. unfold nosingle. apply forallb_forall. intros t Hin. pose proof (li_class_len t (li_tokens_class x H t Hin)).
  unfold is_single1. apply negb_true_iff. lia.
Qed.
Lemma li_tokens_not_tkey x : li_inv x = true -> forallb (fun t => negb (tkey_tok t)) (li_tokens x) = true.
Proof.
  intros H. apply forallb_forall. intros t Hin. rewrite (li_class_not_tkey t (li_tokens_class x H t Hin)). reflexivity.
Qed.

(* ---------- key / value groups ---------- *)
Lemma canon_groups_values ck cv k vs rest : (forall v, cv v = true -> ck v = false) -> forallb cv vs = true ->
  canon_groups ck cv (Some k) (vs ++ rest) = canon_groups ck cv (Some k) rest.
Proof.
  intros Hd. induction vs as [|v vs IH]; intros H; [reflexivity|]. cbn [forallb] in H. apply andb_true_iff in H as [Hv H].
  cbn [app canon_groups]. rewrite (Hd v Hv), Hv. cbn [andb]. exact (IH H).
Qed.
Lemma canon_groups_kmap ck cv m : (forall v, cv v = true -> ck v = false) -> forall prev,
  (match prev with Some p => key_lt_all p m | None => True end) -> ksorted m = true ->
  forallb (fun kv => ck (fst kv) && forallb cv (snd kv)) m = true -> canon_groups ck cv prev (kmap_tokens m) = true.
Proof.
  intros Hd. induction m as [|[k vs] m IH]; intros prev Hp Hs Hf; [reflexivity|].
  change (kmap_tokens ((k, vs) :: m)) with (k :: vs ++ kmap_tokens m).
  cbn [forallb fst snd] in Hf. apply andb_true_iff in Hf as [Hkv Hf]. apply andb_true_iff in Hkv as [Hk Hv].
  cbn [canon_groups]. rewrite Hk.
  assert (Hprev : match prev with Some k0 => bltb k0 k | None => true end = true).
  { destruct prev as [p|]; [|reflexivity]. apply (Hp k vs). left. reflexivity. }
  rewrite Hprev. cbn [andb]. rewrite (canon_groups_values ck cv k vs _ Hd Hv).
  apply IH; [exact (ksorted_head _ _ _ Hs)|exact (ksorted_tail _ _ Hs)|exact Hf].
Qed.

Lemma utype_not_ukey v : canon_utype v = true -> canon_ukey v = false.
Proof.
  unfold canon_utype, canon_ukey. intros H. apply andb_true_iff in H as [H _]. apply andb_true_iff in H as [H _].
  pose proof (utype_len v H). destruct (ukey_tok v) eqn:E; [|reflexivity]. pose proof (ukey_len v E). congruence.
Qed.
Lemma tvalue_not_tkey v : canon_tvalue v = true -> canon_tkey v = false.
Proof.
  unfold canon_tvalue, canon_tkey. intros H. apply andb_true_iff in H as [H _]. apply andb_true_iff in H as [H _].
  destruct (tvalue_not_key v H) as [K _]. rewrite tkey_shape_tok in K. rewrite K. reflexivity.
Qed.

(* ---------- no one-character tokens inside the bodies ---------- *)
Lemma kmap_tokens_nosingle ck cv m :
  (forall k, ck k = true -> is_single1 k = false) -> (forall v, cv v = true -> is_single1 v = false) ->
  forallb (fun kv => ck (fst kv) && forallb cv (snd kv)) m = true -> nosingle (kmap_tokens m) = true.
Proof.
  intros Hk Hv. induction m as [|[k vs] m IH]; [reflexivity|]. intros H.
  cbn [forallb fst snd] in H. apply andb_true_iff in H as [H Hm]. apply andb_true_iff in H as [H1 H2].
  change (kmap_tokens ((k, vs) :: m)) with ((k :: vs) ++ kmap_tokens m). rewrite nosingle_app, (IH Hm), andb_true_r.
  cbn [nosingle forallb]. rewrite (Hk _ H1). cbn [negb andb]. apply forallb_forall. intros v Hin.
  rewrite (Hv v (proj1 (forallb_forall _ _) H2 v Hin)). reflexivity.
Qed.
Lemma len_not_single (t : bytes) : (2 <= length t)%nat -> is_single1 t = false.
Proof. unfold is_single1. intros H. lia. Qed.
Lemma ukey_ns k : canon_ukey k = true -> is_single1 k = false.
Proof. unfold canon_ukey. intros H. apply andb_true_iff in H as [H _]. pose proof (ukey_len k H). apply len_not_single. lia. Qed.
Lemma tkey_ns k : canon_tkey k = true -> is_single1 k = false.
Proof. unfold canon_tkey. intros H. apply andb_true_iff in H as [H _]. unfold is_single1. exact (tkey_len2 k H). Qed.
Lemma alnum38_ns v : forallb is_alnum v && len_in 3 8 v = true -> is_single1 v = false.
Proof. unfold len_in. intros H. apply andb_true_iff in H as [_ H]. apply len_not_single. lia. Qed.
Lemma utype_ns v : canon_utype v = true -> is_single1 v = false.
Proof. unfold canon_utype, utype_tok. intros H. apply andb_true_iff in H as [H _]. apply andb_true_iff in H as [H _]. exact (alnum38_ns v H). Qed.
Lemma tvalue_ns v : canon_tvalue v = true -> is_single1 v = false.
Proof. unfold canon_tvalue, tvalue_tok. intros H. apply andb_true_iff in H as [H _]. apply andb_true_iff in H as [H _]. exact (alnum38_ns v H). Qed.
Lemma attr_ns v : canon_attr v = true -> is_single1 v = false.
Proof. unfold canon_attr, attr_tok. intros H. apply andb_true_iff in H as [H _]. exact (alnum38_ns v H). Qed.
Lemma attr_not_len2 v : canon_attr v = true -> negb (is_len2 v) = true.
Proof. unfold canon_attr, attr_tok, len_in, is_len2. intros H. apply andb_true_iff in H as [H _]. apply andb_true_iff in H as [_ H]. apply negb_true_iff. lia. Qed.
Lemma ukey_len2 k : canon_ukey k = true -> negb (is_len2 k) = false.
Proof. unfold canon_ukey, is_len2. intros H. apply andb_true_iff in H as [H _]. rewrite (ukey_len k H). reflexivity. Qed.

(* ---------- the three bodies ---------- *)
Lemma u_body_canonical u : u_inv u = true -> u_is_empty u = false ->
  canon_u_body (u_attrs u ++ kmap_tokens (u_keywords u)) = true /\ nosingle (u_attrs u ++ kmap_tokens (u_keywords u)) = true.
Proof.
  intros Hinv Hne. unfold u_inv in Hinv. apply andb_true_iff in Hinv as [Hinv Hso]. apply andb_true_iff in Hinv as [Hk Ha].
  unfold kmap_inv in Hk. apply andb_true_iff in Hk as [Hks Hkf].
  split.
  - unfold canon_u_body.
    assert (Hstop : match kmap_tokens (u_keywords u) with [] => True | t :: _ => negb (is_len2 t) = false end).
    { destruct (u_keywords u) as [|[k vs] m]; [exact I|]. cbn [forallb fst snd] in Hkf. apply andb_true_iff in Hkf as [Hkv _].
      apply andb_true_iff in Hkv as [Hck _]. exact (ukey_len2 k Hck). }
    assert (Hall : forallb (fun t => negb (is_len2 t)) (u_attrs u) = true).
    { apply forallb_forall. intros a Hin. exact (attr_not_len2 a (proj1 (forallb_forall _ _) Ha a Hin)). }
    destruct (take_while_app_stop _ (u_attrs u) (kmap_tokens (u_keywords u)) Hall Hstop) as [-> ->].
    rewrite Ha, Hso, (canon_groups_kmap canon_ukey canon_utype (u_keywords u) utype_not_ukey None I Hks Hkf).
    unfold u_is_empty in Hne. destruct (u_attrs u) as [|a0 ar]; [|reflexivity].
    destruct (u_keywords u) as [|[k vs] m]; [discriminate|reflexivity].
  - rewrite nosingle_app. rewrite (kmap_tokens_nosingle canon_ukey canon_utype _ ukey_ns utype_ns Hkf), andb_true_r.
    apply forallb_forall. intros a Hin. rewrite (attr_ns a (proj1 (forallb_forall _ _) Ha a Hin)). reflexivity.
Qed.

Lemma t_body_canonical t : t_inv t = true -> t_is_empty t = false ->
  let body := (match t_lang t with Some l => li_tokens l | None => [] end) ++ kmap_tokens (t_fields t) in
  canon_t_body body = true /\ nosingle body = true.
Proof.
  intros Hinv Hne body. unfold t_inv in Hinv. apply andb_true_iff in Hinv as [Hl Hk].
  unfold kmap_inv in Hk. apply andb_true_iff in Hk as [Hks Hkf].
  set (tl := match t_lang t with Some l => li_tokens l | None => [] end) in *.
  assert (Hall : forallb (fun x => negb (tkey_tok x)) tl = true).
  { unfold tl. destruct (t_lang t) as [l|]; [exact (li_tokens_not_tkey l Hl)|reflexivity]. }
  assert (Hstop : match kmap_tokens (t_fields t) with [] => True | x :: _ => negb (tkey_tok x) = false end).
  { destruct (t_fields t) as [|[k vs] m]; [exact I|]. cbn [forallb fst snd] in Hkf. apply andb_true_iff in Hkf as [Hkv _].
    apply andb_true_iff in Hkv as [Hck _]. unfold canon_tkey in Hck. apply andb_true_iff in Hck as [Hck _].
    change (negb (tkey_tok k) = false). rewrite Hck. reflexivity. }
  split.
  - unfold canon_t_body, body. destruct (take_while_app_stop _ tl (kmap_tokens (t_fields t)) Hall Hstop) as [-> ->].
    rewrite (canon_groups_kmap canon_tkey canon_tvalue (t_fields t) tvalue_not_tkey None I Hks Hkf), andb_true_r.
    assert (Htl : match tl with [] => true | _ => canon_langid_toks tl end = true).
    { unfold tl. destruct (t_lang t) as [l|]; [|reflexivity]. pose proof (li_tokens_canonical l Hl) as C.
      destruct (li_tokens l); [reflexivity|exact C]. }
    rewrite Htl, andb_true_r. unfold t_is_empty in Hne. unfold tl.
    destruct (t_lang t) as [l|]; [unfold li_tokens; reflexivity|].
    destruct (t_fields t) as [|[k vs] m]; [discriminate|reflexivity].
  - unfold body. rewrite nosingle_app, (kmap_tokens_nosingle canon_tkey canon_tvalue _ tkey_ns tvalue_ns Hkf), andb_true_r.
    unfold tl. destruct (t_lang t) as [l|]; [exact (li_tokens_nosingle l Hl)|reflexivity].
Qed.

Lemma stop1_single c R : stop1 ([c] :: R). Proof. reflexivity. Qed.
Lemma take_seg_hit c body R : nosingle body = true -> stop1 R -> take_seg c ([c] :: body ++ R) = (Some body, R).
Proof. intros Hn HR. cbn [take_seg]. rewrite N.eqb_refl, (break_single_app body R Hn HR). reflexivity. Qed.
Lemma take_seg_miss c R : match R with [] => True | [b] :: _ => (b =? c) = false | _ => True end -> take_seg c R = (None, R).
Proof. destruct R as [|[|b [|b2 t]] R']; cbn [take_seg]; try reflexivity. intros ->. reflexivity. Qed.

Lemma x_tokens_stop1 x : stop1 (x_tokens x).
Proof. unfold x_tokens. destruct x; reflexivity. Qed.
Lemma u_tokens_stop1 u R : stop1 R -> stop1 (u_tokens u ++ R).
Proof. unfold u_tokens. destruct (u_is_empty u); cbn [app]; [auto|reflexivity]. Qed.

Theorem loc_tokens_canonical l : loc_inv l = true -> canon_locale_toks (loc_tokens l) = true.
Proof.
  intros Hinv. unfold loc_inv in Hinv. apply andb_true_iff in Hinv as [Hid He].
  unfold ext_inv in He. apply andb_true_iff in He as [He Hx]. apply andb_true_iff in He as [Hu Ht].
  unfold canon_locale_toks, loc_tokens, ext_tokens.
  set (X := x_tokens (e_private (loc_ext l))). set (U := u_tokens (e_unicode (loc_ext l))). set (T := t_tokens (e_transform (loc_ext l))).
  assert (SX : stop1 X) by apply x_tokens_stop1.
  assert (SUX : stop1 (U ++ X)) by (apply u_tokens_stop1; exact SX).
  assert (STUX : stop1 (T ++ U ++ X)).
  { unfold T, t_tokens. destruct (t_is_empty (e_transform (loc_ext l))); cbn [app]; [exact SUX|reflexivity]. }
  rewrite (break_single_app (li_tokens (loc_id l)) (T ++ U ++ X) (li_tokens_nosingle _ Hid) STUX).
  rewrite (li_tokens_canonical _ Hid). cbn [andb].
  (* -t- *)
  assert (PT : take_seg 116 (T ++ U ++ X) =
               (if t_is_empty (e_transform (loc_ext l)) then None
                else Some ((match t_lang (e_transform (loc_ext l)) with Some x => li_tokens x | None => [] end) ++ kmap_tokens (t_fields (e_transform (loc_ext l)))),
                U ++ X)).
  { unfold T, t_tokens. destruct (t_is_empty (e_transform (loc_ext l))) eqn:Et; cbn [app].
    - apply take_seg_miss. unfold U, u_tokens. destruct (u_is_empty (e_unicode (loc_ext l))); cbn [app]; [|reflexivity].
      unfold X, x_tokens. destruct (e_private (loc_ext l)); [exact I|reflexivity].
    - destruct (t_body_canonical _ Ht Et) as [_ Hn]. apply take_seg_hit; assumption. }
  rewrite PT.
  assert (CT : match (if t_is_empty (e_transform (loc_ext l)) then None
                      else Some ((match t_lang (e_transform (loc_ext l)) with Some x => li_tokens x | None => [] end) ++ kmap_tokens (t_fields (e_transform (loc_ext l)))))
               with Some b => canon_t_body b | None => true end = true).
  { destruct (t_is_empty (e_transform (loc_ext l))) eqn:Et; [reflexivity|]. exact (proj1 (t_body_canonical _ Ht Et)). }
  rewrite CT. cbn [andb].
  (* -u- *)
  assert (PU : take_seg 117 (U ++ X) =
               (if u_is_empty (e_unicode (loc_ext l)) then None
                else Some (u_attrs (e_unicode (loc_ext l)) ++ kmap_tokens (u_keywords (e_unicode (loc_ext l)))), X)).
  { unfold U, u_tokens. destruct (u_is_empty (e_unicode (loc_ext l))) eqn:Eu; cbn [app].
    - apply take_seg_miss. unfold X, x_tokens. destruct (e_private (loc_ext l)); [exact I|reflexivity].
    - destruct (u_body_canonical _ Hu Eu) as [_ Hn]. apply take_seg_hit; assumption. }
  rewrite PU.
  assert (CU : match (if u_is_empty (e_unicode (loc_ext l)) then None
                      else Some (u_attrs (e_unicode (loc_ext l)) ++ kmap_tokens (u_keywords (e_unicode (loc_ext l)))))
               with Some b => canon_u_body b | None => true end = true).
  { destruct (u_is_empty (e_unicode (loc_ext l))) eqn:Eu; [reflexivity|]. exact (proj1 (u_body_canonical _ Hu Eu)). }
  rewrite CU. cbn [andb].
  (* -x- *)
  unfold X, x_tokens. destruct (e_private (loc_ext l)) as [|p ps] eqn:Ex; [reflexivity|].
  rewrite N.eqb_refl. cbn [andb]. unfold canon_x_body. unfold x_inv in Hx. cbn [negb andb]. exact Hx.
Qed.

(* the printed string: alphabet + token structure *)
Theorem loc_to_string_canonical l : loc_inv l = true -> canon_locale_strict (loc_to_string l) = true.
Proof.
  intros Hinv. pose proof Hinv as H0. unfold loc_inv in H0. apply andb_true_iff in H0 as [Hid He].
  unfold canon_locale_strict, loc_to_string.
  assert (Hal : forallb (forallb is_alnum) (loc_tokens l) = true).
  { unfold loc_tokens. rewrite forallb_app. apply andb_true_iff. split; [exact (li_tokens_alnum _ Hid)|exact (ext_tokens_alnum _ He)]. }
  rewrite (join_alphabet _ Hal). cbn [andb].
  rewrite split_join; [apply loc_tokens_canonical; exact Hinv|unfold loc_tokens, li_tokens; cbn [app]; congruence|].
  apply alnum_all_nosep. exact Hal.
Qed.
