(* ApiSurfaceProofs.v — WHICH entry points the model and the correspondence speak about.  gen/ApiSurface.v is
   regenerated on every run from the non-test sources of the four library crates: every `pub fn`, every trait impl,
   every exported macro (trait and type names without their module paths: an import is not an API change).  `modelled_api` below is the list as it was when the model, the harness operations and
   Appendix A of DESIGN.md were written against it.  The obligation: the two lists are equal.  A new public function
   (a mutator the history machine does not know), a new trait impl (an entry point the harness does not call), a
   derived impl replaced by a hand-written one (the row appears), a removed or renamed function - each breaks THIS theorem;
   the checks that pin it then report the change (with an input if the other stages find one, otherwise as
   no-failing-input-found): the property is no longer shown for the API as it now is. *)
From Coq Require Import List String Bool.
From UL Require Import ApiSurface.
Import ListNotations.
Open Scope string_scope.

Definition modelled_api : list (string * string * string) := [
("unic-langid-impl/src/errors.rs", "impl", "Display for LanguageIdentifierError");
("unic-langid-impl/src/errors.rs", "impl", "Error for LanguageIdentifierError");
("unic-langid-impl/src/errors.rs", "impl", "From<ParserError> for LanguageIdentifierError");
("unic-langid-impl/src/lib.rs", "impl", "AsRef<LanguageIdentifier> for LanguageIdentifier");
("unic-langid-impl/src/lib.rs", "impl", "Display for LanguageIdentifier");
("unic-langid-impl/src/lib.rs", "impl", "FromStr for LanguageIdentifier");
("unic-langid-impl/src/lib.rs", "impl", "PartialEq<&str> for LanguageIdentifier");
("unic-langid-impl/src/lib.rs", "pub-fn", "canonicalize");
("unic-langid-impl/src/lib.rs", "pub-fn", "character_direction");
("unic-langid-impl/src/lib.rs", "pub-fn", "clear_variants");
("unic-langid-impl/src/lib.rs", "pub-fn", "from_bytes");
("unic-langid-impl/src/lib.rs", "pub-fn", "from_parts");
("unic-langid-impl/src/lib.rs", "pub-fn", "from_raw_parts_unchecked");
("unic-langid-impl/src/lib.rs", "pub-fn", "has_variant");
("unic-langid-impl/src/lib.rs", "pub-fn", "into_parts");
("unic-langid-impl/src/lib.rs", "pub-fn", "matches");
("unic-langid-impl/src/lib.rs", "pub-fn", "maximize");
("unic-langid-impl/src/lib.rs", "pub-fn", "minimize");
("unic-langid-impl/src/lib.rs", "pub-fn", "set_variants");
("unic-langid-impl/src/lib.rs", "pub-fn", "try_from_iter");
("unic-langid-impl/src/lib.rs", "pub-fn", "variants");
("unic-langid-impl/src/likelysubtags/mod.rs", "pub-fn", "maximize");
("unic-langid-impl/src/likelysubtags/mod.rs", "pub-fn", "minimize");
("unic-langid-impl/src/parser/errors.rs", "impl", "Display for ParserError");
("unic-langid-impl/src/parser/errors.rs", "impl", "Error for ParserError");
("unic-langid-impl/src/parser/mod.rs", "pub-fn", "parse_language_identifier");
("unic-langid-impl/src/parser/mod.rs", "pub-fn", "parse_language_identifier_from_iter");
("unic-langid-impl/src/serde.rs", "impl", "Deserialize<'de> for LanguageIdentifier");
("unic-langid-impl/src/serde.rs", "impl", "Serialize for LanguageIdentifier");
("unic-langid-impl/src/serde.rs", "impl", "Visitor<'de> for LanguageIdentifierVisitor");
("unic-langid-impl/src/subtags/language.rs", "impl", "Display for Language");
("unic-langid-impl/src/subtags/language.rs", "impl", "From<&Language> for Option<u64>");
("unic-langid-impl/src/subtags/language.rs", "impl", "From<Language> for Option<u64>");
("unic-langid-impl/src/subtags/language.rs", "impl", "FromStr for Language");
("unic-langid-impl/src/subtags/language.rs", "impl", "PartialEq<&str> for Language");
("unic-langid-impl/src/subtags/language.rs", "impl", "TryFrom<Option<T>> for Language");
("unic-langid-impl/src/subtags/language.rs", "pub-fn", "as_str");
("unic-langid-impl/src/subtags/language.rs", "pub-fn", "clear");
("unic-langid-impl/src/subtags/language.rs", "pub-fn", "from_bytes");
("unic-langid-impl/src/subtags/language.rs", "pub-fn", "from_raw_unchecked");
("unic-langid-impl/src/subtags/language.rs", "pub-fn", "is_empty");
("unic-langid-impl/src/subtags/language.rs", "pub-fn", "matches");
("unic-langid-impl/src/subtags/region.rs", "impl", "Display for Region");
("unic-langid-impl/src/subtags/region.rs", "impl", "From<&'l Region> for &'l str");
("unic-langid-impl/src/subtags/region.rs", "impl", "From<Region> for u32");
("unic-langid-impl/src/subtags/region.rs", "impl", "FromStr for Region");
("unic-langid-impl/src/subtags/region.rs", "impl", "PartialEq<&str> for Region");
("unic-langid-impl/src/subtags/region.rs", "pub-fn", "as_str");
("unic-langid-impl/src/subtags/region.rs", "pub-fn", "from_bytes");
("unic-langid-impl/src/subtags/region.rs", "pub-fn", "from_raw_unchecked");
("unic-langid-impl/src/subtags/script.rs", "impl", "Display for Script");
("unic-langid-impl/src/subtags/script.rs", "impl", "From<&'l Script> for &'l str");
("unic-langid-impl/src/subtags/script.rs", "impl", "From<Script> for u32");
("unic-langid-impl/src/subtags/script.rs", "impl", "FromStr for Script");
("unic-langid-impl/src/subtags/script.rs", "impl", "PartialEq<&str> for Script");
("unic-langid-impl/src/subtags/script.rs", "pub-fn", "as_str");
("unic-langid-impl/src/subtags/script.rs", "pub-fn", "from_bytes");
("unic-langid-impl/src/subtags/script.rs", "pub-fn", "from_raw_unchecked");
("unic-langid-impl/src/subtags/variant.rs", "impl", "Display for Variant");
("unic-langid-impl/src/subtags/variant.rs", "impl", "From<&Variant> for u64");
("unic-langid-impl/src/subtags/variant.rs", "impl", "From<Variant> for u64");
("unic-langid-impl/src/subtags/variant.rs", "impl", "FromStr for Variant");
("unic-langid-impl/src/subtags/variant.rs", "impl", "PartialEq<&str> for Variant");
("unic-langid-impl/src/subtags/variant.rs", "impl", "PartialEq<str> for Variant");
("unic-langid-impl/src/subtags/variant.rs", "pub-fn", "as_str");
("unic-langid-impl/src/subtags/variant.rs", "pub-fn", "from_bytes");
("unic-langid-impl/src/subtags/variant.rs", "pub-fn", "from_raw_unchecked");
("unic-langid/src/lib.rs", "macro", "langid_slice");
("unic-langid/src/lib.rs", "macro", "langids");
("unic-locale-impl/src/errors.rs", "impl", "Display for LocaleError");
("unic-locale-impl/src/errors.rs", "impl", "Error for LocaleError");
("unic-locale-impl/src/errors.rs", "impl", "From<LanguageIdentifierError> for LocaleError");
("unic-locale-impl/src/errors.rs", "impl", "From<ParserError> for LocaleError");
("unic-locale-impl/src/extensions/mod.rs", "impl", "Display for ExtensionType");
("unic-locale-impl/src/extensions/mod.rs", "impl", "Display for ExtensionsMap");
("unic-locale-impl/src/extensions/mod.rs", "impl", "FromStr for ExtensionsMap");
("unic-locale-impl/src/extensions/mod.rs", "pub-fn", "from_byte");
("unic-locale-impl/src/extensions/mod.rs", "pub-fn", "from_bytes");
("unic-locale-impl/src/extensions/mod.rs", "pub-fn", "is_empty");
("unic-locale-impl/src/extensions/private.rs", "impl", "Display for PrivateExtensionList");
("unic-locale-impl/src/extensions/private.rs", "pub-fn", "add_tag");
("unic-locale-impl/src/extensions/private.rs", "pub-fn", "clear_tags");
("unic-locale-impl/src/extensions/private.rs", "pub-fn", "has_tag");
("unic-locale-impl/src/extensions/private.rs", "pub-fn", "is_empty");
("unic-locale-impl/src/extensions/private.rs", "pub-fn", "remove_tag");
("unic-locale-impl/src/extensions/private.rs", "pub-fn", "tags");
("unic-locale-impl/src/extensions/transform.rs", "impl", "Display for TransformExtensionList");
("unic-locale-impl/src/extensions/transform.rs", "pub-fn", "clear_tfields");
("unic-locale-impl/src/extensions/transform.rs", "pub-fn", "clear_tlang");
("unic-locale-impl/src/extensions/transform.rs", "pub-fn", "is_empty");
("unic-locale-impl/src/extensions/transform.rs", "pub-fn", "remove_tfield");
("unic-locale-impl/src/extensions/transform.rs", "pub-fn", "set_tfield");
("unic-locale-impl/src/extensions/transform.rs", "pub-fn", "set_tlang");
("unic-locale-impl/src/extensions/transform.rs", "pub-fn", "tfield");
("unic-locale-impl/src/extensions/transform.rs", "pub-fn", "tfield_keys");
("unic-locale-impl/src/extensions/transform.rs", "pub-fn", "tlang");
("unic-locale-impl/src/extensions/unicode.rs", "impl", "Display for UnicodeExtensionList");
("unic-locale-impl/src/extensions/unicode.rs", "pub-fn", "attributes");
("unic-locale-impl/src/extensions/unicode.rs", "pub-fn", "clear_attributes");
("unic-locale-impl/src/extensions/unicode.rs", "pub-fn", "clear_keywords");
("unic-locale-impl/src/extensions/unicode.rs", "pub-fn", "has_attribute");
("unic-locale-impl/src/extensions/unicode.rs", "pub-fn", "is_empty");
("unic-locale-impl/src/extensions/unicode.rs", "pub-fn", "keyword");
("unic-locale-impl/src/extensions/unicode.rs", "pub-fn", "keyword_keys");
("unic-locale-impl/src/extensions/unicode.rs", "pub-fn", "remove_attribute");
("unic-locale-impl/src/extensions/unicode.rs", "pub-fn", "remove_keyword");
("unic-locale-impl/src/extensions/unicode.rs", "pub-fn", "set_attribute");
("unic-locale-impl/src/extensions/unicode.rs", "pub-fn", "set_keyword");
("unic-locale-impl/src/lib.rs", "impl", "AsRef<LanguageIdentifier> for Locale");
("unic-locale-impl/src/lib.rs", "impl", "AsRef<Locale> for Locale");
("unic-locale-impl/src/lib.rs", "impl", "Display for Locale");
("unic-locale-impl/src/lib.rs", "impl", "From<LanguageIdentifier> for Locale");
("unic-locale-impl/src/lib.rs", "impl", "From<Locale> for LanguageIdentifier");
("unic-locale-impl/src/lib.rs", "impl", "FromStr for Locale");
("unic-locale-impl/src/lib.rs", "pub-fn", "canonicalize");
("unic-locale-impl/src/lib.rs", "pub-fn", "from_bytes");
("unic-locale-impl/src/lib.rs", "pub-fn", "from_parts");
("unic-locale-impl/src/lib.rs", "pub-fn", "from_raw_parts_unchecked");
("unic-locale-impl/src/lib.rs", "pub-fn", "into_parts");
("unic-locale-impl/src/lib.rs", "pub-fn", "matches");
("unic-locale-impl/src/parser/errors.rs", "impl", "Display for ParserError");
("unic-locale-impl/src/parser/errors.rs", "impl", "Error for ParserError");
("unic-locale-impl/src/parser/errors.rs", "impl", "From<LangIdParserError> for ParserError");
("unic-locale-impl/src/parser/mod.rs", "pub-fn", "parse_locale");
("unic-locale/src/lib.rs", "macro", "locales")
].

Definition row_eqb (a b : string * string * string) : bool :=
  match a, b with (f, k, n), (f', k', n') => String.eqb f f' && String.eqb k k' && String.eqb n n' end.
Fixpoint rows_eqb (l l' : list (string * string * string)) : bool :=
  match l, l' with
  | [], [] => true
  | a :: r, b :: r' => row_eqb a b && rows_eqb r r'
  | _, _ => false
  end.
Definition api_is_modelled : bool := rows_eqb api_surface modelled_api.

Lemma api_modelled : api_is_modelled = true.
Proof. vm_compute. reflexivity. Qed.

Lemma row_eqb_eq a b : row_eqb a b = true -> a = b.
Proof.
  destruct a as [[f k] n], b as [[f' k'] n']. cbn. intros H. apply andb_true_iff in H as [H Hn]. apply andb_true_iff in H as [Hf Hk].
  apply String.eqb_eq in Hf, Hk, Hn. subst. reflexivity.
Qed.
Lemma rows_eqb_eq l : forall l', rows_eqb l l' = true -> l = l'.
Proof.
  induction l as [|a r IH]; intros [|b r'] H; cbn in H; try discriminate; [reflexivity|].
  apply andb_true_iff in H as [H1 H2]. rewrite (row_eqb_eq _ _ H1), (IH _ H2). reflexivity.
Qed.
Theorem api_surface_is_the_modelled_one : api_surface = modelled_api.
Proof. apply rows_eqb_eq. exact api_modelled. Qed.

(* not vacuous: an added mutator or a hand-written impl in place of a derived one is a different list *)
Example api_rule :
  rows_eqb (("unic-langid-impl/src/lib.rs", "pub-fn", "remove_variant") :: modelled_api) modelled_api = false
  /\ rows_eqb (tl modelled_api) modelled_api = false.
Proof. vm_compute. split; reflexivity. Qed.
