(* LikelySpecProofs.v — C06 for ALL well-formed triples: the table cascade on integer keys equals the
   dictionary reference built from the strings of likelySubtags.json. *)
From UL Require Import Bytes Subtags LangId Likely Inst Grammar LangIdSpec LikelySpec
                       BytesProofs SubtagProofs PackProofs SplitProofs LangIdProofs CanonProofs RawProofs TablesData LikelyProofs.
From UL Require Import Tables.
From Coq Require Import Lia.
Open Scope N_scope.

(* ---------- finite facts, one per table (kernel-evaluated): every row is a CLDR entry ---------- *)
Definition row_ok (key : bytes) (v : tval) : bool :=
  obeq (dlookup key the_dict) (unpack_val v) && is_some (unpack_val v).
Lemma rows_lang_only : forallb (fun kv => match kv with (k, v) => row_ok (from_raw 8 k) v end) (t_lang_only the_tables) = true.
Proof. vm_cast_no_check (eq_refl true). Qed.
Lemma rows_lang_region : forallb (fun kv => match kv with (a, b, v) => row_ok (join [from_raw 8 a; from_raw 4 b]) v end) (t_lang_region the_tables) = true.
Proof. vm_cast_no_check (eq_refl true). Qed.
Lemma rows_lang_script : forallb (fun kv => match kv with (a, b, v) => row_ok (join [from_raw 8 a; from_raw 4 b]) v end) (t_lang_script the_tables) = true.
Proof. vm_cast_no_check (eq_refl true). Qed.
Lemma rows_script_region : forallb (fun kv => match kv with (a, b, v) => row_ok (join [und; from_raw 4 a; from_raw 4 b]) v end) (t_script_region the_tables) = true.
Proof. vm_cast_no_check (eq_refl true). Qed.
Lemma rows_script_only : forallb (fun kv => match kv with (k, v) => row_ok (join [und; from_raw 4 k]) v end) (t_script_only the_tables) = true.
Proof. vm_cast_no_check (eq_refl true). Qed.
Lemma rows_region_only : forallb (fun kv => match kv with (k, v) => row_ok (join [und; from_raw 4 k]) v end) (t_region_only the_tables) = true.
Proof. vm_cast_no_check (eq_refl true). Qed.

Lemma dlookup_In k (d : dict) v : dlookup k d = Some v -> In (k, v) d.
Proof.
  induction d as [|[k' v'] d IH]; cbn [dlookup]; [discriminate|].
  destruct (beqb k' k) eqn:E; [apply beqb_eq in E; subst; intros H; injection H as <-; left; reflexivity|].
  intros H. right. auto.
Qed.
Lemma obeq_eq a b : obeq a b = true -> a = b.
Proof. destruct a, b; cbn [obeq]; try discriminate; [|reflexivity]. intros H. apply beqb_eq in H. congruence. Qed.
Lemma otval_eqb_some o v : otval_eqb o (Some v) = true -> exists v', o = Some v'.
Proof. destruct o; cbn [otval_eqb]; [eauto|discriminate]. Qed.

(* a CLDR value "lang-Script-REGION" whose parts are canonical subtags splits back into them *)
Lemma parse_value_join A B C : nosep A = true -> nosep B = true -> nosep C = true ->
  parse_value (join [A; B; C]) = Some (Some A, Some B, Some C).
Proof. intros HA HB HC. unfold parse_value. rewrite split_join; [reflexivity|congruence|]. cbn [forallb]. rewrite HA, HB, HC. reflexivity. Qed.

Lemma canon_lang_nosep l : canon_lang (Some l) = true -> nosep l = true.
Proof. cbn [canon_lang]. intros H. apply andb_true_iff in H as [H _]. apply andb_true_iff in H as [H _]. apply lang_tok_nosep; exact H. Qed.
Lemma canon_script_nosep s : canon_script s = true -> nosep s = true.
Proof. unfold canon_script. intros H. apply andb_true_iff in H as [H _]. apply script_tok_nosep; exact H. Qed.
Lemma canon_region_nosep r : canon_region r = true -> nosep r = true.
Proof. unfold canon_region. intros H. apply andb_true_iff in H as [H _]. apply region_tok_nosep; exact H. Qed.

(* what a full, well-formed table value means on the dictionary side *)
Lemma val_meaning a b c key :
  wf_val (Some a, Some b, Some c) = true -> row_ok key (Some a, Some b, Some c) = true ->
  dlookup key the_dict = Some (join [from_raw 8 a; from_raw 4 b; from_raw 4 c])
  /\ parse_value (join [from_raw 8 a; from_raw 4 b; from_raw 4 c]) = Some (Some (from_raw 8 a), Some (from_raw 4 b), Some (from_raw 4 c)).
Proof.
  intros W R. unfold row_ok in R. apply andb_true_iff in R as [R _]. apply obeq_eq in R. cbn [unpack_val] in R.
  destruct (wf_val_texts _ _ _ W) as (W1 & W2 & W3). split; [exact R|].
  apply parse_value_join; [apply canon_lang_nosep|apply canon_script_nosep|apply canon_region_nosep]; assumption.
Qed.

(* parsing the key text of a well-formed triple gives that triple back *)
Lemma key_parse l s r : wf_triple l s r = true ->
  langid_from_bytes (key_text l s r) = Ok (mkLangId l s r None).
Proof.
  intros W. unfold wf_triple, wf_lang, wf_script, wf_region in W. apply andb_true_iff in W as [W Wr]. apply andb_true_iff in W as [Wl Ws].
  assert (Hi : li_inv (mkLangId l s r None) = true).
  { unfold li_inv. cbn [li_lang li_script li_region li_variants variants_inv]. rewrite Wl, Ws, Wr. reflexivity. }
  pose proof (langid_roundtrip _ Hi) as R. unfold li_to_string, li_tokens in R. cbn [li_lang li_script li_region li_variants li_variants_list] in R.
  unfold key_text. replace (match l with Some x => x | None => s_und end) with (language_text l) by (destruct l; reflexivity).
  replace (match s with Some x => [x] | None => [] end) with (opt_tok s) by (destruct s; reflexivity).
  replace (match r with Some x => [x] | None => [] end) with (opt_tok r) by (destruct r; reflexivity).
  rewrite app_nil_r in R. exact R.
Qed.

(* a dictionary hit forces a table hit (C18_each_entry, read backwards) *)
Lemma dict_hit_table l s r v : wf_triple l s r = true -> dlookup (key_text l s r) the_dict = Some v ->
  entry_in_tables the_tables (key_text l s r, v) = true.
Proof. intros _ H. apply data_entries_forall. apply dlookup_In. exact H. Qed.

Section Cascade.
Let T := the_tables.
Let HT := data_full_extend.
Let HW := data_wf_ints.

(* ---- the six lookups, each against its dictionary key ---- *)
Definition agrees (tv : option tval) (key : bytes) : Prop :=
  match tv with
  | Some v => exists a b c, v = (Some a, Some b, Some c) /\ wf_val v = true
              /\ dlookup key the_dict = Some (join [from_raw 8 a; from_raw 4 b; from_raw 4 c])
              /\ parse_value (join [from_raw 8 a; from_raw 4 b; from_raw 4 c])
                 = Some (Some (from_raw 8 a), Some (from_raw 4 b), Some (from_raw 4 c))
  | None => dlookup key the_dict = None
  end.

Lemma forallb_In {A} (p : A -> bool) l x : forallb p l = true -> In x l -> p x = true.
Proof. intros H. exact (proj1 (forallb_forall p l) H x). Qed.

Lemma agree_lang_region lb rb : wf_triple (Some lb) None (Some rb) = true ->
  agrees (assoc2 (le_pack lb) (le_pack rb) (t_lang_region T)) (key_text (Some lb) None (Some rb)).
Proof.
  intros W. pose proof W as W0. unfold wf_triple in W. apply andb_true_iff in W as [W Wr]. apply andb_true_iff in W as [Wl _].
  destruct (HW_parts T HW) as (_ & Wlr & _).
  destruct (assoc2 (le_pack lb) (le_pack rb) (t_lang_region T)) as [v|] eqn:E; cbn [agrees].
  - apply assoc2_in in E. pose proof (Wlr _ _ _ E) as Wv. pose proof (forallb_In _ _ _ rows_lang_region E) as R. cbn beta iota in R.
    rewrite (raw_lang _ Wl), (raw_region _ Wr) in R.
    destruct v as [[[a|] [b|]] [c|]]; try (unfold row_ok in R; cbn [unpack_val is_some] in R; rewrite andb_false_r in R; discriminate).
    exists a, b, c. split; [reflexivity|]. split; [exact Wv|]. exact (val_meaning a b c _ Wv R).
  - destruct (dlookup (key_text (Some lb) None (Some rb)) the_dict) as [v|] eqn:D; [|reflexivity]. exfalso.
    pose proof (dict_hit_table _ _ _ _ W0 D) as H. unfold entry_in_tables in H. rewrite (key_parse _ _ _ W0) in H.
    destruct (pack_val v); [|discriminate]. cbn [li_variants li_lang li_script li_region] in H.
    apply otval_eqb_some in H as [v' H]. fold T in H. congruence.
Qed.
Lemma agree_lang_script lb sb : wf_triple (Some lb) (Some sb) None = true ->
  agrees (assoc2 (le_pack lb) (le_pack sb) (t_lang_script T)) (key_text (Some lb) (Some sb) None).
Proof.
  intros W. pose proof W as W0. unfold wf_triple in W. apply andb_true_iff in W as [W _]. apply andb_true_iff in W as [Wl Ws].
  destruct (HW_parts T HW) as (_ & _ & Wls & _).
  destruct (assoc2 (le_pack lb) (le_pack sb) (t_lang_script T)) as [v|] eqn:E; cbn [agrees].
  - apply assoc2_in in E. pose proof (Wls _ _ _ E) as Wv. pose proof (forallb_In _ _ _ rows_lang_script E) as R. cbn beta iota in R.
    rewrite (raw_lang _ Wl), (raw_script _ Ws) in R.
    destruct v as [[[a|] [b|]] [c|]]; try (unfold row_ok in R; cbn [unpack_val is_some] in R; rewrite andb_false_r in R; discriminate).
    exists a, b, c. split; [reflexivity|]. split; [exact Wv|]. exact (val_meaning a b c _ Wv R).
  - destruct (dlookup (key_text (Some lb) (Some sb) None) the_dict) as [v|] eqn:D; [|reflexivity]. exfalso.
    pose proof (dict_hit_table _ _ _ _ W0 D) as H. unfold entry_in_tables in H. rewrite (key_parse _ _ _ W0) in H.
    destruct (pack_val v); [|discriminate]. cbn [li_variants li_lang li_script li_region] in H.
    apply otval_eqb_some in H as [v' H]. fold T in H. congruence.
Qed.
Lemma agree_lang_only lb : wf_triple (Some lb) None None = true ->
  agrees (assoc1 (le_pack lb) (t_lang_only T)) (key_text (Some lb) None None).
Proof.
  intros W. pose proof W as W0. unfold wf_triple in W. apply andb_true_iff in W as [W _]. apply andb_true_iff in W as [Wl _].
  destruct (HW_parts T HW) as (Wlo & _).
  destruct (assoc1 (le_pack lb) (t_lang_only T)) as [v|] eqn:E; cbn [agrees].
  - apply assoc1_in in E. pose proof (Wlo _ _ E) as Wv. pose proof (forallb_In _ _ _ rows_lang_only E) as R. cbn beta iota in R.
    rewrite (raw_lang _ Wl) in R.
    destruct v as [[[a|] [b|]] [c|]]; try (unfold row_ok in R; cbn [unpack_val is_some] in R; rewrite andb_false_r in R; discriminate).
    exists a, b, c. split; [reflexivity|]. split; [exact Wv|]. exact (val_meaning a b c _ Wv R).
  - destruct (dlookup (key_text (Some lb) None None) the_dict) as [v|] eqn:D; [|reflexivity]. exfalso.
    pose proof (dict_hit_table _ _ _ _ W0 D) as H. unfold entry_in_tables in H. rewrite (key_parse _ _ _ W0) in H.
    destruct (pack_val v); [|discriminate]. cbn [li_variants li_lang li_script li_region] in H.
    apply otval_eqb_some in H as [v' H]. fold T in H. congruence.
Qed.
Lemma agree_script_region sb rb : wf_triple None (Some sb) (Some rb) = true ->
  agrees (assoc2 (le_pack sb) (le_pack rb) (t_script_region T)) (key_text None (Some sb) (Some rb)).
Proof.
  intros W. pose proof W as W0. unfold wf_triple in W. apply andb_true_iff in W as [W Wr]. apply andb_true_iff in W as [_ Ws].
  destruct (HW_parts T HW) as (_ & _ & _ & Wsr & _).
  destruct (assoc2 (le_pack sb) (le_pack rb) (t_script_region T)) as [v|] eqn:E; cbn [agrees].
  - apply assoc2_in in E. pose proof (Wsr _ _ _ E) as Wv. pose proof (forallb_In _ _ _ rows_script_region E) as R. cbn beta iota in R.
    rewrite (raw_script _ Ws), (raw_region _ Wr) in R.
    destruct v as [[[a|] [b|]] [c|]]; try (unfold row_ok in R; cbn [unpack_val is_some] in R; rewrite andb_false_r in R; discriminate).
    exists a, b, c. split; [reflexivity|]. split; [exact Wv|]. exact (val_meaning a b c _ Wv R).
  - destruct (dlookup (key_text None (Some sb) (Some rb)) the_dict) as [v|] eqn:D; [|reflexivity]. exfalso.
    pose proof (dict_hit_table _ _ _ _ W0 D) as H. unfold entry_in_tables in H. rewrite (key_parse _ _ _ W0) in H.
    destruct (pack_val v); [|discriminate]. cbn [li_variants li_lang li_script li_region] in H.
    apply otval_eqb_some in H as [v' H]. fold T in H. congruence.
Qed.
Lemma agree_script_only sb : wf_triple None (Some sb) None = true ->
  agrees (assoc1 (le_pack sb) (t_script_only T)) (key_text None (Some sb) None).
Proof.
  intros W. pose proof W as W0. unfold wf_triple in W. apply andb_true_iff in W as [W _]. apply andb_true_iff in W as [_ Ws].
  destruct (HW_parts T HW) as (_ & _ & _ & _ & Wso & _).
  destruct (assoc1 (le_pack sb) (t_script_only T)) as [v|] eqn:E; cbn [agrees].
  - apply assoc1_in in E. pose proof (Wso _ _ E) as Wv. pose proof (forallb_In _ _ _ rows_script_only E) as R. cbn beta iota in R.
    rewrite (raw_script _ Ws) in R.
    destruct v as [[[a|] [b|]] [c|]]; try (unfold row_ok in R; cbn [unpack_val is_some] in R; rewrite andb_false_r in R; discriminate).
    exists a, b, c. split; [reflexivity|]. split; [exact Wv|]. exact (val_meaning a b c _ Wv R).
  - destruct (dlookup (key_text None (Some sb) None) the_dict) as [v|] eqn:D; [|reflexivity]. exfalso.
    pose proof (dict_hit_table _ _ _ _ W0 D) as H. unfold entry_in_tables in H. rewrite (key_parse _ _ _ W0) in H.
    destruct (pack_val v); [|discriminate]. cbn [li_variants li_lang li_script li_region] in H.
    apply otval_eqb_some in H as [v' H]. fold T in H. congruence.
Qed.
Lemma agree_region_only rb : wf_triple None None (Some rb) = true ->
  agrees (assoc1 (le_pack rb) (t_region_only T)) (key_text None None (Some rb)).
Proof.
  intros W. pose proof W as W0. unfold wf_triple in W. apply andb_true_iff in W as [_ Wr].
  destruct (HW_parts T HW) as (_ & _ & _ & _ & _ & Wro).
  destruct (assoc1 (le_pack rb) (t_region_only T)) as [v|] eqn:E; cbn [agrees].
  - apply assoc1_in in E. pose proof (Wro _ _ E) as Wv. pose proof (forallb_In _ _ _ rows_region_only E) as R. cbn beta iota in R.
    rewrite (raw_region _ Wr) in R.
    destruct v as [[[a|] [b|]] [c|]]; try (unfold row_ok in R; cbn [unpack_val is_some] in R; rewrite andb_false_r in R; discriminate).
    exists a, b, c. split; [reflexivity|]. split; [exact Wv|]. exact (val_meaning a b c _ Wv R).
  - destruct (dlookup (key_text None None (Some rb)) the_dict) as [v|] eqn:D; [|reflexivity]. exfalso.
    pose proof (dict_hit_table _ _ _ _ W0 D) as H. unfold entry_in_tables in H. rewrite (key_parse _ _ _ W0) in H.
    destruct (pack_val v); [|discriminate]. cbn [li_variants li_lang li_script li_region] in H.
    apply otval_eqb_some in H as [v' H]. fold T in H. congruence.
Qed.

(* ---- the cascade ---- *)
Lemma first_hit_cons k ks : first_hit (k :: ks) the_dict = match dlookup k the_dict with Some v => Some v | None => first_hit ks the_dict end.
Proof. reflexivity. Qed.

Theorem maximize_is_spec l s r : wf_triple l s r = true ->
  maximize T l s r = Ok (spec_maximize the_dict l s r).
Proof.
  intros W. pose proof W as W0. unfold wf_triple in W. apply andb_true_iff in W as [W Wr]. apply andb_true_iff in W as [Wl Ws].
  destruct (HT_parts T HT) as (Hlo & Hlr & Hls & Hsr & Hso & Hro).
  unfold maximize, spec_maximize.
  replace (s_is_some l && s_is_some s && s_is_some r) with (is_some l && is_some s && is_some r) by (destruct l, s, r; reflexivity).
  destruct (is_some l && is_some s && is_some r) eqn:Eall; [reflexivity|].
  destruct l as [lb|]; [destruct s as [sb|]; destruct r as [rb|]; try (cbn [is_some andb] in Eall; discriminate Eall)|destruct s as [sb|]; destruct r as [rb|]].
  - (* lang + script *)
    assert (W1 : wf_triple (Some lb) (Some sb) None = true) by exact W0.
    assert (W2 : wf_triple (Some lb) None None = true) by (unfold wf_triple; rewrite Wl; reflexivity).
    pose proof (agree_lang_script lb sb W1) as A1. pose proof (agree_lang_only lb W2) as A2.
    cbn [candidates s_is_some app]. rewrite !first_hit_cons. cbn [first_hit].
    destruct (assoc2 (le_pack lb) (le_pack sb) (t_lang_script T)) as [v|] eqn:E1; cbn [agrees] in A1.
    + destruct A1 as (a & b & c & -> & Wv & D & P). rewrite D, P. apply assoc2_in in E1. apply Hls in E1 as (c' & E1). injection E1 as -> -> ->.
      rewrite lfp_full. cbn [or_else s_or]. rewrite (raw_lang _ Wl), (raw_script _ Ws). reflexivity.
    + rewrite A1. destruct (assoc1 (le_pack lb) (t_lang_only T)) as [v|] eqn:E2; cbn [agrees] in A2.
      * destruct A2 as (a & b & c & -> & Wv & D & P). rewrite D, P. apply assoc1_in in E2. apply Hlo in E2 as (a' & b' & c' & E2 & Hk).
        injection E2 as -> -> ->. destruct Hk as [Hk|Hk]; [exfalso; exact (pack_lang_not_und _ Wl Hk)|]. subst a'.
        rewrite lfp_full. cbn [or_else s_or]. rewrite (raw_lang _ Wl). reflexivity.
      * rewrite A2. reflexivity.
  - (* lang + region *)
    assert (W1 : wf_triple (Some lb) None (Some rb) = true) by exact W0.
    assert (W2 : wf_triple (Some lb) None None = true) by (unfold wf_triple; rewrite Wl; reflexivity).
    pose proof (agree_lang_region lb rb W1) as A1. pose proof (agree_lang_only lb W2) as A2.
    cbn [candidates s_is_some app]. rewrite !first_hit_cons. cbn [first_hit].
    destruct (assoc2 (le_pack lb) (le_pack rb) (t_lang_region T)) as [v|] eqn:E1; cbn [agrees] in A1.
    + destruct A1 as (a & b & c & -> & Wv & D & P). rewrite D, P. apply assoc2_in in E1. apply Hlr in E1 as (b' & E1). injection E1 as -> -> ->.
      rewrite lfp_full. cbn [or_else s_or]. rewrite (raw_lang _ Wl), (raw_region _ Wr). reflexivity.
    + rewrite A1. destruct (assoc1 (le_pack lb) (t_lang_only T)) as [v|] eqn:E2; cbn [agrees] in A2.
      * destruct A2 as (a & b & c & -> & Wv & D & P). rewrite D, P. apply assoc1_in in E2. apply Hlo in E2 as (a' & b' & c' & E2 & Hk).
        injection E2 as -> -> ->. destruct Hk as [Hk|Hk]; [exfalso; exact (pack_lang_not_und _ Wl Hk)|]. subst a'.
        rewrite lfp_full. cbn [or_else s_or]. rewrite (raw_lang _ Wl). reflexivity.
      * rewrite A2. reflexivity.
  - (* lang only *)
    pose proof (agree_lang_only lb W0) as A2.
    cbn [candidates s_is_some app]. rewrite !first_hit_cons. cbn [first_hit].
    destruct (assoc1 (le_pack lb) (t_lang_only T)) as [v|] eqn:E2; cbn [agrees] in A2.
    + destruct A2 as (a & b & c & -> & Wv & D & P). rewrite D, P. apply assoc1_in in E2. apply Hlo in E2 as (a' & b' & c' & E2 & Hk).
      injection E2 as -> -> ->. destruct Hk as [Hk|Hk]; [exfalso; exact (pack_lang_not_und _ Wl Hk)|]. subst a'.
      rewrite lfp_full. cbn [or_else s_or]. rewrite (raw_lang _ Wl). reflexivity.
    + rewrite A2. reflexivity.
  - (* und + script + region *)
    assert (W2 : wf_triple None (Some sb) None = true) by (unfold wf_triple; cbn [wf_lang canon_lang]; rewrite Ws; reflexivity).
    pose proof (agree_script_region sb rb W0) as A1. pose proof (agree_script_only sb W2) as A2.
    cbn [candidates s_is_some app]. rewrite !first_hit_cons. cbn [first_hit].
    destruct (assoc2 (le_pack sb) (le_pack rb) (t_script_region T)) as [v|] eqn:E1; cbn [agrees] in A1.
    + destruct A1 as (a & b & c & -> & Wv & D & P). rewrite D, P. apply assoc2_in in E1. apply Hsr in E1 as (a' & E1). injection E1 as -> -> ->.
      rewrite lfp_full. cbn [or_else s_or]. rewrite (raw_script _ Ws), (raw_region _ Wr). reflexivity.
    + rewrite A1. destruct (assoc1 (le_pack sb) (t_script_only T)) as [v|] eqn:E2; cbn [agrees] in A2.
      * destruct A2 as (a & b & c & -> & Wv & D & P). rewrite D, P. apply assoc1_in in E2. apply Hso in E2 as (a' & c' & E2). injection E2 as -> -> ->.
        rewrite lfp_full. cbn [or_else s_or]. rewrite (raw_script _ Ws). reflexivity.
      * rewrite A2. reflexivity.
  - (* und + script *)
    pose proof (agree_script_only sb W0) as A2.
    cbn [candidates s_is_some app]. rewrite !first_hit_cons. cbn [first_hit].
    destruct (assoc1 (le_pack sb) (t_script_only T)) as [v|] eqn:E2; cbn [agrees] in A2.
    + destruct A2 as (a & b & c & -> & Wv & D & P). rewrite D, P. apply assoc1_in in E2. apply Hso in E2 as (a' & c' & E2). injection E2 as -> -> ->.
      rewrite lfp_full. cbn [or_else s_or]. rewrite (raw_script _ Ws). reflexivity.
    + rewrite A2. reflexivity.
  - (* und + region *)
    pose proof (agree_region_only rb W0) as A2.
    cbn [candidates s_is_some app]. rewrite !first_hit_cons. cbn [first_hit].
    destruct (assoc1 (le_pack rb) (t_region_only T)) as [v|] eqn:E2; cbn [agrees] in A2.
    + destruct A2 as (a & b & c & -> & Wv & D & P). rewrite D, P. apply assoc1_in in E2. apply Hro in E2 as (a' & b' & E2). injection E2 as -> -> ->.
      rewrite lfp_full. cbn [or_else s_or]. rewrite (raw_region _ Wr). reflexivity.
    + rewrite A2. reflexivity.
  - reflexivity.
Qed.

End Cascade.

(* ---- minimize against the dictionary reference (C08: the chosen form) ---- *)
Lemma striple_eqb_triple a b : striple_eqb a b = triple_eqb a b.
Proof. destruct a as [[a1 a2] a3], b as [[b1 b2] b3]. reflexivity. Qed.

Theorem minimize_is_spec l s r : wf_triple l s r = true ->
  minimize the_tables l s r = Ok (spec_minimize the_dict l s r).
Proof.
  intros W.
  assert (FROM : forall ml ms mr, wf_triple (Some ml) (Some ms) (Some mr) = true ->
     minimize_from the_tables (Some ml, Some ms, Some mr) =
     Ok (let ok (t : striple) := match t with (a, b, c) =>
                 match spec_maximize the_dict a b c with Some m => striple_eqb m (Some ml, Some ms, Some mr) | None => false end end in
         if ok (Some ml, None, None) then Some (Some ml, None, None)
         else if s_is_some (Some mr) && ok (Some ml, None, Some mr) then Some (Some ml, None, Some mr)
         else if s_is_some (Some ms) && ok (Some ml, Some ms, None) then Some (Some ml, Some ms, None)
         else None)).
  { intros ml ms mr Wm. unfold wf_triple in Wm. apply andb_true_iff in Wm as [Wm Wr]. apply andb_true_iff in Wm as [Wl Ws].
    assert (W1 : wf_triple (Some ml) None None = true) by (unfold wf_triple; rewrite Wl; reflexivity).
    assert (W2 : wf_triple (Some ml) None (Some mr) = true) by (unfold wf_triple; rewrite Wl, Wr; reflexivity).
    assert (W3 : wf_triple (Some ml) (Some ms) None = true) by (unfold wf_triple; rewrite Wl, Ws; reflexivity).
    unfold minimize_from. cbn [is_some s_is_some andb].
    rewrite (maximize_is_spec _ _ _ W1), (maximize_is_spec _ _ _ W2), (maximize_is_spec _ _ _ W3).
    unfold trial_hit. cbn zeta. change striple_eqb with triple_eqb.
    destruct (spec_maximize the_dict (Some ml) None None) as [t1|]; [destruct (triple_eqb t1 _); [reflexivity|]|];
    (destruct (spec_maximize the_dict (Some ml) None (Some mr)) as [t2|]; [destruct (triple_eqb t2 _); [reflexivity|]|]);
    (destruct (spec_maximize the_dict (Some ml) (Some ms) None) as [t3|]; [destruct (triple_eqb t3 _); reflexivity|reflexivity]). }
  unfold minimize, spec_minimize.
  replace (s_is_some l && s_is_some s && s_is_some r) with (is_some l && is_some s && is_some r) by (destruct l, s, r; reflexivity).
  destruct (is_some l && is_some s && is_some r) eqn:Eall.
  - destruct l as [ml|], s as [ms|], r as [mr|]; try (cbn [is_some andb] in Eall; discriminate Eall).
    rewrite (FROM ml ms mr W). reflexivity.
  - rewrite (maximize_is_spec _ _ _ W).
    destruct (maximize_char the_tables data_full_extend data_wf_ints l s r W) as [E0|(ml & ms & mr & E0 & _ & _ & _ & _ & Wm)].
    + rewrite (maximize_is_spec _ _ _ W) in E0. injection E0 as ->. reflexivity.
    + rewrite (maximize_is_spec _ _ _ W) in E0. injection E0 as ->. rewrite (FROM ml ms mr Wm). reflexivity.
Qed.
