(* SplitProofs.v — split on '-'/'_' and join with '-' *)
From UL Require Import Bytes BytesProofs.
From Coq Require Import Lia ZifyBool ZifyN.
Open Scope N_scope.
Arguments N.eqb : simpl never.
Arguments N.leb : simpl never.

Definition nosep (t : bytes) : bool := forallb (fun b => negb (is_sep b)) t.

Lemma split_aux_app cur t r : nosep t = true -> split_aux cur (t ++ r) = split_aux (rev t ++ cur) r.
Proof.
  revert cur; induction t as [|b t IH]; intros cur H; cbn [app rev]; [reflexivity|].
  cbn [nosep forallb] in H. apply andb_true_iff in H as [Hb Ht].
  cbn [split_aux]. destruct (is_sep b); [discriminate|]. rewrite (IH _ Ht).
  rewrite <- app_assoc. reflexivity.
Qed.

Lemma split_nosep t : nosep t = true -> split t = [t].
Proof.
  intros H. unfold split. rewrite <- (app_nil_r t) at 1. rewrite (split_aux_app _ _ _ H).
  cbn [split_aux]. rewrite app_nil_r, rev_involutive. reflexivity.
Qed.

Lemma split_cons t r : nosep t = true -> split (t ++ 45 :: r) = t :: split r.
Proof.
  intros H. unfold split. rewrite (split_aux_app _ _ _ H). cbn [split_aux].
  assert (is_sep 45 = true) as -> by reflexivity. rewrite app_nil_r, rev_involutive. reflexivity.
Qed.

Lemma split_join toks : toks <> [] -> forallb nosep toks = true -> split (join toks) = toks.
Proof.
  induction toks as [|t toks IH]; [congruence|]. intros _ H. cbn [forallb] in H.
  apply andb_true_iff in H as [Ht Hr].
  destruct toks as [|u toks]; cbn [join].
  - apply split_nosep; assumption.
  - rewrite (split_cons _ _ Ht). f_equal. apply IH; [congruence|assumption].
Qed.

Lemma split_nonempty s : split s <> [].
Proof. unfold split. generalize (@nil N). induction s as [|b s IH]; intros cur; cbn [split_aux]; [congruence|].
  destruct (is_sep b); [congruence|apply IH]. Qed.

(* tokens never contain separators *)
Lemma split_aux_nosep cur s : nosep cur = true -> forallb nosep (split_aux cur s) = true.
Proof.
  revert cur; induction s as [|b s IH]; intros cur H; cbn [split_aux forallb].
  - unfold nosep in *. rewrite forallb_forall in *. rewrite andb_true_r. apply forallb_forall.
    intros x Hx. apply H. apply in_rev. exact Hx.
  - destruct (is_sep b) eqn:E; cbn [forallb].
    + rewrite (IH [] eq_refl), andb_true_r. unfold nosep in *. rewrite forallb_forall in *.
      intros x Hx. apply H. apply in_rev. exact Hx.
    + apply IH. cbn [nosep forallb]. rewrite E. exact H.
Qed.
Lemma split_nosep_all s : forallb nosep (split s) = true.
Proof. apply split_aux_nosep. reflexivity. Qed.

(* alnum tokens contain no separators *)
Lemma alnum_nosep t : forallb is_alnum t = true -> nosep t = true.
Proof.
  apply forallb_imp. intros b. unfold is_alnum, is_alpha, is_upper, is_lower, is_digit, in_range, is_sep. lia.
Qed.

(* case-folding commutes with splitting (C09) *)
Definition fold_byte (b : N) : N := if is_sep b then 45 else to_lower b.
Lemma is_sep_to_lower b : is_sep (to_lower b) = is_sep b.
Proof. unfold is_sep, to_lower, is_upper, in_range. destruct ((65 <=? b) && (b <=? 90)) eqn:E; lia. Qed.
