(* KvProofs.v — maps as unordered association lists with unique keys, observed through kv_sort *)
From UL Require Import Bytes Subtags LangId Ext Likely Ops LocaleInv AbstractLocale BytesProofs SortProofs KmapProofs PermProofs.
From Coq Require Import Lia Permutation.
Open Scope N_scope.

Definition keys (m : kmap) : list bytes := map fst m.
Definition kuniq (m : kmap) : Prop := NoDup (keys m).

Lemma kv_insert_In kv x m : In x (kv_insert kv m) <-> x = kv \/ In x m.
Proof.
  induction m as [|y m IH]; cbn [kv_insert In]; [intuition|].
  destruct (bleb (fst kv) (fst y)); cbn [In]; [intuition|]. rewrite IH. intuition.
Qed.
Lemma kv_sort_In x m : In x (kv_sort m) <-> In x m.
Proof. induction m as [|y m IH]; cbn [kv_sort In]; [tauto|]. rewrite kv_insert_In, IH. intuition. Qed.

Lemma ksorted_iff_keys m : ksorted m = true <-> Sorted_lt (keys m).
Proof.
  induction m as [|[k v] [|[k' v'] r] IH]; cbn [ksorted keys map fst].
  - split; constructor.
  - split; constructor.
  - cbn [keys map fst] in IH. rewrite andb_true_iff, IH. split.
    + intros [H1 H2]. constructor; assumption.
    + intros H. inversion H; subst. auto.
Qed.

Lemma kv_insert_keys_perm kv m : Permutation (keys (kv_insert kv m)) (fst kv :: keys m).
Proof.
  induction m as [|y m IH]; cbn [kv_insert keys map]; [reflexivity|].
  destruct (bleb (fst kv) (fst y)); cbn [keys map]; [reflexivity|].
  fold (keys (kv_insert kv m)). rewrite IH. apply perm_swap.
Qed.
Lemma kv_sort_keys_perm m : Permutation (keys (kv_sort m)) (keys m).
Proof. induction m as [|y m IH]; cbn [kv_sort keys map]; [reflexivity|]. fold (keys m). rewrite kv_insert_keys_perm, IH. reflexivity. Qed.

Lemma kv_insert_sorted_le kv m : Sorted_le (keys m) -> Sorted_le (keys (kv_insert kv m)).
Proof.
  induction m as [|y m IH]; cbn [kv_insert keys map]; intros H; [constructor|].
  destruct (bleb (fst kv) (fst y)) eqn:E; cbn [keys map]; [constructor; assumption|].
  assert (Hyx : bleb (fst y) (fst kv) = true) by (destruct (bleb_total (fst kv) (fst y)) as [H'|H']; congruence).
  fold (keys m) in *. specialize (IH (Sorted_le_tail _ _ H)).
  destruct m as [|z m']; cbn [kv_insert keys map] in *; [constructor; [exact Hyx|constructor]|].
  destruct (bleb (fst kv) (fst z)); cbn [keys map] in *; (constructor; [|exact IH]); [exact Hyx|inversion H; subst; assumption].
Qed.
Lemma kv_sort_sorted_le m : Sorted_le (keys (kv_sort m)).
Proof. induction m as [|y m IH]; cbn [kv_sort]; [constructor|]. apply kv_insert_sorted_le; exact IH. Qed.

Lemma kv_sort_ksorted m : kuniq m -> ksorted (kv_sort m) = true.
Proof.
  intros H. apply ksorted_iff_keys. apply Sorted_le_nodup_lt; [apply kv_sort_sorted_le|].
  eapply Permutation_NoDup; [apply Permutation_sym, kv_sort_keys_perm|exact H].
Qed.

(* in a map with unique keys an entry is determined by its key *)
Lemma kuniq_functional m k v v' : kuniq m -> In (k, v) m -> In (k, v') m -> v = v'.
Proof.
  induction m as [|[k0 v0] m IH]; intros Hu H1 H2; [destruct H1|].
  unfold kuniq in Hu. cbn [keys map fst] in Hu. inversion Hu as [|? ? Hn Hu']; subst.
  destruct H1 as [E1|H1], H2 as [E2|H2].
  - congruence.
  - injection E1 as -> ->. exfalso. apply Hn. apply in_map_iff. exists (k, v'). auto.
  - injection E2 as -> ->. exfalso. apply Hn. apply in_map_iff. exists (k, v). auto.
  - exact (IH Hu' H1 H2).
Qed.
Lemma ksorted_kuniq m : ksorted m = true -> kuniq m.
Proof. intros H. apply Sorted_lt_NoDup. apply ksorted_iff_keys; exact H. Qed.

(* two strictly key-sorted maps with the same entries are equal *)
Lemma ksorted_unique a : forall b, ksorted a = true -> ksorted b = true -> (forall x, In x a <-> In x b) -> a = b.
Proof.
  induction a as [|[k v] a IH]; intros b Ha Hb Hs.
  - destruct b as [|y b]; [reflexivity|]. exfalso. apply (Hs y). left; reflexivity.
  - destruct b as [|[k' v'] b]; [exfalso; apply (Hs (k, v)); left; reflexivity|].
    assert (E : (k, v) = (k', v')).
    { assert (Hx : In (k, v) ((k', v') :: b)) by (apply Hs; left; reflexivity).
      assert (Hy : In (k', v') ((k, v) :: a)) by (apply Hs; left; reflexivity).
      destruct Hx as [Hx|Hx]; [congruence|]. destruct Hy as [Hy|Hy]; [congruence|].
      pose proof (ksorted_head _ _ _ Ha _ _ Hy) as H1. pose proof (ksorted_head _ _ _ Hb _ _ Hx) as H2.
      pose proof (bltb_trans _ _ _ H1 H2) as H3. rewrite bltb_irrefl in H3. discriminate. }
    injection E as <- <-. f_equal. apply IH; [exact (ksorted_tail _ _ Ha)|exact (ksorted_tail _ _ Hb)|].
    intros [kx vx]. split; intros Hx.
    + assert (In (kx, vx) ((k, v) :: b)) as [E|?] by (apply Hs; right; exact Hx); [|assumption].
      injection E as <- <-. pose proof (ksorted_head _ _ _ Ha _ _ Hx) as C. rewrite bltb_irrefl in C. discriminate.
    + assert (In (kx, vx) ((k, v) :: a)) as [E|?] by (apply Hs; right; exact Hx); [|assumption].
      injection E as <- <-. pose proof (ksorted_head _ _ _ Hb _ _ Hx) as C. rewrite bltb_irrefl in C. discriminate.
Qed.

Lemma kv_sort_id m : ksorted m = true -> kv_sort m = m.
Proof.
  intros H. apply ksorted_unique; [apply kv_sort_ksorted, ksorted_kuniq; exact H|exact H|]. intros x. apply kv_sort_In.
Qed.

(* map_put / map_del / map_get keep keys unique and mean what they say *)
Lemma filter_keys_sub k (m : kmap) x : In x (filter (fun kv => negb (beqb k (fst kv))) m) <-> In x m /\ fst x <> k.
Proof. rewrite filter_In, negb_true_iff, beqb_false. split; intros [H1 H2]; split; auto. Qed.
Lemma map_del_kuniq k m : kuniq m -> kuniq (map_del k m).
Proof.
  unfold kuniq, map_del. induction m as [|[k0 v0] m IH]; cbn [filter keys map fst]; intros H; [constructor|].
  inversion H as [|? ? Hn Hu]; subst. destruct (beqb k k0); cbn [negb keys map fst]; [exact (IH Hu)|].
  constructor; [|exact (IH Hu)]. intros Hin. apply Hn. apply in_map_iff in Hin as (x & Ex & Hx).
  apply filter_In in Hx as [Hx _]. apply in_map_iff. exists x. auto.
Qed.
Lemma map_put_kuniq k v m : kuniq m -> kuniq (map_put k v m).
Proof.
  intros H. unfold map_put, kuniq. cbn [keys map fst]. constructor; [|apply (map_del_kuniq k m H)].
  intros Hin. apply in_map_iff in Hin as (x & Ex & Hx). apply filter_keys_sub in Hx as [_ Hne]. congruence.
Qed.
Lemma map_get_In k m v : kuniq m -> (map_get k m = Some v <-> In (k, v) m).
Proof.
  induction m as [|[k0 v0] m IH]; intros Hu; cbn [map_get]; [split; [discriminate|intros []]|].
  unfold kuniq in Hu. cbn [keys map fst] in Hu. inversion Hu as [|? ? Hn Hu']; subst.
  destruct (beqb k k0) eqn:E.
  - apply beqb_eq in E. subst k0. split.
    + intros H. injection H as <-. left; reflexivity.
    + intros [H|H]; [injection H as <-; reflexivity|]. exfalso. apply Hn. apply in_map_iff. exists (k, v). auto.
  - apply beqb_false in E. rewrite (IH Hu'). split; [intros H; right; exact H|intros [H|H]; [congruence|exact H]].
Qed.
Lemma map_get_none k m : map_get k m = None <-> ~ In k (keys m).
Proof.
  induction m as [|[k0 v0] m IH]; cbn [map_get keys map fst In]; [tauto|].
  destruct (beqb k k0) eqn:E; [apply beqb_eq in E; subst; split; [discriminate|intros H; exfalso; apply H; left; reflexivity]|].
  apply beqb_false in E. fold (keys m). rewrite IH. split; [intros H [H'|H']; [congruence|contradiction]|intros H H'; apply H; right; exact H'].
Qed.

Lemma kfind_kv_sort k m : kuniq m -> kfind k (kv_sort m) = map_get k m.
Proof.
  intros Hu. pose proof (kv_sort_ksorted m Hu) as Hs.
  destruct (map_get k m) as [v|] eqn:E.
  - apply (proj1 (map_get_In k m v Hu)) in E. apply (proj2 (kv_sort_In _ _)) in E.
    destruct (kfind k (kv_sort m)) as [v'|] eqn:F.
    + apply kfind_In in F. f_equal. exact (kuniq_functional _ _ _ _ (ksorted_kuniq _ Hs) F E).
    + exfalso. clear -E F. induction (kv_sort m) as [|[k0 v0] r IH]; [destruct E|]. cbn [kfind] in F.
      destruct (beqb k k0) eqn:B; [discriminate|]. destruct E as [E|E]; [injection E as <- <-; rewrite beqb_refl in B; discriminate|auto].
  - destruct (kfind k (kv_sort m)) as [v'|] eqn:F; [|reflexivity]. exfalso.
    apply kfind_In in F. apply (proj1 (kv_sort_In _ _)) in F. apply (proj1 (map_get_none _ _)) in E. apply E. apply in_map_iff. exists (k, v'). split; [reflexivity|exact F].
Qed.

Lemma kremove_spec k m : ksorted m = true ->
  (forall x, In x (fst (kremove k m)) <-> In x m /\ fst x <> k) /\ snd (kremove k m) = match kfind k m with Some _ => true | None => false end.
Proof.
  induction m as [|[k0 v0] m IH]; intros Hs; cbn [kremove kfind fst snd]; [split; [intros x; cbn; tauto|reflexivity]|].
  destruct (beqb k k0) eqn:E; cbn [fst snd].
  - apply beqb_eq in E. subst k0. split; [|reflexivity]. intros [kx vx]. cbn [fst]. split.
    + intros Hin. split; [right; exact Hin|]. intros ->. pose proof (ksorted_head _ _ _ Hs _ _ Hin) as C. rewrite bltb_irrefl in C. discriminate.
    + intros [[H|H] Hne]; [injection H as <- <-; contradiction|exact H].
  - apply beqb_false in E. destruct (IH (ksorted_tail _ _ Hs)) as [I1 I2]. destruct (kremove k m) as [r b]. cbn [fst snd] in *.
    split; [|exact I2]. intros x. cbn [In]. rewrite I1. split.
    + intros [<-|[H Hne]]; [split; [left; reflexivity|cbn [fst]; congruence]|split; [right; exact H|exact Hne]].
    + intros [[<-|H] Hne]; [left; reflexivity|right; split; assumption].
Qed.

(* exact membership in kinsert on a sorted map: the new pair, plus every old pair with another key *)
Lemma kinsert_In_iff k v m x : ksorted m = true -> (In x (kinsert k v m) <-> x = (k, v) \/ (In x m /\ fst x <> k)).
Proof.
  induction m as [|[k0 v0] m IH]; intros Hs; cbn [kinsert In].
  - split; [intros [H|[]]; left; auto|intros [H|[[] _]]; left; auto].
  - destruct (bcmp k k0) eqn:B.
    + apply bcmp_eq in B. subst k0. cbn [In]. split.
      * intros [H|H]; [left; auto|]. right. split; [right; exact H|].
        destruct x as [kx vx]. cbn [fst]. intros ->. pose proof (ksorted_head _ _ _ Hs _ _ H) as C. rewrite bltb_irrefl in C. discriminate.
      * intros [H|[[H|H] Hne]]; [left; auto|subst x; cbn [fst] in Hne; contradiction|right; exact H].
    + cbn [In]. split.
      * intros [H|[H|H]]; [left; auto| |].
        -- right. subst x. split; [left; reflexivity|]. cbn [fst]. intros ->. apply bcmp_Lt_bltb in B. rewrite bltb_irrefl in B. discriminate.
        -- right. split; [right; exact H|]. destruct x as [kx vx]. cbn [fst]. intros ->.
           pose proof (ksorted_head _ _ _ Hs _ _ H) as C. apply bcmp_Lt_bltb in B.
           pose proof (bltb_trans _ _ _ B C) as D. rewrite bltb_irrefl in D. discriminate.
      * intros [H|[[H|H] Hne]]; [left; auto|right; left; exact H|right; right; exact H].
    + cbn [In]. rewrite (IH (ksorted_tail _ _ Hs)). split.
      * intros [H|[H|[H Hne]]]; [|left; exact H|right; split; [right; exact H|exact Hne]].
        right. subst x. split; [left; reflexivity|]. cbn [fst]. intros ->. apply bcmp_Gt_bltb in B. rewrite bltb_irrefl in B. discriminate.
      * intros [H|[[H|H] Hne]]; [right; left; exact H|left; exact H|right; right; split; assumption].
Qed.

(* the three map refinements *)
Lemma kv_sort_map_put k v m : kuniq m -> kv_sort (map_put k v m) = kinsert k v (kv_sort m).
Proof.
  intros Hu. pose proof (kv_sort_ksorted m Hu) as Hs.
  apply ksorted_unique; [apply kv_sort_ksorted, map_put_kuniq; exact Hu|apply ksorted_kinsert; exact Hs|].
  intros x. rewrite kv_sort_In, (kinsert_In_iff k v _ x Hs). unfold map_put. cbn [In]. rewrite filter_keys_sub, kv_sort_In.
  split; (intros [H|H]; [left; auto|right; exact H]).
Qed.
Lemma kv_sort_map_del k m : kuniq m ->
  kv_sort (map_del k m) = fst (kremove k (kv_sort m))
  /\ snd (kremove k (kv_sort m)) = match map_get k m with Some _ => true | None => false end.
Proof.
  intros Hu. pose proof (kv_sort_ksorted m Hu) as Hs. destruct (kremove_spec k _ Hs) as [R1 R2]. split.
  - apply ksorted_unique; [apply kv_sort_ksorted, map_del_kuniq; exact Hu|apply ksorted_kremove; exact Hs|].
    intros x. rewrite kv_sort_In, R1, kv_sort_In. unfold map_del. apply filter_keys_sub.
  - rewrite R2, (kfind_kv_sort k m Hu). reflexivity.
Qed.
