(* LayoutData.v — finite facts about the direction tables and the CLDR layout files (vm_compute) *)
From UL Require Import Bytes Subtags LangId Likely Inst LayoutSpec TablesData.
From UL Require Import Layout CldrLayout.
From Coq Require Import String.
Open Scope N_scope.

Definition the_lay : list (langid * dir) :=
  match lay_entries cldr_layout with Some l => l | None => [] end.

Definition nset_eqb (a b : list N) : bool := forallb (fun x => nmem x b) a && forallb (fun x => nmem x a) b.

Definition small_str (n : nat) (s : bytes) : bool :=
  (List.length s <=? n)%nat && forallb (fun b => (1 <=? b) && (b <=? 255)) s.

Definition layout_parses : bool :=
  match lay_entries cldr_layout with Some l => (List.length l =? List.length cldr_layout)%nat | None => false end.

Definition layout_tables_ok : bool :=
  nset_eqb (ly_ltr the_layout) (map le_pack (scripts_with LTR the_lay))
  && nset_eqb (ly_rtl the_layout) (map le_pack (scripts_with RTL the_lay))
  && nset_eqb (ly_ttb the_layout) (map le_pack (scripts_with TTB the_lay))
  && nset_eqb (ly_lang_rtl the_layout) (map le_pack (langs_with RTL the_lay))
  && forallb (small_str 4) (scripts_with LTR the_lay ++ scripts_with RTL the_lay ++ scripts_with TTB the_lay)
  && forallb (small_str 8) (langs_with RTL the_lay)
  && (nlen (ly_ltr the_layout) =? scripts_character_direction_ltr_declared_len)
  && (nlen (ly_rtl the_layout) =? scripts_character_direction_rtl_declared_len)
  && (nlen (ly_ttb the_layout) =? scripts_character_direction_ttb_declared_len)
  && (nlen (ly_lang_rtl the_layout) =? langs_character_direction_rtl_declared_len).

(* no duplicates in the compiled tables ("exactly the scripts ...") *)
Fixpoint nnodup (l : list N) : bool :=
  match l with [] => true | x :: r => negb (nmem x r) && nnodup r end.
Definition layout_nodup : bool :=
  nnodup (ly_ltr the_layout) && nnodup (ly_rtl the_layout) && nnodup (ly_ttb the_layout)
  && nnodup (ly_lang_rtl the_layout)
  && forallb (fun x => negb (nmem x (ly_rtl the_layout)) && negb (nmem x (ly_ttb the_layout))) (ly_ltr the_layout)
  && forallb (fun x => negb (nmem x (ly_ttb the_layout))) (ly_rtl the_layout).

(* every CLDR script has a single direction *)
Definition scripts_single_dir : bool :=
  forallb (fun s => negb (memb s (scripts_with RTL the_lay)) && negb (memb s (scripts_with TTB the_lay))) (scripts_with LTR the_lay)
  && forallb (fun s => negb (memb s (scripts_with TTB the_lay))) (scripts_with RTL the_lay).

Definition res_dir_is (r : res dir) (d : dir) : bool :=
  match r with Ok d' => dir_eqb d d' | _ => false end.

(* with likely-subtags: the library equals CLDR on every locale of the layout data *)
Definition all_locales_likely : bool :=
  forallb (fun e => match e with (x, d) => res_dir_is (direction true the_layout the_tables x) d end) the_lay.
(* without: differences only for script-less identifiers of multi-direction languages *)
Definition all_locales_unlikely : bool :=
  forallb (fun e => match e with (x, d) =>
     res_dir_is (direction false the_layout the_tables x) d
     || (is_none (li_script x) && match li_lang x with Some l => spec_lang_multi the_lay l | None => false end) end) the_lay.

Lemma lay_ltr_eq : nset_eqb (ly_ltr the_layout) (map le_pack (scripts_with LTR the_lay)) = true.
Proof. vm_cast_no_check (eq_refl true). Qed.
Lemma lay_rtl_eq : nset_eqb (ly_rtl the_layout) (map le_pack (scripts_with RTL the_lay)) = true.
Proof. vm_cast_no_check (eq_refl true). Qed.
Lemma lay_ttb_eq : nset_eqb (ly_ttb the_layout) (map le_pack (scripts_with TTB the_lay)) = true.
Proof. vm_cast_no_check (eq_refl true). Qed.
Lemma lay_lang_rtl_eq : nset_eqb (ly_lang_rtl the_layout) (map le_pack (langs_with RTL the_lay)) = true.
Proof. vm_cast_no_check (eq_refl true). Qed.
Lemma lay_small_ltr : forallb (small_str 4) (scripts_with LTR the_lay) = true.
Proof. vm_cast_no_check (eq_refl true). Qed.
Lemma lay_small_rtl : forallb (small_str 4) (scripts_with RTL the_lay) = true.
Proof. vm_cast_no_check (eq_refl true). Qed.
Lemma lay_small_ttb : forallb (small_str 4) (scripts_with TTB the_lay) = true.
Proof. vm_cast_no_check (eq_refl true). Qed.
Lemma lay_small_langs : forallb (small_str 8) (langs_with RTL the_lay) = true.
Proof. vm_cast_no_check (eq_refl true). Qed.
Lemma lay_parses : layout_parses = true.
Proof. vm_cast_no_check (eq_refl true). Qed.
Lemma lay_tables_ok : layout_tables_ok = true.
Proof. vm_cast_no_check (eq_refl true). Qed.
Lemma lay_nodup : layout_nodup = true.
Proof. vm_cast_no_check (eq_refl true). Qed.
Lemma lay_single_dir : scripts_single_dir = true.
Proof. vm_cast_no_check (eq_refl true). Qed.
Lemma lay_all_likely : all_locales_likely = true.
Proof. vm_cast_no_check (eq_refl true). Qed.
Lemma lay_all_unlikely : all_locales_unlikely = true.
Proof. vm_cast_no_check (eq_refl true). Qed.
