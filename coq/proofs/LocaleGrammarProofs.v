(* LocaleGrammarProofs.v — adequacy of the executable three-zone specification of C03 with respect to the
   relational grammar spec/LocaleGrammar.v: every well-formed locale identifier (as the EBNF relation
   defines it) lies in the MustAccept zone with the value the relation assigns, hence is accepted by the
   parser with exactly that value, whatever the letter case and whichever of '-' / '_' separates the subtags. *)
From UL Require Import Bytes Subtags LangId Ext Grammar LangIdSpec LocaleInv AbstractLocale LocaleSpec LocaleGrammar
                       BytesProofs SplitProofs LangIdProofs CanonProofs ExtProofs RoundTrip LocaleSpecProofs StringLevel PrefixProofs.
From Coq Require Import Lia ZifyBool ZifyN.
Open Scope N_scope.
Arguments N.eqb : simpl never.
Arguments N.leb : simpl never.

Lemma WFLangIdT_iff toks v : WFLangIdT toks v <-> WFLangIdToks toks v.
Proof.
  split; intros [l sc rg vs H1 H2 H3 H4]; constructor; assumption.
Qed.

(* ---------------------------------------------------------------- key/value groups *)
Section KW.
Variables kt vt : bytes -> bool.
Hypothesis disjoint : forall t, vt t = true -> kt t = false.

Definition grp_ok (g : group) : bool := kt (fst g) && forallb vt (snd g).

Lemma kw_spec_vals vs : forall k acc R, forallb vt vs = true ->
  kw_spec kt vt (vs ++ R) (Some (k, acc)) = kw_spec kt vt R (Some (k, rev (map lower vs) ++ acc)).
Proof.
  induction vs as [|t vs IH]; intros k acc R H; [reflexivity|]. cbn [forallb] in H. apply andb_true_iff in H as [Ht Hr].
  cbn [app kw_spec]. rewrite (disjoint _ Ht), Ht. rewrite (IH k (lower t :: acc) R Hr).
  cbn [map rev]. rewrite <- app_assoc. reflexivity.
Qed.

Lemma kw_spec_groups gs : forall cur, forallb grp_ok gs = true ->
  kw_spec kt vt (flat_map group_tokens gs) cur =
  Some ((match cur with Some (k, vs) => [(k, drop_true (rev vs))] | None => [] end) ++ map norm_group gs, []).
Proof.
  induction gs as [|[k vs] gs IH]; intros cur H.
  - cbn [flat_map kw_spec map]. rewrite app_nil_r. reflexivity.
  - cbn [forallb] in H. apply andb_true_iff in H as [Hg Hr]. unfold grp_ok in Hg. cbn [fst snd] in Hg.
    apply andb_true_iff in Hg as [Hk Hv].
    cbn [flat_map group_tokens fst snd app kw_spec]. rewrite Hk.
    rewrite (kw_spec_vals vs (lower k) [] _ Hv), (IH _ Hr). rewrite app_nil_r, rev_involutive.
    cbn [map norm_group fst snd]. reflexivity.
Qed.
End KW.

Lemma keys_nodup_of_NoDup (m : list (bytes * list bytes)) : NoDup (map fst m) -> keys_nodup m = true.
Proof.
  induction m as [|[k v] r IH]; [reflexivity|]. cbn [map fst keys_nodup]. intros H. apply NoDup_cons_iff in H as [Hn Hr].
  rewrite (IH Hr), andb_true_r. destruct (existsb (fun kv => beqb k (fst kv)) r) eqn:E; [|reflexivity].
  apply existsb_exists in E as (x & Hx & Hb). apply beqb_eq in Hb. exfalso. apply Hn. rewrite Hb. apply in_map. exact Hx.
Qed.
Lemma keys_norm gs : map fst (map norm_group gs) = group_keys gs.
Proof. unfold group_keys. rewrite map_map. reflexivity. Qed.

(* ---------------------------------------------------------------- lengths: no one-character token inside a body *)
Lemma attr_not_single t : attr_tok t = true -> is_single t = false.
Proof. unfold attr_tok, len_in, is_single. lia. Qed.
Lemma ukey_not_single t : ukey_tok t = true -> is_single t = false.
Proof. destruct t as [|a [|b [|c r]]]; cbn; intros; try discriminate; reflexivity. Qed.
Lemma tkey_not_single t : tkey_tok t = true -> is_single t = false.
Proof. destruct t as [|a [|b [|c r]]]; cbn; intros; try discriminate; reflexivity. Qed.
Lemma no_single_app a b : no_single (a ++ b) = no_single a && no_single b.
Proof. apply forallb_app. Qed.
Lemma no_single_forall (p : bytes -> bool) l : (forall t, p t = true -> is_single t = false) -> forallb p l = true -> no_single l = true.
Proof.
  intros Hp H. unfold no_single. revert H. apply forallb_imp. intros t Ht. rewrite (Hp _ Ht). reflexivity.
Qed.
Lemma no_single_groups (kt vt : bytes -> bool) gs :
  (forall t, kt t = true -> is_single t = false) -> (forall t, vt t = true -> is_single t = false) ->
  forallb (grp_ok kt vt) gs = true -> no_single (flat_map group_tokens gs) = true.
Proof.
  intros Hk Hv. induction gs as [|[k vs] gs IH]; [reflexivity|]. cbn [forallb flat_map group_tokens fst snd]. intros H.
  apply andb_true_iff in H as [Hg Hr]. unfold grp_ok in Hg. cbn [fst snd] in Hg. apply andb_true_iff in Hg as [H1 H2].
  change (no_single ((k :: vs) ++ flat_map group_tokens gs) = true).
  rewrite no_single_app, (IH Hr), andb_true_r. unfold no_single. cbn [forallb]. rewrite (Hk _ H1). cbn [negb andb].
  exact (no_single_forall vt vs Hv H2).
Qed.

Lemma ukw_grp g : ukeyword_ok g = grp_ok ukey_tok utype_tok g.
Proof. reflexivity. Qed.
Lemma tfield_grp gs : forallb tfield_ok gs = true ->
  forallb (grp_ok tkey_tok tvalue_tok) gs = true /\ forallb (fun g => negb (nil_b (snd g))) gs = true.
Proof.
  induction gs as [|g gs IH]; [auto|]. cbn [forallb]. intros H. apply andb_true_iff in H as [Hg Hr].
  destruct (IH Hr) as [-> ->]. unfold tfield_ok in Hg. apply andb_true_iff in Hg as [Hg Hn]. unfold grp_ok. rewrite Hg.
  unfold nil_b. rewrite Hn. auto.
Qed.

Lemma utype_not_key t : utype_tok t = true -> ukey_tok t = false.
Proof. unfold utype_tok, len_in. destruct t as [|a [|b [|c r]]]; cbn [ukey_tok length]; intros; try reflexivity; lia. Qed.
Lemma tvalue_not_key t : tvalue_tok t = true -> tkey_tok t = false.
Proof. unfold tvalue_tok, len_in. destruct t as [|a [|b [|c r]]]; cbn [tkey_tok length]; intros; try reflexivity; lia. Qed.
Lemma utype_not_single t : utype_tok t = true -> is_single t = false.
Proof. unfold utype_tok, len_in, is_single. lia. Qed.
Lemma tvalue_not_single t : tvalue_tok t = true -> is_single t = false.
Proof. unfold tvalue_tok, len_in, is_single. lia. Qed.

(* ---------------------------------------------------------------- the three bodies *)
Lemma nil_b_app_false {A} (a b : list A) : (a <> [] \/ b <> []) -> nil_b (a ++ b) = false.
Proof. destruct a; [destruct b; [intros [H|H]; congruence|reflexivity]|reflexivity]. Qed.

Lemma flat_groups_nonempty (gs : list group) : gs <> [] -> flat_map group_tokens gs <> [].
Proof. destruct gs as [|[k v] r]; [congruence|]. cbn [flat_map group_tokens fst app]. congruence. Qed.

Theorem WFU_spec body u : WFU body u -> u_body_spec body = Some (u, mkSeg true true) /\ no_single body = true.
Proof.
  intros [attrs kws Ha Hk Hne Hnd]. set (F := flat_map group_tokens kws).
  assert (Hk' : forallb (grp_ok ukey_tok utype_tok) kws = true) by exact Hk.
  assert (HF : match F with [] => True | t :: _ => attr_tok t = false end).
  { subst F. destruct kws as [|[k vs] kws]; [exact I|]. cbn [flat_map group_tokens fst app]. cbn [forallb] in Hk.
    apply andb_true_iff in Hk as [Hg _]. unfold ukeyword_ok in Hg. cbn [fst] in Hg. apply andb_true_iff in Hg as [Hg _].
    unfold attr_tok, len_in. destruct k as [|a [|b [|c r]]]; cbn in Hg; try discriminate. cbn [length]. lia. }
  split.
  - unfold u_body_spec. destruct (take_while_app_stop attr_tok attrs F Ha HF) as [-> ->].
    subst F. rewrite (kw_spec_groups ukey_tok utype_tok utype_not_key kws None Hk'). cbn [app forallb].
    rewrite (nil_b_app_false attrs (flat_map group_tokens kws)) by (destruct Hne as [H|H]; [left; exact H|right; apply flat_groups_nonempty; exact H]).
    rewrite (keys_nodup_of_NoDup _ ltac:(rewrite keys_norm; exact Hnd)). reflexivity.
  - rewrite no_single_app, (no_single_forall attr_tok attrs attr_not_single Ha).
    apply (no_single_groups ukey_tok utype_tok kws ukey_not_single utype_not_single Hk').
Qed.

(* the strictness test "every tkey is followed by a value", as a named fixpoint *)
Fixpoint ahv_go (kt : bytes -> bool) (l : list bytes) : bool :=
  match l with
  | [] => true
  | t :: r => if kt t then match r with v :: _ => negb (kt v) && ahv_go kt r | [] => false end else ahv_go kt r
  end.
Lemma all_have_values_go toks kt : all_have_values toks kt = ahv_go kt toks.
Proof. unfold all_have_values. induction toks as [|t r IH]; [reflexivity|]. cbn [ahv_go]. rewrite <- IH. reflexivity. Qed.

Lemma ahv_vals kt vt vs R : (forall t, vt t = true -> kt t = false) -> forallb vt vs = true -> ahv_go kt (vs ++ R) = ahv_go kt R.
Proof.
  intros D. induction vs as [|v vs IH]; [reflexivity|]. cbn [forallb app ahv_go]. intros H. apply andb_true_iff in H as [Hv Hr].
  rewrite (D _ Hv). exact (IH Hr).
Qed.
Lemma ahv_groups kt vt gs : (forall t, vt t = true -> kt t = false) ->
  forallb (grp_ok kt vt) gs = true -> forallb (fun g => negb (nil_b (snd g))) gs = true ->
  ahv_go kt (flat_map group_tokens gs) = true.
Proof.
  intros D. induction gs as [|[k vs] gs IH]; [reflexivity|]. cbn [forallb flat_map group_tokens fst snd app]. intros H Hn.
  apply andb_true_iff in H as [Hg Hr]. apply andb_true_iff in Hn as [Hn1 Hn2]. unfold grp_ok in Hg. cbn [fst snd] in Hg.
  apply andb_true_iff in Hg as [Hk Hv]. cbn [ahv_go]. rewrite Hk.
  destruct vs as [|v vs]; [discriminate|]. cbn [app]. cbn [forallb] in Hv. apply andb_true_iff in Hv as [Hv1 Hv2].
  rewrite (D _ Hv1). cbn [negb andb]. change (ahv_go kt ((v :: vs) ++ flat_map group_tokens gs) = true).
  rewrite (ahv_vals kt vt (v :: vs) _ D) by (cbn [forallb]; rewrite Hv1, Hv2; reflexivity). exact (IH Hr Hn2).
Qed.

Lemma spec_langid_as_prefix toks v : spec_langid toks = Some v -> spec_langid_prefix toks = Some (v, []).
Proof.
  unfold spec_langid. destruct toks as [|t r]; [discriminate|]. destruct (spec_langid_prefix (t :: r)) as [[v' [|x rem]]|]; try discriminate.
  intros H. injection H as <-. reflexivity.
Qed.

Lemma groups_head_stop gs : forallb (grp_ok tkey_tok tvalue_tok) gs = true -> li_stop (flat_map group_tokens gs).
Proof.
  destruct gs as [|[k vs] gs]; [intros _; exact I|]. cbn [forallb flat_map group_tokens fst app li_stop]. intros H.
  apply andb_true_iff in H as [Hg _]. unfold grp_ok in Hg. cbn [fst] in Hg. apply andb_true_iff in Hg as [Hk _].
  destruct k as [|a [|b [|c r]]]; cbn [tkey_tok] in Hk; try discriminate. apply andb_true_iff in Hk as [Ha Hb].
  unfold script_tok, region_tok, variant_tok, len_in. cbn [length forallb]. rewrite (alpha_not_digit _ Ha).
  assert (is_alpha b = false) as -> by (unfold is_alpha, is_upper, is_lower, is_digit, in_range in *; lia).
  repeat split; cbn; rewrite ?andb_false_r; reflexivity.
Qed.

Lemma WFLangIdT_shape tl v : WFLangIdT tl v -> spec_langid tl = Some v /\ forallb li_shape tl = true /\ tl <> []
  /\ exists l r, tl = l :: r /\ lang_tok l = true.
Proof.
  intros W. pose proof (proj1 (WFLangIdT_iff _ _) W) as W'. split; [apply spec_langid_iff; exact W'|].
  destruct W as [l sc rg vs H1 H2 H3 H4]. split; [|split; [congruence|eauto]].
  cbn [forallb]. unfold li_shape at 1. rewrite H1. cbn [orb andb]. rewrite !forallb_app.
  apply andb_true_iff; split; [|apply andb_true_iff; split].
  - destruct sc as [s|]; cbn [opt_tok forallb]; [|reflexivity]. cbv beta iota in H2. unfold li_shape. rewrite H2, !orb_true_r. reflexivity.
  - destruct rg as [s|]; cbn [opt_tok forallb]; [|reflexivity]. cbv beta iota in H3. unfold li_shape. rewrite H3, !orb_true_r. reflexivity.
  - revert H4. apply forallb_imp. intros t Ht. unfold li_shape. rewrite Ht, !orb_true_r. reflexivity.
Qed.

Lemma t_body_spec_pieces body : t_body_spec body =
  match kw_spec tkey_tok tvalue_tok (snd (t_pieces body)) None with
  | Some (fields, rest) =>
    if forallb is_empty_tok rest then
      Some (mkT (fst (t_pieces body)) (kv_sort fields),
            mkSeg (negb (nil_b body) && nil_b rest && all_have_values (snd (t_pieces body)) tkey_tok) (keys_nodup fields))
    else None
  | None => None
  end.
Proof. reflexivity. Qed.

Theorem WFT_spec body t : WFT body t -> t_body_spec body = Some (t, mkSeg true true) /\ no_single body = true.
Proof.
  intros [tl v fields W Hf Hnd|fields Hne Hf Hnd]; destruct (tfield_grp _ Hf) as [Hg Hnn];
    pose proof (kw_spec_groups tkey_tok tvalue_tok tvalue_not_key fields None Hg) as KW; cbn [app] in KW.
  - destruct (WFLangIdT_shape _ _ W) as (Sp & Sh & Tne & l & r & -> & Hl).
    assert (Pre : spec_langid_prefix ((l :: r) ++ flat_map group_tokens fields) = Some (v, flat_map group_tokens fields)).
    { rewrite (spec_langid_prefix_app (l :: r) _ (groups_head_stop _ Hg) Tne), (spec_langid_as_prefix _ _ Sp). reflexivity. }
    assert (TP : t_pieces ((l :: r) ++ flat_map group_tokens fields) = (Some v, flat_map group_tokens fields)).
    { unfold t_pieces. rewrite Pre. cbn [app]. rewrite Hl. reflexivity. }
    split.
    + rewrite t_body_spec_pieces, TP. cbn [fst snd]. rewrite KW. cbn [forallb nil_b app negb andb].
      rewrite all_have_values_go, (ahv_groups tkey_tok tvalue_tok fields tvalue_not_key Hg Hnn).
      rewrite (keys_nodup_of_NoDup _ ltac:(rewrite keys_norm; exact Hnd)). reflexivity.
    + rewrite no_single_app. rewrite (no_single_forall li_shape (l :: r) li_shape_not_single Sh).
      exact (no_single_groups tkey_tok tvalue_tok fields tkey_not_single tvalue_not_single Hg).
  - split.
    + assert (TP : t_pieces (flat_map group_tokens fields) = (None, flat_map group_tokens fields)).
      { destruct fields as [|[k vs] fields]; [congruence|].
        cbn [forallb] in Hg. apply andb_true_iff in Hg as [Hg1 _]. unfold grp_ok in Hg1. cbn [fst] in Hg1.
        apply andb_true_iff in Hg1 as [Hk _]. destruct (tkey_not_langshape _ Hk) as [_ Hnl].
        cbn [flat_map group_tokens fst snd app t_pieces]. rewrite Hnl. reflexivity. }
      rewrite t_body_spec_pieces, TP. cbn [fst snd]. rewrite KW. cbn [forallb nil_b].
      assert (nil_b (flat_map group_tokens fields) = false) as ->.
      { pose proof (flat_groups_nonempty fields Hne). destruct (flat_map group_tokens fields); [congruence|reflexivity]. }
      cbn [negb andb].
      rewrite all_have_values_go, (ahv_groups tkey_tok tvalue_tok _ tvalue_not_key Hg Hnn).
      rewrite (keys_nodup_of_NoDup _ ltac:(rewrite keys_norm; exact Hnd)). reflexivity.
    + exact (no_single_groups tkey_tok tvalue_tok fields tkey_not_single tvalue_not_single Hg).
Qed.

(* ---------------------------------------------------------------- segments of  body ++ next-extension *)
Definition tailsegs (R : list bytes) : list (bytes * list bytes) :=
  match R with [] => [] | s :: r => if single_is 120 s then [(s, r)] else segments s [] r end.

Lemma proc_from_tailsegs R a : proc_from R a = process (tailsegs R) a.
Proof. destruct R as [|s r]; [reflexivity|]. cbn [proc_from tailsegs]. destruct (single_is 120 s); reflexivity. Qed.

Lemma split_single_ns pre R : no_single pre = true -> ext_stop R ->
  split_single (pre ++ R) = (pre, match R with [] => None | t :: r => Some (t, r) end).
Proof.
  intros Hp HR. induction pre as [|t pre IH]; cbn [app].
  - destruct R as [|s r]; [reflexivity|]. cbn [split_single]. cbn [ext_stop] in HR. unfold is_single. rewrite HR. reflexivity.
  - unfold no_single in Hp. cbn [forallb] in Hp. apply andb_true_iff in Hp as [Ht Hr]. cbn [split_single].
    destruct (is_single t); [discriminate|]. rewrite (IH Hr). reflexivity.
Qed.

Lemma segments_body s body R : no_single body = true -> ext_stop R ->
  segments s [] (body ++ R) = (s, body) :: tailsegs R.
Proof.
  intros Hb HR. rewrite segments_split, (split_single_ns body R Hb HR). cbn [rev app].
  destruct R as [|t r]; [reflexivity|]. cbn [tailsegs]. destruct (single_is 120 t); reflexivity.
Qed.

Lemma single_is_single c t : single_is c t = true -> is_single t = true.
Proof. destruct t as [|b [|b' r]]; cbn; intros; try discriminate; reflexivity. Qed.
Lemma single_is_other c c' t : single_is c t = true -> c <> c' -> single_is c' t = false.
Proof. destruct t as [|b [|b' r]]; cbn [single_is]; intros H N; try discriminate. lia. Qed.
Lemma single_ext_stop c t r : single_is c t = true -> ext_stop (t :: r).
Proof. intros H. apply single_is_single in H. unfold is_single in H. cbn [ext_stop]. lia. Qed.

(* ---------------------------------------------------------------- one step of `process` per extension *)
Lemma process_u su ub u rest a : single_is 117 su = true -> WFU ub u -> ac_u a = None ->
  process ((su, ub) :: rest) a = process rest (mkAcc (Some u) (ac_t a) (ac_x a) (ac_strict a && true) (ac_nodup a && true)).
Proof. intros Hs W Ha. cbn [process]. rewrite Hs, Ha, (proj1 (WFU_spec _ _ W)). reflexivity. Qed.
Lemma process_t st tb t rest a : single_is 116 st = true -> WFT tb t -> ac_t a = None ->
  process ((st, tb) :: rest) a = process rest (mkAcc (ac_u a) (Some t) (ac_x a) (ac_strict a && true) (ac_nodup a && true)).
Proof.
  intros Hs W Ha. cbn [process]. rewrite (single_is_other 116 117 st Hs ltac:(lia)), Hs, Ha, (proj1 (WFT_spec _ _ W)). reflexivity.
Qed.

(* the trailing private-use part, from any accumulator that has not seen -x- yet *)
Lemma process_x px x a : WFX px x -> ac_x a = None ->
  exists a', process (tailsegs px) a = Some a' /\ ac_u a' = ac_u a /\ ac_t a' = ac_t a /\ or_default (ac_x a') [] = x
             /\ ac_strict a' = ac_strict a /\ ac_nodup a' = ac_nodup a.
Proof.
  intros [|sx tags Hs Hne Hp] Ha.
  - exists a. cbn [tailsegs process]. rewrite Ha. repeat split; reflexivity.
  - cbn [tailsegs]. rewrite Hs. cbn [process].
    rewrite (single_is_other 120 117 sx Hs ltac:(lia)), (single_is_other 120 116 sx Hs ltac:(lia)), Hs, Ha.
    unfold x_body_spec. rewrite Hp. destruct tags as [|t0 tags']; [congruence|]. cbn [nil_b negb].
    eexists. split; [reflexivity|]. cbn [ac_u ac_t ac_x ac_strict ac_nodup or_default]. rewrite !andb_true_r. repeat split; reflexivity.
Qed.

Lemma WFX_stop px x : WFX px x -> ext_stop px.
Proof. intros [|sx tags Hs _ _]; [exact I|exact (single_ext_stop _ _ _ Hs)]. Qed.

(* the -u- / -t- part followed by the private-use part *)
Lemma process_ut ut u t px x : WFUT ut u t -> WFX px x ->
  exists a', process (tailsegs (ut ++ px)) (mkAcc None None None true true) = Some a'
             /\ acc_val a' = mkE u t x /\ ac_strict a' = true /\ ac_nodup a' = true.
Proof.
  intros Wut Wx. pose proof (WFX_stop _ _ Wx) as Sx.
  assert (FIN : forall a, ac_x a = None -> ac_strict a = true -> ac_nodup a = true ->
                or_default (ac_u a) uext_default = u -> or_default (ac_t a) text_default = t ->
                exists a', process (tailsegs px) a = Some a' /\ acc_val a' = mkE u t x /\ ac_strict a' = true /\ ac_nodup a' = true).
  { intros a Hx Hs Hn Hu Ht. destruct (process_x px x a Wx Hx) as (a' & P & Eu & Et & Ex & Es & En).
    exists a'. split; [exact P|]. unfold acc_val. rewrite Eu, Et, Ex, Hu, Ht, Es, En. auto. }
  destruct Wut as [|su ub u Hsu Wu|st tb t Hst Wt|su ub u st tb t Hsu Wu Hst Wt|su ub u st tb t Hsu Wu Hst Wt].
  - cbn [app]. apply FIN; reflexivity.
  - cbn [app tailsegs]. rewrite (single_is_other 117 120 su Hsu ltac:(lia)).
    rewrite (segments_body su ub px (proj2 (WFU_spec _ _ Wu)) Sx). rewrite (process_u su ub u) by (assumption || reflexivity).
    apply FIN; reflexivity.
  - cbn [app tailsegs]. rewrite (single_is_other 116 120 st Hst ltac:(lia)).
    rewrite (segments_body st tb px (proj2 (WFT_spec _ _ Wt)) Sx). rewrite (process_t st tb t) by (assumption || reflexivity).
    apply FIN; reflexivity.
  - cbn [app tailsegs]. rewrite (single_is_other 117 120 su Hsu ltac:(lia)). rewrite <- app_assoc. cbn [app].
    rewrite (segments_body su ub (st :: tb ++ px) (proj2 (WFU_spec _ _ Wu)) (single_ext_stop _ _ _ Hst)).
    rewrite (process_u su ub u) by (assumption || reflexivity). cbn [tailsegs]. rewrite (single_is_other 116 120 st Hst ltac:(lia)).
    rewrite (segments_body st tb px (proj2 (WFT_spec _ _ Wt)) Sx). rewrite (process_t st tb t) by (assumption || reflexivity).
    apply FIN; reflexivity.
  - cbn [app tailsegs]. rewrite (single_is_other 116 120 st Hst ltac:(lia)). rewrite <- app_assoc. cbn [app].
    rewrite (segments_body st tb (su :: ub ++ px) (proj2 (WFT_spec _ _ Wt)) (single_ext_stop _ _ _ Hsu)).
    rewrite (process_t st tb t) by (assumption || reflexivity). cbn [tailsegs]. rewrite (single_is_other 117 120 su Hsu ltac:(lia)).
    rewrite (segments_body su ub px (proj2 (WFU_spec _ _ Wu)) Sx). rewrite (process_u su ub u) by (assumption || reflexivity).
    apply FIN; reflexivity.
Qed.

Lemma WFUT_stop ut u t R : WFUT ut u t -> ext_stop R -> ext_stop (ut ++ R).
Proof.
  intros [|su ub u' Hsu _|st tb t' Hst _|su ub u' st tb t' Hsu _ _ _|su ub u' st tb t' _ _ Hst _] HR; cbn [app]; try exact HR;
    eapply single_ext_stop; eassumption.
Qed.

(* ---------------------------------------------------------------- adequacy *)
Theorem WFLocale_must_accept toks v : WFLocale toks v -> spec_locale_zone toks = MustAccept v.
Proof.
  intros [idt id ut u t px x Wid Wut Wx].
  destruct (WFLangIdT_shape _ _ Wid) as (Sp & Sh & Ine & _).
  set (R := ut ++ px). assert (HR : ext_stop R) by (apply (WFUT_stop _ _ _ _ Wut), (WFX_stop _ _ Wx)).
  assert (Pre : spec_langid_prefix (idt ++ R) = Some (id, R)).
  { rewrite (spec_langid_prefix_app idt R (single_li_stop _ HR) Ine), (spec_langid_as_prefix _ _ Sp). reflexivity. }
  assert (Ne : idt ++ R <> []) by (destruct idt; [congruence|discriminate]).
  rewrite (zone_shape _ _ _ Ne Pre).
  rewrite <- (app_nil_l R) at 1. rewrite (split_single_ns [] R eq_refl HR). cbn [forallb nil_b].
  assert (E : match (match R with [] => None | t0 :: r => Some (t0, r) end) with None => [] | Some (t0, r') => t0 :: r' end = R)
    by (destruct R; reflexivity).
  rewrite E, proc_from_tailsegs. subst R.
  destruct (process_ut ut u t px x Wut Wx) as (a' & -> & Va & Sa & Na). rewrite Na, Sa, Va. reflexivity.
Qed.

(* ---------------------------------------------------------------- on byte strings *)
Definition alnum_tok (t : bytes) : bool := forallb is_alnum t.
Lemma single_alnum c t : single_is c t = true -> is_alnum c = true -> alnum_tok t = true.
Proof.
  destruct t as [|b [|b' r]]; cbn [single_is]; intros H Hc; try discriminate. unfold alnum_tok. cbn [forallb]. rewrite andb_true_r.
  unfold to_lower, is_alnum, is_alpha, is_upper, is_lower, is_digit, in_range in *. destruct ((65 <=? b) && (b <=? 90)) eqn:U; lia.
Qed.
Lemma li_shape_alnum t : li_shape t = true -> alnum_tok t = true.
Proof.
  unfold li_shape, alnum_tok. intros H. apply orb_true_iff in H as [H|H]; [|apply variant_tok_alnum; exact H].
  apply orb_true_iff in H as [H|H]; [|apply region_tok_alnum; exact H].
  apply orb_true_iff in H as [H|H]; [apply lang_tok_alnum|apply script_tok_alnum]; exact H.
Qed.
Lemma ukey_alnum t : ukey_tok t = true -> alnum_tok t = true.
Proof.
  destruct t as [|a [|b [|c r]]]; cbn [ukey_tok]; intros H; try discriminate. apply andb_true_iff in H as [Ha Hb].
  unfold alnum_tok. cbn [forallb]. rewrite Ha, (is_alpha_alnum _ Hb). reflexivity.
Qed.
Lemma tkey_alnum t : tkey_tok t = true -> alnum_tok t = true.
Proof.
  destruct t as [|a [|b [|c r]]]; cbn [tkey_tok]; intros H; try discriminate. apply andb_true_iff in H as [Ha Hb].
  unfold alnum_tok. cbn [forallb]. rewrite (is_alpha_alnum _ Ha), (is_digit_alnum _ Hb). reflexivity.
Qed.
Lemma len_alnum lo hi t : forallb is_alnum t && len_in lo hi t = true -> alnum_tok t = true.
Proof. intros H. apply andb_true_iff in H as [H _]. exact H. Qed.
Lemma groups_alnum (kt vt : bytes -> bool) gs :
  (forall t, kt t = true -> alnum_tok t = true) -> (forall t, vt t = true -> alnum_tok t = true) ->
  forallb (grp_ok kt vt) gs = true -> forallb alnum_tok (flat_map group_tokens gs) = true.
Proof.
  intros Hk Hv. induction gs as [|[k vs] gs IH]; [reflexivity|]. cbn [forallb flat_map group_tokens fst snd]. intros H.
  apply andb_true_iff in H as [Hg Hr]. unfold grp_ok in Hg. cbn [fst snd] in Hg. apply andb_true_iff in Hg as [H1 H2].
  change (forallb alnum_tok ((k :: vs) ++ flat_map group_tokens gs) = true). rewrite forallb_app, (IH Hr), andb_true_r.
  cbn [forallb]. rewrite (Hk _ H1). cbn [andb]. revert H2. apply forallb_imp. exact Hv.
Qed.

Lemma WFU_alnum body u : WFU body u -> forallb alnum_tok body = true.
Proof.
  intros [attrs kws Ha Hk _ _]. rewrite forallb_app. apply andb_true_iff; split.
  - revert Ha. apply forallb_imp. intros t. apply len_alnum.
  - apply (groups_alnum ukey_tok utype_tok kws ukey_alnum (fun t => len_alnum 3 8 t)). exact Hk.
Qed.
Lemma WFT_alnum body t : WFT body t -> forallb alnum_tok body = true.
Proof.
  intros [tl v fields W Hf _|fields _ Hf _]; destruct (tfield_grp _ Hf) as [Hg _].
  - destruct (WFLangIdT_shape _ _ W) as (_ & Sh & _ & _). rewrite forallb_app. apply andb_true_iff; split.
    + revert Sh. apply forallb_imp. apply li_shape_alnum.
    + apply (groups_alnum tkey_tok tvalue_tok fields tkey_alnum (fun t => len_alnum 3 8 t)). exact Hg.
  - apply (groups_alnum tkey_tok tvalue_tok fields tkey_alnum (fun t => len_alnum 3 8 t)). exact Hg.
Qed.
Lemma WFUT_alnum ut u t : WFUT ut u t -> forallb alnum_tok ut = true.
Proof.
  intros [|su ub u' Hsu Wu|st tb t' Hst Wt|su ub u' st tb t' Hsu Wu Hst Wt|su ub u' st tb t' Hsu Wu Hst Wt];
    cbn [forallb]; rewrite ?forallb_app; cbn [forallb];
    rewrite ?(single_alnum 117 _ Hsu eq_refl), ?(single_alnum 116 _ Hst eq_refl), ?(WFU_alnum _ _ Wu), ?(WFT_alnum _ _ Wt); reflexivity.
Qed.
Lemma WFX_alnum px x : WFX px x -> forallb alnum_tok px = true.
Proof.
  intros [|sx tags Hs _ Hp]; [reflexivity|]. cbn [forallb]. rewrite (single_alnum 120 _ Hs eq_refl). cbn [andb].
  revert Hp. apply forallb_imp. intros t. apply len_alnum.
Qed.
Lemma WFLocale_nosep toks v : WFLocale toks v -> forallb nosep toks = true /\ toks <> [].
Proof.
  intros [idt id ut u t px x Wid Wut Wx]. destruct (WFLangIdT_shape _ _ Wid) as (_ & Sh & Ine & _). split.
  - assert (A : forallb alnum_tok (idt ++ ut ++ px) = true).
    { rewrite !forallb_app, (WFUT_alnum _ _ _ Wut), (WFX_alnum _ _ Wx), !andb_true_r. revert Sh. apply forallb_imp. apply li_shape_alnum. }
    revert A. apply forallb_imp. intros t0. apply alnum_nosep.
  - destruct idt; [congruence|discriminate].
Qed.

(* every well-formed locale identifier, in any letter case, with any mixture of '-' and '_' between its
   subtags, is accepted by the parser with exactly the value the grammar assigns *)
Theorem WFLocale_accepted toks seps v : WFLocale toks v -> forallb is_sep seps = true ->
  locale_from_bytes (weave toks seps) = Ok v.
Proof.
  intros W Hs. destruct (WFLocale_nosep _ _ W) as [Hn Hne]. apply locale_complete.
  rewrite (split_weave _ _ Hne Hn Hs). apply WFLocale_must_accept. exact W.
Qed.
