(* StringLevel.v — the token-level theorems restated on BYTE STRINGS with arbitrary separator choices:
   a string is `weave toks seps` (tokens interleaved with separators, each '-' or '_'); `split` inverts
   `weave`, and every string is the weave of its own tokens.  Used by C02 (the EBNF on strings), C17
   (from_parts equals parsing the joined string) and C13 (the part before the first singleton). *)
From UL Require Import Bytes Subtags LangId Grammar LangIdSpec BytesProofs SplitProofs LangIdProofs LangIdAlgebra CanonProofs.
From Coq Require Import Lia ZifyBool ZifyN.
Open Scope N_scope.
Arguments N.eqb : simpl never.
Arguments N.leb : simpl never.

(* toks interleaved with seps; a missing separator defaults to '-' (so `weave toks [] = join toks`) *)
Fixpoint weave (toks : list bytes) (seps : list N) : bytes :=
  match toks with
  | [] => []
  | t :: r =>
    match r with
    | [] => t
    | _ :: _ => match seps with
                | s :: ss => t ++ s :: weave r ss
                | [] => t ++ 45 :: weave r []
                end
    end
  end.

Lemma weave_nil_join toks : weave toks [] = join toks.
Proof.
  induction toks as [|t r IH]; [reflexivity|]. cbn [weave join]. destruct r as [|u r']; [reflexivity|].
  rewrite IH. reflexivity.
Qed.

Lemma split_cons_sep t c r : nosep t = true -> is_sep c = true -> split (t ++ c :: r) = t :: split r.
Proof.
  intros H Hc. unfold split. rewrite (split_aux_app _ _ _ H). cbn [split_aux]. rewrite Hc.
  rewrite app_nil_r, rev_involutive. reflexivity.
Qed.

Theorem split_weave toks seps : toks <> [] -> forallb nosep toks = true -> forallb is_sep seps = true ->
  split (weave toks seps) = toks.
Proof.
  revert seps; induction toks as [|t toks IH]; [congruence|]. intros seps _ H Hs. cbn [forallb] in H.
  apply andb_true_iff in H as [Ht Hr]. cbn [weave]. destruct toks as [|u toks].
  - apply split_nosep; exact Ht.
  - destruct seps as [|c ss].
    + rewrite (split_cons_sep _ 45 _ Ht eq_refl). f_equal. apply IH; [congruence|exact Hr|reflexivity].
    + cbn [forallb] in Hs. apply andb_true_iff in Hs as [Hc Hss].
      rewrite (split_cons_sep _ c _ Ht Hc). f_equal. apply IH; [congruence|exact Hr|exact Hss].
Qed.

(* every byte string is the weave of its own tokens with its own separators *)
Fixpoint seps_of (s : bytes) : list N :=
  match s with [] => [] | b :: r => if is_sep b then b :: seps_of r else seps_of r end.

Lemma seps_of_sep s : forallb is_sep (seps_of s) = true.
Proof. induction s as [|b s IH]; [reflexivity|]. cbn [seps_of]. destruct (is_sep b) eqn:E; [cbn [forallb]; rewrite E, IH|]; auto. Qed.

Lemma weave_split_aux cur s : nosep cur = true ->
  weave (split_aux cur s) (seps_of s) = rev cur ++ s /\ S (length (seps_of s)) = length (split_aux cur s).
Proof.
  revert cur; induction s as [|b s IH]; intros cur Hc; cbn [split_aux seps_of].
  - cbn [weave length]. rewrite app_nil_r. auto.
  - destruct (is_sep b) eqn:E.
    + destruct (IH [] eq_refl) as [IH1 IH2]. cbn [rev app] in IH1.
      assert (N : split_aux [] s <> []) by (apply (split_nonempty s)).
      cbn [weave length]. destruct (split_aux [] s) as [|u r] eqn:F; [congruence|].
      rewrite IH1. split; [reflexivity|]. cbn [length] in *. lia.
    + assert (Hc' : nosep (b :: cur) = true) by (cbn [nosep forallb]; rewrite E; exact Hc).
      destruct (IH (b :: cur) Hc') as [IH1 IH2]. rewrite IH1. cbn [rev]. rewrite <- app_assoc. auto.
Qed.

Theorem weave_split s : weave (split s) (seps_of s) = s /\ S (length (seps_of s)) = length (split s).
Proof. exact (weave_split_aux [] s eq_refl). Qed.

(* ---------- C02 on byte strings: accepted iff the string IS  language (sep script)? (sep region)? (sep variant)*  ---------- *)
Lemma WF_nosep toks v : WFLangIdToks toks v -> forallb nosep toks = true /\ toks <> [].
Proof.
  intros [l sc rg vs Hl Hs Hr Hv]. split; [|congruence]. cbn [forallb]. rewrite (lang_tok_nosep _ Hl). cbn [andb].
  rewrite !forallb_app. apply andb_true_iff; split; [|apply andb_true_iff; split].
  - destruct sc as [s|]; cbn [opt_tok forallb opt_holds] in *; [rewrite (script_tok_nosep _ Hs)|]; reflexivity.
  - destruct rg as [r|]; cbn [opt_tok forallb opt_holds] in *; [rewrite (region_tok_nosep _ Hr)|]; reflexivity.
  - revert Hv. apply forallb_imp. apply variant_tok_nosep.
Qed.

Theorem langid_string_ebnf s v :
  langid_from_bytes s = Ok v <->
  exists toks seps, s = weave toks seps /\ forallb is_sep seps = true /\ S (length seps) = length toks /\ WFLangIdToks toks v.
Proof.
  rewrite langid_from_bytes_spec. split.
  - destruct (spec_langid (split s)) as [v'|] eqn:E; [|discriminate]. intros H. injection H as <-.
    exists (split s), (seps_of s). destruct (weave_split s) as [W L].
    repeat split; [symmetry; exact W|apply seps_of_sep|exact L|apply spec_langid_iff; exact E].
  - intros (toks & seps & -> & Hs & _ & W). destruct (WF_nosep _ _ W) as [Hn Hne].
    rewrite (split_weave _ _ Hne Hn Hs). apply spec_langid_iff in W. rewrite W. reflexivity.
Qed.

(* rejected iff it is not of that form; the error kind is decided by the first token alone *)
Theorem langid_string_reject s :
  (forall v, langid_from_bytes s <> Ok v) ->
  langid_from_bytes s = Err (if lang_tok (hd [] (split s)) then InvalidSubtag else InvalidLanguage).
Proof.
  intros H. rewrite langid_from_bytes_spec in *. destruct (spec_langid (split s)) as [v|] eqn:E.
  - exfalso. apply (H v). reflexivity.
  - unfold spec_langid_err. pose proof (split_nonempty s) as N. destruct (split s) as [|t r]; [congruence|reflexivity].
Qed.

(* ---------- C17: from_parts equals parsing the joined string (any order, duplicates allowed) ---------- *)
Lemma parts_tokens_WF l sc rg vs :
  canon_lang l = true -> opt_all canon_script sc = true -> opt_all canon_region rg = true -> forallb canon_variant vs = true ->
  WFLangIdToks (language_text l :: opt_tok sc ++ opt_tok rg ++ vs) (li_from_parts l sc rg vs).
Proof.
  intros Hl Hs Hr Hv. destruct (lang_text_tok _ Hl) as [Ht Hval]. destruct (map_lower_canon _ Hv) as [Hm Hvt].
  assert (E : li_from_parts l sc rg vs
            = mkLangId (spec_language_value (language_text l)) (option_map title sc) (option_map norm_region rg) (spec_variants vs)).
  { unfold li_from_parts, spec_variants. rewrite Hval, Hm. f_equal.
    - destruct sc as [s|]; [|reflexivity]. cbn [opt_all canon_script option_map] in *. apply andb_true_iff in Hs as [_ Hs].
      apply beqb_eq in Hs. rewrite Hs. reflexivity.
    - destruct rg as [r|]; [|reflexivity]. cbn [opt_all canon_region option_map] in *. apply andb_true_iff in Hr as [_ Hr].
      apply beqb_eq in Hr. rewrite Hr. reflexivity. }
  rewrite E. constructor; [exact Ht| | |exact Hvt].
  - destruct sc as [s|]; [|exact I]. cbn [opt_all canon_script opt_holds] in *. apply andb_true_iff in Hs as [Hs _]. exact Hs.
  - destruct rg as [r|]; [|exact I]. cbn [opt_all canon_region opt_holds] in *. apply andb_true_iff in Hr as [Hr _]. exact Hr.
Qed.

(* joined with any mixture of '-' and '_' (seps = [] gives the plain '-' join) *)
Theorem from_parts_is_parse_any_sep l sc rg vs seps :
  canon_lang l = true -> opt_all canon_script sc = true -> opt_all canon_region rg = true -> forallb canon_variant vs = true ->
  forallb is_sep seps = true ->
  langid_from_bytes (weave (language_text l :: opt_tok sc ++ opt_tok rg ++ vs) seps) = Ok (li_from_parts l sc rg vs).
Proof.
  intros Hl Hs Hr Hv Hseps. pose proof (parts_tokens_WF l sc rg vs Hl Hs Hr Hv) as W.
  destruct (WF_nosep _ _ W) as [Hn Hne]. rewrite langid_from_bytes_spec, (split_weave _ _ Hne Hn Hseps).
  apply spec_langid_iff in W. rewrite W. reflexivity.
Qed.
Theorem from_parts_is_parse l sc rg vs :
  canon_lang l = true -> opt_all canon_script sc = true -> opt_all canon_region rg = true -> forallb canon_variant vs = true ->
  langid_from_bytes (join (language_text l :: opt_tok sc ++ opt_tok rg ++ vs)) = Ok (li_from_parts l sc rg vs).
Proof.
  intros Hl Hs Hr Hv. rewrite <- weave_nil_join. apply from_parts_is_parse_any_sep; auto.
Qed.
