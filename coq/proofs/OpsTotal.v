(* OpsTotal.v — C01 for the getters and setters that take keys, values, attributes or tags, and for
   maximize / minimize as operations: from any state satisfying the safe-API invariant, no step of any
   history panics (Vec::insert / remove at a found index, the unwrap in lang_from_parts, the index
   expressions of parse_key / parse_tkey) - every step returns Ok or Err. *)
From UL Require Import Bytes Subtags LangId Ext Likely Ops Grammar LangIdSpec LocaleInv
                       BytesProofs SubtagProofs SortProofs LangIdProofs CanonProofs ExtProofs KmapProofs InvProofs
                       TablesData LikelyProofs OpsInvProofs.
From Coq Require Import Lia.
Open Scope N_scope.

Section S.
Variable T : tables.
Hypothesis HT : tables_full_extend T = true.
Hypothesis HW : tables_wf_ints T = true.

Lemma of_res_no_panic {A} s (r : res A) k s' w :
  total r -> (forall a, r = Ok a -> k a = Some (s', w) -> w <> OutPanic) -> of_res s r k = Some (s', w) -> w <> OutPanic.
Proof.
  intros [[a ->]|[e ->]] Hk; cbn [of_res]; [apply Hk; reflexivity|]. intros H. injection H as _ <-. discriminate.
Qed.

Lemma collect_all_total (p : bytes -> res bytes) vs : (forall t, total (p t)) -> total (collect_all p vs).
Proof.
  intros Hp. induction vs as [|v vs IH]; cbn [collect_all]; [auto with tot|].
  apply total_bind; [apply Hp|]. intros a _. apply total_bind; [exact IH|]. intros l _. auto with tot.
Qed.
Lemma collect_vals_total (p : bytes -> res (option bytes)) vs : (forall t, total (p t)) -> total (collect_vals p vs).
Proof.
  intros Hp. induction vs as [|v vs IH]; cbn [collect_vals]; [auto with tot|].
  apply total_bind; [apply Hp|]. intros a _. apply total_bind; [exact IH|]. intros l _. auto with tot.
Qed.

Lemma language_tot s : total (language_from_bytes s).
Proof. destruct (language_total s) as [[v ->]| ->]; auto with tot. Qed.
Lemma script_tot s : total (script_from_bytes s).
Proof. destruct (script_total s) as [[v ->]| ->]; auto with tot. Qed.
Lemma region_tot s : total (region_from_bytes s).
Proof. destruct (region_total s) as [[v ->]| ->]; auto with tot. Qed.
Lemma variant_tot s : total (variant_from_bytes s).
Proof. destruct (variant_total s) as [[v ->]| ->]; auto with tot. Qed.

Lemma li_apply_total x r : (exists o, r = Ok o) -> total (li_apply x r).
Proof. intros [[[[l s] rg]|] ->]; cbn [li_apply]; auto with tot. Qed.

Ltac fin := let H := fresh in intros H; injection H as _ <-; discriminate.

(* no step panics: every key / value / attribute / tag argument is judged by a total parser, the searches
   are defined (C10_no_unspec), and the likely-subtags lookups are total on invariant-satisfying states *)
Theorem step_no_panic s o s' w : loc_inv s = true -> step T s o = Some (s', w) -> w <> OutPanic.
Proof.
  intros Hinv. pose proof Hinv as Hinv0. unfold loc_inv in Hinv. apply andb_true_iff in Hinv as [Hid _].
  destruct o; cbn [step].
  all: try (intros H; injection H as _ <-; discriminate).
  all: try (apply of_res_no_panic; [first [apply variant_tot | apply parse_key_total | apply parse_tkey_total | apply parse_attribute_total
                                          | apply parse_value_total | apply (langid_from_bytes_total) | apply collect_all_total; apply variant_tot]|];
            intros a0 _; try fin).
  - (* OSetLang *) apply of_res_no_panic; [destruct a; [auto with tot|apply language_tot]|]. intros a0 _. fin.
  - (* OSetScript *) apply of_res_no_panic; [destruct a; [auto with tot|apply total_bind; [apply script_tot|intros; auto with tot]]|]. intros a0 _. fin.
  - (* OSetRegion *) apply of_res_no_panic; [destruct a; [auto with tot|apply total_bind; [apply region_tot|intros; auto with tot]]|]. intros a0 _. fin.
  - (* OSetKeyword *) apply of_res_no_panic; [apply collect_vals_total; apply parse_type_total|]. intros l _. fin.
  - (* ORemoveKeyword *) destruct (kremove a0 _) as [m b]. fin.
  - (* OSetAttribute *) destruct (bsearch _ a0); try fin. discriminate.
  - (* ORemoveAttribute *) destruct (bsearch _ a0); try fin. discriminate.
  - (* OSetTfield *) apply of_res_no_panic; [apply collect_vals_total; apply parse_tvalue_total|]. intros l _. fin.
  - (* ORemoveTfield *) destruct (kremove a0 _) as [m b]. fin.
  - (* ORemoveTag *) destruct (bsearch _ a0); try fin. discriminate.
  - (* OMaximize *) apply of_res_no_panic; [|intros p _; fin]. apply li_apply_total. apply (maximize_total T HT HW). apply li_inv_wf. exact Hid.
  - (* OMinimize *) apply of_res_no_panic; [|intros p _; fin]. apply li_apply_total. apply (minimize_total T HT HW). apply li_inv_wf. exact Hid.
Qed.

(* ... along every history *)
Theorem run_no_panic ops : forall s steps, loc_inv s = true -> run T s ops = Some steps ->
  forallb (fun p => match snd p with OutPanic => false | _ => true end) steps = true.
Proof.
  induction ops as [|o ops IH]; intros s steps Hinv; cbn [run]; [intros H; injection H as <-; reflexivity|].
  destruct (step T s o) as [[s1 w]|] eqn:E; [|discriminate].
  destruct (run T s1 ops) as [l|] eqn:R; [|discriminate]. intros H. injection H as <-.
  cbn [forallb snd]. rewrite (IH s1 l (step_inv T HT HW s o s1 w Hinv E) R), andb_true_r.
  pose proof (step_no_panic s o s1 w Hinv E). destruct w; try reflexivity. congruence.
Qed.
End S.
