(* OpsInvProofs.v — C10: every mutator preserves the invariant; binary_search never sees an
   unsorted vector. *)
From UL Require Import Bytes Subtags LangId Ext Likely Ops Grammar LangIdSpec LocaleInv
                       BytesProofs SubtagProofs SortProofs LangIdProofs CanonProofs ExtProofs KmapProofs InvProofs
                       TablesData LikelyProofs.
From Coq Require Import Lia.
Open Scope N_scope.

Lemma collect_all_variants vs l : collect_all variant_from_bytes vs = Ok l -> forallb canon_variant l = true.
Proof.
  revert l; induction vs as [|v vs IH]; intros l; cbn [collect_all]; [intros H; injection H as <-; reflexivity|].
  destruct (variant_from_bytes v) as [x| | |] eqn:E; cbn [bind]; try discriminate.
  destruct (collect_all variant_from_bytes vs) as [r| | |]; cbn [bind]; try discriminate.
  intros H. injection H as <-. cbn [forallb]. rewrite (variant_value_canon _ _ E), (IH r eq_refl). reflexivity.
Qed.
Lemma collect_vals_canon (p : bytes -> res (option bytes)) (c : bytes -> bool) :
  (forall t v, p t = Ok (Some v) -> c v = true) ->
  forall vs l, collect_vals p vs = Ok l -> forallb c l = true.
Proof.
  intros Hp. induction vs as [|v vs IH]; intros l; cbn [collect_vals]; [intros H; injection H as <-; reflexivity|].
  destruct (p v) as [o| | |] eqn:E; cbn [bind]; try discriminate.
  destruct (collect_vals p vs) as [r| | |]; cbn [bind]; try discriminate.
  intros H. injection H as <-. destruct o as [x|]; [|exact (IH r eq_refl)].
  cbn [forallb]. rewrite (Hp _ _ E), (IH r eq_refl). reflexivity.
Qed.

Lemma variants_inv_canon l : forallb canon_variant l = true ->
  variants_inv (match l with [] => None | _ => Some (dedup (sort l)) end) = true.
Proof.
  intros H. destruct l as [|v l']; [reflexivity|]. set (L := v :: l') in *. cbn [variants_inv]. fold (canon L).
  unfold canon at 2. rewrite (forallb_canon canon_variant L), H.
  assert (Hs : ssortedb (canon L) = true) by (apply ssortedb_iff, canon_sorted). rewrite Hs.
  destruct (canon L) eqn:E; [apply (proj1 (canon_nil_iff L)) in E; discriminate|reflexivity].
Qed.

Lemma li_inv_fields x : li_inv x = canon_lang (li_lang x) && opt_all canon_script (li_script x)
                                   && opt_all canon_region (li_region x) && variants_inv (li_variants x).
Proof. reflexivity. Qed.

Section WithTables.
Variable T : tables.
Hypothesis HT : tables_full_extend T = true.
Hypothesis HW : tables_wf_ints T = true.

Lemma li_inv_wf x : li_inv x = true -> wf_triple (li_lang x) (li_script x) (li_region x) = true.
Proof. rewrite li_inv_fields. unfold wf_triple, wf_lang, wf_script, wf_region. intros H.
  apply andb_true_iff in H as [H _]. exact H. Qed.

Lemma li_apply_inv x r b y :
  li_inv x = true ->
  (forall l s rg, r = Ok (Some (l, s, rg)) -> wf_triple l s rg = true) ->
  li_apply x r = Ok (b, y) -> li_inv y = true.
Proof.
  intros Hx Hr. unfold li_apply. destruct r as [[[[l s] rg]|]| | |]; try discriminate.
  - intros H. injection H as _ <-. rewrite li_inv_fields. cbn [li_lang li_script li_region li_variants].
    specialize (Hr l s rg eq_refl). unfold wf_triple, wf_lang, wf_script, wf_region in Hr. rewrite Hr. cbn [andb].
    rewrite li_inv_fields in Hx. apply andb_true_iff in Hx as [_ Hx]. exact Hx.
  - intros H. injection H as _ <-. exact Hx.
Qed.

Lemma li_maximize_inv x b y : li_inv x = true -> li_maximize T x = Ok (b, y) -> li_inv y = true.
Proof.
  intros Hx. unfold li_maximize. apply (li_apply_inv x); [exact Hx|].
  intros l s rg E. destruct (maximize_preserves T HT HW _ _ _ _ (li_inv_wf x Hx) E) as (l' & s' & r' & Eq & _ & _ & _ & W).
  injection Eq as -> -> ->. exact W.
Qed.
Lemma li_minimize_inv x b y : li_inv x = true -> li_minimize T x = Ok (b, y) -> li_inv y = true.
Proof.
  intros Hx. unfold li_minimize. apply (li_apply_inv x); [exact Hx|].
  intros l s rg E.
  destruct (minimize_char T HT HW _ _ _ (li_inv_wf x Hx)) as [E'|(ml & ms & mr & t & _ & E' & Hform & _ & _ & _ & W)];
    rewrite E' in E; [discriminate|]. injection E as Et. subst t.
  unfold wf_triple, wf_lang, wf_script, wf_region in *. apply andb_true_iff in W as [W Wr]. apply andb_true_iff in W as [Wl Ws].
  cbn [opt_all] in Ws, Wr.
  destruct Hform as [Hf|[Hf|Hf]]; injection Hf as -> -> ->; cbn [opt_all]; rewrite ?Wl, ?Ws, ?Wr; reflexivity.
Qed.

Ltac inj H := injection H as <- _ || injection H as <-.

(* every step keeps the invariant *)
Theorem step_inv s o s' w : loc_inv s = true -> step T s o = Some (s', w) -> loc_inv s' = true.
Proof.
  intros Hinv. pose proof Hinv as Hinv0. unfold loc_inv in Hinv. apply andb_true_iff in Hinv as [Hid He].
  pose proof He as He0. unfold ext_inv in He. apply andb_true_iff in He as [He Hx]. apply andb_true_iff in He as [Hu Ht].
  pose proof Hid as Hid0. rewrite li_inv_fields in Hid. apply andb_true_iff in Hid as [Hid Hvar].
  apply andb_true_iff in Hid as [Hid Hrg]. apply andb_true_iff in Hid as [Hlg Hsc].
  pose proof Hu as Hu0. unfold u_inv in Hu. apply andb_true_iff in Hu as [Hu Hua2]. apply andb_true_iff in Hu as [Huk Hua1].
  pose proof Ht as Ht0. unfold t_inv in Ht. apply andb_true_iff in Ht as [Htl Htf].
  pose proof Hx as Hx0. unfold x_inv in Hx. apply andb_true_iff in Hx as [Hx1 Hx2].
  assert (ID : forall i, li_inv i = true -> loc_inv (set_id s i) = true)
    by (intros i Hi; unfold loc_inv, set_id; cbn [loc_id loc_ext]; rewrite Hi, He0; reflexivity).
  assert (UU : forall u, u_inv u = true -> loc_inv (set_u s u) = true)
    by (intros u Hi; unfold loc_inv, set_u, ext_inv; cbn [loc_id loc_ext e_unicode e_transform e_private]; rewrite Hid0, Hi, Ht0, Hx0; reflexivity).
  assert (TT : forall t, t_inv t = true -> loc_inv (set_t s t) = true)
    by (intros t Hi; unfold loc_inv, set_t, ext_inv; cbn [loc_id loc_ext e_unicode e_transform e_private]; rewrite Hid0, Hi, Hu0, Hx0; reflexivity).
  assert (XX : forall x, x_inv x = true -> loc_inv (set_x s x) = true)
    by (intros x Hi; unfold loc_inv, set_x, ext_inv; cbn [loc_id loc_ext e_unicode e_transform e_private]; rewrite Hid0, Hi, Hu0, Ht0; reflexivity).
  destruct o; cbn [step]; unfold of_res.
  - (* set language *)
    destruct a as [|c a'].
    + intros H. inj H. apply ID. rewrite li_inv_fields. cbn [li_lang li_script li_region li_variants canon_lang]. rewrite Hsc, Hrg, Hvar. reflexivity.
    + destruct (language_from_bytes (c :: a')) as [l| | |] eqn:E; intros H; inj H; try exact Hinv0.
      apply ID. rewrite li_inv_fields. cbn [li_lang li_script li_region li_variants]. rewrite (language_value_canon _ _ E), Hsc, Hrg, Hvar. reflexivity.
  - destruct a as [|c a'].
    + intros H. inj H. apply ID. rewrite li_inv_fields. cbn [li_lang li_script li_region li_variants opt_all]. rewrite Hlg, Hrg, Hvar. reflexivity.
    + destruct (script_from_bytes (c :: a')) as [l| | |] eqn:E; cbn [bind]; intros H; inj H; try exact Hinv0.
      apply ID. rewrite li_inv_fields. cbn [li_lang li_script li_region li_variants opt_all]. rewrite (script_value_canon _ _ E), Hlg, Hrg, Hvar. reflexivity.
  - destruct a as [|c a'].
    + intros H. inj H. apply ID. rewrite li_inv_fields. cbn [li_lang li_script li_region li_variants opt_all]. rewrite Hlg, Hsc, Hvar. reflexivity.
    + destruct (region_from_bytes (c :: a')) as [l| | |] eqn:E; cbn [bind]; intros H; inj H; try exact Hinv0.
      apply ID. rewrite li_inv_fields. cbn [li_lang li_script li_region li_variants opt_all]. rewrite (region_value_canon _ _ E), Hlg, Hsc, Hvar. reflexivity.
  - (* set_variants *)
    destruct (collect_all variant_from_bytes vs) as [l| | |] eqn:E; intros H; inj H; try exact Hinv0.
    apply ID. unfold li_set_variants. rewrite li_inv_fields. cbn [li_lang li_script li_region li_variants].
    rewrite Hlg, Hsc, Hrg. cbn [andb]. apply variants_inv_canon. exact (collect_all_variants _ _ E).
  - intros H. inj H. apply ID. unfold li_clear_variants. rewrite li_inv_fields. cbn [li_lang li_script li_region li_variants variants_inv].
    rewrite Hlg, Hsc, Hrg. reflexivity.
  - destruct (variant_from_bytes a); intros H; inj H; exact Hinv0.
  - destruct (parse_key k); intros H; inj H; exact Hinv0.
  - (* set_keyword *)
    destruct (parse_key k) as [k'| | |] eqn:Ek; try (intros H; inj H; exact Hinv0).
    destruct (collect_vals parse_type vs) as [l| | |] eqn:Ev; intros H; inj H; try exact Hinv0.
    apply UU. unfold u_inv. cbn [u_keywords u_attrs]. rewrite Hua1, Hua2, !andb_true_r.
    unfold kmap_inv in *. apply andb_true_iff in Huk as [K1 K2]. rewrite (ksorted_kinsert k' l _ K1). cbn [andb].
    apply (forallb_kinsert (fun kv => canon_ukey (fst kv) && forallb canon_utype (snd kv))); [|exact K2].
    cbn [fst snd]. rewrite (parse_key_canon _ _ Ek), (collect_vals_canon parse_type canon_utype parse_type_canon _ _ Ev). reflexivity.
  - (* remove_keyword *)
    destruct (parse_key k) as [k'| | |] eqn:Ek; try (intros H; inj H; exact Hinv0).
    unfold kmap_inv in Huk. apply andb_true_iff in Huk as [K1 K2].
    pose proof (ksorted_kremove k' _ K1) as S1. pose proof (forallb_kremove (fun kv => canon_ukey (fst kv) && forallb canon_utype (snd kv)) k' _ K2) as S2.
    destruct (kremove k' (u_keywords (e_unicode (loc_ext s)))) as [m b]. cbn [fst] in *. intros H; inj H.
    apply UU. unfold u_inv, kmap_inv. cbn [u_keywords u_attrs]. rewrite S1, S2, Hua1, Hua2. reflexivity.
  - intros H. inj H. apply UU. unfold u_inv. cbn [u_keywords u_attrs]. rewrite Hua1, Hua2. reflexivity.
  - destruct (parse_attribute a); intros H; inj H; exact Hinv0.
  - (* set_attribute *)
    destruct (parse_attribute a) as [v| | |] eqn:Ea; try (intros H; inj H; exact Hinv0).
    unfold bsearch. destruct (sortedb (u_attrs (e_unicode (loc_ext s)))); [|discriminate].
    destruct (memb v (u_attrs (e_unicode (loc_ext s)))) eqn:Em; intros H; inj H; [exact Hinv0|].
    apply UU. unfold u_inv. cbn [u_keywords u_attrs]. rewrite Huk. cbn [andb].
    rewrite (forallb_insert_sorted canon_attr v _ (parse_attribute_canon _ _ Ea) Hua1). cbn [andb].
    apply ssortedb_iff. apply insert_sorted_strict; [apply ssortedb_iff; exact Hua2|].
    intros Hin. apply memb_In in Hin. congruence.
  - (* remove_attribute *)
    destruct (parse_attribute a) as [v| | |] eqn:Ea; try (intros H; inj H; exact Hinv0).
    unfold bsearch. destruct (sortedb (u_attrs (e_unicode (loc_ext s)))); [|discriminate].
    destruct (memb v (u_attrs (e_unicode (loc_ext s)))) eqn:Em; intros H; inj H; [|exact Hinv0].
    apply UU. unfold u_inv. cbn [u_keywords u_attrs]. rewrite Huk. cbn [andb].
    rewrite (forallb_remove_first canon_attr v _ Hua1). cbn [andb].
    apply ssortedb_iff. apply remove_first_sorted_lt. apply ssortedb_iff; exact Hua2.
  - intros H. inj H. apply UU. unfold u_inv. cbn [u_keywords u_attrs]. rewrite Huk. reflexivity.
  - (* set_tlang *)
    destruct (langid_from_bytes a) as [l| | |] eqn:El; intros H; inj H; try exact Hinv0.
    apply TT. unfold t_inv. cbn [t_lang t_fields]. rewrite (langid_parse_inv _ _ El), Htf. reflexivity.
  - intros H. inj H. apply TT. unfold t_inv. cbn [t_lang t_fields]. rewrite Htf. reflexivity.
  - destruct (parse_tkey k); intros H; inj H; exact Hinv0.
  - (* set_tfield *)
    destruct (parse_tkey k) as [k'| | |] eqn:Ek; try (intros H; inj H; exact Hinv0).
    destruct (collect_vals parse_tvalue vs) as [l| | |] eqn:Ev; intros H; inj H; try exact Hinv0.
    apply TT. unfold t_inv. cbn [t_lang t_fields]. rewrite Htl. cbn [andb].
    unfold kmap_inv in *. apply andb_true_iff in Htf as [K1 K2]. rewrite (ksorted_kinsert k' l _ K1). cbn [andb].
    apply (forallb_kinsert (fun kv => canon_tkey (fst kv) && forallb canon_tvalue (snd kv))); [|exact K2].
    cbn [fst snd]. rewrite (parse_tkey_canon _ _ Ek), (collect_vals_canon parse_tvalue canon_tvalue parse_tvalue_canon _ _ Ev). reflexivity.
  - destruct (parse_tkey k) as [k'| | |] eqn:Ek; try (intros H; inj H; exact Hinv0).
    unfold kmap_inv in Htf. apply andb_true_iff in Htf as [K1 K2].
    pose proof (ksorted_kremove k' _ K1) as S1. pose proof (forallb_kremove (fun kv => canon_tkey (fst kv) && forallb canon_tvalue (snd kv)) k' _ K2) as S2.
    destruct (kremove k' (t_fields (e_transform (loc_ext s)))) as [m b]. cbn [fst] in *. intros H; inj H.
    apply TT. unfold t_inv, kmap_inv. cbn [t_lang t_fields]. rewrite S1, S2, Htl. reflexivity.
  - intros H. inj H. apply TT. unfold t_inv. cbn [t_lang t_fields]. rewrite Htl. reflexivity.
  - destruct (parse_value a); intros H; inj H; exact Hinv0.
  - (* add_tag *)
    destruct (parse_value a) as [v| | |] eqn:Ea; intros H; inj H; try exact Hinv0.
    apply XX. unfold x_inv. rewrite forallb_sort, forallb_snoc, Hx1, (parse_value_canon _ _ Ea). cbn [andb].
    apply sortedb_iff, sort_sorted.
  - (* remove_tag *)
    destruct (parse_value a) as [v| | |] eqn:Ea; try (intros H; inj H; exact Hinv0).
    unfold bsearch. destruct (sortedb (e_private (loc_ext s))) eqn:Es; [|discriminate].
    destruct (memb v (e_private (loc_ext s))); intros H; inj H; [|exact Hinv0].
    apply XX. unfold x_inv. rewrite (forallb_remove_first canon_priv v _ Hx1). cbn [andb].
    apply sortedb_iff. apply remove_first_sorted_le. apply sortedb_iff; exact Es.
  - intros H. inj H. apply XX. reflexivity.
  - (* maximize *)
    destruct (li_maximize T (loc_id s)) as [[b y]| | |] eqn:E; intros H; inj H; try exact Hinv0.
    apply ID. exact (li_maximize_inv _ _ _ Hid0 E).
  - destruct (li_minimize T (loc_id s)) as [[b y]| | |] eqn:E; intros H; inj H; try exact Hinv0.
    apply ID. exact (li_minimize_inv _ _ _ Hid0 E).
Qed.

(* binary_search is never called on an unsorted vector *)
Theorem step_no_unspec s o : loc_inv s = true -> step T s o <> None.
Proof.
  intros Hinv. unfold loc_inv in Hinv. apply andb_true_iff in Hinv as [_ He].
  unfold ext_inv in He. apply andb_true_iff in He as [He Hx]. apply andb_true_iff in He as [Hu _].
  unfold u_inv in Hu. apply andb_true_iff in Hu as [_ Hua2].
  unfold x_inv in Hx. apply andb_true_iff in Hx as [_ Hx2].
  assert (SA : sortedb (u_attrs (e_unicode (loc_ext s))) = true)
    by (apply sortedb_iff, Sorted_lt_le, ssortedb_iff; exact Hua2).
  assert (BA : forall v, bsearch (u_attrs (e_unicode (loc_ext s))) v <> BsUnspec)
    by (intros v; unfold bsearch; rewrite SA; destruct (memb v _); discriminate).
  assert (BX : forall v, bsearch (e_private (loc_ext s)) v <> BsUnspec)
    by (intros v; unfold bsearch; rewrite Hx2; destruct (memb v _); discriminate).
  destruct o; cbn [step]; unfold of_res;
    try (repeat match goal with
                | |- context [match ?x with _ => _ end] =>
                  lazymatch x with bsearch _ _ => fail | _ => destruct x end
                | |- context [let (_, _) := ?x in _] => destruct x
                end; discriminate).
  - destruct (parse_attribute a) as [v| | |]; try discriminate.
    specialize (BA v). destruct (bsearch (u_attrs (e_unicode (loc_ext s))) v); try discriminate. contradiction.
  - destruct (parse_attribute a) as [v| | |]; try discriminate.
    specialize (BA v). destruct (bsearch (u_attrs (e_unicode (loc_ext s))) v); try discriminate. contradiction.
  - destruct (parse_value a) as [v| | |]; try discriminate.
    specialize (BX v). destruct (bsearch (e_private (loc_ext s)) v); try discriminate. contradiction.
Qed.

(* every reachable state: induction over the history *)
Theorem run_inv ops : forall s steps, loc_inv s = true -> run T s ops = Some steps ->
  forallb (fun p => loc_inv (fst p)) steps = true.
Proof.
  induction ops as [|o ops IH]; intros s steps Hs; cbn [run]; [intros H; injection H as <-; reflexivity|].
  destruct (step T s o) as [[s' w]|] eqn:E; [|discriminate].
  destruct (run T s' ops) as [l|] eqn:El; [|discriminate]. intros H. injection H as <-.
  cbn [forallb fst]. rewrite (step_inv _ _ _ _ Hs E). cbn [andb]. exact (IH _ _ (step_inv _ _ _ _ Hs E) El).
Qed.
Theorem run_defined ops : forall s, loc_inv s = true -> run T s ops <> None.
Proof.
  induction ops as [|o ops IH]; intros s Hs; cbn [run]; [discriminate|].
  destruct (step T s o) as [[s' w]|] eqn:E; [|exact (False_ind _ (step_no_unspec s o Hs E))].
  specialize (IH s' (step_inv _ _ _ _ Hs E)). destruct (run T s' ops); [discriminate|contradiction].
Qed.

End WithTables.
