(* LengthProofs.v — C04, last clause (LanguageIdentifier): canonicalize(s) is never longer than s. *)
From UL Require Import Bytes Subtags LangId Grammar LangIdSpec BytesProofs SubtagProofs SortProofs SplitProofs LangIdProofs CanonProofs PermProofs.
From Coq Require Import Lia Permutation.
Open Scope N_scope.

(* total length with one separator slot per token *)
Fixpoint tlen (toks : list bytes) : nat :=
  match toks with [] => O | t :: r => (S (length t) + tlen r)%nat end.

Lemma tlen_app a b : tlen (a ++ b) = (tlen a + tlen b)%nat.
Proof. induction a as [|t a IH]; cbn [app tlen]; [reflexivity|]. rewrite IH. lia. Qed.
Lemma join_tlen toks : toks <> [] -> (length (join toks) + 1 = tlen toks)%nat.
Proof.
  induction toks as [|t toks IH]; [congruence|]. intros _. destruct toks as [|u toks].
  - cbn [join tlen]. lia.
  - change (join (t :: u :: toks)) with (t ++ 45 :: join (u :: toks)). rewrite app_length. cbn [length].
    specialize (IH ltac:(congruence)). change (tlen (t :: u :: toks)) with (S (length t) + tlen (u :: toks))%nat. lia.
Qed.
Lemma split_aux_tlen s : forall cur, tlen (split_aux cur s) = (length cur + length s + 1)%nat.
Proof.
  induction s as [|b s IH]; intros cur; cbn [split_aux tlen length].
  - rewrite rev_length. lia.
  - destruct (is_sep b); cbn [tlen]; [rewrite (IH []), rev_length; cbn [length]; lia|rewrite (IH (b :: cur)); cbn [length]; lia].
Qed.
Lemma split_tlen s : tlen (split s) = (length s + 1)%nat.
Proof. unfold split. rewrite split_aux_tlen. reflexivity. Qed.

Lemma tlen_perm a b : Permutation a b -> tlen a = tlen b.
Proof. induction 1 as [|x l l' P IH|x y l|l l' l'' P1 IH1 P2 IH2]; cbn [tlen]; [reflexivity|rewrite IH; reflexivity|lia|congruence]. Qed.
Lemma dedup_cons2 x y l : dedup (x :: y :: l) = if beqb x y then dedup (y :: l) else x :: dedup (y :: l).
Proof. reflexivity. Qed.
Lemma tlen_dedup l : (tlen (dedup l) <= tlen l)%nat.
Proof.
  induction l as [|x l IH]; [cbn; lia|]. destruct l as [|y l]; [cbn; lia|].
  rewrite dedup_cons2. destruct (beqb x y).
  - change (tlen (x :: y :: l)) with (S (length x) + tlen (y :: l))%nat. lia.
  - change (tlen (x :: dedup (y :: l))) with (S (length x) + tlen (dedup (y :: l)))%nat.
    change (tlen (x :: y :: l)) with (S (length x) + tlen (y :: l))%nat. lia.
Qed.
Lemma tlen_canon l : (tlen (dedup (sort l)) <= tlen l)%nat.
Proof. rewrite <- (tlen_perm _ _ (sort_perm l)). apply tlen_dedup. Qed.
Lemma tlen_map_lower l : tlen (map lower l) = tlen l.
Proof. induction l as [|t l IH]; cbn [map tlen]; [reflexivity|]. rewrite lower_length, IH. reflexivity. Qed.

Lemma language_text_length l : lang_tok l = true -> length (language_text (spec_language_value l)) = length l.
Proof.
  intros _. unfold spec_language_value. destruct (beqb (lower l) und_b) eqn:E; cbn [language_text].
  - apply beqb_eq in E. rewrite <- (lower_length l), E. reflexivity.
  - apply lower_length.
Qed.

Theorem spec_langid_length toks v : spec_langid toks = Some v -> (tlen (li_tokens v) <= tlen toks)%nat.
Proof.
  intros H. apply spec_langid_iff in H. destruct H as [l sc rg vs Hl Hs Hr Hv].
  unfold li_tokens. cbn [li_lang li_script li_region li_variants].
  change (tlen (?a :: ?b)) with (S (length a) + tlen b)%nat.
  cbn [tlen]. rewrite !tlen_app.
  rewrite (language_text_length l Hl).
  assert (E1 : tlen (opt_tok (option_map title sc)) = tlen (opt_tok sc)) by (destruct sc; cbn [option_map opt_tok tlen]; [rewrite title_length|]; reflexivity).
  assert (E2 : tlen (opt_tok (option_map norm_region rg)) = tlen (opt_tok rg)).
  { destruct rg as [r|]; cbn [option_map opt_tok tlen]; [|reflexivity]. unfold norm_region. destruct (length r =? 2)%nat; [rewrite upper_length|]; reflexivity. }
  assert (E3 : (tlen (li_variants_list (mkLangId (spec_language_value l) (option_map title sc) (option_map norm_region rg) (spec_variants vs))) <= tlen vs)%nat).
  { unfold li_variants_list, spec_variants. cbn [li_variants]. destruct vs as [|v0 vs']; [cbn; lia|].
    rewrite <- (tlen_map_lower (v0 :: vs')). apply tlen_canon. }
  rewrite E1, E2. lia.
Qed.

Theorem li_canonicalize_length s t : li_canonicalize s = Ok t -> (length t <= length s)%nat.
Proof.
  unfold li_canonicalize. rewrite langid_from_bytes_spec.
  destruct (spec_langid (split s)) as [v|] eqn:E; [|discriminate]. intros H. injection H as <-.
  pose proof (spec_langid_length _ _ E) as L. rewrite split_tlen in L.
  unfold li_to_string. pose proof (join_tlen (li_tokens v) ltac:(unfold li_tokens; congruence)). lia.
Qed.
