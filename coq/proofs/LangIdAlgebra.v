(* LangIdAlgebra.v — equality / ordering / matches / parts (C11, C12, C17) for LanguageIdentifier *)
From UL Require Import Bytes Subtags LangId Grammar LangIdSpec BytesProofs SubtagProofs SortProofs SplitProofs LangIdProofs PackProofs.
From Coq Require Import Lia ZifyBool ZifyN Btauto.
Open Scope N_scope.
Arguments N.eqb : simpl never.

(* ---- boolean equalities decide Leibniz equality ---- *)
Lemma obeqb_iff a b : obeqb a b = true <-> a = b.
Proof. destruct a, b; cbn [obeqb]; split; try discriminate; try reflexivity.
  - intros H. apply beqb_eq in H. congruence.
  - intros H. injection H as ->. apply beqb_refl. Qed.
Lemma lbeqb_iff a b : lbeqb a b = true <-> a = b.
Proof.
  revert b; induction a as [|x a IH]; intros [|y b]; cbn [lbeqb]; split; try discriminate; try reflexivity.
  - intros H. apply andb_true_iff in H as [H1 H2]. apply beqb_eq in H1. apply IH in H2. congruence.
  - intros H. injection H as -> ->. rewrite beqb_refl. apply IH. reflexivity.
Qed.
Lemma olbeqb_iff a b : olbeqb a b = true <-> a = b.
Proof. destruct a, b; cbn [olbeqb]; split; try discriminate; try reflexivity.
  - intros H. apply lbeqb_iff in H. congruence.
  - intros H. injection H as ->. apply lbeqb_iff. reflexivity. Qed.
Lemma li_eqb_iff x y : li_eqb x y = true <-> x = y.
Proof.
  destruct x as [l1 s1 r1 v1], y as [l2 s2 r2 v2]. unfold li_eqb. cbn [li_lang li_script li_region li_variants].
  rewrite !andb_true_iff, !obeqb_iff, olbeqb_iff. split.
  - intros [[[-> ->] ->] ->]. reflexivity.
  - intros H. injection H as -> -> -> ->. auto.
Qed.

(* ---- C12: == iff equal canonical strings (the printer is injective on the invariant) ---- *)
Theorem li_to_string_inj x y : li_inv x = true -> li_inv y = true -> li_to_string x = li_to_string y -> x = y.
Proof.
  intros Hx Hy E. pose proof (langid_roundtrip x Hx) as Rx. pose proof (langid_roundtrip y Hy) as Ry.
  rewrite E in Rx. congruence.
Qed.
Theorem li_eq_iff_string x y : li_inv x = true -> li_inv y = true ->
  (li_eqb x y = true <-> li_to_string x = li_to_string y).
Proof.
  intros Hx Hy. rewrite li_eqb_iff. split; [intros ->; reflexivity|apply li_to_string_inj; assumption].
Qed.

(* ---- ordering: lexicographic, total, consistent with equality ---- *)
Lemma lcmp_eq a b : lcmp a b = Eq <-> a = b.
Proof.
  revert b; induction a as [|x a IH]; intros [|y b]; cbn [lcmp]; split; try discriminate; try reflexivity.
  - destruct (bcmp x y) eqn:E; try discriminate. apply bcmp_eq in E. intros H. apply IH in H. congruence.
  - intros H. injection H as -> ->. assert (bcmp y y = Eq) as -> by (apply bcmp_eq; reflexivity). apply IH. reflexivity.
Qed.
Lemma lcmp_antisym a b : lcmp b a = CompOpp (lcmp a b).
Proof.
  revert b; induction a as [|x a IH]; intros [|y b]; cbn [lcmp]; try reflexivity.
  rewrite (bcmp_antisym x y). destruct (bcmp x y); cbn [CompOpp]; auto.
Qed.
Lemma ocmp_eq {A} (c : A -> A -> comparison) (Hc : forall x y, c x y = Eq <-> x = y) a b : ocmp c a b = Eq <-> a = b.
Proof. destruct a, b; cbn [ocmp]; split; try discriminate; try reflexivity.
  - intros H. apply Hc in H. congruence.
  - intros H. injection H as ->. apply Hc. reflexivity. Qed.
Lemma ocmp_antisym {A} (c : A -> A -> comparison) (Hc : forall x y, c y x = CompOpp (c x y)) a b :
  ocmp c b a = CompOpp (ocmp c a b).
Proof. destruct a, b; cbn [ocmp CompOpp]; auto. Qed.
Lemma then_cmp_eq c d : then_cmp c d = Eq <-> c = Eq /\ d = Eq.
Proof. destruct c; cbn [then_cmp]; split; try tauto; try (intros [? ?]; discriminate); try discriminate. Qed.
Lemma then_cmp_opp c d : then_cmp (CompOpp c) (CompOpp d) = CompOpp (then_cmp c d).
Proof. destruct c; reflexivity. Qed.

Theorem li_cmp_eq x y : li_cmp x y = Eq <-> x = y.
Proof.
  destruct x as [l1 s1 r1 v1], y as [l2 s2 r2 v2]. unfold li_cmp. cbn [li_lang li_script li_region li_variants].
  rewrite !then_cmp_eq, !(ocmp_eq bcmp bcmp_eq), (ocmp_eq lcmp lcmp_eq). split.
  - intros (-> & -> & -> & ->). reflexivity.
  - intros H. injection H as -> -> -> ->. auto.
Qed.
Theorem li_cmp_antisym x y : li_cmp y x = CompOpp (li_cmp x y).
Proof.
  unfold li_cmp. rewrite <- !then_cmp_opp.
  rewrite <- !(ocmp_antisym bcmp bcmp_antisym), <- (ocmp_antisym lcmp lcmp_antisym). reflexivity.
Qed.

(* transitivity of the strict order *)
Lemma lcmp_lt_trans a b c : lcmp a b = Lt -> lcmp b c = Lt -> lcmp a c = Lt.
Proof.
  revert b c; induction a as [|x a IH]; intros [|y b] [|z c]; cbn [lcmp]; try discriminate; auto.
  destruct (bcmp x y) eqn:E1; try discriminate; destruct (bcmp y z) eqn:E2; try discriminate; intros H1 H2.
  - apply bcmp_eq in E1, E2; subst. assert (bcmp z z = Eq) as -> by (apply bcmp_eq; reflexivity). eauto.
  - apply bcmp_eq in E1; subst. rewrite E2; reflexivity.
  - apply bcmp_eq in E2; subst. rewrite E1; reflexivity.
  - rewrite (bcmp_lt_trans _ _ _ E1 E2). reflexivity.
Qed.
Lemma ocmp_lt_trans {A} (c : A -> A -> comparison) (Ht : forall x y z, c x y = Lt -> c y z = Lt -> c x z = Lt) a b d :
  ocmp c a b = Lt -> ocmp c b d = Lt -> ocmp c a d = Lt.
Proof. destruct a, b, d; cbn [ocmp]; try discriminate; auto. apply Ht. Qed.
Lemma then_cmp_lt_trans (c1 c2 c3 d1 d2 d3 : comparison) :
  (c1 = Lt -> c2 = Lt -> c3 = Lt) -> (c1 = Eq -> c3 = c2) -> (c2 = Eq -> c3 = c1) ->
  (d1 = Lt -> d2 = Lt -> d3 = Lt) ->
  then_cmp c1 d1 = Lt -> then_cmp c2 d2 = Lt -> then_cmp c3 d3 = Lt.
Proof.
  intros Hc He1 He2 Hd. destruct c1 eqn:E1; destruct c2 eqn:E2; cbn [then_cmp]; try discriminate; intros H1 H2.
  - rewrite (He1 eq_refl). cbn. auto.
  - rewrite (He1 eq_refl). reflexivity.
  - rewrite (He2 eq_refl). reflexivity.
  - rewrite (Hc eq_refl eq_refl). reflexivity.
Qed.

(* a generic lexicographic-transitivity helper: c x y = Eq -> c x z = c y z, c y z = Eq -> c x z = c x y *)
Lemma bcmp_eq_l x y z : bcmp x y = Eq -> bcmp x z = bcmp y z.
Proof. intros H. apply bcmp_eq in H. subst. reflexivity. Qed.
Lemma bcmp_eq_r x y z : bcmp y z = Eq -> bcmp x z = bcmp x y.
Proof. intros H. apply bcmp_eq in H. subst. reflexivity. Qed.

Theorem li_cmp_lt_trans x y z : li_cmp x y = Lt -> li_cmp y z = Lt -> li_cmp x z = Lt.
Proof.
  destruct x as [l1 s1 r1 v1], y as [l2 s2 r2 v2], z as [l3 s3 r3 v3]. unfold li_cmp.
  cbn [li_lang li_script li_region li_variants].
  assert (OE : forall a b c : option bytes, ocmp bcmp a b = Eq -> ocmp bcmp a c = ocmp bcmp b c)
    by (intros a b c H; apply (ocmp_eq bcmp bcmp_eq) in H; subst; reflexivity).
  assert (OE' : forall a b c : option bytes, ocmp bcmp b c = Eq -> ocmp bcmp a c = ocmp bcmp a b)
    by (intros a b c H; apply (ocmp_eq bcmp bcmp_eq) in H; subst; reflexivity).
  apply then_cmp_lt_trans; [apply (ocmp_lt_trans bcmp bcmp_lt_trans)|apply OE|apply OE'|].
  apply then_cmp_lt_trans; [apply (ocmp_lt_trans bcmp bcmp_lt_trans)|apply OE|apply OE'|].
  apply then_cmp_lt_trans; [apply (ocmp_lt_trans bcmp bcmp_lt_trans)|apply OE|apply OE'|].
  apply (ocmp_lt_trans lcmp lcmp_lt_trans).
Qed.

(* ---- C11: matches ---- *)
Definition fld_ok (a b : option bytes) (ra rb : bool) : bool := obeqb a b || (ra && is_none a) || (rb && is_none b).
Definition vempty (o : option (list bytes)) : bool := match o with None => true | Some [] => true | _ => false end.
Definition matches_spec (x y : langid) (ra rb : bool) : bool :=
  fld_ok (li_lang x) (li_lang y) ra rb && fld_ok (li_script x) (li_script y) ra rb
  && fld_ok (li_region x) (li_region y) ra rb
  && (olbeqb (li_variants x) (li_variants y) || (ra && vempty (li_variants x)) || (rb && vempty (li_variants y))).

Theorem li_matches_spec x y ra rb : li_matches x y ra rb = matches_spec x y ra rb.
Proof.
  unfold li_matches, matches_spec, lang_matches, opt_matches, vars_match, fld_ok, vempty, is_option_empty, is_none.
  destruct (li_lang x), (li_lang y), (li_script x), (li_script y), (li_region x), (li_region y),
    (li_variants x) as [[|? ?]|], (li_variants y) as [[|? ?]|], ra, rb; cbn [andb orb obeqb olbeqb lbeqb];
    rewrite ?orb_true_r, ?orb_false_r, ?andb_true_r, ?andb_false_r; try reflexivity;
    repeat match goal with |- context [beqb ?a ?b] => destruct (beqb a b) end; cbn [andb orb]; try reflexivity;
    repeat match goal with |- context [lbeqb ?a ?b] => destruct (lbeqb a b) end; cbn [andb orb]; reflexivity.
Qed.

Lemma obeqb_sym a b : obeqb a b = obeqb b a.
Proof. destruct (obeqb a b) eqn:E.
  - apply obeqb_iff in E. subst. symmetry. apply obeqb_iff. reflexivity.
  - destruct (obeqb b a) eqn:E2; [|reflexivity]. apply obeqb_iff in E2. subst.
    assert (obeqb a a = true) by (apply obeqb_iff; reflexivity). congruence. Qed.
Lemma olbeqb_sym a b : olbeqb a b = olbeqb b a.
Proof. destruct (olbeqb a b) eqn:E.
  - apply olbeqb_iff in E. subst. symmetry. apply olbeqb_iff. reflexivity.
  - destruct (olbeqb b a) eqn:E2; [|reflexivity]. apply olbeqb_iff in E2. subst.
    assert (olbeqb a a = true) by (apply olbeqb_iff; reflexivity). congruence. Qed.

Theorem matches_eq_when_strict x y : li_matches x y false false = li_eqb x y.
Proof. rewrite li_matches_spec. unfold matches_spec, fld_ok, li_eqb. cbn [andb orb]. rewrite !orb_false_r. reflexivity. Qed.
Theorem matches_symmetric x y ra rb : li_matches x y ra rb = li_matches y x rb ra.
Proof.
  rewrite !li_matches_spec. unfold matches_spec, fld_ok.
  rewrite (obeqb_sym (li_lang x)), (obeqb_sym (li_script x)), (obeqb_sym (li_region x)), (olbeqb_sym (li_variants x)).
  btauto.
Qed.
Theorem matches_reflexive x ra rb : li_matches x x ra rb = true.
Proof.
  rewrite li_matches_spec. unfold matches_spec, fld_ok.
  assert (forall a, obeqb a a = true) as R by (intros a; apply obeqb_iff; reflexivity).
  assert (olbeqb (li_variants x) (li_variants x) = true) as -> by (apply olbeqb_iff; reflexivity).
  rewrite !R. reflexivity.
Qed.
Lemma bool_le_or a b c : a = true -> a || b || c = true.
Proof. intros ->. reflexivity. Qed.
Theorem matches_monotone x y ra rb ra' rb' :
  (ra = true -> ra' = true) -> (rb = true -> rb' = true) ->
  li_matches x y ra rb = true -> li_matches x y ra' rb' = true.
Proof.
  intros Ha Hb. rewrite !li_matches_spec. unfold matches_spec, fld_ok.
  destruct ra, rb, ra', rb'; try (specialize (Ha eq_refl); discriminate); try (specialize (Hb eq_refl); discriminate);
    try (intros H; exact H); clear Ha Hb;
    generalize (obeqb (li_lang x) (li_lang y)) (obeqb (li_script x) (li_script y)) (obeqb (li_region x) (li_region y))
               (olbeqb (li_variants x) (li_variants y)) (is_none (li_lang x)) (is_none (li_lang y))
               (is_none (li_script x)) (is_none (li_script y)) (is_none (li_region x)) (is_none (li_region y))
               (vempty (li_variants x)) (vempty (li_variants y));
    intros b1 b2 b3 b4 b5 b6 b7 b8 b9 b10 b11 b12;
    destruct b1, b2, b3, b4; cbn [andb orb]; try (intros _; reflexivity); try discriminate;
    destruct b5, b6, b7, b8, b9, b10, b11, b12; cbn [andb orb]; try (intros _; reflexivity); try discriminate.
Qed.

(* ---- C17: parts ---- *)
Theorem from_parts_into_parts x : li_inv x = true ->
  match li_into_parts x with (l, s, r, vs) => li_from_parts l s r vs end = x.
Proof.
  destruct x as [l s r vs]. unfold li_inv, li_into_parts, li_from_parts, li_variants_list.
  cbn [li_lang li_script li_region li_variants]. intros H. apply andb_true_iff in H as [_ Hv].
  destruct vs as [v|]; [|reflexivity]. cbn [variants_inv] in Hv.
  apply andb_true_iff in Hv as [Hv Hs]. apply andb_true_iff in Hv as [Hne _].
  destruct v as [|v0 v']; [discriminate|]. f_equal. f_equal. fold (canon (v0 :: v')). apply canon_id, ssortedb_iff, Hs.
Qed.

(* from_parts accepts variants in any order, with duplicates: only the SET matters *)
Theorem from_parts_any_order l s r vs vs' :
  (forall y, In y vs <-> In y vs') -> li_from_parts l s r vs = li_from_parts l s r vs'.
Proof.
  intros H. unfold li_from_parts.
  destruct vs as [|a vs0], vs' as [|b vs0']; try reflexivity.
  - exfalso. apply (H b). left; reflexivity.
  - exfalso. apply (H a). left; reflexivity.
  - f_equal. f_equal. apply (canon_same_set (a :: vs0) (b :: vs0') H).
Qed.
