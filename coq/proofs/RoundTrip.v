(* RoundTrip.v — C05 at Locale / ExtensionsMap level: parsing the printed form gives back the value. *)
From UL Require Import Bytes Subtags LangId Ext Grammar LangIdSpec LocaleInv
                       BytesProofs SubtagProofs SortProofs SplitProofs LangIdProofs CanonProofs ExtProofs KmapProofs InvProofs.
From Coq Require Import Lia ZifyBool ZifyN.
Open Scope N_scope.
Arguments N.add : simpl never.
Arguments N.sub : simpl never.
Arguments N.leb : simpl never.
Arguments N.eqb : simpl never.

(* ---------- the langid prefix of a longer token list ---------- *)
(* a token that cannot continue a language identifier *)
Definition li_stop (E : list bytes) : Prop :=
  match E with [] => True | t :: _ => script_tok t = false /\ region_tok t = false /\ variant_tok t = false end.

Lemma take_while_app_stop p V E : forallb p V = true -> match E with [] => True | t :: _ => p t = false end ->
  take_while p (V ++ E) = V /\ drop_while p (V ++ E) = E.
Proof.
  intros HV HE. induction V as [|v V IH]; cbn [app take_while drop_while].
  - destruct E as [|t E']; [auto|]. cbn [take_while drop_while]. rewrite HE. auto.
  - cbn [forallb] in HV. apply andb_true_iff in HV as [Hv HV]. rewrite Hv. destruct (IH HV) as [-> ->]. auto.
Qed.

Theorem spec_langid_prefix_tokens x E : li_inv x = true -> li_stop E ->
  spec_langid_prefix (li_tokens x ++ E) = Some (x, E).
Proof.
  intros Hinv HE. pose proof Hinv as H0.
  destruct x as [l sc rg vs]. unfold li_inv in H0. cbn [li_lang li_script li_region li_variants] in H0.
  apply andb_true_iff in H0 as [H0 Hv]. apply andb_true_iff in H0 as [H0 Hr]. apply andb_true_iff in H0 as [Hl Hs].
  destruct (lang_text_tok _ Hl) as [Ht Hval].
  unfold spec_langid_prefix, li_tokens. cbn [li_lang li_script li_region li_variants app]. rewrite Ht, Hval.
  set (V := li_variants_list (mkLangId l sc rg vs)).
  assert (HVt : forallb variant_tok V = true /\ spec_variants V = vs).
  { unfold V, li_variants_list. cbn [li_variants]. destruct vs as [v|]; cbn [variants_inv] in Hv; [|auto].
    apply andb_true_iff in Hv as [Hv Hso]. apply andb_true_iff in Hv as [Hne Hc].
    destruct (map_lower_canon _ Hc) as [Hm Ht']. split; [exact Ht'|].
    destruct v as [|v0 v']; [discriminate|]. unfold spec_variants. rewrite Hm.
    f_equal. apply canon_id. apply ssortedb_iff. exact Hso. }
  destruct HVt as [HVt HVs].
  assert (Estop : match E with [] => True | t :: _ => variant_tok t = false end) by (destruct E; [exact I|apply HE]).
  destruct (take_while_app_stop variant_tok V E HVt Estop) as [Htw Hdw].
  assert (HVEs : take_script (V ++ E) = (None, V ++ E)).
  { destruct V as [|t V']; cbn [app].
    - destruct E as [|t E']; [reflexivity|]. cbn [take_script]. destruct HE as (-> & _ & _). reflexivity.
    - cbn [take_script forallb] in *. apply andb_true_iff in HVt as [Ht1 _]. rewrite (variant_not_script _ Ht1). reflexivity. }
  assert (HVEr : take_region (V ++ E) = (None, V ++ E)).
  { destruct V as [|t V']; cbn [app].
    - destruct E as [|t E']; [reflexivity|]. cbn [take_region]. destruct HE as (_ & -> & _). reflexivity.
    - cbn [take_region forallb] in *. apply andb_true_iff in HVt as [Ht1 _]. rewrite (variant_not_region _ Ht1). reflexivity. }
  destruct sc as [s|]; cbn [opt_tok app opt_all] in *.
  - unfold canon_script in Hs. apply andb_true_iff in Hs as [Hs1 Hs2]. apply beqb_eq in Hs2.
    cbn [take_script]. rewrite Hs1, Hs2.
    destruct rg as [r|]; cbn [opt_tok app opt_all] in *.
    + unfold canon_region in Hr. apply andb_true_iff in Hr as [Hr1 Hr2]. apply beqb_eq in Hr2.
      cbn [take_region]. rewrite Hr1, Hr2. fold V. rewrite Htw, Hdw, HVs. reflexivity.
    + fold V. rewrite HVEr, Htw, Hdw, HVs. reflexivity.
  - destruct rg as [r|]; cbn [opt_tok app opt_all] in *.
    + unfold canon_region in Hr. apply andb_true_iff in Hr as [Hr1 Hr2]. apply beqb_eq in Hr2.
      cbn [take_script]. rewrite (region_not_script _ Hr1). cbn [take_region]. rewrite Hr1, Hr2.
      fold V. rewrite Htw, Hdw, HVs. reflexivity.
    + fold V. rewrite HVEs, HVEr, Htw, Hdw, HVs. reflexivity.
Qed.

Corollary langid_from_iter_tokens x E : li_inv x = true -> li_stop E ->
  langid_from_iter (li_tokens x ++ E) true = Ok (x, E).
Proof. intros H HE. rewrite langid_from_iter_spec, (spec_langid_prefix_tokens x E H HE). reflexivity. Qed.

(* ---------- stop tokens ---------- *)
(* what follows an extension body in printed output: nothing, or a one-character token *)
Definition ext_stop (R : list bytes) : Prop := match R with [] => True | t :: _ => length t = 1%nat end.

Lemma single_not_langid t : length t = 1%nat -> script_tok t = false /\ region_tok t = false /\ variant_tok t = false.
Proof.
  intros H. unfold script_tok, region_tok, variant_tok, len_in. rewrite H. cbn.
  rewrite !andb_false_r. destruct t as [|c [|d r]]; try discriminate. cbn. rewrite !andb_false_r. auto.
Qed.
Lemma ext_stop_li_stop R : ext_stop R -> li_stop R.
Proof. destruct R as [|t R']; [auto|]. cbn. apply single_not_langid. Qed.

(* inserting the entries of a strictly key-sorted map, in order, rebuilds it *)
Definition ins_all (es : kmap) (tf : kmap) : kmap := fold_left (fun acc kv => kinsert (fst kv) (snd kv) acc) es tf.

Lemma ksorted_app_inv a b : ksorted (a ++ b) = true -> ksorted a = true /\ ksorted b = true.
Proof.
  induction a as [|[k v] a IH]; cbn [app]; [auto|]. intros H. pose proof (ksorted_tail _ _ H) as Ht.
  destruct (IH Ht) as [Ha Hb]. split; [|exact Hb].
  destruct a as [|[k' v'] a']; [reflexivity|]. cbn [app ksorted] in *. apply andb_true_iff in H as [H1 _]. rewrite H1, Ha. reflexivity.
Qed.
Lemma ksorted_app_lt a k v b : ksorted (a ++ (k, v) :: b) = true -> forall k' v', In (k', v') a -> bltb k' k = true.
Proof.
  induction a as [|[k0 v0] a IH]; cbn [app]; intros H k' v' Hin; [destruct Hin|].
  destruct Hin as [E|Hin].
  - injection E as <- <-. apply (ksorted_head _ _ _ H k v). apply in_or_app. right. left. reflexivity.
  - apply (IH (ksorted_tail _ _ H) k' v' Hin).
Qed.
Lemma ins_all_sorted m : forall tf, ksorted (tf ++ m) = true -> ins_all m tf = tf ++ m.
Proof.
  induction m as [|[k v] m IH]; intros tf H; cbn [ins_all fold_left]; [rewrite app_nil_r; reflexivity|].
  cbn [fst snd]. rewrite (kinsert_end k v tf (ksorted_app_lt tf k v m H)).
  change (fold_left (fun acc kv => kinsert (fst kv) (snd kv) acc) m (tf ++ [(k, v)])) with (ins_all m (tf ++ [(k, v)])).
  rewrite IH; rewrite <- app_assoc; [reflexivity|exact H].
Qed.

(* ================================================================= -t- *)
Lemma tvalue_not_tkey v : canon_tvalue v = true -> tkey_shape v = false /\ (length v =? 1)%nat = false.
Proof.
  unfold canon_tvalue, tvalue_tok, len_in. intros H. apply andb_true_iff in H as [H _]. apply andb_true_iff in H as [H _].
  apply andb_true_iff in H as [_ H]. destruct v as [|a [|b [|c r]]]; cbn [length] in *; try lia. split; [reflexivity|lia].
Qed.
Lemma parse_tvalue_canon_id v : canon_tvalue v = true -> parse_tvalue v = Ok (Some v).
Proof.
  unfold canon_tvalue. intros H. apply andb_true_iff in H as [H Hn]. apply andb_true_iff in H as [Ht Hl]. apply beqb_eq in Hl.
  rewrite parse_tvalue_spec, Ht. unfold drop_true_opt. rewrite Hl. destruct (beqb v true_bytes); [discriminate|reflexivity].
Qed.
Lemma parse_tkey_canon_id k : canon_tkey k = true -> parse_tkey k = Ok k /\ tkey_shape k = true.
Proof.
  unfold canon_tkey. intros H. apply andb_true_iff in H as [Ht Hl]. apply beqb_eq in Hl.
  rewrite parse_tkey_spec, Ht, Hl. auto.
Qed.

(* values of the current key *)
Lemma t_loop_vals vs : forall fuel k vals tf tl REST,
  forallb canon_tvalue vs = true -> (length vs < fuel)%nat ->
  t_loop fuel (Some k) vals tf tl (vs ++ REST) = t_loop (fuel - length vs) (Some k) (vals ++ vs) tf tl REST.
Proof.
  induction vs as [|v vs IH]; intros fuel k vals tf tl REST Hc Hf; cbn [app length].
  - rewrite Nat.sub_0_r, app_nil_r. reflexivity.
  - cbn [forallb] in Hc. apply andb_true_iff in Hc as [Hv Hc]. cbn [length] in Hf.
    destruct fuel as [|f]; [lia|]. cbn [t_loop].
    destruct (tvalue_not_tkey _ Hv) as [-> ->]. cbn [is_some]. rewrite (parse_tvalue_canon_id _ Hv). cbn [bind].
    rewrite (IH f k (vals ++ [v]) tf tl REST Hc ltac:(lia)). rewrite <- app_assoc. reflexivity.
Qed.

Lemma single_t_stop t : length t = 1%nat -> tkey_shape t = false /\ (length t =? 1)%nat = true.
Proof. intros H. rewrite H. split; [|reflexivity]. destruct t as [|a [|b r]]; try discriminate. reflexivity. Qed.

(* the remaining fields: cur/vals is the key being filled, tf what has been flushed *)
Lemma t_loop_entries m : forall fuel cur vals tf tl R,
  forallb (fun kv => canon_tkey (fst kv) && forallb canon_tvalue (snd kv)) m = true -> ext_stop R ->
  (length (kmap_tokens m ++ R) < fuel)%nat ->
  t_loop fuel cur vals tf tl (kmap_tokens m ++ R) =
  Ok (mkT tl (ins_all (match cur with Some k => (k, vals) :: m | None => m end) tf), R).
Proof.
  induction m as [|[k vs] m IH]; intros fuel cur vals tf tl R Hc HR Hf.
  - cbn [kmap_tokens flat_map app] in *. destruct fuel as [|f]; [lia|]. cbn [t_loop].
    destruct R as [|t R'].
    + destruct cur; reflexivity.
    + cbn in HR. destruct (single_t_stop _ HR) as [-> ->]. destruct cur; reflexivity.
  - cbn [forallb fst snd] in Hc. apply andb_true_iff in Hc as [Hkv Hc]. apply andb_true_iff in Hkv as [Hk Hvs].
    change (kmap_tokens ((k, vs) :: m)) with ((k :: vs) ++ kmap_tokens m) in *. rewrite <- app_assoc in *. cbn [app] in *.
    destruct fuel as [|f]; [cbn [length] in Hf; lia|]. cbn [t_loop].
    destruct (parse_tkey_canon_id _ Hk) as [Epk ->]. rewrite Epk. cbn [bind].
    cbn [length] in Hf. rewrite app_length in Hf.
    rewrite (t_loop_vals vs f k [] (flush cur vals tf) tl (kmap_tokens m ++ R) Hvs ltac:(lia)). cbn [app].
    rewrite (IH (f - length vs)%nat (Some k) vs (flush cur vals tf) tl R Hc HR ltac:(lia)).
    destruct cur as [k0|]; reflexivity.
Qed.

Lemma is_language_subtag_lang t : lang_tok t = true -> is_language_subtag t = true /\ tkey_shape t = false /\ (length t =? 1)%nat = false.
Proof.
  unfold lang_tok, len_in, is_language_subtag. intros H. apply andb_true_iff in H as [Ha Hl].
  rewrite existsb_negb_forallb, Ha. split; [|split].
  - rewrite andb_true_r. lia.
  - destruct t as [|a [|b [|c r]]]; try reflexivity. cbn [forallb] in Ha. apply andb_true_iff in Ha as [_ Ha]. apply andb_true_iff in Ha as [Hb _].
    cbn [tkey_shape]. rewrite (alpha_not_digit _ Hb). apply andb_false_r.
  - lia.
Qed.

Lemma tkey_li_stop k E : canon_tkey k = true -> li_stop (k :: E).
Proof.
  unfold canon_tkey, tkey_tok. intros H. apply andb_true_iff in H as [H _].
  destruct k as [|a [|b [|c r]]]; try discriminate. apply andb_true_iff in H as [Ha Hb].
  cbn [li_stop]. unfold script_tok, region_tok, variant_tok, len_in. cbn [length forallb].
  rewrite (alpha_not_digit _ Ha). assert (is_alpha b = false) as -> by (unfold is_alpha, is_upper, is_lower, is_digit, in_range in *; lia).
  cbn. rewrite !andb_false_r. auto.
Qed.

Lemma t_loop_tlang f l REST : li_inv l = true -> li_stop REST ->
  t_loop (S f) None [] [] None (li_tokens l ++ REST) = t_loop f None [] [] (Some l) REST.
Proof.
  intros Hl HR.
  assert (Ht : lang_tok (language_text (li_lang l)) = true).
  { unfold li_inv in Hl. apply andb_true_iff in Hl as [Hl' _]. apply andb_true_iff in Hl' as [Hl' _]. apply andb_true_iff in Hl' as [Hl' _].
    exact (proj1 (lang_text_tok _ Hl')). }
  destruct (is_language_subtag_lang _ Ht) as (Hls & Hnk & Hn1).
  pose proof (langid_from_iter_tokens l REST Hl HR) as E.
  unfold li_tokens in *. cbn [app] in *. cbn [t_loop].
  rewrite Hnk, Hn1. cbn [is_some is_none andb]. rewrite Hls, E. reflexivity.
Qed.

Theorem t_parse_tokens t R : t_inv t = true -> ext_stop R ->
  t_parse ((match t_lang t with Some l => li_tokens l | None => [] end) ++ kmap_tokens (t_fields t) ++ R) = Ok (t, R).
Proof.
  destruct t as [tl tf]. unfold t_inv. cbn [t_lang t_fields]. intros H HR. apply andb_true_iff in H as [Hl Hf].
  unfold kmap_inv in Hf. apply andb_true_iff in Hf as [Hs Hc].
  unfold t_parse.
  assert (Fin : forall fuel tl', (length (kmap_tokens tf ++ R) < fuel)%nat ->
                t_loop fuel None [] [] tl' (kmap_tokens tf ++ R) = Ok (mkT tl' tf, R)).
  { intros fuel tl' Hfu. rewrite (t_loop_entries tf fuel None [] [] tl' R Hc HR Hfu).
    rewrite (ins_all_sorted tf [] Hs). reflexivity. }
  destruct tl as [l|].
  - rewrite t_loop_tlang; [| exact Hl |].
    + apply Fin. unfold li_tokens. cbn [length app]. rewrite !app_length. cbn [length]. lia.
    + destruct tf as [|[k vs] tf']; cbn [kmap_tokens flat_map app].
      * apply ext_stop_li_stop; exact HR.
      * cbn [fst snd]. cbn [forallb fst snd] in Hc. apply andb_true_iff in Hc as [Hk _]. apply andb_true_iff in Hk as [Hk _].
        apply tkey_li_stop; exact Hk.
  - cbn [app]. apply Fin. lia.
Qed.

(* ================================================================= -u- *)
Lemma attr_shape a : canon_attr a = true ->
  (length a =? 2)%nat = false /\ is_attribute a = true /\ parse_attribute a = Ok a.
Proof.
  unfold canon_attr. intros H. apply andb_true_iff in H as [Ht Hl]. apply beqb_eq in Hl.
  rewrite parse_attribute_spec, Ht, Hl. unfold is_attribute. rewrite is_type_tok. unfold attr_tok, utype_tok, len_in in *.
  rewrite Ht. apply andb_true_iff in Ht as [_ Hlen]. repeat split. lia.
Qed.
Lemma utype_shape v : canon_utype v = true ->
  (length v =? 2)%nat = false /\ is_type v = true /\ parse_type v = Ok (Some v).
Proof.
  unfold canon_utype. intros H. apply andb_true_iff in H as [H Hn]. apply andb_true_iff in H as [Ht Hl]. apply beqb_eq in Hl.
  rewrite parse_type_spec, Ht, is_type_tok, Ht. unfold drop_true_opt. rewrite Hl.
  destruct (beqb v true_bytes); [discriminate|]. unfold utype_tok, len_in in Ht. apply andb_true_iff in Ht as [_ Hlen].
  repeat split. lia.
Qed.
Lemma ukey_shape k : canon_ukey k = true -> (length k =? 2)%nat = true /\ parse_key k = Ok k.
Proof.
  unfold canon_ukey. intros H. apply andb_true_iff in H as [Ht Hl]. apply beqb_eq in Hl.
  rewrite parse_key_spec, Ht, Hl. split; [|reflexivity]. destruct k as [|a [|b [|c r]]]; try discriminate. reflexivity.
Qed.
Lemma single_u_stop t (cur : option bytes) : length t = 1%nat ->
  (length t =? 2)%nat = false /\ (is_some cur && is_type t) = false /\ is_attribute t = false.
Proof.
  intros H. unfold is_attribute, is_type. rewrite H. cbn. rewrite andb_false_r. auto.
Qed.

Lemma u_loop_attrs attrs : forall attrs0 REST,
  forallb canon_attr attrs = true ->
  u_loop None [] [] attrs0 (attrs ++ REST) = u_loop None [] [] (attrs0 ++ attrs) REST.
Proof.
  induction attrs as [|a attrs IH]; intros attrs0 REST Hc; cbn [app]; [rewrite app_nil_r; reflexivity|].
  cbn [forallb] in Hc. apply andb_true_iff in Hc as [Ha Hc]. destruct (attr_shape _ Ha) as (E2 & Eat & Ep).
  cbn [u_loop]. rewrite E2. cbn [is_some andb]. rewrite Eat, Ep. cbn [bind].
  rewrite (IH (attrs0 ++ [a]) REST Hc), <- app_assoc. reflexivity.
Qed.
Lemma u_loop_types vs : forall k types kws attrs REST,
  forallb canon_utype vs = true ->
  u_loop (Some k) types kws attrs (vs ++ REST) = u_loop (Some k) (types ++ vs) kws attrs REST.
Proof.
  induction vs as [|v vs IH]; intros k types kws attrs REST Hc; cbn [app]; [rewrite app_nil_r; reflexivity|].
  cbn [forallb] in Hc. apply andb_true_iff in Hc as [Hv Hc]. destruct (utype_shape _ Hv) as (E2 & Ety & Ep).
  cbn [u_loop]. rewrite E2. cbn [is_some andb]. rewrite Ety, Ep. cbn [bind].
  rewrite (IH k (types ++ [v]) kws attrs REST Hc), <- app_assoc. reflexivity.
Qed.
Lemma u_loop_entries m : forall cur types kws attrs R,
  forallb (fun kv => canon_ukey (fst kv) && forallb canon_utype (snd kv)) m = true -> ext_stop R ->
  u_loop cur types kws attrs (kmap_tokens m ++ R) =
  Ok (mkU (ins_all (match cur with Some k => (k, types) :: m | None => m end) kws) (dedup (sort attrs)), R).
Proof.
  induction m as [|[k vs] m IH]; intros cur types kws attrs R Hc HR.
  - cbn [kmap_tokens flat_map app]. destruct R as [|t R']; cbn [u_loop].
    + destruct cur; reflexivity.
    + cbn in HR. destruct (single_u_stop t cur HR) as (-> & -> & ->). destruct cur; reflexivity.
  - cbn [forallb fst snd] in Hc. apply andb_true_iff in Hc as [Hkv Hc]. apply andb_true_iff in Hkv as [Hk Hvs].
    change (kmap_tokens ((k, vs) :: m)) with ((k :: vs) ++ kmap_tokens m). rewrite <- app_assoc. cbn [app].
    cbn [u_loop]. destruct (ukey_shape _ Hk) as [-> Epk]. rewrite Epk. cbn [bind].
    rewrite (u_loop_types vs k [] (flush cur types kws) attrs (kmap_tokens m ++ R) Hvs). cbn [app].
    rewrite (IH (Some k) vs (flush cur types kws) attrs R Hc HR).
    destruct cur as [k0|]; reflexivity.
Qed.

Theorem u_parse_tokens u R : u_inv u = true -> ext_stop R ->
  u_parse (u_attrs u ++ kmap_tokens (u_keywords u) ++ R) = Ok (u, R).
Proof.
  destruct u as [kws attrs]. unfold u_inv. cbn [u_keywords u_attrs]. intros H HR.
  apply andb_true_iff in H as [H Hso]. apply andb_true_iff in H as [Hk Ha].
  unfold kmap_inv in Hk. apply andb_true_iff in Hk as [Hs Hc].
  unfold u_parse. rewrite (u_loop_attrs attrs [] _ Ha). cbn [app].
  rewrite (u_loop_entries kws None [] [] attrs R Hc HR). rewrite (ins_all_sorted kws [] Hs). cbn [app].
  fold (canon attrs). rewrite (canon_id attrs (proj1 (ssortedb_iff attrs) Hso)). reflexivity.
Qed.

(* ================================================================= -x- *)
Theorem x_parse_tokens x : x_inv x = true -> x_parse x = Ok x.
Proof.
  unfold x_inv, x_parse. intros H. apply andb_true_iff in H as [Hc Hs].
  assert (E : x_collect x = Ok x).
  { induction x as [|t x IH]; [reflexivity|]. cbn [forallb] in Hc. apply andb_true_iff in Hc as [Ht Hc].
    cbn [x_collect]. unfold canon_priv in Ht. apply andb_true_iff in Ht as [Ht Hl]. apply beqb_eq in Hl.
    rewrite parse_value_spec, Ht, Hl. cbn [bind]. rewrite IH; [reflexivity|exact Hc|].
    apply sortedb_iff. apply sortedb_iff in Hs. exact (Sorted_le_tail _ _ Hs). }
  rewrite E. cbn [bind]. rewrite (sort_id x (proj1 (sortedb_iff x) Hs)). reflexivity.
Qed.

(* ================================================================= dispatch and the whole locale *)
Lemma dispatch_mono f : forall f' su st acc toks e, (f <= f')%nat -> dispatch f su st acc toks = Ok e -> dispatch f' su st acc toks = Ok e.
Proof.
  induction f as [|f IH]; intros f' su st acc toks e Hle; cbn [dispatch]; [discriminate|].
  destruct f' as [|f']; [lia|]. cbn [dispatch].
  destruct toks as [|t rest]; [auto|].
  destruct (1 <? length t)%nat; [auto|].
  destruct t as [|b r]; [apply IH; lia|].
  destruct (ext_type_from_byte b) as [[| | |c]| | |]; auto.
  - destruct su; [auto|]. destruct (u_parse rest) as [[u rem]| | |]; cbn [bind fst snd]; auto. apply IH; lia.
  - destruct st; [auto|]. destruct (t_parse rest) as [[u rem]| | |]; cbn [bind fst snd]; auto. apply IH; lia.
Qed.

Definition n_ext (e : extmap) : nat :=
  ((if t_is_empty (e_transform e) then 0 else 1) + (if u_is_empty (e_unicode e) then 0 else 1)
   + (match e_private e with [] => 0 | _ => 1 end))%nat.

Lemma x_tokens_stop x : ext_stop (x_tokens x).
Proof. destruct x; cbn; auto. Qed.
Lemma ux_tokens_stop u x : ext_stop (u_tokens u ++ x_tokens x).
Proof. unfold u_tokens. destruct (u_is_empty u); cbn [app]; [apply x_tokens_stop|reflexivity]. Qed.

Lemma dispatch_step_t f su acc rest :
  dispatch (S f) su false acc ([116] :: rest)
  = bind (t_parse rest) (fun tr => dispatch f su true (mkE (e_unicode acc) (fst tr) (e_private acc)) (snd tr)).
Proof. reflexivity. Qed.
Lemma dispatch_step_u f st acc rest :
  dispatch (S f) false st acc ([117] :: rest)
  = bind (u_parse rest) (fun ur => dispatch f true st (mkE (fst ur) (e_transform acc) (e_private acc)) (snd ur)).
Proof. reflexivity. Qed.
Lemma dispatch_step_x f su st acc rest :
  dispatch (S f) su st acc ([120] :: rest) = bind (x_parse rest) (fun x => Ok (mkE (e_unicode acc) (e_transform acc) x)).
Proof. reflexivity. Qed.
Lemma dispatch_step_nil f su st acc : dispatch (S f) su st acc [] = Ok acc.
Proof. reflexivity. Qed.
Lemma dispatch_step_empty f su st acc rest : dispatch (S f) su st acc ([] :: rest) = dispatch f su st acc rest.
Proof. reflexivity. Qed.

Lemma dispatch_x f su st acc x : x_inv x = true ->
  dispatch (S f) su st acc (x_tokens x) = Ok (mkE (e_unicode acc) (e_transform acc) (match x with [] => e_private acc | _ => x end)).
Proof.
  intros Hx. destruct x as [|t x']; cbn [x_tokens]; [rewrite dispatch_step_nil; destruct acc; reflexivity|].
  rewrite dispatch_step_x, (x_parse_tokens (t :: x') Hx). reflexivity.
Qed.

Lemma ext_tokens_length e : (n_ext e <= length (ext_tokens e))%nat.
Proof.
  unfold n_ext, ext_tokens, t_tokens, u_tokens, x_tokens. rewrite !app_length.
  destruct (t_is_empty (e_transform e)), (u_is_empty (e_unicode e)), (e_private e); cbn [length]; lia.
Qed.

Theorem ext_from_iter_tokens e : ext_inv e = true -> ext_from_iter (ext_tokens e) = Ok e.
Proof.
  intros Hinv. unfold ext_inv in Hinv. apply andb_true_iff in Hinv as [Hinv Hx]. apply andb_true_iff in Hinv as [Hu Ht].
  unfold ext_from_iter. apply (dispatch_mono (S (n_ext e))); [pose proof (ext_tokens_length e); lia|].
  destruct e as [u t x]. cbn [e_unicode e_transform e_private] in *.
  unfold ext_tokens, n_ext. cbn [e_unicode e_transform e_private].
  set (nx := match x with [] => 0%nat | _ => 1%nat end).
  (* the part after -t- *)
  assert (AfterT : forall st acc, e_private acc = [] ->
            dispatch (S ((if u_is_empty u then 0 else 1) + nx)) false st acc (u_tokens u ++ x_tokens x)
            = Ok (mkE (if u_is_empty u then e_unicode acc else u) (e_transform acc) x)).
  { intros st acc Hp. unfold u_tokens. destruct (u_is_empty u) eqn:Eu; cbn [app Nat.add].
    - rewrite (dispatch_x nx false st acc x Hx). rewrite Hp. destruct x; reflexivity.
    - rewrite dispatch_step_u.
      rewrite <- app_assoc. rewrite (u_parse_tokens u (x_tokens x) Hu (x_tokens_stop x)). cbn [bind fst snd].
      destruct x as [|tg x']; subst nx; cbn [x_tokens].
      + rewrite dispatch_step_nil. cbn [e_private]. rewrite Hp. reflexivity.
      + rewrite dispatch_step_x, (x_parse_tokens (tg :: x') Hx). reflexivity. }
  unfold t_tokens. destruct (t_is_empty t) eqn:Et; cbn [app Nat.add].
  - rewrite (AfterT false extmap_default eq_refl). cbn [extmap_default e_unicode e_transform].
    destruct t as [[l|] [|kv m]]; try discriminate.
    destruct (u_is_empty u) eqn:Eu; [|reflexivity].
    destruct u as [[|kv m] [|a at']]; try discriminate. reflexivity.
  - rewrite dispatch_step_t.
    rewrite <- app_assoc. rewrite (t_parse_tokens t (u_tokens u ++ x_tokens x) Ht (ux_tokens_stop u x)). cbn [bind fst snd].
    rewrite (AfterT true (mkE (e_unicode extmap_default) t (e_private extmap_default)) eq_refl). cbn [extmap_default e_unicode e_transform e_private].
    destruct (u_is_empty u) eqn:Eu; [|reflexivity].
    destruct u as [[|kv m] [|a at']]; try discriminate. reflexivity.
Qed.

(* all printed tokens are separator-free, so split . join is the identity on them *)
Lemma kmap_tokens_alnum ck cv m :
  (forall k, ck k = true -> forallb is_alnum k = true) -> (forall v, cv v = true -> forallb is_alnum v = true) ->
  forallb (fun kv => ck (fst kv) && forallb cv (snd kv)) m = true -> forallb (forallb is_alnum) (kmap_tokens m) = true.
Proof.
  intros Hk Hv. induction m as [|[k vs] m IH]; [reflexivity|].
  intros H. cbn [forallb fst snd] in H. apply andb_true_iff in H as [H Hm]. apply andb_true_iff in H as [H1 H2].
  change (kmap_tokens ((k, vs) :: m)) with ((k :: vs) ++ kmap_tokens m). rewrite forallb_app. cbn [forallb].
  rewrite (Hk _ H1), (IH Hm), andb_true_r. cbn [andb]. revert H2. apply forallb_imp. exact Hv.
Qed.
Lemma tok2_alnum (p : bytes -> bool) k : (p k = true -> forallb is_alnum k = true) -> p k = true -> forallb is_alnum k = true.
Proof. auto. Qed.
Lemma ukey_alnum k : canon_ukey k = true -> forallb is_alnum k = true.
Proof. unfold canon_ukey, ukey_tok. intros H. apply andb_true_iff in H as [H _]. destruct k as [|a [|b [|c r]]]; try discriminate.
  apply andb_true_iff in H as [Ha Hb]. cbn [forallb]. rewrite Ha, (is_alpha_alnum _ Hb). reflexivity. Qed.
Lemma tkey_alnum k : canon_tkey k = true -> forallb is_alnum k = true.
Proof. unfold canon_tkey, tkey_tok. intros H. apply andb_true_iff in H as [H _]. destruct k as [|a [|b [|c r]]]; try discriminate.
  apply andb_true_iff in H as [Ha Hb]. cbn [forallb]. rewrite (is_alpha_alnum _ Ha), (is_digit_alnum _ Hb). reflexivity. Qed.
Lemma utype_alnum v : canon_utype v = true -> forallb is_alnum v = true.
Proof. unfold canon_utype, utype_tok. intros H. apply andb_true_iff in H as [H _]. apply andb_true_iff in H as [H _]. apply andb_true_iff in H as [H _]. exact H. Qed.
Lemma tvalue_alnum v : canon_tvalue v = true -> forallb is_alnum v = true.
Proof. unfold canon_tvalue, tvalue_tok. intros H. apply andb_true_iff in H as [H _]. apply andb_true_iff in H as [H _]. apply andb_true_iff in H as [H _]. exact H. Qed.
Lemma attr_alnum v : canon_attr v = true -> forallb is_alnum v = true.
Proof. unfold canon_attr, attr_tok. intros H. apply andb_true_iff in H as [H _]. apply andb_true_iff in H as [H _]. exact H. Qed.
Lemma priv_alnum v : canon_priv v = true -> forallb is_alnum v = true.
Proof. unfold canon_priv, priv_tok. intros H. apply andb_true_iff in H as [H _]. apply andb_true_iff in H as [H _]. exact H. Qed.

Lemma ext_tokens_alnum e : ext_inv e = true -> forallb (forallb is_alnum) (ext_tokens e) = true.
Proof.
  intros Hinv. unfold ext_inv in Hinv. apply andb_true_iff in Hinv as [Hinv Hx]. apply andb_true_iff in Hinv as [Hu Ht].
  unfold ext_tokens. rewrite !forallb_app. apply andb_true_iff; split; [|apply andb_true_iff; split].
  - unfold t_tokens. destruct (t_is_empty (e_transform e)); [reflexivity|].
    unfold t_inv in Ht. apply andb_true_iff in Ht as [Hl Hf]. unfold kmap_inv in Hf. apply andb_true_iff in Hf as [_ Hf].
    apply forallb_forall. intros tok Hin. destruct Hin as [<-|Hin]; [reflexivity|].
    apply in_app_or in Hin as [Hin|Hin].
    + destruct (t_lang (e_transform e)) as [l|]; [|destruct Hin].
      exact (proj1 (forallb_forall _ _) (li_tokens_alnum _ Hl) _ Hin).
    + exact (proj1 (forallb_forall _ _) (kmap_tokens_alnum canon_tkey canon_tvalue _ tkey_alnum tvalue_alnum Hf) _ Hin).
  - unfold u_tokens. destruct (u_is_empty (e_unicode e)); [reflexivity|].
    unfold u_inv in Hu. apply andb_true_iff in Hu as [Hu _]. apply andb_true_iff in Hu as [Hk Ha].
    unfold kmap_inv in Hk. apply andb_true_iff in Hk as [_ Hk].
    apply forallb_forall. intros tok Hin. destruct Hin as [<-|Hin]; [reflexivity|].
    apply in_app_or in Hin as [Hin|Hin].
    + apply attr_alnum. exact (proj1 (forallb_forall _ _) Ha _ Hin).
    + exact (proj1 (forallb_forall _ _) (kmap_tokens_alnum canon_ukey canon_utype _ ukey_alnum utype_alnum Hk) _ Hin).
  - unfold x_inv in Hx. apply andb_true_iff in Hx as [Hx _].
    unfold x_tokens. destruct (e_private e) eqn:E; [reflexivity|]. rewrite <- E in *.
    apply forallb_forall. intros tok Hin. destruct Hin as [<-|Hin]; [reflexivity|].
    apply priv_alnum. exact (proj1 (forallb_forall _ _) Hx _ Hin).
Qed.

Lemma alnum_all_nosep toks : forallb (forallb is_alnum) toks = true -> forallb nosep toks = true.
Proof. apply forallb_imp. exact alnum_nosep. Qed.

Lemma ext_tokens_stop e : ext_stop (ext_tokens e).
Proof.
  unfold ext_tokens, t_tokens. destruct (t_is_empty (e_transform e)); cbn [app]; [apply ux_tokens_stop|reflexivity].
Qed.

(* C05: Locale *)
Theorem locale_roundtrip l : loc_inv l = true -> locale_from_bytes (loc_to_string l) = Ok l.
Proof.
  intros Hinv. unfold loc_inv in Hinv. apply andb_true_iff in Hinv as [Hid He].
  unfold locale_from_bytes, loc_to_string, loc_tokens.
  rewrite split_join.
  - rewrite (langid_from_iter_tokens (loc_id l) (ext_tokens (loc_ext l)) Hid (ext_stop_li_stop _ (ext_tokens_stop _))).
    rewrite (ext_from_iter_tokens _ He). cbn [bind]. destruct l; reflexivity.
  - unfold li_tokens. cbn [app]. congruence.
  - rewrite forallb_app. rewrite (li_tokens_nosep _ Hid). apply alnum_all_nosep, ext_tokens_alnum; exact He.
Qed.

(* C05: ExtensionsMap (its string starts with '-': the empty first token is skipped) *)
Theorem extmap_roundtrip e : ext_inv e = true -> extmap_from_bytes (ext_to_string e) = Ok e.
Proof.
  intros He. unfold extmap_from_bytes, ext_to_string.
  destruct (ext_tokens e) as [|t toks] eqn:E.
  - cbn. pose proof (ext_from_iter_tokens e He) as R. rewrite E in R. cbn in R. injection R as <-. reflexivity.
  - change (45 :: join (t :: toks)) with (join ([] :: t :: toks)).
    rewrite split_join; [|congruence|].
    + unfold ext_from_iter. change (length ([] :: t :: toks)) with (S (length (t :: toks))). rewrite dispatch_step_empty.
      pose proof (ext_from_iter_tokens e He) as R. rewrite E in R. exact R.
    + cbn [forallb nosep andb]. fold (nosep t). change (nosep t && forallb nosep toks) with (forallb nosep (t :: toks)).
      rewrite <- E. apply alnum_all_nosep, ext_tokens_alnum; exact He.
Qed.

Theorem loc_canonicalize_idem s t : loc_canonicalize s = Ok t -> loc_canonicalize t = Ok t.
Proof.
  unfold loc_canonicalize. destruct (locale_from_bytes s) as [l| | |] eqn:E; cbn [bind]; try discriminate.
  intros H. injection H as <-. rewrite (locale_roundtrip l (locale_parse_inv _ _ E)). reflexivity.
Qed.
