(* SearchContract.v — the table lookup is modelled by assoc1 (first row with that key).  The code calls
   slice::binary_search_by_key and then indexes the table with the position found.  This file proves that ANY search
   function meeting the documented contract of binary_search (Some i: row i has the key; None: no row has it) gives,
   on a table strictly increasing in the key (C18_sorted), exactly the model's answer - so the model does not depend
   on which of several equal-keyed rows a particular binary search would land on: there are none. *)
From UL Require Import Bytes Likely TablesData.
From Coq Require Import List NArith Lia ZifyBool ZifyN Bool.
Import ListNotations.
Local Open Scope N_scope.

Definition search_contract1 (f : N -> list (N * tval) -> option nat) : Prop :=
  forall k l, match f k l with
              | Some i => exists v, nth_error l i = Some (k, v)
              | None => forall v, ~ In (k, v) l
              end.

Lemma sorted1_cons2 k v k1 v1 r :
  sorted1 ((k, v) :: (k1, v1) :: r) = ((k <? k1) && sorted1 ((k1, v1) :: r))%bool.
Proof. reflexivity. Qed.

Lemma sorted1_tail k v l : sorted1 ((k, v) :: l) = true -> sorted1 l = true.
Proof.
  destruct l as [|[k1 v1] r]; [reflexivity|]. rewrite sorted1_cons2. intros H.
  apply andb_true_iff in H. exact (proj2 H).
Qed.

Lemma sorted1_head l : forall k v, sorted1 ((k, v) :: l) = true -> forall k' v', In (k', v') l -> k < k'.
Proof.
  induction l as [|[k1 v1] r IH]; intros k v S k' v' Hin; [contradiction|].
  rewrite sorted1_cons2 in S. apply andb_true_iff in S. destruct S as [Hlt S].
  apply N.ltb_lt in Hlt. destruct Hin as [E|Hin].
  - injection E as <- <-. exact Hlt.
  - pose proof (IH k1 v1 S k' v' Hin) as H. lia.
Qed.

Lemma assoc1_unique l : sorted1 l = true -> forall k v, In (k, v) l -> assoc1 k l = Some v.
Proof.
  induction l as [|[k0 v0] r IH]; intros S k v Hin; [contradiction|]. cbn [assoc1].
  destruct Hin as [E|Hin].
  - injection E as -> ->. rewrite N.eqb_refl. reflexivity.
  - pose proof (sorted1_head r k0 v0 S k v Hin) as Hlt.
    destruct (k0 =? k) eqn:E; [apply N.eqb_eq in E; lia|].
    apply IH; [exact (sorted1_tail k0 v0 r S)|exact Hin].
Qed.

Lemma assoc1_none k l : (forall v, ~ In (k, v) l) -> assoc1 k l = None.
Proof.
  induction l as [|[k0 v0] r IH]; intros H; [reflexivity|]. cbn [assoc1].
  destruct (k0 =? k) eqn:E.
  - apply N.eqb_eq in E. subst k0. exfalso. apply (H v0). left. reflexivity.
  - apply IH. intros v Hv. apply (H v). right. exact Hv.
Qed.

Theorem search_contract_is_assoc1 f : search_contract1 f -> forall k l, sorted1 l = true ->
  match f k l with Some i => option_map snd (nth_error l i) | None => None end = assoc1 k l.
Proof.
  intros C k l S. specialize (C k l). destruct (f k l) as [i|].
  - destruct C as [v Hv]. rewrite Hv. cbn [option_map snd]. symmetry.
    apply assoc1_unique; [exact S|]. apply (nth_error_In l i). exact Hv.
  - symmetry. apply assoc1_none. exact C.
Qed.

(* the contract is satisfiable: linear search for the position meets it (so the theorem is not vacuous), and on an
   UNSORTED table the conclusion can fail for a contract-respecting search - sortedness is what is used *)
Fixpoint find1 (k : N) (l : list (N * tval)) : option nat :=
  match l with
  | [] => None
  | (k', _) :: r => if k' =? k then Some O else option_map S (find1 k r)
  end.
Lemma find1_contract : search_contract1 find1.
Proof.
  intros k l. induction l as [|[k0 v0] r IH]; cbn [find1]; [intros v H; exact H|].
  destruct (k0 =? k) eqn:E.
  - apply N.eqb_eq in E. subst k0. exists v0. reflexivity.
  - destruct (find1 k r) as [i|]; cbn [option_map].
    + destruct IH as [v Hv]. exists v. exact Hv.
    + intros v [H|H]; [injection H as -> _; rewrite N.eqb_refl in E; discriminate|exact (IH v H)].
Qed.

(* ---- the two-key tables (language+region, language+script, script+region): same statement for assoc2 / sorted2 *)
Definition search_contract2 (f : N -> N -> list (N * N * tval) -> option nat) : Prop :=
  forall a b l, match f a b l with
                | Some i => exists v, nth_error l i = Some (a, b, v)
                | None => forall v, ~ In (a, b, v) l
                end.

Lemma sorted2_cons2 a b v a1 b1 v1 r :
  sorted2 ((a, b, v) :: (a1, b1, v1) :: r) = (lt2 a b a1 b1 && sorted2 ((a1, b1, v1) :: r))%bool.
Proof. reflexivity. Qed.

Lemma sorted2_tail a b v l : sorted2 ((a, b, v) :: l) = true -> sorted2 l = true.
Proof.
  destruct l as [|[[a1 b1] v1] r]; [reflexivity|]. rewrite sorted2_cons2. intros H.
  apply andb_true_iff in H. exact (proj2 H).
Qed.

Definition lex_lt (a b a' b' : N) : Prop := a < a' \/ (a = a' /\ b < b').
Lemma lt2_lex a b a' b' : lt2 a b a' b' = true <-> lex_lt a b a' b'.
Proof. unfold lt2, lex_lt. lia. Qed.

Lemma sorted2_head l : forall a b v, sorted2 ((a, b, v) :: l) = true ->
  forall a' b' v', In (a', b', v') l -> lex_lt a b a' b'.
Proof.
  induction l as [|[[a1 b1] v1] r IH]; intros a b v S a' b' v' Hin; [contradiction|].
  rewrite sorted2_cons2 in S. apply andb_true_iff in S. destruct S as [Hlt S].
  apply lt2_lex in Hlt. destruct Hin as [E|Hin].
  - injection E as <- <- <-. exact Hlt.
  - pose proof (IH a1 b1 v1 S a' b' v' Hin) as H. unfold lex_lt in *. lia.
Qed.

Lemma assoc2_unique l : sorted2 l = true -> forall a b v, In (a, b, v) l -> assoc2 a b l = Some v.
Proof.
  induction l as [|[[a0 b0] v0] r IH]; intros S a b v Hin; [contradiction|]. cbn [assoc2].
  destruct Hin as [E|Hin].
  - injection E as -> -> ->. rewrite !N.eqb_refl. reflexivity.
  - pose proof (sorted2_head r a0 b0 v0 S a b v Hin) as Hlt. unfold lex_lt in Hlt.
    destruct ((a0 =? a) && (b0 =? b))%bool eqn:E; [exfalso; lia|].
    apply IH; [exact (sorted2_tail a0 b0 v0 r S)|exact Hin].
Qed.

Lemma assoc2_none a b l : (forall v, ~ In (a, b, v) l) -> assoc2 a b l = None.
Proof.
  induction l as [|[[a0 b0] v0] r IH]; intros H; [reflexivity|]. cbn [assoc2].
  destruct ((a0 =? a) && (b0 =? b))%bool eqn:E.
  - assert (a0 = a /\ b0 = b) as [-> ->] by lia. exfalso. apply (H v0). left. reflexivity.
  - apply IH. intros v Hv. apply (H v). right. exact Hv.
Qed.

Theorem search_contract_is_assoc2 f : search_contract2 f -> forall a b l, sorted2 l = true ->
  match f a b l with Some i => option_map snd (nth_error l i) | None => None end = assoc2 a b l.
Proof.
  intros C a b l S. specialize (C a b l). destruct (f a b l) as [i|].
  - destruct C as [v Hv]. rewrite Hv. cbn [option_map snd]. symmetry.
    apply assoc2_unique; [exact S|]. apply (nth_error_In l i). exact Hv.
  - symmetry. apply assoc2_none. exact C.
Qed.
