(* SubtagProofs.v — C15: each subtag parser accepts exactly its production *)
From UL Require Import Bytes Subtags Grammar BytesProofs.
From Coq Require Import Lia ZifyBool ZifyN.
Open Scope N_scope.
Arguments N.add : simpl never.
Arguments N.sub : simpl never.
Arguments N.mul : simpl never.
Arguments N.leb : simpl never.
Arguments N.ltb : simpl never.
Arguments N.eqb : simpl never.

Lemma alpha_tiny b : is_alpha b = true -> tiny_byte b = true.
Proof. unfold is_alpha, is_upper, is_lower, in_range, tiny_byte. lia. Qed.
Lemma digit_tiny b : is_digit b = true -> tiny_byte b = true.
Proof. unfold is_digit, in_range, tiny_byte. lia. Qed.
Lemma alnum_tiny b : is_alnum b = true -> tiny_byte b = true.
Proof. unfold is_alnum. intros H. apply orb_true_iff in H as [H|H]; [apply alpha_tiny|apply digit_tiny]; exact H. Qed.

Lemma forallb_alpha_tiny s : forallb is_alpha s = true -> forallb tiny_byte s = true.
Proof. apply forallb_imp, alpha_tiny. Qed.
Lemma forallb_digit_tiny s : forallb is_digit s = true -> forallb tiny_byte s = true.
Proof. apply forallb_imp, digit_tiny. Qed.
Lemma forallb_alnum_tiny s : forallb is_alnum s = true -> forallb tiny_byte s = true.
Proof. apply forallb_imp, alnum_tiny. Qed.

(* ---------- Language ---------- *)
Lemma language_spec s :
  language_from_bytes s = if lang_tok s then Ok (spec_language_value s) else Err InvalidLanguage.
Proof.
  unfold language_from_bytes, lang_tok, spec_language_value, tiny_ok, len_in, und, und_b.
  destruct (forallb is_alpha s) eqn:Ha.
  - rewrite (forallb_alpha_tiny _ Ha).
    destruct (length s <=? 8)%nat eqn:E8; cbn [andb negb orb].
    + destruct (2 <=? length s)%nat eqn:E2; destruct (length s =? 4)%nat eqn:E4;
        destruct (length s <=? 3)%nat eqn:E3; destruct (5 <=? length s)%nat eqn:E5;
        cbn [andb negb orb]; try reflexivity; try lia; destruct (beqb (lower s) [117; 110; 100]); reflexivity.
    + destruct (length s <=? 3)%nat eqn:E3; [lia|]. rewrite !andb_false_r. reflexivity.
  - cbn [andb negb orb]. destruct (negb _); [reflexivity|]. rewrite !orb_true_r. reflexivity.
Qed.

(* ---------- Script ---------- *)
Lemma script_spec s :
  script_from_bytes s = if script_tok s then Ok (title s) else Err InvalidSubtag.
Proof.
  unfold script_from_bytes, script_tok, tiny_ok.
  destruct (forallb is_alpha s) eqn:Ha.
  - rewrite (forallb_alpha_tiny _ Ha).
    destruct (length s =? 4)%nat eqn:E4; destruct (length s <=? 4)%nat eqn:E; cbn [andb negb orb]; try reflexivity; lia.
  - cbn [andb negb orb]. destruct (negb _); [reflexivity|]. rewrite orb_true_r. reflexivity.
Qed.

(* ---------- Region ---------- *)
Definition spec_region_value (s : bytes) : bytes := if (length s =? 2)%nat then upper s else s.

Lemma region_spec s :
  region_from_bytes s = if region_tok s then Ok (spec_region_value s) else Err InvalidSubtag.
Proof.
  unfold region_from_bytes, region_tok, spec_region_value, tiny_ok.
  destruct (length s =? 2)%nat eqn:E2.
  - assert ((length s =? 3)%nat = false) as -> by lia. rewrite andb_false_r, orb_false_r, andb_true_r.
    destruct (forallb is_alpha s) eqn:Ha.
    + rewrite (forallb_alpha_tiny _ Ha). assert ((length s <=? 4)%nat = true) as -> by lia. reflexivity.
    + destruct (negb _); reflexivity.
  - rewrite andb_false_r, orb_false_l.
    destruct (length s =? 3)%nat eqn:E3; [|rewrite andb_false_r; reflexivity].
    rewrite andb_true_r. destruct (forallb is_digit s) eqn:Hd.
    + rewrite (forallb_digit_tiny _ Hd). assert ((length s <=? 4)%nat = true) as -> by lia. reflexivity.
    + destruct (negb _); reflexivity.
Qed.

(* ---------- Variant ---------- *)
Lemma variant_spec s :
  variant_from_bytes s = if variant_tok s then Ok (lower s) else Err InvalidSubtag.
Proof.
  unfold variant_from_bytes, variant_tok, tiny_ok, len_in.
  destruct (4 <=? length s)%nat eqn:E4; cbn [andb negb].
  2:{ assert ((5 <=? length s)%nat = false) as -> by lia. rewrite andb_false_l, andb_false_r, orb_false_l.
      destruct s as [|c r]; [reflexivity|]. cbn [length] in *.
      assert ((length r =? 3)%nat = false) as -> by lia. rewrite andb_false_r. reflexivity. }
  destruct (length s <=? 8)%nat eqn:E8; cbn [andb negb].
  2:{ rewrite andb_false_r, andb_false_r, orb_false_l.
      destruct s as [|c r]; [reflexivity|]. cbn [length] in *.
      assert ((length r =? 3)%nat = false) as -> by lia. rewrite andb_false_r. reflexivity. }
  destruct (5 <=? length s)%nat eqn:E5; cbn [andb negb].
  - (* length 5..8 *)
    assert ((length s =? 4)%nat = false) as E44 by lia. rewrite E44.
    assert (match s with [] => false | c :: r => is_digit c && forallb is_alnum r && (length r =? 3)%nat end = false) as ->.
    { destruct s as [|c r]; [reflexivity|]. cbn [length] in *. assert ((length r =? 3)%nat = false) as -> by lia. apply andb_false_r. }
    rewrite orb_false_r, andb_true_r.
    destruct (forallb is_alnum s) eqn:Ha.
    + rewrite (forallb_alnum_tiny _ Ha). reflexivity.
    + cbn [negb]. destruct (negb (forallb tiny_byte s)); reflexivity.
  - (* length 4 *)
    assert ((length s =? 4)%nat = true) as E44 by lia. rewrite E44.
    rewrite andb_false_r, orb_false_l.
    destruct s as [|c r]; [cbn [length] in *; lia|]. cbn [nth_error length forallb] in *.
    assert ((length r =? 3)%nat = true) as -> by lia. rewrite andb_true_r.
    destruct (is_digit c) eqn:Hd; cbn [negb orb andb].
    + rewrite (is_digit_alnum _ Hd). cbn [andb].
      destruct (forallb is_alnum r) eqn:Ha; cbn [negb].
      * rewrite (digit_tiny _ Hd), (forallb_alnum_tiny _ Ha). reflexivity.
      * destruct (negb _); reflexivity.
    + destruct (negb _); reflexivity.
Qed.

(* never a panic, never out of fuel *)
Lemma language_total s : (exists v, language_from_bytes s = Ok v) \/ language_from_bytes s = Err InvalidLanguage.
Proof. rewrite language_spec. destruct (lang_tok s); eauto. Qed.
Lemma script_total s : (exists v, script_from_bytes s = Ok v) \/ script_from_bytes s = Err InvalidSubtag.
Proof. rewrite script_spec. destruct (script_tok s); eauto. Qed.
Lemma region_total s : (exists v, region_from_bytes s = Ok v) \/ region_from_bytes s = Err InvalidSubtag.
Proof. rewrite region_spec. destruct (region_tok s); eauto. Qed.
Lemma variant_total s : (exists v, variant_from_bytes s = Ok v) \/ variant_from_bytes s = Err InvalidSubtag.
Proof. rewrite variant_spec. destruct (variant_tok s); eauto. Qed.

(* ---------- the stored text: case ---------- *)
Definition is_lower_or_digit (b : N) : bool := is_lower b || is_digit b.

Lemma to_lower_alnum b : is_alnum b = true -> is_lower_or_digit (to_lower b) = true.
Proof. unfold is_alnum, is_alpha, is_lower_or_digit, to_lower, is_upper, is_lower, is_digit, in_range. intros H.
  destruct ((65 <=? b) && (b <=? 90)) eqn:E; lia. Qed.
Lemma to_upper_alpha b : is_alpha b = true -> is_upper (to_upper b) = true.
Proof. unfold is_alpha, to_upper, is_upper, is_lower, in_range. intros H.
  destruct ((97 <=? b) && (b <=? 122)) eqn:E; lia. Qed.

Lemma lower_alpha_shape s : forallb is_alpha s = true -> forallb is_lower (lower s) = true.
Proof. induction s as [|b s IH]; cbn [forallb lower map]; [reflexivity|]. intros H.
  apply andb_true_iff in H as [H1 H2]. rewrite (to_lower_alpha _ H1). apply IH; exact H2. Qed.
Lemma lower_alnum_shape s : forallb is_alnum s = true -> forallb is_lower_or_digit (lower s) = true.
Proof. induction s as [|b s IH]; cbn [forallb lower map]; [reflexivity|]. intros H.
  apply andb_true_iff in H as [H1 H2]. rewrite (to_lower_alnum _ H1). apply IH; exact H2. Qed.
Lemma upper_alpha_shape s : forallb is_alpha s = true -> forallb is_upper (upper s) = true.
Proof. induction s as [|b s IH]; cbn [forallb upper map]; [reflexivity|]. intros H.
  apply andb_true_iff in H as [H1 H2]. rewrite (to_upper_alpha _ H1). apply IH; exact H2. Qed.

Definition title_shape (s : bytes) : bool :=
  match s with [] => false | c :: r => is_upper c && forallb is_lower r end.
Lemma title_alpha_shape s : s <> [] -> forallb is_alpha s = true -> title_shape (title s) = true.
Proof. destruct s as [|c r]; [congruence|]. intros _. cbn [forallb title title_shape]. intros H.
  apply andb_true_iff in H as [H1 H2]. rewrite (to_upper_alpha _ H1), (lower_alpha_shape _ H2). reflexivity. Qed.

Lemma language_text_spec s : lang_tok s = true -> language_text (spec_language_value s) = lower s.
Proof. intros _. unfold spec_language_value, language_text. destruct (beqb (lower s) und_b) eqn:E; [|reflexivity].
  apply beqb_eq in E. symmetry; exact E. Qed.
