(* DirectionProofs.v — C14: character_direction against the CLDR-derived reference, all identifiers *)
From UL Require Import Bytes Subtags LangId Likely Inst LayoutSpec BytesProofs PackProofs TablesData LayoutData LikelyProofs.
From Coq Require Import Lia ZifyBool ZifyN.
Open Scope N_scope.
Arguments N.eqb : simpl never.
Arguments N.leb : simpl never.
Opaque the_lay the_layout the_tables.

Lemma nmem_in x l : nmem x l = true <-> In x l.
Proof.
  induction l as [|y l IH]; cbn [nmem In]; [split; [discriminate|tauto]|].
  rewrite orb_true_iff, IH, N.eqb_eq. split; intros [H|H]; auto.
Qed.
Lemma nset_eqb_mem a b x : nset_eqb a b = true -> nmem x a = nmem x b.
Proof.
  unfold nset_eqb. intros H. apply andb_true_iff in H as [H1 H2]. rewrite forallb_forall in H1, H2.
  destruct (nmem x a) eqn:Ea, (nmem x b) eqn:Eb; try reflexivity.
  - apply nmem_in in Ea. rewrite (H1 _ Ea) in Eb. discriminate.
  - apply nmem_in in Eb. rewrite (H2 _ Eb) in Ea. discriminate.
Qed.
Lemma small_str_small n s : small_str n s = true -> small s = true /\ (length s <= n)%nat.
Proof. unfold small_str, small, small_byte. intros H. apply andb_true_iff in H as [H1 H2]. split; [exact H2|lia]. Qed.

Lemma nmem_pack_memb x S : small x = true -> forallb small S = true ->
  nmem (le_pack x) (map le_pack S) = memb x S.
Proof.
  intros Hx. induction S as [|y S IH]; cbn [map nmem memb forallb]; [reflexivity|].
  intros H. apply andb_true_iff in H as [Hy HS]. rewrite (IH HS). f_equal.
  destruct (beqb x y) eqn:E.
  - apply beqb_eq in E. subst. apply N.eqb_refl.
  - apply N.eqb_neq. intros C. apply le_pack_inj in C; auto. apply beqb_false in E. contradiction.
Qed.

Lemma forallb_app {A} (p : A -> bool) a b : forallb p (a ++ b) = forallb p a && forallb p b.
Proof. induction a as [|x a IH]; cbn [app forallb]; [reflexivity|]. rewrite IH, andb_assoc. reflexivity. Qed.

Lemma lay_facts :
  (forall x, small x = true -> nmem (le_pack x) (ly_ltr the_layout) = memb x (scripts_with LTR the_lay)) /\
  (forall x, small x = true -> nmem (le_pack x) (ly_rtl the_layout) = memb x (scripts_with RTL the_lay)) /\
  (forall x, small x = true -> nmem (le_pack x) (ly_ttb the_layout) = memb x (scripts_with TTB the_lay)) /\
  (forall x, small x = true -> nmem (le_pack x) (ly_lang_rtl the_layout) = memb x (langs_with RTL the_lay)).
Proof.
  assert (SM : forall n S, forallb (small_str n) S = true -> forallb small S = true).
  { intros n S. apply forallb_imp. intros s Hs. apply (small_str_small n s Hs). }
  repeat split; intros x Hx.
  - rewrite (nset_eqb_mem _ _ _ lay_ltr_eq). apply nmem_pack_memb; [exact Hx|exact (SM _ _ lay_small_ltr)].
  - rewrite (nset_eqb_mem _ _ _ lay_rtl_eq). apply nmem_pack_memb; [exact Hx|exact (SM _ _ lay_small_rtl)].
  - rewrite (nset_eqb_mem _ _ _ lay_ttb_eq). apply nmem_pack_memb; [exact Hx|exact (SM _ _ lay_small_ttb)].
  - rewrite (nset_eqb_mem _ _ _ lay_lang_rtl_eq). apply nmem_pack_memb; [exact Hx|exact (SM _ _ lay_small_langs)].
Qed.

(* a script that CLDR lists decides the direction on its own, in every configuration *)
Theorem script_decides likely x sc d :
  li_script x = Some sc -> small sc = true -> spec_script_dir the_lay sc = Some d ->
  direction likely the_layout the_tables x = Ok d.
Proof.
  destruct lay_facts as (F1 & F2 & F3 & _).
  intros Hs Hsm. unfold spec_script_dir, direction. rewrite Hs. cbn zeta.
  rewrite (F1 _ Hsm), (F2 _ Hsm), (F3 _ Hsm).
  destruct (memb sc (scripts_with LTR the_lay)); [intros H; injection H as <-; reflexivity|].
  destruct (memb sc (scripts_with RTL the_lay)); [intros H; injection H as <-; reflexivity|].
  destruct (memb sc (scripts_with TTB the_lay)); [intros H; injection H as <-; reflexivity|discriminate].
Qed.

(* script absent or not listed by CLDR, language never right-to-left in CLDR: left-to-right *)
Theorem default_ltr likely x :
  match li_script x with Some sc => small sc = true /\ spec_script_dir the_lay sc = None | None => True end ->
  match li_lang x with Some l => small l = true /\ spec_lang_rtl the_lay l = false | None => True end ->
  direction likely the_layout the_tables x = Ok LTR.
Proof.
  destruct lay_facts as (F1 & F2 & F3 & F4).
  intros Hs Hl.
  assert (BL : direction_by_lang likely the_layout the_tables x = Ok LTR).
  { unfold direction_by_lang. destruct (li_lang x) as [lb|]; [|reflexivity]. destruct Hl as [Hsm Hn].
    rewrite (F4 _ Hsm). unfold spec_lang_rtl in Hn. rewrite Hn. reflexivity. }
  unfold direction.
  destruct (li_script x) as [sc|]; [|exact BL].
  destruct Hs as [Hsm Hn]. cbn zeta. rewrite (F1 _ Hsm), (F2 _ Hsm), (F3 _ Hsm).
  unfold spec_script_dir in Hn.
  destruct (memb sc (scripts_with LTR the_lay)); [discriminate|].
  destruct (memb sc (scripts_with RTL the_lay)); [discriminate|].
  destruct (memb sc (scripts_with TTB the_lay)); [discriminate|]. exact BL.
Qed.

Theorem variants_irrelevant likely l s r v1 v2 :
  direction likely the_layout the_tables (mkLangId l s r v1) = direction likely the_layout the_tables (mkLangId l s r v2).
Proof. reflexivity. Qed.

(* totality of the direction query (C01) *)
Theorem direction_total likely x :
  wf_triple (li_lang x) None (li_region x) = true ->
  exists d, direction likely the_layout the_tables x = Ok d.
Proof.
  intros Hwf.
  assert (BL : exists d, direction_by_lang likely the_layout the_tables x = Ok d).
  { unfold direction_by_lang. destruct (li_lang x) as [lb|] eqn:El; [|eauto].
    destruct (nmem (le_pack lb) (ly_lang_rtl the_layout)); [|eauto].
    destruct likely; [|eauto].
    destruct (maximize_total the_tables data_full_extend data_wf_ints _ _ _ Hwf) as [o E]. rewrite E.
    destruct o as [[[a [b|]] c]|]; eauto. destruct (nmem (le_pack b) (ly_ltr the_layout)); eauto. }
  unfold direction.
  destruct (li_script x) as [sc|]; [|exact BL]. cbn zeta.
  destruct (nmem (le_pack sc) (ly_ltr the_layout)); [eauto|].
  destruct (nmem (le_pack sc) (ly_rtl the_layout)); [eauto|].
  destruct (nmem (le_pack sc) (ly_ttb the_layout)); [eauto|]. exact BL.
Qed.
