(* LocaleSpecProofs.v — C03: the locale parser against the segment-based three-zone specification,
   for ALL token lists:  soundness (anything accepted is in the lenient language with THAT value:
   nothing dropped, nothing reinterpreted) and completeness (every strictly well-formed locale without
   duplicate keys is accepted with the specified value). *)
From UL Require Import Bytes Subtags LangId Ext Grammar LangIdSpec LocaleInv AbstractLocale LocaleSpec
                       BytesProofs SubtagProofs SortProofs SplitProofs LangIdProofs CanonProofs ExtProofs KmapProofs InvProofs
                       RoundTrip PermProofs KvProofs.
From Coq Require Import Lia ZifyBool ZifyN.
Open Scope N_scope.
Arguments N.add : simpl never.
Arguments N.sub : simpl never.
Arguments N.leb : simpl never.
Arguments N.eqb : simpl never.

(* ---------------------------------------------------------------- prefix closure of the -u- loop *)
Lemma u_loop_app body : forall cur types kws attrs R, ext_stop R ->
  u_loop cur types kws attrs (body ++ R) =
  match u_loop cur types kws attrs body with
  | Ok (u, rem) => Ok (u, rem ++ R)
  | Err e => Err e | Panic n => Panic n | OutOfFuel => OutOfFuel
  end.
Proof.
  induction body as [|t body IH]; intros cur types kws attrs R HR; cbn [app].
  - cbn [u_loop]. destruct R as [|t R']; [reflexivity|]. cbn in HR.
    cbn [u_loop]. destruct (single_u_stop t cur HR) as (-> & -> & ->). reflexivity.
  - cbn [u_loop]. destruct (length t =? 2)%nat.
    + destruct (parse_key t); cbn [bind]; auto.
    + destruct (is_some cur && is_type t).
      * destruct (parse_type t) as [[v|]| | |]; cbn [bind]; auto.
      * destruct (is_attribute t); [destruct (parse_attribute t); cbn [bind]; auto|reflexivity].
Qed.

(* ---------------------------------------------------------------- the keyword phase of -u- *)
(* spec accumulates lowered values (newest first) and drops `true` when flushing; the model drops at
   parse time: the model's `types` is drop_true (rev vs) *)
Lemma drop_true_app a b : drop_true (a ++ b) = drop_true a ++ drop_true b.
Proof. unfold drop_true. apply filter_app. Qed.
Lemma drop_true_opt_list v : drop_true [v] = match drop_true_opt v with Some x => [x] | None => [] end.
Proof. unfold drop_true, drop_true_opt, true_bytes. cbn [filter]. destruct (beqb v [116; 114; 117; 101]); reflexivity. Qed.

Definition bad2 (rest : list bytes) : bool := match rest with t :: _ => (length t =? 2)%nat | [] => false end.

Lemma ukey_len t : ukey_tok t = true -> (length t =? 2)%nat = true.
Proof. destruct t as [|a [|b [|c r]]]; cbn; try discriminate; reflexivity. Qed.
Lemma utype_len t : utype_tok t = true -> (length t =? 2)%nat = false.
Proof. unfold utype_tok, len_in. intros H. apply andb_true_iff in H as [_ H]. lia. Qed.

Lemma ins_all_app a b tf : ins_all (a ++ b) tf = ins_all b (ins_all a tf).
Proof. unfold ins_all. apply fold_left_app. Qed.

(* in the keyword phase (a current key exists) the loop and the specification walk together *)
Lemma u_kw_rel toks : forall k vs kws attrs m rest,
  kw_spec ukey_tok utype_tok toks (Some (k, vs)) = Some (m, rest) ->
  if bad2 rest then exists e, u_loop (Some k) (drop_true (rev vs)) kws attrs toks = Err e
  else u_loop (Some k) (drop_true (rev vs)) kws attrs toks = Ok (mkU (ins_all m kws) (dedup (sort attrs)), rest).
Proof.
  induction toks as [|t toks IH]; intros k vs kws attrs m rest; cbn [kw_spec].
  - intros H. injection H as <- <-. cbn [bad2 u_loop ins_all fold_left flush fst snd]. reflexivity.
  - destruct (ukey_tok t) eqn:Ek.
    + destruct (kw_spec ukey_tok utype_tok toks (Some (lower t, []))) as [[m' rest']|] eqn:E; [|discriminate].
      intros H. injection H as <- <-. specialize (IH (lower t) [] (flush (Some k) (drop_true (rev vs)) kws) attrs m' rest' E).
      cbn [u_loop]. rewrite (ukey_len _ Ek), parse_key_spec, Ek. cbn [bind rev drop_true filter] in *.
      destruct (bad2 rest'); [exact IH|]. rewrite IH. cbn [app ins_all fold_left flush fst snd]. reflexivity.
    + destruct (utype_tok t) eqn:Et.
      * intros H. specialize (IH k (lower t :: vs) kws attrs m rest H).
        cbn [u_loop]. rewrite (utype_len _ Et). cbn [is_some andb]. rewrite is_type_tok, Et, parse_type_spec, Et. cbn [bind].
        cbn [rev] in IH. rewrite drop_true_app, drop_true_opt_list in IH.
        destruct (drop_true_opt (lower t)); [exact IH|]. rewrite app_nil_r in IH. exact IH.
      * intros H. injection H as <- <-. cbn [bad2 u_loop].
        destruct (length t =? 2)%nat eqn:E2.
        -- rewrite parse_key_spec, Ek. cbn [bind]. eauto.
        -- cbn [is_some andb]. rewrite is_type_tok, Et. unfold is_attribute. rewrite is_type_tok, Et.
           cbn [ins_all fold_left flush fst snd]. reflexivity.
Qed.

(* the attribute phase *)
Lemma u_attr_rel body : forall attrs0 m rest,
  kw_spec ukey_tok utype_tok (drop_while attr_tok body) None = Some (m, rest) ->
  if bad2 rest then exists e, u_loop None [] [] attrs0 body = Err e
  else u_loop None [] [] attrs0 body
       = Ok (mkU (ins_all m []) (dedup (sort (attrs0 ++ map lower (take_while attr_tok body)))), rest).
Proof.
  induction body as [|t body IH]; intros attrs0 m rest; cbn [drop_while take_while map].
  - cbn [kw_spec]. intros H. injection H as <- <-. cbn [bad2 u_loop ins_all fold_left flush]. rewrite app_nil_r. reflexivity.
  - destruct (attr_tok t) eqn:Ea.
    + intros H. specialize (IH (attrs0 ++ [lower t]) m rest H).
      assert (E2 : (length t =? 2)%nat = false) by (apply utype_len; exact Ea).
      cbn [u_loop]. rewrite E2. cbn [is_some andb]. unfold is_attribute. rewrite is_type_tok.
      change (utype_tok t) with (attr_tok t). rewrite Ea, parse_attribute_spec, Ea. cbn [bind map].
      rewrite <- app_assoc in IH. exact IH.
    + cbn [kw_spec]. destruct (ukey_tok t) eqn:Ek.
      * destruct (kw_spec ukey_tok utype_tok body (Some (lower t, []))) as [[m' rest']|] eqn:E; [|discriminate].
        intros H. injection H as <- <-. cbn [app].
        pose proof (u_kw_rel body (lower t) [] [] attrs0 m' rest' E) as R.
        cbn [u_loop]. rewrite (ukey_len _ Ek), parse_key_spec, Ek. cbn [bind flush rev drop_true filter] in *.
        rewrite app_nil_r. exact R.
      * intros H. injection H as <- <-. cbn [bad2 u_loop].
        destruct (length t =? 2)%nat eqn:E2.
        -- rewrite parse_key_spec, Ek. cbn [bind]. eauto.
        -- cbn [is_some andb]. unfold is_attribute. rewrite is_type_tok. change (utype_tok t) with (attr_tok t). rewrite Ea.
           cbn [ins_all fold_left flush]. rewrite app_nil_r. reflexivity.
Qed.

Lemma kw_spec_total kt vt toks cur : exists m rest, kw_spec kt vt toks cur = Some (m, rest).
Proof.
  revert cur; induction toks as [|t toks IH]; intros cur; cbn [kw_spec]; [eauto|].
  destruct (kt t).
  - destruct (IH (Some (lower t, []))) as (m & rest & ->). eauto.
  - destruct cur as [[k vs]|]; [|eauto]. destruct (vt t); [apply IH|eauto].
Qed.

(* inserting entries with distinct keys one by one = sorting them by key *)
Lemma keys_nodup_kuniq m : keys_nodup m = true -> kuniq m.
Proof.
  unfold kuniq. induction m as [|[k v] m IH]; cbn [keys_nodup keys map fst]; intros H; [constructor|].
  apply andb_true_iff in H as [H1 H2]. constructor; [|exact (IH H2)].
  intros Hin. apply in_map_iff in Hin as ([k' v'] & E & Hin). cbn [fst] in E. subst k'.
  apply negb_true_iff in H1. assert (existsb (fun kv => beqb k (fst kv)) m = true); [|congruence].
  apply existsb_exists. exists (k, v'). split; [exact Hin|apply beqb_refl].
Qed.
Lemma kuniq_rev m : kuniq m -> kuniq (rev m).
Proof. unfold kuniq, keys. rewrite map_rev. apply NoDup_rev. Qed.
Lemma kuniq_snoc m k v : kuniq (m ++ [(k, v)]) -> kuniq m /\ ~ In k (keys m).
Proof.
  unfold kuniq, keys. rewrite map_app. cbn [map fst]. intros H. split.
  - apply NoDup_remove_1 in H. rewrite app_nil_r in H. exact H.
  - apply NoDup_remove_2 in H. rewrite app_nil_r in H. exact H.
Qed.
Lemma map_put_fresh k v m : ~ In k (keys m) -> map_put k v m = (k, v) :: m.
Proof.
  intros H. unfold map_put. f_equal. induction m as [|[k0 v0] m IH]; cbn [filter fst]; [reflexivity|].
  assert (beqb k k0 = false) as -> by (apply beqb_false; intros ->; apply H; left; reflexivity).
  cbn [negb]. f_equal. apply IH. intros Hin. apply H. right; exact Hin.
Qed.
Lemma ins_all_rev m : kuniq m -> ins_all m [] = kv_sort (rev m).
Proof.
  induction m as [|[k v] m IH] using rev_ind; intros Hu; [reflexivity|].
  destruct (kuniq_snoc m k v Hu) as [Hm Hk]. rewrite ins_all_app. cbn [ins_all fold_left fst snd].
  rewrite (IH Hm), rev_app_distr. cbn [rev app].
  rewrite <- (map_put_fresh k v (rev m)); [|unfold keys; rewrite map_rev; intros Hin; apply in_rev in Hin; exact (Hk Hin)].
  symmetry. apply kv_sort_map_put. apply kuniq_rev; exact Hm.
Qed.
Lemma kv_sort_rev m : kuniq m -> kv_sort (rev m) = kv_sort m.
Proof.
  intros H. apply ksorted_unique; [apply kv_sort_ksorted, kuniq_rev; exact H|apply kv_sort_ksorted; exact H|].
  intros x. rewrite !kv_sort_In. symmetry. apply in_rev.
Qed.
Lemma ins_all_kv_sort m : keys_nodup m = true -> ins_all m [] = kv_sort m.
Proof. intros H. pose proof (keys_nodup_kuniq m H) as Hu. rewrite (ins_all_rev m Hu). apply kv_sort_rev; exact Hu. Qed.

(* ---------------------------------------------------------------- -t- *)
Definition no_single (body : list bytes) : bool := forallb (fun t => negb (is_single t)) body.

Lemma variant_span_app r2 R : match R with [] => True | t :: _ => variant_tok t = false end ->
  take_while variant_tok (r2 ++ R) = take_while variant_tok r2
  /\ drop_while variant_tok (r2 ++ R) = drop_while variant_tok r2 ++ R.
Proof.
  intros HR. induction r2 as [|t r IH]; cbn [app take_while drop_while].
  - destruct R as [|t R']; [split; reflexivity|]. cbn [take_while drop_while]. rewrite HR. split; reflexivity.
  - destruct (variant_tok t); [destruct IH as [-> ->]; split; reflexivity|split; reflexivity].
Qed.

Lemma spec_langid_prefix_app toks R : li_stop R -> toks <> [] ->
  spec_langid_prefix (toks ++ R) =
  match spec_langid_prefix toks with Some (v, rem) => Some (v, rem ++ R) | None => None end.
Proof.
  intros HR Hne. destruct toks as [|l rest]; [congruence|]. cbn [app spec_langid_prefix].
  destruct (lang_tok l); [|reflexivity].
  assert (TS : take_script (rest ++ R) = let (a, b) := take_script rest in (a, b ++ R)).
  { destruct rest as [|t r]; cbn [app take_script].
    - destruct R as [|t R']; [reflexivity|]. cbn [take_script]. destruct HR as (-> & _ & _). reflexivity.
    - destruct (script_tok t); reflexivity. }
  rewrite TS. destruct (take_script rest) as [sc r1].
  assert (TR : take_region (r1 ++ R) = let (a, b) := take_region r1 in (a, b ++ R)).
  { destruct r1 as [|t r]; cbn [app take_region].
    - destruct R as [|t R']; [reflexivity|]. cbn [take_region]. destruct HR as (_ & -> & _). reflexivity.
    - destruct (region_tok t); reflexivity. }
  rewrite TR. destruct (take_region r1) as [rg r2].
  assert (HRv : match R with [] => True | t :: _ => variant_tok t = false end) by (destruct R; [exact I|apply HR]).
  assert (TW := variant_span_app r2 R HRv).
  destruct TW as [-> ->]. reflexivity.
Qed.

Lemma langid_from_iter_app toks R : li_stop R -> toks <> [] ->
  langid_from_iter (toks ++ R) true =
  match langid_from_iter toks true with
  | Ok (v, rem) => Ok (v, rem ++ R)
  | Err e => Err e | Panic n => Panic n | OutOfFuel => OutOfFuel
  end.
Proof.
  intros HR Hne. rewrite !langid_from_iter_spec, (spec_langid_prefix_app toks R HR Hne).
  destruct (spec_langid_prefix toks) as [[v rem]|]; reflexivity.
Qed.

Lemma t_loop_app fuel : forall body cur vals tf tl R, ext_stop R -> (length (body ++ R) < fuel)%nat ->
  t_loop fuel cur vals tf tl (body ++ R) =
  match t_loop fuel cur vals tf tl body with
  | Ok (t, rem) => Ok (t, rem ++ R)
  | Err e => Err e | Panic n => Panic n | OutOfFuel => OutOfFuel
  end.
Proof.
  induction fuel as [|f IH]; intros body cur vals tf tl R HR Hf; [lia|].
  destruct body as [|t body]; cbn [app].
  - cbn [t_loop]. destruct R as [|t R']; [reflexivity|]. cbn in HR.
    destruct (single_t_stop t HR) as [-> ->]. reflexivity.
  - cbn [app length] in Hf. cbn [t_loop].
    destruct (tkey_shape t).
    + destruct (parse_tkey t); cbn [bind]; auto. apply IH; [exact HR|lia].
    + destruct (length t =? 1)%nat; [reflexivity|].
      destruct (is_some cur).
      * destruct (parse_tvalue t) as [[v|]| | |]; cbn [bind]; auto; apply IH; auto; lia.
      * destruct (is_none tl && is_language_subtag t); [|reflexivity].
        change (t :: body ++ R) with ((t :: body) ++ R).
        rewrite (langid_from_iter_app (t :: body) R (ext_stop_li_stop R HR)); [|congruence].
        destruct (langid_from_iter_total (t :: body) true) as [[[[v rem] E]|[e E]] L]; rewrite E; [|reflexivity].
        assert (length rem < length (t :: body))%nat as Hl by (apply (L v rem E); congruence). cbn [length] in Hl.
        apply IH; [exact HR|]. rewrite app_length in *. lia.
Qed.

Lemma tkey_len t : tkey_tok t = true -> (length t =? 1)%nat = false.
Proof. destruct t as [|a [|b [|c r]]]; cbn; try discriminate; reflexivity. Qed.

(* keyword phase of -t-: with a current key every token must be a key or a value *)
Lemma t_kw_rel toks : forall fuel k vs tf tl m rest,
  no_single toks = true -> (length toks < fuel)%nat ->
  kw_spec tkey_tok tvalue_tok toks (Some (k, vs)) = Some (m, rest) ->
  match rest with
  | [] => t_loop fuel (Some k) (drop_true (rev vs)) tf tl toks = Ok (mkT tl (ins_all m tf), [])
  | _ :: _ => exists e, t_loop fuel (Some k) (drop_true (rev vs)) tf tl toks = Err e
  end.
Proof.
  induction toks as [|t toks IH]; intros fuel k vs tf tl m rest Hns Hf; (destruct fuel as [|f]; [lia|]); cbn [kw_spec].
  - intros H. injection H as <- <-. cbn [t_loop ins_all fold_left flush fst snd]. reflexivity.
  - cbn [no_single forallb] in Hns. apply andb_true_iff in Hns as [Ht Hns]. cbn [length] in Hf.
    unfold is_single in Ht. apply negb_true_iff in Ht.
    destruct (tkey_tok t) eqn:Ek.
    + destruct (kw_spec tkey_tok tvalue_tok toks (Some (lower t, []))) as [[m' rest']|] eqn:E; [|discriminate].
      intros H. injection H as <- <-.
      specialize (IH f (lower t) [] (flush (Some k) (drop_true (rev vs)) tf) tl m' rest' Hns ltac:(lia) E).
      cbn [t_loop]. rewrite tkey_shape_tok, Ek, parse_tkey_spec, Ek. cbn [bind rev drop_true filter] in *.
      destruct rest'; [|exact IH]. rewrite IH. cbn [app ins_all fold_left flush fst snd]. reflexivity.
    + destruct (tvalue_tok t) eqn:Et.
      * intros H. specialize (IH f k (lower t :: vs) tf tl m rest Hns ltac:(lia) H).
        cbn [t_loop]. rewrite tkey_shape_tok, Ek, Ht. cbn [is_some]. rewrite parse_tvalue_spec, Et. cbn [bind].
        cbn [rev] in IH. rewrite drop_true_app, drop_true_opt_list in IH.
        destruct (drop_true_opt (lower t)); [exact IH|]. rewrite app_nil_r in IH. exact IH.
      * intros H. injection H as <- <-. cbn [t_loop]. rewrite tkey_shape_tok, Ek, Ht. cbn [is_some].
        rewrite parse_tvalue_spec, Et. cbn [bind]. eauto.
Qed.

(* no current key: a key starts the keyword phase, anything else ends the extension *)
Lemma t_nokey_rel toks fuel tl m rest :
  no_single toks = true -> (length toks < fuel)%nat ->
  (is_none tl && match toks with t :: _ => is_language_subtag t | [] => false end) = false ->
  kw_spec tkey_tok tvalue_tok toks None = Some (m, rest) ->
  match rest with
  | [] => t_loop fuel None [] [] tl toks = Ok (mkT tl (ins_all m []), [])
  | _ :: _ => (m = [] /\ rest = toks /\ t_loop fuel None [] [] tl toks = Ok (mkT tl [], toks))
              \/ exists e, t_loop fuel None [] [] tl toks = Err e
  end.
Proof.
  intros Hns Hf Hg. destruct fuel as [|f]; [lia|]. destruct toks as [|t toks]; cbn [kw_spec].
  - intros H. injection H as <- <-. reflexivity.
  - cbn [no_single forallb] in Hns. apply andb_true_iff in Hns as [Ht Hns]. cbn [length] in Hf.
    unfold is_single in Ht. apply negb_true_iff in Ht.
    destruct (tkey_tok t) eqn:Ek.
    + destruct (kw_spec tkey_tok tvalue_tok toks (Some (lower t, []))) as [[m' rest']|] eqn:E; [|discriminate].
      intros H. injection H as <- <-.
      pose proof (t_kw_rel toks f (lower t) [] [] tl m' rest' Hns ltac:(lia) E) as R.
      cbn [t_loop]. rewrite tkey_shape_tok, Ek, parse_tkey_spec, Ek. cbn [bind flush rev drop_true filter app] in *.
      destruct rest'; [exact R|right; exact R].
    + intros H. injection H as <- <-. left. repeat split.
      cbn [t_loop]. rewrite tkey_shape_tok, Ek, Ht. cbn [is_some]. rewrite Hg. reflexivity.
Qed.

(* ---------------------------------------------------------------- segments *)
Fixpoint split_single (toks : list bytes) : list bytes * option (bytes * list bytes) :=
  match toks with
  | [] => ([], None)
  | t :: r => if is_single t then ([], Some (t, r))
              else let (lead, o) := split_single r in (t :: lead, o)
  end.
Lemma split_single_spec toks :
  let (lead, o) := split_single toks in
  no_single lead = true /\
  match o with None => toks = lead | Some (t, r) => toks = lead ++ t :: r /\ is_single t = true end.
Proof.
  induction toks as [|t r IH]; cbn [split_single]; [split; reflexivity|].
  destruct (is_single t) eqn:E; [split; [reflexivity|split; [reflexivity|exact E]]|].
  destruct (split_single r) as [lead o]. destruct IH as [Hn Ho]. split.
  - cbn [no_single forallb]. rewrite E. exact Hn.
  - destruct o as [[t' r']|]; [destruct Ho as [-> Hs]; split; [reflexivity|exact Hs]|subst; reflexivity].
Qed.
Lemma split_single_length toks : match snd (split_single toks) with Some (t, r) => (length r < length toks)%nat | None => True end.
Proof.
  induction toks as [|t r IH]; cbn [split_single]; [exact I|].
  destruct (is_single t); cbn [snd length]; [lia|].
  destruct (split_single r) as [lead [[t' r']|]]; cbn [snd length] in *; [lia|exact I].
Qed.

Lemma segments_split toks : forall cs cb,
  segments cs cb toks =
  let (lead, o) := split_single toks in
  match o with
  | None => [(cs, rev cb ++ lead)]
  | Some (t, r) => if single_is 120 t then [(cs, rev cb ++ lead); (t, r)] else (cs, rev cb ++ lead) :: segments t [] r
  end.
Proof.
  induction toks as [|t r IH]; intros cs cb; cbn [segments split_single]; [rewrite app_nil_r; reflexivity|].
  destruct (is_single t) eqn:E; [rewrite app_nil_r; reflexivity|].
  rewrite (IH cs (t :: cb)). destruct (split_single r) as [lead o]. cbn [rev]. rewrite <- app_assoc. reflexivity.
Qed.

(* ---------------------------------------------------------------- dispatch over a block without singletons *)
Lemma dispatch_lead lead : forall f su st acc R, no_single lead = true -> (length (lead ++ R) < f)%nat ->
  dispatch f su st acc (lead ++ R) =
  if forallb is_empty_tok lead then dispatch (f - length lead) su st acc R else Err InvalidExtension.
Proof.
  induction lead as [|t lead IH]; intros f su st acc R Hn Hf; cbn [app forallb length].
  - rewrite Nat.sub_0_r. reflexivity.
  - cbn [no_single forallb] in Hn. apply andb_true_iff in Hn as [Ht Hn]. unfold is_single in Ht. apply negb_true_iff in Ht.
    cbn [app length] in Hf. destruct f as [|f]; [lia|]. cbn [dispatch].
    destruct t as [|b r]; cbn [is_empty_tok andb].
    + cbn [length Nat.ltb Nat.leb]. rewrite (IH f su st acc R Hn ltac:(lia)). reflexivity.
    + assert ((1 <? length (b :: r))%nat = true) as -> by (cbn [length] in *; lia). reflexivity.
Qed.

(* ---------------------------------------------------------------- -x- *)
Lemma x_collect_spec toks : x_collect toks = if forallb priv_tok toks then Ok (map lower toks) else Err InvalidSubtag.
Proof.
  induction toks as [|t toks IH]; cbn [x_collect forallb map]; [reflexivity|].
  rewrite parse_value_spec. destruct (priv_tok t); cbn [bind andb]; [|reflexivity].
  rewrite IH. destruct (forallb priv_tok toks); reflexivity.
Qed.
Lemma x_parse_spec toks : x_parse toks = match x_body_spec toks with Some (x, _) => Ok x | None => Err InvalidSubtag end.
Proof. unfold x_parse, x_body_spec. rewrite x_collect_spec. destruct (forallb priv_tok toks); reflexivity. Qed.

(* ---------------------------------------------------------------- one -u- segment *)
Lemma bad2_not_empty rest : bad2 rest = true -> forallb is_empty_tok rest = false.
Proof. destruct rest as [|[|a r] rest']; cbn; try discriminate; reflexivity. Qed.

Lemma u_segment body R : ext_stop R ->
  match kw_spec ukey_tok utype_tok (drop_while attr_tok body) None with
  | Some (m, rest) =>
    (forallb is_empty_tok rest = false /\ exists e, u_parse (body ++ R) = Err e)
    \/ u_parse (body ++ R) = Ok (mkU (ins_all m []) (dedup (sort (map lower (take_while attr_tok body)))), rest ++ R)
  | None => False
  end.
Proof.
  intros HR. destruct (kw_spec_total ukey_tok utype_tok (drop_while attr_tok body) None) as (m & rest & E). rewrite E.
  pose proof (u_attr_rel body [] m rest E) as Rl. unfold u_parse. rewrite (u_loop_app body None [] [] [] R HR).
  destruct (bad2 rest) eqn:B.
  - left. split; [apply bad2_not_empty; exact B|]. destruct Rl as [e ->]. eauto.
  - right. rewrite Rl. reflexivity.
Qed.

(* ---------------------------------------------------------------- one -t- segment *)
Definition t_pieces (body : list bytes) : option langid * list bytes :=
  match body with
  | h :: _ =>
    if lang_tok h then
      match spec_langid_prefix body with
      | Some (v, rest) => (Some v, rest)
      | None => (None, body)
      end
    else (None, body)
  | [] => (None, [])
  end.

Lemma no_single_drop_while q l : no_single l = true -> no_single (drop_while q l) = true.
Proof. induction l as [|x l IH]; cbn [drop_while no_single forallb]; [reflexivity|]. intros H. destruct (q x); [apply IH; apply andb_true_iff in H as [_ H]; exact H|exact H]. Qed.
Lemma no_single_tail x l : no_single (x :: l) = true -> no_single l = true.
Proof. cbn [no_single forallb]. intros H. apply andb_true_iff in H as [_ H]. exact H. Qed.

Lemma spec_langid_prefix_rest body v r1 : no_single body = true -> spec_langid_prefix body = Some (v, r1) -> body <> [] ->
  no_single r1 = true /\ (length r1 < length body)%nat.
Proof.
  intros Hn H Hne. destruct body as [|l rest]; [congruence|]. cbn [spec_langid_prefix] in H.
  destruct (lang_tok l); [|discriminate].
  destruct (take_script rest) as [sc ra] eqn:Es. destruct (take_region ra) as [rg rb] eqn:Er.
  injection H as _ <-. pose proof (no_single_tail _ _ Hn) as Hr.
  assert (Ha : no_single ra = true /\ (length ra <= length rest)%nat).
  { destruct rest as [|t r]; cbn [take_script] in Es; [injection Es as _ <-; auto|].
    destruct (script_tok t); injection Es as _ <-; [split; [exact (no_single_tail _ _ Hr)|cbn [length]; lia]|auto]. }
  destruct Ha as [Ha La].
  assert (Hb : no_single rb = true /\ (length rb <= length ra)%nat).
  { destruct ra as [|t r]; cbn [take_region] in Er; [injection Er as _ <-; auto|].
    destruct (region_tok t); injection Er as _ <-; [split; [exact (no_single_tail _ _ Ha)|cbn [length]; lia]|auto]. }
  destruct Hb as [Hb Lb]. split; [apply no_single_drop_while; exact Hb|].
  pose proof (drop_while_shorter variant_tok rb). cbn [length]. lia.
Qed.

Lemma tkey_not_langshape t : tkey_tok t = true -> is_language_subtag t = false /\ lang_tok t = false.
Proof.
  destruct t as [|a [|b [|c r]]]; cbn [tkey_tok]; try discriminate. intros H. apply andb_true_iff in H as [_ Hb].
  assert (is_alpha b = false) by (unfold is_alpha, is_upper, is_lower, is_digit, in_range in *; lia).
  unfold is_language_subtag, lang_tok. rewrite existsb_negb_forallb. cbn [forallb]. rewrite H.
  cbn [andb]. rewrite !andb_false_r. cbn [andb]. split; reflexivity.
Qed.

Lemma t_segment body R : no_single body = true -> ext_stop R ->
  let (tl, r1) := t_pieces body in
  match kw_spec tkey_tok tvalue_tok r1 None with
  | Some (m, rest) =>
    t_parse (body ++ R) = Ok (mkT tl (ins_all m []), rest ++ R)
    \/ ((exists e, t_parse (body ++ R) = Err e) /\ rest <> [])
  | None => False
  end.
Proof.
  intros Hn HR. unfold t_parse.
  set (F := S (length (body ++ R))).
  assert (HF : (length (body ++ R) < F)%nat) by (unfold F; lia).
  rewrite (t_loop_app F body None [] [] None R HR HF).
  assert (HFb : (length body < F)%nat) by (unfold F; rewrite app_length; lia).
  clearbody F. destruct body as [|t b].
  - cbn [t_pieces kw_spec]. left. destruct F; [lia|]. reflexivity.
  - pose proof Hn as Hn0. cbn [no_single forallb] in Hn. apply andb_true_iff in Hn as [Ht Hnb]. unfold is_single in Ht. apply negb_true_iff in Ht.
    destruct (tkey_tok t) eqn:Ek.
    + destruct (tkey_not_langshape t Ek) as [Hls Hlt]. cbn [t_pieces]. rewrite Hlt.
      destruct (kw_spec_total tkey_tok tvalue_tok (t :: b) None) as (m & rest & E). rewrite E.
      pose proof (t_nokey_rel (t :: b) F None m rest Hn0 HFb ltac:(cbn [is_none andb]; exact Hls) E) as Rl.
      destruct rest as [|r0 rest'].
      * left. rewrite Rl. reflexivity.
      * destruct Rl as [(-> & Er & Rl)|[e Rl]]; [left; rewrite Rl, Er; reflexivity|right; split; [rewrite Rl; eauto|congruence]].
    + destruct (is_language_subtag t) eqn:Els.
      * (* language-shaped head *)
        destruct F as [|f]; [lia|]. cbn [length] in HFb.
        destruct (lang_tok t) eqn:Elt.
        -- cbn [t_pieces]. rewrite Elt.
           assert (exists v r1, spec_langid_prefix (t :: b) = Some (v, r1)) as (v & r1 & Ep).
           { cbn [spec_langid_prefix]. rewrite Elt. destruct (take_script b) as [sc ra]. destruct (take_region ra) as [rg rb]. eauto. }
           rewrite Ep. destruct (spec_langid_prefix_rest (t :: b) v r1 Hn0 Ep ltac:(congruence)) as [Hn1 L1]. cbn [length] in L1.
           destruct (kw_spec_total tkey_tok tvalue_tok r1 None) as (m & rest & E). rewrite E.
           pose proof (t_nokey_rel r1 f (Some v) m rest Hn1 ltac:(lia) eq_refl E) as Rl.
           cbn [t_loop]. rewrite tkey_shape_tok, Ek, Ht. cbn [is_some is_none andb]. rewrite Els.
           rewrite langid_from_iter_spec, Ep. cbn [negb andb].
           destruct rest as [|r0 rest'].
           ++ left. rewrite Rl. reflexivity.
           ++ destruct Rl as [(-> & Er & Rl)|[e Rl]]; [left; rewrite Rl, Er; reflexivity|right; split; [rewrite Rl; eauto|congruence]].
        -- cbn [t_pieces]. rewrite Elt. cbn [kw_spec]. rewrite Ek. right. split; [|congruence].
           cbn [t_loop]. rewrite tkey_shape_tok, Ek, Ht. cbn [is_some is_none andb]. rewrite Els.
           rewrite langid_from_iter_spec. cbn [spec_langid_prefix]. rewrite Elt. eauto.
      * (* neither a key nor language-shaped: the extension ends here *)
        assert (Elt : lang_tok t = false).
        { destruct (lang_tok t) eqn:E; [|reflexivity]. destruct (is_language_subtag_lang t E) as [C _]. congruence. }
        cbn [t_pieces]. rewrite Elt. cbn [kw_spec]. rewrite Ek. left.
        destruct F as [|f]; [lia|]. cbn [t_loop]. rewrite tkey_shape_tok, Ek, Ht. cbn [is_some is_none andb]. rewrite Els. reflexivity.
Qed.

(* ---------------------------------------------------------------- the whole dispatch against `process` *)
Lemma kw_spec_no_single kt vt toks : forall cur m rest,
  kw_spec kt vt toks cur = Some (m, rest) -> no_single toks = true -> no_single rest = true.
Proof.
  induction toks as [|t toks IH]; intros cur m rest; cbn [kw_spec]; [intros H _; injection H as _ <-; reflexivity|].
  intros H Hn. pose proof (no_single_tail _ _ Hn) as Hn'.
  destruct (kt t).
  - destruct (kw_spec kt vt toks (Some (lower t, []))) as [[m' rest']|] eqn:E; [|discriminate].
    injection H as _ <-. exact (IH _ _ _ E Hn').
  - destruct cur as [[k vs]|]; [|injection H as _ <-; exact Hn].
    destruct (vt t); [exact (IH _ _ _ H Hn')|injection H as _ <-; exact Hn].
Qed.

Definition proc_from (R : list bytes) (a : acc) : option acc :=
  match R with
  | [] => Some a
  | s :: r => if single_is 120 s then process [(s, r)] a else process (segments s [] r) a
  end.
Definition acc_val (a : acc) : extmap :=
  mkE (or_default (ac_u a) uext_default) (or_default (ac_t a) text_default) (or_default (ac_x a) []).
Definition rel (su st : bool) (ac : extmap) (a : acc) : Prop :=
  su = is_some (ac_u a) /\ st = is_some (ac_t a) /\ ac_x a = None /\ e_private ac = [] /\
  (ac_nodup a = true ->
   e_unicode ac = or_default (ac_u a) uext_default /\ e_transform ac = or_default (ac_t a) text_default).

(* the segments after a non-x singleton, in terms of the next singleton *)
Lemma segments_next s r : single_is 120 s = false ->
  segments s [] r =
  let (body, o) := split_single r in
  (s, body) :: match o with None => [] | Some (t, r') => if single_is 120 t then [(t, r')] else segments t [] r' end.
Proof.
  intros _. rewrite segments_split. destruct (split_single r) as [body [[t r']|]]; cbn [rev app]; [|reflexivity].
  destruct (single_is 120 t); reflexivity.
Qed.
Lemma process_tail_is_proc_from o a :
  process (match o with None => [] | Some (t, r') => if single_is 120 t then [(t, r')] else segments t [] r' end) a
  = proc_from (match o with None => [] | Some (t, r') => t :: r' end) a.
Proof. destruct o as [[t r']|]; [|reflexivity]. cbn [proc_from]. destruct (single_is 120 t); reflexivity. Qed.

Lemma single_is_type s c : is_single s = true ->
  single_is c s = match s with [b] => to_lower b =? c | _ => false end.
Proof. reflexivity. Qed.
Lemma ext_type_single b :
  ext_type_from_byte b =
  if to_lower b =? 117 then Ok EUnicode else if to_lower b =? 116 then Ok ETransform else if to_lower b =? 120 then Ok EPrivate
  else if is_alnum (to_lower b) then Ok (EOther (to_lower b)) else Err InvalidExtension.
Proof. reflexivity. Qed.

Lemma o_stop (o : option (bytes * list bytes)) : (match o with Some (t, _) => is_single t = true | None => True end) ->
  ext_stop (match o with None => [] | Some (t, r') => t :: r' end).
Proof. destruct o as [[t r']|]; cbn; [unfold is_single; intros H; apply Nat.eqb_eq; exact H|auto]. Qed.

(* SOUNDNESS of the dispatch loop *)
Lemma dispatch_sound n : forall R, (length R <= n)%nat -> ext_stop R ->
  forall f su st ac a e, (length R < f)%nat -> rel su st ac a -> dispatch f su st ac R = Ok e ->
  exists a', proc_from R a = Some a' /\ (ac_nodup a' = true -> e = acc_val a').
Proof.
  induction n as [|n IH]; intros R Hlen HR f su st ac a e Hf (Hsu & Hst & Hx & Hp & Hnd) Hd.
  - destruct R; [|cbn [length] in Hlen; lia]. destruct f; [lia|]. cbn [dispatch] in Hd. injection Hd as <-.
    exists a. split; [reflexivity|]. intros N. destruct (Hnd N) as [E1 E2]. unfold acc_val. rewrite <- E1, <- E2, Hx. cbn [or_default]. rewrite <- Hp.
    destruct ac; reflexivity.
  - destruct R as [|s r].
    + destruct f; [lia|]. cbn [dispatch] in Hd. injection Hd as <-.
      exists a. split; [reflexivity|]. intros N. destruct (Hnd N) as [E1 E2]. unfold acc_val. rewrite <- E1, <- E2, Hx. cbn [or_default]. rewrite <- Hp.
      destruct ac; reflexivity.
    + cbn in HR. destruct s as [|b [|c s']]; try discriminate. clear HR.
      destruct f as [|f]; [lia|]. cbn [length] in Hf, Hlen. cbn [dispatch length Nat.ltb Nat.leb] in Hd.
      rewrite ext_type_single in Hd. cbn [proc_from single_is].
      pose proof (split_single_spec r) as SP. pose proof (split_single_length r) as SL.
      destruct (to_lower b =? 117) eqn:E117.
      * (* -u- *)
        assert ((to_lower b =? 120) = false) as E120 by (apply N.eqb_eq in E117; rewrite E117; reflexivity).
        rewrite E120. rewrite (segments_next [b] r ltac:(cbn [single_is]; exact E120)).
        destruct (split_single r) as [body o]. destruct SP as [Hnb Ho]. cbn [snd] in SL.
        set (R' := match o with None => [] | Some (t, r') => t :: r' end) in *.
        assert (Er : r = body ++ R') by (destruct o as [[t r']|]; [destruct Ho as [-> _]; reflexivity|subst; subst R'; rewrite app_nil_r; reflexivity]).
        assert (HR' : ext_stop R') by (apply o_stop; destruct o as [[t r']|]; [apply Ho|exact I]).
        destruct su; [discriminate|]. cbn [process single_is]. rewrite E117.
        destruct (ac_u a) as [ua|] eqn:Eua; [cbn [is_some] in Hsu; discriminate|].
        pose proof (u_segment body R' HR') as US. unfold u_body_spec.
        destruct (kw_spec ukey_tok utype_tok (drop_while attr_tok body) None) as [[m rest]|] eqn:Ekw; [|destruct US].
        rewrite Er in Hd.
        destruct US as [[_ [e0 US]]|US]; rewrite US in Hd; cbn [bind fst snd] in Hd; [discriminate|].
        assert (Hnr : no_single rest = true) by (eapply kw_spec_no_single; [exact Ekw|apply no_single_drop_while; exact Hnb]).
        assert (Lr : (length rest <= length body)%nat).
        { pose proof (u_loop_total None [] [] [] body) as [_ S0]. pose proof (u_attr_rel body [] m rest Ekw) as Rl.
          destruct (bad2 rest); [destruct Rl as [e1 Rl]; unfold u_parse in US; rewrite (u_loop_app body None [] [] [] R' HR'), Rl in US; discriminate|].
          exact (S0 _ _ Rl). }
        assert (Hf2 : (length (rest ++ R') < f)%nat) by (rewrite Er in Hf; rewrite app_length in *; lia).
        rewrite (dispatch_lead rest f true st _ R' Hnr Hf2) in Hd.
        destruct (forallb is_empty_tok rest) eqn:Eemp; [|discriminate].
        set (a1 := mkAcc (Some (mkU (kv_sort m) (dedup (sort (map lower (take_while attr_tok body)))))) (ac_t a) (ac_x a)
                         (ac_strict a && (negb (nil_b body) && nil_b rest)) (ac_nodup a && keys_nodup m)).
        assert (Hlen' : (length R' <= n)%nat).
        { subst R'. destruct o as [[t r']|]; cbn [length] in *; lia. }
        assert (Hf3 : (length R' < f - length rest)%nat) by (rewrite Er in Hf; rewrite !app_length in *; lia).
        match type of Hd with dispatch ?f' ?su' ?st' ?ac' _ = _ => destruct (IH R' Hlen' HR' f' su' st' ac' a1 e Hf3) as (a' & Pa & Va); [|exact Hd|] end.
        { unfold rel, a1. cbn [ac_u ac_t ac_x ac_nodup e_unicode e_transform e_private is_some]. repeat split; auto.
          all: match goal with H : _ && _ = true |- _ => apply andb_true_iff in H as [N1 N2] end.
          - cbn [or_default]. rewrite (ins_all_kv_sort m N2). reflexivity.
          - exact (proj2 (Hnd N1)). }
        exists a'. split; [|exact Va]. rewrite process_tail_is_proc_from. fold R'. exact Pa.
      * destruct (to_lower b =? 116) eqn:E116.
        -- (* -t- *)
           assert ((to_lower b =? 120) = false) as E120 by (apply N.eqb_eq in E116; rewrite E116; reflexivity).
           rewrite E120. rewrite (segments_next [b] r ltac:(cbn [single_is]; exact E120)).
           destruct (split_single r) as [body o]. destruct SP as [Hnb Ho]. cbn [snd] in SL.
           set (R' := match o with None => [] | Some (t, r') => t :: r' end) in *.
           assert (Er : r = body ++ R') by (destruct o as [[t r']|]; [destruct Ho as [-> _]; reflexivity|subst; subst R'; rewrite app_nil_r; reflexivity]).
           assert (HR' : ext_stop R') by (apply o_stop; destruct o as [[t r']|]; [apply Ho|exact I]).
           destruct st; [discriminate|]. cbn [process single_is]. rewrite E117, E116.
           destruct (ac_t a) as [ta|] eqn:Eta; [cbn [is_some] in Hst; discriminate|].
           pose proof (t_segment body R' Hnb HR') as TS. unfold t_body_spec. fold (t_pieces body).
           destruct (t_pieces body) as [tl r1] eqn:Etp. cbn [fst snd].
           destruct (kw_spec tkey_tok tvalue_tok r1 None) as [[m rest]|] eqn:Ekw; [|destruct TS].
           rewrite Er in Hd.
           destruct TS as [TS|[[e0 TS] _]]; rewrite TS in Hd; cbn [bind fst snd] in Hd; [|discriminate].
           assert (Hn1 : no_single r1 = true /\ (length r1 <= length body)%nat).
           { unfold t_pieces in Etp. destruct body as [|h b']; [injection Etp as _ <-; auto|].
             destruct (lang_tok h); [|injection Etp as _ <-; auto].
             destruct (spec_langid_prefix (h :: b')) as [[v rr]|] eqn:Ep; [|injection Etp as _ <-; auto].
             injection Etp as _ <-. destruct (spec_langid_prefix_rest (h :: b') v rr Hnb Ep ltac:(congruence)). split; [assumption|lia]. }
           destruct Hn1 as [Hn1 L1].
           assert (Hnr : no_single rest = true) by (eapply kw_spec_no_single; [exact Ekw|exact Hn1]).
           assert (Lr : (length rest <= length body)%nat).
           { pose proof (t_parse_total (body ++ R')) as [_ S0]. specialize (S0 _ _ TS). unfold shorter in S0. rewrite !app_length in S0. lia. }
           assert (Hf2 : (length (rest ++ R') < f)%nat) by (rewrite Er in Hf; rewrite app_length in *; lia).
           rewrite (dispatch_lead rest f su true _ R' Hnr Hf2) in Hd.
           destruct (forallb is_empty_tok rest) eqn:Eemp; [|discriminate].
           set (a1 := mkAcc (ac_u a) (Some (mkT tl (kv_sort m))) (ac_x a)
                            (ac_strict a && (negb (nil_b body) && nil_b rest && all_have_values r1 tkey_tok)) (ac_nodup a && keys_nodup m)).
           assert (Hlen' : (length R' <= n)%nat).
           { subst R'. destruct o as [[t r']|]; cbn [length] in *; lia. }
           assert (Hf3 : (length R' < f - length rest)%nat) by (rewrite Er in Hf; rewrite !app_length in *; lia).
           match type of Hd with dispatch ?f' ?su' ?st' ?ac' _ = _ => destruct (IH R' Hlen' HR' f' su' st' ac' a1 e Hf3) as (a' & Pa & Va); [|exact Hd|] end.
           { unfold rel, a1. cbn [ac_u ac_t ac_x ac_nodup e_unicode e_transform e_private is_some]. repeat split; auto.
             all: match goal with H : _ && _ = true |- _ => apply andb_true_iff in H as [N1 N2] end.
             - exact (proj1 (Hnd N1)).
             - cbn [or_default]. rewrite (ins_all_kv_sort m N2). reflexivity. }
           exists a'. split; [|exact Va]. rewrite process_tail_is_proc_from. fold R'. exact Pa.
        -- destruct (to_lower b =? 120) eqn:E120.
           ++ (* -x- *)
              cbn [process single_is]. rewrite E117, E116, E120. rewrite Hx.
              rewrite x_parse_spec in Hd. destruct (x_body_spec r) as [[x sr]|]; cbn [bind] in Hd; [|discriminate].
              injection Hd as <-. eexists. split; [reflexivity|]. cbn [ac_nodup]. intros N. apply andb_true_iff in N as [N1 _].
              destruct (Hnd N1) as [E1 E2]. unfold acc_val. cbn [ac_u ac_t ac_x or_default]. rewrite E1, E2. reflexivity.
           ++ destruct (is_alnum (to_lower b)); discriminate.
Qed.

Lemma process_mono segs : forall a a', process segs a = Some a' ->
  (ac_strict a' = true -> ac_strict a = true) /\ (ac_nodup a' = true -> ac_nodup a = true).
Proof.
  induction segs as [|[s body] segs IH]; intros a a'; cbn [process]; [intros H; injection H as <-; auto|].
  destruct (single_is 117 s).
  - destruct (ac_u a); [discriminate|]. destruct (u_body_spec body) as [[u sr]|]; [|discriminate].
    intros H. destruct (IH _ _ H) as [M1 M2]. cbn [ac_strict ac_nodup] in *. split; intros X.
    + specialize (M1 X). apply andb_true_iff in M1 as [M1 _]. exact M1.
    + specialize (M2 X). apply andb_true_iff in M2 as [M2 _]. exact M2.
  - destruct (single_is 116 s).
    + destruct (ac_t a); [discriminate|]. destruct (t_body_spec body) as [[u sr]|]; [|discriminate].
      intros H. destruct (IH _ _ H) as [M1 M2]. cbn [ac_strict ac_nodup] in *. split; intros X.
      * specialize (M1 X). apply andb_true_iff in M1 as [M1 _]. exact M1.
      * specialize (M2 X). apply andb_true_iff in M2 as [M2 _]. exact M2.
    + destruct (single_is 120 s); [|discriminate].
      destruct (ac_x a); [discriminate|]. destruct (x_body_spec body) as [[u sr]|]; [|discriminate].
      intros H. destruct (IH _ _ H) as [M1 M2]. cbn [ac_strict ac_nodup] in *. split; intros X.
      * specialize (M1 X). apply andb_true_iff in M1 as [M1 _]. exact M1.
      * specialize (M2 X). apply andb_true_iff in M2 as [M2 _]. exact M2.
Qed.
Lemma proc_from_mono R a a' : proc_from R a = Some a' ->
  (ac_strict a' = true -> ac_strict a = true) /\ (ac_nodup a' = true -> ac_nodup a = true).
Proof.
  destruct R as [|s r]; cbn [proc_from]; [intros H; injection H as <-; auto|].
  destruct (single_is 120 s); apply process_mono.
Qed.

(* COMPLETENESS of the dispatch loop on strict input without duplicate keys *)
Lemma dispatch_complete n : forall R, (length R <= n)%nat -> ext_stop R ->
  forall f su st ac a a', (length R < f)%nat -> rel su st ac a ->
  proc_from R a = Some a' -> ac_strict a' = true -> ac_nodup a' = true ->
  dispatch f su st ac R = Ok (acc_val a').
Proof.
  induction n as [|n IH]; intros R Hlen HR f su st ac a a' Hf (Hsu & Hst & Hx & Hp & Hnd) Hpf Hs' Hn'.
  - destruct R; [|cbn [length] in Hlen; lia]. destruct f; [lia|]. cbn [proc_from] in Hpf. injection Hpf as <-.
    cbn [dispatch]. destruct (Hnd Hn') as [E1 E2]. unfold acc_val. rewrite <- E1, <- E2, Hx. cbn [or_default]. rewrite <- Hp. destruct ac; reflexivity.
  - destruct R as [|s r].
    + destruct f; [lia|]. cbn [proc_from] in Hpf. injection Hpf as <-.
      cbn [dispatch]. destruct (Hnd Hn') as [E1 E2]. unfold acc_val. rewrite <- E1, <- E2, Hx. cbn [or_default]. rewrite <- Hp. destruct ac; reflexivity.
    + cbn in HR. destruct s as [|b [|c s']]; try discriminate. clear HR.
      destruct f as [|f]; [lia|]. cbn [length] in Hf, Hlen. cbn [dispatch length Nat.ltb Nat.leb].
      rewrite ext_type_single. cbn [proc_from single_is] in Hpf.
      pose proof (split_single_spec r) as SP. pose proof (split_single_length r) as SL.
      destruct (to_lower b =? 117) eqn:E117.
      * assert ((to_lower b =? 120) = false) as E120 by (apply N.eqb_eq in E117; rewrite E117; reflexivity).
        rewrite E120 in Hpf. rewrite (segments_next [b] r ltac:(cbn [single_is]; exact E120)) in Hpf.
        destruct (split_single r) as [body o]. destruct SP as [Hnb Ho]. cbn [snd] in SL.
        set (R' := match o with None => [] | Some (t, r') => t :: r' end) in *.
        assert (Er : r = body ++ R') by (destruct o as [[t r']|]; [destruct Ho as [-> _]; reflexivity|subst; subst R'; rewrite app_nil_r; reflexivity]).
        assert (HR' : ext_stop R') by (apply o_stop; destruct o as [[t r']|]; [apply Ho|exact I]).
        cbn [process single_is] in Hpf. rewrite E117 in Hpf.
        destruct (ac_u a) as [ua|] eqn:Eua; [discriminate|]. cbn [is_some] in Hsu. subst su.
        pose proof (u_segment body R' HR') as US. unfold u_body_spec in Hpf.
        destruct (kw_spec ukey_tok utype_tok (drop_while attr_tok body) None) as [[m rest]|] eqn:Ekw; [|destruct US].
        destruct (forallb is_empty_tok rest) eqn:Eemp; [|discriminate].
        rewrite process_tail_is_proc_from in Hpf. fold R' in Hpf.
        destruct (proc_from_mono _ _ _ Hpf) as [M1 M2]. specialize (M1 Hs'). specialize (M2 Hn'). cbn [ac_strict ac_nodup] in M1, M2.
        apply andb_true_iff in M1 as [Ms Msr]. apply andb_true_iff in Msr as [_ Mrest]. apply andb_true_iff in M2 as [Mn Mk].
        destruct rest as [|r0 rest']; [|discriminate]. clear Mrest.
        destruct US as [[C _]|US]; [discriminate|]. rewrite Er, US. cbn [bind fst snd app].
        assert (Hlen' : (length R' <= n)%nat) by (subst R'; destruct o as [[t r']|]; cbn [length] in *; lia).
        assert (Hf3 : (length R' < f)%nat) by (rewrite Er in Hf; rewrite app_length in Hf; lia).
        match type of Hpf with proc_from _ ?a1 = _ => apply (IH R' Hlen' HR' f true st _ a1 a' Hf3); [|exact Hpf|exact Hs'|exact Hn'] end.
        unfold rel. cbn [ac_u ac_t ac_x ac_nodup e_unicode e_transform e_private is_some]. repeat split; auto.
        all: match goal with H : _ && _ = true |- _ => apply andb_true_iff in H as [N1 N2] end.
        -- cbn [or_default]. rewrite (ins_all_kv_sort m N2). reflexivity.
        -- exact (proj2 (Hnd N1)).
      * destruct (to_lower b =? 116) eqn:E116.
        -- assert ((to_lower b =? 120) = false) as E120 by (apply N.eqb_eq in E116; rewrite E116; reflexivity).
           rewrite E120 in Hpf. rewrite (segments_next [b] r ltac:(cbn [single_is]; exact E120)) in Hpf.
           destruct (split_single r) as [body o]. destruct SP as [Hnb Ho]. cbn [snd] in SL.
           set (R' := match o with None => [] | Some (t, r') => t :: r' end) in *.
           assert (Er : r = body ++ R') by (destruct o as [[t r']|]; [destruct Ho as [-> _]; reflexivity|subst; subst R'; rewrite app_nil_r; reflexivity]).
           assert (HR' : ext_stop R') by (apply o_stop; destruct o as [[t r']|]; [apply Ho|exact I]).
           cbn [process single_is] in Hpf. rewrite E117, E116 in Hpf.
           destruct (ac_t a) as [ta|] eqn:Eta; [discriminate|]. cbn [is_some] in Hst. subst st.
           pose proof (t_segment body R' Hnb HR') as TS. unfold t_body_spec in Hpf. fold (t_pieces body) in Hpf.
           destruct (t_pieces body) as [tl r1] eqn:Etp. cbn [fst snd] in Hpf.
           destruct (kw_spec tkey_tok tvalue_tok r1 None) as [[m rest]|] eqn:Ekw; [|destruct TS].
           destruct (forallb is_empty_tok rest) eqn:Eemp; [|discriminate].
           rewrite process_tail_is_proc_from in Hpf. fold R' in Hpf.
           destruct (proc_from_mono _ _ _ Hpf) as [M1 M2]. specialize (M1 Hs'). specialize (M2 Hn'). cbn [ac_strict ac_nodup] in M1, M2.
           apply andb_true_iff in M1 as [Ms Msr]. apply andb_true_iff in Msr as [Msr _]. apply andb_true_iff in Msr as [_ Mrest]. apply andb_true_iff in M2 as [Mn Mk].
           destruct rest as [|r0 rest']; [|discriminate]. clear Mrest.
           destruct TS as [TS|[_ C]]; [|congruence]. rewrite Er, TS. cbn [bind fst snd app].
           assert (Hlen' : (length R' <= n)%nat) by (subst R'; destruct o as [[t r']|]; cbn [length] in *; lia).
           assert (Hf3 : (length R' < f)%nat) by (rewrite Er in Hf; rewrite app_length in Hf; lia).
           match type of Hpf with proc_from _ ?a1 = _ => apply (IH R' Hlen' HR' f su true _ a1 a' Hf3); [|exact Hpf|exact Hs'|exact Hn'] end.
           unfold rel. cbn [ac_u ac_t ac_x ac_nodup e_unicode e_transform e_private is_some]. repeat split; auto.
           all: match goal with H : _ && _ = true |- _ => apply andb_true_iff in H as [N1 N2] end.
           ++ exact (proj1 (Hnd N1)).
           ++ cbn [or_default]. rewrite (ins_all_kv_sort m N2). reflexivity.
        -- destruct (to_lower b =? 120) eqn:E120.
           2:{ rewrite (segments_next [b] r ltac:(cbn [single_is]; exact E120)) in Hpf.
               destruct (split_single r) as [body o]. cbn [process single_is] in Hpf. rewrite E117, E116, E120 in Hpf. discriminate. }
           cbn [process single_is] in Hpf. rewrite E117, E116, E120, Hx in Hpf.
           rewrite x_parse_spec. destruct (x_body_spec r) as [[x sr]|]; [|discriminate]. cbn [process] in Hpf. injection Hpf as <-.
           cbn [bind]. cbn [ac_nodup] in Hn'. apply andb_true_iff in Hn' as [N1 _].
           destruct (Hnd N1) as [E1 E2]. unfold acc_val. cbn [ac_u ac_t ac_x or_default]. rewrite E1, E2. reflexivity.
Qed.

(* ---------------------------------------------------------------- C03 *)
Lemma zone_shape toks id rem :
  toks <> [] -> spec_langid_prefix toks = Some (id, rem) ->
  spec_locale_zone toks =
  let (lead, o) := split_single rem in
  if forallb is_empty_tok lead then
    match proc_from (match o with None => [] | Some (t, r') => t :: r' end) (mkAcc None None None (nil_b lead) true) with
    | Some a => if negb (ac_nodup a) then Outside
                else if ac_strict a then MustAccept (mkLoc id (acc_val a)) else Either (mkLoc id (acc_val a))
    | None => MustReject
    end
  else MustReject.
Proof.
  intros Hne Hp. unfold spec_locale_zone. destruct toks as [|t0 ts]; [congruence|]. rewrite Hp.
  rewrite (segments_split rem [] []). destruct (split_single rem) as [lead o]. cbn [rev app].
  destruct o as [[t r]|].
  - destruct (single_is 120 t) eqn:E120; destruct (forallb is_empty_tok lead); try reflexivity;
      cbn [proc_from]; rewrite E120; reflexivity.
  - destruct (forallb is_empty_tok lead); reflexivity.
Qed.

Lemma rel_init (lead : list bytes) : rel false false extmap_default (mkAcc None None None (nil_b lead) true).
Proof. unfold rel. cbn. repeat split; auto. Qed.

(* SOUND: whatever the parser accepts is in the lenient language, with exactly that value *)
Theorem locale_sound s l : locale_from_bytes s = Ok l ->
  match spec_locale_zone (split s) with
  | MustAccept v | Either v => v = l
  | Outside => True
  | MustReject => False
  end.
Proof.
  unfold locale_from_bytes. rewrite langid_from_iter_spec.
  destruct (spec_langid_prefix (split s)) as [[id rem]|] eqn:Hp; [|discriminate]. cbn [negb andb].
  destruct (ext_from_iter rem) as [e| | |] eqn:Ee; cbn [bind]; try discriminate. intros H. injection H as <-.
  rewrite (zone_shape (split s) id rem (split_nonempty s) Hp).
  unfold ext_from_iter in Ee.
  pose proof (split_single_spec rem) as SP. destruct (split_single rem) as [lead o]. destruct SP as [Hnl Ho].
  set (R' := match o with None => [] | Some (t, r') => t :: r' end) in *.
  assert (Er : rem = lead ++ R') by (destruct o as [[t r']|]; [destruct Ho as [-> _]; reflexivity|subst; subst R'; rewrite app_nil_r; reflexivity]).
  assert (HR' : ext_stop R') by (apply o_stop; destruct o as [[t r']|]; [apply Ho|exact I]).
  rewrite Er in Ee. rewrite (dispatch_lead lead (S (length (lead ++ R'))) false false extmap_default R' Hnl ltac:(lia)) in Ee.
  destruct (forallb is_empty_tok lead); [|discriminate].
  assert (Hfu : (length R' < S (length (lead ++ R')) - length lead)%nat) by (rewrite app_length; lia).
  destruct (dispatch_sound (length R') R' (le_n _) HR' _ false false extmap_default _ e Hfu (rel_init lead) Ee) as (a' & Pa & Va).
  rewrite Pa. destruct (ac_nodup a') eqn:N; cbn [negb]; [|exact I].
  rewrite (Va eq_refl). destruct (ac_strict a'); reflexivity.
Qed.

(* COMPLETE: every strictly well-formed locale without duplicate keys is accepted, with the specified value *)
Theorem locale_complete s v : spec_locale_zone (split s) = MustAccept v -> locale_from_bytes s = Ok v.
Proof.
  unfold locale_from_bytes. rewrite langid_from_iter_spec. intros Hz.
  destruct (spec_langid_prefix (split s)) as [[id rem]|] eqn:Hp.
  2:{ unfold spec_locale_zone in Hz. destruct (split s); [discriminate|]. rewrite Hp in Hz. discriminate. }
  rewrite (zone_shape (split s) id rem (split_nonempty s) Hp) in Hz. cbn [negb andb].
  pose proof (split_single_spec rem) as SP. destruct (split_single rem) as [lead o]. destruct SP as [Hnl Ho].
  set (R' := match o with None => [] | Some (t, r') => t :: r' end) in *.
  assert (Er : rem = lead ++ R') by (destruct o as [[t r']|]; [destruct Ho as [-> _]; reflexivity|subst; subst R'; rewrite app_nil_r; reflexivity]).
  assert (HR' : ext_stop R') by (apply o_stop; destruct o as [[t r']|]; [apply Ho|exact I]).
  destruct (forallb is_empty_tok lead) eqn:El; [|discriminate].
  destruct (proc_from R' (mkAcc None None None (nil_b lead) true)) as [a'|] eqn:Pa; [|discriminate].
  destruct (ac_nodup a') eqn:N; cbn [negb] in Hz; [|discriminate].
  destruct (ac_strict a') eqn:Hstrict; [|discriminate]. injection Hz as <-.
  unfold ext_from_iter. rewrite Er. rewrite (dispatch_lead lead (S (length (lead ++ R'))) false false extmap_default R' Hnl ltac:(lia)), El.
  assert (Hfu : (length R' < S (length (lead ++ R')) - length lead)%nat) by (rewrite app_length; lia).
  rewrite (dispatch_complete (length R') R' (le_n _) HR' _ false false extmap_default _ a' Hfu (rel_init lead) Pa Hstrict N).
  reflexivity.
Qed.

(* REJECT: whatever the grammar reading rejects is an error (never a value) *)
Corollary locale_rejects s : spec_locale_zone (split s) = MustReject -> exists e, locale_from_bytes s = Err e.
Proof.
  intros Hz. destruct (locale_from_bytes_total s) as [[l E]|[e E]]; [|eauto].
  pose proof (locale_sound s l E) as Hs. rewrite Hz in Hs. destruct Hs.
Qed.
