(* LocaleSpecProofs.v — C03: the locale parser against the segment-based three-zone specification,
   for ALL token lists:  soundness (anything accepted is in the lenient language with THAT value:
   nothing dropped, nothing reinterpreted) and completeness (every strictly well-formed locale without
   duplicate keys is accepted with the specified value). *)
From UL Require Import Bytes Subtags LangId Ext Grammar LangIdSpec LocaleInv AbstractLocale LocaleSpec
                       BytesProofs SubtagProofs SortProofs SplitProofs LangIdProofs CanonProofs ExtProofs KmapProofs InvProofs
                       RoundTrip PermProofs KvProofs.
From Coq Require Import Lia ZifyBool ZifyN.
Open Scope N_scope.
Arguments N.add : simpl never.
Arguments N.sub : simpl never.
Arguments N.leb : simpl never.
Arguments N.eqb : simpl never.

(* ---------------------------------------------------------------- prefix closure of the -u- loop *)
Lemma u_loop_app body : forall cur types kws attrs R, ext_stop R ->
  u_loop cur types kws attrs (body ++ R) =
  match u_loop cur types kws attrs body with
  | Ok (u, rem) => Ok (u, rem ++ R)
  | Err e => Err e | Panic n => Panic n | OutOfFuel => OutOfFuel
  end.
Proof.
  induction body as [|t body IH]; intros cur types kws attrs R HR; cbn [app].
  - cbn [u_loop]. destruct R as [|t R']; [reflexivity|]. cbn in HR.
    cbn [u_loop]. destruct (single_u_stop t cur HR) as (-> & -> & ->). reflexivity.
  - cbn [u_loop]. destruct (length t =? 2)%nat.
    + destruct (parse_key t); cbn [bind]; auto.
    + destruct (is_some cur && is_type t).
      * destruct (parse_type t) as [[v|]| | |]; cbn [bind]; auto.
      * destruct (is_attribute t); [destruct (parse_attribute t); cbn [bind]; auto|reflexivity].
Qed.

(* ---------------------------------------------------------------- the keyword phase of -u- *)
(* spec accumulates lowered values (newest first) and drops `true` when flushing; the model drops at
   parse time: the model's `types` is drop_true (rev vs) *)
Lemma drop_true_app a b : drop_true (a ++ b) = drop_true a ++ drop_true b.
Proof. unfold drop_true. apply filter_app. Qed.
Lemma drop_true_opt_list v : drop_true [v] = match drop_true_opt v with Some x => [x] | None => [] end.
Proof. unfold drop_true, drop_true_opt, true_bytes. cbn [filter]. destruct (beqb v [116; 114; 117; 101]); reflexivity. Qed.

Definition bad2 (rest : list bytes) : bool := match rest with t :: _ => (length t =? 2)%nat | [] => false end.

Lemma ukey_len t : ukey_tok t = true -> (length t =? 2)%nat = true.
Proof. destruct t as [|a [|b [|c r]]]; cbn; try discriminate; reflexivity. Qed.
Lemma utype_len t : utype_tok t = true -> (length t =? 2)%nat = false.
Proof. unfold utype_tok, len_in. intros H. apply andb_true_iff in H as [_ H]. lia. Qed.

Lemma ins_all_app a b tf : ins_all (a ++ b) tf = ins_all b (ins_all a tf).
Proof. unfold ins_all. apply fold_left_app. Qed.

(* in the keyword phase (a current key exists) the loop and the specification walk together *)
Lemma u_kw_rel toks : forall k vs kws attrs m rest,
  kw_spec ukey_tok utype_tok toks (Some (k, vs)) = Some (m, rest) ->
  if bad2 rest then exists e, u_loop (Some k) (drop_true (rev vs)) kws attrs toks = Err e
  else u_loop (Some k) (drop_true (rev vs)) kws attrs toks = Ok (mkU (ins_all m kws) (dedup (sort attrs)), rest).
Proof.
  induction toks as [|t toks IH]; intros k vs kws attrs m rest; cbn [kw_spec].
  - intros H. injection H as <- <-. cbn [bad2 u_loop ins_all fold_left flush fst snd]. reflexivity.
  - destruct (ukey_tok t) eqn:Ek.
    + destruct (kw_spec ukey_tok utype_tok toks (Some (lower t, []))) as [[m' rest']|] eqn:E; [|discriminate].
      intros H. injection H as <- <-. specialize (IH (lower t) [] (flush (Some k) (drop_true (rev vs)) kws) attrs m' rest' E).
      cbn [u_loop]. rewrite (ukey_len _ Ek), parse_key_spec, Ek. cbn [bind rev drop_true filter] in *.
      destruct (bad2 rest'); [exact IH|]. rewrite IH. cbn [app ins_all fold_left flush fst snd]. reflexivity.
    + destruct (utype_tok t) eqn:Et.
      * intros H. specialize (IH k (lower t :: vs) kws attrs m rest H).
        cbn [u_loop]. rewrite (utype_len _ Et). cbn [is_some andb]. rewrite is_type_tok, Et, parse_type_spec, Et. cbn [bind].
        cbn [rev] in IH. rewrite drop_true_app, drop_true_opt_list in IH.
        destruct (drop_true_opt (lower t)); [exact IH|]. rewrite app_nil_r in IH. exact IH.
      * intros H. injection H as <- <-. cbn [bad2 u_loop].
        destruct (length t =? 2)%nat eqn:E2.
        -- rewrite parse_key_spec, Ek. cbn [bind]. eauto.
        -- cbn [is_some andb]. rewrite is_type_tok, Et. unfold is_attribute. rewrite is_type_tok, Et.
           cbn [ins_all fold_left flush fst snd]. reflexivity.
Qed.

(* the attribute phase *)
Lemma u_attr_rel body : forall attrs0 m rest,
  kw_spec ukey_tok utype_tok (drop_while attr_tok body) None = Some (m, rest) ->
  if bad2 rest then exists e, u_loop None [] [] attrs0 body = Err e
  else u_loop None [] [] attrs0 body
       = Ok (mkU (ins_all m []) (dedup (sort (attrs0 ++ map lower (take_while attr_tok body)))), rest).
Proof.
  induction body as [|t body IH]; intros attrs0 m rest; cbn [drop_while take_while map].
  - cbn [kw_spec]. intros H. injection H as <- <-. cbn [bad2 u_loop ins_all fold_left flush]. rewrite app_nil_r. reflexivity.
  - destruct (attr_tok t) eqn:Ea.
    + intros H. specialize (IH (attrs0 ++ [lower t]) m rest H).
      assert (E2 : (length t =? 2)%nat = false) by (apply utype_len; exact Ea).
      cbn [u_loop]. rewrite E2. cbn [is_some andb]. unfold is_attribute. rewrite is_type_tok.
      change (utype_tok t) with (attr_tok t). rewrite Ea, parse_attribute_spec, Ea. cbn [bind map].
      rewrite <- app_assoc in IH. exact IH.
    + cbn [kw_spec]. destruct (ukey_tok t) eqn:Ek.
      * destruct (kw_spec ukey_tok utype_tok body (Some (lower t, []))) as [[m' rest']|] eqn:E; [|discriminate].
        intros H. injection H as <- <-. cbn [app].
        pose proof (u_kw_rel body (lower t) [] [] attrs0 m' rest' E) as R.
        cbn [u_loop]. rewrite (ukey_len _ Ek), parse_key_spec, Ek. cbn [bind flush rev drop_true filter] in *.
        rewrite app_nil_r. exact R.
      * intros H. injection H as <- <-. cbn [bad2 u_loop].
        destruct (length t =? 2)%nat eqn:E2.
        -- rewrite parse_key_spec, Ek. cbn [bind]. eauto.
        -- cbn [is_some andb]. unfold is_attribute. rewrite is_type_tok. change (utype_tok t) with (attr_tok t). rewrite Ea.
           cbn [ins_all fold_left flush]. rewrite app_nil_r. reflexivity.
Qed.

Lemma kw_spec_total kt vt toks cur : exists m rest, kw_spec kt vt toks cur = Some (m, rest).
Proof.
  revert cur; induction toks as [|t toks IH]; intros cur; cbn [kw_spec]; [eauto|].
  destruct (kt t).
  - destruct (IH (Some (lower t, []))) as (m & rest & ->). eauto.
  - destruct cur as [[k vs]|]; [|eauto]. destruct (vt t); [apply IH|eauto].
Qed.

(* inserting entries with distinct keys one by one = sorting them by key *)
Lemma keys_nodup_kuniq m : keys_nodup m = true -> kuniq m.
Proof.
  unfold kuniq. induction m as [|[k v] m IH]; cbn [keys_nodup keys map fst]; intros H; [constructor|].
  apply andb_true_iff in H as [H1 H2]. constructor; [|exact (IH H2)].
  intros Hin. apply in_map_iff in Hin as ([k' v'] & E & Hin). cbn [fst] in E. subst k'.
  apply negb_true_iff in H1. assert (existsb (fun kv => beqb k (fst kv)) m = true); [|congruence].
  apply existsb_exists. exists (k, v'). split; [exact Hin|apply beqb_refl].
Qed.
Lemma kuniq_rev m : kuniq m -> kuniq (rev m).
Proof. unfold kuniq, keys. rewrite map_rev. apply NoDup_rev. Qed.
Lemma kuniq_snoc m k v : kuniq (m ++ [(k, v)]) -> kuniq m /\ ~ In k (keys m).
Proof.
  unfold kuniq, keys. rewrite map_app. cbn [map fst]. intros H. split.
  - apply NoDup_remove_1 in H. rewrite app_nil_r in H. exact H.
  - apply NoDup_remove_2 in H. rewrite app_nil_r in H. exact H.
Qed.
Lemma map_put_fresh k v m : ~ In k (keys m) -> map_put k v m = (k, v) :: m.
Proof.
  intros H. unfold map_put. f_equal. induction m as [|[k0 v0] m IH]; cbn [filter fst]; [reflexivity|].
  assert (beqb k k0 = false) as -> by (apply beqb_false; intros ->; apply H; left; reflexivity).
  cbn [negb]. f_equal. apply IH. intros Hin. apply H. right; exact Hin.
Qed.
Lemma ins_all_rev m : kuniq m -> ins_all m [] = kv_sort (rev m).
Proof.
  induction m as [|[k v] m IH] using rev_ind; intros Hu; [reflexivity|].
  destruct (kuniq_snoc m k v Hu) as [Hm Hk]. rewrite ins_all_app. cbn [ins_all fold_left fst snd].
  rewrite (IH Hm), rev_app_distr. cbn [rev app].
  rewrite <- (map_put_fresh k v (rev m)); [|unfold keys; rewrite map_rev; intros Hin; apply in_rev in Hin; exact (Hk Hin)].
  symmetry. apply kv_sort_map_put. apply kuniq_rev; exact Hm.
Qed.
Lemma kv_sort_rev m : kuniq m -> kv_sort (rev m) = kv_sort m.
Proof.
  intros H. apply ksorted_unique; [apply kv_sort_ksorted, kuniq_rev; exact H|apply kv_sort_ksorted; exact H|].
  intros x. rewrite !kv_sort_In. symmetry. apply in_rev.
Qed.
Lemma ins_all_kv_sort m : keys_nodup m = true -> ins_all m [] = kv_sort m.
Proof. intros H. pose proof (keys_nodup_kuniq m H) as Hu. rewrite (ins_all_rev m Hu). apply kv_sort_rev; exact Hu. Qed.

(* ---------------------------------------------------------------- -t- *)
Definition no_single (body : list bytes) : bool := forallb (fun t => negb (is_single t)) body.

Lemma variant_span_app r2 R : match R with [] => True | t :: _ => variant_tok t = false end ->
  take_while variant_tok (r2 ++ R) = take_while variant_tok r2
  /\ drop_while variant_tok (r2 ++ R) = drop_while variant_tok r2 ++ R.
Proof.
  intros HR. induction r2 as [|t r IH]; cbn [app take_while drop_while].
  - destruct R as [|t R']; [split; reflexivity|]. cbn [take_while drop_while]. rewrite HR. split; reflexivity.
  - destruct (variant_tok t); [destruct IH as [-> ->]; split; reflexivity|split; reflexivity].
Qed.

Lemma spec_langid_prefix_app toks R : li_stop R -> toks <> [] ->
  spec_langid_prefix (toks ++ R) =
  match spec_langid_prefix toks with Some (v, rem) => Some (v, rem ++ R) | None => None end.
Proof.
  intros HR Hne. destruct toks as [|l rest]; [congruence|]. cbn [app spec_langid_prefix].
  destruct (lang_tok l); [|reflexivity].
  assert (TS : take_script (rest ++ R) = let (a, b) := take_script rest in (a, b ++ R)).
  { destruct rest as [|t r]; cbn [app take_script].
    - destruct R as [|t R']; [reflexivity|]. cbn [take_script]. destruct HR as (-> & _ & _). reflexivity.
    - destruct (script_tok t); reflexivity. }
  rewrite TS. destruct (take_script rest) as [sc r1].
  assert (TR : take_region (r1 ++ R) = let (a, b) := take_region r1 in (a, b ++ R)).
  { destruct r1 as [|t r]; cbn [app take_region].
    - destruct R as [|t R']; [reflexivity|]. cbn [take_region]. destruct HR as (_ & -> & _). reflexivity.
    - destruct (region_tok t); reflexivity. }
  rewrite TR. destruct (take_region r1) as [rg r2].
  assert (HRv : match R with [] => True | t :: _ => variant_tok t = false end) by (destruct R; [exact I|apply HR]).
  assert (TW := variant_span_app r2 R HRv).
  destruct TW as [-> ->]. reflexivity.
Qed.

Lemma langid_from_iter_app toks R : li_stop R -> toks <> [] ->
  langid_from_iter (toks ++ R) true =
  match langid_from_iter toks true with
  | Ok (v, rem) => Ok (v, rem ++ R)
  | Err e => Err e | Panic n => Panic n | OutOfFuel => OutOfFuel
  end.
Proof.
  intros HR Hne. rewrite !langid_from_iter_spec, (spec_langid_prefix_app toks R HR Hne).
  destruct (spec_langid_prefix toks) as [[v rem]|]; reflexivity.
Qed.

Lemma t_loop_app fuel : forall body cur vals tf tl R, ext_stop R -> (length (body ++ R) < fuel)%nat ->
  t_loop fuel cur vals tf tl (body ++ R) =
  match t_loop fuel cur vals tf tl body with
  | Ok (t, rem) => Ok (t, rem ++ R)
  | Err e => Err e | Panic n => Panic n | OutOfFuel => OutOfFuel
  end.
Proof.
  induction fuel as [|f IH]; intros body cur vals tf tl R HR Hf; [lia|].
  destruct body as [|t body]; cbn [app].
  - cbn [t_loop]. destruct R as [|t R']; [reflexivity|]. cbn in HR.
    destruct (single_t_stop t HR) as [-> ->]. reflexivity.
  - cbn [app length] in Hf. cbn [t_loop].
    destruct (tkey_shape t).
    + destruct (parse_tkey t); cbn [bind]; auto. apply IH; [exact HR|lia].
    + destruct (length t =? 1)%nat; [reflexivity|].
      destruct (is_some cur).
      * destruct (parse_tvalue t) as [[v|]| | |]; cbn [bind]; auto; apply IH; auto; lia.
      * destruct (is_none tl && is_language_subtag t); [|reflexivity].
        change (t :: body ++ R) with ((t :: body) ++ R).
        rewrite (langid_from_iter_app (t :: body) R (ext_stop_li_stop R HR)); [|congruence].
        destruct (langid_from_iter_total (t :: body) true) as [[[[v rem] E]|[e E]] L]; rewrite E; [|reflexivity].
        assert (length rem < length (t :: body))%nat as Hl by (apply (L v rem E); congruence). cbn [length] in Hl.
        apply IH; [exact HR|]. rewrite app_length in *. lia.
Qed.

Lemma tkey_len t : tkey_tok t = true -> (length t =? 1)%nat = false.
Proof. destruct t as [|a [|b [|c r]]]; cbn; try discriminate; reflexivity. Qed.

(* keyword phase of -t-: with a current key every token must be a key or a value *)
Lemma t_kw_rel toks : forall fuel k vs tf tl m rest,
  no_single toks = true -> (length toks < fuel)%nat ->
  kw_spec tkey_tok tvalue_tok toks (Some (k, vs)) = Some (m, rest) ->
  match rest with
  | [] => t_loop fuel (Some k) (drop_true (rev vs)) tf tl toks = Ok (mkT tl (ins_all m tf), [])
  | _ :: _ => exists e, t_loop fuel (Some k) (drop_true (rev vs)) tf tl toks = Err e
  end.
Proof.
  induction toks as [|t toks IH]; intros fuel k vs tf tl m rest Hns Hf; (destruct fuel as [|f]; [lia|]); cbn [kw_spec].
  - intros H. injection H as <- <-. cbn [t_loop ins_all fold_left flush fst snd]. reflexivity.
  - cbn [no_single forallb] in Hns. apply andb_true_iff in Hns as [Ht Hns]. cbn [length] in Hf.
    unfold is_single in Ht. apply negb_true_iff in Ht.
    destruct (tkey_tok t) eqn:Ek.
    + destruct (kw_spec tkey_tok tvalue_tok toks (Some (lower t, []))) as [[m' rest']|] eqn:E; [|discriminate].
      intros H. injection H as <- <-.
      specialize (IH f (lower t) [] (flush (Some k) (drop_true (rev vs)) tf) tl m' rest' Hns ltac:(lia) E).
      cbn [t_loop]. rewrite tkey_shape_tok, Ek, parse_tkey_spec, Ek. cbn [bind rev drop_true filter] in *.
      destruct rest'; [|exact IH]. rewrite IH. cbn [app ins_all fold_left flush fst snd]. reflexivity.
    + destruct (tvalue_tok t) eqn:Et.
      * intros H. specialize (IH f k (lower t :: vs) tf tl m rest Hns ltac:(lia) H).
        cbn [t_loop]. rewrite tkey_shape_tok, Ek, Ht. cbn [is_some]. rewrite parse_tvalue_spec, Et. cbn [bind].
        cbn [rev] in IH. rewrite drop_true_app, drop_true_opt_list in IH.
        destruct (drop_true_opt (lower t)); [exact IH|]. rewrite app_nil_r in IH. exact IH.
      * intros H. injection H as <- <-. cbn [t_loop]. rewrite tkey_shape_tok, Ek, Ht. cbn [is_some].
        rewrite parse_tvalue_spec, Et. cbn [bind]. eauto.
Qed.

(* no current key: a key starts the keyword phase, anything else ends the extension *)
Lemma t_nokey_rel toks fuel tl m rest :
  no_single toks = true -> (length toks < fuel)%nat ->
  (is_none tl && match toks with t :: _ => is_language_subtag t | [] => false end) = false ->
  kw_spec tkey_tok tvalue_tok toks None = Some (m, rest) ->
  match rest with
  | [] => t_loop fuel None [] [] tl toks = Ok (mkT tl (ins_all m []), [])
  | _ :: _ => (m = [] /\ rest = toks /\ t_loop fuel None [] [] tl toks = Ok (mkT tl [], toks))
              \/ exists e, t_loop fuel None [] [] tl toks = Err e
  end.
Proof.
  intros Hns Hf Hg. destruct fuel as [|f]; [lia|]. destruct toks as [|t toks]; cbn [kw_spec].
  - intros H. injection H as <- <-. reflexivity.
  - cbn [no_single forallb] in Hns. apply andb_true_iff in Hns as [Ht Hns]. cbn [length] in Hf.
    unfold is_single in Ht. apply negb_true_iff in Ht.
    destruct (tkey_tok t) eqn:Ek.
    + destruct (kw_spec tkey_tok tvalue_tok toks (Some (lower t, []))) as [[m' rest']|] eqn:E; [|discriminate].
      intros H. injection H as <- <-.
      pose proof (t_kw_rel toks f (lower t) [] [] tl m' rest' Hns ltac:(lia) E) as R.
      cbn [t_loop]. rewrite tkey_shape_tok, Ek, parse_tkey_spec, Ek. cbn [bind flush rev drop_true filter app] in *.
      destruct rest'; [exact R|right; exact R].
    + intros H. injection H as <- <-. left. repeat split.
      cbn [t_loop]. rewrite tkey_shape_tok, Ek, Ht. cbn [is_some]. rewrite Hg. reflexivity.
Qed.
