(* LocaleGrammarInv.v — the converse of LocaleGrammarProofs: the MustAccept zone of the executable
   three-zone specification contains NOTHING BUT the well-formed locale identifiers of the relational grammar
   (spec/LocaleGrammar.v).  Together: spec_locale_zone toks = MustAccept v  <->  WFLocale toks v.  So the
   completeness obligation of C03 (everything in MustAccept must be accepted) demands exactly what the
   property states, no more: the oracle cannot raise an alarm for rejecting something that is not a
   well-formed identifier. *)
From UL Require Import Bytes Subtags LangId Ext Grammar LangIdSpec LocaleInv AbstractLocale LocaleSpec LocaleGrammar
                       BytesProofs SplitProofs LangIdProofs CanonProofs ExtProofs RoundTrip KvProofs LocaleSpecProofs StringLevel PrefixProofs
                       LocaleGrammarProofs.
From Coq Require Import Lia ZifyBool ZifyN.
Open Scope N_scope.
Arguments N.eqb : simpl never.
Arguments N.leb : simpl never.

(* ---------------------------------------------------------------- key/value groups, inverted *)
Section KWinv.
Variables kt vt : bytes -> bool.

Lemma kw_spec_inv toks : forall cur m, kw_spec kt vt toks cur = Some (m, []) ->
  exists vs gs, toks = vs ++ flat_map group_tokens gs /\ forallb vt vs = true
    /\ forallb (grp_ok kt vt) gs = true
    /\ (cur = None -> vs = [])
    /\ m = (match cur with Some (k, acc) => [(k, drop_true (rev acc ++ map lower vs))] | None => [] end) ++ map norm_group gs.
Proof.
  induction toks as [|t r IH]; intros cur m H.
  - cbn [kw_spec] in H. injection H as <-. exists [], []. cbn [app flat_map forallb map]. repeat split; try reflexivity.
    destruct cur as [[k acc]|]; rewrite ?app_nil_r; reflexivity.
  - cbn [kw_spec] in H. destruct (kt t) eqn:Ek.
    + destruct (kw_spec kt vt r (Some (lower t, []))) as [[m' rest]|] eqn:E; [|discriminate]. injection H as <- ->.
      destruct (IH _ _ E) as (vs' & gs' & -> & Hv & Hg & _ & ->).
      exists [], ((t, vs') :: gs'). cbn [app flat_map group_tokens fst snd forallb map]. repeat split; try reflexivity.
      * unfold grp_ok at 1. cbn [fst snd]. rewrite Ek, Hv, Hg. reflexivity.
      * cbn [rev app norm_group fst snd]. destruct cur as [[k acc]|]; rewrite ?app_nil_r; reflexivity.
    + destruct cur as [[k acc]|]; [|discriminate]. destruct (vt t) eqn:Ev; [|discriminate].
      destruct (IH _ _ H) as (vs' & gs' & -> & Hv & Hg & _ & ->).
      exists (t :: vs'), gs'. cbn [app forallb map]. rewrite Ev, Hv. repeat split; try reflexivity; try assumption; [discriminate|].
      cbn [rev]. rewrite <- app_assoc. reflexivity.
Qed.
End KWinv.

Lemma NoDup_of_keys_nodup gs : keys_nodup (map norm_group gs) = true -> NoDup (group_keys gs).
Proof. intros H. apply keys_nodup_kuniq in H. unfold kuniq, keys in H. rewrite keys_norm in H. exact H. Qed.

Lemma nil_b_true {A} (l : list A) : nil_b l = true -> l = [].
Proof. destruct l; [reflexivity|discriminate]. Qed.

Theorem u_body_inv body u sr : u_body_spec body = Some (u, sr) -> sr_strict sr = true -> sr_nodup sr = true -> WFU body u.
Proof.
  unfold u_body_spec. destruct (kw_spec ukey_tok utype_tok (drop_while attr_tok body) None) as [[kws rest]|] eqn:K; [|discriminate].
  destruct (forallb is_empty_tok rest); [|discriminate]. intros H. injection H as <- <-. cbn [sr_strict sr_nodup].
  intros Hs Hn. apply andb_true_iff in Hs as [Hb Hr]. apply nil_b_true in Hr. subst rest.
  destruct (kw_spec_inv _ _ _ _ _ K) as (vs & gs & E & _ & Hg & Hvs & ->). rewrite (Hvs eq_refl) in E. cbn [app] in *.
  rewrite <- (take_drop_while attr_tok body) at 1. rewrite E.
  constructor; [apply take_while_forall|exact Hg| |apply NoDup_of_keys_nodup; exact Hn].
  destruct (take_while attr_tok body) as [|a0 at'] eqn:Et; [|left; discriminate]. right. intros ->.
  cbn [flat_map] in E. pose proof (take_drop_while attr_tok body) as TD. rewrite Et, E in TD. subst body. discriminate.
Qed.

Lemma ahv_groups_inv kt vt gs : forallb (grp_ok kt vt) gs = true -> (forall t, vt t = true -> kt t = false) ->
  ahv_go kt (flat_map group_tokens gs) = true -> forallb (fun g => negb (nil_b (snd g))) gs = true.
Proof.
  intros Hg D. induction gs as [|[k vs] gs IH]; [reflexivity|]. cbn [forallb flat_map group_tokens fst snd app] in *.
  apply andb_true_iff in Hg as [Hg1 Hg2]. unfold grp_ok in Hg1. cbn [fst snd] in Hg1. apply andb_true_iff in Hg1 as [Hk Hv].
  cbn [ahv_go]. rewrite Hk. destruct vs as [|v vs].
  - cbn [app]. destruct (flat_map group_tokens gs) as [|x r] eqn:F; [discriminate|].
    (* the next token is the key of the next group: a key directly after a key is not strict *)
    destruct gs as [|[k2 vs2] gs']; [discriminate|]. cbn [flat_map group_tokens fst snd app] in F. injection F as <- _.
    cbn [forallb] in Hg2. apply andb_true_iff in Hg2 as [Hg21 _]. unfold grp_ok in Hg21. cbn [fst] in Hg21.
    apply andb_true_iff in Hg21 as [Hk2 _]. rewrite Hk2. discriminate.
  - cbn [app nil_b negb andb]. cbn [forallb] in Hv. apply andb_true_iff in Hv as [Hv1 Hv2]. rewrite (D _ Hv1). cbn [negb andb].
    intros H. apply IH; [exact Hg2|].
    change (ahv_go kt ((v :: vs) ++ flat_map group_tokens gs) = true) in H.
    rewrite (ahv_vals kt vt (v :: vs) _ D) in H by (cbn [forallb]; rewrite Hv1, Hv2; reflexivity). exact H.
Qed.

Lemma tfield_ok_of gs : forallb (grp_ok tkey_tok tvalue_tok) gs = true -> forallb (fun g => negb (nil_b (snd g))) gs = true ->
  forallb tfield_ok gs = true.
Proof.
  induction gs as [|g gs IH]; [reflexivity|]. cbn [forallb]. intros H1 H2. apply andb_true_iff in H1 as [A1 A2].
  apply andb_true_iff in H2 as [B1 B2]. rewrite (IH A2 B2), andb_true_r. unfold tfield_ok. unfold grp_ok in A1. rewrite A1.
  unfold nil_b in B1. exact B1.
Qed.

Theorem t_body_inv body t sr : t_body_spec body = Some (t, sr) -> sr_strict sr = true -> sr_nodup sr = true -> WFT body t.
Proof.
  rewrite t_body_spec_pieces. destruct (kw_spec tkey_tok tvalue_tok (snd (t_pieces body)) None) as [[fields rest]|] eqn:K; [|discriminate].
  destruct (forallb is_empty_tok rest); [|discriminate]. intros H. injection H as <- <-. cbn [sr_strict sr_nodup].
  intros Hs Hn. apply andb_true_iff in Hs as [Hs Hav]. apply andb_true_iff in Hs as [Hb Hr]. apply nil_b_true in Hr. subst rest.
  destruct (kw_spec_inv _ _ _ _ _ K) as (vs & gs & E & _ & Hg & Hvs & ->). rewrite (Hvs eq_refl) in E. cbn [app] in *.
  rewrite all_have_values_go, E in Hav. pose proof (ahv_groups_inv _ _ _ Hg tvalue_not_key Hav) as Hnn.
  pose proof (tfield_ok_of _ Hg Hnn) as Hf. pose proof (NoDup_of_keys_nodup _ Hn) as Hnd.
  unfold t_pieces in *. destruct body as [|h b]; [discriminate|].
  destruct (lang_tok h) eqn:Hl.
  - destruct (spec_langid_prefix (h :: b)) as [[v rest]|] eqn:P.
    + cbn [fst snd] in *. subst rest.
      destruct (prefix_decomp (h :: b) v _ ltac:(discriminate) P) as (pre & Eb & Pne & Sh).
      rewrite Eb in P. rewrite (spec_langid_prefix_app pre _ (groups_head_stop _ Hg) Pne) in P.
      destruct (spec_langid_prefix pre) as [[v' rem']|] eqn:Pp; [|discriminate]. injection P as -> Hr.
      assert (rem' = []) as ->.
      { destruct rem' as [|x r']; [reflexivity|]. apply (f_equal (@length _)) in Hr. rewrite app_length in Hr. cbn [length] in Hr. lia. }
      rewrite Eb. apply WFT_lang; [|exact Hf|exact Hnd]. apply WFLangIdT_iff, spec_langid_iff.
      unfold spec_langid. destruct pre as [|p0 pr]; [congruence|]. rewrite Pp. reflexivity.
    + (* lang_tok h gives a prefix reading: impossible *)
      cbn [spec_langid_prefix] in P. rewrite Hl in P. destruct (take_script b) as [sc r1]. destruct (take_region r1) as [rg r2]. discriminate.
  - cbn [fst snd] in *. rewrite E. apply WFT_fields; [|exact Hf|exact Hnd]. intros ->. cbn [flat_map] in E. discriminate.
Qed.

Theorem x_body_inv body x sr : x_body_spec body = Some (x, sr) -> sr_strict sr = true ->
  body <> [] /\ forallb priv_tok body = true /\ x = sort (map lower body).
Proof.
  unfold x_body_spec. destruct (forallb priv_tok body) eqn:P; [|discriminate]. intros H. injection H as <- <-. cbn [sr_strict].
  intros Hs. repeat split. intros ->. discriminate.
Qed.

(* ---------------------------------------------------------------- the segment list, inverted *)
Definition olist (o : option (bytes * list bytes)) : list bytes := match o with None => [] | Some (t, r) => t :: r end.

Lemma tailsegs_cons s r : single_is 120 s = false ->
  tailsegs (s :: r) = (s, fst (split_single r)) :: tailsegs (olist (snd (split_single r))).
Proof.
  intros H. cbn [tailsegs]. rewrite H, segments_split. destruct (split_single r) as [lead [[t r']|]]; cbn [fst snd olist rev app tailsegs];
    [destruct (single_is 120 t)|]; reflexivity.
Qed.
Lemma split_single_parts r : r = fst (split_single r) ++ olist (snd (split_single r))
  /\ no_single (fst (split_single r)) = true /\ ext_stop (olist (snd (split_single r))).
Proof.
  pose proof (split_single_spec r) as S. destruct (split_single r) as [lead o]. destruct S as [Hn Ho]. cbn [fst snd].
  split; [|split; [exact Hn|]].
  - destruct o as [[t r']|]; [exact (proj1 Ho)|subst; cbn [olist]; rewrite app_nil_r; reflexivity].
  - destruct o as [[t r']|]; [|exact I]. cbn [olist ext_stop]. destruct Ho as [_ Hs]. unfold is_single in Hs. lia.
Qed.

Lemma process_step s body rest a a' : process ((s, body) :: rest) a = Some a' ->
  (single_is 117 s = true /\ ac_u a = None /\ exists u sr, u_body_spec body = Some (u, sr)
     /\ process rest (mkAcc (Some u) (ac_t a) (ac_x a) (ac_strict a && sr_strict sr) (ac_nodup a && sr_nodup sr)) = Some a')
  \/ (single_is 116 s = true /\ ac_t a = None /\ exists t sr, t_body_spec body = Some (t, sr)
     /\ process rest (mkAcc (ac_u a) (Some t) (ac_x a) (ac_strict a && sr_strict sr) (ac_nodup a && sr_nodup sr)) = Some a')
  \/ (single_is 120 s = true /\ ac_x a = None /\ exists x sr, x_body_spec body = Some (x, sr)
     /\ process rest (mkAcc (ac_u a) (ac_t a) (Some x) (ac_strict a && sr_strict sr) (ac_nodup a && sr_nodup sr)) = Some a').
Proof.
  cbn [process]. destruct (single_is 117 s) eqn:E7.
  - destruct (ac_u a); [discriminate|]. destruct (u_body_spec body) as [[u sr]|]; [|discriminate]. intros H. left. eauto 8.
  - destruct (single_is 116 s) eqn:E6.
    + destruct (ac_t a); [discriminate|]. destruct (t_body_spec body) as [[t sr]|]; [|discriminate]. intros H. right. left. eauto 8.
    + destruct (single_is 120 s) eqn:E0; [|discriminate].
      destruct (ac_x a); [discriminate|]. destruct (x_body_spec body) as [[x sr]|]; [|discriminate]. intros H. right. right. eauto 8.
Qed.

Lemma flags_after rest a a' : process rest a = Some a' -> ac_strict a' = true -> ac_nodup a' = true ->
  ac_strict a = true /\ ac_nodup a = true.
Proof. intros P S N. destruct (process_mono _ _ _ P) as [M1 M2]. auto. Qed.

Lemma ext_stop_single s r : ext_stop (s :: r) -> is_single s = true.
Proof. cbn [ext_stop]. unfold is_single. lia. Qed.

(* a lone private-use segment, or nothing *)
Lemma inv_x_only s r a a' : single_is 120 s = true -> process [(s, r)] a = Some a' -> ac_strict a' = true ->
  WFX (s :: r) (or_default (ac_x a') []) /\ ac_u a' = ac_u a /\ ac_t a' = ac_t a.
Proof.
  intros E0 P S. apply process_step in P as [(E7 & _)|[(E6 & _)|(_ & Hx & x & sr & B & P)]].
  - rewrite (single_is_other 120 117 s E0 ltac:(lia)) in E7. discriminate.
  - rewrite (single_is_other 120 116 s E0 ltac:(lia)) in E6. discriminate.
  - cbn [process] in P. injection P as <-. cbn [ac_strict ac_x ac_u ac_t or_default] in *.
    apply andb_true_iff in S as [_ S]. destruct (x_body_inv _ _ _ B S) as (Hne & Hp & ->).
    split; [|auto]. apply X_some; assumption.
Qed.

(* both -u- and -t- already seen: only a private-use part may follow *)
Lemma inv_x R a a' : ext_stop R -> ac_u a <> None -> ac_t a <> None -> ac_x a = None ->
  process (tailsegs R) a = Some a' -> ac_strict a' = true ->
  WFX R (or_default (ac_x a') []) /\ ac_u a' = ac_u a /\ ac_t a' = ac_t a.
Proof.
  intros HR Hu Ht Hx P S. destruct R as [|s r].
  - cbn [tailsegs process] in P. injection P as <-. rewrite Hx. cbn [or_default]. repeat split. apply X_none.
  - destruct (single_is 120 s) eqn:E0.
    + cbn [tailsegs] in P. rewrite E0 in P. exact (inv_x_only s r a a' E0 P S).
    + rewrite (tailsegs_cons s r E0) in P. apply process_step in P as [(_ & U & _)|[(_ & T & _)|(E & _)]]; congruence.
Qed.

(* after -u-: nothing, -x-, or -t- then nothing / -x- *)
Lemma inv_after_u R a a' : ext_stop R -> ac_u a <> None -> ac_t a = None -> ac_x a = None ->
  process (tailsegs R) a = Some a' -> ac_strict a' = true -> ac_nodup a' = true ->
  ac_u a' = ac_u a /\
  ((WFX R (or_default (ac_x a') []) /\ ac_t a' = None)
   \/ (exists st tb t px, R = st :: tb ++ px /\ single_is 116 st = true /\ WFT tb t /\ WFX px (or_default (ac_x a') []) /\ ac_t a' = Some t)).
Proof.
  intros HR Hu Ht Hx P S N. destruct R as [|s r].
  - cbn [tailsegs process] in P. injection P as <-. rewrite Hx, Ht. cbn [or_default]. split; [reflexivity|]. left. split; [apply X_none|reflexivity].
  - destruct (single_is 120 s) eqn:E0.
    + cbn [tailsegs] in P. rewrite E0 in P. destruct (inv_x_only s r a a' E0 P S) as (W & Eu & Et). split; [exact Eu|]. left. rewrite Et, Ht. auto.
    + rewrite (tailsegs_cons s r E0) in P. destruct (split_single_parts r) as (Er & Hns & Hst).
      apply process_step in P as [(_ & U & _)|[(E6 & _ & t & sr & B & P)|(E & _)]]; [congruence| |congruence].
      destruct (flags_after _ _ _ P S N) as [S1 N1]. cbn [ac_strict ac_nodup] in S1, N1.
      apply andb_true_iff in S1 as [_ S1]. apply andb_true_iff in N1 as [_ N1].
      pose proof (t_body_inv _ _ _ B S1 N1) as Wt.
      assert (IX := fun H1 H2 H3 => inv_x _ _ _ Hst H1 H2 H3 P S). cbn [ac_u ac_t ac_x] in IX.
      destruct (IX Hu ltac:(discriminate) Hx) as (Wx & Eu & Et).
      cbn [ac_u ac_t] in Eu, Et. split; [exact Eu|]. right. exists s, (fst (split_single r)), t, (olist (snd (split_single r))).
      repeat split; try assumption. rewrite <- Er. reflexivity.
Qed.

(* after -t-: nothing, -x-, or -u- then nothing / -x- *)
Lemma inv_after_t R a a' : ext_stop R -> ac_t a <> None -> ac_u a = None -> ac_x a = None ->
  process (tailsegs R) a = Some a' -> ac_strict a' = true -> ac_nodup a' = true ->
  ac_t a' = ac_t a /\
  ((WFX R (or_default (ac_x a') []) /\ ac_u a' = None)
   \/ (exists su ub u px, R = su :: ub ++ px /\ single_is 117 su = true /\ WFU ub u /\ WFX px (or_default (ac_x a') []) /\ ac_u a' = Some u)).
Proof.
  intros HR Ht Hu Hx P S N. destruct R as [|s r].
  - cbn [tailsegs process] in P. injection P as <-. rewrite Hx, Hu. cbn [or_default]. split; [reflexivity|]. left. split; [apply X_none|reflexivity].
  - destruct (single_is 120 s) eqn:E0.
    + cbn [tailsegs] in P. rewrite E0 in P. destruct (inv_x_only s r a a' E0 P S) as (W & Eu & Et). split; [exact Et|]. left. rewrite Eu, Hu. auto.
    + rewrite (tailsegs_cons s r E0) in P. destruct (split_single_parts r) as (Er & Hns & Hst).
      apply process_step in P as [(E7 & _ & u & sr & B & P)|[(_ & T & _)|(E & _)]]; [|congruence|congruence].
      destruct (flags_after _ _ _ P S N) as [S1 N1]. cbn [ac_strict ac_nodup] in S1, N1.
      apply andb_true_iff in S1 as [_ S1]. apply andb_true_iff in N1 as [_ N1].
      pose proof (u_body_inv _ _ _ B S1 N1) as Wu.
      assert (IX := fun H1 H2 H3 => inv_x _ _ _ Hst H1 H2 H3 P S). cbn [ac_u ac_t ac_x] in IX.
      destruct (IX ltac:(discriminate) Ht Hx) as (Wx & Eu & Et).
      cbn [ac_u ac_t] in Eu, Et. split; [exact Et|]. right. exists s, (fst (split_single r)), u, (olist (snd (split_single r))).
      repeat split; try assumption. rewrite <- Er. reflexivity.
Qed.

(* from the start *)
Lemma inv_start R a' : ext_stop R -> process (tailsegs R) (mkAcc None None None true true) = Some a' ->
  ac_strict a' = true -> ac_nodup a' = true ->
  exists ut px, R = ut ++ px /\ WFUT ut (or_default (ac_u a') uext_default) (or_default (ac_t a') text_default)
                /\ WFX px (or_default (ac_x a') []).
Proof.
  intros HR P S N. destruct R as [|s r].
  - cbn [tailsegs process] in P. injection P as <-. exists [], []. cbn [or_default ac_u ac_t ac_x app]. repeat split; constructor.
  - destruct (single_is 120 s) eqn:E0.
    + cbn [tailsegs] in P. rewrite E0 in P. destruct (inv_x_only s r _ a' E0 P S) as (W & Eu & Et).
      exists [], (s :: r). rewrite Eu, Et. cbn [ac_u ac_t or_default app]. repeat split; [constructor|exact W].
    + rewrite (tailsegs_cons s r E0) in P. destruct (split_single_parts r) as (Er & Hns & Hst).
      apply process_step in P as [(E7 & _ & u & sr & B & P)|[(E6 & _ & t & sr & B & P)|(E & _)]]; [| |congruence].
      * destruct (flags_after _ _ _ P S N) as [S1 N1]. cbn [ac_strict ac_nodup andb] in S1, N1.
        pose proof (u_body_inv _ _ _ B S1 N1) as Wu.
        assert (IA := fun H1 H2 H3 => inv_after_u _ _ _ Hst H1 H2 H3 P S N). cbn [ac_u ac_t ac_x] in IA.
        destruct (IA ltac:(discriminate) eq_refl eq_refl) as (Eu & [(Wx & Et)|(st & tb & t & px & ER & Hst' & Wt & Wx & Et)]);
          cbn [ac_u] in Eu; rewrite Eu, Et; cbn [or_default].
        -- exists (s :: fst (split_single r)), (olist (snd (split_single r))). repeat split; [cbn [app]; rewrite <- Er; reflexivity| |exact Wx].
           apply UT_u; assumption.
        -- exists (s :: fst (split_single r) ++ st :: tb), px. repeat split; [|apply UT_ut; assumption|exact Wx].
           cbn [app]. rewrite <- app_assoc. cbn [app]. rewrite <- ER, <- Er. reflexivity.
      * destruct (flags_after _ _ _ P S N) as [S1 N1]. cbn [ac_strict ac_nodup andb] in S1, N1.
        pose proof (t_body_inv _ _ _ B S1 N1) as Wt.
        assert (IA := fun H1 H2 H3 => inv_after_t _ _ _ Hst H1 H2 H3 P S N). cbn [ac_u ac_t ac_x] in IA.
        destruct (IA ltac:(discriminate) eq_refl eq_refl) as (Et & [(Wx & Eu)|(su & ub & u & px & ER & Hsu' & Wu & Wx & Eu)]);
          cbn [ac_t] in Et; rewrite Eu, Et; cbn [or_default].
        -- exists (s :: fst (split_single r)), (olist (snd (split_single r))). repeat split; [cbn [app]; rewrite <- Er; reflexivity| |exact Wx].
           apply UT_t; assumption.
        -- exists (s :: fst (split_single r) ++ su :: ub), px. repeat split; [|apply UT_tu; assumption|exact Wx].
           cbn [app]. rewrite <- app_assoc. cbn [app]. rewrite <- ER, <- Er. reflexivity.
Qed.

(* ---------------------------------------------------------------- the MustAccept zone is the grammar *)
Theorem must_accept_is_WFLocale toks v : spec_locale_zone toks = MustAccept v -> WFLocale toks v.
Proof.
  intros Hz. assert (Hne : toks <> []) by (intros ->; discriminate).
  destruct (spec_langid_prefix toks) as [[id rem]|] eqn:Hp.
  2:{ unfold spec_locale_zone in Hz. destruct toks; [discriminate|]. rewrite Hp in Hz. discriminate. }
  rewrite (zone_shape toks id rem Hne Hp) in Hz.
  pose proof (split_single_spec rem) as SP. destruct (split_single rem) as [lead o]. destruct SP as [Hnl Ho].
  destruct (forallb is_empty_tok lead); [|discriminate].
  destruct (proc_from _ _) as [a|] eqn:Pa; [|discriminate].
  destruct (ac_nodup a) eqn:Nd; cbn [negb] in Hz; [|discriminate].
  destruct (ac_strict a) eqn:St; [|discriminate]. injection Hz as <-.
  destruct (proc_from_mono _ _ _ Pa) as [M _]. specialize (M St). cbn [ac_strict] in M.
  destruct lead as [|x lead']; [|discriminate]. cbn [nil_b] in Pa.
  assert (Erem : rem = olist o) by (destruct o as [[t r']|]; [exact (proj1 Ho)|exact Ho]).
  assert (HR : ext_stop rem).
  { rewrite Erem. destruct o as [[t r']|]; [|exact I]. cbn [olist ext_stop]. destruct Ho as [_ Hs]. unfold is_single in Hs. lia. }
  change (match o with None => [] | Some (t, r') => t :: r' end) with (olist o) in Pa. rewrite <- Erem, proc_from_tailsegs in Pa.
  destruct (inv_start rem a HR Pa St Nd) as (ut & px & -> & Wut & Wx).
  destruct (prefix_decomp toks id _ Hne Hp) as (pre & E & Pne & Sh).
  rewrite E in Hp. rewrite (spec_langid_prefix_app pre _ (single_li_stop _ HR) Pne) in Hp.
  destruct (spec_langid_prefix pre) as [[v' rem']|] eqn:Pp; [|discriminate]. injection Hp as -> Hr.
  assert (rem' = []) as ->.
  { destruct rem' as [|y r']; [reflexivity|]. apply (f_equal (@length _)) in Hr. rewrite app_length in Hr. cbn [length] in Hr. lia. }
  rewrite E. unfold acc_val. apply WFLocale_intro; [|exact Wut|exact Wx].
  apply WFLangIdT_iff, spec_langid_iff. unfold spec_langid. destruct pre as [|p0 pr]; [congruence|]. rewrite Pp. reflexivity.
Qed.

Theorem must_accept_iff_WFLocale toks v : spec_locale_zone toks = MustAccept v <-> WFLocale toks v.
Proof. split; [apply must_accept_is_WFLocale|apply WFLocale_must_accept]. Qed.
