(* OracleSoundAll.v — the groups of OracleSound*.v assembled: whatever operation the driver is asked about, the
   model's answer (`oracle_model`) passes the default specification (`oracle_spec` when the property has no view of
   its own for that operation). *)
From UL Require Import Bytes Subtags LangId Ext Grammar LangIdSpec Likely LikelyProofs Oracle OracleSound OracleSoundLikely OracleSoundRest.
From Coq Require Import String Lia.
Open Scope N_scope.

Ltac all_false H :=
  repeat match type of H with
         | (if beqb ?op (bs ?s) then _ else _) = None => destruct (beqb op (bs s)) eqn:?; [discriminate H|]
         end.
Ltac use_false :=
  repeat match goal with
         | E : beqb ?op (bs ?s) = false |- context [beqb ?op (bs ?s)] => rewrite E
         end.

Lemma subtags_none op args impl : oracle_model_subtags op args = None -> oracle_spec_subtags op args impl = None.
Proof. unfold oracle_model_subtags, oracle_spec_subtags. intros H. all_false H. use_false. reflexivity. Qed.
Lemma likely_none op args impl : oracle_model_likely op args = None -> oracle_spec_likely op args impl = None.
Proof. unfold oracle_model_likely, oracle_spec_likely. intros H. all_false H. use_false. reflexivity. Qed.
Lemma langid_none op args impl : oracle_model_langid op args = None -> oracle_spec_langid op args impl = None.
Proof. unfold oracle_model_langid, oracle_spec_langid. intros H. all_false H. use_false. reflexivity. Qed.
Lemma locale_none op args impl : oracle_model_locale op args = None -> oracle_spec_locale op args impl = None.
Proof. unfold oracle_model_locale, oracle_spec_locale. intros H. all_false H. use_false. reflexivity. Qed.
Lemma serde_none op args impl : oracle_model_serde op args = None -> oracle_spec_serde op args impl = None.
Proof. unfold oracle_model_serde, oracle_spec_serde. intros H. all_false H. use_false. reflexivity. Qed.
Lemma macros_none op args impl : oracle_model_macros op args = None -> oracle_spec_macros op args impl = None.
Proof. unfold oracle_model_macros, oracle_spec_macros. intros H. all_false H. use_false. reflexivity. Qed.


(* operation names are not shared between groups: an operation the model of one group answers has no specification
   in a later group *)
Ltac disj H :=
  repeat (match type of H with
          | (if beqb ?op (bs ?s) then _ else _) = Some _ =>
            let E := fresh "E" in destruct (beqb op (bs s)) eqn:E; [only_op E; reflexivity|]
          end); discriminate H.
Lemma disj_subtags_likely op args r impl : oracle_model_subtags op args = Some r -> oracle_spec_likely op args impl = None.
Proof. unfold oracle_model_subtags, oracle_spec_likely. intros H. disj H. Qed.
Lemma disj_subtags_langid op args r impl : oracle_model_subtags op args = Some r -> oracle_spec_langid op args impl = None.
Proof. unfold oracle_model_subtags, oracle_spec_langid. intros H. disj H. Qed.
Lemma disj_subtags_locale op args r impl : oracle_model_subtags op args = Some r -> oracle_spec_locale op args impl = None.
Proof. unfold oracle_model_subtags, oracle_spec_locale. intros H. disj H. Qed.
Lemma disj_subtags_serde op args r impl : oracle_model_subtags op args = Some r -> oracle_spec_serde op args impl = None.
Proof. unfold oracle_model_subtags, oracle_spec_serde. intros H. disj H. Qed.
Lemma disj_subtags_macros op args r impl : oracle_model_subtags op args = Some r -> oracle_spec_macros op args impl = None.
Proof. unfold oracle_model_subtags, oracle_spec_macros. intros H. disj H. Qed.
Lemma disj_likely_langid op args r impl : oracle_model_likely op args = Some r -> oracle_spec_langid op args impl = None.
Proof. unfold oracle_model_likely, oracle_spec_langid. intros H. disj H. Qed.
Lemma disj_likely_locale op args r impl : oracle_model_likely op args = Some r -> oracle_spec_locale op args impl = None.
Proof. unfold oracle_model_likely, oracle_spec_locale. intros H. disj H. Qed.
Lemma disj_likely_serde op args r impl : oracle_model_likely op args = Some r -> oracle_spec_serde op args impl = None.
Proof. unfold oracle_model_likely, oracle_spec_serde. intros H. disj H. Qed.
Lemma disj_likely_macros op args r impl : oracle_model_likely op args = Some r -> oracle_spec_macros op args impl = None.
Proof. unfold oracle_model_likely, oracle_spec_macros. intros H. disj H. Qed.
Lemma disj_langid_locale op args r impl : oracle_model_langid op args = Some r -> oracle_spec_locale op args impl = None.
Proof. unfold oracle_model_langid, oracle_spec_locale. intros H. disj H. Qed.
Lemma disj_langid_serde op args r impl : oracle_model_langid op args = Some r -> oracle_spec_serde op args impl = None.
Proof. unfold oracle_model_langid, oracle_spec_serde. intros H. disj H. Qed.
Lemma disj_langid_macros op args r impl : oracle_model_langid op args = Some r -> oracle_spec_macros op args impl = None.
Proof. unfold oracle_model_langid, oracle_spec_macros. intros H. disj H. Qed.
Lemma disj_locale_serde op args r impl : oracle_model_locale op args = Some r -> oracle_spec_serde op args impl = None.
Proof. unfold oracle_model_locale, oracle_spec_serde. intros H. disj H. Qed.
Lemma disj_locale_macros op args r impl : oracle_model_locale op args = Some r -> oracle_spec_macros op args impl = None.
Proof. unfold oracle_model_locale, oracle_spec_macros. intros H. disj H. Qed.
Lemma disj_serde_macros op args r impl : oracle_model_serde op args = Some r -> oracle_spec_macros op args impl = None.
Proof. unfold oracle_model_serde, oracle_spec_macros. intros H. disj H. Qed.

Lemma passes_some (o : option bool) : passes o -> passes (match o with Some r => Some r | None => None end).
Proof. destruct o; auto. Qed.

(* side conditions: maximize / minimize are asked about well-formed triples, the table operations about one of the
   ten tables, and the metamorphic-pair operations are excluded (their verdict is about generator-built pairs) *)
Definition side_conditions (op : bytes) (args : list bytes) : Prop :=
  (beqb op (bs "maximize") || beqb op (bs "minimize") = true ->
   wf_triple (opt_arg (arg_n 0 args)) (opt_arg (arg_n 1 args)) (opt_arg (arg_n 2 args)) = true)
  /\ (beqb op (bs "table_row") || beqb op (bs "table_len") = true -> In (arg_n 0 args) known_tables)
  /\ beqb op (bs "loc_meta") = false /\ beqb op (bs "li_meta") = false /\ beqb op (bs "ext_meta") = false.

Theorem oracle_sound prop op args :
  side_conditions op args -> spec_for_property prop op args (oracle_model op args) = None ->
  passes (oracle_spec prop op args (oracle_model op args)).
Proof.
  intros (WF & KT & M1 & M2 & M3) V. unfold oracle_spec. rewrite V. unfold oracle_model.
  destruct (oracle_model_subtags op args) as [r|] eqn:G.
  { pose proof (subtags_sound op args r G) as P. destruct (oracle_spec_subtags op args r); [exact P|]. rewrite (disj_subtags_likely op args r _ G), (disj_subtags_langid op args r _ G), (disj_subtags_locale op args r _ G), (disj_subtags_serde op args r _ G), (disj_subtags_macros op args r _ G). exact I. }
  rewrite (subtags_none op args _ G). clear G.
  destruct (oracle_model_likely op args) as [r|] eqn:G.
  { pose proof (likely_group_sound op args r G WF KT) as P. destruct (oracle_spec_likely op args r); [exact P|]. rewrite (disj_likely_langid op args r _ G), (disj_likely_locale op args r _ G), (disj_likely_serde op args r _ G), (disj_likely_macros op args r _ G). exact I. }
  rewrite (likely_none op args _ G). clear G.
  destruct (oracle_model_langid op args) as [r|] eqn:G.
  { pose proof (langid_sound op args r G) as P. destruct (oracle_spec_langid op args r); [exact P|]. rewrite (disj_langid_locale op args r _ G), (disj_langid_serde op args r _ G), (disj_langid_macros op args r _ G). exact I. }
  rewrite (langid_none op args _ G). clear G.
  destruct (oracle_model_locale op args) as [r|] eqn:G.
  { pose proof (locale_group_sound op args r G M1 M2 M3) as P. destruct (oracle_spec_locale op args r); [exact P|]. rewrite (disj_locale_serde op args r _ G), (disj_locale_macros op args r _ G). exact I. }
  rewrite (locale_none op args _ G). clear G.
  destruct (oracle_model_serde op args) as [r|] eqn:G.
  { pose proof (serde_sound op args r G) as P. destruct (oracle_spec_serde op args r); [exact P|]. rewrite (disj_serde_macros op args r _ G). exact I. }
  rewrite (serde_none op args _ G). clear G.
  destruct (oracle_model_macros op args) as [r|] eqn:G.
  { pose proof (macros_sound op args r G) as P. destruct (oracle_spec_macros op args r); [exact P|]. exact I. }
  rewrite (macros_none op args _ G). clear G.
  exact I.
Qed.
