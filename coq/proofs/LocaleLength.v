(* LocaleLength.v — C04, last clause at Locale level: Locale canonicalize(s) is never longer than s.
   Every parser loop is shown to emit, per consumed token, at most that token's length of printed
   text (case folding preserves length; `true` values, replaced keys, duplicate attributes and empty
   extensions only shrink the output; sorting permutes). *)
From UL Require Import Bytes Subtags LangId Ext Grammar LangIdSpec BytesProofs SubtagProofs SortProofs SplitProofs
  LangIdProofs CanonProofs PermProofs LengthProofs.
From Coq Require Import Lia Permutation.
Open Scope N_scope.

(* ---------- language identifier prefix ---------- *)
Lemma take_drop_tlen p l : (tlen (take_while p l) + tlen (drop_while p l) = tlen l)%nat.
Proof.
  induction l as [|x l IH]; [reflexivity|]. cbn [take_while drop_while]. destruct (p x); cbn [tlen]; lia.
Qed.

Lemma spec_variants_tlen vs :
  (tlen (match spec_variants vs with Some l => l | None => [] end) <= tlen vs)%nat.
Proof.
  unfold spec_variants. destruct vs as [|v0 vs']; [cbn; lia|].
  rewrite <- (tlen_map_lower (v0 :: vs')). apply tlen_canon.
Qed.

Theorem spec_langid_prefix_length toks v rem :
  toks <> [] -> spec_langid_prefix toks = Some (v, rem) -> (tlen (li_tokens v) + tlen rem <= tlen toks)%nat.
Proof.
  intros Hne. unfold spec_langid_prefix. destruct toks as [|l rest]; [congruence|].
  destruct (lang_tok l) eqn:Hl; [|discriminate].
  destruct (take_script rest) as [sc r1] eqn:Es. destruct (take_region r1) as [rg r2] eqn:Er.
  intros H. injection H as <- <-.
  unfold li_tokens, li_variants_list. cbn [li_lang li_script li_region li_variants].
  change (tlen (?a :: ?b)) with (S (length a) + tlen b)%nat. rewrite !tlen_app.
  rewrite (language_text_length l Hl).
  pose proof (take_drop_tlen variant_tok r2) as TD.
  pose proof (spec_variants_tlen (take_while variant_tok r2)) as SV.
  assert (E1 : (tlen (opt_tok sc) + tlen r1 = tlen rest)%nat).
  { unfold take_script in Es. destruct rest as [|t r]; [injection Es as <- <-; reflexivity|].
    destruct (script_tok t); injection Es as <- <-; cbn [opt_tok tlen]; [rewrite title_length|]; lia. }
  assert (E2 : (tlen (opt_tok rg) + tlen r2 = tlen r1)%nat).
  { unfold take_region in Er. destruct r1 as [|t r]; [injection Er as <- <-; reflexivity|].
    destruct (region_tok t); injection Er as <- <-; cbn [opt_tok tlen]; [|lia].
    unfold norm_region. destruct (length t =? 2)%nat; [rewrite upper_length|]; lia. }
  lia.
Qed.

Lemma langid_from_iter_length toks allow v rem :
  toks <> [] -> langid_from_iter toks allow = Ok (v, rem) -> (tlen (li_tokens v) + tlen rem <= tlen toks)%nat.
Proof.
  intros Hne. rewrite langid_from_iter_spec.
  destruct (spec_langid_prefix toks) as [[v' rem']|] eqn:E; [|discriminate].
  destruct (negb allow && _); [discriminate|]. intros H. injection H as <- <-.
  exact (spec_langid_prefix_length _ _ _ Hne E).
Qed.

(* ---------- keyword / field maps ---------- *)
Definition ktlen (m : kmap) : nat := tlen (kmap_tokens m).
Lemma ktlen_cons k v m : ktlen ((k, v) :: m) = (S (length k) + tlen v + ktlen m)%nat.
Proof. unfold ktlen, kmap_tokens. cbn [flat_map fst snd]. change (tlen ((k :: v) ++ ?r)) with (S (length k) + tlen (v ++ r))%nat. rewrite tlen_app. lia. Qed.
Lemma ktlen_nil : ktlen [] = O. Proof. reflexivity. Qed.

Lemma ktlen_kinsert k v m : (ktlen (kinsert k v m) <= S (length k) + tlen v + ktlen m)%nat.
Proof.
  induction m as [|[k' v'] m IH]; cbn [kinsert].
  - rewrite ktlen_cons, ktlen_nil. lia.
  - destruct (bcmp k k'); rewrite ?ktlen_cons in *; lia.
Qed.

Definition cur_len (cur : option bytes) (vals : list bytes) : nat :=
  match cur with Some k => (S (length k) + tlen vals)%nat | None => O end.
Lemma ktlen_flush cur vals m : (ktlen (flush cur vals m) <= cur_len cur vals + ktlen m)%nat.
Proof. destruct cur as [k|]; cbn [flush cur_len]; [apply ktlen_kinsert|lia]. Qed.

(* ---------- per-token parsers preserve length ---------- *)
Lemma parse_key_length t k : parse_key t = Ok k -> length k = length t.
Proof.
  unfold parse_key. destruct (negb (length t =? 2)%nat); [discriminate|].
  destruct (nth_error t 0); [|discriminate]. destruct (negb (is_alnum _)); [discriminate|].
  destruct (nth_error t 1); [|discriminate]. destruct (negb (is_alpha _)); [discriminate|].
  destruct (negb (tiny_ok 4 t)); [discriminate|]. intros H. injection H as <-. apply lower_length.
Qed.
Lemma parse_tkey_length t k : parse_tkey t = Ok k -> length k = length t.
Proof.
  unfold parse_tkey. destruct (negb (length t =? 2)%nat); [discriminate|].
  destruct (nth_error t 0); [|discriminate]. destruct (negb (is_alpha _)); [discriminate|].
  destruct (nth_error t 1); [|discriminate]. destruct (negb (is_digit _)); [discriminate|].
  destruct (negb (tiny_ok 4 t)); [discriminate|]. intros H. injection H as <-. apply lower_length.
Qed.
Lemma parse_type_length t v : parse_type t = Ok (Some v) -> length v = length t.
Proof.
  unfold parse_type. destruct (negb (tiny_ok 8 t)); [discriminate|]. destruct (_ || _); [discriminate|].
  destruct (beqb (lower t) true_bytes); [discriminate|]. intros H. injection H as <-. apply lower_length.
Qed.
Lemma parse_tvalue_length t v : parse_tvalue t = Ok (Some v) -> length v = length t.
Proof.
  unfold parse_tvalue. destruct (negb (tiny_ok 8 t)); [discriminate|]. destruct (_ || _); [discriminate|].
  destruct (beqb (lower t) true_bytes); [discriminate|]. intros H. injection H as <-. apply lower_length.
Qed.
Lemma parse_attribute_length t v : parse_attribute t = Ok v -> length v = length t.
Proof.
  unfold parse_attribute. destruct (negb (tiny_ok 8 t)); [discriminate|]. destruct (_ || _); [discriminate|].
  intros H. injection H as <-. apply lower_length.
Qed.
Lemma parse_value_length t v : parse_value t = Ok v -> length v = length t.
Proof.
  unfold parse_value. destruct (negb (tiny_ok 8 t)); [discriminate|]. destruct (_ || _); [discriminate|].
  intros H. injection H as <-. apply lower_length.
Qed.

(* ---------- -u- ---------- *)
Lemma u_loop_length toks : forall cur types kws attrs u rem,
  u_loop cur types kws attrs toks = Ok (u, rem) ->
  (tlen (u_attrs u) + ktlen (u_keywords u) + tlen rem <= cur_len cur types + ktlen kws + tlen attrs + tlen toks)%nat.
Proof.
  induction toks as [|t rest IH]; intros cur types kws attrs u rem; cbn [u_loop].
  - intros H. injection H as <- <-. cbn [u_attrs u_keywords tlen].
    pose proof (ktlen_flush cur types kws). pose proof (tlen_canon attrs). lia.
  - destruct (length t =? 2)%nat.
    { destruct (parse_key t) as [k| | |] eqn:Ek; cbn [bind]; try discriminate. intros H. apply IH in H.
      pose proof (parse_key_length _ _ Ek). pose proof (ktlen_flush cur types kws).
      cbn [cur_len tlen] in *. lia. }
    destruct (is_some cur && is_type t) eqn:Ec.
    { destruct (parse_type t) as [[v|]| | |] eqn:Et; cbn [bind]; try discriminate; intros H; apply IH in H.
      - pose proof (parse_type_length _ _ Et). apply andb_true_iff in Ec. destruct Ec as [Ec _].
        destruct cur as [k|]; [|discriminate]. cbn [cur_len tlen] in *. rewrite tlen_app in H. cbn [tlen] in H. lia.
      - cbn [tlen]. lia. }
    destruct (is_attribute t).
    { destruct (parse_attribute t) as [a| | |] eqn:Ea; cbn [bind]; try discriminate. intros H. apply IH in H.
      pose proof (parse_attribute_length _ _ Ea). rewrite tlen_app in H. cbn [tlen] in *. lia. }
    intros H. injection H as <- <-. cbn [u_attrs u_keywords].
    pose proof (ktlen_flush cur types kws). pose proof (tlen_canon attrs). lia.
Qed.

Lemma u_tokens_tlen u : (tlen (u_tokens u) <= 2 + tlen (u_attrs u) + ktlen (u_keywords u))%nat.
Proof. unfold u_tokens. destruct (u_is_empty u); [cbn; lia|]. cbn [tlen length]. rewrite tlen_app. unfold ktlen. lia. Qed.

Lemma u_parse_length toks u rem : u_parse toks = Ok (u, rem) -> (tlen (u_tokens u) + tlen rem <= 2 + tlen toks)%nat.
Proof.
  unfold u_parse. intros H. apply u_loop_length in H. pose proof (u_tokens_tlen u). cbn [cur_len tlen] in H. rewrite ktlen_nil in H. lia.
Qed.

(* ---------- -t- ---------- *)
Definition tl_len (tl : option langid) : nat := match tl with Some l => tlen (li_tokens l) | None => O end.

Lemma t_loop_length fuel : forall cur vals tf tl toks t rem,
  t_loop fuel cur vals tf tl toks = Ok (t, rem) ->
  (tl_len (t_lang t) + ktlen (t_fields t) + tlen rem <= cur_len cur vals + ktlen tf + tl_len tl + tlen toks)%nat.
Proof.
  induction fuel as [|f IH]; intros cur vals tf tl toks t rem; cbn [t_loop]; [discriminate|].
  destruct toks as [|tok rest].
  - intros H. injection H as <- <-. cbn [t_lang t_fields tlen]. pose proof (ktlen_flush cur vals tf). lia.
  - destruct (tkey_shape tok).
    { destruct (parse_tkey tok) as [k| | |] eqn:Ek; cbn [bind]; try discriminate. intros H. apply IH in H.
      pose proof (parse_tkey_length _ _ Ek). pose proof (ktlen_flush cur vals tf). cbn [cur_len tlen] in *. lia. }
    destruct (length tok =? 1)%nat.
    { intros H. injection H as <- <-. cbn [t_lang t_fields]. pose proof (ktlen_flush cur vals tf). lia. }
    destruct (is_some cur) eqn:Ec.
    { destruct (parse_tvalue tok) as [[v|]| | |] eqn:Et; cbn [bind]; try discriminate; intros H; apply IH in H.
      - pose proof (parse_tvalue_length _ _ Et). destruct cur as [k|]; [|discriminate].
        cbn [cur_len tlen] in *. rewrite tlen_app in H. cbn [tlen] in H. lia.
      - cbn [tlen]. lia. }
    destruct (is_none tl && is_language_subtag tok) eqn:En.
    { destruct (langid_from_iter (tok :: rest) true) as [[v rem']| | |] eqn:El; try discriminate.
      intros H. apply IH in H. assert (Hne : tok :: rest <> []) by discriminate. pose proof (langid_from_iter_length _ _ _ _ Hne El) as L.
      apply andb_true_iff in En. destruct En as [En _]. destruct tl; [discriminate|]. cbn [tl_len] in *. lia. }
    intros H. injection H as <- <-. cbn [t_lang t_fields]. pose proof (ktlen_flush cur vals tf). lia.
Qed.

Lemma t_tokens_tlen t : (tlen (t_tokens t) <= 2 + tl_len (t_lang t) + ktlen (t_fields t))%nat.
Proof.
  unfold t_tokens. destruct (t_is_empty t); [cbn; lia|]. cbn [tlen length]. rewrite tlen_app. unfold ktlen, tl_len.
  destruct (t_lang t); cbn [tlen]; lia.
Qed.
Lemma t_parse_length toks t rem : t_parse toks = Ok (t, rem) -> (tlen (t_tokens t) + tlen rem <= 2 + tlen toks)%nat.
Proof.
  unfold t_parse. intros H. apply t_loop_length in H. pose proof (t_tokens_tlen t). cbn [cur_len tl_len] in H. rewrite ktlen_nil in H. lia.
Qed.

(* ---------- -x- ---------- *)
Lemma x_collect_length toks : forall l, x_collect toks = Ok l -> tlen l = tlen toks.
Proof.
  induction toks as [|t rest IH]; intros l; cbn [x_collect]; [intros H; injection H as <-; reflexivity|].
  destruct (parse_value t) as [v| | |] eqn:Ev; cbn [bind]; try discriminate.
  destruct (x_collect rest) as [r| | |]; cbn [bind]; try discriminate. intros H. injection H as <-.
  cbn [tlen]. rewrite (IH r eq_refl), (parse_value_length _ _ Ev). reflexivity.
Qed.
Lemma x_parse_length toks x : x_parse toks = Ok x -> (tlen (x_tokens x) <= 2 + tlen toks)%nat.
Proof.
  unfold x_parse. destruct (x_collect toks) as [l| | |] eqn:E; cbn [bind]; try discriminate. intros H. injection H as <-.
  pose proof (x_collect_length _ _ E). pose proof (tlen_perm _ _ (sort_perm l)). unfold x_tokens.
  destruct (sort l); cbn [tlen length] in *; lia.
Qed.

(* ---------- the dispatch loop ---------- *)
Definition e_tlen (e : extmap) : nat :=
  (tlen (t_tokens (e_transform e)) + tlen (u_tokens (e_unicode e)) + tlen (x_tokens (e_private e)))%nat.
Lemma ext_tokens_tlen e : tlen (ext_tokens e) = e_tlen e.
Proof. unfold ext_tokens, e_tlen. rewrite !tlen_app. lia. Qed.

Lemma dispatch_length fuel : forall su st acc toks e,
  (su = false -> u_tokens (e_unicode acc) = []) ->
  (st = false -> t_tokens (e_transform acc) = []) ->
  dispatch fuel su st acc toks = Ok e -> (e_tlen e <= e_tlen acc + tlen toks)%nat.
Proof.
  induction fuel as [|f IH]; intros su st acc toks e Hu Ht; cbn [dispatch]; [discriminate|].
  destruct toks as [|t rest]; [intros H; injection H as <-; lia|].
  destruct (1 <? length t)%nat eqn:L1; [discriminate|].
  destruct t as [|b t'].
  { intros H. apply IH in H; [|assumption|assumption]. cbn [tlen length]. lia. }
  assert (Lt : t' = []).
  { destruct t'; [reflexivity|]. cbn [length] in L1. apply Nat.ltb_ge in L1. lia. }
  subst t'. cbn [tlen length].
  destruct (ext_type_from_byte b) as [[| | |c]| | |]; try discriminate.
  - destruct su; [discriminate|]. destruct (u_parse rest) as [[u rem]| | |] eqn:E; cbn [bind]; try discriminate.
    cbn [fst snd]. intros H. apply IH in H; [|discriminate|exact Ht].
    pose proof (u_parse_length _ _ _ E). unfold e_tlen in *. cbn [e_unicode e_transform e_private] in *.
    rewrite (Hu eq_refl). cbn [tlen]. lia.
  - destruct st; [discriminate|]. destruct (t_parse rest) as [[tx rem]| | |] eqn:E; cbn [bind]; try discriminate.
    cbn [fst snd]. intros H. apply IH in H; [|exact Hu|discriminate].
    pose proof (t_parse_length _ _ _ E). unfold e_tlen in *. cbn [e_unicode e_transform e_private] in *.
    rewrite (Ht eq_refl). cbn [tlen]. lia.
  - destruct (x_parse rest) as [x| | |] eqn:E; cbn [bind]; try discriminate. intros H. injection H as <-.
    pose proof (x_parse_length _ _ E). unfold e_tlen. cbn [e_unicode e_transform e_private]. lia.
Qed.

Theorem ext_from_iter_length toks e : ext_from_iter toks = Ok e -> (tlen (ext_tokens e) <= tlen toks)%nat.
Proof.
  unfold ext_from_iter. intros H. apply dispatch_length in H; [|reflexivity|reflexivity].
  rewrite ext_tokens_tlen. unfold e_tlen at 2 in H. cbn in H. lia.
Qed.

(* ---------- Locale ---------- *)
Theorem locale_parse_length s l : locale_from_bytes s = Ok l -> (length (loc_to_string l) <= length s)%nat.
Proof.
  unfold locale_from_bytes. destruct (langid_from_iter (split s) true) as [[id rem]| | |] eqn:E; try discriminate.
  destruct (ext_from_iter rem) as [e| | |] eqn:Ee; cbn [bind]; try discriminate. intros H. injection H as <-.
  assert (Hne : split s <> []) by (intros N; exact (split_nonempty _ N)).
  pose proof (langid_from_iter_length _ _ _ _ Hne E) as L1. pose proof (ext_from_iter_length _ _ Ee) as L2.
  rewrite split_tlen in L1. unfold loc_to_string.
  assert (Hn : loc_tokens (mkLoc id e) <> []) by (unfold loc_tokens, li_tokens; cbn [loc_id app]; congruence).
  pose proof (join_tlen _ Hn) as J. unfold loc_tokens in J at 2. cbn [loc_id loc_ext] in J. rewrite tlen_app in J. lia.
Qed.

Theorem loc_canonicalize_length s t : loc_canonicalize s = Ok t -> (length t <= length s)%nat.
Proof.
  unfold loc_canonicalize. destruct (locale_from_bytes s) as [l| | |] eqn:E; cbn [bind]; try discriminate.
  intros H. injection H as <-. exact (locale_parse_length _ _ E).
Qed.

(* the ExtensionsMap printer adds the leading separator: its output is at most one byte longer *)
Theorem extmap_parse_length s e : extmap_from_bytes s = Ok e -> (length (ext_to_string e) <= length s + 1)%nat.
Proof.
  unfold extmap_from_bytes. intros H. apply ext_from_iter_length in H. rewrite split_tlen in H.
  unfold ext_to_string. destruct (ext_tokens e) as [|a r] eqn:Et; [cbn; lia|].
  pose proof (join_tlen (a :: r) ltac:(congruence)). cbn [length]. lia.
Qed.
