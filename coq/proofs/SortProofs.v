(* SortProofs.v — sort (insertion sort model of sort_unstable), dedup, sortedness *)
From UL Require Import Bytes BytesProofs.
From Coq Require Import Lia.
Open Scope N_scope.

Lemma bleb_refl a : bleb a a = true.
Proof. unfold bleb. assert (bcmp a a = Eq) as -> by (apply bcmp_eq; reflexivity). reflexivity. Qed.

Lemma bleb_trans a b c : bleb a b = true -> bleb b c = true -> bleb a c = true.
Proof.
  rewrite !bleb_lt_or_eq. intros [H1| ->] [H2| ->]; auto.
  left. eapply bltb_trans; eauto.
Qed.

Lemma bltb_bleb a b : bltb a b = true -> bleb a b = true.
Proof. intros H. apply bleb_lt_or_eq. auto. Qed.

Lemma bltb_neq a b : bltb a b = true -> a <> b.
Proof. intros H E. subst. rewrite bltb_irrefl in H. discriminate. Qed.

Lemma bleb_false_lt a b : bleb a b = false -> bltb b a = true.
Proof. rewrite bltb_not_bleb. intros ->. reflexivity. Qed.

(* sortedness as a Prop *)
Inductive Sorted_le : list bytes -> Prop :=
| Sle_nil : Sorted_le []
| Sle_one x : Sorted_le [x]
| Sle_cons x y l : bleb x y = true -> Sorted_le (y :: l) -> Sorted_le (x :: y :: l).
Inductive Sorted_lt : list bytes -> Prop :=
| Slt_nil : Sorted_lt []
| Slt_one x : Sorted_lt [x]
| Slt_cons x y l : bltb x y = true -> Sorted_lt (y :: l) -> Sorted_lt (x :: y :: l).

Lemma sortedb_iff l : sortedb l = true <-> Sorted_le l.
Proof.
  induction l as [|x [|y l] IH]; cbn [sortedb].
  - split; constructor.
  - split; constructor.
  - rewrite andb_true_iff, IH. split.
    + intros [H1 H2]. constructor; assumption.
    + intros H. inversion H; subst. auto.
Qed.
Lemma ssortedb_iff l : ssortedb l = true <-> Sorted_lt l.
Proof.
  induction l as [|x [|y l] IH]; cbn [ssortedb].
  - split; constructor.
  - split; constructor.
  - rewrite andb_true_iff, IH. split.
    + intros [H1 H2]. constructor; assumption.
    + intros H. inversion H; subst. auto.
Qed.

Lemma Sorted_lt_le l : Sorted_lt l -> Sorted_le l.
Proof. induction 1; constructor; auto using bltb_bleb. Qed.

Lemma Sorted_le_tail x l : Sorted_le (x :: l) -> Sorted_le l.
Proof. inversion 1; subst; auto; constructor. Qed.
Lemma Sorted_lt_tail x l : Sorted_lt (x :: l) -> Sorted_lt l.
Proof. inversion 1; subst; auto; constructor. Qed.

Lemma Sorted_le_head x l : Sorted_le (x :: l) -> forall y, In y l -> bleb x y = true.
Proof.
  revert x; induction l as [|z l IH]; intros x H y Hin; [destruct Hin|].
  inversion H; subst. destruct Hin as [->|Hin]; [assumption|].
  eapply bleb_trans; [eassumption|]. apply IH; assumption.
Qed.
Lemma Sorted_lt_head x l : Sorted_lt (x :: l) -> forall y, In y l -> bltb x y = true.
Proof.
  revert x; induction l as [|z l IH]; intros x H y Hin; [destruct Hin|].
  inversion H; subst. destruct Hin as [->|Hin]; [assumption|].
  eapply bltb_trans; [eassumption|]. apply IH; assumption.
Qed.

(* insertion *)
Lemma insert_sorted_In x y l : In y (insert_sorted x l) <-> y = x \/ In y l.
Proof.
  induction l as [|z l IH]; cbn [insert_sorted In]; [intuition|].
  destruct (bleb x z); cbn [In]; [intuition|]. rewrite IH. intuition.
Qed.
Lemma insert_sorted_sorted x l : Sorted_le l -> Sorted_le (insert_sorted x l).
Proof.
  induction l as [|z l IH]; cbn [insert_sorted]; intros H; [constructor|].
  destruct (bleb x z) eqn:E; [constructor; assumption|].
  assert (Hzx : bleb z x = true) by (destruct (bleb_total x z) as [H'|H']; congruence).
  specialize (IH (Sorted_le_tail _ _ H)).
  destruct l as [|w l]; cbn [insert_sorted] in *.
  - constructor; [assumption|constructor].
  - destruct (bleb x w) eqn:E2.
    + constructor; [assumption|]. assumption.
    + constructor; [|assumption]. inversion H; subst; assumption.
Qed.
Lemma sort_In y l : In y (sort l) <-> In y l.
Proof. induction l as [|x l IH]; cbn [sort In]; [tauto|]. rewrite insert_sorted_In, IH. intuition. Qed.
Lemma sort_sorted l : Sorted_le (sort l).
Proof. induction l as [|x l IH]; cbn [sort]; [constructor|]. apply insert_sorted_sorted; assumption. Qed.

(* dedup *)
Lemma dedup_In y l : In y (dedup l) <-> In y l.
Proof.
  induction l as [|x [|z l] IH]; cbn [dedup]; [tauto|tauto|].
  destruct (beqb x z) eqn:E.
  - apply beqb_eq in E. subst. rewrite IH. cbn [In]. intuition.
  - cbn [In] in *. rewrite IH. intuition.
Qed.
Lemma dedup_head x l : exists l', dedup (x :: l) = x :: l' \/ (exists l'', l = x :: l'' /\ dedup (x :: l) = dedup l).
Proof.
  destruct l as [|z l]; cbn [dedup]; [exists []; auto|].
  destruct (beqb x z) eqn:E; [|eexists; left; reflexivity].
  apply beqb_eq in E. subst. exists []. right. eexists. split; reflexivity.
Qed.
Lemma dedup_sorted l : Sorted_le l -> Sorted_lt (dedup l).
Proof.
  induction l as [|x l IH]; intros H; [constructor|].
  specialize (IH (Sorted_le_tail _ _ H)).
  destruct l as [|z l]; [constructor|].
  cbn [dedup]. destruct (beqb x z) eqn:E; [exact IH|].
  assert (Hlt : bltb x z = true).
  { inversion H; subst. apply bleb_lt_or_eq in H2 as [?| ->]; [assumption|]. rewrite beqb_refl in E. discriminate. }
  (* dedup (z :: l) starts with z *)
  assert (exists l', dedup (z :: l) = z :: l') as [l' El'].
  { clear -l. revert z. induction l as [|w l IHl]; intros z; [exists []; reflexivity|].
    cbn [dedup]. destruct (beqb z w) eqn:Ezw; [|eexists; reflexivity].
    apply beqb_eq in Ezw. subst. apply IHl. }
  change (match l with [] => [z] | y :: _ => if beqb z y then dedup l else z :: dedup l end) with (dedup (z :: l)) in *.
  rewrite El' in *. constructor; assumption.
Qed.

Lemma sort_id l : Sorted_le l -> sort l = l.
Proof.
  induction l as [|x l IH]; intros H; [reflexivity|]. cbn [sort]. rewrite (IH (Sorted_le_tail _ _ H)).
  destruct l as [|z l]; [reflexivity|]. cbn [insert_sorted]. inversion H; subst. rewrite H2. reflexivity.
Qed.
Lemma dedup_id l : Sorted_lt l -> dedup l = l.
Proof.
  induction l as [|x l IH]; intros H; [reflexivity|]. specialize (IH (Sorted_lt_tail _ _ H)).
  destruct l as [|z l]; [reflexivity|]. cbn [dedup].
  inversion H; subst. assert (beqb x z = false) as -> by (apply beqb_false, bltb_neq; assumption).
  change (match l with [] => [z] | y :: _ => if beqb z y then dedup l else z :: dedup l end) with (dedup (z :: l)).
  rewrite IH. reflexivity.
Qed.

(* canonical form of a finite set: a strictly sorted list is determined by its elements *)
Lemma Sorted_lt_unique a b : Sorted_lt a -> Sorted_lt b -> (forall y, In y a <-> In y b) -> a = b.
Proof.
  revert b; induction a as [|x a IH]; intros b Ha Hb Hs.
  - destruct b as [|y b]; [reflexivity|]. exfalso. apply (Hs y). left; reflexivity.
  - destruct b as [|y b]; [exfalso; apply (Hs x); left; reflexivity|].
    assert (x = y).
    { assert (Hx : In x (y :: b)) by (apply Hs; left; reflexivity).
      assert (Hy : In y (x :: a)) by (apply Hs; left; reflexivity).
      destruct Hx as [->|Hx]; [reflexivity|]. destruct Hy as [->|Hy]; [reflexivity|].
      pose proof (Sorted_lt_head _ _ Ha _ Hy) as H1. pose proof (Sorted_lt_head _ _ Hb _ Hx) as H2.
      pose proof (bltb_trans _ _ _ H1 H2) as H3. rewrite bltb_irrefl in H3. discriminate. }
    subst y. f_equal. apply IH; [eapply Sorted_lt_tail; eassumption|eapply Sorted_lt_tail; eassumption|].
    intros z. split; intros Hz.
    + assert (In z (x :: b)) as [->|?] by (apply Hs; right; assumption); [|assumption].
      pose proof (Sorted_lt_head _ _ Ha _ Hz) as C. rewrite bltb_irrefl in C. discriminate.
    + assert (In z (x :: a)) as [->|?] by (apply Hs; right; assumption); [|assumption].
      pose proof (Sorted_lt_head _ _ Hb _ Hz) as C. rewrite bltb_irrefl in C. discriminate.
Qed.

Definition canon (l : list bytes) : list bytes := dedup (sort l).
Lemma canon_sorted l : Sorted_lt (canon l).
Proof. apply dedup_sorted, sort_sorted. Qed.
Lemma canon_In y l : In y (canon l) <-> In y l.
Proof. unfold canon. rewrite dedup_In, sort_In. tauto. Qed.
Lemma canon_id l : Sorted_lt l -> canon l = l.
Proof. intros H. unfold canon. rewrite (sort_id _ (Sorted_lt_le _ H)). apply dedup_id; assumption. Qed.
Lemma canon_same_set a b : (forall y, In y a <-> In y b) -> canon a = canon b.
Proof. intros H. apply Sorted_lt_unique; try apply canon_sorted. intros y. rewrite !canon_In. apply H. Qed.
Lemma canon_idem l : canon (canon l) = canon l.
Proof. apply canon_id, canon_sorted. Qed.
Lemma canon_nil_iff l : canon l = [] <-> l = [].
Proof.
  split; [|intros ->; reflexivity]. intros H. destruct l as [|x l]; [reflexivity|].
  exfalso. assert (In x (canon (x :: l))) by (apply canon_In; left; reflexivity). rewrite H in H0. destruct H0.
Qed.

Lemma memb_In x l : memb x l = true <-> In x l.
Proof.
  induction l as [|y l IH]; cbn [memb In]; [split; [discriminate|tauto]|].
  rewrite orb_true_iff, IH, beqb_eq. split; intros [H|H]; auto.
Qed.
