(* MacroProofs.v — C16: the emitted code evaluates to the run-time parse result *)
From UL Require Import Bytes Subtags LangId Ext Macros Grammar LangIdSpec BytesProofs SubtagProofs PackProofs SortProofs LangIdProofs LangIdAlgebra CanonProofs LikelyProofs.
From Coq Require Import Lia ZifyBool ZifyN.
Open Scope N_scope.

Lemma forallb_small_of p t : (forall b, p b = true -> small_byte b = true) -> forallb p t = true -> small t = true.
Proof. intros H. apply forallb_imp. exact H. Qed.

Lemma canon_lang_raw l : canon_lang (Some l) = true -> via_raw 8 l = l.
Proof.
  cbn [canon_lang]. intros H. apply andb_true_iff in H as [H _]. apply andb_true_iff in H as [H _].
  unfold lang_tok, len_in in H. apply andb_true_iff in H as [Ha Hl].
  apply from_raw_pack; [apply (forallb_small_of _ _ alpha_small Ha)|lia].
Qed.
Lemma canon_script_raw s : canon_script s = true -> via_raw 4 s = s.
Proof.
  unfold canon_script, script_tok. intros H. apply andb_true_iff in H as [H _]. apply andb_true_iff in H as [Ha Hl].
  apply from_raw_pack; [apply (forallb_small_of _ _ alpha_small Ha)|lia].
Qed.
Lemma canon_region_raw r : canon_region r = true -> via_raw 4 r = r.
Proof.
  unfold canon_region, region_tok. intros H. apply andb_true_iff in H as [H _].
  apply orb_true_iff in H as [H|H]; apply andb_true_iff in H as [Ha Hl];
    (apply from_raw_pack; [|lia]); [apply (forallb_small_of _ _ alpha_small Ha)|apply (forallb_small_of _ _ digit_small Ha)].
Qed.
Lemma variant_tok_small v : variant_tok v = true -> small v = true /\ (length v <= 8)%nat.
Proof.
  unfold variant_tok, len_in. intros H. apply orb_true_iff in H as [H|H].
  - apply andb_true_iff in H as [Ha Hl]. split; [apply (forallb_small_of _ _ alnum_small Ha)|lia].
  - destruct v as [|c r]; [discriminate|]. apply andb_true_iff in H as [H Hl]. apply andb_true_iff in H as [Hc Hr].
    split; [|cbn [length]; lia]. cbn [small forallb]. rewrite (digit_small _ Hc). apply (forallb_small_of _ _ alnum_small Hr).
Qed.
Lemma canon_variant_raw v : canon_variant v = true -> via_raw 8 v = v.
Proof. unfold canon_variant. intros H. apply andb_true_iff in H as [H _]. destruct (variant_tok_small _ H). apply from_raw_pack; assumption. Qed.

Theorem macro_lang_ok lit v : language_from_bytes lit = Ok v -> macro_lang lit = MValue v.
Proof.
  intros H. unfold macro_lang. rewrite H. destruct v as [l|]; [|reflexivity].
  rewrite (canon_lang_raw l (language_value_canon _ _ H)). reflexivity.
Qed.
Theorem macro_script_ok lit v : script_from_bytes lit = Ok v -> macro_script lit = MValue v.
Proof. intros H. unfold macro_script. rewrite H, (canon_script_raw v (script_value_canon _ _ H)). reflexivity. Qed.
Theorem macro_region_ok lit v : region_from_bytes lit = Ok v -> macro_region lit = MValue v.
Proof. intros H. unfold macro_region. rewrite H, (canon_region_raw v (region_value_canon _ _ H)). reflexivity. Qed.
Theorem macro_variant_ok lit v : variant_from_bytes lit = Ok v -> macro_variant lit = MValue v.
Proof. intros H. unfold macro_variant. rewrite H, (canon_variant_raw v (variant_value_canon _ _ H)). reflexivity. Qed.

Lemma map_raw_variants vs : forallb canon_variant vs = true -> map (via_raw 8) vs = vs.
Proof.
  induction vs as [|v vs IH]; cbn [forallb map]; [reflexivity|]. intros H. apply andb_true_iff in H as [Hv Hr].
  rewrite (canon_variant_raw _ Hv), (IH Hr). reflexivity.
Qed.

Theorem raw_langid_id x : li_inv x = true -> raw_langid x = x.
Proof.
  destruct x as [l s r vs]. unfold li_inv, raw_langid, li_into_parts, li_variants_list.
  cbn [li_lang li_script li_region li_variants].
  intros H. apply andb_true_iff in H as [H Hv]. apply andb_true_iff in H as [H Hr]. apply andb_true_iff in H as [Hl Hs].
  f_equal.
  - destruct l as [b|]; [|reflexivity]. cbn [option_map]. rewrite (canon_lang_raw _ Hl). reflexivity.
  - destruct s as [b|]; [|reflexivity]. cbn [option_map opt_all] in *. rewrite (canon_script_raw _ Hs). reflexivity.
  - destruct r as [b|]; [|reflexivity]. cbn [option_map opt_all] in *. rewrite (canon_region_raw _ Hr). reflexivity.
  - destruct vs as [v|]; [|reflexivity]. cbn [variants_inv] in Hv.
    apply andb_true_iff in Hv as [Hv _]. apply andb_true_iff in Hv as [Hne Hc].
    destruct v as [|v0 v']; [discriminate|]. rewrite (map_raw_variants _ Hc). reflexivity.
Qed.

Theorem macro_langid_ok lit v : langid_from_bytes lit = Ok v -> macro_langid lit = MValue v.
Proof. intros H. unfold macro_langid. rewrite H, (raw_langid_id v (langid_parse_inv _ _ H)). reflexivity. Qed.

(* ill-formed literals are compile-time errors *)
Theorem macro_ill_formed lit :
  (forall v, langid_from_bytes lit <> Ok v) -> macro_langid lit = MCompileError.
Proof. intros H. unfold macro_langid. destruct (langid_from_bytes lit) eqn:E; try reflexivity. exfalso. exact (H _ eq_refl). Qed.
