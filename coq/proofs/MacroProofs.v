(* MacroProofs.v — C16: the emitted code evaluates to the run-time parse result *)
From UL Require Import Bytes Subtags LangId Ext Macros Grammar LangIdSpec BytesProofs SubtagProofs PackProofs SortProofs LangIdProofs LangIdAlgebra CanonProofs RawProofs.
From Coq Require Import Lia ZifyBool ZifyN.
Open Scope N_scope.

Theorem macro_lang_ok lit v : language_from_bytes lit = Ok v -> macro_lang lit = MValue v.
Proof.
  intros H. unfold macro_lang. rewrite H. destruct v as [l|]; [|reflexivity].
  rewrite (canon_lang_raw l (language_value_canon _ _ H)). reflexivity.
Qed.
Theorem macro_script_ok lit v : script_from_bytes lit = Ok v -> macro_script lit = MValue v.
Proof. intros H. unfold macro_script. rewrite H, (canon_script_raw v (script_value_canon _ _ H)). reflexivity. Qed.
Theorem macro_region_ok lit v : region_from_bytes lit = Ok v -> macro_region lit = MValue v.
Proof. intros H. unfold macro_region. rewrite H, (canon_region_raw v (region_value_canon _ _ H)). reflexivity. Qed.
Theorem macro_variant_ok lit v : variant_from_bytes lit = Ok v -> macro_variant lit = MValue v.
Proof. intros H. unfold macro_variant. rewrite H, (canon_variant_raw v (variant_value_canon _ _ H)). reflexivity. Qed.

Lemma map_raw_variants vs : forallb canon_variant vs = true -> map (via_raw 8) vs = vs.
Proof.
  induction vs as [|v vs IH]; cbn [forallb map]; [reflexivity|]. intros H. apply andb_true_iff in H as [Hv Hr].
  rewrite (canon_variant_raw _ Hv), (IH Hr). reflexivity.
Qed.

Theorem raw_langid_id x : li_inv x = true -> raw_langid x = x.
Proof.
  destruct x as [l s r vs]. unfold li_inv, raw_langid, li_into_parts, li_variants_list.
  cbn [li_lang li_script li_region li_variants].
  intros H. apply andb_true_iff in H as [H Hv]. apply andb_true_iff in H as [H Hr]. apply andb_true_iff in H as [Hl Hs].
  f_equal.
  - destruct l as [b|]; [|reflexivity]. cbn [option_map]. rewrite (canon_lang_raw _ Hl). reflexivity.
  - destruct s as [b|]; [|reflexivity]. cbn [option_map opt_all] in *. rewrite (canon_script_raw _ Hs). reflexivity.
  - destruct r as [b|]; [|reflexivity]. cbn [option_map opt_all] in *. rewrite (canon_region_raw _ Hr). reflexivity.
  - destruct vs as [v|]; [|reflexivity]. cbn [variants_inv] in Hv.
    apply andb_true_iff in Hv as [Hv _]. apply andb_true_iff in Hv as [Hne Hc].
    destruct v as [|v0 v']; [discriminate|]. rewrite (map_raw_variants _ Hc). reflexivity.
Qed.

Theorem macro_langid_ok lit v : langid_from_bytes lit = Ok v -> macro_langid lit = MValue v.
Proof. intros H. unfold macro_langid. rewrite H, (raw_langid_id v (langid_parse_inv _ _ H)). reflexivity. Qed.

(* ill-formed literals are compile-time errors *)
Theorem macro_ill_formed lit :
  (forall v, langid_from_bytes lit <> Ok v) -> macro_langid lit = MCompileError.
Proof. intros H. unfold macro_langid. destruct (langid_from_bytes lit) eqn:E; try reflexivity. exfalso. exact (H _ eq_refl). Qed.
