(* CfgSitesProofs.v — the regenerated conditional-compilation inventory (gen/CfgSites.v): every cfg(feature ..)
   site and every cargo feature of the current sources is additive (C20). *)
From Coq Require Import List String Bool Ascii.
Import ListNotations.
From UL Require Import CfgSites.
Open Scope string_scope.

Definition site := (string * string * string * string)%type.

(* a conditional-compilation site is additive when it guards a whole item (module, function, impl,
   use, macro, other item); the only statement-level site allowed is the documented refinement inside
   character_direction; cfg(unic_locale_verif) is the verification hook; a cargo feature may only
   switch on optional dependencies or features of dependencies *)
Fixpoint no_cfg_not (s : string) : bool :=
  match s with
  | EmptyString => true
  | String c r => negb (prefix "not(" s) && no_cfg_not r
  end.
(* cargo features: `fn` = the feature's name, `expr` = the comma-separated list of what it enables.  The only
   feature with a behavioural effect is `likelysubtags`; no OTHER feature may switch it on, neither locally
   ("likelysubtags") nor in a dependency ("dep/likelysubtags"): enabling serde or macros must not change results *)
Fixpoint split_comma_aux (cur : string) (s : string) : list string :=
  match s with
  | EmptyString => [cur]
  | String c r => if Ascii.eqb c ","%char then cur :: split_comma_aux "" r else split_comma_aux (cur ++ String c "") r
  end.
Definition split_comma (s : string) : list string := split_comma_aux "" s.
Fixpoint after_slash (s : string) : string :=
  match s with
  | EmptyString => ""
  | String c r => if Ascii.eqb c "/"%char then r else after_slash r
  end.
Fixpoint has_slash (s : string) : bool :=
  match s with EmptyString => false | String c r => Ascii.eqb c "/"%char || has_slash r end.
Definition item_feature (item : string) : string := if has_slash item then after_slash item else item.
Definition cargo_feature_ok (name items : string) : bool :=
  String.eqb name "likelysubtags"
  || forallb (fun it => negb (String.eqb (item_feature it) "likelysubtags")) (split_comma items).

(* a dependency edge between workspace crates (not a dev-dependency) enables no feature unconditionally: cargo unifies
   features, so `unic-locale-macros -> unic-locale-impl { features = ["likelysubtags"] }` would switch the refinement of
   character_direction on for every user of the `macros` feature *)
Definition cargo_dep_ok (dep items : string) : bool :=
  negb (String.prefix "unic-" dep) || String.eqb items "".

Definition cfg_site_ok (s : site) : bool :=
  match s with
  | (file, fn, expr, kind) =>
    if String.eqb kind "cargo-feature" then cargo_feature_ok fn expr
    else if String.eqb kind "cargo-dep" || String.eqb kind "cargo-dep-opt" then cargo_dep_ok fn expr
    else if String.eqb expr "unic_locale_verif" then String.eqb kind "mod"
    else
      no_cfg_not expr &&
      (String.eqb kind "mod" || String.eqb kind "fn" || String.eqb kind "impl" || String.eqb kind "use"
       || String.eqb kind "macro" || String.eqb kind "item"
       || (String.eqb kind "stmt" && String.eqb file "unic-langid-impl/src/lib.rs"
           && String.eqb fn "character_direction" && String.eqb expr "feature=""likelysubtags"""))
  end.
Definition cfg_sites_additive : bool := forallb cfg_site_ok cfg_sites.
Lemma sites_additive : cfg_sites_additive = true.
Proof. vm_compute. reflexivity. Qed.
(* the rule is not vacuous *)
Example cargo_feature_rule :
  cargo_feature_ok "serde" "unic-langid-impl/serde" = true /\ cargo_feature_ok "likelysubtags" "unic-langid-impl/likelysubtags" = true
  /\ cargo_feature_ok "serde" "unic-langid-impl/serde,unic-langid-impl/likelysubtags" = false
  /\ cargo_feature_ok "macros" "unic-langid-macros,likelysubtags" = false /\ cargo_feature_ok "binary" "serde,serde_json" = true.
Proof. vm_compute. repeat split; reflexivity. Qed.
Example cargo_dep_rule :
  cargo_dep_ok "syn" "parsing,proc-macro" = true /\ cargo_dep_ok "unic-locale-impl" "" = true
  /\ cargo_dep_ok "unic-locale-impl" "likelysubtags" = false /\ cargo_dep_ok "unic-langid-impl" "serde" = false.
Proof. vm_compute. repeat split; reflexivity. Qed.
