(* RawProofs.v — canonical subtags survive the integer form (to u32/u64 and back) *)
From UL Require Import Bytes Subtags LangId Macros Grammar LangIdSpec BytesProofs SubtagProofs PackProofs LangIdProofs CanonProofs.
From Coq Require Import Lia ZifyBool ZifyN.
Open Scope N_scope.

Lemma canon_lang_raw l : canon_lang (Some l) = true -> via_raw 8 l = l.
Proof.
  cbn [canon_lang]. intros H. apply andb_true_iff in H as [H _]. apply andb_true_iff in H as [H _].
  unfold lang_tok, len_in in H. apply andb_true_iff in H as [Ha Hl].
  apply from_raw_pack; [apply (forallb_small_of _ _ alpha_small Ha)|lia].
Qed.
Lemma canon_script_raw s : canon_script s = true -> via_raw 4 s = s.
Proof.
  unfold canon_script, script_tok. intros H. apply andb_true_iff in H as [H _]. apply andb_true_iff in H as [Ha Hl].
  apply from_raw_pack; [apply (forallb_small_of _ _ alpha_small Ha)|lia].
Qed.
Lemma canon_region_raw r : canon_region r = true -> via_raw 4 r = r.
Proof.
  unfold canon_region, region_tok. intros H. apply andb_true_iff in H as [H _].
  apply orb_true_iff in H as [H|H]; apply andb_true_iff in H as [Ha Hl];
    (apply from_raw_pack; [|lia]); [apply (forallb_small_of _ _ alpha_small Ha)|apply (forallb_small_of _ _ digit_small Ha)].
Qed.
Lemma variant_tok_small v : variant_tok v = true -> small v = true /\ (length v <= 8)%nat.
Proof.
  unfold variant_tok, len_in. intros H. apply orb_true_iff in H as [H|H].
  - apply andb_true_iff in H as [Ha Hl]. split; [apply (forallb_small_of _ _ alnum_small Ha)|lia].
  - destruct v as [|c r]; [discriminate|]. apply andb_true_iff in H as [H Hl]. apply andb_true_iff in H as [Hc Hr].
    split; [|cbn [length]; lia]. cbn [small forallb]. rewrite (digit_small _ Hc). apply (forallb_small_of _ _ alnum_small Hr).
Qed.
Lemma canon_variant_raw v : canon_variant v = true -> via_raw 8 v = v.
Proof. unfold canon_variant. intros H. apply andb_true_iff in H as [H _]. destruct (variant_tok_small _ H). apply from_raw_pack; assumption. Qed.


Lemma canon_lang_small l : canon_lang (Some l) = true -> small l = true /\ (length l <= 8)%nat /\ l <> und.
Proof.
  cbn [canon_lang]. intros H. apply andb_true_iff in H as [H Hn]. apply andb_true_iff in H as [H _].
  unfold lang_tok, len_in in H. apply andb_true_iff in H as [Ha Hl].
  repeat split; [apply (forallb_small_of _ _ alpha_small Ha)|lia|].
  intros ->. discriminate.
Qed.
Lemma canon_script_small s : canon_script s = true -> small s = true /\ (length s <= 4)%nat.
Proof.
  unfold canon_script, script_tok. intros H. apply andb_true_iff in H as [H _]. apply andb_true_iff in H as [Ha Hl].
  split; [apply (forallb_small_of _ _ alpha_small Ha)|lia].
Qed.
Lemma canon_region_small r : canon_region r = true -> small r = true /\ (length r <= 4)%nat.
Proof.
  unfold canon_region, region_tok. intros H. apply andb_true_iff in H as [H _].
  apply orb_true_iff in H as [H|H]; apply andb_true_iff in H as [Ha Hl]; (split; [|lia]);
    [apply (forallb_small_of _ _ alpha_small Ha)|apply (forallb_small_of _ _ digit_small Ha)].
Qed.
