(* LocaleAlgebra.v — C12 at Locale level: the derived == is structural equality and agrees with the
   canonical string on reachable values; the derived ordering is a strict total order consistent with ==. *)
From UL Require Import Bytes Subtags LangId Ext LocaleOrd Grammar LangIdSpec LocaleInv BytesProofs LangIdProofs LangIdAlgebra RoundTrip.

Lemma kmap_eqb_iff a : forall b, kmap_eqb a b = true <-> a = b.
Proof.
  induction a as [|[k v] a IH]; intros [|[k' v'] b]; cbn [kmap_eqb]; split; try discriminate; try reflexivity.
  - intros H. apply andb_true_iff in H as [H H3]. apply andb_true_iff in H as [H1 H2].
    apply beqb_eq in H1. apply lbeqb_iff in H2. apply IH in H3. congruence.
  - intros H. injection H as -> -> ->. rewrite (proj2 (beqb_eq k' k') eq_refl), (proj2 (lbeqb_iff v' v') eq_refl). cbn [andb]. apply IH. reflexivity.
Qed.
Lemma oli_eqb_iff a b : oli_eqb a b = true <-> a = b.
Proof.
  destruct a, b; cbn [oli_eqb]; split; try discriminate; try reflexivity.
  - intros H. apply li_eqb_iff in H. congruence.
  - intros H. injection H as ->. apply li_eqb_iff. reflexivity.
Qed.
Theorem ext_eqb_iff a b : ext_eqb a b = true <-> a = b.
Proof.
  destruct a as [[ku au] [tl tf] x], b as [[ku' au'] [tl' tf'] x']. unfold ext_eqb.
  cbn [e_unicode e_transform e_private u_keywords u_attrs t_lang t_fields].
  rewrite !andb_true_iff, !kmap_eqb_iff, !lbeqb_iff, oli_eqb_iff. split.
  - intros [[[[-> ->] ->] ->] ->]. reflexivity.
  - intros H. injection H as -> -> -> -> ->. auto.
Qed.
Theorem loc_eqb_iff x y : loc_eqb x y = true <-> x = y.
Proof.
  destruct x as [i e], y as [i' e']. unfold loc_eqb. cbn [loc_id loc_ext]. rewrite andb_true_iff, li_eqb_iff, ext_eqb_iff. split.
  - intros [-> ->]. reflexivity.
  - intros H. injection H as -> ->. auto.
Qed.
Theorem loc_eq_iff_string x y : loc_inv x = true -> loc_inv y = true ->
  (loc_eqb x y = true <-> loc_to_string x = loc_to_string y).
Proof.
  intros Hx Hy. rewrite loc_eqb_iff. split; [intros ->; reflexivity|]. intros H.
  pose proof (locale_roundtrip x Hx) as Rx. pose proof (locale_roundtrip y Hy) as Ry. rewrite H in Rx. congruence.
Qed.

(* ---- ordering ---- *)
Lemma kmap_cmp_eq a : forall b, kmap_cmp a b = Eq <-> a = b.
Proof.
  induction a as [|[k v] a IH]; intros [|[k' v'] b]; cbn [kmap_cmp]; split; try discriminate; try reflexivity.
  - rewrite !then_cmp_eq, bcmp_eq, lcmp_eq, IH. intros (-> & -> & ->). reflexivity.
  - intros H. injection H as -> -> ->. rewrite !then_cmp_eq, bcmp_eq, lcmp_eq, IH. auto.
Qed.
Lemma kmap_cmp_antisym a : forall b, kmap_cmp b a = CompOpp (kmap_cmp a b).
Proof.
  induction a as [|[k v] a IH]; intros [|[k' v'] b]; cbn [kmap_cmp]; try reflexivity.
  rewrite <- !then_cmp_opp, <- IH, <- lcmp_antisym, <- bcmp_antisym. reflexivity.
Qed.
Lemma eq_l {A} (c : A -> A -> comparison) (Hc : forall x y, c x y = Eq <-> x = y) x y z : c x y = Eq -> c x z = c y z.
Proof. intros H. apply Hc in H. subst. reflexivity. Qed.
Lemma eq_r {A} (c : A -> A -> comparison) (Hc : forall x y, c x y = Eq <-> x = y) x y z : c y z = Eq -> c x z = c x y.
Proof. intros H. apply Hc in H. subst. reflexivity. Qed.
Lemma kmap_cmp_lt_trans a : forall b c, kmap_cmp a b = Lt -> kmap_cmp b c = Lt -> kmap_cmp a c = Lt.
Proof.
  induction a as [|[k v] a IH]; intros [|[k' v'] b] [|[k'' v''] c]; cbn [kmap_cmp]; try discriminate; auto.
  apply then_cmp_lt_trans; [apply bcmp_lt_trans|apply (eq_l bcmp bcmp_eq)|apply (eq_r bcmp bcmp_eq)|].
  apply then_cmp_lt_trans; [apply lcmp_lt_trans|apply (eq_l lcmp lcmp_eq)|apply (eq_r lcmp lcmp_eq)|].
  apply IH.
Qed.

Lemma oli_cmp_eq a b : ocmp li_cmp a b = Eq <-> a = b.
Proof. apply ocmp_eq. exact li_cmp_eq. Qed.

Theorem ext_cmp_eq a b : ext_cmp a b = Eq <-> a = b.
Proof.
  destruct a as [[ku au] [tl tf] x], b as [[ku' au'] [tl' tf'] x']. unfold ext_cmp.
  cbn [e_unicode e_transform e_private u_keywords u_attrs t_lang t_fields].
  rewrite !then_cmp_eq, !kmap_cmp_eq, !lcmp_eq, oli_cmp_eq. split.
  - intros (-> & -> & -> & -> & ->). reflexivity.
  - intros H. injection H as -> -> -> -> ->. auto.
Qed.
Theorem ext_cmp_antisym a b : ext_cmp b a = CompOpp (ext_cmp a b).
Proof.
  unfold ext_cmp. rewrite <- !then_cmp_opp, <- !kmap_cmp_antisym, <- !lcmp_antisym, <- (ocmp_antisym li_cmp li_cmp_antisym). reflexivity.
Qed.
Theorem ext_cmp_lt_trans a b c : ext_cmp a b = Lt -> ext_cmp b c = Lt -> ext_cmp a c = Lt.
Proof.
  unfold ext_cmp.
  apply then_cmp_lt_trans; [apply kmap_cmp_lt_trans|apply (eq_l kmap_cmp kmap_cmp_eq)|apply (eq_r kmap_cmp kmap_cmp_eq)|].
  apply then_cmp_lt_trans; [apply lcmp_lt_trans|apply (eq_l lcmp lcmp_eq)|apply (eq_r lcmp lcmp_eq)|].
  apply then_cmp_lt_trans; [apply (ocmp_lt_trans li_cmp li_cmp_lt_trans)|apply (eq_l _ oli_cmp_eq)|apply (eq_r _ oli_cmp_eq)|].
  apply then_cmp_lt_trans; [apply kmap_cmp_lt_trans|apply (eq_l kmap_cmp kmap_cmp_eq)|apply (eq_r kmap_cmp kmap_cmp_eq)|].
  apply lcmp_lt_trans.
Qed.

Theorem loc_cmp_eq x y : loc_cmp x y = Eq <-> x = y.
Proof.
  destruct x as [i e], y as [i' e']. unfold loc_cmp. cbn [loc_id loc_ext]. rewrite then_cmp_eq, li_cmp_eq, ext_cmp_eq. split.
  - intros [-> ->]. reflexivity.
  - intros H. injection H as -> ->. auto.
Qed.
Theorem loc_cmp_antisym x y : loc_cmp y x = CompOpp (loc_cmp x y).
Proof. unfold loc_cmp. rewrite <- then_cmp_opp, <- li_cmp_antisym, <- ext_cmp_antisym. reflexivity. Qed.
Theorem loc_cmp_lt_trans x y z : loc_cmp x y = Lt -> loc_cmp y z = Lt -> loc_cmp x z = Lt.
Proof.
  unfold loc_cmp.
  apply then_cmp_lt_trans; [apply li_cmp_lt_trans|apply (eq_l li_cmp li_cmp_eq)|apply (eq_r li_cmp li_cmp_eq)|].
  apply ext_cmp_lt_trans.
Qed.
(* == and the ordering agree: Equal exactly on equal values *)
Corollary loc_cmp_eqb x y : (loc_cmp x y = Eq) <-> loc_eqb x y = true.
Proof. rewrite loc_cmp_eq, loc_eqb_iff. reflexivity. Qed.
(* the id is compared first: a difference in the language identifier decides *)
Theorem loc_cmp_id_first x y : li_cmp (loc_id x) (loc_id y) <> Eq -> loc_cmp x y = li_cmp (loc_id x) (loc_id y).
Proof. unfold loc_cmp. destruct (li_cmp (loc_id x) (loc_id y)); [congruence|reflexivity|reflexivity]. Qed.
