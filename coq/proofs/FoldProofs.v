(* FoldProofs.v — C09 at Locale level: the parse result depends only on the case-folded, separator-
   folded text (for ALL byte strings, accepted or rejected). *)
From UL Require Import Bytes Subtags LangId Ext Grammar LangIdSpec
                       BytesProofs SubtagProofs SplitProofs LangIdProofs CanonProofs ExtProofs InvProofs.
From Coq Require Import Lia ZifyBool ZifyN.
Open Scope N_scope.
Arguments N.add : simpl never.
Arguments N.sub : simpl never.
Arguments N.leb : simpl never.
Arguments N.eqb : simpl never.

Definition rmap {A} (r : res (A * list bytes)) : res (A * list bytes) :=
  match r with Ok (a, rem) => Ok (a, map lower rem) | Err e => Err e | Panic n => Panic n | OutOfFuel => OutOfFuel end.

Lemma utype_tok_lower t : utype_tok (lower t) = utype_tok t.
Proof. unfold utype_tok. apply alnum_len_lower. Qed.
Lemma attr_tok_lower t : attr_tok (lower t) = attr_tok t.
Proof. unfold attr_tok. apply alnum_len_lower. Qed.
Lemma tvalue_tok_lower t : tvalue_tok (lower t) = tvalue_tok t.
Proof. unfold tvalue_tok. apply alnum_len_lower. Qed.
Lemma priv_tok_lower t : priv_tok (lower t) = priv_tok t.
Proof. unfold priv_tok. apply alnum_len_lower. Qed.

Lemma parse_key_lower t : parse_key (lower t) = parse_key t.
Proof. rewrite !parse_key_spec, ukey_tok_lower, lower_idem. reflexivity. Qed.
Lemma parse_tkey_lower t : parse_tkey (lower t) = parse_tkey t.
Proof. rewrite !parse_tkey_spec, tkey_tok_lower, lower_idem. reflexivity. Qed.
Lemma parse_type_lower t : parse_type (lower t) = parse_type t.
Proof. rewrite !parse_type_spec, utype_tok_lower, lower_idem. reflexivity. Qed.
Lemma parse_tvalue_lower t : parse_tvalue (lower t) = parse_tvalue t.
Proof. rewrite !parse_tvalue_spec, tvalue_tok_lower, lower_idem. reflexivity. Qed.
Lemma parse_attribute_lower t : parse_attribute (lower t) = parse_attribute t.
Proof. rewrite !parse_attribute_spec, attr_tok_lower, lower_idem. reflexivity. Qed.
Lemma parse_value_lower t : parse_value (lower t) = parse_value t.
Proof. rewrite !parse_value_spec, priv_tok_lower, lower_idem. reflexivity. Qed.
Lemma is_type_lower t : is_type (lower t) = is_type t.
Proof. rewrite !is_type_tok. apply utype_tok_lower. Qed.
Lemma tkey_shape_lower t : tkey_shape (lower t) = tkey_shape t.
Proof. rewrite !tkey_shape_tok. apply tkey_tok_lower. Qed.
Lemma is_language_subtag_lower t : is_language_subtag (lower t) = is_language_subtag t.
Proof. unfold is_language_subtag. rewrite !existsb_negb_forallb, lower_forallb_alpha, lower_length. reflexivity. Qed.

Lemma u_loop_lower toks : forall cur types kws attrs,
  u_loop cur types kws attrs (map lower toks) = rmap (u_loop cur types kws attrs toks).
Proof.
  induction toks as [|t toks IH]; intros cur types kws attrs; cbn [map u_loop rmap]; [reflexivity|].
  rewrite lower_length. destruct (length t =? 2)%nat.
  - rewrite parse_key_lower. destruct (parse_key t); cbn [bind rmap]; auto.
  - rewrite is_type_lower. destruct (is_some cur && is_type t).
    + rewrite parse_type_lower. destruct (parse_type t) as [[v|]| | |]; cbn [bind rmap]; auto.
    + unfold is_attribute. rewrite is_type_lower. destruct (is_type t); [|reflexivity].
      rewrite parse_attribute_lower. destruct (parse_attribute t); cbn [bind rmap]; auto.
Qed.

Lemma langid_from_iter_lower toks allow :
  langid_from_iter (map lower toks) allow = rmap (langid_from_iter toks allow).
Proof.
  rewrite !langid_from_iter_spec, spec_langid_prefix_lower.
  destruct (spec_langid_prefix toks) as [[v rem]|]; cbn [map_rest rmap]; [|reflexivity].
  destruct rem; cbn [map]; destruct allow; reflexivity.
Qed.

Lemma t_loop_lower fuel : forall toks cur vals tf tl,
  t_loop fuel cur vals tf tl (map lower toks) = rmap (t_loop fuel cur vals tf tl toks).
Proof.
  induction fuel as [|f IH]; intros toks cur vals tf tl; [reflexivity|].
  destruct toks as [|t toks]; cbn [map t_loop rmap]; [reflexivity|].
  rewrite tkey_shape_lower, lower_length. destruct (tkey_shape t).
  - rewrite parse_tkey_lower. destruct (parse_tkey t); cbn [bind rmap]; auto.
  - destruct (length t =? 1)%nat; [reflexivity|].
    destruct (is_some cur).
    + rewrite parse_tvalue_lower. destruct (parse_tvalue t) as [[v|]| | |]; cbn [bind rmap]; auto.
    + rewrite is_language_subtag_lower. destruct (is_none tl && is_language_subtag t); [|reflexivity].
      change (lower t :: map lower toks) with (map lower (t :: toks)). rewrite langid_from_iter_lower.
      destruct (langid_from_iter (t :: toks) true) as [[v rem]| | |]; cbn [rmap]; auto.
Qed.

Lemma x_collect_lower toks : x_collect (map lower toks) = x_collect toks.
Proof. induction toks as [|t toks IH]; cbn [map x_collect]; [reflexivity|]. rewrite parse_value_lower, IH. reflexivity. Qed.

Lemma ext_type_lower b : ext_type_from_byte (to_lower b) = ext_type_from_byte b.
Proof. unfold ext_type_from_byte. rewrite to_lower_idem. reflexivity. Qed.

Lemma dispatch_lower fuel : forall toks su st acc,
  dispatch fuel su st acc (map lower toks) = dispatch fuel su st acc toks.
Proof.
  induction fuel as [|f IH]; intros toks su st acc; [reflexivity|].
  destruct toks as [|t toks]; cbn [map dispatch]; [reflexivity|].
  rewrite lower_length. destruct (1 <? length t)%nat; [reflexivity|].
  destruct t as [|b r]; cbn [lower map]; [apply IH|].
  rewrite ext_type_lower. destruct (ext_type_from_byte b) as [[| | |c]| | |]; try reflexivity.
  - destruct su; [reflexivity|]. unfold u_parse. rewrite u_loop_lower.
    destruct (u_loop None [] [] [] toks) as [[u rem]| | |]; cbn [rmap bind fst snd]; auto.
  - destruct st; [reflexivity|]. unfold t_parse. rewrite map_length, t_loop_lower.
    destruct (t_loop (S (length toks)) None [] [] None toks) as [[u rem]| | |]; cbn [rmap bind fst snd]; auto.
  - unfold x_parse. rewrite x_collect_lower. reflexivity.
Qed.

Theorem locale_lower_tokens toks :
  (match langid_from_iter (map lower toks) true with
   | Ok (id, rem) => bind (ext_from_iter rem) (fun e => Ok (mkLoc id e))
   | Err _ => Err InvalidLanguage | Panic n => Panic n | OutOfFuel => OutOfFuel end)
  = (match langid_from_iter toks true with
     | Ok (id, rem) => bind (ext_from_iter rem) (fun e => Ok (mkLoc id e))
     | Err _ => Err InvalidLanguage | Panic n => Panic n | OutOfFuel => OutOfFuel end).
Proof.
  rewrite langid_from_iter_lower. destruct (langid_from_iter toks true) as [[id rem]| | |]; cbn [rmap]; try reflexivity.
  unfold ext_from_iter. rewrite map_length, dispatch_lower. reflexivity.
Qed.

(* any two byte strings that agree after case folding and '_' -> '-' give the same result *)
Theorem locale_fold_invariant s s' : map fold_byte s = map fold_byte s' -> locale_from_bytes s = locale_from_bytes s'.
Proof.
  intros H. unfold locale_from_bytes.
  rewrite <- (locale_lower_tokens (split s)), <- (locale_lower_tokens (split s')).
  rewrite <- !split_fold, H. reflexivity.
Qed.
Theorem extmap_fold_invariant s s' : map fold_byte s = map fold_byte s' -> extmap_from_bytes s = extmap_from_bytes s'.
Proof.
  intros H. unfold extmap_from_bytes, ext_from_iter.
  rewrite <- (dispatch_lower _ (split s)), <- (dispatch_lower _ (split s')).
  rewrite <- (map_length lower (split s)), <- (map_length lower (split s')), <- !split_fold, H. reflexivity.
Qed.
