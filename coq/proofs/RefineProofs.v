(* RefineProofs.v — C10: the concrete mutator machine (sorted vectors, key-sorted maps, binary search)
   refines the abstract one (unordered sets / multiset / maps) through `normalize`, step by step and
   therefore along every history. *)
From UL Require Import Bytes Subtags LangId Ext Likely Ops LocaleInv AbstractLocale
                       BytesProofs SortProofs KmapProofs PermProofs KvProofs.
From Coq Require Import Lia Permutation.
Open Scope N_scope.

Definition a_ok (a : alocale) : Prop :=
  NoDup (a_variants a) /\ NoDup (a_attrs a) /\ kuniq (a_keywords a) /\ kuniq (a_tfields a).

Lemma memb_iff_In x l l' : (forall y, In y l <-> In y l') -> memb x l = memb x l'.
Proof.
  intros H. destruct (memb x l) eqn:E, (memb x l') eqn:E'; try reflexivity.
  - apply memb_In in E. apply H in E. apply memb_In in E. congruence.
  - apply memb_In in E'. apply H in E'. apply memb_In in E'. congruence.
Qed.
Lemma memb_sort v l : memb v (sort l) = memb v l.
Proof. apply memb_iff_In. intros y. apply sort_In. Qed.
Lemma sortedb_sort l : sortedb (sort l) = true.
Proof. apply sortedb_iff, sort_sorted. Qed.
Lemma bsearch_sort l v : bsearch (sort l) v = if memb v l then BsFound else BsMissing.
Proof. unfold bsearch. rewrite sortedb_sort, memb_sort. reflexivity. Qed.
Lemma set_remove_notin x l : memb x l = false -> set_remove x l = l.
Proof.
  unfold set_remove. induction l as [|y l IH]; cbn [memb filter]; [reflexivity|].
  intros H. apply orb_false_iff in H as [H1 H2]. rewrite H1. cbn [negb]. rewrite (IH H2). reflexivity.
Qed.
Lemma set_add_in x l : memb x l = true -> set_add x l = l.
Proof. unfold set_add. intros ->. reflexivity. Qed.
Lemma set_add_notin x l : memb x l = false -> set_add x l = x :: l.
Proof. unfold set_add. intros ->. reflexivity. Qed.

Definition nvars (vs : list bytes) : option (list bytes) := match vs with [] => None | l => Some (sort l) end.
Lemma nvars_list l s r vs : li_variants_list (mkLangId l s r (nvars vs)) = sort vs.
Proof. destruct vs; reflexivity. Qed.
Lemma nvars_set_of l : (match l with [] => None | _ => Some (dedup (sort l)) end) = nvars (set_of l).
Proof.
  destruct l as [|x l']; [reflexivity|]. unfold nvars.
  destruct (set_of (x :: l')) as [|y r] eqn:E.
  - exfalso. assert (In x (set_of (x :: l'))) by (apply set_of_In; left; reflexivity). rewrite E in H. destruct H.
  - rewrite <- E, sort_set_of. reflexivity.
Qed.

Lemma normalize_eq a :
  normalize a = mkLoc (mkLangId (a_lang a) (a_script a) (a_region a) (nvars (a_variants a)))
                      (mkE (mkU (kv_sort (a_keywords a)) (sort (a_attrs a)))
                           (mkT (a_tlang a) (kv_sort (a_tfields a)))
                           (sort (a_tags a))).
Proof. destruct a as [l s r vs att kw tl tf tg]. unfold normalize, nvars. cbn. destruct vs; reflexivity. Qed.

Ltac crush_res r :=
  destruct r; cbn [of_res a_of_res bind]; try (split; [reflexivity|assumption]).

Theorem refine_step T a o : a_ok a ->
  step T (normalize a) o = Some (normalize (fst (astep T a o)), snd (astep T a o)) /\ a_ok (fst (astep T a o)).
Proof.
  intros Hok. pose proof Hok as (Hv & Ha & Hk & Ht).
  destruct a as [l s r vs attrs kws tl tfs tags]. cbn [a_variants a_attrs a_keywords a_tfields] in *.
  rewrite !normalize_eq. cbn [a_lang a_script a_region a_variants a_attrs a_keywords a_tlang a_tfields a_tags].
  destruct o as [a0|a0|a0|vs0| |a0|k|k vs0|k| |a0|a0|a0| |a0| |k|k vs0|k| |a0|a0|a0| | | ]; cbn [step astep loc_id loc_ext e_unicode e_transform e_private u_keywords u_attrs t_lang t_fields
                   li_lang li_script li_region li_variants a_lang a_script a_region a_variants a_attrs a_keywords a_tlang a_tfields a_tags].
  - (* set language *)
    destruct a0 as [|c a0']; [split; [reflexivity|exact Hok]|].
    destruct (language_from_bytes (c :: a0')); cbn [of_res a_of_res]; (split; [reflexivity|exact Hok]).
  - destruct a0 as [|c a0']; [split; [reflexivity|exact Hok]|].
    destruct (script_from_bytes (c :: a0')); cbn [of_res a_of_res bind]; (split; [reflexivity|exact Hok]).
  - destruct a0 as [|c a0']; [split; [reflexivity|exact Hok]|].
    destruct (region_from_bytes (c :: a0')); cbn [of_res a_of_res bind]; (split; [reflexivity|exact Hok]).
  - (* set_variants *)
    destruct (collect_all variant_from_bytes vs0) as [lv| | |]; cbn [of_res a_of_res]; try (split; [reflexivity|exact Hok]).
    cbn [fst snd]. split.
    + unfold set_id, li_set_variants, upd_id.
      cbn [loc_id loc_ext li_lang li_script li_region a_lang a_script a_region a_variants a_attrs a_keywords a_tlang a_tfields a_tags].
      rewrite nvars_set_of. reflexivity.
    + unfold a_ok, upd_id. cbn [a_variants a_attrs a_keywords a_tfields]. repeat split; auto. apply set_of_NoDup.
  - (* clear_variants *)
    cbn [fst snd]. split; [reflexivity|]. unfold a_ok, upd_id. cbn. repeat split; auto. constructor.
  - (* has_variant *)
    destruct (variant_from_bytes a0) as [v| | |]; cbn [of_res a_of_res]; try (split; [reflexivity|exact Hok]).
    cbn [fst snd]. split; [|exact Hok]. unfold li_has_variant. fold (nvars vs). rewrite nvars_list, memb_sort. reflexivity.
  - (* keyword *)
    destruct (parse_key k) as [k'| | |]; cbn [of_res a_of_res]; try (split; [reflexivity|exact Hok]).
    cbn [fst snd]. split; [|exact Hok]. rewrite (kfind_kv_sort k' kws Hk). reflexivity.
  - (* set_keyword *)
    destruct (parse_key k) as [k'| | |]; cbn [of_res a_of_res]; try (split; [reflexivity|exact Hok]).
    destruct (collect_vals parse_type vs0) as [lv| | |]; cbn [of_res a_of_res]; try (split; [reflexivity|exact Hok]).
    cbn [fst snd]. split.
    + unfold set_u. cbn [loc_id loc_ext e_unicode e_transform e_private a_lang a_script a_region a_variants a_attrs a_keywords a_tlang a_tfields a_tags].
      rewrite (kv_sort_map_put k' lv kws Hk). reflexivity.
    + unfold a_ok. cbn [a_variants a_attrs a_keywords a_tfields]. repeat split; auto. apply map_put_kuniq; exact Hk.
  - (* remove_keyword *)
    destruct (parse_key k) as [k'| | |]; cbn [of_res a_of_res]; try (split; [reflexivity|exact Hok]).
    destruct (kv_sort_map_del k' kws Hk) as [D1 D2].
    destruct (kremove k' (kv_sort kws)) as [m b] eqn:E. cbn [fst snd] in *. subst m b. split.
    + unfold set_u. reflexivity.
    + unfold a_ok. cbn [a_variants a_attrs a_keywords a_tfields]. repeat split; auto. apply map_del_kuniq; exact Hk.
  - (* clear_keywords *)
    cbn [fst snd]. split; [reflexivity|]. unfold a_ok. cbn. repeat split; auto. constructor.
  - (* has_attribute *)
    destruct (parse_attribute a0) as [v| | |]; cbn [of_res a_of_res]; try (split; [reflexivity|exact Hok]).
    cbn [fst snd]. rewrite memb_sort. split; [reflexivity|exact Hok].
  - (* set_attribute *)
    destruct (parse_attribute a0) as [v| | |]; cbn [of_res a_of_res]; try (split; [reflexivity|exact Hok]).
    rewrite bsearch_sort. cbn [fst snd]. destruct (memb v attrs) eqn:E.
    + rewrite (set_add_in v attrs E). split; [reflexivity|exact Hok].
    + rewrite (set_add_notin v attrs E). split; [reflexivity|].
      unfold a_ok. cbn [a_variants a_attrs a_keywords a_tfields]. repeat split; auto.
      constructor; [|exact Ha]. intros Hin. apply memb_In in Hin. congruence.
  - (* remove_attribute *)
    destruct (parse_attribute a0) as [v| | |]; cbn [of_res a_of_res]; try (split; [reflexivity|exact Hok]).
    rewrite bsearch_sort. cbn [fst snd]. destruct (memb v attrs) eqn:E.
    + split.
      * unfold set_u. cbn [loc_id loc_ext e_unicode e_transform e_private a_lang a_script a_region a_variants a_attrs a_keywords a_tlang a_tfields a_tags].
        rewrite (sort_set_remove v attrs Ha). reflexivity.
      * unfold a_ok. cbn [a_variants a_attrs a_keywords a_tfields]. repeat split; auto. apply set_remove_NoDup; exact Ha.
    + rewrite (set_remove_notin v attrs E). split; [reflexivity|exact Hok].
  - (* clear_attributes *)
    cbn [fst snd]. split; [reflexivity|]. unfold a_ok. cbn. repeat split; auto. constructor.
  - (* set_tlang *)
    destruct (langid_from_bytes a0); cbn [of_res a_of_res]; (split; [reflexivity|exact Hok]).
  - cbn [fst snd]. split; [reflexivity|exact Hok].
  - (* tfield *)
    destruct (parse_tkey k) as [k'| | |]; cbn [of_res a_of_res]; try (split; [reflexivity|exact Hok]).
    cbn [fst snd]. split; [|exact Hok]. rewrite (kfind_kv_sort k' tfs Ht). reflexivity.
  - (* set_tfield *)
    destruct (parse_tkey k) as [k'| | |]; cbn [of_res a_of_res]; try (split; [reflexivity|exact Hok]).
    destruct (collect_vals parse_tvalue vs0) as [lv| | |]; cbn [of_res a_of_res]; try (split; [reflexivity|exact Hok]).
    cbn [fst snd]. split.
    + unfold set_t. cbn [loc_id loc_ext e_unicode e_transform e_private a_lang a_script a_region a_variants a_attrs a_keywords a_tlang a_tfields a_tags].
      rewrite (kv_sort_map_put k' lv tfs Ht). reflexivity.
    + unfold a_ok. cbn [a_variants a_attrs a_keywords a_tfields]. repeat split; auto. apply map_put_kuniq; exact Ht.
  - (* remove_tfield *)
    destruct (parse_tkey k) as [k'| | |]; cbn [of_res a_of_res]; try (split; [reflexivity|exact Hok]).
    destruct (kv_sort_map_del k' tfs Ht) as [D1 D2].
    destruct (kremove k' (kv_sort tfs)) as [m b] eqn:E. cbn [fst snd] in *. subst m b. split.
    + unfold set_t. reflexivity.
    + unfold a_ok. cbn [a_variants a_attrs a_keywords a_tfields]. repeat split; auto. apply map_del_kuniq; exact Ht.
  - cbn [fst snd]. split; [reflexivity|]. unfold a_ok. cbn. repeat split; auto. constructor.
  - (* has_tag *)
    destruct (parse_value a0) as [v| | |]; cbn [of_res a_of_res]; try (split; [reflexivity|exact Hok]).
    cbn [fst snd]. rewrite memb_sort. split; [reflexivity|exact Hok].
  - (* add_tag *)
    destruct (parse_value a0) as [v| | |]; cbn [of_res a_of_res]; try (split; [reflexivity|exact Hok]).
    cbn [fst snd]. split; [|exact Hok]. unfold set_x.
    cbn [loc_id loc_ext e_unicode e_transform e_private a_lang a_script a_region a_variants a_attrs a_keywords a_tlang a_tfields a_tags].
    rewrite sort_sort_app. reflexivity.
  - (* remove_tag *)
    destruct (parse_value a0) as [v| | |]; cbn [of_res a_of_res]; try (split; [reflexivity|exact Hok]).
    rewrite bsearch_sort. cbn [fst snd]. destruct (memb v tags) eqn:E.
    + split; [|exact Hok]. unfold set_x.
      cbn [loc_id loc_ext e_unicode e_transform e_private a_lang a_script a_region a_variants a_attrs a_keywords a_tlang a_tfields a_tags].
      rewrite (sort_bag_remove v tags (proj1 (memb_In v tags) E)). reflexivity.
    + rewrite bag_remove_is_remove_first, remove_first_notin; [split; [reflexivity|exact Hok]|].
      intros Hin. apply memb_In in Hin. congruence.
  - cbn [fst snd]. split; [reflexivity|exact Hok].
  - (* maximize *)
    unfold li_maximize, li_apply. cbn [li_lang li_script li_region li_variants].
    destruct (maximize T l s r) as [[[[l' s'] r']|]| | |]; cbn [of_res a_of_res fst snd]; (split; [reflexivity|exact Hok]).
  - unfold li_minimize, li_apply. cbn [li_lang li_script li_region li_variants].
    destruct (minimize T l s r) as [[[[l' s'] r']|]| | |]; cbn [of_res a_of_res fst snd]; (split; [reflexivity|exact Hok]).
Qed.

(* along every history *)
Theorem refine_run T ops : forall a, a_ok a ->
  run T (normalize a) ops = Some (map (fun p => (normalize (fst p), snd p)) (arun T a ops)).
Proof.
  induction ops as [|o ops IH]; intros a Hok; cbn [run arun map]; [reflexivity|].
  destruct (refine_step T a o Hok) as [E Hok']. rewrite E.
  destruct (astep T a o) as [a' w] eqn:Ea. cbn [fst snd] in *. rewrite (IH a' Hok'). reflexivity.
Qed.

(* every value satisfying the concrete invariant is the normal form of its own abstraction *)
Theorem normalize_abstract l : loc_inv l = true -> normalize (abstract l) = l /\ a_ok (abstract l).
Proof.
  intros Hinv. unfold loc_inv in Hinv. apply andb_true_iff in Hinv as [Hid He].
  unfold ext_inv in He. apply andb_true_iff in He as [He Hx]. apply andb_true_iff in He as [Hu Ht].
  unfold u_inv in Hu. apply andb_true_iff in Hu as [Hu Hua2]. apply andb_true_iff in Hu as [Huk _].
  unfold t_inv in Ht. apply andb_true_iff in Ht as [_ Htf].
  unfold x_inv in Hx. apply andb_true_iff in Hx as [_ Hx2].
  unfold kmap_inv in Huk, Htf. apply andb_true_iff in Huk as [Huk _]. apply andb_true_iff in Htf as [Htf _].
  unfold li_inv in Hid. apply andb_true_iff in Hid as [_ Hvar].
  destruct l as [[lg sc rg vs] [[kws attrs] [tl tfs] tags]]. cbn [loc_id loc_ext e_unicode e_transform e_private u_keywords u_attrs t_lang t_fields li_variants] in *.
  split.
  - unfold abstract. rewrite normalize_eq.
    cbn [loc_id loc_ext e_unicode e_transform e_private u_keywords u_attrs t_lang t_fields li_lang li_script li_region li_variants
         a_lang a_script a_region a_variants a_attrs a_keywords a_tlang a_tfields a_tags].
    rewrite (kv_sort_id kws Huk), (kv_sort_id tfs Htf).
    rewrite (sort_id attrs (Sorted_lt_le _ (proj1 (ssortedb_iff _) Hua2))), (sort_id tags (proj1 (sortedb_iff _) Hx2)).
    f_equal. f_equal. unfold li_variants_list. cbn [li_variants].
    destruct vs as [v|]; [|reflexivity]. cbn [variants_inv] in Hvar. apply andb_true_iff in Hvar as [Hvar Hs]. apply andb_true_iff in Hvar as [Hne _].
    destruct v as [|v0 v']; [discriminate|]. unfold nvars. rewrite (sort_id _ (Sorted_lt_le _ (proj1 (ssortedb_iff _) Hs))). reflexivity.
  - unfold a_ok, abstract. cbn [a_variants a_attrs a_keywords a_tfields loc_id loc_ext e_unicode e_transform u_keywords u_attrs t_fields].
    repeat split.
    + unfold li_variants_list. cbn [li_variants]. destruct vs as [v|]; [|constructor]. cbn [variants_inv] in Hvar.
      apply andb_true_iff in Hvar as [_ Hs]. apply Sorted_lt_NoDup, ssortedb_iff; exact Hs.
    + apply Sorted_lt_NoDup, ssortedb_iff; exact Hua2.
    + apply ksorted_kuniq; exact Huk.
    + apply ksorted_kuniq; exact Htf.
Qed.
