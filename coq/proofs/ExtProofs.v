(* ExtProofs.v — extension parsers: token-level characterisations, totality (C01), fuel bounds,
   Locale ⊇ LanguageIdentifier (C13). *)
From UL Require Import Bytes Subtags LangId Ext Grammar LangIdSpec BytesProofs SubtagProofs SortProofs SplitProofs LangIdProofs.
From Coq Require Import Lia ZifyBool ZifyN.
Open Scope N_scope.
Arguments N.add : simpl never.
Arguments N.sub : simpl never.
Arguments N.leb : simpl never.
Arguments N.eqb : simpl never.

Definition drop_true_opt (s : bytes) : option bytes := if beqb s true_bytes then None else Some s.

(* ---------- token-level characterisations: exactly the Grammar.v productions ---------- *)
Lemma parse_key_spec t : parse_key t = if ukey_tok t then Ok (lower t) else Err InvalidSubtag.
Proof.
  unfold parse_key, ukey_tok. destruct t as [|a [|b [|c r]]]; cbn [length nth_error Nat.eqb negb]; try reflexivity.
  destruct (is_alnum a) eqn:Ea; cbn [negb andb]; [|reflexivity].
  destruct (is_alpha b) eqn:Eb; cbn [negb]; [|reflexivity].
  unfold tiny_ok. cbn [length forallb Nat.leb]. rewrite (alnum_tiny _ Ea), (alpha_tiny _ Eb). reflexivity.
Qed.
Lemma parse_tkey_spec t : parse_tkey t = if tkey_tok t then Ok (lower t) else Err InvalidSubtag.
Proof.
  unfold parse_tkey, tkey_tok. destruct t as [|a [|b [|c r]]]; cbn [length nth_error Nat.eqb negb]; try reflexivity.
  destruct (is_alpha a) eqn:Ea; cbn [negb andb]; [|reflexivity].
  destruct (is_digit b) eqn:Eb; cbn [negb]; [|reflexivity].
  unfold tiny_ok. cbn [length forallb Nat.leb]. rewrite (alpha_tiny _ Ea), (digit_tiny _ Eb). reflexivity.
Qed.
Lemma tkey_shape_tok t : tkey_shape t = tkey_tok t.
Proof. reflexivity. Qed.

Lemma alnum38_spec t :
  (if negb (tiny_ok 8 t) then true else negb ((3 <=? length t)%nat && (length t <=? 8)%nat) || negb (forallb is_alnum t))
  = negb (forallb is_alnum t && len_in 3 8 t).
Proof.
  unfold tiny_ok, len_in. destruct (forallb is_alnum t) eqn:Ha.
  - rewrite (forallb_alnum_tiny _ Ha). destruct (length t <=? 8)%nat eqn:E8; cbn [andb negb orb]; [|rewrite andb_false_r; reflexivity].
    destruct (3 <=? length t)%nat; reflexivity.
  - cbn [andb negb orb]. rewrite orb_true_r. destruct (negb _); reflexivity.
Qed.
Lemma parse_type_spec t : parse_type t = if utype_tok t then Ok (drop_true_opt (lower t)) else Err InvalidSubtag.
Proof.
  unfold parse_type, utype_tok, drop_true_opt. pose proof (alnum38_spec t) as H.
  destruct (negb (tiny_ok 8 t)); [rewrite <- (negb_involutive (_ && _)), <- H; reflexivity|].
  rewrite H. destruct (forallb is_alnum t && len_in 3 8 t); cbn [negb]; [|reflexivity].
  destruct (beqb (lower t) true_bytes); reflexivity.
Qed.
Lemma parse_attribute_spec t : parse_attribute t = if attr_tok t then Ok (lower t) else Err InvalidSubtag.
Proof.
  unfold parse_attribute, attr_tok. pose proof (alnum38_spec t) as H.
  destruct (negb (tiny_ok 8 t)); [rewrite <- (negb_involutive (_ && _)), <- H; reflexivity|].
  rewrite H. destruct (forallb is_alnum t && len_in 3 8 t); reflexivity.
Qed.
Lemma parse_tvalue_spec t : parse_tvalue t = if tvalue_tok t then Ok (drop_true_opt (lower t)) else Err InvalidSubtag.
Proof.
  unfold parse_tvalue, tvalue_tok, drop_true_opt, tiny_ok, len_in.
  destruct (forallb is_alnum t) eqn:Ha.
  - rewrite (forallb_alnum_tiny _ Ha). cbn [andb negb orb].
    destruct (length t <=? 8)%nat eqn:E8; destruct (3 <=? length t)%nat eqn:E3; destruct (length t <? 3)%nat eqn:E3';
      destruct (8 <? length t)%nat eqn:E8'; cbn [andb negb orb]; try lia; try reflexivity.
    destruct (beqb (lower t) true_bytes); reflexivity.
  - cbn [andb negb orb]. rewrite orb_true_r. destruct (negb _); reflexivity.
Qed.
Lemma existsb_negb_forallb {A} (p : A -> bool) l : negb (existsb (fun c => negb (p c)) l) = forallb p l.
Proof. induction l as [|x l IH]; cbn [existsb forallb]; [reflexivity|]. rewrite negb_orb, negb_involutive, IH. reflexivity. Qed.
Lemma is_type_tok t : is_type t = utype_tok t.
Proof. unfold is_type, utype_tok, len_in. rewrite existsb_negb_forallb. apply andb_comm. Qed.
Lemma parse_value_spec t : parse_value t = if priv_tok t then Ok (lower t) else Err InvalidSubtag.
Proof.
  unfold parse_value, priv_tok, tiny_ok, len_in.
  destruct (forallb is_alnum t) eqn:Ha.
  - rewrite (forallb_alnum_tiny _ Ha). cbn [andb negb orb].
    destruct t as [|c r]; [reflexivity|]. cbn [length] in *.
    destruct (S (length r) <=? 8)%nat eqn:E8; destruct (8 <? S (length r))%nat eqn:E8'; cbn [andb negb orb]; try lia; reflexivity.
  - cbn [andb negb orb]. rewrite orb_true_r. destruct (negb _); reflexivity.
Qed.

(* ---------- results: "is Ok or Err" ---------- *)
Definition total {A} (r : res A) : Prop := (exists a, r = Ok a) \/ (exists e, r = Err e).
Lemma total_ok {A} (a : A) : total (Ok a). Proof. left; eauto. Qed.
Lemma total_err {A} e : total (@Err A e). Proof. right; eauto. Qed.
Lemma total_bind {A B} (r : res A) (f : A -> res B) : total r -> (forall a, r = Ok a -> total (f a)) -> total (bind r f).
Proof. intros [[a ->]|[e ->]] H; cbn [bind]; [apply H; reflexivity|apply total_err]. Qed.
#[global] Hint Resolve total_ok total_err : tot.

Lemma parse_key_total t : total (parse_key t).
Proof. rewrite parse_key_spec. destruct (ukey_tok t); auto with tot. Qed.
Lemma parse_tkey_total t : total (parse_tkey t).
Proof. rewrite parse_tkey_spec. destruct (tkey_tok t); auto with tot. Qed.
Lemma parse_type_total t : total (parse_type t).
Proof. rewrite parse_type_spec. destruct (utype_tok t); auto with tot. Qed.
Lemma parse_attribute_total t : total (parse_attribute t).
Proof. rewrite parse_attribute_spec. destruct (attr_tok t); auto with tot. Qed.
Lemma parse_tvalue_total t : total (parse_tvalue t).
Proof. rewrite parse_tvalue_spec. destruct (tvalue_tok t); auto with tot. Qed.
Lemma parse_value_total t : total (parse_value t).
Proof. rewrite parse_value_spec. destruct (priv_tok t); auto with tot. Qed.

(* suffix relation on token lists, to bound fuel *)
Definition shorter (rem toks : list bytes) : Prop := (length rem <= length toks)%nat.

Lemma u_loop_total cur types kws attrs toks :
  total (u_loop cur types kws attrs toks) /\
  (forall u rem, u_loop cur types kws attrs toks = Ok (u, rem) -> shorter rem toks).
Proof.
  revert cur types kws attrs; induction toks as [|t rest IH]; intros cur types kws attrs; cbn [u_loop].
  - split; [auto with tot|]. intros u rem H. injection H as _ <-. unfold shorter; lia.
  - destruct (length t =? 2)%nat.
    + rewrite parse_key_spec. destruct (ukey_tok t); cbn [bind]; [|split; [auto with tot|discriminate]].
      destruct (IH (Some (lower t)) [] (flush cur types kws) attrs) as [T S]. split; [exact T|].
      intros u rem H. specialize (S _ _ H). unfold shorter in *. cbn [length]. lia.
    + destruct (is_some cur && is_type t).
      * rewrite parse_type_spec. destruct (utype_tok t); cbn [bind]; [|split; [auto with tot|discriminate]].
        destruct (drop_true_opt (lower t)).
        -- destruct (IH cur (types ++ [b]) kws attrs) as [T S]. split; [exact T|].
           intros u rem H. specialize (S _ _ H). unfold shorter in *. cbn [length]. lia.
        -- destruct (IH cur types kws attrs) as [T S]. split; [exact T|].
           intros u rem H. specialize (S _ _ H). unfold shorter in *. cbn [length]. lia.
      * destruct (is_attribute t).
        -- rewrite parse_attribute_spec. destruct (attr_tok t); cbn [bind]; [|split; [auto with tot|discriminate]].
           destruct (IH cur types kws (attrs ++ [lower t])) as [T S]. split; [exact T|].
           intros u rem H. specialize (S _ _ H). unfold shorter in *. cbn [length]. lia.
        -- split; [auto with tot|]. intros u rem H. injection H as _ <-. unfold shorter; lia.
Qed.

Lemma drop_while_shorter p l : (length (drop_while p l) <= length l)%nat.
Proof. induction l as [|x l IH]; cbn [drop_while length]; [lia|]. destruct (p x); cbn [length]; lia. Qed.

Lemma langid_from_iter_total toks allow :
  total (langid_from_iter toks allow) /\
  (forall v rem, langid_from_iter toks allow = Ok (v, rem) -> toks <> [] -> (length rem < length toks)%nat).
Proof.
  rewrite langid_from_iter_spec. unfold spec_langid_prefix.
  destruct toks as [|l rest].
  - split; [destruct allow; cbn; auto with tot|]. intros v rem _ H. congruence.
  - destruct (lang_tok l); [|split; [auto with tot|discriminate]].
    destruct (take_script rest) as [sc r1] eqn:Es. destruct (take_region r1) as [rg r2] eqn:Er.
    assert (L1 : (length r1 <= length rest)%nat).
    { destruct rest as [|t r]; cbn [take_script] in Es; [injection Es as _ <-; lia|].
      destruct (script_tok t); injection Es as _ <-; cbn [length]; lia. }
    assert (L2 : (length r2 <= length r1)%nat).
    { destruct r1 as [|t r]; cbn [take_region] in Er; [injection Er as _ <-; lia|].
      destruct (region_tok t); injection Er as _ <-; cbn [length]; lia. }
    pose proof (drop_while_shorter variant_tok r2) as L3.
    split.
    + destruct (negb allow && _); auto with tot.
    + intros v rem H _. destruct (negb allow && _); [discriminate|]. injection H as _ <-. cbn [length]. lia.
Qed.

Lemma t_loop_total fuel : forall cur vals tf tl toks,
  (length toks < fuel)%nat ->
  total (t_loop fuel cur vals tf tl toks) /\
  (forall t rem, t_loop fuel cur vals tf tl toks = Ok (t, rem) -> shorter rem toks).
Proof.
  induction fuel as [|f IH]; intros cur vals tf tl toks Hf; [lia|].
  cbn [t_loop]. destruct toks as [|t rest].
  - split; [auto with tot|]. intros x rem H. injection H as _ <-. unfold shorter; lia.
  - cbn [length] in Hf.
    destruct (tkey_shape t).
    + rewrite parse_tkey_spec. destruct (tkey_tok t); cbn [bind]; [|split; [auto with tot|discriminate]].
      destruct (IH (Some (lower t)) [] (flush cur vals tf) tl rest ltac:(lia)) as [T S]. split; [exact T|].
      intros x rem H. specialize (S _ _ H). unfold shorter in *. cbn [length]. lia.
    + destruct (length t =? 1)%nat.
      * split; [auto with tot|]. intros x rem H. injection H as _ <-. unfold shorter; lia.
      * destruct (is_some cur).
        -- rewrite parse_tvalue_spec. destruct (tvalue_tok t); cbn [bind]; [|split; [auto with tot|discriminate]].
           destruct (drop_true_opt (lower t)).
           ++ destruct (IH cur (vals ++ [b]) tf tl rest ltac:(lia)) as [T S]. split; [exact T|].
              intros x rem H. specialize (S _ _ H). unfold shorter in *. cbn [length]. lia.
           ++ destruct (IH cur vals tf tl rest ltac:(lia)) as [T S]. split; [exact T|].
              intros x rem H. specialize (S _ _ H). unfold shorter in *. cbn [length]. lia.
        -- destruct (is_none tl && is_language_subtag t).
           ++ destruct (langid_from_iter_total (t :: rest) true) as [[[[v rem] E]|[e E]] L]; rewrite E.
              ** assert (length rem < length (t :: rest))%nat as Hl by (apply (L v rem E); congruence).
                 cbn [length] in Hl.
                 destruct (IH cur vals tf (Some v) rem ltac:(lia)) as [T S]. split; [exact T|].
                 intros x rem' H. specialize (S _ _ H). unfold shorter in *. cbn [length]. lia.
              ** split; [auto with tot|discriminate].
           ++ split; [auto with tot|]. intros x rem H. injection H as _ <-. unfold shorter; lia.
Qed.

Lemma t_parse_total toks :
  total (t_parse toks) /\ (forall t rem, t_parse toks = Ok (t, rem) -> shorter rem toks).
Proof. unfold t_parse. apply t_loop_total. lia. Qed.

Lemma x_collect_total toks : total (x_collect toks).
Proof.
  induction toks as [|t rest IH]; cbn [x_collect]; [auto with tot|].
  apply total_bind; [apply parse_value_total|]. intros a _. apply total_bind; [exact IH|]. intros; auto with tot.
Qed.
Lemma x_parse_total toks : total (x_parse toks).
Proof. unfold x_parse. apply total_bind; [apply x_collect_total|]. intros; auto with tot. Qed.

Lemma dispatch_total fuel : forall su st acc toks, (length toks < fuel)%nat -> total (dispatch fuel su st acc toks).
Proof.
  induction fuel as [|f IH]; intros su st acc toks Hf; [lia|].
  cbn [dispatch]. destruct toks as [|t rest]; [auto with tot|]. cbn [length] in Hf.
  destruct (1 <? length t)%nat; [auto with tot|].
  destruct t as [|b r]; [apply IH; lia|].
  destruct (ext_type_from_byte b) as [[| | |c]| | |]; auto with tot.
  - destruct su; [auto with tot|]. destruct (u_loop_total None [] [] [] rest) as [T S]. fold (u_parse rest) in *.
    apply total_bind; [exact T|]. intros [u rem] E. cbn [fst snd]. apply IH. specialize (S _ _ E). unfold shorter in S. lia.
  - destruct st; [auto with tot|]. destruct (t_parse_total rest) as [T S].
    apply total_bind; [exact T|]. intros [u rem] E. cbn [fst snd]. apply IH. specialize (S _ _ E). unfold shorter in S. lia.
  - apply total_bind; [apply x_parse_total|]. intros; auto with tot.
Qed.

Theorem ext_from_iter_total toks : total (ext_from_iter toks).
Proof. unfold ext_from_iter. apply dispatch_total. lia. Qed.

(* C01 for the locale entry points: Ok or Err — never Panic, never OutOfFuel *)
Theorem locale_from_bytes_total s : total (locale_from_bytes s).
Proof.
  unfold locale_from_bytes.
  destruct (langid_from_iter_total (split s) true) as [[[[v rem] E]|[e E]] _]; rewrite E; [|auto with tot].
  apply total_bind; [apply ext_from_iter_total|]. intros; auto with tot.
Qed.
Theorem extmap_from_bytes_total s : total (extmap_from_bytes s).
Proof. apply ext_from_iter_total. Qed.
Theorem langid_from_bytes_total s : total (langid_from_bytes s).
Proof.
  unfold langid_from_bytes. destruct (langid_from_iter_total (split s) false) as [[[[v rem] E]|[e E]] _]; rewrite E; auto with tot.
Qed.

(* C13: every input LanguageIdentifier accepts is accepted by Locale with the same id, no extensions *)
Theorem locale_embeds_langid s v : langid_from_bytes s = Ok v -> locale_from_bytes s = Ok (mkLoc v extmap_default).
Proof.
  unfold langid_from_bytes, locale_from_bytes. rewrite !langid_from_iter_spec.
  destruct (spec_langid_prefix (split s)) as [[v' rem]|]; [|discriminate].
  cbn [negb andb]. destruct rem; cbn [negb]; [|discriminate].
  intros H. injection H as <-. reflexivity.
Qed.
(* ... and the id of any accepted locale is what LanguageIdentifier reads from the longest prefix *)
Theorem locale_id_is_prefix s l : locale_from_bytes s = Ok l ->
  exists rem, spec_langid_prefix (split s) = Some (loc_id l, rem).
Proof.
  unfold locale_from_bytes. rewrite langid_from_iter_spec.
  destruct (spec_langid_prefix (split s)) as [[v' rem]|]; [|discriminate]. cbn [negb andb].
  destruct (ext_from_iter rem); cbn [bind]; try discriminate. intros H. injection H as <-. eauto.
Qed.
